#!/usr/bin/env python3
"""Runs every seeded change in /verif/seeded against the check(s) of the property it breaks; writes seeded/<id>/meta.json
and seeded/RESULTS.json. Applies each patch to /repo and undoes it straight afterwards."""
import json, os, re, subprocess, sys, glob
V = "/verif"
MAP = {"revert_0f3ec0c": ["C18"], "revert_4eae6a8": ["C14", "C15"], "revert_5963580": ["C17", "C03"], "revert_2eedce8": ["C04"],
       "revert_ad59ea5": ["C12"], "revert_89e7027": ["C08"], "revert_6aae983": ["C05"], "revert_47a9c7e": ["C05"], "revert_45a10e3": ["C01", "C10"], "revert_ca3531e": ["C01"], "revert_182a9bb": ["C11", "C02", "C12"], "revert_c0513cb": ["C12", "C10"], "revert_f0353e2": ["C12"], "revert_9cbfd9a": ["C12", "C01"], "revert_d4f0af3": ["C01"]}
def props_of(name):
    for k, v in MAP.items():
        if name.startswith(k): return v
    return [name.split("_")[0]]
res = {}
only = sys.argv[1:]
for d in sorted(glob.glob(V + "/seeded/*/")):
    name = os.path.basename(d.rstrip("/"))
    if only and name not in only: continue
    patch = os.path.join(d, "patch.diff")
    if not os.path.exists(patch): continue
    r = subprocess.run(["git", "-C", "/repo", "apply", patch], capture_output=True, text=True)
    if r.returncode != 0:
        res[name] = {"error": "patch does not apply: " + r.stderr[:200]}; continue
    det = {}
    # the evidence files describe the UNCHANGED tree: keep them aside while a seeded tree is being checked
    saved = {}
    for p in props_of(name):
        ev = os.path.join(V, "evidence", p + ".json")
        if os.path.exists(ev): saved[ev] = open(ev).read()
    try:
        for p in props_of(name):
            out = subprocess.run(["python3", "bin/check", p], cwd=V, capture_output=True, text=True, timeout=1500)
            viol = [l for l in out.stdout.splitlines() if l.startswith("VIOLATION")]
            real = [l for l in viol if "no-failing-input-found" not in l]
            first = None
            if real:
                rp = real[0].split("replay=")[1].split()[0]
                try:
                    hdr = [l for l in open(rp).read().splitlines() if l.startswith("# spec-verdict") or l.startswith("# input")]
                    first = " | ".join(h[2:200] for h in hdr)
                    # the failing input goes into the regression corpus of that property (runs first in every later check);
                    # very long lines (deep nesting, race rounds) are left out: the generators reproduce them
                    body = [l for l in open(rp).read().splitlines() if l and not l.startswith("#")]
                    if body and len(body[0]) < 6000 and " || " not in body[0]:
                        cd = os.path.join(V, "corpus", p); os.makedirs(cd, exist_ok=True)
                        with open(os.path.join(cd, name + ".case"), "w") as cf:
                            cf.write("# failing input found for seeded change %s (%s)\n" % (name, (hdr[0][2:160] if hdr else "")))
                            cf.write(body[0].split(" ", 1)[1] + "\n")
                except Exception: pass
            det[p] = {"exit": out.returncode, "violation_lines": len(viol), "with_failing_input": len(real), "first": first}
    finally:
        subprocess.run(["git", "-C", "/repo", "checkout", "--", "."])
        for ev, text in saved.items():
            open(ev, "w").write(text)
    caught = any(v["exit"] == 1 and v["violation_lines"] > 0 for v in det.values())      # (a crash of the check is not a report)
    res[name] = {"caught": caught, "checks": det}
    notes = ""
    np_ = os.path.join(d, "notes.md")
    if os.path.exists(np_): notes = open(np_).read()[:1500]
    meta = {"breaks_property": props_of(name)[0], "also_run_against": props_of(name)[1:], "kind": "regression (reverse of a fix: commit)" if name.startswith("revert_") else "seeded by an independent sub-agent from the property text only",
            "needs_to_manifest": notes, "confirmed_by": "bin/seed_confirm.sh in a scratch worktree: patch applies, 187 unit + 7 doc tests pass with it, demo fails with it and passes without it" if not name.startswith("revert_") else "the fix: commit's own history (the defect was derived by the machinery before the fix)",
            "ran": ["git -C /repo apply patch.diff", "python3 bin/check %s" % " / ".join(props_of(name)), "git -C /repo checkout -- ."], "result": res[name]}
    json.dump(meta, open(os.path.join(d, "meta.json"), "w"), indent=1)
    print(name, "CAUGHT" if caught else "MISSED", {k: (v["exit"], v["with_failing_input"]) for k, v in det.items()}, flush=True)
old = {}
rp = V + "/seeded/RESULTS.json"
if os.path.exists(rp) and only: old = json.load(open(rp))
old.update(res)
json.dump(old, open(rp, "w"), indent=1)
