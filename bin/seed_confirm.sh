#!/bin/sh
# usage: seed_confirm.sh <seed_dir> <workdir>   -- confirms a seeded change in a scratch worktree of /repo
# prints: CONFIRMED or NOT-CONFIRMED with reasons; leaves the worktree clean
SEED="$1"; WT="$2"
export CARGO_NET_OFFLINE=true
FLAGS=""
if grep -q "verif_hooks" "$SEED/demo.rs" 2>/dev/null; then FLAGS="--cfg expression_engine_verif"; fi
cd "$WT" || exit 2
git checkout -q -- . && git clean -qfd -e target
git apply "$SEED/patch.diff" || { echo "NOT-CONFIRMED: patch does not apply"; exit 1; }
T=$(RUSTFLAGS="$FLAGS" cargo test --offline --target-dir "$WT/target" 2>&1 | grep "test result" | head -1)
echo "suite with patch: $T"
echo "$T" | grep -q "187 passed; 0 failed" || { echo "NOT-CONFIRMED: suite"; git checkout -q -- .; exit 1; }
mkdir -p tests && cp "$SEED/demo.rs" tests/demo.rs
RUSTFLAGS="$FLAGS" timeout 600 cargo test --offline --target-dir "$WT/target" --test demo >/tmp/seedc_with.$$ 2>&1; RC1=$?
git checkout -q -- . ; 
RUSTFLAGS="$FLAGS" timeout 600 cargo test --offline --target-dir "$WT/target" --test demo >/tmp/seedc_without.$$ 2>&1; RC2=$?
rm -rf tests/demo.rs; rmdir tests 2>/dev/null; git clean -qfd -e target
echo "demo with patch rc=$RC1 ; without rc=$RC2"
rm -f /tmp/seedc_with.$$ /tmp/seedc_without.$$
if [ "$RC1" != "0" ] && [ "$RC2" = "0" ]; then echo "CONFIRMED"; else echo "NOT-CONFIRMED"; fi
