#!/bin/sh
# Diagnostic, not a check (not registered in MANIFEST.json): which lines of /repo/src do the correspondence runs of all 18
# quick checks execute? Builds the harness with -C instrument-coverage (nightly toolchain: it ships llvm-cov/llvm-profdata),
# runs every check with that binary, merges the profiles and prints the per-file table plus every line never executed.
# Scratch under /tmp/cov (removed at the end unless KEEP=1). The evidence files are put back afterwards.
set -e
cd /verif
LL=$(dirname $(find /root/.rustup/toolchains/nightly-x86_64-unknown-linux-gnu -name llvm-cov | head -1))
rm -rf /tmp/cov && mkdir -p /tmp/cov/raw
(cd harness && RUSTFLAGS="--cfg expression_engine_verif -C instrument-coverage" CARGO_NET_OFFLINE=true \
   cargo +nightly build --offline --target-dir /tmp/cov/target >/tmp/cov/build.log 2>&1)
cp -r evidence /tmp/cov/evidence.keep
for p in C01 C02 C03 C04 C05 C06 C07 C08 C09 C10 C11 C12 C13 C14 C15 C16 C17 C18; do
  VERIF_IMPL_BIN=/tmp/cov/target/debug/impl_run LLVM_PROFILE_FILE=/tmp/cov/raw/$p-%p-%8m.profraw python3 bin/check $p >/tmp/cov/$p.out 2>&1 || echo "$p exited non-zero"
done
rm -rf evidence && mv /tmp/cov/evidence.keep evidence
$LL/llvm-profdata merge -sparse /tmp/cov/raw/*.profraw -o /tmp/cov/all.profdata
$LL/llvm-cov report /tmp/cov/target/debug/impl_run -instr-profile=/tmp/cov/all.profdata --ignore-filename-regex='(registry|rustc|harness|rustup)'
for f in /repo/src/*.rs; do
  echo "=== never executed in $f"
  $LL/llvm-cov show /tmp/cov/target/debug/impl_run -instr-profile=/tmp/cov/all.profdata $f 2>/dev/null | grep -E "^ +[0-9]+\| +0\|" | cut -c1-160
done
[ "$KEEP" = "1" ] || rm -rf /tmp/cov
