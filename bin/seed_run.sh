#!/bin/sh
# usage: seed_run.sh <seed_dir> <prop> [tier] -- applies the seeded change to /repo, runs the check, undoes it
SEED="$1"; PROP="$2"; TIER="${3:-quick}"
cd /verif
git -C /repo apply "$(realpath $SEED)/patch.diff" || { echo "apply failed"; exit 2; }
# the evidence file describes the unchanged tree: keep it aside while the seeded tree is checked
[ -f "evidence/$PROP.json" ] && cp "evidence/$PROP.json" "/tmp/evidence_$PROP.keep"
python3 bin/check "$PROP" --tier "$TIER" > "/tmp/seedrun_$(basename $SEED)_$PROP.out" 2>&1
RC=$?
git -C /repo checkout -- .
[ -f "/tmp/evidence_$PROP.keep" ] && mv "/tmp/evidence_$PROP.keep" "evidence/$PROP.json"
echo "$(basename $SEED) on $PROP: rc=$RC $(grep -c '^VIOLATION' /tmp/seedrun_$(basename $SEED)_$PROP.out) violation lines; first: $(grep '^VIOLATION' /tmp/seedrun_$(basename $SEED)_$PROP.out | head -1)"
