#!/usr/bin/env python3
"""Records the content hashes of /repo's source as the tree this development was last validated against (run by hand after a
full validation: all quick checks under several seeds, the thorough tiers, the whole seed suite). A check that finds the
source different from this record and no violation runs further generator rounds before it says the property held."""
import json, os, subprocess, sys
sys.path.insert(0, os.path.dirname(os.path.dirname(os.path.abspath(__file__))))
from vlib import build
head = subprocess.run(["git", "-C", build.REPO, "rev-parse", "HEAD"], capture_output=True, text=True).stdout.strip()
json.dump({"commit": head, "files": build.source_hashes()}, open(os.path.join(build.VERIF, "pinned_source.json"), "w"), indent=1, sort_keys=True)
print("pinned", head)
