// Scripted handlers, contexts, EXEC with watchdog: the impl side of the history ops.
use crate::proto::*;
use expression_engine::{Context, InfixOpAssociativity, InfixOpType, Value};
use std::collections::HashMap;
use std::panic::{catch_unwind, AssertUnwindSafe};
use std::sync::{Arc, Mutex, OnceLock};

#[derive(Clone, Debug)]
pub enum Action {
    Parse(String),
    Exec(String, u32),
    RegF(String, u32),
    RegP(String, u32),
    RegS(String, u32),
    RegI(String, i32, bool, bool, u32),
    Lock(u32),
    // the handler takes this many milliseconds (timing only: no effect on any state)
    Sleep(u64),
    // the handler locks the public handle of a context and, while it holds the guard, performs another action
    LockWhile(u32, Box<Action>),
}

#[derive(Clone, Debug)]
pub enum Script {
    Ret(Value),
    Arg(usize),
    Fail,
    // an Err of another kind than Fail's: the error of a nested evaluation handed on (1: a call of an unregistered function,
    // 2: a division by zero, 3: a parse error, 4: an unknown operator's operand error)
    FailKind(u8),
    Panic,
    Seq(Action, Box<Script>),
    Count(Vec<Script>),
}

pub struct World {
    pub scripts: HashMap<u32, Script>,
    pub log: Vec<(u32, Vec<Value>)>,
    pub ctxs: HashMap<u32, Context>,
    pub ctx_funcs: HashMap<(u32, String), u32>,
}

pub fn world() -> &'static Mutex<World> {
    static W: OnceLock<Mutex<World>> = OnceLock::new();
    W.get_or_init(|| {
        Mutex::new(World { scripts: HashMap::new(), log: Vec::new(), ctxs: HashMap::new(), ctx_funcs: HashMap::new() })
    })
}

fn wlock() -> std::sync::MutexGuard<'static, World> {
    // the harness's own bookkeeping must survive a panicking handler
    world().lock().unwrap_or_else(|e| e.into_inner())
}

pub fn share(c: &Context) -> Context {
    Context { 0: c.0.clone() }
}

pub fn ctx(id: u32) -> Context {
    let mut w = wlock();
    share(w.ctxs.entry(id).or_insert_with(Context::new))
}

// ---------- values
pub fn pr_dec(d: &rust_decimal::Decimal) -> String {
    let m = d.mantissa().unsigned_abs();
    let neg = d.is_sign_negative() && m != 0;
    format!("n({},{:x},{})", if neg { 1 } else { 0 }, m, d.scale())
}

pub fn pr_value(v: &Value) -> String {
    match v {
        Value::String(s) => format!("s({})", hex(s)),
        Value::Number(d) => pr_dec(d),
        Value::Bool(b) => format!("b({})", if *b { 1 } else { 0 }),
        Value::List(l) => format!("l({})", l.iter().map(pr_value).collect::<Vec<_>>().join(";")),
        Value::Map(m) => format!(
            "m({})",
            m.iter().map(|(k, v)| format!("{}={}", pr_value(k), pr_value(v))).collect::<Vec<_>>().join(";")
        ),
        Value::None => "N".to_string(),
    }
}

pub struct Cur<'a> {
    s: &'a [u8],
    p: usize,
}

impl<'a> Cur<'a> {
    pub fn new(s: &'a str) -> Self {
        Cur { s: s.as_bytes(), p: 0 }
    }
    fn peek(&self) -> u8 {
        if self.p < self.s.len() { self.s[self.p] } else { 0 }
    }
    fn eat(&mut self, c: u8) {
        assert!(self.peek() == c, "expected {} at {}", c as char, self.p);
        self.p += 1;
    }
    fn until(&mut self, stop: u8) -> String {
        let st = self.p;
        while self.p < self.s.len() && self.s[self.p] != stop {
            self.p += 1;
        }
        String::from_utf8(self.s[st..self.p].to_vec()).unwrap()
    }
    fn field(&mut self) -> String {
        let f = self.until(b'.');
        self.eat(b'.');
        f
    }
}

pub fn p_value(c: &mut Cur) -> Value {
    match c.peek() {
        b'N' => { c.p += 1; Value::None }
        b'n' => {
            c.eat(b'n'); c.eat(b'(');
            let sg = c.until(b','); c.eat(b',');
            let m = c.until(b','); c.eat(b',');
            let sc = c.until(b')'); c.eat(b')');
            let mant = u128::from_str_radix(&m, 16).unwrap();
            let mut d = rust_decimal::Decimal::from_i128_with_scale(mant as i128, sc.parse().unwrap());
            if sg == "1" && mant != 0 { d.set_sign_negative(true); }
            Value::Number(d)
        }
        b's' => { c.eat(b's'); c.eat(b'('); let h = c.until(b')'); c.eat(b')'); Value::String(unhex(&h)) }
        b'b' => { c.eat(b'b'); c.eat(b'('); let h = c.until(b')'); c.eat(b')'); Value::Bool(h == "1") }
        b'l' => {
            c.eat(b'l'); c.eat(b'(');
            let mut items = Vec::new();
            if c.peek() == b')' { c.eat(b')'); } else {
                loop {
                    items.push(p_value(c));
                    if c.peek() == b';' { c.eat(b';'); } else { c.eat(b')'); break; }
                }
            }
            Value::List(items)
        }
        b'm' => {
            c.eat(b'm'); c.eat(b'(');
            let mut items = Vec::new();
            if c.peek() == b')' { c.eat(b')'); } else {
                loop {
                    let k = p_value(c); c.eat(b'='); let v = p_value(c);
                    items.push((k, v));
                    if c.peek() == b';' { c.eat(b';'); } else { c.eat(b')'); break; }
                }
            }
            Value::Map(items)
        }
        x => panic!("bad value char {}", x as char),
    }
}

fn p_action(c: &mut Cur) -> Action {
    let k = c.peek();
    c.p += 1;
    match k {
        b'P' => Action::Parse(unhex(&c.field())),
        b'X' => { let ctx = c.field(); let src = c.field(); Action::Exec(unhex(&src), ctx.parse().unwrap()) }
        b'F' => { let n = c.field(); let h = c.field(); Action::RegF(unhex(&n), h.parse().unwrap()) }
        b'U' => { let n = c.field(); let h = c.field(); Action::RegP(unhex(&n), h.parse().unwrap()) }
        b'S' => { let n = c.field(); let h = c.field(); Action::RegS(unhex(&n), h.parse().unwrap()) }
        b'I' => {
            let n = c.field(); let p = c.field(); let se = c.field(); let ri = c.field(); let h = c.field();
            Action::RegI(unhex(&n), parse_hex_i64(&p) as i32, se == "1", ri == "1", h.parse().unwrap())
        }
        b'K' => Action::Lock(c.field().parse().unwrap()),
        b'Z' => Action::Sleep(c.field().parse().unwrap()),
        b'Y' => { let cx: u32 = c.field().parse().unwrap(); let inner = p_action(c); Action::LockWhile(cx, Box::new(inner)) }
        _ => panic!("bad action"),
    }
}

pub fn p_script(c: &mut Cur) -> Script {
    let k = c.peek();
    c.p += 1;
    match k {
        b'r' => Script::Ret(p_value(c)),
        b'a' => Script::Arg(c.field().parse().unwrap()),
        b'e' => Script::Fail,
        b'E' => { let k = c.peek() - b'0'; c.p += 1; Script::FailKind(k) }
        b'p' => Script::Panic,
        b'q' => { let a = p_action(c); let k = p_script(c); Script::Seq(a, Box::new(k)) }
        b'k' => {
            c.eat(b'[');
            let mut items = Vec::new();
            loop {
                items.push(p_script(c));
                if c.peek() == b',' { c.eat(b','); } else { c.eat(b']'); break; }
            }
            Script::Count(items)
        }
        _ => panic!("bad script"),
    }
}

// ---------- handlers
fn an_error() -> expression_engine::Result<Value> {
    // the crate's Error type is private: obtain an Err by asking None for a number
    Value::None.decimal().map(Value::Number)
}

/// handlers with id >= 900 own a value whose Drop takes 150 ms (replacing such a handler keeps whoever drops it busy)
pub struct SlowDrop(pub u32);
impl Drop for SlowDrop {
    fn drop(&mut self) {
        if self.0 >= 900 {
            std::thread::sleep(std::time::Duration::from_millis(150));
        }
    }
}

pub fn register_infix(name: &str, prec: i32, setter: bool, right: bool, hid: u32) {
    let ty = if setter { InfixOpType::SETTER } else { InfixOpType::CALC };
    let assoc = if right { InfixOpAssociativity::RIGHT } else { InfixOpAssociativity::LEFT };
    let g = SlowDrop(hid);
    expression_engine::register_infix_op(name, prec, ty, assoc, Arc::new(move |a, b| { let keep = &g; invoke(keep.0, vec![a, b]) }));
}
pub fn register_prefix(name: &str, hid: u32) {
    let g = SlowDrop(hid);
    expression_engine::register_prefix_op(name, Arc::new(move |a| { let keep = &g; invoke(keep.0, vec![a]) }));
}
pub fn register_postfix(name: &str, hid: u32) {
    let g = SlowDrop(hid);
    expression_engine::register_postfix_op(name, Arc::new(move |a| { let keep = &g; invoke(keep.0, vec![a]) }));
}
pub fn register_function(name: &str, hid: u32) {
    let g = SlowDrop(hid);
    expression_engine::register_function(name, Arc::new(move |args| { let keep = &g; invoke(keep.0, args) }));
}
pub fn set_ctx_func(c: u32, name: &str, hid: u32) {
    let mut cx = ctx(c);
    cx.set_func(name, Arc::new(move |args| invoke(hid, args)));
    wlock().ctx_funcs.insert((c, name.to_string()), hid);
}

fn run_action(a: &Action) {
    match a {
        Action::Parse(s) => { let _ = expression_engine::parse_expression(s); }
        Action::Exec(s, c) => { let cx = ctx(*c); let _ = expression_engine::execute(s, cx); }
        Action::RegF(n, h) => register_function(n, *h),
        Action::RegP(n, h) => register_prefix(n, *h),
        Action::RegS(n, h) => register_postfix(n, *h),
        Action::RegI(n, p, se, ri, h) => register_infix(n, *p, *se, *ri, *h),
        Action::Lock(c) => { let cx = ctx(*c); let g = cx.0.lock().unwrap(); drop(g); }
        Action::Sleep(ms) => std::thread::sleep(std::time::Duration::from_millis(*ms)),
        Action::LockWhile(c, inner) => { let cx = ctx(*c); let g = cx.0.lock().unwrap(); run_action(inner); drop(g); }
    }
}

fn run_script(s: &Script, n: usize, args: &Vec<Value>) -> expression_engine::Result<Value> {
    match s {
        Script::Ret(v) => Ok(v.clone()),
        Script::Arg(i) => Ok(args.get(*i).cloned().unwrap_or(Value::None)),
        Script::Fail => an_error(),
        Script::FailKind(k) => {
            let src = match k { 1 => "no_such_function__(1)", 2 => "1 / 0", 3 => "(1", _ => "- 'a'" };
            match expression_engine::execute(src, expression_engine::create_context!()) {
                Err(e) => Err(e),
                Ok(_) => an_error(),
            }
        }
        Script::Panic => panic!("scripted handler panic"),
        Script::Seq(a, k) => { run_action(a); run_script(k, n, args) }
        Script::Count(l) => {
            if l.is_empty() { return Ok(Value::None); }
            let i = if n < l.len() { n } else { l.len() - 1 };
            run_script(&l[i], n, args)
        }
    }
}

pub fn invoke(hid: u32, args: Vec<Value>) -> expression_engine::Result<Value> {
    let (script, n) = {
        let mut w = wlock();
        let n = w.log.iter().filter(|(h, _)| *h == hid).count();
        w.log.push((hid, args.clone()));
        (w.scripts.get(&hid).cloned(), n)
    };
    match script {
        Some(s) => run_script(&s, n, &args),
        None => Ok(Value::None),
    }
}

// ---------- observables
pub fn pr_log() -> String {
    let w = wlock();
    let items: Vec<String> = w.log.iter()
        .map(|(h, args)| format!("{}({})", h, args.iter().map(pr_value).collect::<Vec<_>>().join(",")))
        .collect();
    format!("L[{}]", items.join(";"))
}

pub fn pr_ctx(c: u32) -> String {
    let cx = ctx(c);
    let keys: Vec<String> = match cx.0.lock() {
        Ok(g) => g.keys().cloned().collect(),
        Err(_) => return "C!POISONED".to_string(),
    };
    let mut items: Vec<(String, String)> = Vec::new();
    for k in keys {
        let shown = match cx.get_variable(&k) {
            Some(v) => pr_value(&v),
            None => {
                let w = wlock();
                match w.ctx_funcs.get(&(c, k.clone())) { Some(h) => format!("F{}", h), None => "F?".to_string() }
            }
        };
        items.push((hex(&k), shown));
    }
    items.sort();
    format!("C{{{}}}", items.iter().map(|(k, v)| format!("{}={}", k, v)).collect::<Vec<_>>().join(";"))
}

pub const WATCHDOG_MS: u64 = 8000;
pub static PARALLEL: std::sync::atomic::AtomicBool = std::sync::atomic::AtomicBool::new(false);

thread_local! {
    /// set on the persistent worker threads of `@t/` ops: EXEC runs on the calling thread itself
    pub static INLINE: std::cell::Cell<bool> = std::cell::Cell::new(false);
}

fn exec_here(cx: Context, src: &str, via_execute: bool) -> String {
    let r = catch_unwind(AssertUnwindSafe(|| {
        if via_execute {
            expression_engine::execute(src, cx).map(|v| pr_value(&v)).map_err(|_| ())
        } else {
            let mut cx = cx;
            match expression_engine::parse_expression(src) {
                Ok(ast) => ast.exec(&mut cx).map(|v| pr_value(&v)).map_err(|_| ()),
                Err(_) => Err(()),
            }
        }
    }));
    match r { Ok(Ok(v)) => format!("OK:{}", v), Ok(Err(())) => "ERR".to_string(), Err(_) => "PANIC".to_string() }
}

/// parse_expression(s)?.exec(&mut ctx) on a worker thread; DEADLOCK when it does not come back
pub fn op_exec(c: u32, src: String, via_execute: bool) -> (String, bool) {
    if INLINE.with(|f| f.get()) {
        wlock().log.clear();
        let r = exec_here(ctx(c), &src, via_execute);
        return (format!("{}:{}:{}", r, pr_log(), pr_ctx(c)), false);
    }
    if !PARALLEL.load(std::sync::atomic::Ordering::SeqCst) {
        wlock().log.clear();
    }
    let cx = ctx(c);
    let (tx, rx) = std::sync::mpsc::channel();
    std::thread::Builder::new().stack_size(2 * 1024 * 1024).spawn(move || {
        let r = catch_unwind(AssertUnwindSafe(|| {
            if via_execute {
                expression_engine::execute(&src, cx).map(|v| pr_value(&v)).map_err(|_| ())
            } else {
                let mut cx = cx;
                match expression_engine::parse_expression(&src) {
                    Ok(ast) => ast.exec(&mut cx).map(|v| pr_value(&v)).map_err(|_| ()),
                    Err(_) => Err(()),
                }
            }
        }));
        let _ = tx.send(match r { Ok(Ok(v)) => format!("OK:{}", v), Ok(Err(())) => "ERR".to_string(), Err(_) => "PANIC".to_string() });
    }).unwrap();
    match rx.recv_timeout(std::time::Duration::from_millis(WATCHDOG_MS)) {
        Ok(r) => (format!("{}:{}:{}", r, pr_log(), pr_ctx(c)), false),
        Err(_) => ("DEADLOCK".to_string(), true),
    }
}
