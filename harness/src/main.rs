// impl_run: runs the real crate on the line protocol of DESIGN.md 4.2 and prints canonical observables.
use expression_engine::verif_hooks;
use expression_engine::{ExprAST, InfixOpAssociativity, InfixOpType, Value};
use std::io::{BufRead, Write};
use std::panic::{catch_unwind, AssertUnwindSafe};
use std::sync::Arc;

mod proto;
use proto::*;
mod hist;

use hist::pr_dec;

fn pr_ast(e: &ExprAST) -> String {
    use verif_hooks::Literal;
    match e {
        ExprAST::Literal(Literal::Number(d)) => pr_dec(d),
        ExprAST::Literal(Literal::Bool(b)) => format!("b({})", if *b { 1 } else { 0 }),
        ExprAST::Literal(Literal::String(s)) => format!("s({})", hex(s)),
        ExprAST::Unary(op, e) => format!("U({},{})", hex(op), pr_ast(e)),
        ExprAST::Binary(op, l, r) => format!("B({},{},{})", hex(op), pr_ast(l), pr_ast(r)),
        ExprAST::Postfix(e, op) => format!("P({},{})", pr_ast(e), hex(op)),
        ExprAST::Ternary(c, a, b) => format!("T({},{},{})", pr_ast(c), pr_ast(a), pr_ast(b)),
        ExprAST::Reference(n) => format!("R({})", hex(n)),
        ExprAST::Function(n, args) => {
            let mut v = vec![hex(n)];
            v.extend(args.iter().map(pr_ast));
            format!("F({})", v.join(";"))
        }
        ExprAST::List(es) => format!("L({})", es.iter().map(pr_ast).collect::<Vec<_>>().join(";")),
        ExprAST::Map(kvs) => format!(
            "M({})",
            kvs.iter().map(|(k, v)| format!("{}={}", pr_ast(k), pr_ast(v))).collect::<Vec<_>>().join(";")
        ),
        ExprAST::Stmt(es) => format!("S({})", es.iter().map(pr_ast).collect::<Vec<_>>().join(";")),
        ExprAST::None => "N".to_string(),
    }
}

fn guarded<F: FnOnce() -> String>(f: F) -> String {
    match catch_unwind(AssertUnwindSafe(f)) {
        Ok(s) => s,
        Err(_) => "PANIC".to_string(),
    }
}

fn op_lex(s: &str) -> String {
    guarded(|| {
        let (toks, eof) = verif_hooks::tokenize(s);
        let mut out = Vec::new();
        for (kind, text, a, b) in toks {
            let txt = match kind {
                "num" => {
                    // text = "neg/mantissa/scale"
                    let parts: Vec<&str> = text.split('/').collect();
                    let m: u128 = parts[1].parse().unwrap();
                    let neg = parts[0] == "true" && m != 0;
                    format!("n({},{:x},{})", if neg { 1 } else { 0 }, m, parts[2])
                }
                "bool" => (if text == "true" { "1" } else { "0" }).to_string(),
                _ => hex(&text),
            };
            out.push(format!("{}.{}.{}.{}", kind, txt, a, b));
        }
        format!("T[{}]:{}", out.join(";"), if eof { "EOF" } else { "ERR" })
    })
}

fn op_parse(s: &str) -> String {
    guarded(|| match expression_engine::parse_expression(s) {
        Ok(ast) => {
            let a = pr_ast(&ast);
            let x = guarded(|| hex(&ast.expr()));
            let d = guarded(|| hex(&ast.describe()));
            format!("OK:{}:{}:{}", a, x, d)
        }
        Err(_) => "ERR".to_string(),
    })
}

fn op_rt(s: &str) -> String {
    guarded(|| match expression_engine::parse_expression(s) {
        Ok(ast) => {
            let x = ast.expr();
            let second = guarded(|| match expression_engine::parse_expression(&x) {
                Ok(ast2) => format!("OK;{};{}", pr_ast(&ast2), hex(&ast2.expr())),
                Err(_) => "ERR".to_string(),
            });
            format!("OK:{}:{}:{}", pr_ast(&ast), hex(&x), second)
        }
        Err(_) => "ERR".to_string(),
    })
}

fn mark(tag: String, args: Vec<String>) -> String {
    let mut s = format!("<{}", tag);
    for a in args {
        s.push('|');
        s.push_str(&a);
    }
    s.push('>');
    s
}

fn op_sd(kind: &str, name: String) {
    let mut m = verif_hooks::DescriptorManager::new();
    match kind {
        "U" => m.set_unary_descriptor(name, Arc::new(|o, r| mark(format!("U{}", o), vec![o, r]))),
        "B" => m.set_binary_descriptor(name, Arc::new(|o, l, r| mark(format!("B{}", o), vec![o, l, r]))),
        "P" => m.set_postfix_descriptor(name, Arc::new(|l, o| mark(format!("P{}", o), vec![l, o]))),
        "F" => m.set_function_descriptor(
            name,
            Arc::new(|n, ps| {
                let mut v = vec![n.clone()];
                v.extend(ps);
                mark(format!("F{}", n), v)
            }),
        ),
        "R" => m.set_reference_descriptor(name, Arc::new(|n| mark(format!("R{}", n), vec![n]))),
        "T" => m.set_ternary_descriptor(Arc::new(|c, a, b| mark("T".to_string(), vec![c, a, b]))),
        "L" => m.set_list_descriptor(Arc::new(|ps| mark("L".to_string(), ps))),
        "M" => m.set_map_descriptor(Arc::new(|kvs| {
            let mut v = Vec::new();
            for (k, x) in kvs {
                v.push(k);
                v.push(x);
            }
            mark("M".to_string(), v)
        })),
        "C" => m.set_chain_descriptor(Arc::new(|ps| mark("C".to_string(), ps))),
        _ => panic!("bad SD kind"),
    }
}

fn run_op(op: &str) -> String {
    let parts: Vec<&str> = op.split(':').collect();
    match parts.as_slice() {
        ["LEX", h] => op_lex(&unhex(h)),
        ["PARSE", h] => op_parse(&unhex(h)),
        ["RT", h] => op_rt(&unhex(h)),
        ["H", hid, ..] => {
            let script_text = op.splitn(3, ':').nth(2).unwrap_or("");
            let sc = hist::p_script(&mut hist::Cur::new(script_text));
            hist::world().lock().unwrap().scripts.insert(hid.parse().unwrap(), sc);
            "-".to_string()
        }
        ["REGI", name, prec, setter, right, hid] => {
            hist::register_infix(&unhex(name), parse_hex_i64(prec) as i32, *setter == "1", *right == "1", hid.parse().unwrap());
            "-".to_string()
        }
        ["REGP", name, hid] => { hist::register_prefix(&unhex(name), hid.parse().unwrap()); "-".to_string() }
        ["REGS", name, hid] => { hist::register_postfix(&unhex(name), hid.parse().unwrap()); "-".to_string() }
        ["REGF", name, hid] => { hist::register_function(&unhex(name), hid.parse().unwrap()); "-".to_string() }
        ["CV", c, name, ..] => {
            let vt = op.splitn(4, ':').nth(3).unwrap_or("N");
            let v = hist::p_value(&mut hist::Cur::new(vt));
            hist::ctx(c.parse().unwrap()).set_variable(&unhex(name), v);
            "-".to_string()
        }
        ["CF", c, name, hid] => { hist::set_ctx_func(c.parse().unwrap(), &unhex(name), hid.parse().unwrap()); "-".to_string() }
        ["EXEC", c, h] | ["EXECUTE", c, h] => {
            let (r, dead) = hist::op_exec(c.parse().unwrap(), unhex(h), parts[0] == "EXECUTE");
            if dead { DEAD.store(true, std::sync::atomic::Ordering::SeqCst); }
            r
        }
        ["CD", c] => guarded(|| hist::pr_ctx(c.parse().unwrap())),
        ["SD", kind, name] => {
            op_sd(kind, unhex(name));
            "-".to_string()
        }
        _ => "?UNSUPPORTED".to_string(),
    }
}

static DEAD: std::sync::atomic::AtomicBool = std::sync::atomic::AtomicBool::new(false);

fn needs_fresh_process(ops: &[&str]) -> bool {
    ops.iter().any(|o| o.starts_with("REG") || o.starts_with("SD:") || o.starts_with("H:") || o.starts_with("CF:"))
}

fn run_line_here(line: &str) -> String {
    {
        let mut w = hist::world().lock().unwrap_or_else(|e| e.into_inner());
        w.scripts.clear(); w.log.clear(); w.ctxs.clear(); w.ctx_funcs.clear();
    }
    let mut it = line.split(' ');
    let id = it.next().unwrap_or("");
    let ops: Vec<&str> = it.collect();
    let mut res: Vec<String> = Vec::new();
    for o in ops.iter() {
        if DEAD.load(std::sync::atomic::Ordering::SeqCst) {
            res.push("SKIP".to_string());
        } else {
            res.push(guarded(|| run_op(o)));
        }
    }
    format!("{} {}", id, res.join(" "))
}

// run one line on a worker thread with the default spawned-thread stack (2 MiB)
fn run_line_threaded(line: String) -> String {
    let id = line.split(' ').next().unwrap_or("").to_string();
    let h = std::thread::Builder::new()
        .stack_size(2 * 1024 * 1024)
        .spawn(move || run_line_here(&line))
        .unwrap();
    match h.join() {
        Ok(s) => s,
        Err(_) => format!("{} PANIC", id),
    }
}

fn run_line_in_child(line: &str) -> String {
    let id = line.split(' ').next().unwrap_or("");
    let exe = std::env::current_exe().unwrap();
    let mut child = std::process::Command::new(exe)
        .arg("--one")
        .stdin(std::process::Stdio::piped())
        .stdout(std::process::Stdio::piped())
        .stderr(std::process::Stdio::null())
        .spawn()
        .unwrap();
    {
        let mut stdin = child.stdin.take().unwrap();
        let _ = stdin.write_all(line.as_bytes());
        let _ = stdin.write_all(b"\n");
    }
    let out = child.wait_with_output().unwrap();
    let text = String::from_utf8_lossy(&out.stdout).trim_end().to_string();
    if out.status.success() && !text.is_empty() {
        text
    } else {
        format!("{} ABORT", id)
    }
}

fn dump_table() {
    let r = verif_hooks::dump_registries();
    for (name, prec, setter, right) in r.infix {
        println!("I {} {} {} {}", hex(&name), prec, if setter { 1 } else { 0 }, if right { 1 } else { 0 });
    }
    for name in r.prefix {
        println!("P {}", hex(&name));
    }
    for name in r.postfix {
        println!("S {}", hex(&name));
    }
    for name in r.functions {
        println!("F {}", hex(&name));
    }
}

fn main() {
    std::panic::set_hook(Box::new(|_| {}));
    let args: Vec<String> = std::env::args().collect();
    if args.iter().any(|a| a == "--dump-table") {
        dump_table();
        return;
    }
    let one = args.iter().any(|a| a == "--one");
    let isolate_all = args.iter().any(|a| a == "--isolate");
    let stdin = std::io::stdin();
    let stdout = std::io::stdout();
    let mut out = std::io::BufWriter::new(stdout.lock());
    for line in stdin.lock().lines() {
        let line = match line {
            Ok(l) => l,
            Err(_) => break,
        };
        if line.trim().is_empty() {
            continue;
        }
        let res = if one {
            run_line_threaded(line)
        } else {
            let ops: Vec<&str> = line.split(' ').skip(1).collect();
            if isolate_all || line.starts_with('!') || needs_fresh_process(&ops) {
                run_line_in_child(&line)
            } else {
                run_line_threaded(line)
            }
        };
        let _ = writeln!(out, "{}", res);
        if one {
            let _ = out.flush();
        }
        if DEAD.load(std::sync::atomic::Ordering::SeqCst) {
            let _ = out.flush();
            std::process::exit(0);
        }
    }
    let _ = out.flush();
}
