// impl_run: runs the real crate on the line protocol of DESIGN.md 4.2 and prints canonical observables.
use expression_engine::verif_hooks;
use expression_engine::{ExprAST, InfixOpAssociativity, InfixOpType, Value};
use std::io::{BufRead, Write};
use std::panic::{catch_unwind, AssertUnwindSafe};
use std::sync::Arc;

mod proto;
use proto::*;
mod hist;

use hist::pr_dec;

fn pr_ast(e: &ExprAST) -> String {
    use verif_hooks::Literal;
    match e {
        ExprAST::Literal(Literal::Number(d)) => pr_dec(d),
        ExprAST::Literal(Literal::Bool(b)) => format!("b({})", if *b { 1 } else { 0 }),
        ExprAST::Literal(Literal::String(s)) => format!("s({})", hex(s)),
        ExprAST::Unary(op, e) => format!("U({},{})", hex(op), pr_ast(e)),
        ExprAST::Binary(op, l, r) => format!("B({},{},{})", hex(op), pr_ast(l), pr_ast(r)),
        ExprAST::Postfix(e, op) => format!("P({},{})", pr_ast(e), hex(op)),
        ExprAST::Ternary(c, a, b) => format!("T({},{},{})", pr_ast(c), pr_ast(a), pr_ast(b)),
        ExprAST::Reference(n) => format!("R({})", hex(n)),
        ExprAST::Function(n, args) => {
            let mut v = vec![hex(n)];
            v.extend(args.iter().map(pr_ast));
            format!("F({})", v.join(";"))
        }
        ExprAST::List(es) => format!("L({})", es.iter().map(pr_ast).collect::<Vec<_>>().join(";")),
        ExprAST::Map(kvs) => format!(
            "M({})",
            kvs.iter().map(|(k, v)| format!("{}={}", pr_ast(k), pr_ast(v))).collect::<Vec<_>>().join(";")
        ),
        ExprAST::Stmt(es) => format!("S({})", es.iter().map(pr_ast).collect::<Vec<_>>().join(";")),
        ExprAST::None => "N".to_string(),
    }
}

fn guarded<F: FnOnce() -> String>(f: F) -> String {
    match catch_unwind(AssertUnwindSafe(f)) {
        Ok(s) => s,
        Err(_) => "PANIC".to_string(),
    }
}

fn op_lex(s: &str) -> String {
    guarded(|| {
        let (toks, eof) = verif_hooks::tokenize(s);
        let mut out = Vec::new();
        for (kind, text, a, b) in toks {
            let txt = match kind {
                "num" => {
                    // text = "neg/mantissa/scale"
                    let parts: Vec<&str> = text.split('/').collect();
                    let m: u128 = parts[1].parse().unwrap();
                    let neg = parts[0] == "true" && m != 0;
                    format!("n({},{:x},{})", if neg { 1 } else { 0 }, m, parts[2])
                }
                "bool" => (if text == "true" { "1" } else { "0" }).to_string(),
                _ => hex(&text),
            };
            out.push(format!("{}.{}.{}.{}", kind, txt, a, b));
        }
        format!("T[{}]:{}", out.join(";"), if eof { "EOF" } else { "ERR" })
    })
}

fn op_parse(s: &str) -> String {
    guarded(|| match expression_engine::parse_expression(s) {
        Ok(ast) => {
            let a = pr_ast(&ast);
            let x = guarded(|| hex(&ast.expr()));
            let d = guarded(|| hex(&ast.describe()));
            format!("OK:{}:{}:{}", a, x, d)
        }
        Err(_) => "ERR".to_string(),
    })
}

fn op_rt(s: &str) -> String {
    guarded(|| match expression_engine::parse_expression(s) {
        Ok(ast) => {
            let x = ast.expr();
            let second = guarded(|| match expression_engine::parse_expression(&x) {
                Ok(ast2) => format!("OK;{};{}", pr_ast(&ast2), hex(&ast2.expr())),
                Err(_) => "ERR".to_string(),
            });
            format!("OK:{}:{}:{}", pr_ast(&ast), hex(&x), second)
        }
        Err(_) => "ERR".to_string(),
    })
}

fn mark(tag: String, args: Vec<String>) -> String {
    let mut s = format!("<{}", tag);
    for a in args {
        s.push('|');
        s.push_str(&a);
    }
    s.push('>');
    s
}

fn op_sd(kind: &str, name: String) {
    let mut m = verif_hooks::DescriptorManager::new();
    match kind {
        "U" => m.set_unary_descriptor(name, Arc::new(|o, r| mark(format!("U{}", o), vec![o, r]))),
        "B" => m.set_binary_descriptor(name, Arc::new(|o, l, r| mark(format!("B{}", o), vec![o, l, r]))),
        "P" => m.set_postfix_descriptor(name, Arc::new(|l, o| mark(format!("P{}", o), vec![l, o]))),
        "F" => m.set_function_descriptor(
            name,
            Arc::new(|n, ps| {
                let mut v = vec![n.clone()];
                v.extend(ps);
                mark(format!("F{}", n), v)
            }),
        ),
        "R" => m.set_reference_descriptor(name, Arc::new(|n| mark(format!("R{}", n), vec![n]))),
        "T" => m.set_ternary_descriptor(Arc::new(|c, a, b| mark("T".to_string(), vec![c, a, b]))),
        "L" => m.set_list_descriptor(Arc::new(|ps| mark("L".to_string(), ps))),
        "M" => m.set_map_descriptor(Arc::new(|kvs| {
            let mut v = Vec::new();
            for (k, x) in kvs {
                v.push(k);
                v.push(x);
            }
            mark("M".to_string(), v)
        })),
        "C" => m.set_chain_descriptor(Arc::new(|ps| mark("C".to_string(), ps))),
        _ => panic!("bad SD kind"),
    }
}

// a persistent worker thread: jobs carry their own reply channel, so calls made to DIFFERENT workers from different threads
// run concurrently (the table of workers is locked only to find or create the worker)
type Job = (String, std::sync::mpsc::Sender<String>);
type Worker = std::sync::mpsc::Sender<Job>;

fn workers() -> &'static std::sync::Mutex<std::collections::HashMap<String, Worker>> {
    static W: std::sync::OnceLock<std::sync::Mutex<std::collections::HashMap<String, Worker>>> = std::sync::OnceLock::new();
    W.get_or_init(|| std::sync::Mutex::new(std::collections::HashMap::new()))
}

// `@t/OP`: run OP on the persistent worker thread named t (created on first use) and wait for it
fn run_on_worker(t: &str, op: &str) -> String {
    let tx = {
        let mut ws = workers().lock().unwrap();
        if !ws.contains_key(t) {
            let (tx_op, rx_op) = std::sync::mpsc::channel::<Job>();
            std::thread::Builder::new().stack_size(2 * 1024 * 1024).spawn(move || {
                hist::INLINE.with(|f| f.set(true));
                while let Ok((op, reply)) = rx_op.recv() {
                    let r = guarded(|| run_op(&op));
                    let _ = reply.send(r);
                }
            }).unwrap();
            ws.insert(t.to_string(), tx_op);
        }
        ws.get(t).unwrap().clone()
    };
    let (tx_res, rx_res) = std::sync::mpsc::channel::<String>();
    if tx.send((op.to_string(), tx_res)).is_err() { return "PANIC".to_string(); }
    match rx_res.recv_timeout(std::time::Duration::from_millis(hist::WATCHDOG_MS)) {
        Ok(r) => r,
        Err(_) => { DEAD.store(true, std::sync::atomic::Ordering::SeqCst); "DEADLOCK".to_string() }
    }
}

fn run_op(op: &str) -> String {
    // `~ms/OP`: wait ms milliseconds, then run OP (to place a call inside another call's window)
    if let Some(rest) = op.strip_prefix('~') {
        if let Some((ms, inner)) = rest.split_once('/') {
            // `~ms/OP` sleeps; `~u<micros>/OP` and `~n<nanos>/OP` spin for that long (a sleep cannot be that short): used to
            // sweep the instant of a registration across the first microseconds of the calls it races
            if let Some(us) = ms.strip_prefix('u').or_else(|| ms.strip_prefix('n')) {
                let d = if ms.starts_with('n') { std::time::Duration::from_nanos(us.parse().unwrap_or(0)) }
                        else { std::time::Duration::from_micros(us.parse().unwrap_or(0)) };
                let t0 = std::time::Instant::now();
                while t0.elapsed() < d { std::hint::spin_loop(); }
            } else {
                std::thread::sleep(std::time::Duration::from_millis(ms.parse().unwrap_or(0)));
            }
            return run_op(inner);
        }
    }
    if let Some(rest) = op.strip_prefix('@') {
        if let Some((t, inner)) = rest.split_once('/') {
            return run_on_worker(t, inner);
        }
    }
    let parts: Vec<&str> = op.split(':').collect();
    match parts.as_slice() {
        ["LEX", h] => op_lex(&unhex(h)),
        ["PARSE", h] => op_parse(&unhex(h)),
        ["RT", h] => op_rt(&unhex(h)),
        ["H", hid, ..] => {
            let script_text = op.splitn(3, ':').nth(2).unwrap_or("");
            let sc = hist::p_script(&mut hist::Cur::new(script_text));
            hist::world().lock().unwrap().scripts.insert(hid.parse().unwrap(), sc);
            "-".to_string()
        }
        ["REGI", name, prec, setter, right, hid] => {
            hist::register_infix(&unhex(name), parse_hex_i64(prec) as i32, *setter == "1", *right == "1", hid.parse().unwrap());
            "-".to_string()
        }
        ["REGP", name, hid] => { hist::register_prefix(&unhex(name), hid.parse().unwrap()); "-".to_string() }
        ["REGS", name, hid] => { hist::register_postfix(&unhex(name), hid.parse().unwrap()); "-".to_string() }
        ["REGF", name, hid] => { hist::register_function(&unhex(name), hid.parse().unwrap()); "-".to_string() }
        ["CV", c, name, ..] => {
            let vt = op.splitn(4, ':').nth(3).unwrap_or("N");
            let v = hist::p_value(&mut hist::Cur::new(vt));
            hist::ctx(c.parse().unwrap()).set_variable(&unhex(name), v);
            "-".to_string()
        }
        ["CF", c, name, hid] => { hist::set_ctx_func(c.parse().unwrap(), &unhex(name), hid.parse().unwrap()); "-".to_string() }
        ["EXEC", c, h] | ["EXECUTE", c, h] => {
            let (r, dead) = hist::op_exec(c.parse().unwrap(), unhex(h), parts[0] == "EXECUTE");
            if dead { DEAD.store(true, std::sync::atomic::Ordering::SeqCst); }
            r
        }
        ["CONV", ty, num] => guarded(|| {
            let neg = num.starts_with('-');
            let mag = u128::from_str_radix(num.trim_start_matches('-'), 16).unwrap();
            let i = |m: u128| -> i128 { if neg { (m as i128).wrapping_neg() } else { m as i128 } };
            let v = match *ty {
                "i8" => Value::from(i(mag) as i8), "i16" => Value::from(i(mag) as i16), "i32" => Value::from(i(mag) as i32),
                "i64" => Value::from(i(mag) as i64), "i128" => Value::from(i(mag)),
                "u8" => Value::from(mag as u8), "u16" => Value::from(mag as u16), "u32" => Value::from(mag as u32),
                "u64" => Value::from(mag as u64), "u128" => Value::from(mag),
                _ => panic!("bad type"),
            };
            format!("OK:{}", hist::pr_value(&v))
        }),
        ["CONVF", ty, bits] => guarded(|| {
            let b = u64::from_str_radix(bits, 16).unwrap();
            let v = if *ty == "f32" { Value::from(f32::from_bits(b as u32)) } else { Value::from(f64::from_bits(b)) };
            let back = v.clone().float().map(|x| format!("{:x}", x.to_bits())).unwrap_or("ERR".to_string());
            format!("OK:{}:{}", hist::pr_value(&v), back)
        }),
        ["ACC", which, ..] => guarded(|| {
            let vt = op.splitn(3, ':').nth(2).unwrap_or("N");
            let v = hist::p_value(&mut hist::Cur::new(vt));
            match *which {
                "integer" => v.integer().map(|z| if z < 0 { format!("OK:-{:x}", (z as i128).unsigned_abs()) } else { format!("OK:{:x}", z) }).unwrap_or("ERR".to_string()),
                "decimal" => v.decimal().map(|d| format!("OK:{}", pr_dec(&d))).unwrap_or("ERR".to_string()),
                "string" => v.string().map(|s| format!("OK:{}", hex(&s))).unwrap_or("ERR".to_string()),
                "bool" => v.bool().map(|b| format!("OK:{}", if b { 1 } else { 0 })).unwrap_or("ERR".to_string()),
                "list" => v.list().map(|l| format!("OK:{}", hist::pr_value(&Value::List(l)))).unwrap_or("ERR".to_string()),
                "float" => v.float().map(|x| format!("OK:{:x}", x.to_bits())).unwrap_or("ERR".to_string()),
                _ => "?".to_string(),
            }
        }),
        ["RTV", ..] => guarded(|| {
            // From<String>/From<&str>/From<bool>/From<Decimal>/From<Vec<Value>> then the matching accessor
            let vt = op.splitn(2, ':').nth(1).unwrap_or("N");
            let v = hist::p_value(&mut hist::Cur::new(vt));
            let r = match v {
                Value::String(s) => { let a = Value::from(s.clone()).string(); let b = Value::from(s.as_str()).string();
                                      match (a, b) { (Ok(x), Ok(y)) if x == y => Value::String(x), _ => return "ERR".to_string() } }
                Value::Bool(b) => match Value::from(b).bool() { Ok(x) => Value::Bool(x), _ => return "ERR".to_string() },
                Value::Number(d) => match Value::from(d).decimal() { Ok(x) => Value::Number(x), _ => return "ERR".to_string() },
                Value::List(l) => match Value::from(l).list() { Ok(x) => Value::List(x), _ => return "ERR".to_string() },
                other => other,
            };
            format!("OK:{}", hist::pr_value(&r))
        }),
        ["PROBE", stage, ms] => {
            // park the initialising thread for `ms` milliseconds when it reaches init stage `stage`
            let stage: u8 = stage.parse().unwrap();
            let ms: u64 = ms.parse().unwrap();
            verif_hooks::set_init_probe(Some(Arc::new(move |k| {
                if k == stage { std::thread::sleep(std::time::Duration::from_millis(ms)); }
            })));
            "-".to_string()
        }
        ["CD", c] => guarded(|| hist::pr_ctx(c.parse().unwrap())),
        ["SD", kind, name] => {
            op_sd(kind, unhex(name));
            "-".to_string()
        }
        _ => "?UNSUPPORTED".to_string(),
    }
}

static DEAD: std::sync::atomic::AtomicBool = std::sync::atomic::AtomicBool::new(false);

fn needs_fresh_process(ops: &[&str]) -> bool {
    ops.iter().any(|o| o.starts_with("REG") || o.starts_with("SD:") || o.starts_with("H:") || o.starts_with("CF:") || *o == "||" || o.starts_with("PROBE") || o.starts_with("@"))
}

fn run_line_here(line: &str) -> String {
    {
        let mut w = hist::world().lock().unwrap_or_else(|e| e.into_inner());
        w.scripts.clear(); w.log.clear(); w.ctxs.clear(); w.ctx_funcs.clear();
    }
    let mut it = line.split(' ');
    let id = it.next().unwrap_or("");
    let ops: Vec<&str> = it.collect();
    let mut res: Vec<String> = Vec::new();
    // sequential ops run on this thread; `||` opens a parallel round (every op up to `;;` or the end of the line runs on its
    // own thread, released together); `;;` closes the round and the ops after it run sequentially again
    let mut i = 0;
    while i < ops.len() {
        let o = ops[i];
        if o != "||" {
            if o == ";;" {
                res.push(";;".to_string());
            } else if DEAD.load(std::sync::atomic::Ordering::SeqCst) {
                res.push("SKIP".to_string());
            } else {
                res.push(guarded(|| run_op(o)));
            }
            i += 1;
            continue;
        }
        let end = ops[i + 1..].iter().position(|x| *x == ";;").map(|k| i + 1 + k).unwrap_or(ops.len());
        let par_ops = &ops[i + 1..end];
        i = end;
        res.push("||".to_string());
        if DEAD.load(std::sync::atomic::Ordering::SeqCst) {
            for _ in par_ops { res.push("SKIP".to_string()); }
            continue;
        }
        hist::PARALLEL.store(true, std::sync::atomic::Ordering::SeqCst);
        let barrier = Arc::new(std::sync::Barrier::new(par_ops.len().max(1)));
        // each thread reports over a channel; a thread that has not reported when the watchdog expires is stuck
        // (two calls waiting for each other's lock): its result is DEADLOCK and the process ends after this line
        let mut chans = Vec::new();
        for o in par_ops.iter() {
            let o = o.to_string();
            let b = barrier.clone();
            let (tx, rx) = std::sync::mpsc::channel::<String>();
            std::thread::Builder::new().stack_size(2 * 1024 * 1024).spawn(move || {
                b.wait();
                let r = std::panic::catch_unwind(std::panic::AssertUnwindSafe(|| guarded(|| run_op(&o))))
                    .unwrap_or_else(|_| "PANIC".to_string());
                let _ = tx.send(r);
            }).unwrap();
            chans.push(rx);
        }
        let deadline = std::time::Instant::now() + std::time::Duration::from_millis(2 * hist::WATCHDOG_MS);
        for rx in chans {
            let left = deadline.saturating_duration_since(std::time::Instant::now());
            match rx.recv_timeout(left) {
                Ok(r) => res.push(r),
                Err(std::sync::mpsc::RecvTimeoutError::Timeout) => {
                    DEAD.store(true, std::sync::atomic::Ordering::SeqCst);
                    res.push("DEADLOCK".to_string());
                }
                Err(_) => res.push("PANIC".to_string()),
            }
        }
    }
    format!("{} {}", id, res.join(" "))
}

// run one line on a worker thread with the default spawned-thread stack (2 MiB)
fn run_line_threaded(line: String) -> String {
    let id = line.split(' ').next().unwrap_or("").to_string();
    let h = std::thread::Builder::new()
        .stack_size(2 * 1024 * 1024)
        .spawn(move || run_line_here(&line))
        .unwrap();
    match h.join() {
        Ok(s) => s,
        Err(_) => format!("{} PANIC", id),
    }
}

fn run_line_in_child(line: &str) -> String {
    let id = line.split(' ').next().unwrap_or("");
    let exe = std::env::current_exe().unwrap();
    let mut child = std::process::Command::new(exe)
        .arg("--one")
        .stdin(std::process::Stdio::piped())
        .stdout(std::process::Stdio::piped())
        .stderr(std::process::Stdio::null())
        .spawn()
        .unwrap();
    {
        let mut stdin = child.stdin.take().unwrap();
        let _ = stdin.write_all(line.as_bytes());
        let _ = stdin.write_all(b"\n");
    }
    let out = child.wait_with_output().unwrap();
    let text = String::from_utf8_lossy(&out.stdout).trim_end().to_string();
    if out.status.success() && !text.is_empty() {
        text
    } else {
        format!("{} ABORT", id)
    }
}

fn dump_table() {
    let r = verif_hooks::dump_registries();
    for (name, prec, setter, right) in r.infix {
        println!("I {} {} {} {}", hex(&name), prec, if setter { 1 } else { 0 }, if right { 1 } else { 0 });
    }
    for name in r.prefix {
        println!("P {}", hex(&name));
    }
    for name in r.postfix {
        println!("S {}", hex(&name));
    }
    for name in r.functions {
        println!("F {}", hex(&name));
    }
}

fn main() {
    std::panic::set_hook(Box::new(|_| {}));
    let args: Vec<String> = std::env::args().collect();
    if args.iter().any(|a| a == "--dump-table") {
        dump_table();
        return;
    }
    let one = args.iter().any(|a| a == "--one");
    let isolate_all = args.iter().any(|a| a == "--isolate");
    let stdin = std::io::stdin();
    let stdout = std::io::stdout();
    let mut out = std::io::BufWriter::new(stdout.lock());
    for line in stdin.lock().lines() {
        let line = match line {
            Ok(l) => l,
            Err(_) => break,
        };
        if line.trim().is_empty() {
            continue;
        }
        let res = if one {
            run_line_threaded(line)
        } else {
            let ops: Vec<&str> = line.split(' ').skip(1).collect();
            if isolate_all || line.starts_with('!') || needs_fresh_process(&ops) {
                run_line_in_child(&line)
            } else {
                run_line_threaded(line)
            }
        };
        let _ = writeln!(out, "{}", res);
        if one {
            let _ = out.flush();
        }
        if DEAD.load(std::sync::atomic::Ordering::SeqCst) {
            let _ = out.flush();
            std::process::exit(0);
        }
    }
    let _ = out.flush();
}
