pub fn hex(s: &str) -> String {
    let mut out = String::with_capacity(s.len() * 2);
    for b in s.as_bytes() {
        out.push_str(&format!("{:02x}", b));
    }
    out
}

pub fn unhex(h: &str) -> String {
    let bytes: Vec<u8> = (0..h.len() / 2)
        .map(|i| u8::from_str_radix(&h[2 * i..2 * i + 2], 16).unwrap())
        .collect();
    String::from_utf8(bytes).expect("harness input must be UTF-8")
}

pub fn parse_hex_i64(s: &str) -> i64 {
    if let Some(rest) = s.strip_prefix('-') {
        -(i64::from_str_radix(rest, 16).unwrap())
    } else {
        i64::from_str_radix(s, 16).unwrap()
    }
}
