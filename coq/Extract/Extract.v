From Coq Require Import Extraction ExtrOcamlBasic.
From EE Require Import Api.
Extraction Language OCaml.
(* coqc is run by make from /verif/coq; the path is relative to that directory *)
Extraction "../build/ocaml/model.ml" api_lex api_parse api_expr api_describe dec_of_string dec_to_string.
