From Coq Require Import Extraction ExtrOcamlBasic.
From EE Require Import Api Eval Etoks LexPrintExpr.
Extraction Language OCaml.
(* coqc is run by make from /verif/coq; the path is relative to that directory *)
Extraction "../build/ocaml/model.ml" api_lex api_parse api_expr api_describe dec_of_string dec_to_string
  api_tbl api_h_lex api_h_parse api_h_exec api_def_script api_reg_function api_reg_prefix api_reg_postfix api_reg_infix
  api_ctx_set api_ctx_dump api_log api_clear_log init_state s_inexact
  from_int v_integer v_decimal v_string v_bool v_list dec_add dec_sub dec_mul dec_div dec_rem dec_cmp dec_to_i64 value_eqb premises printer_tokens psaneb tbl_print_okb.
