(** C12 - expr() output re-parses to the same AST.
    The round trip is a theorem at the level of tokens for every well-formed tree and operator table (lemma (B),
    Lemmas/PrattFull.v); two computable side conditions carry it to text, and the correspondence run evaluates both on every
    tree it meets. The printer's local choices (quotes, `x not OP y`, parenthesised operands) are proved separately. *)
From EE Require Import Chars OpTable Decimal Token Lexer Ast Parser Printer Api Ptree Etoks PrattFull PrattParen RoundTrip LeastNesting LexPrintExpr ImplTable Names.
Open Scope N_scope.

(* a string literal is quoted with a quote character that does not occur in it (when it does not contain both) *)
Theorem C12_quote_choice : forall s,
  (existsb (fun c => c =? c_dquote) s = false -> lit_expr (LStr s) = c_dquote :: s ++ [c_dquote]) /\
  (existsb (fun c => c =? c_dquote) s = true -> lit_expr (LStr s) = c_squote :: s ++ [c_squote]).
Proof. intros s. unfold lit_expr. split; intros H; rewrite H; reflexivity. Qed.
Print Assumptions C12_quote_choice.

(* `not (x OP y)` is printed in the form `x not OP y`, the only spelling that re-parses to Unary(not, Binary) *)
Theorem C12_not_infix_form : forall tbl op l r,
  exists pl pr, expr tbl (AUnary s_not (ABinary op l r)) = pl ++ sp ++ (s_not ++ sp ++ op) ++ sp ++ pr /\
                expr tbl (ABinary op l r) = pl ++ sp ++ op ++ sp ++ pr.
Proof.
  intros tbl op l r. cbn [expr]. assert (E: str_eqb s_not s_not = true) by reflexivity. rewrite E.
  destruct (binding_power tbl op) as [l_bp r_bp]. eexists. eexists. split; reflexivity.
Qed.
Print Assumptions C12_not_infix_form.

(* operands that would otherwise be re-grouped are parenthesised: a conditional under any operator, an infix expression
   under a prefix or postfix operator, a prefix expression under a postfix operator (postfix chains need none) *)
Theorem C12_parenthesised_operands : forall tbl op c a b x o2,
  str_eqb op s_not = false ->
  expr tbl (AUnary op (ATernary c a b)) = op ++ sp ++ c_lparen :: expr tbl (ATernary c a b) ++ [c_rparen] /\
  expr tbl (APostfix (ABinary o2 a b) op) = (c_lparen :: expr tbl (ABinary o2 a b) ++ [c_rparen]) ++ sp ++ op /\
  expr tbl (APostfix (APostfix x o2) op) = expr tbl (APostfix x o2) ++ sp ++ op /\
  expr tbl (APostfix (AUnary o2 x) op) = (c_lparen :: expr tbl (AUnary o2 x) ++ [c_rparen]) ++ sp ++ op /\
  expr tbl (ATernary (ATernary c a b) a b) = (c_lparen :: expr tbl (ATernary c a b) ++ [c_rparen]) ++ sp ++ s_qmark ++ sp ++ expr tbl a ++ sp ++ s_colon ++ sp ++ expr tbl b.
Proof. intros. repeat split; reflexivity. Qed.
Print Assumptions C12_parenthesised_operands.

(* round trip and idempotence on a tree with every node kind, by computation *)
Example C12_example :
  let tbl := {| t_infix := [([43], {| ic_prec := 110; ic_setter := false; ic_right := false |});
                            ([42], {| ic_prec := 120; ic_setter := false; ic_right := false |});
                            ([61], {| ic_prec := 20; ic_setter := true; ic_right := true |})];
                t_prefix := [[45]; s_not]; t_postfix := [[43; 43]] |} in
  let src := [40; 97; 61; 98; 41; 61; 45; 40; 49; 43; 50; 41; 42; 102; 40; 91; 120; 43; 43; 93; 44; 123; 39; 107; 34; 39; 58; 99; 32; 110; 111; 116; 32; 43; 32; 100; 125; 41] in
  match api_parse tbl src with
  | Ok t => api_parse tbl (expr tbl t) = Ok t
  | _ => False
  end.
Proof. vm_compute. reflexivity. Qed.
Print Assumptions C12_example.

(* THE ROUND TRIP, tokens: [top_toks t] is Printer.expr written in tokens (same parenthesisation functions); for every table
   with `?`/`:` unregistered and every well-formed tree or `;`-program within the depth limit, parsing gives back the tree *)
Theorem C12_round_trip_tokens : forall tbl t, premises tbl t = true -> parse_tokens tbl TmEof (top_toks tbl t) = Ok t.
Proof. exact top_round_trip. Qed.
Print Assumptions C12_round_trip_tokens.

(* THE ROUND TRIP, text: whenever the tokenizer model reads the printer model's text for [t] as exactly [top_toks t]
   (a computable check, evaluated by the correspondence run on every tree it meets), parse(expr(t)) = t; printing again then
   gives the same text (idempotence) *)
Theorem C12_round_trip : forall tbl t, premises tbl t = true -> printer_tokens tbl t = true ->
  api_parse tbl (expr tbl t) = Ok t.
Proof. exact text_round_trip. Qed.
Print Assumptions C12_round_trip.

Theorem C12_idempotent : forall tbl t, premises tbl t = true -> printer_tokens tbl t = true ->
  match api_parse tbl (expr tbl t) with Ok t2 => expr tbl t2 = expr tbl t | _ => False end.
Proof. intros tbl t H1 H2. rewrite (text_round_trip tbl t H1 H2). reflexivity. Qed.
Print Assumptions C12_idempotent.

(* the side conditions hold on a tree with every node kind over the built-in table:
   - a ++ * (1 + 2) ? [1, min('s')] : {k: x not in y} ; b = true *)
Example C12_round_trip_example :
  let one := ALit (LNum (of_Z 1)) in
  let a := ARef [97] in
  let t1 := ATernary (ABinary n_mul (AUnary n_sub (APostfix a n_inc)) (ABinary n_add one one))
                     (AList [one; AFunc n_min [ALit (LStr [115])]])
                     (AMap [(ARef [107], AUnary s_not (ABinary n_in a a))]) in
  let t := AStmt [t1; ABinary n_assign (ARef [98]) (ALit (LBool true))] in
  premises builtin_table t = true /\ printer_tokens builtin_table t = true.
Proof. vm_compute. split; reflexivity. Qed.
Print Assumptions C12_round_trip_example.

(* THE ROUND TRIP THROUGH TEXT, WITHOUT SIDE CONDITIONS TO EVALUATE (lemma (A) + lemma (B)). For every operator table that
   passes the computable print check [tbl_print_okb] (operators are symbolic with registered prefixes, or words; none contains
   whitespace or a separator; `true`/`false` are not operators, `not` is) and every tree that meets the premises of lemma (B)
   and whose leaves are lexically sane ([psaneb]: names are identifiers that are neither keywords nor operator words, numbers
   are non-negative and in range, a string does not contain both quote characters) - the tokenizer model reads the printer
   model's text as the printer's token image (Lemmas/LexPrint.v, LexPrintExpr.v), so parse(expr(t)) = t and expr is idempotent. *)
Theorem C12_round_trip_text : forall tbl t, tbl_print_okb tbl = true -> premises tbl t = true -> psaneb tbl t = true ->
  api_parse tbl (expr tbl t) = Ok t.
Proof. intros tbl t. exact (text_round_trip_all tbl t). Qed.
Print Assumptions C12_round_trip_text.

Theorem C12_builtin_table_print_ok : tbl_print_okb builtin_table = true.
Proof. vm_compute. reflexivity. Qed.
Print Assumptions C12_builtin_table_print_ok.

Example C12_round_trip_text_example :
  let one := ALit (LNum (of_Z 1)) in
  let a := ARef [97] in
  let t1 := ATernary (ABinary n_mul (AUnary n_sub (APostfix a n_inc)) (ABinary n_add one one))
                     (AList [one; AFunc n_min [ALit (LStr [115])]])
                     (AMap [(ARef [107], AUnary s_not (ABinary n_in a a))]) in
  let t := AStmt [t1; ABinary n_assign (ARef [98]) (ALit (LBool true))] in
  premises builtin_table t = true /\ psaneb builtin_table t = true.
Proof. vm_compute. split; reflexivity. Qed.
Print Assumptions C12_round_trip_text_example.

(* AN ACCEPTED PROGRAM'S RENDERING IS ACCEPTED (D23). Write the tree in ANY way the grammar accepts - a [ptree] p with whatever
   redundant parentheses, `not (x OP y)` for `x not OP y` - and suppose that spelling is within the parser's nesting limit.
   Then the token sequence [toks p] is parsed to [strip p], AND the tokens the printer writes for that tree are parsed back to it:
   the printer's parenthesisation never needs more nesting than the spelling that was accepted (Lemmas/LeastNesting.v:
   [least_all], pneed (minp (strip p)) <= pneed p). Before the fixes f0353e2 and 9cbfd9a this statement was false of the model
   and of the code: `a * (b = [[..252..]]) + d` and `(a + .. 100 terms ..) + [[..200..]]` were accepted and their renderings
   rejected. *)
Theorem C12_rendering_of_an_accepted_spelling_reparses : forall tbl p, tbl_ok tbl ->
  wfp tbl p = true -> phgt p -> proom 0 p ->
  parse_tokens tbl TmEof (toks p) = Ok (strip p) /\ parse_tokens tbl TmEof (etoks tbl (strip p)) = Ok (strip p).
Proof. intros tbl p T. exact (accepted_spelling_rendering_reparses tbl T p). Qed.
Print Assumptions C12_rendering_of_an_accepted_spelling_reparses.

Theorem C12_printer_needs_least_nesting : forall tbl p, wfp tbl p = true -> need tbl (strip p) <= pneed p.
Proof. intros tbl p W. exact (least_all tbl (S (psize p)) p ltac:(lia) W). Qed.
Print Assumptions C12_printer_needs_least_nesting.

(* ... and through text: the printer's text for the tree of an accepted spelling is read back as that tree *)
Theorem C12_rendering_of_an_accepted_spelling_reparses_text : forall tbl p, tbl_print_okb tbl = true -> tbl_okb tbl = true ->
  wfp tbl p = true -> phgt p -> proom 0 p -> psaneb tbl (strip p) = true ->
  api_parse tbl (expr tbl (strip p)) = Ok (strip p).
Proof.
  intros tbl p HP HT W Hh Hr HS. apply (text_round_trip_all tbl (strip p) HP); [|exact HS].
  pose proof (strip_wf tbl (S (psize p)) p ltac:(lia) W) as Wt.
  pose proof (least_all tbl (S (psize p)) p ltac:(lia) W) as L. unfold least in L. unfold proom in Hr. unfold phgt in Hh.
  assert (P1 : premises1 tbl (strip p) = true).
  { unfold premises1. rewrite Wt. cbn [andb]. apply andb_true_intro. split; apply N.leb_le; [exact Hh | unfold need; lia]. }
  unfold premises. rewrite HT. cbn [andb]. destruct (strip p); try exact P1. discriminate Wt.
Qed.
Print Assumptions C12_rendering_of_an_accepted_spelling_reparses_text.

(* non-vacuity, and the two shapes of D23 in miniature: (a * (b = [c])) + d with its redundant pair, and (a + b) + [c] *)
Example C12_accepted_spelling_example :
  let a := PRef [97] in let b := PRef [98] in let c := PRef [99] in let d := PRef [100] in
  let p1 := PBin false n_add (PParen (PBin false n_mul a (PParen (PBin false n_assign b (PList [c]))))) d in
  let p2 := PBin false n_add (PParen (PBin false n_add a b)) (PList [c]) in
  wfp builtin_table p1 = true /\ wfp builtin_table p2 = true /\
  pneed p1 = 6 /\ need builtin_table (strip p1) = 5 /\ pneed p2 = 3 /\ need builtin_table (strip p2) = 3 /\
  parse_tokens builtin_table TmEof (etoks builtin_table (strip p1)) = Ok (strip p1).
Proof. vm_compute. repeat split. Qed.
Print Assumptions C12_accepted_spelling_example.

(* THE ROUND TRIP FOR EVERYTHING parse_expression ACCEPTS - no premise about nesting, height or well-formedness is left.
   Lemmas/PrattComplete.v proves the converse that was missing: every tree the parser returns has a spelling the grammar accepts
   whose nesting is within what the parser had left (by induction over the parser's eight mutually recursive functions; the
   precedence comparisons of the operator loop give exactly the spine conditions of [wfp]). With "the printer needs the least
   nesting" that tree meets [premises]; with lemmas (A) and (B): if parse_expression accepts s and the leaves of its tree are
   lexically sane (names that are not operator words, as the property says, made of name characters; numbers in range; no
   string with both quote characters), then the text expr() writes is accepted and parses back to the same tree, and printing
   that again gives the same text. For every operator table passing two computable checks, which the built-in table passes. *)
From EE Require Import PrattComplete Unconditional.
Theorem C12_round_trip_of_every_accepted_text : forall tbl s t,
  tbl_complete_okb tbl = true -> tbl_print_okb tbl = true ->
  api_parse tbl s = Ok t -> psaneb tbl t = true -> api_parse tbl (expr tbl t) = Ok t.
Proof. exact accepted_text_round_trip. Qed.
Print Assumptions C12_round_trip_of_every_accepted_text.

Theorem C12_idempotent_for_every_accepted_text : forall tbl s t,
  tbl_complete_okb tbl = true -> tbl_print_okb tbl = true -> api_parse tbl s = Ok t -> psaneb tbl t = true ->
  match api_parse tbl (expr tbl t) with Ok t2 => expr tbl t2 = expr tbl t | _ => False end.
Proof. intros tbl s t H1 H2 H3 H4. rewrite (accepted_text_round_trip tbl s t H1 H2 H3 H4). reflexivity. Qed.
Print Assumptions C12_idempotent_for_every_accepted_text.

(* every tree the parser returns meets the premises of the round-trip theorems (or is the empty program) *)
Theorem C12_accepted_trees_meet_the_premises : forall tbl s t, tbl_complete_okb tbl = true ->
  api_parse tbl s = Ok t -> premises tbl t = true \/ t = AStmt [].
Proof. exact accepted_premises. Qed.
Print Assumptions C12_accepted_trees_meet_the_premises.

Theorem C12_builtin_table_complete_ok : tbl_complete_okb builtin_table = true.
Proof. vm_compute. reflexivity. Qed.
Print Assumptions C12_builtin_table_complete_ok.

(* the hypotheses are met by a real program (the source of C12_example: an assignment to an assignment, a prefix operator over
   parentheses, a call with a list and a map, a string with a double quote, a `not +` form) under the built-in table *)
Example C12_accepted_text_example :
  let src := [40; 97; 61; 98; 41; 61; 45; 40; 49; 43; 50; 41; 42; 102; 40; 91; 120; 43; 43; 93; 44; 123; 39; 107; 34; 39; 58; 99; 32; 110; 111; 116; 32; 43; 32; 100; 125; 41] in
  match api_parse builtin_table src with
  | Ok t => psaneb builtin_table t = true /\ api_parse builtin_table (expr builtin_table t) = Ok t
  | _ => False
  end.
Proof. vm_compute. split; reflexivity. Qed.
Print Assumptions C12_accepted_text_example.

(* names are whatever the tokenizer reads as a name: the first character need not be a letter,
   a digit or an underscore ("#x", "\xc3\xa9", a lone "#") -- source: #x+\xe9(\xdf_1,#)*2 *)
Example C12_accepted_text_example_odd_names :
  let src := [35; 120; 43; 233; 40; 223; 95; 49; 44; 35; 41; 42; 50] in
  match api_parse builtin_table src with
  | Ok t => psaneb builtin_table t = true /\ api_parse builtin_table (expr builtin_table t) = Ok t
  | _ => False
  end.
Proof. vm_compute. split; reflexivity. Qed.
Print Assumptions C12_accepted_text_example_odd_names.
