(** C17 - value conversions preserve the value (integers, accessors; floats are tested, not modelled). *)
From EE Require Import Chars Decimal Ast Value.
Open Scope Z_scope.

(* the integer a decimal denotes, when it denotes one: (+-mantissa) = z * 10^scale *)
Definition signed (d : dec) : Z := if dneg d then - Z.of_N (dmant d) else Z.of_N (dmant d).
Definition denotes_int (d : dec) (z : Z) : Prop := signed d = z * Z.of_N (pow10 (dscale d)).

Lemma pow10_pos k : (0 < pow10 k)%N.
Proof. unfold pow10. apply N.neq_0_lt_0. apply N.pow_nonzero. discriminate. Qed.
Print Assumptions pow10_pos.

(* integer() returns n for every number whose value is the integer n within the i64 range, whatever its scale *)
Theorem C17_integer_complete : forall d z,
  denotes_int d z -> i64_min <= z <= i64_max -> v_integer (VNum d) = Ok z.
Proof.
  intros d z H R. unfold v_integer, dec_to_i64, denotes_int, signed in *.
  pose proof (pow10_pos (dscale d)) as Hp.
  set (p := pow10 (dscale d)) in *.
  assert (Hdiv: (dmant d mod p = 0)%N /\ Z.of_N (dmant d / p) = Z.abs z).
  { assert (Hz: Z.of_N (dmant d) = Z.abs z * Z.of_N p).
    { destruct (dneg d); [ assert (Z.of_N (dmant d) = (- z) * Z.of_N p) by lia | ]; nia. }
    assert (Hn: dmant d = (Z.to_N (Z.abs z) * p)%N).
    { apply N2Z.inj. rewrite N2Z.inj_mul, Z2N.id by lia. exact Hz. }
    split.
    - rewrite Hn. apply N.mod_mul. lia.
    - rewrite Hn, N.div_mul by lia. rewrite Z2N.id; lia. }
  destruct Hdiv as [Hm Hq]. rewrite Hm. cbn [N.eqb].
  assert (Hzz: (if dneg d then - Z.of_N (dmant d / p) else Z.of_N (dmant d / p)) = z).
  { rewrite Hq. destruct (dneg d).
    - assert (z <= 0) by nia. lia.
    - assert (0 <= z) by nia. lia. }
  rewrite Hzz.
  destruct (Z.leb_spec i64_min z); [|lia]. destruct (Z.leb_spec z i64_max); [|lia]. reflexivity.
Qed.
Print Assumptions C17_integer_complete.

(* ... and an error for any other number: whatever integer() returns is the number's value and fits i64 *)
Theorem C17_integer_sound : forall d z,
  v_integer (VNum d) = Ok z -> denotes_int d z /\ i64_min <= z <= i64_max.
Proof.
  intros d z H. unfold v_integer, dec_to_i64 in H. unfold denotes_int, signed.
  pose proof (pow10_pos (dscale d)) as Hp.
  set (p := pow10 (dscale d)) in *.
  destruct (N.eqb_spec (dmant d mod p) 0) as [Hm|]; [|discriminate].
  set (zz := if dneg d then - Z.of_N (dmant d / p) else Z.of_N (dmant d / p)) in *.
  destruct (Z.leb_spec i64_min zz); [|discriminate]. destruct (Z.leb_spec zz i64_max); [|discriminate].
  cbn in H. inversion H; subst z. split; [|lia].
  assert (Hn: dmant d = (p * (dmant d / p))%N).
  { rewrite (N.div_mod (dmant d) p) at 1 by lia. rewrite Hm. lia. }
  unfold zz. destruct (dneg d); rewrite Hn at 1; rewrite N2Z.inj_mul; lia.
Qed.
Print Assumptions C17_integer_sound.

(* Value::from(n) for an integer denotes exactly n (scale 0) whenever |n| < 2^96; beyond that: known finding D16 *)
Theorem C17_from_int : forall z, Z.abs z < 79228162514264337593543950336 ->
  exists d, from_int z = VNum d /\ signed d = z /\ dscale d = 0%N /\ dec_wf d = true.
Proof.
  intros z H. unfold from_int. destruct (Z.ltb_spec (Z.abs z) 79228162514264337593543950336); [|lia].
  eexists. split; [reflexivity|]. unfold of_Z, mk, signed, dec_wf. cbn [dneg dmant dscale].
  repeat split.
  - destruct (Z.ltb_spec z 0); destruct (N.eqb_spec (Z.abs_N z) 0); cbn [andb negb]; rewrite ?N2Z.inj_abs_N; lia.
  - apply andb_true_intro. split; [|reflexivity]. apply N.ltb_lt. unfold two96.
    apply N2Z.inj_lt. rewrite N2Z.inj_abs_N. exact H.
Qed.
Print Assumptions C17_from_int.

Theorem C17_wide_int_known : exists z, from_int z = VNum dec_zero /\ z <> 0.
Proof. exists 79228162514264337593543950336. split; [vm_compute; reflexivity | discriminate]. Qed.
Print Assumptions C17_wide_int_known.

(* every accessor accepts exactly its own variant and returns the payload unchanged *)
Theorem C17_accessors : forall v,
  (forall d, v = VNum d -> v_decimal v = Ok d) /\ (forall s, v = VStr s -> v_string v = Ok s) /\
  (forall b, v = VBool b -> v_bool v = Ok b) /\ (forall l, v = VList l -> v_list v = Ok l) /\
  ((forall d, v <> VNum d) -> v_decimal v = Err /\ v_integer v = Err) /\
  ((forall s, v <> VStr s) -> v_string v = Err) /\
  ((forall b, v <> VBool b) -> v_bool v = Err) /\
  ((forall l, v <> VList l) -> v_list v = Err).
Proof.
  intros v. repeat split; intros; subst; try reflexivity;
    destruct v; try reflexivity;
    match goal with H : forall x, ?c _ <> ?c x |- _ => exfalso; eapply H; reflexivity end.
Qed.
Print Assumptions C17_accessors.

Example C17_example : v_integer (VNum (mkdec true 3000 3)) = Ok (-3) /\ v_integer (VNum (mkdec false 15 1)) = Err
                      /\ v_integer (VNum (mkdec false 9223372036854775808 0)) = Err.
Proof. vm_compute. repeat split. Qed.
Print Assumptions C17_example.
