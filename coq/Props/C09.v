(** C09 - number literals and decimal arithmetic are exact. rust_decimal is a MODELLED dependency: these theorems are
    about the model's contract (DESIGN 3.1); the correspondence compares mantissa and scale with the crate on every run.
    A decimal d denotes the rational signed(d) / 10^scale(d); statements are over integers at a common scale. *)
From EE Require Import Chars Decimal DecimalLemmas DecimalString.
Open Scope Z_scope.

(* ordering and equality compare the denoted rationals (cross-multiplied to the larger scale): trailing zeros are ignored *)
Theorem C09_compare : forall a b,
  let s := N.max (dscale a) (dscale b) in
  (dec_ltb a b = true <-> at_scale a s < at_scale b s) /\
  (dec_leb a b = true <-> at_scale a s <= at_scale b s) /\
  (dec_eqb a b = true <-> at_scale a s = at_scale b s).
Proof.
  intros a b. cbn zeta. unfold dec_ltb, dec_leb, dec_eqb. rewrite (dec_cmp_spec a b). cbn zeta.
  set (x := at_scale a (N.max (dscale a) (dscale b))). set (y := at_scale b (N.max (dscale a) (dscale b))).
  destruct (Z.compare_spec x y); repeat split; intros; try lia; try discriminate; reflexivity.
Qed.
Print Assumptions C09_compare.

(* + and -: whenever the model classifies the result as exact (DOk), it IS the exact sum, at the larger of the two scales
   (or the other operand unchanged when one operand is zero); never rounded, never binary floating point *)
Theorem C09_add_exact : forall a b r, dec_add a b = DOk r ->
  (is_zero a = true /\ r = b) \/ (is_zero a = false /\ is_zero b = true /\ r = a) \/
  (let s := N.max (dscale a) (dscale b) in dscale r = s /\ signed r = at_scale a s + at_scale b s).
Proof. exact dec_add_exact. Qed.
Print Assumptions C09_add_exact.

Theorem C09_sub_is_add_neg : forall a b, dec_sub a b = dec_add a (dec_neg b) /\ signed (dec_neg b) = - signed b.
Proof. intros. split; [reflexivity | apply dec_neg_signed]. Qed.
Print Assumptions C09_sub_is_add_neg.

(* *: the exact product, scale = sum of the scales (zero times anything is 0) *)
Theorem C09_mul_exact : forall a b r, dec_mul a b = DOk r ->
  ((is_zero a || is_zero b)%bool = true /\ r = dec_zero) \/
  (dscale r = (dscale a + dscale b)%N /\ signed r = signed a * signed b).
Proof. exact dec_mul_exact. Qed.
Print Assumptions C09_mul_exact.

(* the exact region is exactly "fits 96 bits and 28 digits": no exact result is reported as rounded or overflowing *)
Theorem C09_fit_complete : forall neg n s, (n < two96)%N -> (s <= 28)%N -> fit neg n s = DOk (mk neg n s).
Proof.
  intros neg n s H1 H2. unfold fit.
  destruct (N.ltb_spec n two96); [|lia]. destruct (N.leb_spec s 28); [|lia]. reflexivity.
Qed.
Print Assumptions C09_fit_complete.

(* literals: a digit string with at most one point, starting with a digit, whose digits denote a number below 2^96 and which has
   at most 28 fractional digits, evaluates to exactly that number - every digit and the scale as written (this includes every
   literal of up to 28 significant digits, leading and trailing zeros included). [ref_read] reads the digits as one integer and
   counts the fractional ones. Proved about the transcription of rust_decimal 1.31.0's parse_str_radix_10 (both its 64-bit
   and its 128-bit phase). *)
Theorem C09_literal : forall c s,
  is_digit09 c = true -> shape false (c :: s) = true ->
  (fst (ref_read false 0 0 (c :: s)) < two96)%N -> (snd (ref_read false 0 0 (c :: s)) <= 28)%N ->
  dec_of_string (c :: s) = Some (mk false (fst (ref_read false 0 0 (c :: s))) (snd (ref_read false 0 0 (c :: s)))).
Proof. exact dec_of_string_exact. Qed.
Print Assumptions C09_literal.

(* a character that is neither a digit nor the point invalidates the literal (it is rejected, not truncated before it) *)
Theorem C09_bad_char : forall bytes big point has data scale b,
  is_digit09 b = false -> (b =? 46)%N = false -> phase64 big point has data scale b bytes = None.
Proof. exact phase64_bad_char. Qed.
Print Assumptions C09_bad_char.

(* boundary literals by computation *)
Open Scope N_scope.
Example C09_literals :
  dec_of_string [48; 46; 49] = Some (mkdec false 1 1) /\                                   (* 0.1  *)
  dec_of_string [49; 46; 49; 48] = Some (mkdec false 110 2) /\                             (* 1.10 *)
  dec_of_string [48; 48; 55] = Some (mkdec false 7 0) /\                                   (* 007  *)
  dec_of_string [49; 46] = Some (mkdec false 1 0) /\                                       (* 1.   *)
  dec_of_string [49; 101; 51] = None /\ dec_of_string [49; 46; 50; 46; 51] = None /\       (* 1e3, 1.2.3 rejected *)
  dec_to_string (mkdec false 110 2) = [49; 46; 49; 48] /\ dec_to_string (mkdec false 5 3) = [48; 46; 48; 48; 53].
Proof. vm_compute. repeat split. Qed.
Print Assumptions C09_literals.

(* printing a number and reading the text back gives the same decimal, digits and scale preserved (every non-negative decimal
   in range; the sign is a prefix operator of the language, not part of a literal): a literal and its rendering denote the same
   number, trailing zeros included *)
From EE Require Import DecimalPrint.
Theorem C09_print_read_round_trip : forall d, dneg d = false -> dmant d < two96 -> dscale d <= 28 ->
  dec_of_string (dec_to_string d) = Some (mk false (dmant d) (dscale d)).
Proof. exact dec_print_read. Qed.
Print Assumptions C09_print_read_round_trip.
