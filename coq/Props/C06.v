(** C06 - assignments update the context exactly as written. Statements about the evaluator model [exec] for
    ARBITRARY user handlers (the re-entry function and handler scripts are parameters), proofs in Lemmas/EvalLemmas.v. *)
From EE Require Import Chars OpTable Decimal Ast Value Names Lexer Parser Eval EvalLemmas.
Open Scope N_scope.

Section C06.
Variable b : registries.
Variable reenter : str -> N -> state -> eres * state.
Notation exec := (exec b reenter).

(* `x op= e` (and `x = e`): both sides are evaluated (target first), the handler of op combines the target's value with the
   value of e, x is bound to exactly that result in the state after e, and the assignment itself yields None *)
Theorem C06_assign : forall op x e c st cfg hd a bv st1 st2 cfg2 hd2 v st3,
  get_infix st op = inr (cfg, hd) -> ic_setter cfg = true ->
  exec (ARef x) c st = (EOk a, st1) -> exec e c st1 = (EOk bv, st2) ->
  get_infix st2 op = inr (cfg2, hd2) ->
  call_handler b reenter hd2 (builtin_infix op a bv) [a; bv] st2 = (EOk v, st3) ->
  acquire (LCtx c) st3 = None ->
  exec (ABinary op (ARef x) e) c st = (EOk VNone, ctx_set st3 c x (CVar v)).
Proof. exact (exec_setter b reenter). Qed.

(* ... and fails when `x op e` fails, binding nothing *)
Theorem C06_assign_fails : forall op x e c st cfg hd a bv st1 st2 cfg2 hd2 err st3,
  get_infix st op = inr (cfg, hd) -> ic_setter cfg = true ->
  exec (ARef x) c st = (EOk a, st1) -> exec e c st1 = (EOk bv, st2) ->
  get_infix st2 op = inr (cfg2, hd2) ->
  call_handler b reenter hd2 (builtin_infix op a bv) [a; bv] st2 = (err, st3) -> not_ok err ->
  exec (ABinary op (ARef x) e) c st = (err, st3).
Proof. exact (exec_setter_handler_fails b reenter). Qed.

(* `=` binds the value of e: the built-in handler of `=` returns its right operand *)
Theorem C06_plain_value : forall a bv, builtin_infix n_assign a bv = Some (AVal bv false).
Proof. reflexivity. Qed.

(* after the assignment, x reads as the new value and every other name of that context (and every other context) is unchanged *)
Theorem C06_frame : forall st c x v y c',
  assoc x (ctx_of (ctx_set st c x (CVar v)) c) = Some (CVar v) /\
  (x <> y -> assoc y (ctx_of (ctx_set st c x (CVar v)) c) = assoc y (ctx_of st c)) /\
  (c <> c' -> ctx_of (ctx_set st c x (CVar v)) c' = ctx_of st c').
Proof.
  intros st c x v y c'. unfold ctx_set, ctx_of. cbn [s_ctxs set_ctxs nassoc].
  rewrite N.eqb_refl. repeat split.
  - apply assoc_cons_same.
  - intros H. apply assoc_cons_other. exact H.
  - intros H. destruct (N.eqb_spec c' c); [congruence | reflexivity].
Qed.

(* a target that is not a plain name is an error (after both sides were evaluated) *)
Theorem C06_non_name : forall op l e c st cfg hd a bv st1 st2,
  get_infix st op = inr (cfg, hd) -> ic_setter cfg = true -> (forall x, l <> ARef x) ->
  exec l c st = (EOk a, st1) -> exec e c st1 = (EOk bv, st2) ->
  exec (ABinary op l e) c st = (EErr, st2).
Proof. exact (exec_setter_non_name b reenter). Qed.

(* a name that was never bound reads as None; a bound variable reads as its value *)
Theorem C06_read : forall n c st,
  acquire (LCtx c) st = None ->
  (assoc n (ctx_of st c) = None -> exec (ARef n) c st = (EOk VNone, st)) /\
  (forall v, assoc n (ctx_of st c) = Some (CVar v) -> exec (ARef n) c st = (EOk v, st)).
Proof. intros n c st A. split; [apply exec_ref_unbound | intros v; apply exec_ref_var]; assumption. Qed.

(* programs: statements run in order on the state left by the previous one; the value is that of the last statement,
   None for an empty program; a failing statement ends the program with the state reached so far *)
Theorem C06_program : forall c st,
  exec (AStmt []) c st = (EOk VNone, st) /\
  (forall x, exec (AStmt [x]) c st = exec x c st) /\
  (forall x rest err st1, exec x c st = (err, st1) -> not_ok err -> exec (AStmt (x :: rest)) c st = (err, st1)) /\
  (forall x y rest v st1, exec x c st = (EOk v, st1) -> exec (AStmt (x :: y :: rest)) c st = exec (AStmt (y :: rest)) c st1).
Proof.
  intros c st. split; [reflexivity|]. split; [intros; apply exec_stmt_single|]. split; [intros; eapply exec_stmt_err; eassumption|].
  intros x y rest v st1 H. cbn [Eval.exec]. rewrite H. reflexivity.
Qed.
End C06.
Print Assumptions C06_assign.
Print Assumptions C06_assign_fails.
Print Assumptions C06_plain_value.
Print Assumptions C06_frame.
Print Assumptions C06_non_name.
Print Assumptions C06_read.
Print Assumptions C06_program.
