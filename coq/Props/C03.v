(** C03 - built-in operators and functions compute the documented values (handler level; decimals: see C09). *)
From EE Require Import Chars OpTable Decimal Ast Value Names BuiltinLemmas.
Open Scope N_scope.

(* an operand of the wrong type yields an error, never a coerced value: for every operand pair, not sampled *)
Theorem C03_type_errors : forall a b,
  (is_num a && is_num b = false ->
     forall op, In op [n_add; n_sub; n_mul; n_div; n_rem; n_adda; n_suba; n_mula; n_diva; n_rema;
                       n_bor; n_bxor; n_band; n_shl; n_shr; n_ora; n_xora; n_anda; n_shla; n_shra; n_lt; n_le; n_gt; n_ge] ->
     builtin_infix op a b = Some AErr) /\
  (is_boolv a && is_boolv b = false -> builtin_infix n_lor a b = Some AErr /\ builtin_infix n_land a b = Some AErr) /\
  (is_strv a && is_strv b = false -> builtin_infix n_begin a b = Some AErr /\ builtin_infix n_end a b = Some AErr) /\
  (is_listv b = false -> builtin_infix n_in a b = Some AErr).
Proof.
  intros a b. repeat split.
  - intros H op Hin.
    pose proof (dispatch_arith a b) as (A1&A2&A3&A4&A5&A6&A7&A8&A9&A10).
    pose proof (dispatch_bits a b) as (B1&B2&B3&B4&B5&B6&B7&B8&B9&B10).
    pose proof (dispatch_rest a b) as (_&_&C1&C2&C3&C4&_).
    cbn [In] in Hin.
    repeat (destruct Hin as [<-|Hin]; [ first
      [ rewrite A1 | rewrite A2 | rewrite A3 | rewrite A4 | rewrite A5 | rewrite A6 | rewrite A7 | rewrite A8 | rewrite A9 | rewrite A10
      | rewrite B1 | rewrite B2 | rewrite B3 | rewrite B4 | rewrite B5 | rewrite B6 | rewrite B7 | rewrite B8 | rewrite B9 | rewrite B10
      | rewrite C1 | rewrite C2 | rewrite C3 | rewrite C4 ];
      f_equal; first [ apply num2_typed; exact H | apply int2_typed; exact H | apply cmp2_typed; exact H ] | ]).
    contradiction.
  - pose proof (dispatch_rest a b) as (C1&_). rewrite C1. f_equal. apply bool2_typed. assumption.
  - pose proof (dispatch_rest a b) as (_&C2&_). rewrite C2. f_equal. apply bool2_typed. assumption.
  - apply string_ops_typed. assumption.
  - apply string_ops_typed. assumption.
  - apply in_typed.
Qed.
Print Assumptions C03_type_errors.

(* no coercion: a numeric operator that returns a value was given two numbers *)
Theorem C03_no_coercion : forall o a b v i, num2 o a b = AVal v i -> is_num a && is_num b = true.
Proof. exact num2_ok_typed. Qed.
Print Assumptions C03_no_coercion.

(* boolean logic, equality and membership are exactly the documented functions *)
Theorem C03_logic : forall x y a b l,
  builtin_infix n_lor (VBool x) (VBool y) = Some (AVal (VBool (x || y)) false) /\
  builtin_infix n_land (VBool x) (VBool y) = Some (AVal (VBool (x && y)) false) /\
  builtin_infix n_eq a b = Some (AVal (VBool (value_eqb a b)) false) /\
  builtin_infix n_ne a b = Some (AVal (VBool (negb (value_eqb a b))) false) /\
  builtin_infix n_in a (VList l) = Some (AVal (VBool (existsb (fun item => value_eqb item a) l)) false) /\
  builtin_prefix n_bang (VBool x) = Some (AVal (VBool (negb x)) false) /\
  builtin_prefix s_not (VBool x) = Some (AVal (VBool (negb x)) false).
Proof. intros. repeat split; reflexivity. Qed.
Print Assumptions C03_logic.

(* 64-bit two's complement: results are the 64-bit wrap of the mathematical result and always an i64 *)
Theorem C03_twos_complement : forall z,
  (i64_min <= wrap64 z <= i64_max)%Z /\ (wrap64 z mod 18446744073709551616 = z mod 18446744073709551616)%Z /\
  ((i64_min <= z <= i64_max)%Z -> wrap64 z = z).
Proof. intros z. split; [apply wrap64_range|]. split; [apply wrap64_congr | apply wrap64_id]. Qed.
Print Assumptions C03_twos_complement.

Example C03_example :
  builtin_infix n_shl (VNum (of_Z 1)) (VNum (of_Z 63)) = Some (AVal (VNum (of_Z (-9223372036854775808))) false) /\
  builtin_infix n_add (VNum (mkdec false 1 1)) (VNum (mkdec false 2 1)) = Some (AVal (VNum (mkdec false 3 1)) false) /\
  builtin_infix n_add (VNum dec_one) (VStr []) = Some AErr.
Proof. vm_compute. repeat split. Qed.
Print Assumptions C03_example.

(* DIVISION IS CORRECTLY ROUNDED. [dec_div] is rust_decimal's division transcribed at the level of integers (and compared with
   the crate mantissa-and-scale on every run). Whatever it returns - d, for operands a / b - lies within half a unit in the
   last place of d of the exact quotient; and a quotient it reports as exact is the exact quotient. Both sides of d ~ a / b
   are multiplied out to integers: d * b * 10^scale(a) against a * 10^scale(b) * 10^scale(d). *)
From EE Require Import DivisionLemmas.
Theorem C03_division_correctly_rounded : forall a b d, dmant a < two96 -> is_zero a = false ->
  (dec_div a b = DOk d \/ dec_div a b = DRounded d) ->
  near (dmant d * dmant b * pow10 (dscale a)) (dmant a * pow10 (dscale b) * pow10 (dscale d)) (dmant b * pow10 (dscale a)).
Proof. intros a b d HA Hz H. exact (dec_div_sound a b d HA H Hz). Qed.
Print Assumptions C03_division_correctly_rounded.

Theorem C03_division_exact_when_reported : forall a b d, dec_div a b = DOk d -> is_zero a = false ->
  dmant d * dmant b * pow10 (dscale a) = dmant a * pow10 (dscale b) * pow10 (dscale d).
Proof. exact dec_div_exact. Qed.
Print Assumptions C03_division_exact_when_reported.

(* 0.39351062 / 10 = 0.0393510620 (scale 10: the crate's partial unscale leaves one trailing zero), 1 / 3, 2 / 0 *)
Example C03_division_example :
  dec_div (mkdec false 39351062 8) (mkdec false 10 0) = DOk (mkdec false 393510620 10) /\
  dec_div (mkdec false 1 0) (mkdec false 3 0) = DRounded (mkdec false 3333333333333333333333333333 28) /\
  dec_div (mkdec false 2 0) (mkdec false 0 0) = DDivZero.
Proof. vm_compute. repeat split. Qed.
Print Assumptions C03_division_example.

(* MIN / MAX. The order of decimals is the order of the rationals they denote - a total preorder ([dle] is reflexive,
   transitive and total; 1.0 and 1.00 are equal in it). min (max) of a non-empty argument list of numbers is one of the
   arguments and no argument is smaller (greater); any non-number argument makes it an error (C03_type_errors covers that). *)
From EE Require Import AggregateLemmas.
Theorem C03_order_is_total_preorder : (forall a, dle a a) /\ (forall a b c, dle a b -> dle b c -> dle a c) /\ (forall a b, dle a b \/ dle b a).
Proof. repeat split; [exact dle_refl | exact dle_trans | exact dle_total]. Qed.
Print Assumptions C03_order_is_total_preorder.

Theorem C03_min_max : forall args d,
  (builtin_function n_min args = Some (AVal (VNum d) false) ->
     In (VNum d) args /\ (forall x, In (VNum x) args -> dle d x) /\ (forall v, In v args -> exists x, v = VNum x)) /\
  (builtin_function n_max args = Some (AVal (VNum d) false) ->
     In (VNum d) args /\ (forall x, In (VNum x) args -> dle x d) /\ (forall v, In v args -> exists x, v = VNum x)).
Proof.
  intros args d. split; intros H.
  - assert (E : builtin_function n_min args = Some (fold_ext dec_ltb None args)) by reflexivity. rewrite E in H. inversion H as [H1].
    destruct (fold_min_spec args None d H1) as (_ & B & C & D). repeat split; try assumption.
    destruct C as [(c & X & _)|C]; [discriminate X | exact C].
  - assert (E : builtin_function n_max args = Some (fold_ext (fun d c => dec_ltb c d) None args)) by reflexivity. rewrite E in H. inversion H as [H1].
    destruct (fold_max_spec args None d H1) as (_ & B & C & D). repeat split; try assumption.
    destruct C as [(c & X & _)|C]; [discriminate X | exact C].
Qed.
Print Assumptions C03_min_max.

(* REMAINDER. `a % b` is the truncated remainder with the sign of the dividend: brought to the common scale
   s = max(scale a, scale b), the magnitude of the result is |a| mod |b|, its scale is at most s, and a non-zero result has
   the sign of a (so a = q*b + r with q an integer and |r| < |b|). Where the model abstains (a dividend that must be rescaled
   past 96 bits: known finding D21, a defect of rust_decimal) dec_rem is DAbstain and nothing is claimed. *)
Local Open Scope N_scope.
Theorem C03_remainder_is_truncated : forall a b r, is_zero b = false -> dec_rem a b = DOk r ->
  let s := N.max (dscale a) (dscale b) in
  dmant r * pow10 (s - dscale r) = (dmant a * pow10 (s - dscale a)) mod (dmant b * pow10 (s - dscale b)) /\
  dscale r <= s /\ (dmant r = 0 \/ dneg r = dneg a).
Proof.
  intros a b r Hb H s. unfold dec_rem in H. rewrite Hb in H. fold s in H.
  set (A := dmant a * pow10 (s - dscale a)) in *. set (B := dmant b * pow10 (s - dscale b)) in *.
  assert (HB : B <> 0).
  { unfold B, pow10. unfold is_zero in Hb. apply N.eqb_neq in Hb. apply N.neq_mul_0. split; [exact Hb | apply N.pow_nonzero; discriminate]. }
  destruct (is_zero a) eqn:Ha.
  - inversion H; subst r. cbn [dmant dscale dneg dec_zero]. unfold is_zero in Ha. apply N.eqb_eq in Ha.
    unfold A. rewrite Ha. cbn [N.mul]. rewrite N.mod_0_l by exact HB. repeat split; [lia | left; reflexivity].
  - destruct (A =? B) eqn:E1.
    + inversion H; subst r. cbn [dmant dscale dneg dec_zero]. apply N.eqb_eq in E1. rewrite E1, N.mod_same by exact HB.
      repeat split; [lia | left; reflexivity].
    + destruct (A <? B) eqn:E2.
      * inversion H; subst r. apply N.ltb_lt in E2. fold A. rewrite N.mod_small by exact E2.
        repeat split; [unfold s; lia | right; reflexivity].
      * destruct ((dscale a <? dscale b) && (two96 <=? A)); [discriminate H|]. inversion H; subst r.
        unfold mk. cbn [dmant dscale dneg]. rewrite N.sub_diag. unfold pow10 at 1. rewrite N.pow_0_r, N.mul_1_r.
        repeat split; [lia|]. destruct (A mod B =? 0) eqn:E3; [left; apply N.eqb_eq; exact E3 | right; destruct (dneg a); reflexivity].
Qed.
Print Assumptions C03_remainder_is_truncated.

Example C03_remainder_example :
  dec_rem (mkdec true 75 1) (mkdec false 2 0) = DOk (mkdec true 15 1) /\      (* -7.5 % 2 = -1.5 *)
  dec_rem (mkdec false 7 0) (mkdec true 25 1) = DOk (mkdec false 20 1) /\     (* 7 % -2.5 = 2.0 *)
  dec_rem (mkdec false 1 0) (mkdec false 0 3) = DDivZero.
Proof. vm_compute. repeat split. Qed.
Print Assumptions C03_remainder_example.
