(** C01 - parsing is total: Ok or Err, never a panic, abort or hang (PARTIAL: "no stack exhaustion" is carried by the
    nesting counter of the parser model and measured on the real stack by the correspondence). *)
From EE Require Import Chars OpTable Decimal Token Lexer Ast Parser Printer Api Utf8 LexerSpec LexerTiling ParserTotal ParserFuel ParserMono ParserHeight.
Open Scope N_scope.

(* the tokenizer never panics and its explicit fuel (length + 1) always suffices: it terminates on every string *)
Theorem C01_lexer_total : forall tbl s toks tm, lex tbl s = (toks, tm) -> tm <> TmPanic /\ tm <> TmFuel.
Proof. intros tbl s toks tm H. exact (tiled_term tbl toks 0 s tm (lex_tiled tbl s toks tm H)). Qed.
Print Assumptions C01_lexer_total.

(* the parser never panics on any token stream whose terminal is not a tokenizer panic *)
Theorem C01_parser_no_panic : forall tbl tm ts, tm <> TmPanic -> parse_tokens tbl tm ts <> Panic.
Proof. intros tbl tm ts H. exact (parse_tokens_np tbl tm H ts). Qed.
Print Assumptions C01_parser_no_panic.

(* hence parse_expression never panics, for every operator table and every string *)
Theorem C01_no_panic : forall tbl s, api_parse tbl s <> Panic.
Proof.
  intros tbl s. unfold api_parse. destruct (lex tbl s) as [sts tm] eqn:E.
  apply C01_parser_no_panic. exact (proj1 (C01_lexer_total tbl s sts tm E)).
Qed.
Print Assumptions C01_no_panic.

(* the parser terminates: every successful sub-parse consumes at least one token (progress, proved for all eight mutually
   recursive parser functions), hence the explicit fuel 4*|tokens|+16 is never exhausted - for every table and every string.
   This is the termination argument for the loops and recursions of parser.rs *)
Theorem C01_progress : forall tbl tm f d ts a r,
  parse_expression tbl tm f d ts = Ok (a, r) -> (length r < length ts)%nat.
Proof. intros tbl tm f. exact (proj1 (parser_len tbl tm f)). Qed.
Print Assumptions C01_progress.

Theorem C01_terminates : forall tbl s, api_parse tbl s <> Fuel.
Proof.
  intros tbl s. unfold api_parse. destruct (lex tbl s) as [sts tm] eqn:E.
  apply parse_tokens_terminates. exact (proj2 (C01_lexer_total tbl s sts tm E)).
Qed.
Print Assumptions C01_terminates.

(* parsing is total: Ok or Err, nothing else *)
Theorem C01_total : forall tbl s, (exists t, api_parse tbl s = Ok t) \/ api_parse tbl s = Err.
Proof.
  intros tbl s. pose proof (C01_no_panic tbl s) as P. pose proof (C01_terminates tbl s) as F.
  destruct (api_parse tbl s) as [t| | |]; [left; exists t; reflexivity | right; reflexivity | contradiction | contradiction].
Qed.
Print Assumptions C01_total.

(* the nesting guard: beyond MAX_DEPTH both entry points of a nesting level refuse with Err instead of recursing *)
Theorem C01_depth_guard : forall tbl tm f d ts p lhs, MAX_DEPTH <= d ->
  parse_primary tbl tm (S f) d ts = Err /\ parse_op tbl tm (S f) d p lhs ts = Err.
Proof.
  intros tbl tm f d ts p lhs H. cbn [parse_primary parse_op].
  destruct (N.ltb_spec MAX_DEPTH (d + 1)); [|lia]. split; reflexivity.
Qed.
Print Assumptions C01_depth_guard.

(* every tree the parser returns is at most MAX_DEPTH (+1 for a multi-statement program) high, whatever the input:
   the recursive consumers of the tree - Clone, Drop, exec, expr(), describe() - recurse at most that deep *)
Theorem C01_ast_height : forall tbl s t, api_parse tbl s = Ok t -> ast_height t <= MAX_DEPTH + 1.
Proof.
  intros tbl s t H. unfold api_parse in H. destruct (lex tbl s) as [sts tm]. eapply parse_tokens_height. exact H.
Qed.
Print Assumptions C01_ast_height.

(* rendering is total: expr() and describe() are structurally recursive functions of the tree - no lookup can fail, no
   index is computed (the `len()-1` of the Rust printers is not modelled as a subtraction but as "last element") *)
Theorem C01_render_total : forall tbl dt t, exists x y, expr tbl t = x /\ describe tbl dt t = y.
Proof. intros. eexists. eexists. split; reflexivity. Qed.
Print Assumptions C01_render_total.

Example C01_example :
  let tbl := {| t_infix := [([43], {| ic_prec := 110; ic_setter := false; ic_right := false |})]; t_prefix := [[43]]; t_postfix := [] |} in
  api_parse tbl [43; 233] = Ok (AUnary [43] (ARef [233])) /\ api_parse tbl [40; 40] = Err.
Proof. vm_compute. split; reflexivity. Qed.
Print Assumptions C01_example.

(* the fuel is a proof device only: any fuel at least as large as the model's own gives the very same outcome, so nothing about
   the result depends on the particular bound 4*|tokens|+16 *)
Theorem C01_fuel_irrelevant : forall tbl tm ts F, tm <> TmFuel -> (parse_fuel ts <= F)%nat ->
  parse_tokens_with tbl tm F ts = parse_tokens tbl tm ts.
Proof. intros tbl tm ts F H L. exact (fuel_irrelevant tbl tm H ts F L). Qed.
Print Assumptions C01_fuel_irrelevant.

(* TRANSLATED FROM THE SOURCE ON EVERY RUN (Gen/ImplConsts.v, from parser.rs): the model's depth limit is the constant in the
   source text, and both guards of the source compare with `>` as the model does *)
From EE Require Import ImplConsts.
Theorem C01_depth_constant_is_source : recognised = true /\ MAX_DEPTH = impl_max_depth.
Proof. split; reflexivity. Qed.
Print Assumptions C01_depth_constant_is_source.

(* TRANSLATED FROM THE SOURCE ON EVERY RUN: the parser's recursion is counted (a call of enter()) once in parse_primary, once in
   parse_op and once in parse_op_inner - for the branches of a conditional - and nowhere else in parser.rs (the iterations of the
   operator loop do not recurse: fix 9cbfd9a). The model guards its depth at exactly those three places: C01_depth_guard for the
   first two, and here for the conditional. *)
From EE Require Import ParserSteps.
Theorem C01_recursion_counted_where_the_source_counts :
  recognised = true /\ impl_enter_sites = (1, 1, 1, 3) /\
  (forall tbl f d lhs rest, MAX_DEPTH <= d -> parse_op_loop tbl TmEof (S f) d 0%Z lhs (TOp s_qmark :: rest) = Err).
Proof.
  split; [reflexivity|]. split; [reflexivity|].
  intros tbl f d lhs rest H. rewrite parse_op_loop_eq. cbn zeta.
  assert (E: is_not s_qmark = false) by reflexivity. rewrite E. cbn [bind andb negb].
  destruct (cur_prec tbl (TOp s_qmark :: rest)) as [l r].
  assert (E2: str_eqb s_qmark s_qmark = true) by reflexivity. rewrite E2. cbn [Z.ltb Z.compare].
  rewrite advance_eof. cbn [bind]. destruct (N.ltb_spec MAX_DEPTH (d + 1)); [reflexivity | lia].
Qed.
Print Assumptions C01_recursion_counted_where_the_source_counts.

(* RUN-TIME VALUES ARE BOUNDED TOO (fix d4f0af3; before it `a = [1]; a = [a]; a = [a]; ...` grew a value one level per statement and
   the recursive clone / comparison / drop of Value aborted the process after a few thousand statements - finding D24). Every list
   and every map a program builds is nested at most MAX_VDEPTH deep, which is the parser's MAX_DEPTH, whatever the context held
   and whatever the handlers returned; and the source does it where the model does (generated on every run from parser.rs). *)
From EE Require Import Value Eval EvalLemmas.
Theorem C01_built_values_are_bounded : forall b reenter es kvs c st v st1,
  (exec b reenter (AList es) c st = (EOk v, st1) -> vdepth v <= MAX_VDEPTH) /\
  (exec b reenter (AMap kvs) c st = (EOk v, st1) -> vdepth v <= MAX_VDEPTH) /\
  MAX_VDEPTH = MAX_DEPTH /\ impl_value_bound_sites = (1, 1) /\ impl_value_bound_is_max_depth = true.
Proof.
  intros b reenter es kvs c st v st1. split; [|split; [|repeat split; reflexivity]].
  - cbn [Eval.exec].
    match goal with |- context [(fix go (l : list ast) (st : state) {struct l} := _) es st] =>
      destruct ((fix go (l : list ast) (st : state) {struct l} := _) es st) as [[e1|vs] s1] eqn:Eg end.
    + intros E. inversion E; subst. exfalso. exact (list_go_err_not_ok b reenter c _ _ _ _ Eg _ eq_refl).
    + destruct (vbounded (VList vs)) eqn:B; intros E; inversion E; subst. apply N.leb_le. exact B.
  - cbn [Eval.exec].
    match goal with |- context [(fix go (l : list (ast * ast)) (st : state) {struct l} := _) kvs st] =>
      destruct ((fix go (l : list (ast * ast)) (st : state) {struct l} := _) kvs st) as [[e1|m] s1] eqn:Eg end.
    + intros E. inversion E; subst. exfalso. exact (map_go_err_not_ok b reenter c _ _ _ _ Eg _ eq_refl).
    + destruct (vbounded (VMap m)) eqn:B; intros E; inversion E; subst. apply N.leb_le. exact B.
Qed.
Print Assumptions C01_built_values_are_bounded.
(* non-vacuity: a list of depth 2 is built; the bound bites exactly one level above MAX_VDEPTH *)
Example C01_value_bound_example :
  vdepth (VList [VList [VNum (mkdec false 1 0)]; VNone]) = 2 /\ vbounded (VList [VNone]) = true /\
  (forall v, vdepth v = MAX_VDEPTH -> vbounded v = true /\ vbounded (VList [v]) = false).
Proof.
  split; [reflexivity|]. split; [reflexivity|]. intros v H. unfold vbounded. cbn [vdepth]. rewrite H. split; reflexivity.
Qed.
Print Assumptions C01_value_bound_example.
