(** C05 - malformed input is rejected, never silently repaired.
    Lexical clauses (unterminated string, malformed number, lexical errors never swallowed) and, at the level of tokens, the
    "no junk" theorem (C): whatever the parser accepts is a sentence of the documented lenient grammar [Gprog], every token in
    its place (Lemmas/Grammar.v); so everything outside the grammar is answered with Err. *)
From EE Require Import Chars OpTable Decimal Token Lexer Ast Parser Api Utf8 LexerSpec LexerTiling ParserTotal ParserLexErr ParserFuel Grammar ImplTable.
Open Scope N_scope.

(* an unterminated string is a lexical error, whatever follows the opening quote *)
Theorem C05_unterminated_string : forall tbl cur q body,
  is_quote q = true -> is_ws q = false -> forallb (fun c => negb (c =? q)) body = true ->
  lex_one tbl cur (q :: body) = LErr.
Proof.
  intros tbl cur q body Hq Hw Hb. unfold lex_one. cbn [scan]. rewrite Hw.
  assert (Hsp: is_special q = false /\ is_delim q = false /\ is_digit09 q = false).
  { unfold is_quote in Hq. apply orb_prop in Hq. destruct Hq as [E|E]; apply N.eqb_eq in E; subst q; repeat split; reflexivity. }
  destruct Hsp as (H1 & H2 & H3). rewrite H1, H2, H3, Hq.
  assert (Hs: forall c, scan_str q c body = None).
  { induction body as [|x r IH]; intros c0; cbn [scan_str]; [reflexivity|].
    cbn [forallb] in Hb. apply andb_prop in Hb. destruct Hb as [Hx Hr].
    destruct (x =? q); [discriminate|]. apply IH. exact Hr. }
  rewrite Hs. reflexivity.
Qed.
Print Assumptions C05_unterminated_string.

(* a digit run that is not a decimal number is a lexical error: the token is the whole run, never a prefix of it *)
Theorem C05_malformed_number : forall tbl cur c w rest,
  is_digit09 c = true -> scan_num c (cur + ulen c) (w ++ rest) = (cur + ulen c + blen w, rest) ->
  dec_of_string (c :: w) = None -> lex_one tbl cur (c :: w ++ rest) = LErr.
Proof.
  intros tbl cur c w rest Hd Hs Hn. unfold lex_one.
  assert (Hw: is_ws c = false /\ is_special c = false /\ is_delim c = false).
  { unfold is_digit09 in Hd. apply andb_prop in Hd. destruct Hd as [A B]. apply N.leb_le in A, B.
    repeat split; unfold is_ws, is_special, is_delim;
      repeat match goal with |- context [c =? ?k] => destruct (N.eqb_spec c k); [lia|] end; reflexivity. }
  destruct Hw as (H1 & H2 & H3). cbn [scan]. rewrite H1, H2, H3, Hd, Hs.
  replace (c :: w ++ rest) with ([] ++ (c :: w) ++ rest) by reflexivity.
  rewrite slice_at_seg with (mid := c :: w); [rewrite Hn; reflexivity | cbn; lia | cbn [blen]; lia].
Qed.
Print Assumptions C05_malformed_number.

(* a lexical error anywhere in the input makes the whole parse an error: it is never swallowed, skipped or repaired -
   for every operator table and every string *)
Theorem C05_lexical_error_rejected : forall tbl s toks, lex tbl s = (toks, TmErr) -> api_parse tbl s = Err.
Proof.
  intros tbl s toks H. unfold api_parse. rewrite H.
  pose proof (lex_error_rejected tbl TmErr ltac:(discriminate) (map tk toks)) as NotOk.
  pose proof (parse_tokens_np tbl TmErr ltac:(discriminate) (map tk toks)) as NoPanic.
  pose proof (parse_tokens_terminates tbl TmErr ltac:(discriminate) (map tk toks)) as NoFuel.
  destruct (parse_tokens tbl TmErr (map tk toks)) as [t| | |]; [exfalso; eapply NotOk; reflexivity | reflexivity | contradiction | contradiction].
Qed.
Print Assumptions C05_lexical_error_rejected.

(* separators are checked, not assumed: expect() succeeds only on exactly the expected delimiter / operator / comma *)
Theorem C05_expect_exact : forall tm ts s r, expect tm ts s = Ok r ->
  exists t rest, ts = t :: rest /\ advance tm ts = Ok r /\
    match t with
    | TDelim d => [delim_char d] = s
    | TOp o => o = s
    | TComma => [c_comma] = s
    | _ => False
    end.
Proof.
  intros tm ts s r H. unfold expect in H. destruct (advance tm ts) as [r'| | |] eqn:A; cbn [bind] in H; try discriminate.
  destruct ts as [|t rest]; [discriminate|]. exists t, rest. split; [reflexivity|].
  destruct t; try discriminate; cbn [tok_is] in H.
  - destruct (str_eqb s0 s) eqn:E; [|discriminate]. inversion H; subst. split; [reflexivity | apply str_eqb_eq; exact E].
  - destruct (str_eqb [delim_char d] s) eqn:E; [|discriminate]. inversion H; subst. split; [reflexivity | apply str_eqb_eq; exact E].
  - destruct (str_eqb [c_comma] s) eqn:E; [|discriminate]. inversion H; subst. split; [reflexivity | apply str_eqb_eq; exact E].
Qed.
Print Assumptions C05_expect_exact.

(* an operator that is not a registered prefix operator is rejected in operand position *)
Theorem C05_operator_needs_operand_role : forall tbl tm f d op rest,
  is_prefix tbl op = false -> parse_token tbl tm (S f) d (TOp op :: rest) = Err.
Proof. intros. cbn [parse_token]. rewrite H. reflexivity. Qed.
Print Assumptions C05_operator_needs_operand_role.

(* a closing delimiter, comma or semicolon cannot start an operand; neither can the end of input *)
Theorem C05_stray_tokens : forall tbl tm f d rest,
  parse_token tbl tm (S f) d [] = Err /\ parse_token tbl tm (S f) d (TComma :: rest) = Err /\
  parse_token tbl tm (S f) d (TSemi :: rest) = Err /\ parse_token tbl tm (S f) d (TDelim DRParen :: rest) = Err /\
  parse_token tbl tm (S f) d (TDelim DRBrack :: rest) = Err /\ parse_token tbl tm (S f) d (TDelim DRBrace :: rest) = Err.
Proof. intros. repeat split; reflexivity. Qed.
Print Assumptions C05_stray_tokens.

Example C05_example :
  let tbl := {| t_infix := [([43], {| ic_prec := 110; ic_setter := false; ic_right := false |})]; t_prefix := []; t_postfix := [] |} in
  api_parse tbl [91; 49; 41; 50; 93] = Err /\ api_parse tbl [91; 49; 44; 50; 93] <> Err /\          (* [1)2]   [1,2] *)
  api_parse tbl [91; 49; 32; 39; 44; 39; 32; 50; 93] = Err /\ api_parse tbl [39; 97] = Err.          (* [1 ',' 2]   'a  *)
Proof. vm_compute. repeat split; discriminate. Qed.
Print Assumptions C05_example.

(* NO JUNK. For every operator table whose infix precedences are positive: if the parser accepts a token sequence then that
   sequence is derivable in the documented grammar (expressions over literals, names, calls f(a,...), lists [a,...,] and maps
   {k:v,...,} with optional trailing comma, parenthesised expressions, prefix / postfix / infix operators, `x not OP y`,
   `c ? a : b`; statements with optional `;`) and the tree returned is the tree of that derivation: no token dropped, none
   read as another, every delimiter and separator matched by spelling. *)
Theorem C05_grammar_sound : forall tbl ts t, tbl_pos tbl -> parse_tokens tbl TmEof ts = Ok t -> Gprog tbl ts t.
Proof. intros tbl ts t P H. exact (parse_sound tbl P ts t H). Qed.
Print Assumptions C05_grammar_sound.

(* hence an input that is not a sentence of the grammar is answered with Err (not Ok, not a panic, not a hang) *)
Theorem C05_outside_grammar_rejected : forall tbl ts, tbl_pos tbl -> (forall t, ~ Gprog tbl ts t) -> parse_tokens tbl TmEof ts = Err.
Proof.
  intros tbl ts P NG.
  pose proof (parse_tokens_np tbl TmEof ltac:(discriminate) ts) as NoPanic.
  pose proof (parse_tokens_terminates tbl TmEof ltac:(discriminate) ts) as NoFuel.
  destruct (parse_tokens tbl TmEof ts) as [t| | |] eqn:E; [exfalso; exact (NG t (parse_sound tbl P ts t E)) | reflexivity | contradiction | contradiction].
Qed.
Print Assumptions C05_outside_grammar_rejected.

(* read off the grammar: a program cannot start with a stray comma, semicolon, closing delimiter or non-prefix operator,
   and cannot end with an operator that lacks its right operand, an opening delimiter or a comma *)
Theorem C05_bad_start_rejected : forall tbl t0 rest, tbl_pos tbl -> ~ starter tbl t0 -> parse_tokens tbl TmEof (t0 :: rest) = Err.
Proof.
  intros tbl t0 rest P NS.
  pose proof (parse_tokens_np tbl TmEof ltac:(discriminate) (t0 :: rest)) as NoPanic.
  pose proof (parse_tokens_terminates tbl TmEof ltac:(discriminate) (t0 :: rest)) as NoFuel.
  destruct (parse_tokens tbl TmEof (t0 :: rest)) as [t| | |] eqn:E; [exfalso; exact (bad_start_rejected tbl P t0 rest t NS E) | reflexivity | contradiction | contradiction].
Qed.
Print Assumptions C05_bad_start_rejected.

Theorem C05_bad_end_rejected : forall tbl pre tl, tbl_pos tbl -> ~ ender tbl tl -> tl <> TSemi -> parse_tokens tbl TmEof (pre ++ [tl]) = Err.
Proof.
  intros tbl pre tl P NE NS.
  pose proof (parse_tokens_np tbl TmEof ltac:(discriminate) (pre ++ [tl])) as NoPanic.
  pose proof (parse_tokens_terminates tbl TmEof ltac:(discriminate) (pre ++ [tl])) as NoFuel.
  destruct (parse_tokens tbl TmEof (pre ++ [tl])) as [t| | |] eqn:E; [exfalso; exact (bad_end_rejected tbl P pre tl t NE NS E) | reflexivity | contradiction | contradiction].
Qed.
Print Assumptions C05_bad_end_rejected.

(* the hypothesis holds for the table dumped from the implementation on this run *)
Theorem C05_builtin_table_positive : tbl_pos builtin_table.
Proof. apply tbl_posb_ok. vm_compute. reflexivity. Qed.
Print Assumptions C05_builtin_table_positive.

(* the same for text: a program that parse_expression accepts lexes without error and its token sequence is a sentence of
   the grammar with that tree (tokenizer: tiling and exact text, C10; parser: no junk) *)
Theorem C05_text_grammar_sound : forall tbl s t, tbl_pos tbl -> api_parse tbl s = Ok t ->
  exists toks, lex tbl s = (toks, TmEof) /\ Gprog tbl (map tk toks) t.
Proof.
  intros tbl s t P H. unfold api_parse in H. destruct (lex tbl s) as [toks tm] eqn:E.
  destruct tm.
  - exists toks. split; [reflexivity|]. exact (parse_sound tbl P (map tk toks) t H).
  - exfalso. exact (lex_error_rejected tbl TmErr ltac:(discriminate) (map tk toks) t H).
  - exfalso. destruct (tiled_term tbl toks 0 s TmPanic (lex_tiled tbl s toks TmPanic E)) as [X _]. apply X. reflexivity.
  - exfalso. destruct (tiled_term tbl toks 0 s TmFuel (lex_tiled tbl s toks TmFuel E)) as [_ X]. apply X. reflexivity.
Qed.
Print Assumptions C05_text_grammar_sound.
