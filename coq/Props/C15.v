(** C15 - a failing or panicking handler is contained (PARTIAL: lock states are those of the model's lock discipline). *)
From EE Require Import Chars OpTable Decimal Ast Value Names Lexer Parser Eval EvalLemmas LockInv.
Open Scope N_scope.

(* whatever happens during an evaluation - including an Err or a panic raised by any handler at any point - no engine lock
   is left held or poisoned *)
Theorem C15_locks_clean : forall b s c st, clean st -> clean (snd (run_exec b s c st)).
Proof. intros b s c st H. exact (proj1 (good_run_exec b s c st H)). Qed.
Print Assumptions C15_locks_clean.

Theorem C15_locks_clean_exec : forall b f e c st, clean st -> clean (snd (exec_fuel b f e c st)).
Proof. intros b f e c st H. exact (proj1 (good_exec_fuel b f e c st H)). Qed.
Print Assumptions C15_locks_clean_exec.

Section C15.
Variable b : registries.
Variable reenter : str -> N -> state -> eres * state.
Notation exec := (exec b reenter).

(* a handler that returns Err (resp. panics) makes its invocation Err (resp. an unwind), having been logged exactly once *)
Theorem C15_handler_fault : forall h args st,
  (nassoc h (s_scripts st) = Some SFail ->
     call_script b reenter h args st = (EErr, set_log st ((h, args) :: s_log st))) /\
  (nassoc h (s_scripts st) = Some SPanic ->
     call_script b reenter h args st = (EPanic, set_log st ((h, args) :: s_log st))).
Proof. intros h args st. split; intros H; unfold call_script; rewrite H; reflexivity. Qed.

(* the fault propagates outwards unchanged through every enclosing node, and nothing to the right of it runs:
   the enclosing node returns the fault together with exactly the state at the moment of the fault (as-if-stopped) *)
Theorem C15_propagates : forall x c st fault st1, exec x c st = (fault, st1) -> (fault = EErr \/ fault = EPanic) ->
  (forall rest, exec (AList (x :: rest)) c st = (fault, st1)) /\
  (forall rest, exec (AStmt (x :: rest)) c st = (fault, st1)) /\
  (forall n rest, exec (AFunc n (x :: rest)) c st = (fault, st1)) /\
  (forall a y, exec (ATernary x a y) c st = (fault, st1)) /\
  (forall op r cfg hd, get_infix st op = inr (cfg, hd) -> ic_setter cfg = false -> exec (ABinary op x r) c st = (fault, st1)).
Proof.
  intros x c st fault st1 H F.
  assert (N: not_ok fault) by (intros v E; destruct F; subst; discriminate).
  repeat split; intros.
  - apply exec_list_err; assumption.
  - apply exec_stmt_err; assumption.
  - apply exec_call_arg_err; assumption.
  - apply exec_ternary_err; assumption.
  - eapply exec_calc_left_err; eassumption.
Qed.

(* an assignment whose handler faults binds nothing *)
Theorem C15_faulting_assignment_binds_nothing : forall op x e c st cfg hd a bv st1 st2 cfg2 hd2 fault st3,
  get_infix st op = inr (cfg, hd) -> ic_setter cfg = true ->
  exec (ARef x) c st = (EOk a, st1) -> exec e c st1 = (EOk bv, st2) ->
  get_infix st2 op = inr (cfg2, hd2) ->
  call_handler b reenter hd2 (builtin_infix op a bv) [a; bv] st2 = (fault, st3) -> (fault = EErr \/ fault = EPanic) ->
  exec (ABinary op (ARef x) e) c st = (fault, st3).
Proof.
  intros. eapply exec_setter_handler_fails; try eassumption.
  intros v E. destruct H5; subst; discriminate.
Qed.
End C15.
Print Assumptions C15_handler_fault.
Print Assumptions C15_propagates.
Print Assumptions C15_faulting_assignment_binds_nothing.

(* non-vacuity: a context function referenced by bare name panics; the unwind reaches the caller, the context stays usable *)
Example C15_example :
  let st := ctx_set (set_scripts init_state [(7, SPanic)]) 1 [102] (CFunc 7) in
  let b := {| r_infix := []; r_prefix := []; r_postfix := []; r_func := [] |} in
  fst (run_exec b [102] 1 st) = EPanic /\ clean (snd (run_exec b [102] 1 st)) /\
  fst (run_exec b [49] 1 (snd (run_exec b [102] 1 st))) = EOk (VNum (mkdec false 1 0)).
Proof. vm_compute. repeat split. Qed.
Print Assumptions C15_example.
