(** C07 - each subexpression runs once, left to right; conditionals are lazy; evaluation stops at the first error.
    Independence statements: the result, the final state and the call log (part of the state) of a node do not depend
    on the parts that must not run. For arbitrary handlers. *)
From EE Require Import Chars OpTable Decimal Ast Value Names Lexer Parser Eval EvalLemmas ExecInv.
Open Scope N_scope.

Section C07.
Variable b : registries.
Variable reenter : str -> N -> state -> eres * state.
Notation exec := (exec b reenter).

(* laziness: only the selected branch is evaluated - the other branch is irrelevant to value, state and log *)
Theorem C07_lazy : forall cnd a x x' c st st1,
  (exec cnd c st = (EOk (VBool true), st1) -> exec (ATernary cnd a x) c st = exec a c st1 /\
                                               exec (ATernary cnd a x) c st = exec (ATernary cnd a x') c st) /\
  (exec cnd c st = (EOk (VBool false), st1) -> exec (ATernary cnd x a) c st = exec a c st1 /\
                                                exec (ATernary cnd x a) c st = exec (ATernary cnd x' a) c st).
Proof.
  intros. split; intros H.
  - split; [apply exec_ternary_true; exact H|]. rewrite !(exec_ternary_true b reenter _ _ _ _ _ _ H). reflexivity.
  - split; [apply exec_ternary_false; exact H|]. rewrite !(exec_ternary_false b reenter _ _ _ _ _ _ H). reflexivity.
Qed.

(* stop at the first error: once a part fails, nothing to its right is evaluated, called or assigned -
   the node's result and state are those at the failure, whatever stands to the right *)
Theorem C07_stop : forall x c st err st1, exec x c st = (err, st1) -> not_ok err ->
  (forall rest, exec (AList (x :: rest)) c st = (err, st1)) /\
  (forall rest, exec (AStmt (x :: rest)) c st = (err, st1)) /\
  (forall n rest, exec (AFunc n (x :: rest)) c st = (err, st1)) /\
  (forall a y, exec (ATernary x a y) c st = (err, st1)) /\
  (forall op r cfg hd, get_infix st op = inr (cfg, hd) -> ic_setter cfg = false -> exec (ABinary op x r) c st = (err, st1)).
Proof.
  intros x c st err st1 H N. repeat split; intros.
  - apply exec_list_err; assumption.
  - apply exec_stmt_err; assumption.
  - apply exec_call_arg_err; assumption.
  - apply exec_ternary_err; assumption.
  - eapply exec_calc_left_err; eassumption.
Qed.

(* order: operands left to right, the operator's handler after both; a failing right operand stops before the handler *)
Theorem C07_operands_in_order : forall op l r c st cfg hd a st1,
  get_infix st op = inr (cfg, hd) -> ic_setter cfg = false -> exec l c st = (EOk a, st1) ->
  (forall bv st2, exec r c st1 = (EOk bv, st2) ->
     exec (ABinary op l r) c st = call_handler b reenter hd (builtin_infix op a bv) [a; bv] st2) /\
  (forall err st2, exec r c st1 = (err, st2) -> not_ok err -> exec (ABinary op l r) c st = (err, st2)).
Proof.
  intros. split; intros.
  - eapply exec_calc; eassumption.
  - eapply exec_calc_right_err; eassumption.
Qed.

(* every invocation of a user handler is logged exactly once, at the head of the log, before its script runs *)
Theorem C07_call_logged : forall h args st,
  nassoc h (s_scripts st) = None ->
  call_script b reenter h args st = (EOk VNone, set_log st ((h, args) :: s_log st)).
Proof. intros h args st H. unfold call_script. rewrite H. reflexivity. Qed.

(* the call log is append-only: evaluation never removes, reorders or rewrites an entry - whatever the program and the
   handlers do (provided the re-entry function, i.e. nested evaluations started by handlers, is append-only too).
   With C07_call_logged (one entry per invocation, at the moment of the invocation) this is "exactly once, in order". *)
Definition extends (L0 : list (hid * list value)) (st : state) : Prop := exists l, s_log st = l ++ L0.

Theorem C07_log_append_only : forall L0 c e st,
  (forall s c' st', extends L0 st' -> extends L0 (snd (reenter s c' st'))) ->
  extends L0 st -> extends L0 (snd (exec e c st)).
Proof.
  intros L0 c e st HR H.
  apply (inv_exec b reenter c (extends L0)); try assumption; clear; unfold extends.
  - intros st h args [l E]. exists ((h, args) :: l). cbn [set_log s_log]. rewrite E. reflexivity.
  - intros st i [l E]. exists l. exact E.
  - intros st n v [l E]. exists l. exact E.
  - intros st [l E]. exists l. unfold ensure_init. destruct (s_inited st); exact E.
  - intros st n h [l E]. exists l. exact E.
  - intros st n h [l E]. exists l. exact E.
  - intros st n h [l E]. exists l. exact E.
  - intros st n cfg h [l E]. exists l. exact E.
Qed.

(* LEFT TO RIGHT, ONCE: the first element / entry / statement is evaluated from the state the node was entered in, the remaining
   ones from the state it left behind, and their values are put together in that order - for every tail, every handler and every
   state. With C07_stop (nothing after a failing part runs) and induction over the tail this fixes the whole order.
   (Since fix d4f0af3 a list or map nested deeper than MAX_VDEPTH is refused AFTER all its parts have been evaluated: the
   refusal is an error of the node, in the state its last part left behind.) *)
Theorem C07_sequences_left_to_right : forall x c st v st1, exec x c st = (EOk v, st1) ->
  (forall rest vs st2, exec (AList rest) c st1 = (EOk (VList vs), st2) ->
     exec (AList (x :: rest)) c st = if vbounded (VList (v :: vs)) then (EOk (VList (v :: vs)), st2) else (EErr, st2)) /\
  (forall rest err st2, exec (AList rest) c st1 = (err, st2) -> not_ok err -> exec (AList (x :: rest)) c st = (err, st2)) /\
  (forall y rest, exec (AStmt (x :: y :: rest)) c st = exec (AStmt (y :: rest)) c st1) /\
  (forall k rest kv st0 m st2, exec k c st0 = (EOk kv, st) -> exec (AMap rest) c st1 = (EOk (VMap m), st2) ->
     exec (AMap ((k, x) :: rest)) c st0 = if vbounded (VMap ((kv, v) :: m)) then (EOk (VMap ((kv, v) :: m)), st2) else (EErr, st2)) /\
  (forall k rest kv st0 err st2, exec k c st0 = (EOk kv, st) -> exec (AMap rest) c st1 = (err, st2) -> not_ok err ->
     exec (AMap ((k, x) :: rest)) c st0 = (err, st2)).
Proof.
  intros x c st v st1 H.
  assert (LE : forall l s e s', (fix go (l : list ast) (st : state) {struct l} : (eres + list value) * state :=
       match l with
       | [] => (inr [], st)
       | x :: r => match exec x c st with
                   | (EOk v, st1) => match go r st1 with (inr vs, st2) => (inr (v :: vs), st2) | other => other end
                   | (err, st1) => (inl err, st1)
                   end
       end) l s = (inl e, s') -> not_ok e).
  { induction l as [|y r IH]; intros s e s' E; [discriminate E|].
    destruct (exec y c s) as [[w| | | | |] s1] eqn:Ey; try (inversion E; subst; intros w0 Hw; discriminate Hw).
    match type of E with context [(fix go (l : list ast) (st : state) {struct l} := _) r s1] =>
      destruct ((fix go (l : list ast) (st : state) {struct l} := _) r s1) as [[e1|vs] s2] eqn:Eg end; [|discriminate E].
    inversion E; subst. exact (IH _ _ _ Eg). }
  assert (ME : forall l s e s', (fix go (l : list (ast * ast)) (st : state) {struct l} : (eres + list (value * value)) * state :=
       match l with
       | [] => (inr [], st)
       | (k, v) :: r =>
           match exec k c st with
           | (EOk kv, st1) =>
               match exec v c st1 with
               | (EOk vv, st2) => match go r st2 with (inr rest, st3) => (inr ((kv, vv) :: rest), st3) | other => other end
               | (err, st2) => (inl err, st2)
               end
           | (err, st1) => (inl err, st1)
           end
       end) l s = (inl e, s') -> not_ok e).
  { induction l as [|[k y] r IH]; intros s e s' E; [discriminate E|].
    destruct (exec k c s) as [[w| | | | |] s1] eqn:Ek; try (inversion E; subst; intros w0 Hw; discriminate Hw).
    destruct (exec y c s1) as [[w2| | | | |] s2] eqn:Ey; try (inversion E; subst; intros w0 Hw; discriminate Hw).
    match type of E with context [(fix go (l : list (ast * ast)) (st : state) {struct l} := _) r s2] =>
      destruct ((fix go (l : list (ast * ast)) (st : state) {struct l} := _) r s2) as [[e1|m] s3] eqn:Eg end; [|discriminate E].
    inversion E; subst. exact (IH _ _ _ Eg). }
  split; [|split; [|split; [|split]]].
  - intros rest vs st2 Hr. cbn [Eval.exec] in Hr |- *. rewrite H.
    match goal with |- context [(fix go (l : list ast) (st : state) {struct l} := _) rest st1] =>
      destruct ((fix go (l : list ast) (st : state) {struct l} := _) rest st1) as [[e1|ws] s2] eqn:Eg end.
    + inversion Hr; subst. exfalso. exact (LE _ _ _ _ Eg _ eq_refl).
    + destruct (vbounded (VList ws)); inversion Hr; subst. reflexivity.
  - intros rest err st2 Hr Hn. cbn [Eval.exec] in Hr |- *. rewrite H.
    match goal with |- context [(fix go (l : list ast) (st : state) {struct l} := _) rest st1] =>
      destruct ((fix go (l : list ast) (st : state) {struct l} := _) rest st1) as [[e1|ws] s2] end.
    + exact Hr.
    + destruct (vbounded (VList ws)) eqn:Bw; inversion Hr; subst; [exfalso; exact (Hn _ eq_refl)|].
      rewrite (vbounded_cons_list v ws Bw). reflexivity.
  - intros y rest. cbn [Eval.exec]. rewrite H. reflexivity.
  - intros k rest kv st0 m st2 Hk Hr. cbn [Eval.exec] in Hr |- *. rewrite Hk, H.
    match goal with |- context [(fix go (l : list (ast * ast)) (st : state) {struct l} := _) rest st1] =>
      destruct ((fix go (l : list (ast * ast)) (st : state) {struct l} := _) rest st1) as [[e1|m'] s2] eqn:Eg end.
    + inversion Hr; subst. exfalso. exact (ME _ _ _ _ Eg _ eq_refl).
    + destruct (vbounded (VMap m')); inversion Hr; subst. reflexivity.
  - intros k rest kv st0 err st2 Hk Hr Hn. cbn [Eval.exec] in Hr |- *. rewrite Hk, H.
    match goal with |- context [(fix go (l : list (ast * ast)) (st : state) {struct l} := _) rest st1] =>
      destruct ((fix go (l : list (ast * ast)) (st : state) {struct l} := _) rest st1) as [[e1|m'] s2] end.
    + exact Hr.
    + destruct (vbounded (VMap m')) eqn:Bw; inversion Hr; subst; [exfalso; exact (Hn _ eq_refl)|].
      rewrite (vbounded_cons_map kv v m' Bw). reflexivity.
Qed.

End C07.
Print Assumptions C07_lazy.
Print Assumptions C07_log_append_only.
Print Assumptions C07_stop.
Print Assumptions C07_operands_in_order.
Print Assumptions C07_call_logged.
Print Assumptions C07_sequences_left_to_right.
