(** C08 - names and operators dispatch to the handler and binding last registered. *)
From EE Require Import Chars OpTable Decimal Ast Value Names Lexer Parser Eval EvalLemmas Utf8.
Open Scope N_scope.

Section C08.
Variable b : registries.
Variable reenter : str -> N -> state -> eres * state.
Notation exec := (exec b reenter).

(* last registration wins, other names keep their entry - for each of the four registries *)
Theorem C08_last_wins : forall st n h m cfg,
  assoc n (r_func (s_regs (reg_func st n h))) = Some h /\
  assoc n (r_prefix (s_regs (reg_prefix st n h))) = Some h /\
  assoc n (r_postfix (s_regs (reg_postfix st n h))) = Some h /\
  assoc n (r_infix (s_regs (reg_infix st n cfg h))) = Some (cfg, h) /\
  (n <> m -> assoc m (r_func (s_regs (reg_func st n h))) = assoc m (r_func (s_regs st)) /\
             assoc m (r_prefix (s_regs (reg_prefix st n h))) = assoc m (r_prefix (s_regs st)) /\
             assoc m (r_postfix (s_regs (reg_postfix st n h))) = assoc m (r_postfix (s_regs st)) /\
             assoc m (r_infix (s_regs (reg_infix st n cfg h))) = assoc m (r_infix (s_regs st))).
Proof.
  intros. cbn. repeat split; try apply assoc_cons_same; intros; apply assoc_cons_other; assumption.
Qed.

(* a registration made before the engine was first used survives initialisation: init() runs inside the registering
   call, before the entry is added, so the user's entry shadows the built-in of the same name *)
Theorem C08_register_before_first_use : forall n h,
  let st := snd (do_register b LFunc init_state (fun st => reg_func st n (HScript h))) in
  s_inited st = true /\ assoc n (r_func (s_regs st)) = Some (HScript h) /\ ensure_init b st = st.
Proof. intros n h. cbn. repeat split. apply assoc_cons_same. Qed.

(* init() keeps what is registered: it only appends the built-ins behind existing entries, and runs once *)
Theorem C08_init_idempotent : forall st, ensure_init b (ensure_init b st) = ensure_init b st.
Proof. intros st. unfold ensure_init. destruct (s_inited st) eqn:E; [rewrite E; reflexivity | reflexivity]. Qed.

(* dispatch of a call: the context's function if the name is bound to one; otherwise the globally registered function -
   a context VARIABLE of that name does not shadow it; otherwise an error *)
Theorem C08_dispatch : forall n c st, acquire (LCtx c) st = None ->
  (forall h, assoc n (ctx_of st c) = Some (CFunc h) -> exec (AFunc n []) c st = call_script b reenter h [] st) /\
  ((forall h, assoc n (ctx_of st c) <> Some (CFunc h)) -> acquire LFunc st = None ->
     (forall hd, assoc n (r_func (s_regs st)) = Some hd ->
         exec (AFunc n []) c st = call_handler b reenter hd (builtin_function n []) [] st) /\
     (assoc n (r_func (s_regs st)) = None -> exec (AFunc n []) c st = (EErr, st))).
Proof.
  intros n c st A. split.
  - intros h H. apply exec_call_ctx; assumption.
  - intros H A2. split; intros; [apply exec_call_global | apply exec_call_unknown]; assumption.
Qed.

(* binding powers never overflow i32 for precedences up to 10^9, and distinct precedences give separated powers:
   adjacent values p, p+1 are ordered strictly, whatever the associativities *)
Theorem C08_binding_powers : forall t op c,
  infix_cfg_of t op = Some c -> (1 <= ic_prec c <= 1000000000)%Z ->
  let '(l, r) := binding_power t op in
  i32_ok l = true /\ i32_ok r = true /\ l = (2 * ic_prec c)%Z /\ (r = l + 1 \/ r = l - 1)%Z /\ (0 < r)%Z.
Proof.
  intros t op c H R. unfold binding_power. rewrite H. unfold i32_ok.
  destruct (ic_right c); repeat split; try lia;
    try (apply andb_true_intro; split; apply Z.leb_le; lia).
Qed.
Theorem C08_adjacent_precedences : forall t o1 o2 c1 c2,
  infix_cfg_of t o1 = Some c1 -> infix_cfg_of t o2 = Some c2 -> (ic_prec c1 < ic_prec c2)%Z ->
  (snd (binding_power t o1) < fst (binding_power t o2))%Z /\ (fst (binding_power t o1) < snd (binding_power t o2))%Z.
Proof.
  intros t o1 o2 c1 c2 H1 H2 L. unfold binding_power. rewrite H1, H2. cbn [fst snd].
  destruct (ic_right c1), (ic_right c2); lia.
Qed.
End C08.
Print Assumptions C08_last_wins.
Print Assumptions C08_register_before_first_use.
Print Assumptions C08_init_idempotent.
Print Assumptions C08_dispatch.
Print Assumptions C08_binding_powers.
Print Assumptions C08_adjacent_precedences.

(* TRANSLATED FROM THE SOURCE ON EVERY RUN (Gen/ImplConsts.v, from operator.rs InfixOpManager::get_precidence): the binding
   powers the model computes for a registered operator are the formula in the source text, and an unregistered one gets the
   source's pair - for every precedence and associativity *)
From EE Require Import ImplConsts.
Theorem C08_binding_power_is_source : recognised = true /\
  (forall tbl op c, infix_cfg_of tbl op = Some c -> binding_power tbl op = impl_bp (ic_prec c) (ic_right c)) /\
  (forall tbl op, infix_cfg_of tbl op = None -> binding_power tbl op = impl_bp_unregistered).
Proof.
  split; [reflexivity|]. split.
  - intros tbl op c H. unfold binding_power, impl_bp. rewrite H. cbn zeta. destruct (ic_right c); f_equal; lia.
  - intros tbl op H. unfold binding_power. rewrite H. reflexivity.
Qed.
Print Assumptions C08_binding_power_is_source.
