(** C11 - whitespace and redundant parentheses never change the parse (PARTIAL: the tokenizer-level facts proved here;
    invariance of the whole parse under re-layout and re-parenthesisation is carried by the correspondence). *)
From EE Require Import Chars OpTable Decimal Token Lexer Ast Parser Api Utf8 LexerSpec LexerTiling ParserSteps.
Open Scope N_scope.

(* tokens are separated by whitespace only, so what lies between two tokens carries no information: the tiling theorem *)
Theorem C11_gaps_are_whitespace : forall tbl s toks tm, lex tbl s = (toks, tm) -> gaps_ws tbl s toks tm.
Proof. intros tbl s toks tm H. exact (tiled_gaps tbl toks 0 s tm (lex_tiled tbl s toks tm H)). Qed.
Print Assumptions C11_gaps_are_whitespace.

(* all four whitespace characters are skipped alike before a token *)
Theorem C11_all_whitespace_skipped : forall c, is_ws c = true <-> (c = 32 \/ c = 9 \/ c = 13 \/ c = 10).
Proof.
  intros c. unfold is_ws. split.
  - intros H. repeat (apply orb_prop in H; destruct H as [H|H]); apply N.eqb_eq in H; auto.
  - intros [H|[H|[H|H]]]; subst c; reflexivity.
Qed.
Print Assumptions C11_all_whitespace_skipped.

(* a string token's payload is the text between the quotes verbatim: layout characters inside it are kept *)
Theorem C11_strings_verbatim : forall tbl s toks tm t w,
  lex tbl s = (toks, tm) -> In t toks -> tk t = TStr w ->
  exists q, is_quote q = true /\ slice s (t_start t) (t_end t) = Some (q :: w ++ [q]).
Proof.
  intros tbl s toks tm t w H Hin Ht.
  destruct (tiled_in tbl toks [] s tm (lex_tiled tbl s toks tm H) t Hin) as (p & body & r & H1 & H2 & H3 & H4 & H5 & _).
  rewrite Ht in H5. cbn [tok_ok] in H5. destruct H5 as (q & Hq & Hb & _). exists q. split; [exact Hq|].
  cbn [app] in H1. subst s body. rewrite H2, H3. apply slice_app.
Qed.
Print Assumptions C11_strings_verbatim.

(* a name is a function name iff the next non-blank character is `(`: any amount of whitespace in between *)
Theorem C11_call_lookahead_skips_blanks : forall cur ws rest,
  forallb is_ws ws = true -> next_is_lparen cur (ws ++ rest) = next_is_lparen 0 rest.
Proof.
  intros cur ws rest H. revert cur. induction ws as [|c ws IH]; intros cur; cbn [app].
  - apply next_is_lparen_cur.
  - cbn [forallb] in H. apply andb_prop in H. destruct H as [Hc Hr].
    unfold next_is_lparen. cbn [scan]. rewrite Hc. apply (IH Hr).
Qed.
Print Assumptions C11_call_lookahead_skips_blanks.

(* parentheses are transparent: a parenthesised expression in operand position yields exactly the tree of the inner
   expression (no node is built for the parentheses), so k redundant pairs yield the same operand tree as none *)
Theorem C11_parens_transparent : forall tbl f d ts e rest,
  parse_expression tbl TmEof f d ts = Ok (e, TDelim DRParen :: rest) ->
  parse_token tbl TmEof (S f) d (TDelim DLParen :: ts) = Ok (e, rest).
Proof.
  intros tbl f d ts e rest H. rewrite parse_token_paren_eq. rewrite advance_eof. cbn [bind]. rewrite H. cbn [bind].
  assert (E: cur_is (TDelim DRParen :: rest) s_rparen = true) by reflexivity. rewrite E. rewrite advance_eof. reflexivity.
Qed.
Print Assumptions C11_parens_transparent.

(* an unbalanced or mismatched closing delimiter after the inner expression is an error, never ignored *)
Theorem C11_parens_must_close : forall tbl f d ts e t rest,
  parse_expression tbl TmEof f d ts = Ok (e, t :: rest) -> tok_is t s_rparen = false ->
  parse_token tbl TmEof (S f) d (TDelim DLParen :: ts) = Err.
Proof.
  intros tbl f d ts e t rest H N. rewrite parse_token_paren_eq. rewrite advance_eof. cbn [bind]. rewrite H. cbn [bind].
  cbn [cur_is]. rewrite N. reflexivity.
Qed.
Print Assumptions C11_parens_must_close.

Example C11_example :
  let tbl := {| t_infix := [([43], {| ic_prec := 110; ic_setter := false; ic_right := false |})]; t_prefix := []; t_postfix := [] |} in
  api_parse tbl [97; 43; 40; 98; 41] = api_parse tbl [32; 97; 9; 43; 13; 10; 40; 40; 32; 98; 41; 32; 41; 10].
Proof. vm_compute. reflexivity. Qed.
Print Assumptions C11_example.
