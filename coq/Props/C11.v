(** C11 - whitespace and redundant parentheses never change the parse.
    Whitespace: a theorem for every input and every sane operator table (Lemmas/LexerWs.v): changing the gaps between tokens
    leaves the token stream, hence the parse, unchanged. Parentheses: a theorem for every tree and table (Lemmas/PrattParen.v):
    a rendering with the parentheses the grammar needs and ANY further parentheses around ANY subexpressions parses to the
    tree with the parentheses forgotten. *)
From EE Require Import Chars OpTable Decimal Token Lexer Ast Parser Api Utf8 LexerSpec LexerTiling LexerWs ParserSteps Ptree Etoks PrattFull PrattParen ImplTable Names.
Open Scope N_scope.

(* tokens are separated by whitespace only, so what lies between two tokens carries no information: the tiling theorem *)
Theorem C11_gaps_are_whitespace : forall tbl s toks tm, lex tbl s = (toks, tm) -> gaps_ws tbl s toks tm.
Proof. intros tbl s toks tm H. exact (tiled_gaps tbl toks 0 s tm (lex_tiled tbl s toks tm H)). Qed.
Print Assumptions C11_gaps_are_whitespace.

(* all four whitespace characters are skipped alike before a token *)
Theorem C11_all_whitespace_skipped : forall c, is_ws c = true <-> (c = 32 \/ c = 9 \/ c = 13 \/ c = 10).
Proof.
  intros c. unfold is_ws. split.
  - intros H. repeat (apply orb_prop in H; destruct H as [H|H]); apply N.eqb_eq in H; auto.
  - intros [H|[H|[H|H]]]; subst c; reflexivity.
Qed.
Print Assumptions C11_all_whitespace_skipped.

(* a string token's payload is the text between the quotes verbatim: layout characters inside it are kept *)
Theorem C11_strings_verbatim : forall tbl s toks tm t w,
  lex tbl s = (toks, tm) -> In t toks -> tk t = TStr w ->
  exists q, is_quote q = true /\ slice s (t_start t) (t_end t) = Some (q :: w ++ [q]).
Proof.
  intros tbl s toks tm t w H Hin Ht.
  destruct (tiled_in tbl toks [] s tm (lex_tiled tbl s toks tm H) t Hin) as (p & body & r & H1 & H2 & H3 & H4 & H5 & _).
  rewrite Ht in H5. cbn [tok_ok] in H5. destruct H5 as (q & Hq & Hb & _). exists q. split; [exact Hq|].
  cbn [app] in H1. subst s body. rewrite H2, H3. apply slice_app.
Qed.
Print Assumptions C11_strings_verbatim.

(* a name is a function name iff the next non-blank character is `(`: any amount of whitespace in between *)
Theorem C11_call_lookahead_skips_blanks : forall cur ws rest,
  forallb is_ws ws = true -> next_is_lparen cur (ws ++ rest) = next_is_lparen 0 rest.
Proof.
  intros cur ws rest H. revert cur. induction ws as [|c ws IH]; intros cur; cbn [app].
  - apply next_is_lparen_cur.
  - cbn [forallb] in H. apply andb_prop in H. destruct H as [Hc Hr].
    unfold next_is_lparen. cbn [scan]. rewrite Hc. apply (IH Hr).
Qed.
Print Assumptions C11_call_lookahead_skips_blanks.

(* parentheses are transparent: a parenthesised expression in operand position yields exactly the tree of the inner
   expression (no node is built for the parentheses), so k redundant pairs yield the same operand tree as none *)
Theorem C11_parens_transparent : forall tbl f d ts e rest,
  parse_expression tbl TmEof f d ts = Ok (e, TDelim DRParen :: rest) ->
  parse_token tbl TmEof (S f) d (TDelim DLParen :: ts) = Ok (e, rest).
Proof.
  intros tbl f d ts e rest H. rewrite parse_token_paren_eq. rewrite advance_eof. cbn [bind]. rewrite H. cbn [bind].
  assert (E: cur_is (TDelim DRParen :: rest) s_rparen = true) by reflexivity. rewrite E. rewrite advance_eof. reflexivity.
Qed.
Print Assumptions C11_parens_transparent.

(* an unbalanced or mismatched closing delimiter after the inner expression is an error, never ignored *)
Theorem C11_parens_must_close : forall tbl f d ts e t rest,
  parse_expression tbl TmEof f d ts = Ok (e, t :: rest) -> tok_is t s_rparen = false ->
  parse_token tbl TmEof (S f) d (TDelim DLParen :: ts) = Err.
Proof.
  intros tbl f d ts e t rest H N. rewrite parse_token_paren_eq. rewrite advance_eof. cbn [bind]. rewrite H. cbn [bind].
  cbn [cur_is]. rewrite N. reflexivity.
Qed.
Print Assumptions C11_parens_must_close.

Example C11_example :
  let tbl := {| t_infix := [([43], {| ic_prec := 110; ic_setter := false; ic_right := false |})]; t_prefix := []; t_postfix := [] |} in
  api_parse tbl [97; 43; 40; 98; 41] = api_parse tbl [32; 97; 9; 43; 13; 10; 40; 40; 32; 98; 41; 32; 41; 10].
Proof. vm_compute. reflexivity. Qed.
Print Assumptions C11_example.

(* WHITESPACE NEVER CHANGES THE PARSE. [Adj tbl s toks s']: s' is s with the gaps around its tokens [toks] changed - where
   there was whitespace, any non-empty whitespace; where two tokens touched, any whitespace or none; before the first and after
   the last token likewise; token bodies untouched; names (and true/false) are not operator words. Then s' parses exactly as s,
   for every table whose operators contain no whitespace and whose word operators consist of name characters. *)
Theorem C11_whitespace_invariance : forall tbl s toks s', tbl_lex_okb tbl = true ->
  lex tbl s = (toks, TmEof) -> Adj tbl s toks s' -> api_parse tbl s' = api_parse tbl s.
Proof. exact parse_respace. Qed.
Print Assumptions C11_whitespace_invariance.

(* the same for the tokens themselves: kinds and payloads are unchanged, only the offsets move *)
Theorem C11_whitespace_tokens : forall tbl s toks s', tbl_lex_okb tbl = true ->
  lex tbl s = (toks, TmEof) -> Adj tbl s toks s' ->
  exists toks', lex tbl s' = (toks', TmEof) /\ map tk toks' = map tk toks.
Proof. intros tbl s toks s' T H A. destruct (tbl_lex_ok tbl T) as [T1 T2]. exact (lex_respace tbl T1 T2 s toks s' H A). Qed.
Print Assumptions C11_whitespace_tokens.

(* the table dumped from the implementation on this run meets the condition *)
Theorem C11_builtin_table_lex_ok : tbl_lex_okb builtin_table = true.
Proof. vm_compute. reflexivity. Qed.
Print Assumptions C11_builtin_table_lex_ok.

(* non-vacuity: `a+1` re-spaced to ` a +  1 ` is an instance *)
Example C11_whitespace_example :
  exists toks, lex builtin_table [97; 43; 49] = (toks, TmEof) /\
               Adj builtin_table [97; 43; 49] toks [32; 97; 32; 43; 9; 10; 49; 32].
Proof.
  eexists. split; [vm_compute; reflexivity|].
  apply (Adj_cons builtin_table [] [32] [97] [43; 49] [32; 43; 9; 10; 49; 32]);
    [reflexivity | reflexivity | right; discriminate | reflexivity | reflexivity | intros _; reflexivity |].
  apply (Adj_cons builtin_table [] [32] [43] [49] [9; 10; 49; 32]);
    [reflexivity | reflexivity | right; discriminate | reflexivity | reflexivity | intros X; discriminate X |].
  apply (Adj_cons builtin_table [] [9; 10] [49] [] [32]);
    [reflexivity | reflexivity | right; discriminate | reflexivity | reflexivity | intros X; discriminate X |].
  apply Adj_nil; reflexivity.
Qed.
Print Assumptions C11_whitespace_example.

(* REDUNDANT PARENTHESES NEVER CHANGE THE PARSE. [ptree]: syntax trees with explicit parenthesis nodes; [toks] writes one down,
   [strip] forgets the parentheses; [wfp] demands only the parentheses the grammar needs and allows any others, around any
   subexpression, nested to any depth. For every table with `?`/`:` unregistered and every such rendering within the depth limit
   the parser returns the stripped tree. So any two renderings of the same tree parse alike, whatever their redundant parentheses. *)
Theorem C11_redundant_parens : forall tbl p, tbl_ok tbl -> wfp tbl p = true -> phgt p -> proom 0 p ->
  parse_tokens tbl TmEof (toks p) = Ok (strip p).
Proof. intros tbl p T. exact (parse_toks tbl T p). Qed.
Print Assumptions C11_redundant_parens.

Theorem C11_extra_parens_same_parse : forall tbl p, tbl_ok tbl -> wfp tbl p = true -> phgt p -> proom 0 (PParen p) ->
  parse_tokens tbl TmEof (toks (PParen p)) = parse_tokens tbl TmEof (toks p).
Proof. intros tbl p T. exact (extra_parens_same_parse tbl T p). Qed.
Print Assumptions C11_extra_parens_same_parse.

(* non-vacuity: ((a)) + ((b * (c))) and a + b * c, over the built-in table *)
Example C11_redundant_parens_example :
  let a := PRef [97] in let b := PRef [98] in let c := PRef [99] in
  let p1 := PBin false n_add (PParen (PParen a)) (PParen (PParen (PBin false n_mul b (PParen c)))) in
  let p2 := PBin false n_add a (PBin false n_mul b c) in
  wfp builtin_table p1 = true /\ wfp builtin_table p2 = true /\ strip p1 = strip p2 /\ pneed p1 = 6 /\
  length (toks p1) = 15%nat /\ parse_tokens builtin_table TmEof (toks p1) = Ok (strip p2).
Proof. vm_compute. repeat split. Qed.
Print Assumptions C11_redundant_parens_example.
