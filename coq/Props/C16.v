(** C16 - evaluations are deterministic and isolated from one another. The model has no hidden state: every public
    operation is a function of (registrations so far, the context passed in, the program); the theorems say which part of the
    state each operation can touch. The force of the check comes from the correspondence with the impl. *)
From EE Require Import Chars OpTable Decimal Ast Value Names Lexer Parser Eval EvalLemmas ExecInv ExecRel Isolation.
Open Scope N_scope.

Section C16.
Variable b : registries.

(* parsing alone changes nothing observable: beyond running init() once, the state is untouched *)
Theorem C16_parse_pure : forall st s, snd (do_parse b st s) = ensure_init b st.
Proof.
  intros st s. unfold do_parse.
  destruct (acquire LPrefix (ensure_init b st)) as [[]|], (acquire LInfix (ensure_init b st)) as [[]|],
           (acquire LPostfix (ensure_init b st)) as [[]|]; try reflexivity;
    destruct (lex (tbl_of (s_regs (ensure_init b st))) s); reflexivity.
Qed.

(* the parse result depends only on the text and on the operator tables (registrations so far) *)
Theorem C16_parse_deterministic : forall st st' s,
  s_held st = [] -> s_poisoned st = [] -> s_held st' = [] -> s_poisoned st' = [] ->
  tbl_of (s_regs (ensure_init b st)) = tbl_of (s_regs (ensure_init b st')) ->
  fst (do_parse b st s) = fst (do_parse b st' s).
Proof.
  intros st st' s H1 H2 H3 H4 E. unfold do_parse.
  assert (A: forall l x, s_held x = [] -> s_poisoned x = [] -> acquire l (ensure_init b x) = None).
  { intros l x Hh Hp. unfold acquire, ensure_init. destruct (s_inited x); cbn [s_held s_poisoned]; rewrite Hh, Hp; reflexivity. }
  rewrite !A by assumption. rewrite E.
  destruct (lex (tbl_of (s_regs (ensure_init b st'))) s). reflexivity.
Qed.

(* an assignment touches exactly one name of exactly one context *)
Theorem C16_assignment_frame : forall st c x v c' y,
  (c <> c' -> ctx_of (ctx_set st c x v) c' = ctx_of st c') /\
  (x <> y -> assoc y (ctx_of (ctx_set st c x v) c) = assoc y (ctx_of st c)) /\
  s_regs (ctx_set st c x v) = s_regs st /\ s_log (ctx_set st c x v) = s_log st.
Proof.
  intros. unfold ctx_set, ctx_of. cbn [s_ctxs set_ctxs nassoc s_regs s_log]. rewrite N.eqb_refl. repeat split.
  - intros H. destruct (N.eqb_spec c' c); [congruence|reflexivity].
  - intros H. apply assoc_cons_other. exact H.
Qed.


(* isolation: evaluating any program on context c leaves every other context c' exactly as it was - whatever the program,
   the built-in and the user handlers do - unless a handler itself evaluates on c' (the re-entry function is the only door) *)
Theorem C16_other_contexts_untouched : forall reenter c c' X e st, c <> c' ->
  (forall s c0 st', ctx_of st' c' = X -> ctx_of (snd (reenter s c0 st')) c' = X) ->
  ctx_of st c' = X -> ctx_of (snd (exec b reenter e c st)) c' = X.
Proof.
  intros reenter c c' X e st Hne HR H.
  apply (inv_exec b reenter c (fun st => ctx_of st c' = X)); try assumption; clear - Hne.
  - intros st h args E. exact E.
  - intros st i E. exact E.
  - intros st n v E. unfold ctx_set, ctx_of in *. cbn [s_ctxs set_ctxs nassoc].
    destruct (N.eqb_spec c' c); [congruence | exact E].
  - intros st E. unfold ensure_init. destruct (s_inited st); exact E.
  - intros st n h E. exact E.
  - intros st n h E. exact E.
  - intros st n h E. exact E.
  - intros st n cfg h E. exact E.
Qed.

(* the result depends only on the text, the registrations and handlers, and the contents of the contexts the evaluation
   can reach: two states that agree on those (`iso`: same registrations, scripts, lock sets, and every context except d)
   give every program evaluated on a context other than d the same result, and final states that agree in the same way -
   whatever the program and the handlers do, provided no handler evaluates on d. With cnt = false the two call histories
   may differ arbitrarily (earlier evaluations are invisible), provided no handler counts its own invocations. *)
Theorem C16_unrelated_state_is_invisible : forall cnt d SC s c st st',
  scripts_ok (other_than d) cnt SC -> c <> d -> iso cnt d SC st st' ->
  fst (run_exec b s c st) = fst (run_exec b s c st') /\
  iso cnt d SC (snd (run_exec b s c st)) (snd (run_exec b s c st')).
Proof.
  intros cnt d SC s c st st' OK Hc H. apply iso_run_exec; try assumption.
  unfold other_than. destruct (N.eqb_spec c d); [contradiction | reflexivity].
Qed.

(* the same for an AST that is evaluated again (ExprAST::exec), at every re-entry depth *)
Theorem C16_ast_reevaluation : forall cnt d SC f e c st st',
  scripts_ok (other_than d) cnt SC -> c <> d -> iso cnt d SC st st' ->
  fst (exec_fuel b f e c st) = fst (exec_fuel b f e c st') /\
  iso cnt d SC (snd (exec_fuel b f e c st)) (snd (exec_fuel b f e c st')).
Proof.
  intros cnt d SC f e c st st' OK Hc H. apply iso_exec_fuel; try assumption.
  unfold other_than. destruct (N.eqb_spec c d); [contradiction | reflexivity].
Qed.

End C16.
Print Assumptions C16_other_contexts_untouched.
Print Assumptions C16_parse_pure.
Print Assumptions C16_parse_deterministic.
Print Assumptions C16_assignment_frame.
Print Assumptions C16_unrelated_state_is_invisible.
Print Assumptions C16_ast_reevaluation.

(* the hypotheses are satisfiable by states that really differ: another context holds a binding in one state and not in the
   other, the call histories differ, and a handler evaluates on a third context *)
Definition c16_scripts : list (hid * script) := [(7, SSeq (AcExec [49] 1) (SRet VNone))].
Definition c16_state (ctx2 : context) (log : list (hid * list value)) : state :=
  {| s_inited := false; s_regs := {| r_infix := []; r_prefix := []; r_postfix := []; r_func := [] |};
     s_ctxs := [(2, ctx2); (1, [([120], CVar (VBool true))])]; s_scripts := c16_scripts; s_log := log;
     s_held := []; s_poisoned := []; s_inexact := false |}.
Example C16_iso_example :
  scripts_ok (other_than 2) false c16_scripts /\
  iso false 2 c16_scripts (c16_state [([121], CVar VNone)] [(7, [])]) (c16_state [] []).
Proof.
  split.
  - intros h s. unfold c16_scripts. cbn [nassoc]. destruct (h =? 7); [|discriminate]. intros E. inversion E. reflexivity.
  - constructor; try reflexivity; try discriminate.
    intros c Hc. unfold other_than in Hc. unfold ctx_of, c16_state. cbn [s_ctxs nassoc].
    destruct (c =? 2); [discriminate Hc | reflexivity].
Qed.
Print Assumptions C16_iso_example.
