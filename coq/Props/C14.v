(** C14 - handlers may re-enter the engine without deadlock (PARTIAL: "deadlock" is a state of the model's lock
    discipline; that the Rust code takes and releases its mutexes where the model says is established by the scenario
    correspondence, not by analysis of guard lifetimes). For ALL handler scripts (any nesting of parse / execute /
    register_* / lock-the-context actions), all programs, all contexts, any re-entry depth. *)
From EE Require Import Chars OpTable Decimal Ast Value Names Lexer Parser Eval LockInv.
Open Scope N_scope.

(* the outer evaluation never blocks on a lock it (transitively) holds *)
Theorem C14_no_deadlock : forall b s c st, clean st -> fst (run_exec b s c st) <> EDeadlock.
Proof. intros b s c st H. exact (proj2 (good_run_exec b s c st H)). Qed.
Print Assumptions C14_no_deadlock.

(* ... and leaves every engine lock free and unpoisoned, so the next evaluation starts from a clean lock state *)
Theorem C14_locks_released : forall b s c st, clean st -> clean (snd (run_exec b s c st)).
Proof. intros b s c st H. exact (proj1 (good_run_exec b s c st H)). Qed.
Print Assumptions C14_locks_released.

(* every handler invocation starts with all locks free: a handler that locks the evaluating context's handle succeeds *)
Theorem C14_handler_can_lock_context : forall b reenter h n args st c k,
  clean st -> run_script b reenter (SSeq (AcLock c) k) h n args st = run_script b reenter k h n args st.
Proof. intros. cbn [run_script]. rewrite (acquire_clean _ _ H). reflexivity. Qed.
Print Assumptions C14_handler_can_lock_context.

(* registration from inside a handler takes effect (it is not blocked by a lock held by the evaluation in progress) *)
Theorem C14_handler_can_register : forall b st n h, clean st ->
  do_register b LFunc st (fun st => reg_func st n (HScript h)) = (EOk VNone, reg_func (ensure_init b st) n (HScript h)).
Proof.
  intros b st n h H. unfold do_register. rewrite (acquire_clean _ _ (clean_ensure_init b st H)). reflexivity.
Qed.
Print Assumptions C14_handler_can_register.

(* the initial state of a process is clean, and every public entry point preserves cleanliness (by the theorems above) *)
Theorem C14_initial_clean : clean init_state.
Proof. split; reflexivity. Qed.
Print Assumptions C14_initial_clean.

(* non-vacuity: a context function referenced by bare name that locks its own context and re-enters execute *)
Example C14_example :
  let script := SSeq (AcLock 1) (SSeq (AcExec [121; 61; 53] 1) (SRet (VBool true))) in   (* lock ctx 1; execute("y=5", ctx 1); true *)
  let st := ctx_set (set_scripts init_state [(7, script)]) 1 [102] (CFunc 7) in
  let b := {| r_infix := [([61], ({| ic_prec := 20; ic_setter := true; ic_right := true |}, HBuiltin))];
              r_prefix := []; r_postfix := []; r_func := [] |} in
  fst (run_exec b [102] 1 st) = EOk (VBool true) /\
  assoc [121] (ctx_of (snd (run_exec b [102] 1 st)) 1) = Some (CVar (VNum (mkdec false 5 0))).
Proof. vm_compute. split; reflexivity. Qed.
Print Assumptions C14_example.
