(** C10 - Tokens tile the input and carry the exact source text. Statements only; proofs are in Lemmas/. *)
From Coq Require Import Sorting.Sorted.
From EE Require Import Chars OpTable Decimal Token Lexer Utf8 LexerSpec LexerTiling.
Open Scope N_scope.

(* the tokenizer never panics (no slice off a character boundary) and its explicit fuel always suffices,
   for every operator table and every string *)
Theorem C10_total : forall tbl s toks tm, lex tbl s = (toks, tm) -> tm <> TmPanic /\ tm <> TmFuel.
Proof. intros tbl s toks tm H. exact (tiled_term tbl toks 0 s tm (lex_tiled tbl s toks tm H)). Qed.
Print Assumptions C10_total.

(* every token covers a non-empty segment [body] of the input that lies on character boundaries
   (slice = Some: in bounds and on boundaries), and its text / value is determined by exactly that segment
   as tok_ok says (operator, name: verbatim; string: the characters between the quotes, quote-free;
   number: the decimal the digits denote; bool: the keyword; classification of names by the next non-blank '(') *)
Theorem C10_text : forall tbl s toks tm t,
  lex tbl s = (toks, tm) -> In t toks ->
  exists body r, slice s (t_start t) (t_end t) = Some body /\ body <> [] /\ tok_ok tbl (tk t) body r /\
                 exists p, s = p ++ body ++ r.
Proof.
  intros tbl s toks tm t H Hin.
  destruct (tiled_in tbl toks [] s tm (lex_tiled tbl s toks tm H) t Hin) as (p & body & r & H1 & H2 & H3 & H4 & H5 & _).
  exists body, r. cbn [app] in H1. subst s. rewrite H2, H3. split; [apply slice_app|].
  repeat split; try assumption. exists p. reflexivity.
Qed.
Print Assumptions C10_text.

(* spans are in order, do not overlap and are non-empty *)
Theorem C10_increasing : forall tbl s toks tm,
  lex tbl s = (toks, tm) ->
  StronglySorted (fun a b => t_end a <= t_start b) toks /\ Forall (fun t => t_start t < t_end t) toks.
Proof.
  intros tbl s toks tm H.
  destruct (tiled_sorted tbl toks 0 s tm (lex_tiled tbl s toks tm H)) as [S F].
  split; [exact S|]. eapply Forall_impl; [|exact F]. cbn. intros a [_ Ha]. exact Ha.
Qed.
Print Assumptions C10_increasing.

(* tokens are separated only by whitespace, and at EOF only whitespace is left *)
Theorem C10_gaps : forall tbl s toks tm, lex tbl s = (toks, tm) -> gaps_ws tbl s toks tm.
Proof. intros tbl s toks tm H. exact (tiled_gaps tbl toks 0 s tm (lex_tiled tbl s toks tm H)). Qed.
Print Assumptions C10_gaps.

(* the model's slices are Rust's slices of the whole input (tie between Lexer.slice_at and &input[a..b]) *)
Theorem C10_slice_model : forall pre sfx a b, blen pre <= a -> slice_at (blen pre) sfx a b = slice (pre ++ sfx) a b.
Proof. exact slice_at_whole. Qed.
Print Assumptions C10_slice_model.

(* non-vacuity: a concrete input with every token kind *)
Example C10_example :
  let tbl := {| t_infix := [([43], {| ic_prec := 110; ic_setter := false; ic_right := false |})]; t_prefix := []; t_postfix := [] |} in
  exists toks, lex tbl [32; 102; 40; 233; 43; 49; 46; 53; 44; 39; 120; 39; 41; 59; 116; 114; 117; 101] = (toks, TmEof) /\ length toks = 10%nat.
Proof. eexists. split; [vm_compute; reflexivity | reflexivity]. Qed.
Print Assumptions C10_example.

(* TRANSLATED FROM THE SOURCE ON EVERY RUN (Gen/ImplChars.v, from tokenizer.rs): the model's character classes are, for EVERY
   character, the helpers is_whitespace_char / is_delim_char / is_digit_char / is_param_char / is_word_end_char of the source text
   (and both loops that delimit an operator word stop at is_word_end_char), and the
   first character selects the kind of token exactly as the arms of Tokenizer::next do, in the same order *)
From EE Require Import ImplChars.
From Coq Require Import ZifyBool.
Theorem C10_char_classes_are_source : chars_recognised = true /\
  (forall ch, is_ws ch = impl_is_whitespace_char ch) /\ (forall ch, is_delim ch = impl_is_delim_char ch) /\
  (forall ch, is_digit_char ch = impl_is_digit_char ch) /\ (forall ch, is_param_char ch = impl_is_param_char ch) /\
  (forall ch, word_end ch = impl_is_word_end_char ch) /\
  (forall ch, is_special ch = impl_arm_special_op_token ch) /\ (forall ch, is_delim ch = impl_arm_delim_token ch) /\
  (forall ch, is_digit09 ch = impl_arm_number_token ch) /\ (forall ch, is_quote ch = impl_arm_string_token ch) /\
  (forall ch, (ch =? c_semi) = impl_arm_semicolon_token ch) /\ (forall ch, (ch =? c_comma) = impl_arm_comma_token ch).
Proof.
  split; [reflexivity|].
  repeat split; intros ch;
    unfold word_end, impl_is_word_end_char, is_ws, is_delim, is_digit_char, is_param_char, is_special, is_digit09, is_quote, c_semi, c_comma,
      impl_is_whitespace_char, impl_is_delim_char, impl_is_digit_char, impl_is_param_char, impl_arm_special_op_token,
      impl_arm_delim_token, impl_arm_number_token, impl_arm_string_token, impl_arm_semicolon_token, impl_arm_comma_token;
    lia.
Qed.
Print Assumptions C10_char_classes_are_source.

(* CLASSIFICATION, completeness direction (Lemmas/LexPrint.v): text of each documented shape, followed by whitespace, one of the
   separators ) ] } , ; : or the end of input, IS read as the corresponding token - for every table whose operators contain
   neither whitespace nor a separator and whose word operators consist of name characters:
   - a symbolic operator along whose characters every prefix is registered is taken whole (longest match by greedy extension);
   - a registered word is an operator token when it is the whole word; an identifier that is neither a keyword nor an operator
     word is a name - a function name exactly when the next visible character is `(`;
   - true / false are booleans; digits with at most one point that denote a decimal are that number; a quoted run without
     its quote character is a string with exactly that payload. *)
From EE Require Import LexerWs LexPrint.
Theorem C10_classification_complete : forall tbl,
  (forall w x, is_ws x = true -> is_op tbl (w ++ [x]) = false) ->
  (forall w, is_op tbl w = true -> forallb is_param_char w = true \/ match w with c :: _ => is_special c = true | [] => True end) ->
  (forall w x, w <> [] -> ksep x = true -> is_op tbl (w ++ [x]) = false) ->
  forall cur g k, forallb is_ws g = true -> kstop k ->
  (forall c bt, is_special c = true -> pops tbl [c] bt ->
     lex_one tbl cur (g ++ c :: bt ++ k) = LTok (mkst (TOp (c :: bt)) (cur + blen g) (cur + blen g + ulen c + blen bt)) (cur + blen g + ulen c + blen bt) k) /\
  (forall c bt, wordstart c -> forallb not_ws_delim (c :: bt) = true -> is_op tbl (c :: bt) = true ->
     lex_one tbl cur (g ++ c :: bt ++ k) = LTok (mkst (TOp (c :: bt)) (cur + blen g) (cur + blen g + ulen c + blen bt)) (cur + blen g + ulen c + blen bt) k) /\
  (forall c bt, wordstart c -> is_param_char c = true -> forallb is_param_char bt = true -> is_op tbl (c :: bt) = false -> is_kw (c :: bt) = false ->
     lex_one tbl cur (g ++ c :: bt ++ k) =
     LTok (mkst (if next_is_lparen 0 k then TFunc (c :: bt) else TRef (c :: bt)) (cur + blen g) (cur + blen g + ulen c + blen bt)) (cur + blen g + ulen c + blen bt) k) /\
  (forall c w d, is_digit09 c = true -> forallb (fun x => is_digit09 x || (x =? c_dot)) w = true -> dec_of_string (c :: w) = Some d ->
     lex_one tbl cur (g ++ c :: w ++ k) = LTok (mkst (TNum d) (cur + blen g) (cur + blen g + ulen c + blen w)) (cur + blen g + ulen c + blen w) k) /\
  (forall q w, is_quote q = true -> forallb (fun c => negb (c =? q)) w = true ->
     lex_one tbl cur (g ++ q :: w ++ q :: k) = LTok (mkst (TStr w) (cur + blen g) (cur + blen g + 1 + blen w + 1)) (cur + blen g + 1 + blen w + 1) k).
Proof.
  intros tbl H1 H2 H3 cur g k Hg Hk. repeat split; intros.
  - apply lex_symop; assumption.
  - apply lex_wordop; assumption.
  - apply (lex_name tbl H2); try assumption. apply (kstop_param k Hk).
  - apply lex_number; assumption.
  - apply lex_string; assumption.
Qed.
Print Assumptions C10_classification_complete.
