(** C02 - operators group exactly by the documented precedence and associativity.
    Part 1 (generated facts, re-checked on every run): the built-in table dumped from the impl IS the documented table. *)
From EE Require Import Chars OpTable Names Token Ast Parser ParserSteps GroupingSmall Printer Ptree Etoks PrattFull PrattParen RoundTrip ImplTable DocTable.
Open Scope N_scope.

(* every row of README.md's BinaryExpression table is registered with that precedence; every registered infix operator is a
   row of the table, or `in` at 200 (documented in the property text, missing from the README table) *)
Definition doc_rows_registered : bool :=
  forallb (fun row => match infix_cfg_of builtin_table (fst row) with
                      | Some c => Z.eqb (ic_prec c) (snd row) | None => false end) doc_table.
Definition registered_rows_documented : bool :=
  forallb (fun e => existsb (fun row => str_eqb (fst e) (fst row) && Z.eqb (ic_prec (snd e)) (snd row)) doc_table
                    || (str_eqb (fst e) n_in && Z.eqb (ic_prec (snd e)) 200)) (t_infix builtin_table).
(* assignment operators are exactly the right-associative ones, at the lowest level; calculation operators are left-associative *)
Definition assoc_as_documented : bool :=
  forallb (fun e => Bool.eqb (ic_right (snd e)) (ic_setter (snd e)) &&
                    (if ic_setter (snd e) then Z.eqb (ic_prec (snd e)) 20 else Z.ltb 20 (ic_prec (snd e)))) (t_infix builtin_table).

Theorem C02_table : doc_rows_registered = true /\ registered_rows_documented = true /\ assoc_as_documented = true.
Proof. vm_compute. repeat split. Qed.
Print Assumptions C02_table.

(* the prefix / postfix operators and built-in functions named by the properties are the registered ones *)
Theorem C02_fixity_sets :
  forallb (fun n => mem n (t_prefix builtin_table)) [n_sub; n_add; n_bang; s_not; n_AND; n_OR] = true /\
  length (t_prefix builtin_table) = 6%nat /\
  forallb (fun n => mem n (t_postfix builtin_table)) [n_inc; n_dec] = true /\ length (t_postfix builtin_table) = 2%nat /\
  forallb (fun n => mem n builtin_functions) [n_min; n_max; n_sum; n_mulf] = true /\ length builtin_functions = 4%nat /\
  length (t_infix builtin_table) = 32%nat.
Proof. vm_compute. repeat split. Qed.
Print Assumptions C02_fixity_sets.

(* all built-in precedences are positive and within the range for which binding powers cannot overflow *)
Theorem C02_table_wf :
  forallb (fun e => Z.leb 1 (ic_prec (snd e)) && Z.leb (ic_prec (snd e)) 1000000000) (t_infix builtin_table) = true.
Proof. vm_compute. reflexivity. Qed.
Print Assumptions C02_table_wf.

(** Part 2: the grouping clauses on their minimal configurations - for ARBITRARY operator tables, operators and names
    (symbolic execution of the parser model; the general case of arbitrarily large expressions is decided on each run by
    the executable spec of the documented rules against impl and model). *)

(* higher precedence binds first; equal precedence groups by the associativity of the first operator:
   left-to-right for calculation operators, right-to-left for assignment operators *)
Theorem C02_two_operators : forall tbl o1 o2 c1 c2 a b c, wf_infix tbl o1 c1 -> wf_infix tbl o2 c2 ->
  let ts := [TRef a; TOp o1; TRef b; TOp o2; TRef c] in
  let left := ABinary o2 (ABinary o1 (ARef a) (ARef b)) (ARef c) in
  let right := ABinary o1 (ARef a) (ABinary o2 (ARef b) (ARef c)) in
  ((ic_prec c2 < ic_prec c1)%Z -> parse_tokens tbl TmEof ts = Ok left) /\
  ((ic_prec c1 < ic_prec c2)%Z -> parse_tokens tbl TmEof ts = Ok right) /\
  (ic_prec c1 = ic_prec c2 -> ic_right c1 = false -> parse_tokens tbl TmEof ts = Ok left) /\
  (ic_prec c1 = ic_prec c2 -> ic_right c1 = true -> parse_tokens tbl TmEof ts = Ok right).
Proof. intros tbl o1 o2 c1 c2 a b c W1 W2. exact (two_ops_by_precedence tbl o1 o2 c1 c2 a b c W1 W2). Qed.
Print Assumptions C02_two_operators.

(* a prefix operator binds tighter than every infix operator *)
Theorem C02_prefix_tighter_than_infix : forall tbl pre o1 c1 a b, is_prefix tbl pre = true -> wf_infix tbl o1 c1 ->
  parse_tokens tbl TmEof [TOp pre; TRef a; TOp o1; TRef b] = Ok (ABinary o1 (AUnary pre (ARef a)) (ARef b)).
Proof. exact prefix_tighter_than_infix. Qed.
Print Assumptions C02_prefix_tighter_than_infix.

(* a postfix operator binds tighter than a prefix one *)
Theorem C02_postfix_tighter_than_prefix : forall tbl pre post a, is_prefix tbl pre = true -> is_postfix tbl post = true ->
  parse_tokens tbl TmEof [TOp pre; TRef a; TOp post] = Ok (AUnary pre (APostfix (ARef a) post)).
Proof. exact postfix_tighter_than_prefix. Qed.
Print Assumptions C02_postfix_tighter_than_prefix.

(* `x not OP y` means not(x OP y) *)
Theorem C02_not_infix : forall tbl o1 c1 a b, punct_ok tbl -> wf_infix tbl o1 c1 ->
  parse_tokens tbl TmEof [TRef a; TOp s_not; TOp o1; TRef b] = Ok (AUnary s_not (ABinary o1 (ARef a) (ARef b))).
Proof. exact not_infix. Qed.
Print Assumptions C02_not_infix.

(* the hypotheses are met by the built-in table: every built-in infix operator is well-formed *)
Theorem C02_builtins_wf :
  forallb (fun e => negb (is_not (fst e)) && negb (str_eqb (fst e) s_qmark) && negb (is_postfix builtin_table (fst e))
                    && Z.leb 1 (ic_prec (snd e))) (t_infix builtin_table) = true /\
  infix_cfg_of builtin_table s_qmark = None /\ infix_cfg_of builtin_table s_colon = None /\ infix_cfg_of builtin_table s_not = None /\
  is_postfix builtin_table s_qmark = false /\ is_postfix builtin_table s_colon = false /\ is_postfix builtin_table s_not = false.
Proof. vm_compute. repeat split. Qed.
Print Assumptions C02_builtins_wf.

(* THE GROUPING THEOREM, whole expression language. For an arbitrary operator table in which `?` and `:` are not registered
   operators, and every well-formed tree [t] - names, literals, infix operators, `x not OP y`, prefix and postfix operators,
   conditionals, calls, lists and maps, of any size and shape within the parser's depth limit - the token sequence [etoks t]
   (the printer model's output, token by token: parentheses exactly where the documented rule demands them - a left operand
   unless every operator on its right spine, followed up to the next parenthesis, has r_bp above the parent's l_bp, a right
   operand unless every operator on its left spine has l_bp above the parent's r_bp, a conditional as operand, an operator
   expression under a prefix or postfix operator) is parsed back to exactly [t], every token consumed.
   So the binding powers 2p / 2p+1 / 2p-1 of the documented precedence p and associativity decide EVERY grouping, prefix binds
   tighter than infix, postfix tighter than prefix, the conditional is loosest and right-nested, `x not OP y` is not(x OP y),
   and parentheses override - for all trees, not for the two- or three-operator samples above. *)
Theorem C02_round_trip : forall tbl t, tbl_ok tbl -> wf tbl t = true -> hgt t -> room tbl 0 t ->
  parse_tokens tbl TmEof (etoks tbl t) = Ok t.
Proof. intros tbl t H. exact (parse_etoks tbl H t). Qed.
Print Assumptions C02_round_trip.

(* the premises are met by the built-in table and by real trees:
   - a ++ * (1 + 2) ? [1, min(2)] : {k: x not in y}    and    1 + 2 * 3 - 4 *)
Example C02_round_trip_example :
  let one := ALit (LNum (of_Z 1)) in
  let a := ARef [97] in
  let t1 := ATernary (ABinary n_mul (AUnary n_sub (APostfix a n_inc)) (ABinary n_add one one))
                     (AList [one; AFunc n_min [one]])
                     (AMap [(ARef [107], AUnary s_not (ABinary n_in a a))]) in
  let t2 := ABinary n_sub (ABinary n_add one (ABinary n_mul one one)) one in
  tbl_ok builtin_table /\ wf builtin_table t1 = true /\ wf builtin_table t2 = true /\
  need builtin_table t1 = 5 /\ need builtin_table t2 = 3 /\
  length (etoks builtin_table t1) = 27%nat /\
  parse_tokens builtin_table TmEof (etoks builtin_table t1) = Ok t1.
Proof. vm_compute. repeat split. Qed.
Print Assumptions C02_round_trip_example.

(* PARENTHESES OVERRIDE ALL OF THIS: a parenthesised subexpression is an operand whatever the operators around it - for every
   tree with explicit parenthesis nodes (Lemmas/PrattParen.v); e.g. `(a + b) * c` is the product of the sum and c *)
Theorem C02_parens_override : forall tbl p, tbl_ok tbl -> wfp tbl p = true -> phgt p -> proom 0 p ->
  parse_tokens tbl TmEof (toks p) = Ok (strip p).
Proof. intros tbl p T. exact (parse_toks tbl T p). Qed.
Print Assumptions C02_parens_override.

Example C02_parens_override_example :
  let a := PRef [97] in
  let p := PBin false n_mul (PParen (PBin false n_add a a)) a in
  wfp builtin_table p = true /\
  parse_tokens builtin_table TmEof (toks p) = Ok (ABinary n_mul (ABinary n_add (ARef [97]) (ARef [97])) (ARef [97])).
Proof. vm_compute. split; reflexivity. Qed.
Print Assumptions C02_parens_override_example.

(* EVERY ACCEPTED PARSE IS THE DOCUMENTED GROUPING. For every text the parser accepts as one expression, the tree it returns is
   well-formed and its minimal spelling [minp t] - parentheses exactly where the binding powers demand them - is accepted by the
   grammar and denotes it ([wfp], [strip]); parsing that spelling's tokens gives the tree back. So the tree of ANY accepted text
   is the tree the documented precedence / associativity rules assign to some fully explicit spelling of it: the parser has no
   grouping of its own (Lemmas/PrattComplete.v + RoundTrip.v). *)
From EE Require Import LeastNesting PrattComplete LexPrintExpr Unconditional Api.
Theorem C02_every_accepted_parse_is_the_documented_grouping : forall tbl s t, tbl_complete_okb tbl = true ->
  api_parse tbl s = Ok t -> (forall es, t <> AStmt es) ->
  wf tbl t = true /\ wfp tbl (minp tbl t) = true /\ strip (minp tbl t) = t /\ parse_tokens tbl TmEof (etoks tbl t) = Ok t.
Proof.
  intros tbl s t HC H NS. destruct (accepted_premises tbl s t HC H) as [P | ->]; [|exfalso; exact (NS [] eq_refl)].
  pose proof (top_round_trip tbl t P) as RT.
  unfold premises in P. apply andb_prop in P as [HT P].
  assert (P1 : premises1 tbl t = true) by (destruct t; try exact P; exfalso; exact (NS es eq_refl)).
  destruct (premises1_ok tbl t P1) as (W & _ & _).
  split; [exact W|]. split; [exact (minp_wfp tbl t W)|]. split; [exact (minp_strip tbl t W)|].
  destruct t; try exact RT. exfalso; exact (NS es eq_refl).
Qed.
Print Assumptions C02_every_accepted_parse_is_the_documented_grouping.
