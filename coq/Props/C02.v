(** C02 - operators group exactly by the documented precedence and associativity.
    Part 1 (generated facts, re-checked on every run): the built-in table dumped from the impl IS the documented table. *)
From EE Require Import Chars OpTable Names ImplTable DocTable.
Open Scope N_scope.

(* every row of README.md's BinaryExpression table is registered with that precedence; every registered infix operator is a
   row of the table, or `in` at 200 (documented in the property text, missing from the README table) *)
Definition doc_rows_registered : bool :=
  forallb (fun row => match infix_cfg_of builtin_table (fst row) with
                      | Some c => Z.eqb (ic_prec c) (snd row) | None => false end) doc_table.
Definition registered_rows_documented : bool :=
  forallb (fun e => existsb (fun row => str_eqb (fst e) (fst row) && Z.eqb (ic_prec (snd e)) (snd row)) doc_table
                    || (str_eqb (fst e) n_in && Z.eqb (ic_prec (snd e)) 200)) (t_infix builtin_table).
(* assignment operators are exactly the right-associative ones, at the lowest level; calculation operators are left-associative *)
Definition assoc_as_documented : bool :=
  forallb (fun e => Bool.eqb (ic_right (snd e)) (ic_setter (snd e)) &&
                    (if ic_setter (snd e) then Z.eqb (ic_prec (snd e)) 20 else Z.ltb 20 (ic_prec (snd e)))) (t_infix builtin_table).

Theorem C02_table : doc_rows_registered = true /\ registered_rows_documented = true /\ assoc_as_documented = true.
Proof. vm_compute. repeat split. Qed.
Print Assumptions C02_table.

(* the prefix / postfix operators and built-in functions named by the properties are the registered ones *)
Theorem C02_fixity_sets :
  forallb (fun n => mem n (t_prefix builtin_table)) [n_sub; n_add; n_bang; s_not; n_AND; n_OR] = true /\
  length (t_prefix builtin_table) = 6%nat /\
  forallb (fun n => mem n (t_postfix builtin_table)) [n_inc; n_dec] = true /\ length (t_postfix builtin_table) = 2%nat /\
  forallb (fun n => mem n builtin_functions) [n_min; n_max; n_sum; n_mulf] = true /\ length builtin_functions = 4%nat /\
  length (t_infix builtin_table) = 32%nat.
Proof. vm_compute. repeat split. Qed.
Print Assumptions C02_fixity_sets.

(* all built-in precedences are positive and within the range for which binding powers cannot overflow *)
Theorem C02_table_wf :
  forallb (fun e => Z.leb 1 (ic_prec (snd e)) && Z.leb (ic_prec (snd e)) 1000000000) (t_infix builtin_table) = true.
Proof. vm_compute. reflexivity. Qed.
Print Assumptions C02_table_wf.
