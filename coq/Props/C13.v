(** C13 - concurrent use is safe, including first use and concurrent registration (PARTIAL: the logic of the
    synchronisation; the Rust memory model, Mutex and OnceCell are trusted). For ANY number of threads, ANY
    programs (lists of calls, each a resumption over atomic registry reads/writes) and EVERY schedule. *)
From Coq Require Import List Bool.
Import ListNotations.
From EE Require Import Conc ConcProofs Chars Utf8.

Section C13.
Variable name entry result : Type.
Variable name_eqb : name -> name -> bool.
Hypothesis name_eqb_spec : forall a b, reflect (a = b) (name_eqb a b).
Variable builtins : list (name * entry).

(* no thread ever observes a partially initialised built-in table: whenever a thread is inside a call body
   (past the gate), initialisation is complete and every built-in name is present *)
Theorem C13_init_atomic : forall (progs : list (list (body name entry result))) (c : config name entry result) i b rest,
  reachable name_eqb builtins (initial progs) c ->
  nth_error (threads c) i = Some (TBody b rest) ->
  once_st c = ODone /\ has_all (reg c) builtins.
Proof. exact (init_atomic name entry result name_eqb name_eqb_spec builtins). Qed.

(* no deadlock: in every reachable configuration with an unfinished thread, some thread can take a step *)
Theorem C13_no_deadlock : forall (progs : list (list (body name entry result))) (c : config name entry result),
  reachable name_eqb builtins (initial progs) c ->
  (exists i s, nth_error (threads c) i = Some s /\ s <> TFinished) ->
  exists j c', step name_eqb builtins c j c'.
Proof. exact (progress name entry result name_eqb name_eqb_spec builtins). Qed.

(* a call that is not interleaved with other threads' steps has exactly its sequential result and effect:
   the basis for using the sequential model's results (over all orders) as the oracle of the correspondence *)
Theorem C13_solo_call_sequential : forall (b : body name entry result) (c : config name entry result) rest i,
  nth_error (threads c) i = Some (TBody b rest) ->
  exists c', solo name_eqb builtins i c c' /\
             results c' = (i, fst (run_seq name_eqb (reg c) b)) :: results c /\
             reg c' = snd (run_seq name_eqb (reg c) b) /\
             nth_error (threads c') i = Some (next_call rest) /\
             once_st c' = once_st c.
Proof. exact (solo_call_sequential name entry result name_eqb builtins). Qed.

(* the scheduler is the only source of non-determinism *)
Theorem C13_step_deterministic : forall (c : config name entry result) i c1 c2,
  step name_eqb builtins c i c1 -> step name_eqb builtins c i c2 -> c1 = c2.
Proof. exact (step_deterministic name entry result name_eqb builtins). Qed.
End C13.
Print Assumptions C13_init_atomic.
Print Assumptions C13_no_deadlock.
Print Assumptions C13_solo_call_sequential.
Print Assumptions C13_step_deterministic.

(* the name type of the engine satisfies the section's hypothesis *)
Lemma str_eqb_reflect : forall a b : str, reflect (a = b) (str_eqb a b).
Proof. intros a b. destruct (str_eqb a b) eqn:E; constructor; [apply str_eqb_eq; exact E | intro H; apply str_eqb_eq in H; congruence]. Qed.
Print Assumptions str_eqb_reflect.

(* non-vacuity: two threads whose first calls race; thread 1 is blocked at the gate while thread 0 initialises *)
Example C13_example :
  let b : body str nat nat := Read [43%N] (fun v => Ret (match v with Some x => x | None => 0%nat end)) in
  let c0 := @initial str nat nat [[b]; [b]] in
  exists c1, step str_eqb [([43%N], 7%nat)] c0 0 c1 /\
             once_st c1 = ORunning 0 /\
             ~ exists c2, step str_eqb [([43%N], 7%nat)] c1 1 c2.
Proof.
  cbn zeta. eexists. split; [eapply S_gate_first; reflexivity|]. split; [reflexivity|].
  intros [c2 H]. inversion H; cbn in *; try discriminate;
    match goal with A : Some _ = Some _ |- _ => inversion A end.
Qed.
Print Assumptions C13_example.

(** REGISTRATIONS OF DISTINCT NAMES COMMUTE, AND NONE IS LOST (the fact behind the oracle of the concurrent-registrations family:
    every sequential order of one round's registrations leaves the same table, in which every one of them is in force) - in the
    evaluator's registry model, for all four registries. *)
From EE Require Import OpTable Eval EvalLemmas.
Lemma assoc_swap {A} (a b : str) (va vb : A) l op : a <> b ->
  assoc op ((b, vb) :: (a, va) :: l) = assoc op ((a, va) :: (b, vb) :: l).
Proof.
  intros H. cbn [assoc]. destruct (str_eqb op b) eqn:Eb, (str_eqb op a) eqn:Ea; try reflexivity.
  apply str_eqb_eq in Eb, Ea. congruence.
Qed.
Print Assumptions assoc_swap.
Theorem C13_registrations_of_distinct_names_commute : forall st a b ca ha cb hb fa fb, a <> b ->
  (let s1 := reg_infix (reg_infix st a ca ha) b cb hb in let s2 := reg_infix (reg_infix st b cb hb) a ca ha in
   (forall op, assoc op (r_infix (s_regs s1)) = assoc op (r_infix (s_regs s2))) /\
   assoc a (r_infix (s_regs s1)) = Some (ca, ha) /\ assoc b (r_infix (s_regs s1)) = Some (cb, hb)) /\
  (let s1 := reg_func (reg_func st a fa) b fb in let s2 := reg_func (reg_func st b fb) a fa in
   (forall op, assoc op (r_func (s_regs s1)) = assoc op (r_func (s_regs s2))) /\
   assoc a (r_func (s_regs s1)) = Some fa /\ assoc b (r_func (s_regs s1)) = Some fb) /\
  (let s1 := reg_prefix (reg_prefix st a fa) b fb in let s2 := reg_prefix (reg_prefix st b fb) a fa in
   (forall op, assoc op (r_prefix (s_regs s1)) = assoc op (r_prefix (s_regs s2))) /\
   assoc a (r_prefix (s_regs s1)) = Some fa /\ assoc b (r_prefix (s_regs s1)) = Some fb) /\
  (let s1 := reg_postfix (reg_postfix st a fa) b fb in let s2 := reg_postfix (reg_postfix st b fb) a fa in
   (forall op, assoc op (r_postfix (s_regs s1)) = assoc op (r_postfix (s_regs s2))) /\
   assoc a (r_postfix (s_regs s1)) = Some fa /\ assoc b (r_postfix (s_regs s1)) = Some fb).
Proof.
  intros st a b ca ha cb hb fa fb H.
  repeat split; cbn -[assoc]; intros;
    try (apply assoc_swap; exact H);
    try (rewrite assoc_cons_other by (intro E; apply H; symmetry; exact E); apply assoc_cons_same);
    try apply assoc_cons_same.
Qed.
Print Assumptions C13_registrations_of_distinct_names_commute.
(* registrations into different registries do not touch each other at all *)
Theorem C13_registries_are_independent : forall st a b ca ha fb,
  r_infix (s_regs (reg_func (reg_infix st a ca ha) b fb)) = r_infix (s_regs (reg_infix (reg_func st b fb) a ca ha)) /\
  r_func (s_regs (reg_func (reg_infix st a ca ha) b fb)) = r_func (s_regs (reg_infix (reg_func st b fb) a ca ha)) /\
  r_prefix (s_regs (reg_prefix (reg_postfix st a fb) b fb)) = r_prefix (s_regs (reg_postfix (reg_prefix st b fb) a fb)) /\
  r_postfix (s_regs (reg_prefix (reg_postfix st a fb) b fb)) = r_postfix (s_regs (reg_postfix (reg_prefix st b fb) a fb)).
Proof. intros. repeat split; reflexivity. Qed.
Print Assumptions C13_registries_are_independent.
