(** C18 - describe() renders each node with exactly the descriptor registered for it.
    Descriptors are ARBITRARY functions here (fields of [dtable]); the theorems hold for every table. *)
From EE Require Import Chars OpTable Ast Printer Api.
Open Scope N_scope.

(* own key: a node is rendered by the descriptor registered for its own kind (and name), applied to the
   renderings of its children; with none registered, by the documented default *)
Theorem C18_own_key : forall tbl dt,
  (forall op r, describe tbl dt (AUnary op r) = or_default (d_unary dt op) default_unary op (describe tbl dt r)) /\
  (forall op l r, describe tbl dt (ABinary op l r) = or_default (d_binary dt op) default_binary op (describe tbl dt l) (describe tbl dt r)) /\
  (forall l op, describe tbl dt (APostfix l op) = or_default (d_postfix dt op) default_postfix (describe tbl dt l) op) /\
  (forall c a b, describe tbl dt (ATernary c a b) = or_default (d_ternary dt) default_ternary (describe tbl dt c) (describe tbl dt a) (describe tbl dt b)) /\
  (forall n args, describe tbl dt (AFunc n args) = or_default (d_function dt n) default_function n (map (describe tbl dt) args)) /\
  (forall n, describe tbl dt (ARef n) = or_default (d_reference dt n) default_reference n) /\
  (forall es, describe tbl dt (AList es) = or_default (d_list dt) default_list (map (describe tbl dt) es)) /\
  (forall es, describe tbl dt (AStmt es) = or_default (d_chain dt) default_chain (map (describe tbl dt) es)) /\
  (forall kvs, describe tbl dt (AMap kvs) =
     or_default (d_map dt) default_map (map (fun kv => (describe tbl dt (fst kv), describe tbl dt (snd kv))) kvs)).
Proof.
  intros tbl dt. repeat split; intros; try reflexivity.
  cbn [describe]. f_equal. induction kvs as [|[k v] r IH]; cbn [map fst snd]; [reflexivity|]. rewrite IH. reflexivity.
Qed.
Print Assumptions C18_own_key.

Definition no_descriptors : dtable := {|
  d_unary := fun _ => None; d_binary := fun _ => None; d_postfix := fun _ => None; d_ternary := None;
  d_function := fun _ => None; d_reference := fun _ => None; d_list := None; d_map := None; d_chain := None |}.

(* with nothing registered every node gets the documented default rendering *)
Theorem C18_defaults : forall tbl,
  (forall op r, describe tbl no_descriptors (AUnary op r) = op ++ describe tbl no_descriptors r) /\
  (forall op l r, describe tbl no_descriptors (ABinary op l r) = describe tbl no_descriptors l ++ op ++ describe tbl no_descriptors r) /\
  (forall l op, describe tbl no_descriptors (APostfix l op) = describe tbl no_descriptors l ++ op) /\
  (forall c a b, describe tbl no_descriptors (ATernary c a b) =
     describe tbl no_descriptors c ++ s_qmark ++ describe tbl no_descriptors a ++ s_colon ++ describe tbl no_descriptors b) /\
  (forall n args, describe tbl no_descriptors (AFunc n args) =
     n ++ c_lparen :: join [c_comma] (map (describe tbl no_descriptors) args) ++ [c_rparen]) /\
  (forall n, describe tbl no_descriptors (ARef n) = n) /\
  (forall es, describe tbl no_descriptors (AList es) = c_lbrack :: join [c_comma] (map (describe tbl no_descriptors) es) ++ [c_rbrack]) /\
  (forall es, describe tbl no_descriptors (AStmt es) = join [c_semi] (map (describe tbl no_descriptors) es)) /\
  (forall l, describe tbl no_descriptors (ALit l) = lit_expr l).
Proof. intros tbl. repeat split; intros; reflexivity. Qed.
Print Assumptions C18_defaults.

(* frame: the rendering depends on the table only through the keys that occur in the tree.
   [keys_agree dt dt' e]: the two tables agree on every (kind, name) key of a node of e *)
Fixpoint keys_agree (dt dt' : dtable) (e : ast) : Prop :=
  match e with
  | ALit _ | ANone => True
  | AUnary op r => d_unary dt op = d_unary dt' op /\ keys_agree dt dt' r
  | ABinary op l r => d_binary dt op = d_binary dt' op /\ keys_agree dt dt' l /\ keys_agree dt dt' r
  | APostfix l op => d_postfix dt op = d_postfix dt' op /\ keys_agree dt dt' l
  | ATernary c a b => d_ternary dt = d_ternary dt' /\ keys_agree dt dt' c /\ keys_agree dt dt' a /\ keys_agree dt dt' b
  | ARef n => d_reference dt n = d_reference dt' n
  | AFunc n args => d_function dt n = d_function dt' n /\
      (fix all (l : list ast) : Prop := match l with [] => True | x :: r => keys_agree dt dt' x /\ all r end) args
  | AList es => d_list dt = d_list dt' /\
      (fix all (l : list ast) : Prop := match l with [] => True | x :: r => keys_agree dt dt' x /\ all r end) es
  | AStmt es => d_chain dt = d_chain dt' /\
      (fix all (l : list ast) : Prop := match l with [] => True | x :: r => keys_agree dt dt' x /\ all r end) es
  | AMap kvs => d_map dt = d_map dt' /\
      (fix all (l : list (ast * ast)) : Prop :=
         match l with [] => True | (k, v) :: r => keys_agree dt dt' k /\ keys_agree dt dt' v /\ all r end) kvs
  end.

(* registering (or changing) a descriptor for a key that does not occur in the tree changes nothing *)
Theorem C18_frame : forall tbl dt dt' e, keys_agree dt dt' e -> describe tbl dt e = describe tbl dt' e.
Proof.
  intros tbl dt dt'.
  fix IH 1. intros e. destruct e as [l|op r|op l r|l op|c a b|n|n args|es|kvs|es|]; cbn [keys_agree describe]; intros H.
  - reflexivity.
  - destruct H as [H1 H2]. rewrite H1, (IH r H2). reflexivity.
  - destruct H as (H1 & H2 & H3). rewrite H1, (IH l H2), (IH r H3). reflexivity.
  - destruct H as [H1 H2]. rewrite H1, (IH l H2). reflexivity.
  - destruct H as (H1 & H2 & H3 & H4). rewrite H1, (IH c H2), (IH a H3), (IH b H4). reflexivity.
  - rewrite H. reflexivity.
  - destruct H as [H1 H2]. rewrite H1. f_equal.
    induction args as [|x r IHr]; cbn [map]; [reflexivity|]. destruct H2 as [Hx Hr]. rewrite (IH x Hx), (IHr Hr). reflexivity.
  - destruct H as [H1 H2]. rewrite H1. f_equal.
    induction es as [|x r IHr]; cbn [map]; [reflexivity|]. destruct H2 as [Hx Hr]. rewrite (IH x Hx), (IHr Hr). reflexivity.
  - destruct H as [H1 H2]. rewrite H1. f_equal.
    induction kvs as [|[k v] r IHr]; [reflexivity|]. destruct H2 as (Hk & Hv & Hr). rewrite (IH k Hk), (IH v Hv), (IHr Hr). reflexivity.
  - destruct H as [H1 H2]. rewrite H1. f_equal.
    induction es as [|x r IHr]; cbn [map]; [reflexivity|]. destruct H2 as [Hx Hr]. rewrite (IH x Hx), (IHr Hr). reflexivity.
  - reflexivity.
Qed.
Print Assumptions C18_frame.

(* the marker tables of the correspondence: a key's marker is present iff that key was registered, and never another key's *)
Theorem C18_marker_keys : forall k op,
  (d_unary (marker_table k) op <> None <-> mem op (k_unary k) = true) /\
  (d_binary (marker_table k) op <> None <-> mem op (k_binary k) = true) /\
  (d_postfix (marker_table k) op <> None <-> mem op (k_postfix k) = true) /\
  (d_function (marker_table k) op <> None <-> mem op (k_function k) = true) /\
  (d_reference (marker_table k) op <> None <-> mem op (k_reference k) = true).
Proof.
  intros k op. cbn [marker_table d_unary d_binary d_postfix d_function d_reference].
  repeat split; intros H;
    try (match goal with |- mem ?o ?l = true => destruct (mem o l); [reflexivity | exfalso; apply H; reflexivity] end);
    try (rewrite H; discriminate).
Qed.
Print Assumptions C18_marker_keys.

(* non-vacuity: a tree with all nine kinds rendered under a table that registers some keys and not others *)
Example C18_example :
  let k := {| k_unary := [[45]]; k_binary := []; k_postfix := []; k_function := [[102]]; k_reference := [];
              k_ternary := true; k_list := false; k_map := false; k_chain := false |} in
  let t := ATernary (AUnary [45] (ARef [97])) (AFunc [102] [AList [ARef [98]]]) (ABinary [43] (ARef [97]) (APostfix (ARef [98]) [43; 43])) in
  describe {| t_infix := []; t_prefix := []; t_postfix := [] |} (marker_table k) t
  = [60; 84; 124; 60; 85; 45; 124; 45; 124; 97; 62; 124; 60; 70; 102; 124; 102; 124; 91; 98; 93; 62; 124; 97; 43; 98; 43; 43; 62].
Proof. vm_compute. reflexivity. Qed.
Print Assumptions C18_example.
