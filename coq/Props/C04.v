(** C04 - runtime faults surface as Err: no panic, no silently wrapped number (handler level). *)
From EE Require Import Chars OpTable Decimal Ast Value Names Eval BuiltinLemmas LockInv ExecTotal.
Open Scope N_scope.

(* the result type of every built-in handler has no "panic" and no "wrapped" inhabitant: a handler returns a value,
   an error, or (model only) abstains; what must be shown is that each listed fault lands in the error case *)
Theorem C04_div_rem_by_zero : forall a b, is_zero b = true ->
  num2 OpDiv (VNum a) (VNum b) = AErr /\ num2 OpRem (VNum a) (VNum b) = AErr.
Proof. intros a b H. cbn. apply div_by_zero. exact H. Qed.
Print Assumptions C04_div_rem_by_zero.

Theorem C04_overflow_is_err : forall o a b,
  (match o with OpAdd => dec_add a b | OpSub => dec_sub a b | OpMul => dec_mul a b | OpDiv => dec_div a b | OpRem => dec_rem a b end) = DOverflow ->
  num2 o (VNum a) (VNum b) = AErr.
Proof. intros o a b H. cbn. apply overflow_is_err. exact H. Qed.
Print Assumptions C04_overflow_is_err.

Theorem C04_shift_count : forall a b, (b < 0 \/ 63 < b)%Z ->
  checked_integer_op OpShl a b = Err /\ checked_integer_op OpShr a b = Err.
Proof. exact shift_count_checked. Qed.
Print Assumptions C04_shift_count.

Theorem C04_bit_operand : forall o d b, dec_to_i64 d = None -> int2 o (VNum d) b = AErr /\ int2 o b (VNum d) = AErr.
Proof. exact non_integral_operand_err. Qed.
Print Assumptions C04_bit_operand.

Theorem C04_empty_aggregates :
  builtin_function n_min [] = Some AErr /\ builtin_function n_max [] = Some AErr /\
  builtin_function n_sum [] = Some (AVal (VNum dec_zero) false) /\ builtin_function n_mulf [] = Some (AVal (VNum dec_one) false) /\
  builtin_prefix n_AND (VList []) = Some (AVal (VBool true) false) /\ builtin_prefix n_OR (VList []) = Some (AVal (VBool false) false).
Proof. exact empty_aggregates. Qed.
Print Assumptions C04_empty_aggregates.

(* never a masked or wrapped shift: an accepted shift is the arithmetic one on Z, wrapped to 64 bits only by the
   documented two's-complement semantics of `<<` *)
Theorem C04_shift_ok : forall a b, (0 <= b <= 63)%Z ->
  checked_integer_op OpShl a b = Ok (wrap64 (Z.shiftl a b)) /\ checked_integer_op OpShr a b = Ok (Z.shiftr a b).
Proof.
  intros a b H. unfold checked_integer_op.
  destruct (Z.ltb_spec b 0) as [H1|H1]; [lia|]. destruct (Z.ltb_spec 63 b) as [H2|H2]; [lia|]. split; reflexivity.
Qed.
Print Assumptions C04_shift_ok.

(* a decimal result is the exactly computed one (DOk), a rounded one (DRounded: outside the exact range) or an error *)
Theorem C04_fit_no_wrap : forall neg n s d, fit neg n s = DOk d -> dmant d = n /\ dscale d = s /\ (n < two96) /\ (s <= 28).
Proof.
  intros neg n s d H. unfold fit in H.
  destruct (N.ltb_spec n two96); destruct (N.leb_spec s 28); cbn [andb] in H.
  - inversion H; subst. cbn. repeat split; assumption.
  - destruct (fit_loop 60 n s (N.min s 28)) as [[v s']|]; discriminate.
  - destruct (fit_loop 60 n s (N.min s 28)) as [[v s']|]; discriminate.
  - destruct (fit_loop 60 n s (N.min s 28)) as [[v s']|]; discriminate.
Qed.
Print Assumptions C04_fit_no_wrap.

Example C04_example :
  builtin_infix n_div (VNum dec_one) (VNum dec_zero) = Some AErr /\
  builtin_infix n_shl (VNum dec_one) (VNum (of_Z 64)) = Some AErr /\
  builtin_infix n_add (VNum (mkdec false 79228162514264337593543950335 0)) (VNum dec_one) = Some AErr /\
  builtin_postfix n_inc (VNum (mkdec false 79228162514264337593543950335 0)) = Some AErr.
Proof. vm_compute. repeat split. Qed.
Print Assumptions C04_example.

(* THE ENGINE NEVER PANICS: for every program text, every context, every table of registered operators and functions and every
   nesting of handler re-entry - with handlers that do not themselves panic (in particular with the built-in handlers only) -
   execute returns a value or an error (or, model only, abstains / runs out of the re-entry fuel of 12): never a panic, never
   a deadlock, and no lock is left held or poisoned. Induction over the evaluator, the handler scripts and the fuel; the
   parser's part is C01 (never panics, terminates). *)
Theorem C04_engine_never_panics : forall b s c st, cs st ->
  fst (run_exec b s c st) <> EPanic /\ fst (run_exec b s c st) <> EDeadlock /\ cs (snd (run_exec b s c st)).
Proof. intros b s c st H. destruct (tot_run_exec b s c st H) as [C [D P]]. split; [exact P | split; [exact D | exact C]]. Qed.
Print Assumptions C04_engine_never_panics.

Theorem C04_exec_never_panics : forall b f e c st, cs st ->
  fst (exec_fuel b f e c st) <> EPanic /\ fst (exec_fuel b f e c st) <> EDeadlock /\ cs (snd (exec_fuel b f e c st)).
Proof. intros b f e c st H. destruct (tot_exec_fuel b f e c st H) as [C [D P]]. split; [exact P | split; [exact D | exact C]]. Qed.
Print Assumptions C04_exec_never_panics.

(* the premise is met by the engine's initial state *)
Example C04_initial_calm : cs init_state.
Proof. exact cs_init. Qed.
Print Assumptions C04_initial_calm.
