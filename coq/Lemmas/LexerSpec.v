(** What one call of Tokenizer::next() does, as a specification over segments of the input:
    rest = ws ++ body ++ rest', the token covers exactly body, its text/value is determined by body. *)
From EE Require Import Chars OpTable Decimal Token Lexer Utf8.
Open Scope N_scope.

Lemma slice_at_seg base pre mid post a b :
  a = base + blen pre -> b = a + blen mid -> slice_at base (pre ++ mid ++ post) a b = Some mid.
Proof. intros -> ->. apply slice_at_app. Qed.

Lemma scan_spec p cur rest cur' rest' :
  scan p cur rest = (cur', rest') ->
  exists w, rest = w ++ rest' /\ cur' = cur + blen w /\ forallb p w = true /\
            match rest' with [] => True | c :: _ => p c = false end.
Proof.
  revert cur. induction rest as [|c rest IH]; intros cur H; cbn [scan] in H.
  - inversion H; subst. exists []. cbn. repeat split; lia.
  - destruct (p c) eqn:Hp.
    + apply IH in H. destruct H as (w & -> & -> & Hw & Hr).
      exists (c :: w). cbn [app blen forallb]. rewrite Hp, Hw. repeat split; try lia. exact Hr.
    + inversion H; subst. exists []. cbn. repeat split; try lia. exact Hp.
Qed.

Lemma scan_num_spec prev cur rest cur' rest' :
  scan_num prev cur rest = (cur', rest') -> exists w, rest = w ++ rest' /\ cur' = cur + blen w.
Proof.
  revert prev cur. induction rest as [|c rest IH]; intros prev cur H; cbn [scan_num] in H.
  - inversion H; subst. exists []. cbn. split; [reflexivity|lia].
  - destruct (((c =? c_plus) || (c =? c_minus)) && negb ((prev =? c_e) || (prev =? c_E))).
    + inversion H; subst. exists []. cbn. split; [reflexivity|lia].
    + destruct (is_digit_char c).
      * apply IH in H. destruct H as (w & -> & ->). exists (c :: w). cbn [app blen]. split; [reflexivity|lia].
      * inversion H; subst. exists []. cbn. split; [reflexivity|lia].
Qed.

Lemma scan_str_spec q cur rest cur' rest' :
  scan_str q cur rest = Some (cur', rest') ->
  exists w, rest = w ++ q :: rest' /\ cur' = cur + blen w + ulen q /\ forallb (fun c => negb (c =? q)) w = true.
Proof.
  revert cur. induction rest as [|c rest IH]; intros cur H; cbn [scan_str] in H; [discriminate|].
  destruct (N.eqb_spec c q) as [->|Hne].
  - inversion H; subst. exists []. cbn. repeat split; lia.
  - apply IH in H. destruct H as (w & -> & -> & Hw). exists (c :: w). cbn [app blen forallb].
    rewrite Hw. destruct (N.eqb_spec c q); [contradiction|]. cbn. repeat split; lia.
Qed.

(* special_op_token's loop: never slices off a boundary, consumes a segment, and stops exactly when one more
   character would not make an operator *)
Lemma special_loop_spec tbl base pre :
  forall rest done,
  done <> [] ->
  exists w rest',
    special_loop tbl base (pre ++ done ++ rest) (base + blen pre) (base + blen pre + blen done) rest
      = Some (base + blen pre + blen (done ++ w), rest') /\
    rest = w ++ rest' /\
    match rest' with [] => True | c :: _ => is_op tbl (done ++ w ++ [c]) = false end.
Proof.
  induction rest as [|c rest IH]; intros done Hd; cbn [special_loop].
  - exists [], []. rewrite app_nil_r. repeat split.
  - assert (Hs: slice_at base (pre ++ done ++ c :: rest) (base + blen pre) (base + blen pre + blen done + ulen c)
                = Some (done ++ [c])).
    { replace (pre ++ done ++ c :: rest) with (pre ++ (done ++ [c]) ++ rest)
        by (rewrite <- !app_assoc; reflexivity).
      apply slice_at_seg; [reflexivity|]. rewrite blen_app. cbn [blen]. lia. }
    rewrite Hs.
    destruct (is_op tbl (done ++ [c])) eqn:Hop.
    + specialize (IH (done ++ [c])).
      destruct IH as (w & rest' & H1 & H2 & H3); [destruct done; discriminate|].
      exists (c :: w), rest'.
      replace (pre ++ done ++ c :: rest) with (pre ++ (done ++ [c]) ++ rest)
        by (rewrite <- !app_assoc; reflexivity).
      replace (base + blen pre + blen done + ulen c) with (base + blen pre + blen (done ++ [c]))
        by (rewrite blen_app; cbn [blen]; lia).
      rewrite H1. rewrite <- !app_assoc in *. cbn [app] in *.
      repeat split; [rewrite H2; reflexivity |].
      destruct rest' as [|c0 r0]; [exact I|]. rewrite <- app_assoc in H3. exact H3.
    + exists [], (c :: rest). rewrite app_nil_r. cbn [app]. repeat split. exact Hop.
Qed.

Lemma next_is_lparen_cur cur cur' rest : next_is_lparen cur rest = next_is_lparen cur' rest.
Proof.
  unfold next_is_lparen. revert cur cur'. induction rest as [|c rest IH]; intros; cbn [scan]; [reflexivity|].
  destruct (is_ws c); [apply IH|reflexivity].
Qed.

Definition is_keyword (a : str) : bool :=
  str_eqb a s_True || str_eqb a s_true || str_eqb a s_False || str_eqb a s_false.

(* how the token relates to the source text [body] it covers and to what follows ([rest']) *)
Definition tok_ok (tbl : optable) (t : token) (body rest' : str) : Prop :=
  match t with
  | TOp w =>
      w = body /\
      match body with
      | c :: _ =>
          if is_special c then
            (* symbolic: greedy - one more character would not be an operator *)
            match rest' with [] => True | x :: _ => is_op tbl (body ++ [x]) = false end
          else
            (* word operator: a registered operator that is the whole word up to whitespace / delimiter / end *)
            is_op tbl body = true /\ forallb not_ws_delim body = true /\
            match rest' with [] => True | x :: _ => not_ws_delim x = false end
      | [] => False
      end
  | TDelim d => body = [delim_char d]
  | TNum d => dec_of_string body = Some d /\ match body with c :: _ => is_digit09 c = true | [] => False end
  | TComma => body = [c_comma]
  | TSemi => body = [c_semi]
  | TBool b => if b then body = s_True \/ body = s_true else body = s_False \/ body = s_false
  | TStr w => exists q, is_quote q = true /\ body = q :: w ++ [q] /\ forallb (fun c => negb (c =? q)) w = true
  | TRef a => a = body /\ is_keyword body = false /\ next_is_lparen 0 rest' = false
  | TFunc a => a = body /\ is_keyword body = false /\ next_is_lparen 0 rest' = true
  end.

Record seg (cur : N) (rest : str) (t : stoken) (cur' : N) (rest' : str) (ws body : str) : Prop := {
  seg_rest : rest = ws ++ body ++ rest';
  seg_ws : forallb is_ws ws = true;
  seg_body : body <> [];
  seg_first : match body with c :: _ => is_ws c = false | [] => True end;
  seg_start : t_start t = cur + blen ws;
  seg_end : t_end t = t_start t + blen body;
  seg_cur : cur' = t_end t
}.

Ltac slice_solve :=
  match goal with
  | |- context [slice_at ?b (?ws ++ ?c :: ?r) ?x ?y] => idtac
  end.

Lemma lex_one_spec tbl cur rest :
  match lex_one tbl cur rest with
  | LTok t cur' rest' => exists ws body, seg cur rest t cur' rest' ws body /\ tok_ok tbl (tk t) body rest'
  | LEof => forallb is_ws rest = true
  | LErr => True
  | LPanic => False
  end.
Proof.
  unfold lex_one.
  destruct (scan is_ws cur rest) as [cur1 rest1] eqn:Hscan.
  apply scan_spec in Hscan. destruct Hscan as (ws & -> & -> & Hws & Hnws).
  destruct rest1 as [|c rest1].
  { rewrite app_nil_r. exact Hws. }
  pose proof (ulen_pos c) as Hc.
  (* generic slice facts for a body [c :: w] followed by post *)
  assert (SL: forall w post, rest1 = w ++ post ->
            slice_at cur (ws ++ c :: rest1) (cur + blen ws) (cur + blen ws + ulen c + blen w) = Some (c :: w)).
  { intros w post ->. replace (ws ++ c :: w ++ post) with (ws ++ (c :: w) ++ post) by reflexivity.
    apply slice_at_seg; [reflexivity|]. cbn [blen]. lia. }
  destruct (is_special c) eqn:Hsp.
  { (* symbolic operator *)
    destruct (special_loop_spec tbl cur ws rest1 [c]) as (w & rest' & H1 & H2 & H3); [discriminate|].
    cbn [app blen] in H1. replace (cur + blen ws + (ulen c + 0)) with (cur + blen ws + ulen c) in H1 by lia.
    rewrite H1. cbn [app] in *.
    replace (cur + blen ws + (ulen c + blen w)) with (cur + blen ws + ulen c + blen w) by lia.
    rewrite (SL w rest' H2). unfold tok. exists ws, (c :: w). split.
    - constructor; cbn [tk t_start t_end blen]; try lia; try assumption; try discriminate.
      rewrite H2. reflexivity.
    - cbn [tok_ok tk]. split; [reflexivity|]. rewrite Hsp. exact H3. }
  destruct (is_delim c) eqn:Hdl.
  { assert (Hu: ulen c = 1).
    { unfold is_delim in Hdl. unfold ulen.
      destruct (N.ltb_spec c 128) as [|Hge]; [reflexivity|].
      repeat (apply orb_prop in Hdl; destruct Hdl as [Hdl|Hdl]); apply N.eqb_eq in Hdl; lia. }
    pose proof (SL [] rest1 eq_refl) as S0. cbn [blen] in S0.
    replace (cur + blen ws + ulen c + 0) with (cur + blen ws + 1) in S0 by lia. rewrite S0.
    assert (Hd: exists d, delim_of c = Some d /\ delim_char d = c).
    { unfold is_delim in Hdl. unfold delim_of.
      destruct (N.eqb_spec c 40) as [->|]; [exists DLParen; split; reflexivity|].
      destruct (N.eqb_spec c 41) as [->|]; [exists DRParen; split; reflexivity|].
      destruct (N.eqb_spec c 91) as [->|]; [exists DLBrack; split; reflexivity|].
      destruct (N.eqb_spec c 93) as [->|]; [exists DRBrack; split; reflexivity|].
      destruct (N.eqb_spec c 123) as [->|]; [exists DLBrace; split; reflexivity|].
      destruct (N.eqb_spec c 125) as [->|]; [exists DRBrace; split; reflexivity|].
      cbn in Hdl. discriminate. }
    destruct Hd as (d & -> & Hdc). unfold tok. exists ws, [c]. split.
    - constructor; cbn [tk t_start t_end blen app]; try lia; try assumption; try discriminate. reflexivity.
    - cbn [tok_ok tk]. rewrite Hdc. reflexivity. }
  destruct (is_digit09 c) eqn:Hdg.
  { destruct (scan_num c (cur + blen ws + ulen c) rest1) as [cur2 rest2] eqn:Hn.
    apply scan_num_spec in Hn. destruct Hn as (w & Hw & ->).
    rewrite (SL w rest2 Hw).
    destruct (dec_of_string (c :: w)) as [d|] eqn:Hd; [|exact I].
    unfold tok. exists ws, (c :: w). split.
    - constructor; cbn [tk t_start t_end blen]; try lia; try assumption; try discriminate.
      rewrite Hw. reflexivity.
    - cbn [tok_ok tk]. split; assumption. }
  destruct (is_quote c) eqn:Hq.
  { destruct (scan_str c (cur + blen ws + ulen c) rest1) as [[cur2 rest2]|] eqn:Hs; [|exact I].
    apply scan_str_spec in Hs. destruct Hs as (w & Hw & -> & Hnq).
    assert (S1: slice_at cur (ws ++ c :: rest1) (cur + blen ws + 1) (cur + blen ws + ulen c + blen w + ulen c - 1) = Some w).
    { assert (Hu: ulen c = 1).
      { unfold is_quote in Hq. unfold ulen. destruct (N.ltb_spec c 128) as [|Hge]; [reflexivity|].
        apply orb_prop in Hq. destruct Hq as [Hq|Hq]; apply N.eqb_eq in Hq; lia. }
      rewrite Hw. replace (ws ++ c :: w ++ c :: rest2) with ((ws ++ [c]) ++ w ++ c :: rest2)
        by (rewrite <- app_assoc; reflexivity).
      apply slice_at_seg; rewrite ?blen_app; cbn [blen]; lia. }
    rewrite S1. unfold tok. exists ws, (c :: w ++ [c]). split.
    - constructor; cbn [tk t_start t_end blen]; rewrite ?blen_app; cbn [blen]; try lia; try assumption; try discriminate.
      rewrite Hw. cbn [app]. rewrite <- app_assoc. reflexivity.
    - cbn [tok_ok tk]. exists c. repeat split; assumption. }
  destruct (N.eqb_spec c c_semi) as [->|Hsemi].
  { pose proof (SL [] rest1 eq_refl) as S0. cbn [blen] in S0.
    replace (cur + blen ws + ulen c_semi + 0) with (cur + blen ws + 1) in S0 by (cbn; lia). rewrite S0.
    unfold tok. exists ws, [c_semi]. split.
    - constructor; cbn [tk t_start t_end blen app]; try lia; try assumption; try discriminate; try reflexivity; try (cbn; lia).
    - reflexivity. }
  destruct (N.eqb_spec c c_comma) as [->|Hcomma].
  { pose proof (SL [] rest1 eq_refl) as S0. cbn [blen] in S0.
    replace (cur + blen ws + ulen c_comma + 0) with (cur + blen ws + 1) in S0 by (cbn; lia). rewrite S0.
    unfold tok. exists ws, [c_comma]. split.
    - constructor; cbn [tk t_start t_end blen app]; try lia; try assumption; try discriminate; try reflexivity; try (cbn; lia).
    - reflexivity. }
  (* other_token *)
  destruct (scan not_ws_delim (cur + blen ws + ulen c) rest1) as [curw restw] eqn:Hsw.
  apply scan_spec in Hsw. destruct Hsw as (ww & Hww & -> & Hwwp & Hwstop).
  rewrite (SL ww restw Hww).
  assert (Hcnwd: not_ws_delim c = true).
  { unfold not_ws_delim, word_end. rewrite Hdl. destruct (is_ws c) eqn:E; [discriminate|].
    destruct (N.eqb_spec c c_comma); [contradiction|]. destruct (N.eqb_spec c c_semi); [contradiction|].
    destruct (N.eqb_spec c 58) as [->|]; [discriminate Hsp | reflexivity]. }
  destruct (is_op tbl (c :: ww)) eqn:Hop.
  { unfold tok. exists ws, (c :: ww). split.
    - constructor; cbn [tk t_start t_end blen]; try lia; try assumption; try discriminate.
      rewrite Hww. reflexivity.
    - cbn [tok_ok tk]. split; [reflexivity|]. rewrite Hsp. repeat split; [assumption| |assumption].
      cbn [forallb]. rewrite Hcnwd, Hwwp. reflexivity. }
  destruct (scan is_param_char (cur + blen ws + ulen c) rest1) as [cur2 rest2] eqn:Hsv.
  apply scan_spec in Hsv. destruct Hsv as (wv & Hwv & -> & _ & _).
  rewrite (SL wv rest2 Hwv).
  assert (SEG: forall t, tk t = tk t -> t_start t = cur + blen ws -> t_end t = cur + blen ws + ulen c + blen wv ->
               seg cur (ws ++ c :: rest1) t (cur + blen ws + ulen c + blen wv) rest2 ws (c :: wv)).
  { intros t _ Hs He. constructor; cbn [blen]; try lia; try assumption; try discriminate.
    rewrite Hwv. reflexivity. }
  unfold tok.
  destruct (str_eqb (c :: wv) s_True || str_eqb (c :: wv) s_true) eqn:Ht.
  { exists ws, (c :: wv). split; [apply SEG; reflexivity|].
    cbn [tok_ok tk]. apply orb_prop in Ht. destruct Ht as [Ht|Ht]; apply str_eqb_eq in Ht; [left|right]; exact Ht. }
  destruct (str_eqb (c :: wv) s_False || str_eqb (c :: wv) s_false) eqn:Hf.
  { exists ws, (c :: wv). split; [apply SEG; reflexivity|].
    cbn [tok_ok tk]. apply orb_prop in Hf. destruct Hf as [Hf|Hf]; apply str_eqb_eq in Hf; [left|right]; exact Hf. }
  assert (Hkw: is_keyword (c :: wv) = false).
  { unfold is_keyword. apply orb_false_elim in Ht. destruct Ht as [-> ->].
    apply orb_false_elim in Hf. destruct Hf as [-> ->]. reflexivity. }
  destruct (next_is_lparen (cur + blen ws + ulen c + blen wv) rest2) eqn:Hnp;
    exists ws, (c :: wv); (split; [apply SEG; reflexivity|]);
    cbn [tok_ok tk]; repeat split; try assumption;
    rewrite (next_is_lparen_cur 0 (cur + blen ws + ulen c + blen wv)); exact Hnp.
Qed.
