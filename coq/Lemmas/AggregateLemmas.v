(** The aggregates min / max / sum / mul over the decimal model: min (max) returns one of its arguments, no argument is
    smaller (greater) than it, and among equals it is the first; sum / mul fold the checked addition / multiplication from
    0 / 1, left to right. The order of decimals is the order of the rationals they denote (a total preorder: values with
    different trailing zeros are equal). *)
From EE Require Import Chars Decimal Value DecimalLemmas.
Open Scope Z_scope.

(* compare at any common scale at least both scales *)
Lemma at_scale_up d s s' : (dscale d <= s)%N -> (s <= s')%N -> at_scale d s' = at_scale d s * p10 (s' - s).
Proof.
  intros H1 H2. unfold at_scale. replace (s' - dscale d)%N with ((s - dscale d) + (s' - s))%N by lia. rewrite p10_add. ring.
Qed.
Lemma dec_cmp_at a b S : (N.max (dscale a) (dscale b) <= S)%N -> dec_cmp a b = Z.compare (at_scale a S) (at_scale b S).
Proof.
  intros H. rewrite dec_cmp_spec. cbn zeta. set (s := N.max (dscale a) (dscale b)) in *.
  rewrite (at_scale_up a s S), (at_scale_up b s S) by lia. pose proof (p10_pos (S - s)) as P.
  apply Zmult_compare_compat_r. lia.
Qed.

Definition dle (a b : dec) : Prop := dec_ltb b a = false.     (* a <= b *)
Lemma dle_spec a b S : (N.max (dscale a) (dscale b) <= S)%N -> (dle a b <-> at_scale a S <= at_scale b S).
Proof.
  intros H. unfold dle, dec_ltb. rewrite (dec_cmp_at b a S) by lia.
  destruct (Z.compare_spec (at_scale b S) (at_scale a S)); split; intros; try reflexivity; try discriminate; lia.
Qed.
Lemma dle_refl a : dle a a.
Proof. apply (dle_spec a a (dscale a)); lia. Qed.
Lemma dle_trans a b c : dle a b -> dle b c -> dle a c.
Proof.
  intros H1 H2. set (S := N.max (dscale a) (N.max (dscale b) (dscale c))).
  apply (dle_spec a b S) in H1; [|lia]. apply (dle_spec b c S) in H2; [|lia]. apply (dle_spec a c S); lia.
Qed.
Lemma dle_total a b : dle a b \/ dle b a.
Proof.
  set (S := N.max (dscale a) (dscale b)). destruct (Z.le_ge_cases (at_scale a S) (at_scale b S));
    [left; apply (dle_spec a b S) | right; apply (dle_spec b a S)]; lia.
Qed.
Lemma ltb_dle a b : dec_ltb a b = true -> dle a b.
Proof.
  unfold dle, dec_ltb. set (S := N.max (dscale a) (dscale b)). rewrite (dec_cmp_at a b S), (dec_cmp_at b a S) by lia.
  destruct (Z.compare_spec (at_scale a S) (at_scale b S)); try discriminate. intros _.
  destruct (Z.compare_spec (at_scale b S) (at_scale a S)); try reflexivity; lia.
Qed.

(* min: the fold keeps the first least element *)
Lemma fold_min_spec : forall l cur d, fold_ext dec_ltb cur l = AVal (VNum d) false ->
  (match cur with Some c => dle d c | None => True end) /\
  (forall x, In (VNum x) l -> dle d x) /\
  ((exists c, cur = Some c /\ d = c) \/ In (VNum d) l) /\
  (forall v, In v l -> exists x, v = VNum x).
Proof.
  induction l as [|v r IH]; intros cur d H; cbn [fold_ext] in H.
  - destruct cur as [c|]; [|discriminate]. inversion H; subst. repeat split; [apply dle_refl | intros x [] | left; eauto | intros v []].
  - destruct v as [|x| | | |]; try discriminate.
    destruct cur as [c|].
    + destruct (dec_ltb x c) eqn:L.
      * destruct (IH (Some x) d H) as (A & B & C & D). repeat split.
        -- apply (dle_trans d x c A). apply ltb_dle. exact L.
        -- intros y [E|Hy]; [inversion E; subst; exact A | apply B; exact Hy].
        -- destruct C as [(c0 & E & ->)|C]; [inversion E; subst; right; left; reflexivity | right; right; exact C].
        -- intros v [<-|Hv]; [eauto | apply D; exact Hv].
      * destruct (IH (Some c) d H) as (A & B & C & D). repeat split.
        -- exact A.
        -- intros y [E|Hy]; [inversion E; subst; apply (dle_trans d c y A); exact L | apply B; exact Hy].
        -- destruct C as [C|C]; [left; exact C | right; right; exact C].
        -- intros v [<-|Hv]; [eauto | apply D; exact Hv].
    + destruct (IH (Some x) d H) as (A & B & C & D). repeat split.
      * intros y [E|Hy]; [inversion E; subst; exact A | apply B; exact Hy].
      * destruct C as [(c0 & E & ->)|C]; [inversion E; subst; right; left; reflexivity | right; right; exact C].
      * intros v [<-|Hv]; [eauto | apply D; exact Hv].
Qed.

Lemma fold_max_spec : forall l cur d, fold_ext (fun d c => dec_ltb c d) cur l = AVal (VNum d) false ->
  (match cur with Some c => dle c d | None => True end) /\
  (forall x, In (VNum x) l -> dle x d) /\
  ((exists c, cur = Some c /\ d = c) \/ In (VNum d) l) /\
  (forall v, In v l -> exists x, v = VNum x).
Proof.
  induction l as [|v r IH]; intros cur d H; cbn [fold_ext] in H.
  - destruct cur as [c|]; [|discriminate]. inversion H; subst. repeat split; [apply dle_refl | intros x [] | left; eauto | intros v []].
  - destruct v as [|x| | | |]; try discriminate.
    destruct cur as [c|].
    + destruct (dec_ltb c x) eqn:L.
      * destruct (IH (Some x) d H) as (A & B & C & D). repeat split.
        -- apply (dle_trans c x d); [apply ltb_dle; exact L | exact A].
        -- intros y [E|Hy]; [inversion E; subst; exact A | apply B; exact Hy].
        -- destruct C as [(c0 & E & ->)|C]; [inversion E; subst; right; left; reflexivity | right; right; exact C].
        -- intros v [<-|Hv]; [eauto | apply D; exact Hv].
      * destruct (IH (Some c) d H) as (A & B & C & D). repeat split.
        -- exact A.
        -- intros y [E|Hy]; [inversion E; subst; apply (dle_trans y c d); [exact L | exact A] | apply B; exact Hy].
        -- destruct C as [C|C]; [left; exact C | right; right; exact C].
        -- intros v [<-|Hv]; [eauto | apply D; exact Hv].
    + destruct (IH (Some x) d H) as (A & B & C & D). repeat split.
      * intros y [E|Hy]; [inversion E; subst; exact A | apply B; exact Hy].
      * destruct C as [(c0 & E & ->)|C]; [inversion E; subst; right; left; reflexivity | right; right; exact C].
      * intros v [<-|Hv]; [eauto | apply D; exact Hv].
Qed.
