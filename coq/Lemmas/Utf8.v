(** Byte offsets, slices and scanners: the arithmetic behind "on a character boundary". *)
From EE Require Import Chars.
Open Scope N_scope.

Lemma ulen_pos c : 1 <= ulen c.
Proof. unfold ulen. destruct (c <? 128), (c <? 2048), (c <? 65536); lia. Qed.

Lemma ulen_le4 c : ulen c <= 4.
Proof. unfold ulen. destruct (c <? 128), (c <? 2048), (c <? 65536); lia. Qed.

Lemma blen_app a b : blen (a ++ b) = blen a + blen b.
Proof. induction a as [|c a IH]; cbn [blen app]; [reflexivity|]. rewrite IH. lia. Qed.

Lemma blen_nil_iff s : blen s = 0 <-> s = [].
Proof.
  split; [|intros ->; reflexivity].
  destruct s as [|c s]; [reflexivity|]. cbn [blen]. pose proof (ulen_pos c). lia.
Qed.

Lemma split_at_byte_app pre post : split_at_byte (pre ++ post) (blen pre) = Some (pre, post).
Proof.
  induction pre as [|c pre IH]; cbn [blen app].
  - destruct post; reflexivity.
  - pose proof (ulen_pos c) as Hc.
    cbn [split_at_byte].
    destruct (N.eqb_spec (ulen c + blen pre) 0) as [E|_]; [lia|].
    destruct (N.leb_spec (ulen c) (ulen c + blen pre)) as [_|E]; [|lia].
    replace (ulen c + blen pre - ulen c) with (blen pre) by lia.
    rewrite IH. reflexivity.
Qed.

(* conversely: a successful split is a split of the list at exactly that many bytes *)
Lemma split_at_byte_spec s a p q : split_at_byte s a = Some (p, q) -> s = p ++ q /\ blen p = a.
Proof.
  revert a p q. induction s as [|c s IH]; intros a p q H; cbn [split_at_byte] in H.
  - destruct (N.eqb_spec a 0) as [->|_]; [|discriminate]. inversion H; subst. split; reflexivity.
  - destruct (N.eqb_spec a 0) as [->|Ha].
    + inversion H; subst. split; reflexivity.
    + destruct (N.leb_spec (ulen c) a) as [Hle|_]; [|discriminate].
      destruct (split_at_byte s (a - ulen c)) as [[p' q']|] eqn:E; [|discriminate].
      inversion H; subst. apply IH in E. destruct E as [-> E2]. split; [reflexivity|].
      cbn [blen]. lia.
Qed.

Lemma slice_app pre mid post :
  slice (pre ++ mid ++ post) (blen pre) (blen pre + blen mid) = Some mid.
Proof.
  unfold slice.
  destruct (N.ltb_spec (blen pre + blen mid) (blen pre)) as [E|_]; [lia|].
  rewrite split_at_byte_app.
  replace (blen pre + blen mid - blen pre) with (blen mid) by lia.
  rewrite split_at_byte_app. reflexivity.
Qed.

(* a successful slice is exactly a segment of the string lying on character boundaries *)
Lemma slice_spec s a b w :
  slice s a b = Some w -> exists pre post, s = pre ++ w ++ post /\ blen pre = a /\ a + blen w = b.
Proof.
  unfold slice. intros H.
  destruct (N.ltb_spec b a) as [|Hab]; [discriminate|].
  destruct (split_at_byte s a) as [[p q]|] eqn:E1; [|discriminate].
  destruct (split_at_byte q (b - a)) as [[m r]|] eqn:E2; [|discriminate].
  injection H as Hw. apply split_at_byte_spec in E1, E2.
  destruct E1 as [Es E1], E2 as [Eq E2]. exists p, r. rewrite <- Hw.
  split; [rewrite Es, Eq; reflexivity|]. split; [exact E1|]. rewrite E2. lia.
Qed.

(* the slice taken on a suffix is the slice of the whole input: ties Lexer.slice_at to Rust's input[a..b] *)
Lemma split_at_byte_skip pre s x :
  blen pre <= x ->
  split_at_byte (pre ++ s) x =
  match split_at_byte s (x - blen pre) with Some (p, q) => Some (pre ++ p, q) | None => None end.
Proof.
  revert x. induction pre as [|c pre IH]; intros x Hx; cbn [blen app] in *.
  - rewrite N.sub_0_r. destruct (split_at_byte s x) as [[p q]|]; reflexivity.
  - pose proof (ulen_pos c) as Hc. cbn [split_at_byte].
    destruct (N.eqb_spec x 0) as [E|_]; [lia|].
    destruct (N.leb_spec (ulen c) x) as [_|E]; [|lia].
    rewrite IH by lia.
    replace (x - ulen c - blen pre) with (x - (ulen c + blen pre)) by lia.
    destruct (split_at_byte s (x - (ulen c + blen pre))) as [[p q]|]; reflexivity.
Qed.

Lemma slice_at_whole pre sfx a b :
  blen pre <= a -> slice_at (blen pre) sfx a b = slice (pre ++ sfx) a b.
Proof.
  intros Ha. unfold slice_at, slice.
  destruct (N.ltb_spec a (blen pre)) as [E|_]; [lia|].
  destruct (N.ltb_spec b a) as [E2|E2]; cbn [orb]; [reflexivity|].
  destruct (N.ltb_spec (b - blen pre) (a - blen pre)) as [E1|E1]; [lia|].
  rewrite split_at_byte_skip by assumption.
  destruct (split_at_byte sfx (a - blen pre)) as [[p q]|]; [|reflexivity].
  replace (b - blen pre - (a - blen pre)) with (b - a) by lia. reflexivity.
Qed.

Lemma slice_at_app base pre mid post :
  slice_at base (pre ++ mid ++ post) (base + blen pre) (base + blen pre + blen mid) = Some mid.
Proof.
  unfold slice_at.
  destruct (N.ltb_spec (base + blen pre) base) as [E|_]; [lia|].
  destruct (N.ltb_spec (base + blen pre + blen mid) (base + blen pre)) as [E|_]; [lia|]. cbn [orb].
  replace (base + blen pre - base) with (blen pre) by lia.
  replace (base + blen pre + blen mid - base) with (blen pre + blen mid) by lia.
  apply slice_app.
Qed.

Lemma str_eqb_eq a b : str_eqb a b = true <-> a = b.
Proof.
  revert b. induction a as [|x a IH]; intros [|y b]; cbn [str_eqb]; split; intros H; try discriminate; try reflexivity.
  - apply andb_prop in H. destruct H as [H1 H2]. apply N.eqb_eq in H1. apply IH in H2. subst. reflexivity.
  - inversion H; subst. rewrite N.eqb_refl. cbn. apply IH. reflexivity.
Qed.
