(** Lemma (B): the grouping the parser recovers is exactly the tree that was written down.
    For every tree built from names, literals and infix operators of an ARBITRARY operator table, the token sequence
    [unparse t] - parentheses exactly where the documented rule demands them (an operand on the left is parenthesised unless
    every operator on its right spine wins against the parent, an operand on the right unless every operator on its left spine
    does; "wins" is the comparison of binding powers) - is parsed by the model of parser.rs back to [t], all tokens consumed.
    No bound on the size of the tree other than the parser's own depth limit, which is a hypothesis of the theorem. *)
From EE Require Import Chars OpTable Decimal Token Ast Parser Utf8 ParserFuel ParserMono ParserSteps.
Open Scope N_scope.

Section RT.
Variable tbl : optable.
Notation tm := TmEof.
Notation lbp o := (fst (binding_power tbl o)).
Notation rbp o := (snd (binding_power tbl o)).
Notation pexpr := (parse_expression tbl tm).
Notation pprim := (parse_primary tbl tm).
Notation pop := (parse_op tbl tm).
Notation ploop := (parse_op_loop tbl tm).

(* an infix operator that the loop treats as an ordinary one *)
Definition plainb (o : str) : bool :=
  negb (is_not o) && negb (str_eqb o s_qmark) && negb (is_postfix tbl o) && (1 <=? lbp o)%Z.

Fixpoint frag (t : ast) : bool :=
  match t with
  | ALit _ | ARef _ => true
  | ABinary o l r => plainb o && frag l && frag r
  | _ => false
  end.

Fixpoint rspine (t : ast) : list str := match t with ABinary o _ r => o :: rspine r | _ => [] end.
Fixpoint lspine (t : ast) : list str := match t with ABinary o l _ => o :: lspine l | _ => [] end.
Fixpoint size (t : ast) : nat := match t with ABinary _ l r => (1 + size l + size r)%nat | _ => 1%nat end.

(* the documented rule, in binding powers: x on the right spine of a left operand keeps its operand against parent o
   iff l_bp(o) < r_bp(x); y on the left spine of a right operand iff r_bp(o) < l_bp(y) *)
Definition bareL (l : ast) (o : str) : bool := forallb (fun x => (lbp o <? rbp x)%Z) (rspine l).
Definition bareR (r : ast) (o : str) : bool := forallb (fun y => (rbp o <? lbp y)%Z) (lspine r).
Definition paren (ts : list token) : list token := TDelim DLParen :: ts ++ [TDelim DRParen].
Definition atom_tok (t : ast) : list token :=
  match t with
  | ALit (LNum d) => [TNum d] | ALit (LBool b) => [TBool b] | ALit (LStr s) => [TStr s] | ARef n => [TRef n]
  | _ => []
  end.
Fixpoint unparse (t : ast) : list token :=
  match t with
  | ABinary o l r =>
      (if bareL l o then unparse l else paren (unparse l)) ++ TOp o ::
      (if bareR r o then unparse r else paren (unparse r))
  | _ => atom_tok t
  end.
(* number of loop iterations that build t from its first primary *)
Fixpoint ldepth (t : ast) : N :=
  match t with ABinary o l _ => (if bareL l o then ldepth l else 0) + 1 | _ => 0 end.
Definition rtoks (r : ast) (o : str) : list token := if bareR r o then unparse r else paren (unparse r).

(* what may follow: any non-operator token, or an operator token that is not `not`, `?` or a postfix operator *)
Definition kok (k : list token) : Prop :=
  match k with TOp o :: _ => is_not o = false /\ str_eqb o s_qmark = false /\ is_postfix tbl o = false | _ => True end.
Definition stops (p : Z) (k : list token) : Prop :=
  match k with TOp o :: _ => (lbp o < p)%Z | _ => True end.
Definition adm (p : Z) (t : ast) : Prop := forall y, In y (lspine t) -> (p <= lbp y)%Z.
Definition absorb_safe (t : ast) (k : list token) : Prop :=
  match k with TOp o :: _ => forall x, In x (rspine t) -> (lbp o < rbp x)%Z | _ => True end.
Definition hgt (t : ast) : Prop := ast_height t <= MAX_DEPTH.
(* Parser.depth consumed on [unparse t]: one unit per operand or parenthesis entered and one per operator folded by a loop
   (parser.rs counts loop iterations too); the parser rejects with Err beyond MAX_DEPTH, so this is a hypothesis *)
Fixpoint need (t : ast) : N :=
  match t with
  | ABinary o l r =>
      N.max (if bareL l o then need l else need l + 1)
            ((if bareL l o then ldepth l else 0) + 1 + (if bareR r o then need r else need r + 1))
  | _ => 1
  end.
Definition rneed (r : ast) (o : str) : N := if bareR r o then need r else need r + 1.
Definition room (d : N) (t : ast) : Prop := d + need t <= MAX_DEPTH.

Lemma plainb_plain o : plainb o = true -> plain tbl o /\ (1 <= lbp o)%Z.
Proof.
  unfold plainb, plain. intros H.
  apply andb_prop in H as [H H4]. apply andb_prop in H as [H H3]. apply andb_prop in H as [H1 H2].
  apply negb_true_iff in H1, H2, H3. apply Z.leb_le in H4. repeat split; assumption.
Qed.
Lemma rbp_ge o : (1 <= lbp o)%Z -> (0 <= rbp o)%Z.
Proof.
  unfold binding_power. destruct (infix_cfg_of tbl o) as [c|]; cbn [fst snd]; [|lia].
  destruct (ic_right c); lia.
Qed.
Lemma kok_nopost k : kok k -> no_postfix_head tbl k.
Proof. destruct k as [|[] k']; cbn; try exact (fun _ => I). intros (_ & _ & H). exact H. Qed.
Lemma kok_not k : kok k -> cur_is_not k = false.
Proof. destruct k as [|[] k']; cbn; try reflexivity. intros (H & _). exact H. Qed.
Lemma need_pos t : 1 <= need t.
Proof. destruct t; cbn [need]; lia. Qed.

Lemma ltb_false_of_le a b : (b <= a)%N -> (a <? b) = false.
Proof. intros H. apply N.ltb_ge. exact H. Qed.

(* ---------- the loop stops at what follows *)
Lemma stops_ret g d p t k : kok k -> stops p k -> ploop (S g) d p t k = Ok (t, k).
Proof.
  intros K S. destruct k as [|tk k']; [reflexivity|]. destruct tk; try reflexivity.
  cbn in K, S. apply loop_stop_looser; [exact K | apply Z.ltb_lt; exact S].
Qed.

(* ---------- operands *)
Definition is_atom (t : ast) : bool := match t with ALit _ | ARef _ => true | _ => false end.

Lemma prim_atom f d t rest :
  is_atom t = true -> (MAX_DEPTH <? d + 1) = false -> no_postfix_head tbl rest ->
  pprim (S (S (S f))) d (atom_tok t ++ rest) = Ok (t, rest).
Proof.
  intros A D P. rewrite parse_primary_eq, D.
  destruct t as [[v|b|s]| | | | |n| | | | |]; try discriminate; cbn [atom_tok app parse_token];
    rewrite advance_eof; cbn [bind]; apply postfixes_none; exact P.
Qed.

Lemma prim_paren f d ts e rest :
  pexpr f (d + 1) (ts ++ TDelim DRParen :: rest) = Ok (e, TDelim DRParen :: rest) ->
  (MAX_DEPTH <? d + 1) = false -> no_postfix_head tbl rest ->
  pprim (S (S f)) d (paren ts ++ rest) = Ok (e, rest).
Proof.
  intros H D P. unfold paren. cbn [app]. rewrite <- app_assoc. cbn [app].
  rewrite parse_primary_eq, D. rewrite parse_token_paren_eq, advance_eof. cbn [bind]. unfold R in *. rewrite H. cbn [bind].
  assert (C: cur_is (TDelim DRParen :: rest) s_rparen = true) by reflexivity. rewrite C.
  rewrite advance_eof. cbn [bind]. apply postfixes_none. exact P.
Qed.

(* ---------- the invariant *)
Definition E (t : ast) : Prop := forall d k, kok k -> stops 0 k -> hgt t -> room d t ->
  exists f, pexpr f d (unparse t ++ k) = Ok (t, k).

Definition Loop (t : ast) : Prop := forall p d k, adm p t -> absorb_safe t k -> kok k -> hgt t -> room d t ->
  exists h tl,
    (exists f, pprim f d (unparse t ++ k) = Ok (h, tl ++ k)) /\
    (match t with
     | ABinary _ _ _ => exists y tl', tl = TOp y :: tl' /\ In y (lspine t) /\ plainb y = true
     | _ => tl = [] end) /\
    forall g res, ploop g (d + 1 + ldepth t) p t k = Ok res -> exists f, ploop f (d + 1) p h (tl ++ k) = Ok res.

Lemma hgt_l o l r : hgt (ABinary o l r) -> hgt l.
Proof. unfold hgt. cbn [ast_height]. lia. Qed.
Lemma hgt_r o l r : hgt (ABinary o l r) -> hgt r.
Proof. unfold hgt. cbn [ast_height]. lia. Qed.

(* the look-ahead after a right operand that must not be extended *)
Lemma gate_closed o rhs k f d :
  kok k -> (forall o2 k', k = TOp o2 :: k' -> (lbp o2 < rbp o)%Z) -> (1 <= lbp o)%Z ->
  ((if cur_is_not k then next_prec tbl tm k else Ok (cur_prec tbl k)) >>= fun '(cl, _) =>
     if (rbp o <? cl)%Z then pop f d (rbp o) rhs k else Ok (rhs, k)) = Ok (rhs, k).
Proof.
  intros K H Z. rewrite (kok_not k K). cbn [bind]. unfold cur_prec.
  destruct k as [|tk k']; cbn [hd_error tok_prec].
  - pose proof (rbp_ge o Z). destruct (rbp o <? -1)%Z eqn:G; [apply Z.ltb_lt in G; lia | reflexivity].
  - destruct tk; cbn [tok_prec];
      try (pose proof (rbp_ge o Z); destruct (rbp o <? -1)%Z eqn:G; [apply Z.ltb_lt in G; lia | reflexivity]).
    specialize (H s k' eq_refl). destruct (binding_power tbl s) as [cl cr]. cbn [fst] in H.
    destruct (rbp o <? cl)%Z eqn:G; [apply Z.ltb_lt in G; lia | reflexivity].
Qed.

Lemma o_step o l r :
  (forall t', (size t' < size (ABinary o l r))%nat -> frag t' = true -> E t' /\ Loop t') ->
  frag (ABinary o l r) = true ->
  forall p D k, adm p (ABinary o l r) -> absorb_safe (ABinary o l r) k -> kok k -> hgt (ABinary o l r) ->
  D + rneed r o <= MAX_DEPTH ->
  forall g res, ploop g (D + 1) p (ABinary o l r) k = Ok res ->
  exists f, ploop f D p l (TOp o :: rtoks r o ++ k) = Ok res.
Proof.
  intros IH Hfrag p D k Hadm Hsafe Hk Hh Hroom g res Hg.
  cbn [frag] in Hfrag. apply andb_prop in Hfrag as [Hfrag Hfr]. apply andb_prop in Hfrag as [Hpo Hfl].
  destruct (plainb_plain o Hpo) as [Hplain Hpos].
  assert (Hp : (lbp o <? p)%Z = false). { apply Z.ltb_ge. apply Hadm. cbn. auto. }
  pose proof (need_pos r) as Hsr. assert (Hrn : need r <= rneed r o) by (unfold rneed; destruct (bareR r o); lia).
  assert (HD : (MAX_DEPTH <? D + 1) = false) by (apply ltb_false_of_le; lia).
  assert (HH : (MAX_DEPTH <? ast_height (ABinary o l r)) = false) by (apply ltb_false_of_le; exact Hh).
  assert (Hgk : forall o2 k', k = TOp o2 :: k' -> (lbp o2 < rbp o)%Z).
  { intros o2 k' ->. cbn in Hsafe. apply Hsafe. auto. }
  destruct (IH r) as [Er Lr]; [cbn [size]; lia | exact Hfr |].
  unfold rtoks. unfold rneed in Hroom. clear Hrn. destruct (bareR r o) eqn:Hb.
  - destruct (is_atom r) eqn:Hat.
    + (* atom *)
      assert (Hun : unparse r = atom_tok r) by (destruct r; try discriminate; reflexivity).
      exists (S (S (S (S g)))).
      rewrite (loop_fold_gen tbl (S (S (S g))) _ p l o _ r k r k Hplain Hp); [| | | exact HD | exact HH].
      * eapply mono_loop; [|exact Hg]. lia.
      * rewrite Hun. apply prim_atom; [exact Hat | apply ltb_false_of_le; lia | apply kok_nopost; exact Hk].
      * apply gate_closed; assumption.
    + (* bare compound right operand *)
      destruct r as [| |o' rl rr| | | | | | | |]; try discriminate.
      assert (Hadm_r : adm (rbp o) (ABinary o' rl rr)).
      { intros y Hy. unfold bareR in Hb. rewrite forallb_forall in Hb. apply Z.lt_le_incl. apply Z.ltb_lt. apply Hb. exact Hy. }
      assert (Hsafe_r : absorb_safe (ABinary o' rl rr) k).
      { destruct k as [|[] k']; cbn in *; auto. }
      assert (Hroom_r : room D (ABinary o' rl rr)) by (unfold room; exact Hroom).
      destruct (Lr (rbp o) D k Hadm_r Hsafe_r Hk (hgt_r _ _ _ Hh) Hroom_r)
        as (h & tl & [f1 Hf1] & (y & tl' & Htl & Hy & Hpy) & Hloop).
      assert (Hstop : stops (rbp o) k). { destruct k as [|[] k']; cbn; auto. apply (Hgk s k' eq_refl). }
      destruct (Hloop 1%nat (ABinary o' rl rr, k) (stops_ret 0 _ _ _ _ Hk Hstop)) as [f2 Hf2].
      destruct (plainb_plain y Hpy) as [Hplain_y _].
      assert (Hgate : (rbp o <? lbp y)%Z = true).
      { unfold bareR in Hb. rewrite forallb_forall in Hb. apply Hb. exact Hy. }
      remember (g + f1 + f2 + 1)%nat as F eqn:HF. exists (S F).
      rewrite (loop_fold_gen tbl F _ p l o _ h (tl ++ k) (ABinary o' rl rr) k Hplain Hp); [| | | exact HD | exact HH].
      * eapply mono_loop; [|exact Hg]. lia.
      * eapply mono_primary; [|exact Hf1]. lia.
      * rewrite Htl. cbn [app]. destruct Hplain_y as (Hn & _). cbn [cur_is_not]. rewrite Hn. cbn [bind cur_prec hd_error tok_prec].
        destruct (binding_power tbl y) as [cl cr] eqn:Ey. cbn [fst] in Hgate. rewrite Hgate.
        destruct F as [|F']; [lia|]. rewrite parse_op_enter by exact HD.
        rewrite Htl in Hf2. cbn [app] in Hf2. eapply mono_loop; [|exact Hf2]. lia.
  - (* parenthesised right operand *)
    assert (Hroom_r : room (D + 1) r) by (unfold room; lia).
    destruct (Er (D + 1) (TDelim DRParen :: k) I I (hgt_r _ _ _ Hh) Hroom_r) as [f1 Hf1].
    remember (g + f1 + 1)%nat as F eqn:HF. exists (S (S (S F))).
    rewrite (loop_fold_gen tbl (S (S F)) _ p l o _ r k r k Hplain Hp); [| | | exact HD | exact HH].
    + eapply mono_loop; [|exact Hg]. lia.
    + apply prim_paren; [| exact HD | apply kok_nopost; exact Hk]. eapply mono_expression; [|exact Hf1]. lia.
    + apply gate_closed; assumption.
Qed.

Lemma E_of_Loop t : frag t = true -> Loop t -> E t.
Proof.
  intros Hfrag L d k Hk Hstop Hh Hroom.
  assert (Hadm : adm 0 t).
  { intros y Hy. clear - Hy Hfrag. induction t; cbn in Hy; try contradiction.
    cbn [frag] in Hfrag. apply andb_prop in Hfrag as [Hfrag _]. apply andb_prop in Hfrag as [Hpo Hfl].
    destruct Hy as [<-|Hy]; [destruct (plainb_plain _ Hpo); lia | apply IHt1; assumption]. }
  assert (Hsafe : absorb_safe t k).
  { destruct k as [|[] k']; cbn in *; auto. intros x Hx. clear - Hx Hfrag Hstop.
    assert (Hr : (0 <= rbp x)%Z); [|lia].
    induction t; cbn in Hx; try contradiction.
    cbn [frag] in Hfrag. apply andb_prop in Hfrag as [Hfrag Hfr]. apply andb_prop in Hfrag as [Hpo Hfl].
    destruct Hx as [<-|Hx]; [apply rbp_ge; apply (plainb_plain _ Hpo) | apply IHt2; assumption]. }
  destruct (L 0%Z d k Hadm Hsafe Hk Hh Hroom) as (h & tl & [f1 Hf1] & _ & Hloop).
  destruct (Hloop 1%nat (t, k) (stops_ret 0 _ _ _ _ Hk Hstop)) as [f2 Hf2].
  remember (f1 + f2 + 1)%nat as F. exists (S (S F)). rewrite parse_expression_step.
  rewrite (mono_primary tbl tm f1 (S F) _ _ _ ltac:(lia) Hf1). cbn [bind].
  pose proof (need_pos t). unfold room in Hroom.
  rewrite parse_op_enter by (apply ltb_false_of_le; lia).
  eapply mono_loop; [|exact Hf2]. lia.
Qed.

Lemma main : forall n t, (size t < n)%nat -> frag t = true -> E t /\ Loop t.
Proof.
  induction n as [|n IHn]; intros t Hsz Hfrag; [lia|].
  assert (HL : Loop t).
  { destruct (is_atom t) eqn:Hat.
    - intros p d k _ _ Hk _ Hroom. exists t, []. unfold room in Hroom. pose proof (need_pos t).
      assert (Hun : unparse t = atom_tok t) by (destruct t; try discriminate; reflexivity).
      repeat split.
      + exists 3%nat. rewrite Hun. apply prim_atom; [exact Hat | apply ltb_false_of_le; lia | apply kok_nopost; exact Hk].
      + destruct t; try discriminate; reflexivity.
      + intros g res Hg. exists g. replace (d + 1 + ldepth t) with (d + 1) in Hg by (destruct t; try discriminate; cbn [ldepth]; lia). exact Hg.
    - destruct t as [| |o l r| | | | | | | |]; try discriminate.
      assert (IH : forall t', (size t' < size (ABinary o l r))%nat -> frag t' = true -> E t' /\ Loop t').
      { intros t' Ht' Hf'. apply IHn; [lia | exact Hf']. }
      pose proof Hfrag as Hfrag0.
      cbn [frag] in Hfrag. apply andb_prop in Hfrag as [Hfrag Hfr]. apply andb_prop in Hfrag as [Hpo Hfl].
      intros p d k Hadm Hsafe Hk Hh Hroom.
      pose proof (need_pos r) as Hsr. pose proof (need_pos l) as Hsl.
      pose proof Hroom as Hroom0. unfold room in Hroom. cbn [need] in Hroom. fold (rneed r o) in Hroom.
      destruct (bareL l o) eqn:Hb.
      + assert (Hadm_l : adm p l). { intros y Hy. apply Hadm. cbn. auto. }
        set (k2 := TOp o :: rtoks r o ++ k).
        assert (Hsafe_l : absorb_safe l k2).
        { cbn. intros x Hx. apply Z.ltb_lt. unfold bareL in Hb. rewrite forallb_forall in Hb. auto. }
        assert (Hk2 : kok k2). { cbn. destruct (plainb_plain o Hpo) as [(H1 & H2 & H3) _]. auto. }
        assert (Hroom_l : room d l) by (unfold room; lia).
        destruct (IH l) as [_ Ll]; [cbn [size]; lia | exact Hfl |].
        destruct (Ll p d k2 Hadm_l Hsafe_l Hk2 (hgt_l _ _ _ Hh) Hroom_l) as (h & tl & [f1 Hf1] & Hshape & Hloop).
        exists h, (tl ++ TOp o :: rtoks r o). repeat split.
        * exists f1. cbn [unparse]. rewrite Hb. fold (rtoks r o). rewrite <- !app_assoc. cbn [app]. exact Hf1.
        * destruct l as [| |o1 l1 r1| | | | | | | |]; try (subst tl; exists o, (rtoks r o); repeat split; [cbn; auto | exact Hpo]).
          destruct Hshape as (y & tl' & -> & Hy & Hpy). exists y, (tl' ++ TOp o :: rtoks r o). repeat split; [cbn in *; auto | exact Hpy].
        * intros g res Hg.
          replace (d + 1 + ldepth (ABinary o l r)) with (d + 1 + ldepth l + 1) in Hg by (cbn [ldepth]; rewrite Hb; lia).
          destruct (o_step o l r IH Hfrag0 p (d + 1 + ldepth l) k Hadm Hsafe Hk Hh ltac:(lia) g res Hg) as [f Hf].
          destruct (Hloop f res Hf) as [f' Hf']. exists f'. rewrite <- app_assoc. exact Hf'.
      + destruct (IH l) as [El _]; [cbn [size]; lia | exact Hfl |].
        assert (Hroom_l : room (d + 1) l) by (unfold room; lia).
        set (k2 := TOp o :: rtoks r o ++ k).
        destruct (El (d + 1) (TDelim DRParen :: k2) I I (hgt_l _ _ _ Hh) Hroom_l) as [f Hf].
        exists l, (TOp o :: rtoks r o). repeat split.
        * exists (S (S f)). cbn [unparse]. rewrite Hb. fold (rtoks r o). rewrite <- app_assoc. cbn [app]. fold k2.
          apply prim_paren; [exact Hf | apply ltb_false_of_le; lia |].
          cbn. apply (plainb_plain o Hpo).
        * exists o, (rtoks r o). repeat split; [cbn; auto | exact Hpo].
        * intros g res Hg.
          replace (d + 1 + ldepth (ABinary o l r)) with (d + 1 + 1) in Hg by (cbn [ldepth]; rewrite Hb; lia).
          exact (o_step o l r IH Hfrag0 p (d + 1) k Hadm Hsafe Hk Hh ltac:(lia) g res Hg). }
  split; [apply E_of_Loop; assumption|]; exact HL.
Qed.

Theorem parse_unparse_expr : forall t d, frag t = true -> hgt t -> room d t ->
  exists f, pexpr f d (unparse t) = Ok (t, []).
Proof.
  intros t d Hf Hh Hr. destruct (main (S (size t)) t ltac:(lia) Hf) as [Et _].
  destruct (Et d [] I I Hh Hr) as [f Hf']. exists f. rewrite app_nil_r in Hf'. exact Hf'.
Qed.
End RT.

(** the same at the level of the whole parse (Parser::new + parse_stmt with the model's own fuel) *)
Section Top.
Variable tbl : optable.

Lemma unparse_nonempty t : frag tbl t = true -> unparse tbl t <> [].
Proof.
  induction t; cbn [frag unparse atom_tok]; try discriminate.
  - destruct l; discriminate.
  - intros _ H. destruct (bareL tbl t1 op); [destruct (unparse tbl t1) | unfold paren in H]; discriminate.
Qed.

Theorem parse_unparse : forall t, frag tbl t = true -> hgt t -> room tbl 0 t ->
  parse_tokens tbl TmEof (unparse tbl t) = Ok t.
Proof.
  intros t Hf Hh Hr. destruct (parse_unparse_expr tbl t 0 Hf Hh Hr) as [f Hf'].
  pose proof (unparse_nonempty t Hf) as Hne.
  unfold parse_tokens. destruct (unparse tbl t) as [|t0 ts] eqn:Eu; [contradiction|]. rewrite <- Eu in *.
  set (F := parse_fuel (unparse tbl t)).
  assert (HF : exists F', F = S F' /\ (4 * length (unparse tbl t) + 4 <= F')%nat).
  { unfold F, parse_fuel. exists (4 * length (unparse tbl t) + 15)%nat. lia. }
  destruct HF as (F' & -> & HF').
  assert (Hx : parse_expression tbl TmEof F' 0 (unparse tbl t) = Ok (t, [])).
  { pose proof (proj1 (parser_nf tbl TmEof ltac:(discriminate) F') 0 (unparse tbl t) HF') as NF. unfold nf in NF.
    destruct (Nat.le_ge_cases f F') as [Hle|Hle].
    - eapply mono_expression; [exact Hle | exact Hf'].
    - rewrite <- Hf'. symmetry.
      apply (mono_gen (fun g => parse_expression tbl TmEof g 0 (unparse tbl t))); [|exact Hle|exact NF].
      intros g. apply (proj1 (parser_sim tbl TmEof g)). }
  rewrite Eu at 1. cbn [parse_stmt_loop]. rewrite <- Eu. rewrite Hx. cbn [bind].
  destruct F' as [|F'']; [lia|]. reflexivity.
Qed.
End Top.
