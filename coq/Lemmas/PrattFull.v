(** Lemma (B), whole expression language: parsing what the printer writes gives back the tree.
    [etoks t] is the token-level image of Printer.expr: the same parenthesisation decisions (the very functions
    [rspine_blocks], [lspine_blocks], [postfix_needs_paren], [is_ternary], [is_infix_like] of the printer model), with
    tokens in place of characters. For an ARBITRARY operator table and every well-formed tree - names, literals, infix
    operators, `x not OP y`, prefix and postfix operators, conditionals, calls, lists, maps, nested without bound other than
    the parser's own depth limit - the parser model returns exactly that tree and consumes every token. *)
From EE Require Import Chars OpTable Decimal Token Lexer Ast Parser Printer Api Etoks Ptree Utf8 ParserFuel ParserMono ParserSteps.
Open Scope N_scope.

Section RT.
Variable tbl : optable.
Notation tm := TmEof.
Notation lbp o := (fst (binding_power tbl o)).
Notation rbp o := (snd (binding_power tbl o)).
Notation pexpr := (parse_expression tbl tm).
Notation pprim := (parse_primary tbl tm).
Notation ptoken := (parse_token tbl tm).
Notation pop := (parse_op tbl tm).
Notation ploop := (parse_op_loop tbl tm).
Notation ppost := (parse_postfixes tbl tm).
Notation plainb := (Etoks.plainb tbl).
Notation prefixb := (Etoks.prefixb tbl).
Notation wf := (Etoks.wf tbl).
Notation lbare := (Etoks.lbare0 tbl).
Notation rbare := (Etoks.rbare0 tbl).
Notation etoks := (Etoks.etoks0 tbl).
Notation ldepth := Etoks.ldepth0.
Notation need := (Etoks.need0 tbl).
Notation room := (Etoks.room0 tbl).

(* `?` and `:` are not registered as operators and `not` is not a postfix operator (the crate registers none of these and
   the tokenizer classifies `?` / `:` apart, keyword.rs) *)
Definition tbl_ok : Prop :=
  is_postfix tbl s_qmark = false /\ is_postfix tbl s_colon = false /\ is_postfix tbl s_not = false /\
  infix_cfg_of tbl s_qmark = None /\ infix_cfg_of tbl s_colon = None.
Hypothesis TOK : tbl_ok.

Fixpoint size (t : ast) : nat :=
  match t with
  | AUnary _ e => S (size e)
  | ABinary _ l r => S (size l + size r)
  | APostfix e _ => S (size e)
  | ATernary c a b => S (size c + size a + size b)
  | AFunc _ args => S ((fix go (l : list ast) : nat := match l with [] => O | x :: r => (size x + go r)%nat end) args)
  | AList es => S ((fix go (l : list ast) : nat := match l with [] => O | x :: r => (size x + go r)%nat end) es)
  | AMap kvs => S ((fix go (l : list (ast * ast)) : nat := match l with [] => O | (k, v) :: r => (size k + size v + go r)%nat end) kvs)
  | AStmt es => S ((fix go (l : list ast) : nat := match l with [] => O | x :: r => (size x + go r)%nat end) es)
  | _ => 1%nat
  end.

(* the operators on the right / left spine, through `x not OP y` nodes, exactly as the printer follows them *)
Fixpoint rspine (t : ast) : list str :=
  match t with
  | ABinary o _ r => o :: rspine r
  | AUnary n (ABinary o _ r) => if str_eqb n s_not then o :: rspine r else []
  | _ => []
  end.
Fixpoint lspine (t : ast) : list str :=
  match t with
  | ABinary o l _ => o :: lspine l
  | AUnary n (ABinary o l _) => if str_eqb n s_not then o :: lspine l else []
  | _ => []
  end.

(* ---------- infix-like nodes: x OP y and x not OP y *)
Definition rtoks (r : ast) (o : str) : list token := ptoks (negb (rbare r o)) (etoks r).
Definition rneed (r : ast) (o : str) : N := if rbare r o then need r else need r + 1.

Lemma infix_like_inv t : is_infix_like t = true -> exists nt o l r, t = mk nt o l r.
Proof.
  destruct t; try discriminate.
  - destruct t; try discriminate. unfold is_infix_like, infix_like. destruct (str_eqb op s_not) eqn:E; [|discriminate].
    intros _. apply str_eqb_eq in E. subst op. exists true, op0, t1, t2. reflexivity.
  - intros _. exists false, op, t1, t2. reflexivity.
Qed.
Lemma mk_infix_like nt o l r : is_infix_like (mk nt o l r) = true.
Proof. destruct nt; reflexivity. Qed.
Lemma mk_not_ternary nt o l r : is_ternary (mk nt o l r) = false.
Proof. destruct nt; reflexivity. Qed.
Lemma wf_mk nt o l r : wf (mk nt o l r) = true -> plainb o = true /\ wf l = true /\ wf r = true.
Proof.
  destruct nt; cbn [mk wf]; [change (str_eqb s_not s_not) with true; cbn iota|];
    intros H; apply andb_prop in H as [H H3]; apply andb_prop in H as [H1 H2]; auto.
Qed.
Lemma etoks_mk nt o l r :
  etoks (mk nt o l r) = ptoks (negb (lbare l o)) (etoks l) ++ optoks nt o ++ rtoks r o.
Proof. destruct nt; reflexivity. Qed.
Lemma rspine_mk nt o l r : rspine (mk nt o l r) = o :: rspine r.
Proof. destruct nt; reflexivity. Qed.
Lemma lspine_mk nt o l r : lspine (mk nt o l r) = o :: lspine l.
Proof. destruct nt; reflexivity. Qed.
Lemma need_mk nt o l r :
  need (mk nt o l r) = N.max (if lbare l o then need l else need l + 1) ((if lbare l o then ldepth l else 0) + 1 + rneed r o).
Proof. destruct nt; reflexivity. Qed.
Lemma size_mk nt o l r : (size l < size (mk nt o l r) /\ size r < size (mk nt o l r))%nat.
Proof. destruct nt; cbn [mk size]; lia. Qed.
Lemma hgt_mk nt o l r : hgt (mk nt o l r) -> hgt l /\ hgt r.
Proof. unfold hgt. destruct nt; cbn [mk ast_height]; lia. Qed.

Lemma plainb_plain o : plainb o = true -> plain tbl o /\ (1 <= lbp o)%Z.
Proof.
  unfold plainb, plain. intros H.
  apply andb_prop in H as [H H4]. apply andb_prop in H as [H H3]. apply andb_prop in H as [H1 H2].
  apply negb_true_iff in H1, H2, H3. apply Z.leb_le in H4. repeat split; assumption.
Qed.
Lemma rbp_ge o : (1 <= lbp o)%Z -> (1 <= rbp o)%Z.
Proof.
  unfold binding_power. destruct (infix_cfg_of tbl o) as [c|]; cbn [fst snd]; [|lia].
  destruct (ic_right c); lia.
Qed.
Lemma need_pos t : 1 <= need t.
Proof.
  induction t; cbn [need]; try lia.
  - destruct t; try lia. destruct (str_eqb op s_not); lia.
  - destruct (postfix_needs_paren t); lia.
Qed.

(* ---------- what may follow an expression, and how the loop sees it *)
(* the l_bp the loop computes for the current token: that of the operator itself, or of the operator behind `not` *)
Definition klbp (k : list token) : Z :=
  match k with
  | TOp n :: rest => if is_not n then fst (tok_prec tbl (hd_error rest)) else lbp n
  | _ => (-1)%Z
  end.
Definition kok (k : list token) : Prop :=
  match k with TOp n :: _ => is_postfix tbl n = false /\ (is_not n = true -> (0 <= klbp k)%Z) | _ => True end.
Definition stops (p : Z) (k : list token) : Prop :=
  match k with
  | TOp n :: _ => if is_not n then (klbp k < p)%Z else if str_eqb n s_qmark then (0 < p)%Z else (lbp n < p)%Z
  | _ => True
  end.
Definition adm (p : Z) (t : ast) : Prop := forall y, In y (lspine t) -> (p <= lbp y)%Z.
Definition absorb_safe (t : ast) (k : list token) : Prop := forall x, In x (rspine t) -> (klbp k < rbp x)%Z.

Lemma eff_prec k : exists r, (if cur_is_not k then next_prec tbl tm k else Ok (cur_prec tbl k)) = Ok (klbp k, r).
Proof.
  destruct k as [|t rest]; [eexists; reflexivity|]. destruct t; try (eexists; reflexivity).
  cbn [cur_is_not klbp]. destruct (is_not s).
  - unfold next_prec, peek_tok. destruct rest as [|t2 rest2]; cbn [bind hd_error].
    + eexists; reflexivity.
    + destruct (tok_prec tbl (Some t2)) as [a b]. eexists; reflexivity.
  - unfold cur_prec. cbn [hd_error tok_prec]. destruct (binding_power tbl s) as [a b]. eexists; reflexivity.
Qed.
Lemma kok_nopost k : kok k -> no_postfix_head tbl k.
Proof. destruct k as [|[] k']; cbn; try exact (fun _ => I). intros (H & _). exact H. Qed.
Lemma ltb_false_of_le a b : (b <= a)%N -> (a <? b) = false.
Proof. intros H. apply N.ltb_ge. exact H. Qed.
Lemma zltb_false a b : (b <= a)%Z -> (a <? b)%Z = false.
Proof. intros H. apply Z.ltb_ge. exact H. Qed.

(* the loop stops at what follows *)
Lemma stops_ret g d p t k : kok k -> stops p k -> ploop (S g) d p t k = Ok (t, k).
Proof.
  intros K S. destruct k as [|tk k']; [reflexivity|]. destruct tk; try reflexivity.
  rewrite parse_op_loop_eq. cbn zeta. cbn [kok stops] in K, S. destruct K as [_ K].
  destruct (eff_prec (TOp s :: k')) as [r E]. cbn [cur_is_not] in E.
  destruct (is_not s) eqn:N.
  - rewrite E. cbn [bind]. specialize (K eq_refl). rewrite (zltb_false _ _ K). cbn [andb negb].
    apply Z.ltb_lt in S. rewrite S. reflexivity.
  - rewrite E. cbn [bind andb negb]. destruct (str_eqb s s_qmark) eqn:Q.
    + apply Z.ltb_lt in S. rewrite S. reflexivity.
    + cbn [klbp]. rewrite N. apply Z.ltb_lt in S. rewrite S. reflexivity.
Qed.

(* the look-ahead after a right operand that must not be extended *)
Lemma gate_closed o rhs k f d :
  (klbp k < rbp o)%Z ->
  ((if cur_is_not k then next_prec tbl tm k else Ok (cur_prec tbl k)) >>= fun '(cl, _) =>
     if (rbp o <? cl)%Z then pop f d (rbp o) rhs k else Ok (rhs, k)) = Ok (rhs, k).
Proof.
  intros H. destruct (eff_prec k) as [r E]. rewrite E. cbn [bind]. rewrite zltb_false by lia. reflexivity.
Qed.
Lemma gate_open o rhs k f d :
  (rbp o < klbp k)%Z ->
  ((if cur_is_not k then next_prec tbl tm k else Ok (cur_prec tbl k)) >>= fun '(cl, _) =>
     if (rbp o <? cl)%Z then pop f d (rbp o) rhs k else Ok (rhs, k)) = pop f d (rbp o) rhs k.
Proof.
  intros H. destruct (eff_prec k) as [r E]. rewrite E. cbn [bind]. apply Z.ltb_lt in H. rewrite H. reflexivity.
Qed.

Lemma klbp_optoks nt o rest : plainb o = true -> klbp (optoks nt o ++ rest) = lbp o.
Proof.
  intros H. destruct (plainb_plain o H) as [(N & _) _]. destruct nt; cbn [optoks app klbp].
  - change (is_not s_not) with true. cbn iota. reflexivity.
  - rewrite N. reflexivity.
Qed.
Lemma kok_optoks nt o rest : plainb o = true -> kok (optoks nt o ++ rest).
Proof.
  intros H. pose proof (klbp_optoks nt o rest H) as K. destruct (plainb_plain o H) as [(N & _ & P) L].
  destruct TOK as (_ & _ & PN & _). destruct nt; cbn [optoks app kok] in *.
  - split; [exact PN|]. intros _. rewrite K. lia.
  - split; [exact P|]. rewrite N. discriminate.
Qed.

(* one iteration of the loop, for `x OP y` and `x not OP y` alike *)
Lemma loop_fold_mk nt f d prec lhs cur rest rhs ts3 rhs' ts4 :
  plainb cur = true -> (lbp cur <? prec)%Z = false ->
  pprim f d rest = Ok (rhs, ts3) ->
  ((if cur_is_not ts3 then next_prec tbl tm ts3 else Ok (cur_prec tbl ts3)) >>= fun '(cl, _) =>
     if (rbp cur <? cl)%Z then pop f d (rbp cur) rhs ts3 else Ok (rhs, ts3)) = Ok (rhs', ts4) ->
  (MAX_DEPTH <? d + 1) = false -> (MAX_DEPTH <? ast_height (mk nt cur lhs rhs')) = false ->
  ploop (S f) d prec lhs (optoks nt cur ++ rest) = ploop f d prec (mk nt cur lhs rhs') ts4.
Proof.
  intros PB L P G D H. destruct (plainb_plain cur PB) as [PL Z1]. destruct nt; cbn [optoks app mk] in *.
  - destruct PL as (N & Q & _). unfold R in *. rewrite parse_op_loop_eq. cbn zeta.
    assert (E: is_not s_not = true) by reflexivity. rewrite E.
    unfold next_prec at 1. unfold peek_tok at 1. cbn [bind tok_prec].
    destruct (binding_power tbl cur) as [l r]. cbn [fst snd] in *.
    rewrite (zltb_false l 0) by lia. cbn [andb negb]. rewrite L. cbn [bind].
    rewrite advance_eof. cbn [bind]. rewrite advance_eof. cbn [bind]. rewrite P. cbn [bind].
    destruct (if cur_is_not ts3 then next_prec tbl tm ts3 else Ok (cur_prec tbl ts3)) as [[cl cr]| | |]; cbn [bind] in G |- *; try discriminate.
    rewrite G. cbn [bind]. unfold built. rewrite H. cbn [bind]. reflexivity.
  - eapply loop_fold_gen; eassumption.
Qed.

Lemma mono_postfixes f f' lhs ts r : (f <= f')%nat -> ppost f lhs ts = Ok r -> ppost f' lhs ts = Ok r.
Proof.
  intros Hle H. rewrite <- H. apply (mono_gen (fun f => ppost f lhs ts)); [|exact Hle|rewrite H; discriminate].
  intros g. apply sim_postfixes.
Qed.

Lemma prim_paren f d ts e rest :
  pexpr f (d + 1) (ts ++ TDelim DRParen :: rest) = Ok (e, TDelim DRParen :: rest) ->
  (MAX_DEPTH <? d + 1) = false -> no_postfix_head tbl rest ->
  pprim (S (S f)) d (paren ts ++ rest) = Ok (e, rest).
Proof.
  intros H D P. unfold paren. cbn [app]. rewrite <- app_assoc. cbn [app].
  rewrite parse_primary_eq, D. rewrite parse_token_paren_eq, advance_eof. cbn [bind]. unfold R in *. rewrite H. cbn [bind].
  assert (C: cur_is (TDelim DRParen :: rest) s_rparen = true) by reflexivity. rewrite C.
  rewrite advance_eof. cbn [bind]. apply postfixes_none. exact P.
Qed.

(* spines of well-formed trees carry plain operators; the printer's blocking tests in terms of the spines *)
Lemma rspine_wf t : wf t = true -> forall x, In x (rspine t) -> plainb x = true.
Proof.
  induction t; cbn [rspine]; intros W x Hx; try contradiction.
  - destruct t; try contradiction. destruct (str_eqb op s_not) eqn:E; [|contradiction].
    cbn [wf] in W. rewrite E in W. apply andb_prop in W as [W W3]. apply andb_prop in W as [W1 W2].
    destruct Hx as [<-|Hx]; [exact W1|].
    apply IHt; [cbn [wf]; rewrite W1, W2, W3; reflexivity | cbn [rspine]; right; exact Hx].
  - cbn [wf] in W. apply andb_prop in W as [W W3]. apply andb_prop in W as [W1 W2].
    destruct Hx as [<-|Hx]; [exact W1 | apply IHt2; assumption].
Qed.
Lemma lspine_wf t : wf t = true -> forall x, In x (lspine t) -> plainb x = true.
Proof.
  induction t; cbn [lspine]; intros W x Hx; try contradiction.
  - destruct t; try contradiction. destruct (str_eqb op s_not) eqn:E; [|contradiction].
    cbn [wf] in W. rewrite E in W. apply andb_prop in W as [W W3]. apply andb_prop in W as [W1 W2].
    destruct Hx as [<-|Hx]; [exact W1|].
    apply IHt; [cbn [wf]; rewrite W1, W2, W3; reflexivity | cbn [lspine]; right; exact Hx].
  - cbn [wf] in W. apply andb_prop in W as [W W3]. apply andb_prop in W as [W1 W2].
    destruct Hx as [<-|Hx]; [exact W1 | apply IHt1; assumption].
Qed.
Lemma rspine_free b t : rspine_blocks tbl b t = false -> forall x, In x (rspine t) -> (b < rbp x)%Z.
Proof.
  induction t; cbn [rspine rspine_blocks]; intros H x Hx; try contradiction.
  - destruct t; try contradiction. destruct (str_eqb op s_not) eqn:E; [|contradiction].
    apply orb_false_elim in H as [H1 H2]. destruct Hx as [<-|Hx]; [apply Z.leb_gt in H1; exact H1|].
    apply IHt; [cbn [rspine_blocks]; rewrite H1, H2; reflexivity | cbn [rspine]; right; exact Hx].
  - apply orb_false_elim in H as [H1 H2]. destruct Hx as [<-|Hx]; [apply Z.leb_gt in H1; exact H1 | apply IHt2; assumption].
Qed.
Lemma lspine_free b t : lspine_blocks tbl b t = false -> forall x, In x (lspine t) -> (b < lbp x)%Z.
Proof.
  induction t; cbn [lspine lspine_blocks]; intros H x Hx; try contradiction.
  - destruct t; try contradiction. destruct (str_eqb op s_not) eqn:E; [|contradiction].
    apply orb_false_elim in H as [H1 H2]. destruct Hx as [<-|Hx]; [apply Z.leb_gt in H1; exact H1|].
    apply IHt; [cbn [lspine_blocks]; rewrite H1, H2; reflexivity | cbn [lspine]; right; exact Hx].
  - apply orb_false_elim in H as [H1 H2]. destruct Hx as [<-|Hx]; [apply Z.leb_gt in H1; exact H1 | apply IHt1; assumption].
Qed.
Lemma ldepth_pform t : is_infix_like t = false -> ldepth t = 0.
Proof. reflexivity. Qed.
Lemma rspine_pform t : is_infix_like t = false -> rspine t = [].
Proof.
  destruct t; try reflexivity; [|discriminate]. destruct t; try reflexivity.
  unfold is_infix_like, infix_like. cbn [rspine]. destruct (str_eqb op s_not); [discriminate | reflexivity].
Qed.

(* ---------- the invariants *)
Definition pform (t : ast) : bool := negb (is_ternary t) && negb (is_infix_like t).
Definition is_unary (t : ast) : bool := match t with AUnary _ _ => true | _ => false end.

(* an expression position *)
Definition E (t : ast) : Prop := forall d k, kok k -> stops 0 k -> hgt t -> room d t ->
  exists f, pexpr f d (etoks t ++ k) = Ok (t, k).
(* an operand position *)
Definition P (t : ast) : Prop := forall d k, kok k -> hgt t -> room d t ->
  exists f, pprim f d (etoks t ++ k) = Ok (t, k).
(* token, then postfix loop: reaches the postfix loop with lhs = t *)
Definition Q (t : ast) : Prop := forall d k, hgt t -> room d t -> (is_unary t = true -> kok k) ->
  forall g res, ppost g t k = Ok res ->
  exists f, (ptoken f (d + 1) (etoks t ++ k) >>= fun '(c, r) => ppost f c r) = Ok res.
(* operand, then operator loop: reaches the loop with lhs = t *)
Definition Loop (t : ast) : Prop := forall p d k, adm p t -> absorb_safe t k -> kok k -> hgt t -> room d t ->
  exists h tl,
    (exists f, pprim f d (etoks t ++ k) = Ok (h, tl ++ k)) /\
    (if is_infix_like t then exists nt y tl', tl = optoks nt y ++ tl' /\ In y (lspine t) /\ plainb y = true else tl = []) /\
    forall g res, ploop g (d + 1 + ldepth t) p t k = Ok res -> exists f, ploop f (d + 1) p h (tl ++ k) = Ok res.
Definition All (t : ast) : Prop := E t /\ (is_ternary t = false -> Loop t) /\ (pform t = true -> Q t).

Lemma P_of_Q t : Q t -> P t.
Proof.
  intros HQ d k Hk Hh Hr. pose proof (need_pos t) as Hn. unfold room in Hr.
  destruct (HQ d k Hh Hr (fun _ => Hk) 1%nat (t, k) (postfixes_none tbl 0 t k (kok_nopost k Hk))) as [f Hf].
  exists (S f). rewrite parse_primary_eq. rewrite ltb_false_of_le by lia. exact Hf.
Qed.

Lemma Loop_of_P t : is_infix_like t = false -> P t -> Loop t.
Proof.
  intros NI HP p d k _ _ Hk Hh Hr. exists t, []. split; [apply HP; assumption|]. split; [rewrite NI; reflexivity|].
  intros g res Hg. exists g. rewrite (ldepth_pform t NI), N.add_0_r in Hg. exact Hg.
Qed.

Lemma o_step nt o l r :
  (forall t', (size t' < size (mk nt o l r))%nat -> wf t' = true -> All t') ->
  wf (mk nt o l r) = true ->
  forall p D k, adm p (mk nt o l r) -> absorb_safe (mk nt o l r) k -> kok k -> hgt (mk nt o l r) ->
  D + rneed r o <= MAX_DEPTH ->
  forall g res, ploop g D p (mk nt o l r) k = Ok res ->
  exists f, ploop f D p l (optoks nt o ++ rtoks r o ++ k) = Ok res.
Proof.
  intros IH Hwf p D k Hadm Hsafe Hk Hh Hroom g res Hg.
  destruct (wf_mk _ _ _ _ Hwf) as (Hpo & Hwl & Hwr).
  destruct (plainb_plain o Hpo) as [Hplain Hpos]. pose proof (rbp_ge o Hpos) as Hrpos.
  assert (Hp : (lbp o <? p)%Z = false). { apply zltb_false. apply Hadm. rewrite lspine_mk. left; reflexivity. }
  pose proof (need_pos r) as Hsr.
  assert (Hrn : need r <= rneed r o) by (unfold rneed; destruct (rbare r o); lia).
  assert (HD : (MAX_DEPTH <? D + 1) = false) by (apply ltb_false_of_le; lia).
  assert (HH : (MAX_DEPTH <? ast_height (mk nt o l r)) = false) by (apply ltb_false_of_le; exact Hh).
  assert (Hgk : (klbp k < rbp o)%Z). { apply Hsafe. rewrite rspine_mk. left; reflexivity. }
  destruct (size_mk nt o l r) as [Hsl Hsrr]. destruct (hgt_mk _ _ _ _ Hh) as [Hhl Hhr].
  destruct (IH r Hsrr Hwr) as (Er & Lr & Qr).
  unfold rtoks. unfold rneed in Hroom. clear Hrn. destruct (rbare r o) eqn:Hb; cbn [negb ptoks].
  - unfold rbare in Hb. apply negb_true_iff in Hb. apply orb_false_elim in Hb as [Hnt Hlb].
    destruct (is_infix_like r) eqn:Hil.
    + (* bare compound right operand *)
      assert (Hadm_r : adm (rbp o) r). { intros y Hy. apply Z.lt_le_incl. apply (lspine_free _ _ Hlb y Hy). }
      assert (Hsafe_r : absorb_safe r k). { intros x Hx. apply Hsafe. rewrite rspine_mk. right; exact Hx. }
      destruct (Lr Hnt (rbp o) D k Hadm_r Hsafe_r Hk Hhr Hroom) as (h & tl & [f1 Hf1] & Hshape & Hloop).
      rewrite Hil in Hshape. destruct Hshape as (nt' & y & tl' & Htl & Hy & Hpy).
      assert (Hstop : stops (rbp o) k).
      { destruct k as [|[] k']; cbn [stops]; auto. destruct (is_not s) eqn:N; [exact Hgk|].
        destruct (str_eqb s s_qmark); [lia|]. cbn [klbp] in Hgk. rewrite N in Hgk. exact Hgk. }
      destruct (Hloop 1%nat (r, k) (stops_ret 0 _ _ _ _ Hk Hstop)) as [f2 Hf2].
      assert (Hgate : (rbp o < klbp (tl ++ k))%Z).
      { rewrite Htl, <- app_assoc, klbp_optoks by exact Hpy. apply (lspine_free _ _ Hlb y Hy). }
      remember (g + f1 + f2 + 1)%nat as F eqn:HF. exists (S F).
      rewrite (loop_fold_mk nt F D p l o (etoks r ++ k) h (tl ++ k) r k Hpo Hp); [| | | exact HD | exact HH].
      * eapply mono_loop; [|exact Hg]. lia.
      * eapply mono_primary; [|exact Hf1]. lia.
      * rewrite gate_open by exact Hgate. destruct F as [|F']; [lia|]. rewrite parse_op_enter by exact HD.
        eapply mono_loop; [|exact Hf2]. lia.
    + (* an operand that is not an infix expression: taken whole by parse_primary *)
      assert (Hpf : pform r = true) by (unfold pform; rewrite Hnt, Hil; reflexivity).
      destruct (P_of_Q r (Qr Hpf) D k Hk Hhr Hroom) as [f1 Hf1].
      remember (g + f1 + 1)%nat as F eqn:HF. exists (S F).
      rewrite (loop_fold_mk nt F D p l o (etoks r ++ k) r k r k Hpo Hp); [| | | exact HD | exact HH].
      * eapply mono_loop; [|exact Hg]. lia.
      * eapply mono_primary; [|exact Hf1]. lia.
      * apply gate_closed. exact Hgk.
  - (* parenthesised right operand *)
    assert (Hroom_r : room (D + 1) r) by (unfold room; lia).
    destruct (Er (D + 1) (TDelim DRParen :: k) I I Hhr Hroom_r) as [f1 Hf1].
    remember (g + f1 + 1)%nat as F eqn:HF. exists (S (S (S F))).
    rewrite (loop_fold_mk nt (S (S F)) D p l o (paren (etoks r) ++ k) r k r k Hpo Hp); [| | | exact HD | exact HH].
    + eapply mono_loop; [|exact Hg]. lia.
    + apply prim_paren; [| exact HD | apply kok_nopost; exact Hk]. eapply mono_expression; [|exact Hf1]. lia.
    + apply gate_closed. exact Hgk.
Qed.

Lemma E_of_Loop t : wf t = true -> Loop t -> E t.
Proof.
  intros Hwf L d k Hk Hstop Hh Hroom.
  assert (Hadm : adm 0 t).
  { intros y Hy. destruct (plainb_plain y (lspine_wf t Hwf y Hy)). lia. }
  assert (Hsafe : absorb_safe t k).
  { intros x Hx. destruct (plainb_plain x (rspine_wf t Hwf x Hx)) as [_ Hl]. pose proof (rbp_ge x Hl).
    assert (Hkl : (klbp k < 1)%Z); [|lia].
    destruct k as [|[] k']; cbn [klbp]; try lia. cbn [stops] in Hstop.
    destruct (is_not s) eqn:N; [cbn [klbp] in Hstop; rewrite N in Hstop; lia|].
    destruct (str_eqb s s_qmark); lia. }
  destruct (L 0%Z d k Hadm Hsafe Hk Hh Hroom) as (h & tl & [f1 Hf1] & _ & Hloop).
  destruct (Hloop 1%nat (t, k) (stops_ret 0 _ _ _ _ Hk Hstop)) as [f2 Hf2].
  remember (f1 + f2 + 1)%nat as F. exists (S (S F)). rewrite parse_expression_step.
  rewrite (mono_primary tbl tm f1 (S F) _ _ _ ltac:(lia) Hf1). cbn [bind].
  pose proof (need_pos t). unfold room in Hroom.
  rewrite parse_op_enter by (apply ltb_false_of_le; lia).
  eapply mono_loop; [|exact Hf2]. lia.
Qed.

Lemma Loop_infix nt o l r :
  (forall t', (size t' < size (mk nt o l r))%nat -> wf t' = true -> All t') ->
  wf (mk nt o l r) = true -> Loop (mk nt o l r).
Proof.
  intros IH Hwf. destruct (wf_mk _ _ _ _ Hwf) as (Hpo & Hwl & Hwr).
  destruct (size_mk nt o l r) as [Hsl Hsr].
  intros p d k Hadm Hsafe Hk Hh Hroom. destruct (hgt_mk _ _ _ _ Hh) as [Hhl Hhr].
  pose proof (need_pos r) as Hnr. pose proof (need_pos l) as Hnl.
  assert (Hrn : need r <= rneed r o) by (unfold rneed; destruct (rbare r o); lia).
  unfold room in Hroom. rewrite need_mk in Hroom. rewrite mk_infix_like.
  set (k2 := optoks nt o ++ rtoks r o ++ k).
  assert (Hk2 : kok k2) by (apply kok_optoks; exact Hpo).
  destruct (IH l Hsl Hwl) as (El & Ll & _).
  destruct (lbare l o) eqn:Hb.
  - unfold lbare in Hb. apply negb_true_iff in Hb. apply orb_false_elim in Hb as [Hnt Hrb].
    assert (Hadm_l : adm p l). { intros y Hy. apply Hadm. rewrite lspine_mk. right; exact Hy. }
    assert (Hsafe_l : absorb_safe l k2).
    { intros x Hx. unfold k2. rewrite klbp_optoks by exact Hpo. apply (rspine_free _ _ Hrb x Hx). }
    assert (Hroom_l : room d l) by (unfold room; lia).
    destruct (Ll Hnt p d k2 Hadm_l Hsafe_l Hk2 Hhl Hroom_l) as (h & tl & [f1 Hf1] & Hshape & Hloop).
    exists h, (tl ++ optoks nt o ++ rtoks r o). split; [|split].
    + exists f1. rewrite etoks_mk. unfold lbare. rewrite Hnt, Hrb. cbn [orb negb ptoks]. rewrite <- !app_assoc. exact Hf1.
    + destruct (is_infix_like l).
      * destruct Hshape as (nt' & y & tl' & -> & Hy & Hpy). exists nt', y, (tl' ++ optoks nt o ++ rtoks r o).
        rewrite <- app_assoc. repeat split; [rewrite lspine_mk; right; exact Hy | exact Hpy].
      * subst tl. exists nt, o, (rtoks r o). repeat split; [rewrite lspine_mk; left; reflexivity | exact Hpo].
    + intros g res Hg.
      destruct (o_step nt o l r IH Hwf p (d + 1 + ldepth l) k Hadm Hsafe Hk Hh ltac:(lia) g res Hg) as [f Hf].
      destruct (Hloop f res Hf) as [f' Hf']. exists f'. unfold k2 in Hf'. rewrite <- !app_assoc. exact Hf'.
  - assert (Hroom_l : room (d + 1) l) by (unfold room; lia).
    destruct (El (d + 1) (TDelim DRParen :: k2) I I Hhl Hroom_l) as [f Hf].
    exists l, (optoks nt o ++ rtoks r o). split; [|split].
    + exists (S (S f)). rewrite etoks_mk, Hb. cbn [negb ptoks]. rewrite <- app_assoc. fold k2. rewrite <- app_assoc. fold k2.
      apply prim_paren; [exact Hf | apply ltb_false_of_le; lia | apply kok_nopost; exact Hk2].
    + exists nt, o, (rtoks r o). repeat split; [rewrite lspine_mk; left; reflexivity | exact Hpo].
    + intros g res Hg. change (ldepth (mk nt o l r)) with 0 in Hg. rewrite N.add_0_r in Hg. rewrite <- app_assoc.
      exact (o_step nt o l r IH Hwf p (d + 1) k Hadm Hsafe Hk Hh ltac:(lia) g res Hg).
Qed.

(* ---------- operands that are not infix expressions *)
Lemma Q_lit l : Q (ALit l).
Proof.
  intros d k _ _ _ g res Hg. exists (S g). cbn [etoks app].
  destruct l; cbn [lit_tok parse_token]; rewrite advance_eof; cbn [bind]; (eapply mono_postfixes; [|exact Hg]; lia).
Qed.
Lemma Q_ref n : Q (ARef n).
Proof.
  intros d k _ _ _ g res Hg. exists (S g). cbn [etoks app parse_token]. rewrite advance_eof. cbn [bind].
  eapply mono_postfixes; [|exact Hg]. lia.
Qed.

Lemma etoks_unary n e : is_infix_like (AUnary n e) = false ->
  etoks (AUnary n e) = TOp n :: ptoks (is_ternary e || is_infix_like e) (etoks e).
Proof.
  intros H. destruct e; try reflexivity. unfold is_infix_like, infix_like in H. cbn [etoks].
  destruct (str_eqb n s_not); [discriminate | reflexivity].
Qed.
Lemma need_unary n e : is_infix_like (AUnary n e) = false ->
  need (AUnary n e) = 1 + (if is_ternary e || is_infix_like e then need e + 1 else need e).
Proof.
  intros H. destruct e; try reflexivity. unfold is_infix_like, infix_like in H. cbn [need].
  destruct (str_eqb n s_not); [discriminate | reflexivity].
Qed.
Lemma wf_unary n e : is_infix_like (AUnary n e) = false -> wf (AUnary n e) = true -> prefixb n = true /\ wf e = true.
Proof.
  intros H W. destruct e; try (cbn [wf] in W; apply andb_prop in W; exact W).
  unfold is_infix_like, infix_like in H. cbn [wf] in W. destruct (str_eqb n s_not); [discriminate|].
  apply andb_prop in W. exact W.
Qed.

Lemma Q_unary n e : is_infix_like (AUnary n e) = false -> wf (AUnary n e) = true -> All e -> Q (AUnary n e).
Proof.
  intros NI W (Ee & Le & Qe) d k Hh Hr Hk g res Hg. specialize (Hk eq_refl).
  destruct (wf_unary n e NI W) as [Hpre Hwe]. unfold prefixb in Hpre. apply andb_prop in Hpre as [Hpre _].
  unfold room in Hr. rewrite (need_unary n e NI) in Hr. rewrite (etoks_unary n e NI).
  assert (Hhe : hgt e) by (unfold hgt in *; cbn [ast_height] in Hh; lia).
  assert (HH : (MAX_DEPTH <? ast_height (AUnary n e)) = false) by (apply ltb_false_of_le; exact Hh).
  pose proof (need_pos e) as Hne.
  assert (Hop : exists f1, pprim f1 (d + 1) (ptoks (is_ternary e || is_infix_like e) (etoks e) ++ k) = Ok (e, k)).
  { destruct (is_ternary e || is_infix_like e) eqn:Hpp; cbn [ptoks].
    - destruct (Ee (d + 1 + 1) (TDelim DRParen :: k) I I Hhe ltac:(unfold room; lia)) as [f1 Hf1].
      exists (S (S f1)). apply prim_paren; [exact Hf1 | apply ltb_false_of_le; lia | apply kok_nopost; exact Hk].
    - apply orb_false_elim in Hpp as [Hnt Hil].
      assert (Hpf : pform e = true) by (unfold pform; rewrite Hnt, Hil; reflexivity).
      apply (P_of_Q e (Qe Hpf)); [exact Hk | exact Hhe | unfold room; lia]. }
  destruct Hop as [f1 Hf1].
  remember (g + f1 + 1)%nat as F eqn:HF. exists (S F). cbn [app].
  rewrite parse_token_prefix_eq by exact Hpre. rewrite advance_eof. cbn [bind].
  unfold R in *. rewrite (mono_primary tbl tm f1 F _ _ _ ltac:(lia) Hf1). cbn [bind]. unfold built. rewrite HH. cbn [bind].
  eapply mono_postfixes; [|exact Hg]. lia.
Qed.

Lemma Q_postfix e o : wf (APostfix e o) = true -> All e -> Q (APostfix e o).
Proof.
  intros W (Ee & Le & Qe) d k Hh Hr _ g res Hg.
  cbn [wf] in W. apply andb_prop in W as [Hpo Hwe].
  unfold room in Hr. cbn [need] in Hr. cbn [etoks]. rewrite <- app_assoc. cbn [app].
  assert (Hhe : hgt e) by (unfold hgt in *; cbn [ast_height] in Hh; lia).
  assert (HH : (MAX_DEPTH <? ast_height (APostfix e o)) = false) by (apply ltb_false_of_le; exact Hh).
  pose proof (need_pos e) as Hne.
  assert (Hstep : ppost (S g) e (TOp o :: k) = Ok res).
  { rewrite postfixes_step by exact Hpo. unfold built. rewrite HH. cbn [bind]. exact Hg. }
  destruct (postfix_needs_paren e) eqn:Hpp; cbn [ptoks].
  - destruct (Ee (d + 1) (TDelim DRParen :: TOp o :: k) I I Hhe ltac:(unfold room; lia)) as [f1 Hf1].
    remember (g + f1 + 1)%nat as F eqn:HF. exists (S F). unfold paren. cbn [app]. rewrite <- app_assoc. cbn [app].
    rewrite parse_token_paren_eq, advance_eof. cbn [bind]. unfold R in *.
    rewrite (mono_expression tbl tm f1 F _ _ _ ltac:(lia) Hf1). cbn [bind].
    assert (C: cur_is (TDelim DRParen :: TOp o :: k) s_rparen = true) by reflexivity. rewrite C.
    rewrite advance_eof. cbn [bind]. eapply mono_postfixes; [|exact Hstep]. lia.
  - assert (Hpf : pform e = true /\ is_unary e = false).
    { unfold pform. destruct e; try discriminate; split; reflexivity. }
    destruct Hpf as [Hpf Hnu].
    apply (Qe Hpf d (TOp o :: k) Hhe Hr ltac:(rewrite Hnu; discriminate) (S g) res Hstep).
Qed.

(* ---------- the conditional *)
Lemma expect_colon X : expect tm (TOp s_colon :: X) s_colon = Ok X.
Proof. unfold expect. rewrite advance_eof. reflexivity. Qed.

Lemma E_ternary c a b : All c -> All a -> All b -> wf (ATernary c a b) = true -> E (ATernary c a b).
Proof.
  intros (Ec & Lc & _) (Ea & _) (Eb & _) Hwf d k Hk Hstop Hh Hroom.
  cbn [wf] in Hwf. apply andb_prop in Hwf as [Hwf Hwb]. apply andb_prop in Hwf as [Hwc Hwa].
  destruct TOK as (PQ & PC & PN & IQ & IC).
  set (ka := TOp s_colon :: etoks b ++ k). set (kc := TOp s_qmark :: etoks a ++ ka).
  assert (Hhc : hgt c) by (unfold hgt in *; cbn [ast_height] in Hh; lia).
  assert (Hha : hgt a) by (unfold hgt in *; cbn [ast_height] in Hh; lia).
  assert (Hhb : hgt b) by (unfold hgt in *; cbn [ast_height] in Hh; lia).
  assert (HH : (MAX_DEPTH <? ast_height (ATernary c a b)) = false) by (apply ltb_false_of_le; exact Hh).
  unfold room in Hroom. cbn [need] in Hroom.
  pose proof (need_pos c) as Hnc. pose proof (need_pos a) as Hna. pose proof (need_pos b) as Hnb.
  assert (Hka : kok ka). { cbn [ka kok]. split; [exact PC|]. intros N. vm_compute in N. discriminate N. }
  assert (Hsa : stops 0 ka).
  { cbn [ka stops]. change (is_not s_colon) with false. change (str_eqb s_colon s_qmark) with false. cbn iota.
    unfold binding_power. rewrite IC. cbn [fst]. lia. }
  assert (Hkc : kok kc). { cbn [kc kok]. split; [exact PQ|]. intros N. vm_compute in N. discriminate N. }
  assert (Hcont : forall D', D' + 1 + N.max (need a) (need b) <= MAX_DEPTH ->
            exists g, ploop g D' 0 c kc = Ok (ATernary c a b, k)).
  { intros D' HD'.
    destruct (Ea (D' + 1) ka Hka Hsa Hha ltac:(unfold room; lia)) as [fa Hfa].
    destruct (Eb (D' + 1) k Hk Hstop Hhb ltac:(unfold room; lia)) as [fb Hfb].
    remember (fa + fb)%nat as F eqn:HF. exists (S F). unfold kc.
    rewrite loop_question_outer by (apply ltb_false_of_le; lia). unfold R in *.
    rewrite (mono_expression tbl tm fa F _ _ _ ltac:(lia) Hfa). cbn [bind]. unfold ka. rewrite expect_colon. cbn [bind].
    rewrite (mono_expression tbl tm fb F _ _ _ ltac:(lia) Hfb). cbn [bind]. unfold built. rewrite HH. reflexivity. }
  cbn [etoks]. rewrite <- app_assoc. cbn [app]. rewrite <- app_assoc. cbn [app]. fold ka. fold kc.
  destruct (is_ternary c) eqn:Htc; cbn [ptoks].
  - destruct (Ec (d + 1) (TDelim DRParen :: kc) I I Hhc ltac:(unfold room; lia)) as [f1 Hf1].
    destruct (Hcont (d + 1) ltac:(lia)) as [f2 Hf2].
    remember (f1 + f2 + 1)%nat as F eqn:HF. exists (S (S (S F))). rewrite parse_expression_step.
    rewrite (prim_paren F d (etoks c) c kc); [| eapply mono_expression; [|exact Hf1]; lia | apply ltb_false_of_le; lia | apply kok_nopost; exact Hkc].
    cbn [bind]. rewrite parse_op_enter by (apply ltb_false_of_le; lia). eapply mono_loop; [|exact Hf2]. lia.
  - assert (Hadm : adm 0 c). { intros y Hy. destruct (plainb_plain y (lspine_wf c Hwc y Hy)). lia. }
    assert (Hsafe : absorb_safe c kc).
    { intros x Hx. destruct (plainb_plain x (rspine_wf c Hwc x Hx)) as [_ Hl]. pose proof (rbp_ge x Hl).
      cbn [kc klbp]. change (is_not s_qmark) with false. cbn iota. unfold binding_power at 1. rewrite IQ. cbn [fst]. lia. }
    destruct (Lc eq_refl 0%Z d kc Hadm Hsafe Hkc Hhc ltac:(unfold room; lia)) as (h & tl & [f1 Hf1] & _ & Hloop).
    destruct (Hcont (d + 1 + ldepth c) ltac:(lia)) as [f2 Hf2].
    destruct (Hloop f2 _ Hf2) as [f3 Hf3].
    remember (f1 + f3 + 1)%nat as F eqn:HF. exists (S (S F)). rewrite parse_expression_step.
    rewrite (mono_primary tbl tm f1 (S F) _ _ _ ltac:(lia) Hf1). cbn [bind].
    rewrite parse_op_enter by (apply ltb_false_of_le; lia). eapply mono_loop; [|exact Hf3]. lia.
Qed.

(* ---------- calls, lists, maps *)
Fixpoint sep_toks (l : list ast) : list token :=
  match l with
  | [] => []
  | x :: r => match r with [] => etoks x | _ => etoks x ++ TComma :: sep_toks r end
  end.
Fixpoint sep_map (l : list (ast * ast)) : list token :=
  match l with
  | [] => []
  | (k, v) :: r =>
      match r with
      | [] => etoks k ++ TOp s_colon :: etoks v
      | _ => etoks k ++ TOp s_colon :: etoks v ++ TComma :: sep_map r
      end
  end.
Fixpoint wfl (l : list ast) : bool := match l with [] => true | x :: r => wf x && wfl r end.
Fixpoint wfm (l : list (ast * ast)) : bool := match l with [] => true | (k, v) :: r => wf k && wf v && wfm r end.
Fixpoint needl (l : list ast) : N := match l with [] => 0 | x :: r => N.max (need x) (needl r) end.
Fixpoint needm (l : list (ast * ast)) : N := match l with [] => 0 | (k, v) :: r => N.max (N.max (need k) (need v)) (needm r) end.
Fixpoint mxl (l : list ast) : N := match l with [] => 0 | x :: r => N.max (ast_height x) (mxl r) end.
Fixpoint mxm (l : list (ast * ast)) : N := match l with [] => 0 | (k, v) :: r => N.max (N.max (ast_height k) (ast_height v)) (mxm r) end.
Fixpoint sizel (l : list ast) : nat := match l with [] => O | x :: r => (size x + sizel r)%nat end.
Fixpoint sizem (l : list (ast * ast)) : nat := match l with [] => O | (k, v) :: r => (size k + size v + sizem r)%nat end.

Lemma etoks_func n args : etoks (AFunc n args) = TFunc n :: TDelim DLParen :: sep_toks args ++ [TDelim DRParen].
Proof. reflexivity. Qed.
Lemma etoks_list es : etoks (AList es) = TDelim DLBrack :: sep_toks es ++ [TDelim DRBrack].
Proof. reflexivity. Qed.
Lemma etoks_map kvs : etoks (AMap kvs) = TDelim DLBrace :: sep_map kvs ++ [TDelim DRBrace].
Proof. reflexivity. Qed.
Lemma wf_func n args : wf (AFunc n args) = wfl args. Proof. reflexivity. Qed.
Lemma wf_list es : wf (AList es) = wfl es. Proof. reflexivity. Qed.
Lemma wf_map kvs : wf (AMap kvs) = wfm kvs. Proof. reflexivity. Qed.
Lemma need_func n args : need (AFunc n args) = 1 + needl args. Proof. reflexivity. Qed.
Lemma need_list es : need (AList es) = 1 + needl es. Proof. reflexivity. Qed.
Lemma need_map kvs : need (AMap kvs) = 1 + needm kvs. Proof. reflexivity. Qed.
Lemma height_func n args : ast_height (AFunc n args) = 1 + mxl args. Proof. reflexivity. Qed.
Lemma height_list es : ast_height (AList es) = 1 + mxl es. Proof. reflexivity. Qed.
Lemma height_map kvs : ast_height (AMap kvs) = 1 + mxm kvs. Proof. reflexivity. Qed.
Lemma size_func n args : size (AFunc n args) = S (sizel args). Proof. reflexivity. Qed.
Lemma size_list es : size (AList es) = S (sizel es). Proof. reflexivity. Qed.
Lemma size_map kvs : size (AMap kvs) = S (sizem kvs). Proof. reflexivity. Qed.

(* what an operand list element needs at depth D *)
Definition good (D : N) (x : ast) : Prop := E x /\ wf x = true /\ hgt x /\ room D x.

Lemma in_list_good D (l : list ast) :
  (forall t', (size t' <= sizel l)%nat -> wf t' = true -> All t') -> wfl l = true -> mxl l <= MAX_DEPTH -> D + needl l <= MAX_DEPTH ->
  forall x, In x l -> good D x.
Proof.
  induction l as [|y r IH]; intros HA W Hm Hn x Hx; [contradiction|].
  cbn [wfl mxl needl sizel] in *. apply andb_prop in W as [Wy Wr]. destruct Hx as [<-|Hx].
  - split; [apply HA; [lia | exact Wy] | repeat split; [exact Wy | unfold hgt; lia | unfold room; lia]].
  - apply IH; try assumption; try lia. intros t' Ht' Wt'. apply HA; [lia | exact Wt'].
Qed.

(* the first token of an expression is never a closing delimiter *)
Definition opener (t0 : token) : Prop :=
  tok_is t0 s_rparen = false /\ tok_is t0 s_rbrack = false /\ tok_is t0 s_rbrace = false.
Lemma etoks_head : forall n t, (size t < n)%nat -> wf t = true -> exists t0 rest, etoks t = t0 :: rest /\ opener t0.
Proof.
  induction n as [|n IH]; intros t Hs W; [lia|].
  destruct (is_infix_like t) eqn:Hil.
  - destruct (infix_like_inv t Hil) as (nt & o & l & r & ->). destruct (wf_mk _ _ _ _ W) as (_ & Wl & _).
    destruct (size_mk nt o l r) as [Hsl _]. rewrite etoks_mk. destruct (negb (lbare l o)); cbn [ptoks].
    + eexists; eexists; split; [reflexivity | repeat split; reflexivity].
    + destruct (IH l ltac:(lia) Wl) as (t0 & rest & -> & Ho). eexists; eexists; split; [reflexivity | exact Ho].
  - destruct t; try discriminate.
    + eexists; eexists; split; [reflexivity|]. destruct l; repeat split; reflexivity.
    + destruct (wf_unary _ _ Hil W) as [Hp _]. rewrite (etoks_unary _ _ Hil).
      eexists; eexists; split; [reflexivity|]. unfold prefixb in Hp. apply andb_prop in Hp as [_ Hc].
      apply negb_true_iff in Hc. unfold closer in Hc. apply orb_false_elim in Hc as [Hc H3]. apply orb_false_elim in Hc as [H1 H2].
      repeat split; assumption.
    + cbn [wf] in W. apply andb_prop in W as [_ W]. cbn [size] in Hs. cbn [etoks].
      destruct (postfix_needs_paren t); cbn [ptoks].
      * eexists; eexists; split; [reflexivity | repeat split; reflexivity].
      * destruct (IH t ltac:(lia) W) as (t0 & rest & -> & Ho). eexists; eexists; split; [reflexivity | exact Ho].
    + cbn [wf] in W. apply andb_prop in W as [W _]. apply andb_prop in W as [W _]. cbn [size] in Hs. cbn [etoks].
      destruct (is_ternary t1); cbn [ptoks].
      * eexists; eexists; split; [reflexivity | repeat split; reflexivity].
      * destruct (IH t1 ltac:(lia) W) as (t0 & rest & -> & Ho). eexists; eexists; split; [reflexivity | exact Ho].
    + eexists; eexists; split; [reflexivity | repeat split; reflexivity].
    + eexists; eexists; split; [reflexivity | repeat split; reflexivity].
    + eexists; eexists; split; [reflexivity | repeat split; reflexivity].
    + eexists; eexists; split; [reflexivity | repeat split; reflexivity].
Qed.
Lemma sep_head x r X : wf x = true -> exists t0 rest, sep_toks (x :: r) ++ X = t0 :: rest /\ opener t0.
Proof.
  intros W. destruct (etoks_head (S (size x)) x ltac:(lia) W) as (t0 & rest & Ht & Ho).
  cbn [sep_toks]. destruct r; rewrite Ht; eexists; eexists; (split; [reflexivity | exact Ho]).
Qed.
Lemma sepm_head k v r X : wf k = true -> exists t0 rest, sep_map ((k, v) :: r) ++ X = t0 :: rest /\ opener t0.
Proof.
  intros W. destruct (etoks_head (S (size k)) k ltac:(lia) W) as (t0 & rest & Ht & Ho).
  cbn [sep_map]. destruct r; rewrite Ht; eexists; eexists; (split; [reflexivity | exact Ho]).
Qed.

Lemma rev'_cons {A} (x : A) acc : rev' (x :: acc) = rev' acc ++ [x].
Proof. unfold rev'. rewrite <- !rev_alt. reflexivity. Qed.
Lemma rev'_rev {A} (l : list A) : rev' l = rev l.
Proof. unfold rev'. rewrite <- rev_alt. reflexivity. Qed.

Lemma expect_comma X : expect tm (TComma :: X) s_comma = Ok X.
Proof. unfold expect. rewrite advance_eof. reflexivity. Qed.

Lemma parse_args_eq f d ts acc :
  parse_args tbl tm (S f) d ts acc =
    pexpr f d ts >>= fun '(e, r) =>
    if cur_is r s_rparen then advance tm r >>= fun r1 => Ok (rev' (e :: acc), r1)
    else expect tm r s_comma >>= fun r1 => parse_args tbl tm f d r1 (e :: acc).
Proof. reflexivity. Qed.

Lemma args_ok D : forall args, args <> [] -> (forall x, In x args -> good D x) ->
  forall acc k, exists f, parse_args tbl tm f D (sep_toks args ++ TDelim DRParen :: k) acc = Ok (rev acc ++ args, k).
Proof.
  induction args as [|x r IH]; intros Hne HG acc k; [contradiction|].
  destruct (HG x (or_introl eq_refl)) as (Ex & Wx & Hx & Rx).
  destruct r as [|y r'].
  - destruct (Ex D (TDelim DRParen :: k) I I Hx Rx) as [f Hf]. exists (S f). cbn [sep_toks]. rewrite parse_args_eq.
    unfold R in *. rewrite Hf. cbn [bind]. assert (C: cur_is (TDelim DRParen :: k) s_rparen = true) by reflexivity. rewrite C.
    rewrite advance_eof. cbn [bind]. rewrite rev'_cons, rev'_rev. reflexivity.
  - destruct (Ex D (TComma :: sep_toks (y :: r') ++ TDelim DRParen :: k) I I Hx Rx) as [f1 Hf1].
    destruct (IH ltac:(discriminate) (fun z Hz => HG z (or_intror Hz)) (x :: acc) k) as [f2 Hf2].
    remember (f1 + f2)%nat as F eqn:HF. exists (S F).
    change (sep_toks (x :: y :: r')) with (etoks x ++ TComma :: sep_toks (y :: r')). rewrite <- app_assoc. cbn [app]. rewrite parse_args_eq.
    unfold R in *. rewrite (mono_expression tbl tm f1 F _ _ _ ltac:(lia) Hf1). cbn [bind].
    assert (C: cur_is (TComma :: sep_toks (y :: r') ++ TDelim DRParen :: k) s_rparen = false) by reflexivity. rewrite C.
    rewrite expect_comma. cbn [bind].
    assert (M : parse_args tbl tm F D (sep_toks (y :: r') ++ TDelim DRParen :: k) (x :: acc) = Ok (rev (x :: acc) ++ y :: r', k)).
    { rewrite <- Hf2. apply (mono_gen (fun f => parse_args tbl tm f D (sep_toks (y :: r') ++ TDelim DRParen :: k) (x :: acc)));
        [intros g; apply (proj1 (proj2 (proj2 (proj2 (parser_sim tbl tm g))))) | lia | rewrite Hf2; discriminate]. }
    rewrite M. cbn [rev]. rewrite <- app_assoc. reflexivity.
Qed.

Lemma parse_list_cons f d t0 rest acc :
  parse_list tbl tm (S f) d (t0 :: rest) acc =
    if cur_is (t0 :: rest) s_rbrack then expect tm (t0 :: rest) s_rbrack >>= fun r => Ok (rev' acc, r)
    else
      pexpr f d (t0 :: rest) >>= fun '(e, r) =>
      if cur_is r s_rbrack then parse_list tbl tm f d r (e :: acc)
      else expect tm r s_comma >>= fun r1 => parse_list tbl tm f d r1 (e :: acc).
Proof. reflexivity. Qed.
Lemma parse_map_cons f d t0 rest acc :
  parse_map tbl tm (S f) d (t0 :: rest) acc =
    if cur_is (t0 :: rest) s_rbrace then expect tm (t0 :: rest) s_rbrace >>= fun r => Ok (rev' acc, r)
    else
      pexpr f d (t0 :: rest) >>= fun '(k, r) =>
      expect tm r s_colon >>= fun r1 =>
      pexpr f d r1 >>= fun '(v, r2) =>
      if cur_is r2 s_rbrace then parse_map tbl tm f d r2 ((k, v) :: acc)
      else expect tm r2 s_comma >>= fun r3 => parse_map tbl tm f d r3 ((k, v) :: acc).
Proof. reflexivity. Qed.

Lemma list_ok D : forall es, (forall x, In x es -> good D x) ->
  forall acc k, exists f, parse_list tbl tm f D (sep_toks es ++ TDelim DRBrack :: k) acc = Ok (rev acc ++ es, k).
Proof.
  induction es as [|x r IH]; intros HG acc k.
  - exists 1%nat. cbn [sep_toks app]. rewrite parse_list_cons.
    assert (C: cur_is (TDelim DRBrack :: k) s_rbrack = true) by reflexivity. rewrite C.
    unfold expect. rewrite advance_eof. cbn [bind]. change (tok_is (TDelim DRBrack) s_rbrack) with true. cbn iota.
    rewrite rev'_rev, app_nil_r. reflexivity.
  - destruct (HG x (or_introl eq_refl)) as (Ex & Wx & Hx & Rx).
    destruct (sep_head x r (TDelim DRBrack :: k) Wx) as (t0 & rest & Hts & (_ & Hc & _)).
    destruct (IH (fun z Hz => HG z (or_intror Hz)) (x :: acc) k) as [f2 Hf2].
    assert (M : forall F, (f2 <= F)%nat -> parse_list tbl tm F D (sep_toks r ++ TDelim DRBrack :: k) (x :: acc) = Ok (rev (x :: acc) ++ r, k)).
    { intros F HF. rewrite <- Hf2. apply (mono_gen (fun f => parse_list tbl tm f D (sep_toks r ++ TDelim DRBrack :: k) (x :: acc)));
        [intros g; apply (proj1 (proj2 (proj2 (proj2 (proj2 (parser_sim tbl tm g)))))) | exact HF | rewrite Hf2; discriminate]. }
    destruct r as [|y r'].
    + destruct (Ex D (TDelim DRBrack :: k) I I Hx Rx) as [f1 Hf1].
      remember (f1 + f2)%nat as F eqn:HF. exists (S F). rewrite Hts, parse_list_cons. cbn [cur_is]. rewrite Hc. rewrite <- Hts.
      cbn [sep_toks] in *. unfold R in *. rewrite (mono_expression tbl tm f1 F _ _ _ ltac:(lia) Hf1). cbn [bind].
      assert (C: cur_is (TDelim DRBrack :: k) s_rbrack = true) by reflexivity. rewrite C.
      pose proof (M F ltac:(lia)) as MF. cbn [sep_toks app] in MF. rewrite MF. cbn [rev]. rewrite <- app_assoc. reflexivity.
    + destruct (Ex D (TComma :: sep_toks (y :: r') ++ TDelim DRBrack :: k) I I Hx Rx) as [f1 Hf1].
      remember (f1 + f2)%nat as F eqn:HF. exists (S F). rewrite Hts, parse_list_cons. cbn [cur_is]. rewrite Hc. rewrite <- Hts.
      change (sep_toks (x :: y :: r')) with (etoks x ++ TComma :: sep_toks (y :: r')). rewrite <- app_assoc. cbn [app].
      unfold R in *. rewrite (mono_expression tbl tm f1 F _ _ _ ltac:(lia) Hf1). cbn [bind].
      assert (C: cur_is (TComma :: sep_toks (y :: r') ++ TDelim DRBrack :: k) s_rbrack = false) by reflexivity. rewrite C.
      rewrite expect_comma. cbn [bind]. rewrite (M F ltac:(lia)). cbn [rev]. rewrite <- app_assoc. reflexivity.
Qed.

Lemma kok_colon X : kok (TOp s_colon :: X).
Proof. destruct TOK as (_ & PC & _). cbn [kok]. split; [exact PC|]. intros N. vm_compute in N. discriminate N. Qed.
Lemma stops_colon X : stops 0 (TOp s_colon :: X).
Proof.
  destruct TOK as (_ & _ & _ & _ & IC). cbn [stops]. change (is_not s_colon) with false. change (str_eqb s_colon s_qmark) with false.
  cbn iota. unfold binding_power. rewrite IC. cbn [fst]. lia.
Qed.

Lemma in_map_good D (l : list (ast * ast)) :
  (forall t', (size t' <= sizem l)%nat -> wf t' = true -> All t') -> wfm l = true -> mxm l <= MAX_DEPTH -> D + needm l <= MAX_DEPTH ->
  forall k v, In (k, v) l -> good D k /\ good D v.
Proof.
  induction l as [|[k0 v0] r IH]; intros HA W Hm Hn k v Hx; [contradiction|].
  cbn [wfm mxm needm sizem] in *. apply andb_prop in W as [W Wr]. apply andb_prop in W as [Wk Wv]. destruct Hx as [Hx|Hx].
  - inversion Hx; subst. split; (split; [apply HA; [lia | assumption] | repeat split; [assumption | unfold hgt; lia | unfold room; lia]]).
  - apply IH; try assumption; try lia. intros t' Ht' Wt'. apply HA; [lia | exact Wt'].
Qed.

Lemma sep_map_one k v X : sep_map [(k, v)] ++ X = etoks k ++ TOp s_colon :: etoks v ++ X.
Proof. cbn [sep_map]. rewrite <- app_assoc. reflexivity. Qed.
Lemma sep_map_more k v p r X :
  sep_map ((k, v) :: p :: r) ++ X = etoks k ++ TOp s_colon :: etoks v ++ TComma :: sep_map (p :: r) ++ X.
Proof.
  change (sep_map ((k, v) :: p :: r)) with (etoks k ++ TOp s_colon :: etoks v ++ TComma :: sep_map (p :: r)).
  rewrite <- app_assoc. cbn [app]. rewrite <- app_assoc. reflexivity.
Qed.

Lemma map_ok D : forall kvs, (forall k v, In (k, v) kvs -> good D k /\ good D v) ->
  forall acc K, exists f, parse_map tbl tm f D (sep_map kvs ++ TDelim DRBrace :: K) acc = Ok (rev acc ++ kvs, K).
Proof.
  induction kvs as [|[k v] r IH]; intros HG acc K.
  - exists 1%nat. cbn [sep_map app]. rewrite parse_map_cons.
    assert (C: cur_is (TDelim DRBrace :: K) s_rbrace = true) by reflexivity. rewrite C.
    unfold expect. rewrite advance_eof. cbn [bind]. change (tok_is (TDelim DRBrace) s_rbrace) with true. cbn iota.
    rewrite rev'_rev, app_nil_r. reflexivity.
  - destruct (HG k v (or_introl eq_refl)) as [(Ek & Wk & Hk & Rk) (Ev & Wv & Hv & Rv)].
    destruct (sepm_head k v r (TDelim DRBrace :: K) Wk) as (t0 & rest & Hts & (_ & _ & Hc)).
    destruct (IH (fun a b Hz => HG a b (or_intror Hz)) ((k, v) :: acc) K) as [f3 Hf3].
    assert (M : forall F, (f3 <= F)%nat -> parse_map tbl tm F D (sep_map r ++ TDelim DRBrace :: K) ((k, v) :: acc) = Ok (rev ((k, v) :: acc) ++ r, K)).
    { intros F HF. rewrite <- Hf3. apply (mono_gen (fun f => parse_map tbl tm f D (sep_map r ++ TDelim DRBrace :: K) ((k, v) :: acc)));
        [intros g; apply (proj1 (proj2 (proj2 (proj2 (proj2 (proj2 (parser_sim tbl tm g))))))) | exact HF | rewrite Hf3; discriminate]. }
    destruct r as [|p r'].
    + destruct (Ek D (TOp s_colon :: etoks v ++ TDelim DRBrace :: K) (kok_colon _) (stops_colon _) Hk Rk) as [f1 Hf1].
      destruct (Ev D (TDelim DRBrace :: K) I I Hv Rv) as [f2 Hf2].
      remember (f1 + f2 + f3)%nat as F eqn:HF. exists (S F). rewrite Hts, parse_map_cons. cbn [cur_is]. rewrite Hc. rewrite <- Hts.
      rewrite sep_map_one. unfold R in *. rewrite (mono_expression tbl tm f1 F _ _ _ ltac:(lia) Hf1). cbn [bind].
      rewrite expect_colon. cbn [bind]. rewrite (mono_expression tbl tm f2 F _ _ _ ltac:(lia) Hf2). cbn [bind].
      assert (C: cur_is (TDelim DRBrace :: K) s_rbrace = true) by reflexivity. rewrite C.
      pose proof (M F ltac:(lia)) as MF. cbn [sep_map app] in MF. rewrite MF. cbn [rev]. rewrite <- app_assoc. reflexivity.
    + destruct (Ek D (TOp s_colon :: etoks v ++ TComma :: sep_map (p :: r') ++ TDelim DRBrace :: K) (kok_colon _) (stops_colon _) Hk Rk) as [f1 Hf1].
      destruct (Ev D (TComma :: sep_map (p :: r') ++ TDelim DRBrace :: K) I I Hv Rv) as [f2 Hf2].
      remember (f1 + f2 + f3)%nat as F eqn:HF. exists (S F). rewrite Hts, parse_map_cons. cbn [cur_is]. rewrite Hc. rewrite <- Hts.
      rewrite sep_map_more. unfold R in *. rewrite (mono_expression tbl tm f1 F _ _ _ ltac:(lia) Hf1). cbn [bind].
      rewrite expect_colon. cbn [bind]. rewrite (mono_expression tbl tm f2 F _ _ _ ltac:(lia) Hf2). cbn [bind].
      assert (C: cur_is (TComma :: sep_map (p :: r') ++ TDelim DRBrace :: K) s_rbrace = false) by reflexivity. rewrite C.
      rewrite expect_comma. cbn [bind]. rewrite (M F ltac:(lia)). cbn [rev]. rewrite <- app_assoc. reflexivity.
Qed.

Lemma parse_token_func_eq f d n rest :
  ptoken (S f) d (TFunc n :: rest) =
    advance tm (TFunc n :: rest) >>= fun r => expect tm r s_lparen >>= fun r1 =>
    if cur_is r1 s_rparen then advance tm r1 >>= fun r2 => built (AFunc n []) r2
    else parse_args tbl tm f d r1 [] >>= fun '(args, r2) => built (AFunc n args) r2.
Proof. reflexivity. Qed.
Lemma parse_token_list_eq f d rest :
  ptoken (S f) d (TDelim DLBrack :: rest) =
    advance tm (TDelim DLBrack :: rest) >>= fun r => parse_list tbl tm f d r [] >>= fun '(es, r1) => built (AList es) r1.
Proof. reflexivity. Qed.
Lemma parse_token_map_eq f d rest :
  ptoken (S f) d (TDelim DLBrace :: rest) =
    advance tm (TDelim DLBrace :: rest) >>= fun r => parse_map tbl tm f d r [] >>= fun '(kvs, r1) => built (AMap kvs) r1.
Proof. reflexivity. Qed.
Lemma expect_lparen X : expect tm (TDelim DLParen :: X) s_lparen = Ok X.
Proof. unfold expect. rewrite advance_eof. reflexivity. Qed.

Lemma Q_func n args :
  (forall t', (size t' <= sizel args)%nat -> wf t' = true -> All t') -> wf (AFunc n args) = true -> Q (AFunc n args).
Proof.
  intros HA W d k Hh Hr _ g res Hg.
  rewrite wf_func in W. unfold room in Hr. rewrite need_func in Hr.
  assert (HH : (MAX_DEPTH <? ast_height (AFunc n args)) = false) by (apply ltb_false_of_le; exact Hh).
  unfold hgt in Hh. rewrite height_func in Hh.
  rewrite etoks_func. cbn [app]. rewrite <- app_assoc. cbn [app].
  destruct args as [|x r].
  - exists (S g). cbn [sep_toks app]. rewrite parse_token_func_eq, advance_eof. cbn [bind]. rewrite expect_lparen. cbn [bind].
    assert (C: cur_is (TDelim DRParen :: k) s_rparen = true) by reflexivity. rewrite C. rewrite advance_eof. cbn [bind].
    unfold built. rewrite HH. cbn [bind]. eapply mono_postfixes; [|exact Hg]. lia.
  - pose proof (in_list_good (d + 1) (x :: r) HA W ltac:(lia) ltac:(lia)) as HG.
    destruct (args_ok (d + 1) (x :: r) ltac:(discriminate) HG [] k) as [f1 Hf1]. cbn [rev app] in Hf1.
    cbn [wfl] in W. apply andb_prop in W as [Wx _].
    destruct (sep_head x r (TDelim DRParen :: k) Wx) as (t0 & rest & Hts & (Hc & _ & _)).
    remember (g + f1)%nat as F eqn:HF. exists (S F). rewrite parse_token_func_eq, advance_eof. cbn [bind]. rewrite expect_lparen. cbn [bind].
    rewrite Hts. cbn [cur_is]. rewrite Hc. rewrite <- Hts.
    assert (M : parse_args tbl tm F (d + 1) (sep_toks (x :: r) ++ TDelim DRParen :: k) [] = Ok (x :: r, k)).
    { rewrite <- Hf1. apply (mono_gen (fun f => parse_args tbl tm f (d + 1) (sep_toks (x :: r) ++ TDelim DRParen :: k) []));
        [intros g0; apply (proj1 (proj2 (proj2 (proj2 (parser_sim tbl tm g0))))) | lia | rewrite Hf1; discriminate]. }
    rewrite M. cbn [bind]. unfold built. rewrite HH. cbn [bind]. eapply mono_postfixes; [|exact Hg]. lia.
Qed.

Lemma Q_list es :
  (forall t', (size t' <= sizel es)%nat -> wf t' = true -> All t') -> wf (AList es) = true -> Q (AList es).
Proof.
  intros HA W d k Hh Hr _ g res Hg.
  rewrite wf_list in W. unfold room in Hr. rewrite need_list in Hr.
  assert (HH : (MAX_DEPTH <? ast_height (AList es)) = false) by (apply ltb_false_of_le; exact Hh).
  unfold hgt in Hh. rewrite height_list in Hh.
  rewrite etoks_list. cbn [app]. rewrite <- app_assoc. cbn [app].
  pose proof (in_list_good (d + 1) es HA W ltac:(lia) ltac:(lia)) as HG.
  destruct (list_ok (d + 1) es HG [] k) as [f1 Hf1]. cbn [rev app] in Hf1.
  remember (g + f1)%nat as F eqn:HF. exists (S F). rewrite parse_token_list_eq, advance_eof. cbn [bind].
  assert (M : parse_list tbl tm F (d + 1) (sep_toks es ++ TDelim DRBrack :: k) [] = Ok (es, k)).
  { rewrite <- Hf1. apply (mono_gen (fun f => parse_list tbl tm f (d + 1) (sep_toks es ++ TDelim DRBrack :: k) []));
      [intros g0; apply (proj1 (proj2 (proj2 (proj2 (proj2 (parser_sim tbl tm g0)))))) | lia | rewrite Hf1; discriminate]. }
  rewrite M. cbn [bind]. unfold built. rewrite HH. cbn [bind]. eapply mono_postfixes; [|exact Hg]. lia.
Qed.

Lemma Q_map kvs :
  (forall t', (size t' <= sizem kvs)%nat -> wf t' = true -> All t') -> wf (AMap kvs) = true -> Q (AMap kvs).
Proof.
  intros HA W d k Hh Hr _ g res Hg.
  rewrite wf_map in W. unfold room in Hr. rewrite need_map in Hr.
  assert (HH : (MAX_DEPTH <? ast_height (AMap kvs)) = false) by (apply ltb_false_of_le; exact Hh).
  unfold hgt in Hh. rewrite height_map in Hh.
  rewrite etoks_map. cbn [app]. rewrite <- app_assoc. cbn [app].
  pose proof (in_map_good (d + 1) kvs HA W ltac:(lia) ltac:(lia)) as HG.
  destruct (map_ok (d + 1) kvs HG [] k) as [f1 Hf1]. cbn [rev app] in Hf1.
  remember (g + f1)%nat as F eqn:HF. exists (S F). rewrite parse_token_map_eq, advance_eof. cbn [bind].
  assert (M : parse_map tbl tm F (d + 1) (sep_map kvs ++ TDelim DRBrace :: k) [] = Ok (kvs, k)).
  { rewrite <- Hf1. apply (mono_gen (fun f => parse_map tbl tm f (d + 1) (sep_map kvs ++ TDelim DRBrace :: k) []));
      [intros g0; apply (proj1 (proj2 (proj2 (proj2 (proj2 (proj2 (parser_sim tbl tm g0))))))) | lia | rewrite Hf1; discriminate]. }
  rewrite M. cbn [bind]. unfold built. rewrite HH. cbn [bind]. eapply mono_postfixes; [|exact Hg]. lia.
Qed.

(* ---------- everything together *)
Lemma main : forall n t, (size t < n)%nat -> wf t = true -> All t.
Proof.
  induction n as [|n IHn]; intros t Hs W; [lia|].
  assert (IH : forall t', (size t' < size t)%nat -> wf t' = true -> All t') by (intros t' Ht' Wt'; apply IHn; [lia | exact Wt']).
  assert (HQ : pform t = true -> Q t).
  { intros Hpf. destruct t; try discriminate Hpf; try discriminate W.
    - apply Q_lit.
    - unfold pform in Hpf. apply andb_prop in Hpf as [_ Hil]. apply negb_true_iff in Hil.
      apply Q_unary; [exact Hil | exact W |]. destruct (wf_unary _ _ Hil W) as [_ We]. apply IH; [cbn [size]; lia | exact We].
    - apply Q_postfix; [exact W|]. cbn [wf] in W. apply andb_prop in W as [_ We]. apply IH; [cbn [size]; lia | exact We].
    - apply Q_ref.
    - apply Q_func; [|exact W]. intros t' Ht' Wt'. apply IH; [rewrite size_func; lia | exact Wt'].
    - apply Q_list; [|exact W]. intros t' Ht' Wt'. apply IH; [rewrite size_list; lia | exact Wt'].
    - apply Q_map; [|exact W]. intros t' Ht' Wt'. apply IH; [rewrite size_map; lia | exact Wt']. }
  assert (HL : is_ternary t = false -> Loop t).
  { intros Hnt. destruct (is_infix_like t) eqn:Hil.
    - destruct (infix_like_inv t Hil) as (nt & o & l & r & ->). apply Loop_infix; [exact IH | exact W].
    - apply Loop_of_P; [exact Hil|]. apply P_of_Q. apply HQ. unfold pform. rewrite Hnt, Hil. reflexivity. }
  split; [|split; assumption].
  destruct (is_ternary t) eqn:Hnt.
  - destruct t; try discriminate Hnt. pose proof W as W0. cbn [wf] in W. apply andb_prop in W as [W Wb]. apply andb_prop in W as [Wc Wa].
    apply E_ternary; [apply IH | apply IH | apply IH | exact W0]; try assumption; cbn [size]; lia.
  - apply E_of_Loop; [exact W | apply HL; reflexivity].
Qed.

Theorem parse_etoks_expr : forall t d, wf t = true -> hgt t -> room d t ->
  exists f, pexpr f d (etoks t) = Ok (t, []).
Proof.
  intros t d W Hh Hr. destruct (main (S (size t)) t ltac:(lia) W) as [Et _].
  destruct (Et d [] I I Hh Hr) as [f Hf]. exists f. rewrite app_nil_r in Hf. exact Hf.
Qed.
End RT.

(** the same at the level of the whole parse (Parser::new + parse_stmt with the model's own fuel) *)
Section Top.
Variable tbl : optable.
Hypothesis TOK : tbl_ok tbl.

Theorem parse_etoks0 : forall t, wf tbl t = true -> hgt t -> room0 tbl 0 t ->
  parse_tokens tbl TmEof (etoks0 tbl t) = Ok t.
Proof.
  intros t W Hh Hr. destruct (parse_etoks_expr tbl TOK t 0 W Hh Hr) as [f Hf'].
  destruct (etoks_head tbl (S (size t)) t ltac:(lia) W) as (t0 & ts & Eu & _).
  unfold parse_tokens. rewrite Eu. rewrite <- Eu.
  set (F := parse_fuel (etoks0 tbl t)).
  assert (HF : exists F', F = S F' /\ (4 * length (etoks0 tbl t) + 4 <= F')%nat).
  { unfold F, parse_fuel. exists (4 * length (etoks0 tbl t) + 15)%nat. lia. }
  destruct HF as (F' & -> & HF').
  assert (Hx : parse_expression tbl TmEof F' 0 (etoks0 tbl t) = Ok (t, [])).
  { pose proof (proj1 (parser_nf tbl TmEof ltac:(discriminate) F') 0 (etoks0 tbl t) HF') as NF. unfold nf in NF.
    destruct (Nat.le_ge_cases f F') as [Hle|Hle].
    - eapply mono_expression; [exact Hle | exact Hf'].
    - rewrite <- Hf'. symmetry.
      apply (mono_gen (fun g => parse_expression tbl TmEof g 0 (etoks0 tbl t))); [|exact Hle|exact NF].
      intros g. apply (proj1 (parser_sim tbl TmEof g)). }
  rewrite Eu at 1. cbn [parse_stmt_loop]. rewrite <- Eu. rewrite Hx. cbn [bind].
  destruct F' as [|F'']; [lia|]. reflexivity.
Qed.

End Top.

(** From tokens to text: two computable checks make the theorem speak about strings.
    [premises] are the hypotheses of [parse_etoks]; [printer_tokens] says that the tokenizer model turns the printer model's
    text for [t] into exactly [etoks t]. The correspondence run evaluates both on every tree it meets (so a printer or
    tokenizer change that separates the text from [etoks] is seen), and when both hold the round trip through TEXT follows. *)
Lemma tbl_okb_ok tbl : tbl_okb tbl = true -> tbl_ok tbl.
Proof.
  unfold tbl_okb, tbl_ok. intros H.
  apply andb_prop in H as [H H5]. apply andb_prop in H as [H H4]. apply andb_prop in H as [H H3]. apply andb_prop in H as [H1 H2].
  apply negb_true_iff in H1, H2, H3.
  destruct (infix_cfg_of tbl s_qmark); [discriminate|]. destruct (infix_cfg_of tbl s_colon); [discriminate|].
  repeat split; assumption.
Qed.
Lemma tok_eqb_eq a b : tok_eqb a b = true -> a = b.
Proof.
  destruct a, b; cbn [tok_eqb]; intros H; try discriminate; try reflexivity;
    try (apply str_eqb_eq in H; subst; reflexivity).
  - destruct d, d0; try discriminate; reflexivity.
  - unfold dec_eqb in H. apply andb_prop in H as [H H3]. apply andb_prop in H as [H1 H2].
    apply Bool.eqb_prop in H1. apply N.eqb_eq in H2, H3. destruct d, d0. cbn in *. subst. reflexivity.
  - apply Bool.eqb_prop in H. subst. reflexivity.
Qed.
Lemma toks_eqb_eq : forall a b, toks_eqb a b = true -> a = b.
Proof.
  induction a as [|x a IH]; destruct b as [|y b]; cbn [toks_eqb]; intros H; try discriminate; [reflexivity|].
  apply andb_prop in H as [H1 H2]. apply tok_eqb_eq in H1. apply IH in H2. subst. reflexivity.
Qed.
