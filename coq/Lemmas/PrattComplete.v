(** The converse of PrattParen.parse_toks, as far as C12 needs it: every tree the parser returns has a spelling [p] that the
    grammar accepts ([wfp p], [strip p] = the tree) and whose nesting is within what the parser had left ([d + pneed p <=
    MAX_DEPTH]) - for every token list and every table in which `?`, `:` and `not` are not infix operators, no postfix operator
    is also an infix operator, no prefix operator is spelled like a closing delimiter and precedences are positive. With
    LeastNesting.accepted_spelling_rendering_reparses: what the parser accepts, the printer's rendering of its tree is accepted
    too, and parses back to it. *)
From EE Require Import Chars OpTable Decimal Token Lexer Ast Parser Printer Api Ptree Etoks Utf8 ParserFuel ParserMono ParserSteps ParserHeight PrattFull PrattParen RoundTrip LeastNesting Grammar.
Open Scope N_scope.

Ltac bind_inv H :=
  match type of H with
  | bind ?x _ = Ok _ =>
      let E := fresh "E" in destruct x as [?v| | |] eqn:E; cbn [bind] in H; [|discriminate H|discriminate H|discriminate H]
  end.

Section PC.
Variable tbl : optable.
Hypothesis TOK : tbl_ok tbl.
Hypothesis POS : tbl_pos tbl.
Hypothesis NOT_INFIX : infix_cfg_of tbl s_not = None.
Hypothesis NO_DUAL : forall o, is_postfix tbl o = true -> infix_cfg_of tbl o = None.
Hypothesis PREFIX_OK : forall o, is_prefix tbl o = true -> closer o = false.

Notation tm := TmEof.
Notation lbp o := (fst (binding_power tbl o)).
Notation rbp o := (snd (binding_power tbl o)).
Notation pexpr := (parse_expression tbl tm).
Notation pprim := (parse_primary tbl tm).
Notation ptoken := (parse_token tbl tm).
Notation pop := (parse_op tbl tm).
Notation ploop := (parse_op_loop tbl tm).
Notation ppost := (parse_postfixes tbl tm).
Notation wfp := (PrattParen.wfp tbl).
Notation wfpl := (PrattParen.wfpl tbl).
Notation wfpm := (PrattParen.wfpm tbl).
Notation klbp := (PrattFull.klbp tbl).
Notation nopost := (no_postfix_head tbl).
Notation padm := (PrattParen.padm tbl).
Notation pabsorb := (PrattParen.pabsorb tbl).

Definition good (d : N) (p : ptree) (t : ast) : Prop := strip p = t /\ wfp p = true /\ d + pneed p <= MAX_DEPTH.
Definition goodl (d : N) (ps : list ptree) (l : list ast) : Prop := stripl ps = l /\ wfpl ps = true /\ d + pneedl ps <= MAX_DEPTH.
Definition goodm (d : N) (ps : list (ptree * ptree)) (l : list (ast * ast)) : Prop :=
  stripm ps = l /\ wfpm ps = true /\ d + pneedm ps <= MAX_DEPTH.

(* ---------- binding powers: l_bp is even (or -1), r_bp of a registered operator is odd *)
Lemma lbp_shape y : lbp y = (-1)%Z \/ exists k, lbp y = (2 * k)%Z.
Proof. unfold binding_power. destruct (infix_cfg_of tbl y) as [c|]; cbn [fst]; [right; exists (ic_prec c); lia | left; reflexivity]. Qed.
Lemma rbp_shape o : (0 <= lbp o)%Z -> (1 <= rbp o)%Z /\ exists k, rbp o = (2 * k + 1)%Z.
Proof.
  unfold binding_power. destruct (infix_cfg_of tbl o) as [c|] eqn:E; cbn [fst snd]; [|lia].
  pose proof (POS o c E). intros _. destruct (ic_right c); split; try lia; [exists (ic_prec c - 1)%Z | exists (ic_prec c)]; lia.
Qed.
Lemma lbp_pos_reg o : (0 <= lbp o)%Z -> (2 <= lbp o)%Z.
Proof. unfold binding_power. destruct (infix_cfg_of tbl o) as [c|] eqn:E; cbn [fst]; [pose proof (POS o c E); lia | lia]. Qed.
Lemma le_rbp_strict (a : Z) o : (a = (-1)%Z \/ exists k, a = (2 * k)%Z) -> (0 <= lbp o)%Z -> (a <= rbp o)%Z -> (a < rbp o)%Z.
Proof. intros [->|[k ->]] Ho H; destruct (rbp_shape o Ho) as [H1 [j Hj]]; lia. Qed.
Lemma rbp_le_lbp_strict o y : (0 <= lbp o)%Z -> (rbp o <= lbp y)%Z -> (rbp o < lbp y)%Z.
Proof. intros Ho H. destruct (rbp_shape o Ho) as [H1 [j Hj]]. destruct (lbp_shape y) as [E|[k E]]; lia. Qed.

Lemma klbp_shape ts : klbp ts = (-1)%Z \/ exists k, klbp ts = (2 * k)%Z.
Proof.
  destruct ts as [|[] rest]; cbn [PrattFull.klbp]; try (left; reflexivity).
  destruct (is_not s); [|apply lbp_shape].
  destruct rest as [|[] r2]; cbn [hd_error tok_prec fst]; try (left; reflexivity). apply lbp_shape.
Qed.

(* ---------- lists of ptrees *)
Lemma stripl_app a b : stripl (a ++ b) = stripl a ++ stripl b.
Proof. induction a as [|x r IH]; [reflexivity|]. cbn [app stripl]. rewrite IH. reflexivity. Qed.
Lemma wfpl_app a b : wfpl (a ++ b) = wfpl a && wfpl b.
Proof. induction a as [|x r IH]; [reflexivity|]. cbn [app PrattParen.wfpl]. rewrite IH, andb_assoc. reflexivity. Qed.
Lemma pneedl_app a b : pneedl (a ++ b) = N.max (pneedl a) (pneedl b).
Proof. induction a as [|x r IH]; [cbn; lia|]. cbn [app pneedl]. rewrite IH. lia. Qed.
Lemma stripm_app a b : stripm (a ++ b) = stripm a ++ stripm b.
Proof. induction a as [|[k v] r IH]; [reflexivity|]. cbn [app stripm]. rewrite IH. reflexivity. Qed.
Lemma wfpm_app a b : wfpm (a ++ b) = wfpm a && wfpm b.
Proof. induction a as [|[k v] r IH]; [reflexivity|]. cbn [app PrattParen.wfpm]. rewrite IH, !andb_assoc. reflexivity. Qed.
Lemma pneedm_app a b : pneedm (a ++ b) = N.max (pneedm a) (pneedm b).
Proof. induction a as [|[k v] r IH]; [cbn; lia|]. cbn [app pneedm]. rewrite IH. lia. Qed.

Lemma goodl_snoc d ps l p t : goodl d ps l -> good d p t -> goodl d (ps ++ [p]) (l ++ [t]).
Proof.
  intros (A1 & A2 & A3) (B1 & B2 & B3). unfold goodl. rewrite stripl_app, wfpl_app, pneedl_app.
  cbn [stripl PrattParen.wfpl pneedl]. rewrite A1, A2, B1, B2. repeat split. lia.
Qed.
Lemma goodm_snoc d ps l pk k pv v : goodm d ps l -> good d pk k -> good d pv v -> goodm d (ps ++ [(pk, pv)]) (l ++ [(k, v)]).
Proof.
  intros (A1 & A2 & A3) (B1 & B2 & B3) (C1 & C2 & C3). unfold goodm. rewrite stripm_app, wfpm_app, pneedm_app.
  cbn [stripm PrattParen.wfpm pneedm]. rewrite A1, A2, B1, B2, C1, C2. repeat split. lia.
Qed.

(* ---------- postfix operators *)
Lemma post_complete : forall f lhs ts t r, ppost f lhs ts = Ok (t, r) ->
  forall d pl, good d pl lhs -> ppform pl = true -> (is_pun pl = true -> nopost ts) ->
  exists p, good d p t /\ ppform p = true /\ nopost r.
Proof.
  induction f as [|f IH]; intros lhs ts t r H d pl G PF PU; [discriminate|]. cbn [parse_postfixes] in H.
  assert (Stop : Ok (lhs, ts) = Ok (t, r) -> nopost ts -> exists p, good d p t /\ ppform p = true /\ nopost r).
  { intros E N. inversion E; subst. exists pl. auto. }
  destruct ts as [|tk rest]; [apply Stop; [exact H | exact I]|].
  destruct tk; try (apply Stop; [exact H | exact I]).
  destruct (is_postfix tbl s) eqn:P; [|apply Stop; [exact H | exact P]].
  rewrite advance_tl in H. cbn [bind tl] in H.
  destruct (built (APostfix lhs s) rest) as [[e ts3]| | |] eqn:B; cbn [bind] in H; try discriminate.
  apply built_inv in B as [-> ->].
  assert (NU : is_pun pl = false).
  { destruct (is_pun pl) eqn:U; [|reflexivity]. specialize (PU eq_refl). cbn in PU. congruence. }
  destruct G as (G1 & G2 & G3).
  apply (IH _ _ _ _ H d (PPost pl s)); [| reflexivity | discriminate].
  unfold good. cbn [strip PrattParen.wfp pneed]. rewrite G1, G2, P, PF, NU. repeat split. exact G3.
Qed.

(* ---------- the invariants, by induction on the fuel *)
Definition all_complete (f : nat) : Prop :=
  (forall d ts t r, pexpr f d ts = Ok (t, r) -> exists p, good d p t /\ nopost r) /\
  (forall d ts t r, pprim f d ts = Ok (t, r) -> exists p, good d p t /\ ppform p = true /\ nopost r) /\
  (forall d ts t r, ptoken f (d + 1) ts = Ok (t, r) -> d + 1 <= MAX_DEPTH ->
     exists p, good d p t /\ ppform p = true /\ (is_pun p = true -> nopost r)) /\
  (forall d ts acc res r, parse_args tbl tm f d ts acc = Ok (res, r) -> forall pacc, goodl d pacc (rev acc) ->
     exists ps, goodl d ps res) /\
  (forall d ts acc res r, parse_list tbl tm f d ts acc = Ok (res, r) -> forall pacc, goodl d pacc (rev acc) ->
     exists ps, goodl d ps res) /\
  (forall d ts acc res r, parse_map tbl tm f d ts acc = Ok (res, r) -> forall pacc, goodm d pacc (rev acc) ->
     exists ps, goodm d ps res) /\
  (forall d prec lhs ts t r, pop f d prec lhs ts = Ok (t, r) -> (0 <= prec)%Z ->
     forall pl, good d pl lhs -> ppform pl = true -> nopost ts ->
     exists p, good d p t /\ nopost r /\
       ((0 < prec)%Z -> is_ptern p = false /\ padm prec p /\ pabsorb p r /\ (klbp r < prec)%Z)) /\
  (forall d prec lhs ts t r, ploop f (d + 1) prec lhs ts = Ok (t, r) -> (0 <= prec)%Z ->
     forall pl, good d pl lhs -> is_ptern pl = false -> nopost ts -> padm prec pl -> pabsorb pl ts ->
     exists p, good d p t /\ nopost r /\
       ((0 < prec)%Z -> is_ptern p = false /\ padm prec p /\ pabsorb p r /\ (klbp r < prec)%Z)).

Lemma ppform_spines p : ppform p = true -> is_ptern p = false /\ plspine p = [] /\ prspine p = [].
Proof.
  unfold ppform. intros H. apply andb_prop in H as [H1 H2]. apply negb_true_iff in H1, H2.
  destruct p; try discriminate; repeat split; reflexivity.
Qed.

Lemma complete_step f : all_complete f -> all_complete (S f).
Proof.
  intros (I1 & I2 & I3 & I4 & I5 & I6 & I7 & I8). unfold all_complete. repeat split.
  - (* parse_expression *)
    intros d ts t r H. rewrite parse_expression_step in H. bind_inv H. destruct v as [lhs ts1].
    destruct (I2 _ _ _ _ E) as (pl & Gl & PF & NP).
    destruct (I7 d 0%Z lhs ts1 _ _ H ltac:(lia) pl Gl PF NP) as (p & Gp & NPr & _). exists p. split; assumption.
  - (* parse_primary *)
    intros d ts t r H. rewrite parse_primary_eq in H. destruct (MAX_DEPTH <? d + 1) eqn:D; [discriminate|].
    apply N.ltb_ge in D. bind_inv H. destruct v as [lhs ts1].
    destruct (I3 _ _ _ _ E D) as (pl & Gl & PF & PU).
    exact (post_complete _ _ _ _ _ H d pl Gl PF PU).
  - (* parse_token *)
    intros d ts t r H D. rewrite parse_token_eq in H. destruct ts as [|tk rest]; [discriminate|].
    destruct tk as [op|dl|num| |bv|sv|nm|fn| ]; try discriminate.
    + (* operator: a prefix operator *)
      destruct (is_prefix tbl op) eqn:P; [|discriminate]. rewrite advance_tl in H. cbn [bind tl] in H.
      bind_inv H. destruct v as [e r1]. apply built_inv in H as [-> ->].
      destruct (I2 _ _ _ _ E) as (pe & (G1 & G2 & G3) & PF & NP).
      exists (PUn op pe). split; [|split; [reflexivity | intros _; exact NP]].
      unfold good. cbn [strip PrattParen.wfp pneed]. unfold prefixb. rewrite G1, G2, P, PF, (PREFIX_OK op P). repeat split. lia.
    + (* delimiter *)
      destruct dl; try discriminate.
      * (* parenthesis *)
        rewrite advance_tl in H. cbn [bind tl] in H. bind_inv H. destruct v as [e r1].
        destruct (cur_is r1 s_rparen); [|discriminate]. rewrite advance_tl in H. cbn [bind] in H. inversion H; subst.
        destruct (I1 _ _ _ _ E) as (q & (G1 & G2 & G3) & _).
        exists (PParen q). split; [|split; [reflexivity | discriminate]].
        unfold good. cbn [strip PrattParen.wfp pneed]. repeat split; try assumption. lia.
      * (* list *)
        rewrite advance_tl in H. cbn [bind tl] in H. bind_inv H. destruct v as [es r1]. apply built_inv in H as [-> ->].
        destruct (I5 _ _ _ _ _ E [] ltac:(repeat split; cbn; lia)) as (ps & G1 & G2 & G3).
        exists (PList ps). split; [|split; [reflexivity | discriminate]].
        unfold good. rewrite strip_list, wfp_list, pneed_list, G1, G2. repeat split. lia.
      * (* map *)
        rewrite advance_tl in H. cbn [bind tl] in H. bind_inv H. destruct v as [kvs r1]. apply built_inv in H as [-> ->].
        destruct (I6 _ _ _ _ _ E [] ltac:(repeat split; cbn; lia)) as (ps & G1 & G2 & G3).
        exists (PMap ps). split; [|split; [reflexivity | discriminate]].
        unfold good. rewrite strip_map, wfp_map, pneed_map, G1, G2. repeat split. lia.
    + (* number *) rewrite advance_tl in H. cbn [bind] in H. inversion H; subst.
      exists (PLit (LNum num)). split; [|split; [reflexivity | discriminate]]. unfold good. cbn. repeat split. lia.
    + (* bool *) rewrite advance_tl in H. cbn [bind] in H. inversion H; subst.
      exists (PLit (LBool bv)). split; [|split; [reflexivity | discriminate]]. unfold good. cbn. repeat split. lia.
    + (* string *) rewrite advance_tl in H. cbn [bind] in H. inversion H; subst.
      exists (PLit (LStr sv)). split; [|split; [reflexivity | discriminate]]. unfold good. cbn. repeat split. lia.
    + (* name *) rewrite advance_tl in H. cbn [bind] in H. inversion H; subst.
      exists (PRef nm). split; [|split; [reflexivity | discriminate]]. unfold good. cbn. repeat split. lia.
    + (* call *)
      rewrite advance_tl in H. cbn [bind tl] in H. bind_inv H.
      destruct (cur_is v s_rparen).
      * rewrite advance_tl in H. cbn [bind] in H. apply built_inv in H as [-> ->].
        exists (PFunc fn []). split; [|split; [reflexivity | discriminate]]. unfold good. cbn. repeat split. lia.
      * bind_inv H. destruct v0 as [args r2]. apply built_inv in H as [-> ->].
        destruct (I4 _ _ _ _ _ E0 [] ltac:(repeat split; cbn; lia)) as (ps & G1 & G2 & G3).
        exists (PFunc fn ps). split; [|split; [reflexivity | discriminate]].
        unfold good. rewrite strip_func, wfp_func, pneed_func, G1, G2. repeat split. lia.
  - (* parse_args *)
    intros d ts acc res r H pacc GA. rewrite parse_args_eq in H. bind_inv H. destruct v as [e r0].
    destruct (I1 _ _ _ _ E) as (p & Gp & _).
    pose proof (goodl_snoc d pacc (rev acc) p e GA Gp) as GS.
    destruct (cur_is r0 s_rparen).
    + rewrite advance_tl in H. cbn [bind] in H. inversion H; subst. rewrite Grammar.rev'_rev. cbn [rev]. exists (pacc ++ [p]). exact GS.
    + bind_inv H. apply (I4 _ _ _ _ _ H (pacc ++ [p])). cbn [rev]. exact GS.
  - (* parse_list *)
    intros d ts acc res r H pacc GA. rewrite parse_list_eq in H.
    assert (Close : forall x, (expect tm x s_rbrack >>= fun r => Ok (rev' acc, r)) = Ok (res, r) -> exists ps, goodl d ps res).
    { intros x Hx. bind_inv Hx. inversion Hx; subst. rewrite Grammar.rev'_rev. exists pacc. exact GA. }
    destruct ts as [|t0 rest]; [exact (Close _ H)|].
    destruct (cur_is (t0 :: rest) s_rbrack); [exact (Close _ H)|].
    bind_inv H. destruct v as [e r0]. destruct (I1 _ _ _ _ E) as (p & Gp & _).
    pose proof (goodl_snoc d pacc (rev acc) p e GA Gp) as GS.
    destruct (cur_is r0 s_rbrack).
    + apply (I5 _ _ _ _ _ H (pacc ++ [p])). cbn [rev]. exact GS.
    + bind_inv H. apply (I5 _ _ _ _ _ H (pacc ++ [p])). cbn [rev]. exact GS.
  - (* parse_map *)
    intros d ts acc res r H pacc GA. rewrite parse_map_eq in H.
    assert (Close : forall x, (expect tm x s_rbrace >>= fun r => Ok (rev' acc, r)) = Ok (res, r) -> exists ps, goodm d ps res).
    { intros x Hx. bind_inv Hx. inversion Hx; subst. rewrite Grammar.rev'_rev. exists pacc. exact GA. }
    destruct ts as [|t0 rest]; [exact (Close _ H)|].
    destruct (cur_is (t0 :: rest) s_rbrace); [exact (Close _ H)|].
    bind_inv H. destruct v as [k r0]. destruct (I1 _ _ _ _ E) as (pk & Gk & _).
    bind_inv H. bind_inv H. destruct v0 as [vv r2]. destruct (I1 _ _ _ _ E1) as (pv & Gv & _).
    pose proof (goodm_snoc d pacc (rev acc) pk k pv vv GA Gk Gv) as GS.
    destruct (cur_is r2 s_rbrace).
    + apply (I6 _ _ _ _ _ H (pacc ++ [(pk, pv)])). cbn [rev]. exact GS.
    + bind_inv H. apply (I6 _ _ _ _ _ H (pacc ++ [(pk, pv)])). cbn [rev]. exact GS.
  - (* parse_op *)
    intros d prec lhs ts t r H Hp pl Gl PF NP. cbn [parse_op] in H. destruct (MAX_DEPTH <? d + 1); [discriminate|].
    destruct (ppform_spines pl PF) as (T & LS & RSp).
    apply (I8 d prec lhs ts t r H Hp pl Gl T NP).
    + intros y Hy. rewrite LS in Hy. destruct Hy.
    + intros x Hx. rewrite RSp in Hx. destruct Hx.
  - (* parse_op_loop *)
    intros d prec lhs ts t r H Hp pl Gl T NP ADM ABS. rewrite parse_op_loop_eq in H. cbn zeta in H.
    assert (Stop : Ok (lhs, ts) = Ok (t, r) -> (klbp ts < prec)%Z \/ (prec <= 0)%Z ->
              exists p, good d p t /\ nopost r /\ ((0 < prec)%Z -> is_ptern p = false /\ padm prec p /\ pabsorb p r /\ (klbp r < prec)%Z)).
    { intros E K. inversion E; subst. exists pl. split; [exact Gl|]. split; [exact NP|]. intros P0. repeat split; try assumption. lia. }
    destruct ts as [|tk rest]; [apply Stop; [exact H | left; cbn; lia]|].
    destruct tk; try (apply Stop; [exact H | left; cbn; lia]).
    cbn in NP.
    (* the common tail: the node's operator o (shown as [TOp o] or [not; o]), operand parsed from rest2 *)
    assert (Tail : forall (nt : bool) o rest2,
              (0 <= lbp o)%Z -> (prec <= lbp o)%Z -> klbp (TOp s :: rest) = lbp o -> Etoks.plainb tbl o = true ->
              (pprim f (d + 1) rest2 >>= fun '(rhs, ts3) =>
               (if cur_is_not ts3 then next_prec tbl tm ts3 else Ok (cur_prec tbl ts3)) >>= fun '(cur_l_bp, _) =>
               (if (rbp o <? cur_l_bp)%Z then pop f (d + 1) (rbp o) rhs ts3 else Ok (rhs, ts3)) >>= fun '(rhs', ts4) =>
               built (mk nt o lhs rhs') ts4 >>= fun '(node'', ts5) => ploop f (d + 1) prec node'' ts5) = Ok (t, r) ->
              exists p, good d p t /\ nopost r /\ ((0 < prec)%Z -> is_ptern p = false /\ padm prec p /\ pabsorb p r /\ (klbp r < prec)%Z)).
    { intros nt o rest2 Ho Hpo Hk PL HT.
      destruct (rbp_shape o Ho) as [Hr1 _].
      bind_inv HT. destruct v as [rhs ts3]. destruct (I2 _ _ _ _ E) as (prhs & Grhs & PFr & NP3).
      bind_inv HT. destruct v as [cl0 cr0].
      assert (Hcl : cl0 = klbp ts3).
      { assert (F : forall (x : Z * Z), Ok x = Ok (cl0, cr0) -> cl0 = fst x) by (intros x Hx; inversion Hx; reflexivity).
        destruct ts3 as [|tk3 r3]; [exact (F _ E0)|].
        destruct tk3; try exact (F _ E0).
        cbn [cur_is_not] in E0. cbn [PrattFull.klbp]. destruct (is_not s0); [|exact (F _ E0)].
        unfold next_prec, peek_tok in E0. destruct r3 as [|t3 r4]; cbn [bind] in E0; exact (F _ E0). }
      bind_inv HT. destruct v as [rhs' ts4].
      assert (HR : exists pr, good (d + 1) pr rhs' /\ nopost ts4 /\ is_ptern pr = false /\ padm (rbp o) pr /\ pabsorb pr ts4 /\ (klbp ts4 <= rbp o)%Z).
      { destruct (rbp o <? cl0)%Z eqn:Gate.
        - destruct (I7 _ _ _ _ _ _ E1 ltac:(lia) prhs Grhs PFr NP3) as (pr & Gpr & NP4 & X). destruct (X ltac:(lia)) as (X1 & X2 & X3 & X4).
          exists pr. split; [exact Gpr|]. split; [exact NP4|]. split; [exact X1|]. split; [exact X2|]. split; [exact X3 | lia].
        - inversion E1; subst. exists prhs. destruct (ppform_spines prhs PFr) as (T' & LS' & RS').
          split; [exact Grhs|]. split; [exact NP3|]. split; [exact T'|]. split; [|split].
          + intros y Hy. rewrite LS' in Hy. destruct Hy.
          + intros x Hx. rewrite RS' in Hx. destruct Hx.
          + apply Z.ltb_ge in Gate. exact Gate. }
      destruct HR as (pr & (R1 & R2 & R3) & NP4 & Tr & ADMr & ABSr & Kr).
      bind_inv HT. destruct v as [node'' ts5]. apply built_inv in E2 as [-> ->].
      destruct Gl as (L1 & L2 & L3).
      apply (I8 _ _ _ _ _ _ HT Hp (PBin nt o pl pr)).
      + unfold good. cbn [strip PrattParen.wfp pneed]. rewrite L1, R1, L2, R2, PL, T, Tr. cbn [negb andb].
        assert (F1 : forallb (fun x => (lbp o <? rbp x)%Z) (prspine pl) = true).
        { apply forallb_forall. intros x Hx. apply Z.ltb_lt. specialize (ABS x Hx). rewrite Hk in ABS. exact ABS. }
        assert (F2 : forallb (fun y => (rbp o <? lbp y)%Z) (plspine pr) = true).
        { apply forallb_forall. intros y Hy. apply Z.ltb_lt. apply rbp_le_lbp_strict; [exact Ho | exact (ADMr y Hy)]. }
        rewrite F1, F2. repeat split. change (pldepth pl) with 0. lia.
      + reflexivity.
      + exact NP4.
      + intros y [<-|Hy]; [exact Hpo | exact (ADM y Hy)].
      + intros x [<-|Hx]; [apply le_rbp_strict; [apply klbp_shape | exact Ho | exact Kr] | exact (ABSr x Hx)]. }
    destruct (is_not s) eqn:N.
    + (* x not OP y *)
      apply str_eqb_eq in N. subst s.
      unfold next_prec, peek_tok in H. destruct rest as [|t2 rest2]; cbn [bind tok_prec] in H.
      * cbn [andb Z.ltb Z.compare] in H. discriminate.
      * destruct t2; cbn [tok_prec] in H; try (cbn [andb Z.ltb Z.compare] in H; discriminate).
        destruct (binding_power tbl s) as [l rb] eqn:B.
        destruct (l <? 0)%Z eqn:L0; cbn [andb negb] in H; [discriminate|].
        assert (Hl : lbp s = l) by (rewrite B; reflexivity). assert (Hrb : rbp s = rb) by (rewrite B; reflexivity).
        apply Z.ltb_ge in L0.
        assert (Q : str_eqb s_not s_qmark = false) by reflexivity.
        destruct (l <? prec)%Z eqn:Lp.
        -- apply Stop; [exact H|]. left. cbn [PrattFull.klbp]. change (is_not s_not) with true. cbn [hd_error tok_prec fst]. rewrite Hl.
           apply Z.ltb_lt. exact Lp.
        -- rewrite advance_tl in H. cbn [bind tl] in H. rewrite advance_tl in H. cbn [bind tl] in H.
           apply Z.ltb_ge in Lp.
           assert (PL : Etoks.plainb tbl s = true).
           { unfold Etoks.plainb. rewrite Hl.
             assert (A1 : is_not s = false).
             { destruct (is_not s) eqn:A; [|reflexivity]. apply str_eqb_eq in A. subst s. unfold binding_power in B. rewrite NOT_INFIX in B. inversion B. lia. }
             assert (A2 : str_eqb s s_qmark = false).
             { destruct (str_eqb s s_qmark) eqn:A; [|reflexivity]. apply str_eqb_eq in A. subst s. destruct TOK as (_ & _ & _ & Tq & _).
               unfold binding_power in B. rewrite Tq in B. inversion B. lia. }
             assert (A3 : is_postfix tbl s = false).
             { destruct (is_postfix tbl s) eqn:A; [|reflexivity]. unfold binding_power in B. rewrite (NO_DUAL s A) in B. inversion B. lia. }
             rewrite A1, A2, A3. cbn [negb andb]. apply Z.leb_le. pose proof (lbp_pos_reg s ltac:(rewrite Hl; exact L0)). lia. }
           apply (Tail true s rest2); [rewrite Hl; exact L0 | rewrite Hl; exact Lp | | exact PL |].
           ++ cbn [PrattFull.klbp]. change (is_not s_not) with true. cbn [hd_error tok_prec fst]. reflexivity.
           ++ rewrite Hrb. exact H.
    + cbn [bind cur_prec hd_error tok_prec] in H. destruct (binding_power tbl s) as [l rb] eqn:B.
      assert (Hl : lbp s = l) by (rewrite B; reflexivity). assert (Hrb : rbp s = rb) by (rewrite B; reflexivity).
      cbn [andb negb] in H. destruct (str_eqb s s_qmark) eqn:Q.
      * (* the conditional *)
        apply str_eqb_eq in Q. subst s. destruct (0 <? prec)%Z eqn:P0.
        -- apply Stop; [exact H|]. left. cbn [PrattFull.klbp]. rewrite N, Hl. destruct TOK as (_ & _ & _ & Tq & _).
           unfold binding_power in B. rewrite Tq in B. inversion B. apply Z.ltb_lt in P0. lia.
        -- rewrite advance_tl in H. cbn [bind tl] in H. destruct (MAX_DEPTH <? d + 1 + 1) eqn:D; [discriminate|]. apply N.ltb_ge in D.
           bind_inv H. destruct v as [a1 r1]. destruct (I1 _ _ _ _ E) as (pa & (A1 & A2 & A3) & _).
           bind_inv H. bind_inv H. destruct v0 as [b1 r3]. destruct (I1 _ _ _ _ E1) as (pb & (B1 & B2 & B3) & NPb).
           apply built_inv in H as [-> ->]. destruct Gl as (L1 & L2 & L3).
           exists (PTern pl pa pb). split; [|split].
           ++ unfold good. cbn [strip PrattParen.wfp pneed]. rewrite L1, A1, B1, L2, A2, B2, T. repeat split. change (pldepth pl) with 0. lia.
           ++ exact NPb.
           ++ intros P1. apply Z.ltb_ge in P0. lia.
      * destruct (l <? prec)%Z eqn:Lp.
        -- apply Stop; [exact H|]. left. cbn [PrattFull.klbp]. rewrite N, Hl. apply Z.ltb_lt. exact Lp.
        -- cbn [bind] in H. rewrite advance_tl in H. cbn [bind tl] in H. apply Z.ltb_ge in Lp.
           assert (L0 : (0 <= l)%Z) by lia.
           assert (PL : Etoks.plainb tbl s = true).
           { unfold Etoks.plainb. rewrite Hl, N, Q, NP. cbn [negb andb]. apply Z.leb_le.
             pose proof (lbp_pos_reg s ltac:(rewrite Hl; exact L0)). lia. }
           apply (Tail false s rest); [rewrite Hl; exact L0 | rewrite Hl; exact Lp | | exact PL |].
           ++ cbn [PrattFull.klbp]. rewrite N. reflexivity.
           ++ rewrite Hrb. exact H.
Qed.

Lemma parser_complete : forall f, all_complete f.
Proof.
  induction f as [|f IH]; [|apply complete_step; exact IH].
  unfold all_complete. repeat split; intros; discriminate.
Qed.

(* every statement of an accepted program has an accepted spelling within the nesting limit, and is at most MAX_DEPTH high *)
Definition SP (e : ast) : Prop := (exists p, good 0 p e) /\ ast_height e <= MAX_DEPTH.

Lemma Forall_rev_append {A} (P : A -> Prop) : forall l acc, Forall P l -> Forall P acc -> Forall P (rev_append l acc).
Proof. induction l as [|x l IH]; intros acc H1 H2; cbn [rev_append]; [exact H2|]. inversion H1; subst. apply IH; [assumption | constructor; assumption]. Qed.

Lemma stmt_loop_complete : forall f ts acc es, Forall SP acc -> parse_stmt_loop tbl tm f ts acc = Ok es -> Forall SP es.
Proof.
  induction f as [|f IH]; intros ts acc es Ha H; cbn [parse_stmt_loop] in H; [discriminate|].
  destruct ts as [|t ts'].
  - inversion H; subst. unfold rev'. apply Forall_rev_append; [exact Ha | constructor].
  - destruct (pexpr f 0 (t :: ts')) as [[e r]| | |] eqn:E; cbn [bind] in H; try discriminate.
    assert (Se : SP e).
    { split; [destruct (proj1 (parser_complete f) _ _ _ _ E) as (p & Gp & _); exists p; exact Gp |].
      exact (proj1 (parser_hb tbl tm f) _ _ _ _ E). }
    assert (Ha' : Forall SP (e :: acc)) by (constructor; assumption).
    destruct r as [|t2 r2]; [eapply IH; eassumption|].
    destruct t2; try (eapply IH; eassumption).
    destruct (advance tm (TSemi :: r2)) as [r1| | |]; cbn [bind] in H; try discriminate. eapply IH; eassumption.
Qed.

Lemma SP_premises1 e : SP e -> premises1 tbl e = true.
Proof.
  intros [(p & G1 & G2 & G3) Hh]. unfold premises1.
  pose proof (strip_wf tbl (S (psize p)) p ltac:(lia) G2) as W. rewrite G1 in W.
  pose proof (least_all tbl (S (psize p)) p ltac:(lia) G2) as L. unfold least in L. rewrite G1 in L.
  rewrite W. cbn [andb]. apply andb_true_intro. split; apply N.leb_le; [exact Hh | unfold Etoks.need; lia].
Qed.

(* WHAT THE PARSER ACCEPTS MEETS THE PREMISES OF THE ROUND TRIP *)
Theorem accepted_meets_premises : forall ts t, tbl_okb tbl = true ->
  parse_tokens tbl tm ts = Ok t -> premises tbl t = true \/ t = AStmt [].
Proof.
  intros ts t HT H. unfold parse_tokens in H.
  assert (H' : (parse_stmt_loop tbl tm (parse_fuel ts) ts [] >>= fun es => match es with [e] => Ok e | _ => Ok (AStmt es) end) = Ok t)
    by (destruct ts; exact H). clear H.
  destruct (parse_stmt_loop tbl tm (parse_fuel ts) ts []) as [es| | |] eqn:E; cbn [bind] in H'; try discriminate.
  pose proof (stmt_loop_complete _ _ _ _ (Forall_nil SP) E) as F.
  destruct es as [|e [|e2 es']].
  - right. inversion H'. reflexivity.
  - left. inversion H'; subst. inversion F; subst. pose proof (SP_premises1 t H1) as P1.
    unfold premises. rewrite HT. cbn [andb]. destruct t; try exact P1.
    unfold premises1 in P1. cbn [Etoks.wf andb] in P1. discriminate P1.
  - left. inversion H'; subst. unfold premises. rewrite HT. cbn [andb length Nat.leb].
    apply forallb_forall. intros x Hx. apply SP_premises1. rewrite Forall_forall in F. exact (F x Hx).
Qed.
End PC.
