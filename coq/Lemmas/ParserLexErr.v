(** A tokenizer failure is never swallowed: when the token stream ends in an error (terminal <> EOF) the parser cannot
    succeed - every success consumes tokens through [advance], which fails on the last token. *)
From EE Require Import Chars OpTable Decimal Token Ast Parser.
Open Scope N_scope.

Section P.
Variable tbl : optable.
Variable tm : terminal.
Hypothesis tm_not_eof : tm <> TmEof.

(* a successful result leaves a non-empty rest *)
Definition gd {A} (x : outcome (A * list token)) : Prop := match x with Ok (_, r) => r <> [] | _ => True end.
Definition gl (x : outcome (list token)) : Prop := match x with Ok r => r <> [] | _ => True end.

Lemma gd_bind {A B} (x : outcome A) (f : A -> outcome (B * list token)) :
  (forall a, x = Ok a -> gd (f a)) -> gd (x >>= f).
Proof. destruct x; cbn; intros H; try exact I. apply H. reflexivity. Qed.
Lemma gl_bind {A} (x : outcome A) (f : A -> outcome (list token)) :
  (forall a, x = Ok a -> gl (f a)) -> gl (x >>= f).
Proof. destruct x; cbn; intros H; try exact I. apply H. reflexivity. Qed.

Lemma advance_ne ts r : ts <> [] -> advance tm ts = Ok r -> r <> [].
Proof.
  unfold advance. destruct ts as [|t [|t2 rest]]; intros H E; [contradiction| |inversion E; discriminate].
  destruct tm; try discriminate. contradiction.
Qed.
Lemma expect_ne ts s r : ts <> [] -> expect tm ts s = Ok r -> r <> [].
Proof.
  unfold expect. intros H E. destruct (advance tm ts) as [r'| | |] eqn:A; cbn [bind] in E; try discriminate.
  apply (advance_ne _ _ H) in A. destruct ts as [|t rest]; [discriminate|].
  destruct t; try discriminate;
    match type of E with (if ?c then _ else _) = _ => destruct c; [inversion E; subst; exact A | discriminate] end.
Qed.

Lemma postfixes_ne : forall f lhs ts a r, ts <> [] -> parse_postfixes tbl tm f lhs ts = Ok (a, r) -> r <> [].
Proof.
  induction f as [|f IH]; intros lhs ts a r Hne H; cbn [parse_postfixes] in H; [discriminate|].
  destruct ts as [|t rest]; [contradiction|].
  destruct t; try (inversion H; subst; discriminate).
  destruct (is_postfix tbl s); [|inversion H; subst; discriminate].
  destruct (advance tm (TOp s :: rest)) as [ts2| | |] eqn:A; cbn [bind] in H; try discriminate.
  apply advance_ne in A; [|discriminate].
  unfold built in H. destruct (MAX_DEPTH <? ast_height (APostfix lhs s)); cbn [bind] in H; [discriminate|].
  eapply IH; eassumption.
Qed.

Ltac ne_solve := first [assumption | discriminate].

Ltac gstep I1 I2 I3 I4 I5 I6 I7 I8 :=
  match goal with
  | H : Err = Ok _ |- _ => discriminate H
  | H : built _ _ = Ok _ |- _ => unfold built in H
  | H : Ok _ = Ok _ |- _ => inversion H; subst; clear H
  | H : (if ?c then _ else _) = Ok _ |- _ => destruct c
  | H : advance _ ?ts = Ok ?r |- _ => apply advance_ne in H; [|ne_solve]
  | H : expect _ ?ts _ = Ok ?r |- _ => apply expect_ne in H; [|ne_solve]
  | H : parse_postfixes _ _ _ _ ?ts = Ok (_, _) |- _ => apply postfixes_ne in H; [|ne_solve]
  | H : _ = Ok (_, _) |- _ =>
      first [ apply I1 in H; [|ne_solve] | apply I2 in H; [|ne_solve] | apply I3 in H; [|ne_solve] | apply I4 in H; [|ne_solve]
            | apply I5 in H; [|ne_solve] | apply I6 in H; [|ne_solve] | apply I7 in H; [|ne_solve] | apply I8 in H; [|ne_solve] ]
  | |- gd (built _ _) => unfold built
  | |- gd (Ok (_, _)) => cbn [gd]; ne_solve
  | |- gd Err => exact I
  | |- gd Fuel => exact I
  | |- gd (bind _ _) => apply gd_bind; intros [? ?] ?
  | |- gd (bind _ _) => apply gd_bind; intros ? ?
  | |- gd (let '(_, _) := ?x in _) => destruct x
  | |- gd (match ?x with _ => _ end) => destruct x eqn:?
  | |- gd (if ?c then _ else _) => destruct c
  | |- gd ?x => lazymatch x with
                 | Ok _ => fail
                 | _ => destruct x as [[? ?]| | |] eqn:?; [| exact I | exact I | exact I]
                 end
  end.

Definition all_gd (f : nat) : Prop :=
  (forall d ts a r, ts <> [] -> parse_expression tbl tm f d ts = Ok (a, r) -> r <> []) /\
  (forall d ts a r, ts <> [] -> parse_primary tbl tm f d ts = Ok (a, r) -> r <> []) /\
  (forall d ts a r, ts <> [] -> parse_token tbl tm f d ts = Ok (a, r) -> r <> []) /\
  (forall d ts acc a r, ts <> [] -> parse_args tbl tm f d ts acc = Ok (a, r) -> r <> []) /\
  (forall d ts acc a r, ts <> [] -> parse_list tbl tm f d ts acc = Ok (a, r) -> r <> []) /\
  (forall d ts acc a r, ts <> [] -> parse_map tbl tm f d ts acc = Ok (a, r) -> r <> []) /\
  (forall d p lhs ts a r, ts <> [] -> parse_op tbl tm f d p lhs ts = Ok (a, r) -> r <> []) /\
  (forall d p lhs ts a r, ts <> [] -> parse_op_loop tbl tm f d p lhs ts = Ok (a, r) -> r <> []).

Lemma of_gd {A} (x : outcome (A * list token)) a r : gd x -> x = Ok (a, r) -> r <> [].
Proof. intros G E. subst x. exact G. Qed.

Lemma parser_gd : forall f, all_gd f.
Proof.
  induction f as [|f IH]; unfold all_gd.
  - repeat split; intros; cbn in *; discriminate.
  - destruct IH as (I1 & I2 & I3 & I4 & I5 & I6 & I7 & I8).
    repeat split; intros until r; intros Hne; apply of_gd.
    + cbn [parse_expression]. repeat gstep I1 I2 I3 I4 I5 I6 I7 I8.
    + cbn [parse_primary]. repeat gstep I1 I2 I3 I4 I5 I6 I7 I8.
    + cbn [parse_token]. repeat gstep I1 I2 I3 I4 I5 I6 I7 I8.
    + cbn [parse_args]. repeat gstep I1 I2 I3 I4 I5 I6 I7 I8.
    + cbn [parse_list]. repeat gstep I1 I2 I3 I4 I5 I6 I7 I8.
    + cbn [parse_map]. repeat gstep I1 I2 I3 I4 I5 I6 I7 I8.
    + cbn [parse_op]. repeat gstep I1 I2 I3 I4 I5 I6 I7 I8.
    + cbn [parse_op_loop]. repeat gstep I1 I2 I3 I4 I5 I6 I7 I8.
Qed.

Lemma stmt_loop_not_ok : forall f ts acc es, ts <> [] -> parse_stmt_loop tbl tm f ts acc <> Ok es.
Proof.
  induction f as [|f IH]; intros ts acc es Hne; cbn [parse_stmt_loop]; [discriminate|].
  destruct ts as [|t ts']; [contradiction|].
  destruct (parse_expression tbl tm f 0 (t :: ts')) as [[e r]| | |] eqn:E; cbn [bind]; try discriminate.
  apply (proj1 (parser_gd f)) in E; [|discriminate].
  destruct r as [|t2 r2]; [contradiction|]. destruct t2; try (apply IH; discriminate).
  destruct (advance tm (TSemi :: r2)) as [r1| | |] eqn:A; cbn [bind]; try discriminate.
  apply advance_ne in A; [|discriminate]. apply IH. exact A.
Qed.

Theorem lex_error_rejected : forall ts es, parse_tokens tbl tm ts <> Ok es.
Proof.
  intros ts es. unfold parse_tokens. destruct ts as [|t ts'].
  - destruct tm; try discriminate. contradiction.
  - destruct (parse_stmt_loop tbl tm (parse_fuel (t :: ts')) (t :: ts') []) as [l| | |] eqn:E; cbn [bind]; try discriminate.
    exfalso. eapply stmt_loop_not_ok; [|exact E]. discriminate.
Qed.
End P.
