(** The parser model never "panics" unless the tokenizer does, and fails (Err) when the tokenizer fails. *)
From EE Require Import Chars OpTable Decimal Token Ast Parser.
Open Scope N_scope.

Section P.
Variable tbl : optable.
Variable tm : terminal.

Definition np {A} (x : outcome A) : Prop := x <> Panic.

Lemma np_bind {A B} (x : outcome A) (f : A -> outcome B) : np x -> (forall a, np (f a)) -> np (x >>= f).
Proof. unfold np, bind. destruct x; intros H1 H2; try discriminate; [apply H2 | contradiction]. Qed.
Lemma np_ok {A} (a : A) : np (Ok a). Proof. discriminate. Qed.
Lemma np_err {A} : np (@Err A). Proof. discriminate. Qed.
Lemma np_fuel {A} : np (@Fuel A). Proof. discriminate. Qed.

Hypothesis tm_np : tm <> TmPanic.

Lemma np_advance ts : np (advance tm ts).
Proof. unfold advance. destruct ts as [|t [|t2 r]]; try discriminate. destruct tm; try discriminate. contradiction. Qed.
Lemma np_peek ts : np (peek_tok tm ts).
Proof. unfold peek_tok. destruct ts as [|t [|t2 r]]; try discriminate. destruct tm; try discriminate. contradiction. Qed.
Lemma np_expect ts s : np (expect tm ts s).
Proof.
  unfold expect. apply np_bind; [apply np_advance|]. intros r.
  destruct ts as [|t ts']; [discriminate|]. destruct t; try discriminate;
    match goal with |- np (if ?c then _ else _) => destruct c; discriminate end.
Qed.
Lemma np_next_prec ts : np (next_prec tbl tm ts).
Proof. unfold next_prec. apply np_bind; [apply np_peek | intros; discriminate]. Qed.

Lemma np_postfixes : forall f lhs ts, np (parse_postfixes tbl tm f lhs ts).
Proof.
  induction f as [|f IH]; intros; cbn [parse_postfixes]; [discriminate|].
  destruct ts as [|t r]; [discriminate|]. destruct t; try discriminate.
  destruct (is_postfix tbl s); [|discriminate].
  apply np_bind; [apply np_advance|]. intros ts2. apply np_bind; [unfold built; destruct (MAX_DEPTH <? _); discriminate|].
  intros [e ts3]. apply IH.
Qed.

Ltac np_step IH :=
  match goal with
  | |- np (Ok _) => apply np_ok
  | |- np Err => apply np_err
  | |- np Fuel => apply np_fuel
  | |- np (advance _ _) => apply np_advance
  | |- np (expect _ _ _) => apply np_expect
  | |- np (next_prec _ _ _) => apply np_next_prec
  | |- np (built _ _) => unfold built
  | |- np (parse_postfixes _ _ _ _ _) => apply np_postfixes
  | |- np (bind _ _) => apply np_bind; [|intros]
  | |- np (let '(_, _) := ?x in _) => destruct x
  | |- np (match ?x with _ => _ end) => destruct x
  | |- np (if ?c then _ else _) => destruct c
  | |- np _ => solve [apply IH]
  end.

Definition all_np (f : nat) : Prop :=
  (forall d ts, np (parse_expression tbl tm f d ts)) /\
  (forall d ts, np (parse_primary tbl tm f d ts)) /\
  (forall d ts, np (parse_token tbl tm f d ts)) /\
  (forall d ts acc, np (parse_args tbl tm f d ts acc)) /\
  (forall d ts acc, np (parse_list tbl tm f d ts acc)) /\
  (forall d ts acc, np (parse_map tbl tm f d ts acc)) /\
  (forall d p lhs ts, np (parse_op tbl tm f d p lhs ts)) /\
  (forall d p lhs ts, np (parse_op_loop tbl tm f d p lhs ts)).

Lemma parser_np : forall f, all_np f.
Proof.
  induction f as [|f IH]; unfold all_np.
  - repeat split; intros; cbn; discriminate.
  - destruct IH as (I1 & I2 & I3 & I4 & I5 & I6 & I7 & I8).
    repeat split; intros.
    + cbn [parse_expression]. repeat np_step I1; try apply I2; try apply I7.
    + cbn [parse_primary]. repeat (np_step I3).
    + cbn [parse_token]. repeat (first [np_step I2 | apply I1 | apply I4 | apply I5 | apply I6]).
    + cbn [parse_args]. repeat (first [np_step I1 | apply I4]).
    + cbn [parse_list]. repeat (first [np_step I1 | apply I5]).
    + cbn [parse_map]. repeat (first [np_step I1 | apply I6]).
    + cbn [parse_op]. repeat (np_step I8).
    + cbn [parse_op_loop]. repeat (first [np_step I1 | apply I2 | apply I7 | apply I8]).
Qed.

Lemma np_stmt_loop : forall f ts acc, np (parse_stmt_loop tbl tm f ts acc).
Proof.
  induction f as [|f IH]; intros; cbn [parse_stmt_loop]; [discriminate|].
  destruct ts as [|t ts']; [discriminate|].
  apply np_bind; [apply (proj1 (parser_np f))|]. intros [e r].
  destruct r as [|t2 r2]; [apply IH|]. destruct t2; try apply IH.
  apply np_bind; [apply np_advance | intros; apply IH].
Qed.

Theorem parse_tokens_np : forall ts, np (parse_tokens tbl tm ts).
Proof.
  intros ts. unfold parse_tokens.
  destruct ts as [|t ts'].
  - destruct tm; try discriminate; try contradiction.
  - apply np_bind; [apply np_stmt_loop|]. intros es. destruct es as [|e [|e2 r]]; discriminate.
Qed.
End P.
