(** Isolation (C16), as an instance of the relational principle ExecRel.rel_exec: two states that agree on the
    registrations, the handler scripts, the lock sets and on every context except d - and on the call history if some
    handler counts its invocations - give every program evaluated on a context other than d the same result, and final
    states that agree in the same way. The only hypothesis on the handlers: none of them evaluates on d. *)
From EE Require Import Chars OpTable Decimal Ast Value Names Lexer Parser Eval ExecRel.
Open Scope N_scope.

Definition other_than (d c : N) : bool := negb (c =? d).

Record iso (cnt : bool) (d : N) (SC : list (hid * script)) (st st' : state) : Prop := {
  iso_inited : s_inited st = s_inited st';
  iso_regs : s_regs st = s_regs st';
  iso_scripts : s_scripts st = SC;
  iso_scripts' : s_scripts st' = SC;
  iso_held : s_held st = s_held st';
  iso_poisoned : s_poisoned st = s_poisoned st';
  iso_log : cnt = true -> s_log st = s_log st';
  iso_ctx : forall c, other_than d c = true -> ctx_of st c = ctx_of st' c
}.

Section Iso.
Variable b : registries.
Variable cnt : bool.
Variable d : N.
Variable SC : list (hid * script).
Hypothesis SC_ok : scripts_ok (other_than d) cnt SC.
Notation R := (iso cnt d SC).

Lemma iso_locks st st' : R st st' -> s_held st = s_held st' /\ s_poisoned st = s_poisoned st'.
Proof. intros [? ? ? ? ? ? ? ?]. split; assumption. Qed.
Lemma iso_regs_inited st st' : R st st' -> s_regs st = s_regs st' /\ s_inited st = s_inited st'.
Proof. intros [? ? ? ? ? ? ? ?]. split; assumption. Qed.
Lemma iso_scripts_ok st st' : R st st' -> s_scripts st = s_scripts st' /\ scripts_ok (other_than d) cnt (s_scripts st).
Proof. intros [? ? E1 E2 ? ? ? ?]. rewrite E1, E2. split; [reflexivity | exact SC_ok]. Qed.
Lemma iso_count st st' : cnt = true -> R st st' -> forall h, count_calls h (s_log st) = count_calls h (s_log st').
Proof. intros Hc [? ? ? ? ? ? L ?] h. rewrite (L Hc). reflexivity. Qed.
Lemma iso_ctx_of st st' c : other_than d c = true -> R st st' -> ctx_of st c = ctx_of st' c.
Proof. intros Hc [? ? ? ? ? ? ? C]. apply C. exact Hc. Qed.

Lemma iso_set_log st st' h args : R st st' -> R (set_log st ((h, args) :: s_log st)) (set_log st' ((h, args) :: s_log st')).
Proof.
  intros [A1 A2 A3 A4 A5 A6 A7 A8]. constructor; cbn [set_log s_inited s_regs s_scripts s_held s_poisoned s_log]; try assumption.
  intros Hc. rewrite (A7 Hc). reflexivity.
Qed.
Lemma iso_set_inexact st st' i : R st st' -> R (set_inexact st i) (set_inexact st' i).
Proof.
  intros [A1 A2 A3 A4 A5 A6 A7 A8]. constructor; cbn [set_inexact s_inited s_regs s_scripts s_held s_poisoned s_log]; try assumption.
Qed.
Lemma iso_ctx_set st st' c n v : other_than d c = true -> R st st' -> R (ctx_set st c n v) (ctx_set st' c n v).
Proof.
  intros Hc [A1 A2 A3 A4 A5 A6 A7 A8].
  constructor; unfold ctx_set; cbn [set_ctxs s_inited s_regs s_scripts s_held s_poisoned s_log]; try assumption.
  intros c0 Hc0. unfold ctx_of at 1 3. cbn [set_ctxs s_ctxs nassoc].
  destruct (N.eqb_spec c0 c) as [->|Hne].
  - rewrite (A8 c Hc). reflexivity.
  - apply (A8 c0 Hc0).
Qed.
Lemma iso_init st st' : R st st' -> R (ensure_init b st) (ensure_init b st').
Proof.
  intros [A1 A2 A3 A4 A5 A6 A7 A8]. unfold ensure_init.
  destruct (s_inited st) eqn:E1, (s_inited st') eqn:E2; try discriminate A1.
  - constructor; try assumption. congruence.
  - constructor; cbn [s_inited s_regs s_scripts s_held s_poisoned s_log]; try assumption; try reflexivity.
    rewrite A2. reflexivity.
Qed.
Lemma iso_set_regs st st' (f : registries -> registries) :
  R st st' -> R (set_regs st (f (s_regs st))) (set_regs st' (f (s_regs st'))).
Proof.
  intros [A1 A2 A3 A4 A5 A6 A7 A8]. constructor; cbn [set_regs s_inited s_regs s_scripts s_held s_poisoned s_log]; try assumption.
  rewrite A2. reflexivity.
Qed.
Lemma iso_reg_func st st' n h : R st st' -> R (reg_func st n h) (reg_func st' n h).
Proof. intros H. exact (iso_set_regs st st' (fun r => {| r_infix := r_infix r; r_prefix := r_prefix r; r_postfix := r_postfix r; r_func := (n, h) :: r_func r |}) H). Qed.
Lemma iso_reg_prefix st st' n h : R st st' -> R (reg_prefix st n h) (reg_prefix st' n h).
Proof. intros H. exact (iso_set_regs st st' (fun r => {| r_infix := r_infix r; r_prefix := (n, h) :: r_prefix r; r_postfix := r_postfix r; r_func := r_func r |}) H). Qed.
Lemma iso_reg_postfix st st' n h : R st st' -> R (reg_postfix st n h) (reg_postfix st' n h).
Proof. intros H. exact (iso_set_regs st st' (fun r => {| r_infix := r_infix r; r_prefix := r_prefix r; r_postfix := (n, h) :: r_postfix r; r_func := r_func r |}) H). Qed.
Lemma iso_reg_infix st st' n cfg h : R st st' -> R (reg_infix st n cfg h) (reg_infix st' n cfg h).
Proof. intros H. exact (iso_set_regs st st' (fun r => {| r_infix := (n, (cfg, h)) :: r_infix r; r_prefix := r_prefix r; r_postfix := r_postfix r; r_func := r_func r |}) H). Qed.

(* parse + exec, for any evaluator that respects the relation *)
Lemma iso_parse_exec (ex : ast -> N -> state -> eres * state) s c st st' :
  (forall e st st', R st st' -> agree R (ex e c st) (ex e c st')) ->
  R st st' -> agree R (parse_exec b ex s c st) (parse_exec b ex s c st').
Proof.
  intros EX H. unfold parse_exec.
  destruct (rel_do_parse b R iso_locks iso_regs_inited iso_init st st' s H) as [E1 H1].
  destruct (do_parse b st s) as [o s1], (do_parse b st' s) as [o' s1']. cbn [fst snd] in E1, H1. subst o'.
  destruct o; try (split; [reflexivity | exact H1]). apply EX. exact H1.
Qed.

Theorem iso_exec_fuel : forall f e c st st', other_than d c = true -> R st st' ->
  agree R (exec_fuel b f e c st) (exec_fuel b f e c st').
Proof.
  induction f as [|f IH]; intros e c st st' Hc H; cbn [exec_fuel]; [split; [reflexivity | exact H]|].
  apply (rel_exec b _ (other_than d) cnt R iso_locks iso_regs_inited iso_scripts_ok iso_count iso_ctx_of
           iso_set_log iso_set_inexact iso_ctx_set iso_init iso_reg_func iso_reg_prefix iso_reg_postfix iso_reg_infix);
    try assumption.
  intros s c' x x' Hc' Hx. apply iso_parse_exec; [|exact Hx]. intros e0 y y' Hy. apply IH; assumption.
Qed.

Theorem iso_run_exec : forall s c st st', other_than d c = true -> R st st' ->
  agree R (run_exec b s c st) (run_exec b s c st').
Proof.
  intros s c st st' Hc H. unfold run_exec. apply iso_parse_exec; [|exact H].
  intros e y y' Hy. apply iso_exec_fuel; assumption.
Qed.
End Iso.
