(** A relational principle for the evaluator (the two-state companion of ExecInv): if two states agree on everything the
    evaluator can observe - lock sets, registries, scripts, invocation counts, the contents of the evaluating context - and
    the primitive state updates preserve that agreement when applied to both, then evaluating one program from the two
    states gives the same result and agreeing final states. Instance (C16): the contents of a context that no handler
    evaluates on never influence an evaluation on another context. *)
From EE Require Import Chars OpTable Decimal Ast Value Names Lexer Parser Eval.
Open Scope N_scope.

(* the contexts a script evaluates on satisfy okc; cnt = false additionally forbids invocation-counting scripts *)
Fixpoint script_ok (okc : N -> bool) (cnt : bool) (s : script) {struct s} : bool :=
  match s with
  | SRet _ | SArg _ | SFail | SPanic => true
  | SSeq a k => (match a with AcExec _ c => okc c | _ => true end) && script_ok okc cnt k
  | SCount l => cnt && (fix all (l : list script) : bool :=
                          match l with [] => true | s1 :: r => script_ok okc cnt s1 && all r end) l
  end.

Definition scripts_ok (okc : N -> bool) (cnt : bool) (ss : list (hid * script)) : Prop :=
  forall h s, nassoc h ss = Some s -> script_ok okc cnt s = true.

Section Rel.
Variable b : registries.
Variable reenter : str -> N -> state -> eres * state.
Variable okc : N -> bool.
Variable cnt : bool.
Variable R : state -> state -> Prop.

Hypothesis R_locks : forall st st', R st st' -> s_held st = s_held st' /\ s_poisoned st = s_poisoned st'.
Hypothesis R_regs : forall st st', R st st' -> s_regs st = s_regs st' /\ s_inited st = s_inited st'.
Hypothesis R_scripts : forall st st', R st st' -> s_scripts st = s_scripts st' /\ scripts_ok okc cnt (s_scripts st).
Hypothesis R_count : forall st st', cnt = true -> R st st' -> forall h, count_calls h (s_log st) = count_calls h (s_log st').
Hypothesis R_ctx : forall st st' c, okc c = true -> R st st' -> ctx_of st c = ctx_of st' c.

Hypothesis R_log : forall st st' h args, R st st' -> R (set_log st ((h, args) :: s_log st)) (set_log st' ((h, args) :: s_log st')).
Hypothesis R_inexact : forall st st' i, R st st' -> R (set_inexact st i) (set_inexact st' i).
Hypothesis R_ctxset : forall st st' c n v, okc c = true -> R st st' -> R (ctx_set st c n v) (ctx_set st' c n v).
Hypothesis R_init : forall st st', R st st' -> R (ensure_init b st) (ensure_init b st').
Hypothesis R_regf : forall st st' n h, R st st' -> R (reg_func st n h) (reg_func st' n h).
Hypothesis R_regp : forall st st' n h, R st st' -> R (reg_prefix st n h) (reg_prefix st' n h).
Hypothesis R_regs' : forall st st' n h, R st st' -> R (reg_postfix st n h) (reg_postfix st' n h).
Hypothesis R_regi : forall st st' n cfg h, R st st' -> R (reg_infix st n cfg h) (reg_infix st' n cfg h).
Hypothesis R_reenter : forall s c st st', okc c = true -> R st st' ->
  fst (reenter s c st) = fst (reenter s c st') /\ R (snd (reenter s c st)) (snd (reenter s c st')).

Definition agree (x y : eres * state) : Prop := fst x = fst y /\ R (snd x) (snd y).

Lemma acquire_rel l st st' : R st st' -> acquire l st' = acquire l st.
Proof. intros H. destruct (R_locks _ _ H) as [E1 E2]. unfold acquire. rewrite E1, E2. reflexivity. Qed.

Lemma get_infix_rel op st st' : R st st' -> get_infix st' op = get_infix st op.
Proof. intros H. unfold get_infix. rewrite (acquire_rel _ _ _ H). destruct (R_regs _ _ H) as [E _]. rewrite E. reflexivity. Qed.

Lemma get_named_rel l (sel : registries -> list (str * handler)) op st st' :
  R st st' -> get_named l (sel (s_regs st')) st' op = get_named l (sel (s_regs st)) st op.
Proof. intros H. unfold get_named. rewrite (acquire_rel _ _ _ H). destruct (R_regs _ _ H) as [E _]. rewrite E. reflexivity. Qed.

Lemma ctx_get_rel c n st st' : okc c = true -> R st st' -> ctx_get st' c n = ctx_get st c n.
Proof. intros Hc H. unfold ctx_get. rewrite (acquire_rel _ _ _ H). rewrite (R_ctx _ _ c Hc H). reflexivity. Qed.

Lemma rel_of_ares r st st' : R st st' -> agree (of_ares r st) (of_ares r st').
Proof. intros H. destruct r; cbn; split; try reflexivity; try exact H. apply R_inexact. exact H. Qed.

Lemma rel_do_register l st st' upd :
  R st st' -> (forall x x', R x x' -> R (upd x) (upd x')) -> agree (do_register b l st upd) (do_register b l st' upd).
Proof.
  intros H U. unfold do_register. pose proof (R_init _ _ H) as HI. rewrite (acquire_rel l _ _ HI).
  destruct (acquire l (ensure_init b st)); split; cbn [fst snd]; try reflexivity; [exact HI | apply U; exact HI].
Qed.

Lemma rel_do_parse st st' s :
  R st st' -> fst (do_parse b st s) = fst (do_parse b st' s) /\ R (snd (do_parse b st s)) (snd (do_parse b st' s)).
Proof.
  intros H. unfold do_parse. pose proof (R_init _ _ H) as HI.
  rewrite !(acquire_rel _ _ _ HI). destruct (R_regs _ _ HI) as [E _]. rewrite <- E.
  destruct (acquire LPrefix (ensure_init b st)) as [[]|], (acquire LInfix (ensure_init b st)) as [[]|],
           (acquire LPostfix (ensure_init b st)) as [[]|]; try (split; [reflexivity | exact HI]);
    destruct (lex (tbl_of (s_regs (ensure_init b st))) s); split; try reflexivity; exact HI.
Qed.

Lemma rel_run_script : forall s h n n' args st st',
  script_ok okc cnt s = true -> (cnt = true -> n = n') -> R st st' ->
  agree (run_script b reenter s h n args st) (run_script b reenter s h n' args st').
Proof.
  fix IH 1. intros s h n n' args st st' OK Hn H. destruct s as [v|i| | |a k|l]; cbn [run_script].
  - split; [reflexivity | exact H].
  - split; [reflexivity | exact H].
  - split; [reflexivity | exact H].
  - split; [reflexivity | exact H].
  - cbn [script_ok] in OK. apply andb_prop in OK. destruct OK as [OKa OKk].
    assert (G: agree
      (match a with
        | AcParse src => let '(_, st1) := do_parse b st src in (EOk VNone, st1)
        | AcExec src c' => reenter src c' st
        | AcRegF nm hh => do_register b LFunc st (fun st => reg_func st nm (HScript hh))
        | AcRegP nm hh => do_register b LPrefix st (fun st => reg_prefix st nm (HScript hh))
        | AcRegS nm hh => do_register b LPostfix st (fun st => reg_postfix st nm (HScript hh))
        | AcRegI nm p se ri hh => do_register b LInfix st (fun st => reg_infix st nm {| ic_prec := p; ic_setter := se; ic_right := ri |} (HScript hh))
        | AcLock c' => match acquire (LCtx c') st with Some e => (e, st) | None => (EOk VNone, st) end
        end)
      (match a with
        | AcParse src => let '(_, st1) := do_parse b st' src in (EOk VNone, st1)
        | AcExec src c' => reenter src c' st'
        | AcRegF nm hh => do_register b LFunc st' (fun st => reg_func st nm (HScript hh))
        | AcRegP nm hh => do_register b LPrefix st' (fun st => reg_prefix st nm (HScript hh))
        | AcRegS nm hh => do_register b LPostfix st' (fun st => reg_postfix st nm (HScript hh))
        | AcRegI nm p se ri hh => do_register b LInfix st' (fun st => reg_infix st nm {| ic_prec := p; ic_setter := se; ic_right := ri |} (HScript hh))
        | AcLock c' => match acquire (LCtx c') st' with Some e => (e, st') | None => (EOk VNone, st') end
        end)).
    { destruct a.
      - destruct (rel_do_parse st st' s H) as [_ C]. destruct (do_parse b st s), (do_parse b st' s). split; [reflexivity | exact C].
      - apply R_reenter; assumption.
      - apply rel_do_register; [exact H | intros; apply R_regf; assumption].
      - apply rel_do_register; [exact H | intros; apply R_regp; assumption].
      - apply rel_do_register; [exact H | intros; apply R_regs'; assumption].
      - apply rel_do_register; [exact H | intros; apply R_regi; assumption].
      - rewrite (acquire_rel _ _ _ H). destruct (acquire (LCtx c) st); split; try reflexivity; exact H. }
    match goal with |- agree (let '(r, st1) := ?X in _) (let '(r', st1') := ?Y in _) =>
      destruct X as [r st1]; destruct Y as [r' st1'] end.
    destruct G as [G1 G2]. cbn [fst snd] in G1, G2. rewrite <- G1. clear G1.
    destruct r; try (split; [reflexivity | exact G2]); apply IH; assumption.
  - cbn [script_ok] in OK. apply andb_prop in OK. destruct OK as [Hc OKl].
    specialize (Hn Hc). subst n'. revert n OKl. induction l as [|s1 r IHl]; intros n OKl; [split; [reflexivity | exact H]|].
    apply andb_prop in OKl. destruct OKl as [OK1 OKr].
    destruct r as [|s2 r']; [apply IH; [exact OK1 | reflexivity | exact H]|].
    destruct n as [|n0]; [apply IH; [exact OK1 | reflexivity | exact H] | apply IHl; exact OKr].
Qed.

Lemma rel_call_script h args st st' : R st st' -> agree (call_script b reenter h args st) (call_script b reenter h args st').
Proof.
  intros H. unfold call_script. destruct (R_scripts _ _ H) as [E SO]. rewrite <- E.
  destruct (nassoc h (s_scripts st)) as [s|] eqn:Es.
  - apply rel_run_script; [eapply SO; exact Es | intros Hc; apply R_count; assumption | apply R_log; exact H].
  - split; [reflexivity | apply R_log; exact H].
Qed.

Lemma rel_call_handler hd bi args st st' :
  R st st' -> agree (call_handler b reenter hd bi args st) (call_handler b reenter hd bi args st').
Proof.
  intros H. destruct hd; cbn [call_handler].
  - destruct bi; [apply rel_of_ares; exact H | split; [reflexivity | exact H]].
  - apply rel_call_script. exact H.
Qed.

Ltac step IH x st st' H r1 s1 s1' H1 :=
  let G := fresh "G" in let r1' := fresh "r" in let E := fresh "E" in
  pose proof (IH x st st' H) as G;
  destruct (exec b reenter x _ st) as [r1 s1]; destruct (exec b reenter x _ st') as [r1' s1'];
  destruct G as [E H1]; cbn [fst snd] in E, H1; subst r1'.

Lemma rel_exec : forall c, okc c = true -> forall e st st', R st st' -> agree (exec b reenter e c st) (exec b reenter e c st').
Proof.
  intros c Hc. fix IH 1. intros e st st' H.
  assert (LIST: forall l st st', R st st' ->
     let go := (fix go (l : list ast) (st : state) {struct l} : (eres + list value) * state :=
       match l with
       | [] => (inr [], st)
       | x :: r =>
           match exec b reenter x c st with
           | (EOk v, st1) => match go r st1 with
                             | (inr vs, st2) => (inr (v :: vs), st2)
                             | other => other
                             end
           | (err, st1) => (inl err, st1)
           end
       end) in
     fst (go l st) = fst (go l st') /\ R (snd (go l st)) (snd (go l st'))).
  { induction l as [|x r IHl]; intros st0 st0' H0; [split; [reflexivity | exact H0]|].
    lazy beta iota zeta. step IH x st0 st0' H0 r1 s1 s1' H1.
    destruct r1; try (split; [reflexivity | exact H1]).
    specialize (IHl s1 s1' H1). lazy beta iota zeta in IHl.
    match goal with |- context [(fix go (l : list ast) (st : state) {struct l} := _) r s1] =>
      destruct ((fix go (l : list ast) (st : state) {struct l} := _) r s1) as [[e1|vs] s2] end;
    match goal with |- context [(fix go (l : list ast) (st : state) {struct l} := _) r s1'] =>
      destruct ((fix go (l : list ast) (st : state) {struct l} := _) r s1') as [[e1'|vs'] s2'] end;
    destruct IHl as [E2 H2]; cbn [fst snd] in E2, H2; try discriminate E2; inversion E2; subst;
    split; try reflexivity; exact H2. }
  destruct e as [l|op r|op l r|l op|cnd a x|n|n args|es|kvs|es|]; cbn [exec].
  - split; [reflexivity | exact H].
  - rewrite (get_named_rel LPrefix r_prefix op st st' H).
    destruct (get_named LPrefix (r_prefix (s_regs st)) st op) as [err|hd]; [split; [reflexivity | exact H]|].
    step IH r st st' H r1 s1 s1' H1.
    destruct r1; try (split; [reflexivity | exact H1]). apply rel_call_handler. exact H1.
  - rewrite (get_infix_rel op st st' H).
    destruct (get_infix st op) as [err|[cfg hd0]]; [split; [reflexivity | exact H]|].
    destruct (ic_setter cfg).
    + step IH l st st' H r1 s1 s1' H1.
      destruct r1; try (split; [reflexivity | exact H1]).
      step IH r s1 s1' H1 r2 s2 s2' H2.
      destruct r2; try (split; [reflexivity | exact H2]).
      destruct l; try (split; [reflexivity | exact H2]).
      rewrite (get_infix_rel op s2 s2' H2).
      destruct (get_infix s2 op) as [err|[cfg2 hd2]]; [split; [reflexivity | exact H2]|].
      pose proof (rel_call_handler hd2 (builtin_infix op v v0) [v; v0] s2 s2' H2) as G5.
      destruct (call_handler b reenter hd2 (builtin_infix op v v0) [v; v0] s2) as [rh s3].
      destruct (call_handler b reenter hd2 (builtin_infix op v v0) [v; v0] s2') as [rh' s3'].
      destruct G5 as [E5 H5]. cbn [fst snd] in E5, H5. subst rh'.
      destruct rh; try (split; [reflexivity | exact H5]).
      rewrite (acquire_rel (LCtx c) s3 s3' H5).
      destruct (acquire (LCtx c) s3); split; try reflexivity; cbn [snd]; [exact H5 | apply R_ctxset; assumption].
    + lazy beta iota.
      step IH l st st' H r1 s1 s1' H1.
      destruct r1; try (split; [reflexivity | exact H1]).
      step IH r s1 s1' H1 r2 s2 s2' H2.
      destruct r2; try (split; [reflexivity | exact H2]). apply rel_call_handler. exact H2.
  - rewrite (get_named_rel LPostfix r_postfix op st st' H).
    destruct (get_named LPostfix (r_postfix (s_regs st)) st op) as [err|hd]; [split; [reflexivity | exact H]|].
    step IH l st st' H r1 s1 s1' H1.
    destruct r1; try (split; [reflexivity | exact H1]). apply rel_call_handler. exact H1.
  - step IH cnd st st' H r1 s1 s1' H1.
    destruct r1 as [v| | | | |]; try (split; [reflexivity | exact H1]).
    destruct v as [| |[|]| | |]; try (split; [reflexivity | exact H1]); apply IH; exact H1.
  - rewrite (ctx_get_rel c n st st' Hc H).
    destruct (ctx_get st c n) as [err|[[v|h]|]]; try (split; [reflexivity | exact H]). apply rel_call_script. exact H.
  - pose proof (LIST args st st' H) as L. lazy beta iota zeta in L.
    match goal with |- context [(fix go (l : list ast) (st : state) {struct l} := _) args st] =>
      destruct ((fix go (l : list ast) (st : state) {struct l} := _) args st) as [[e1|vs] s1] end;
    match goal with |- context [(fix go (l : list ast) (st : state) {struct l} := _) args st'] =>
      destruct ((fix go (l : list ast) (st : state) {struct l} := _) args st') as [[e1'|vs'] s1'] end;
    destruct L as [E1 H1]; cbn [fst snd] in E1, H1; try discriminate E1; inversion E1; subst;
    [split; [reflexivity | exact H1]|].
    rewrite (ctx_get_rel c n s1 s1' Hc H1).
    destruct (ctx_get s1 c n) as [err|[[v|h]|]]; try (split; [reflexivity | exact H1]).
    + rewrite (get_named_rel LFunc r_func n s1 s1' H1).
      destruct (get_named LFunc (r_func (s_regs s1)) s1 n); [split; [reflexivity | exact H1] | apply rel_call_handler; exact H1].
    + apply rel_call_script. exact H1.
    + rewrite (get_named_rel LFunc r_func n s1 s1' H1).
      destruct (get_named LFunc (r_func (s_regs s1)) s1 n); [split; [reflexivity | exact H1] | apply rel_call_handler; exact H1].
  - pose proof (LIST es st st' H) as L. lazy beta iota zeta in L.
    match goal with |- context [(fix go (l : list ast) (st : state) {struct l} := _) es st] =>
      destruct ((fix go (l : list ast) (st : state) {struct l} := _) es st) as [[e1|vs] s1] end;
    match goal with |- context [(fix go (l : list ast) (st : state) {struct l} := _) es st'] =>
      destruct ((fix go (l : list ast) (st : state) {struct l} := _) es st') as [[e1'|vs'] s1'] end;
    destruct L as [E1 H1]; cbn [fst snd] in E1, H1; try discriminate E1; inversion E1; subst;
    try destruct (vbounded (VList vs')); split; try reflexivity; exact H1.
  - assert (MAP: forall l st st', R st st' ->
       let go := (fix go (l : list (ast * ast)) (st : state) {struct l} : (eres + list (value * value)) * state :=
           match l with
           | [] => (inr [], st)
           | (k, v) :: r =>
               match exec b reenter k c st with
               | (EOk kv, st1) =>
                   match exec b reenter v c st1 with
                   | (EOk vv, st2) => match go r st2 with
                                      | (inr rest, st3) => (inr ((kv, vv) :: rest), st3)
                                      | other => other
                                      end
                   | (err, st2) => (inl err, st2)
                   end
               | (err, st1) => (inl err, st1)
               end
           end) in
       fst (go l st) = fst (go l st') /\ R (snd (go l st)) (snd (go l st'))).
    { induction l as [|[k v] r IHl]; intros st0 st0' H0; [split; [reflexivity | exact H0]|].
      lazy beta iota zeta. step IH k st0 st0' H0 r1 s1 s1' H1.
      destruct r1; try (split; [reflexivity | exact H1]).
      step IH v s1 s1' H1 r2 s2 s2' H2.
      destruct r2; try (split; [reflexivity | exact H2]).
      specialize (IHl s2 s2' H2). lazy beta iota zeta in IHl.
      match goal with |- context [(fix go (l : list (ast * ast)) (st : state) {struct l} := _) r s2] =>
        destruct ((fix go (l : list (ast * ast)) (st : state) {struct l} := _) r s2) as [[e1|vs] s3] end;
      match goal with |- context [(fix go (l : list (ast * ast)) (st : state) {struct l} := _) r s2'] =>
        destruct ((fix go (l : list (ast * ast)) (st : state) {struct l} := _) r s2') as [[e1'|vs'] s3'] end;
      destruct IHl as [E3 H3]; cbn [fst snd] in E3, H3; try discriminate E3; inversion E3; subst;
      split; try reflexivity; exact H3. }
    pose proof (MAP kvs st st' H) as L. lazy beta iota zeta in L.
    match goal with |- context [(fix go (l : list (ast * ast)) (st : state) {struct l} := _) kvs st] =>
      destruct ((fix go (l : list (ast * ast)) (st : state) {struct l} := _) kvs st) as [[e1|vs] s1] end;
    match goal with |- context [(fix go (l : list (ast * ast)) (st : state) {struct l} := _) kvs st'] =>
      destruct ((fix go (l : list (ast * ast)) (st : state) {struct l} := _) kvs st') as [[e1'|vs'] s1'] end;
    destruct L as [E1 H1]; cbn [fst snd] in E1, H1; try discriminate E1; inversion E1; subst;
    try destruct (vbounded (VMap vs')); split; try reflexivity; exact H1.
  - assert (ST: forall l last st st', R st st' ->
       let go := (fix go (l : list ast) (last : value) (st : state) {struct l} : eres * state :=
         match l with
         | [] => (EOk last, st)
         | x :: r => match exec b reenter x c st with
                     | (EOk v, st1) => go r v st1
                     | other => other
                     end
         end) in
       agree (go l last st) (go l last st')).
    { induction l as [|x r IHl]; intros last st0 st0' H0; [split; [reflexivity | exact H0]|].
      lazy beta iota zeta. step IH x st0 st0' H0 r1 s1 s1' H1.
      destruct r1; try (split; [reflexivity | exact H1]). apply IHl. exact H1. }
    apply ST. exact H.
  - split; [reflexivity | exact H].
Qed.
End Rel.
