(** Exactness of the decimal model's arithmetic, stated over integers: a decimal d denotes signed(d) / 10^scale(d). *)
From EE Require Import Chars Decimal.
Open Scope Z_scope.

Definition signed (d : dec) : Z := if dneg d then - Z.of_N (dmant d) else Z.of_N (dmant d).
Definition p10 (k : N) : Z := Z.of_N (pow10 k).

Lemma p10_pos k : 0 < p10 k.
Proof. unfold p10, pow10. apply (N2Z.inj_lt 0). apply N.neq_0_lt_0. apply N.pow_nonzero. discriminate. Qed.

Lemma p10_add a b : p10 (a + b) = p10 a * p10 b.
Proof. unfold p10, pow10. rewrite N.pow_add_r. apply N2Z.inj_mul. Qed.

Lemma signed_mk neg m s : signed (mk neg m s) = if neg then - Z.of_N m else Z.of_N m.
Proof.
  unfold signed, mk. cbn [dneg dmant]. destruct neg; cbn [andb]; [|reflexivity].
  destruct (N.eqb_spec m 0) as [->|]; reflexivity.
Qed.

(* fit in the exact region returns the number unchanged *)
Lemma fit_exact neg n s d : fit neg n s = DOk d -> signed d = (if neg then - Z.of_N n else Z.of_N n) /\ dscale d = s.
Proof.
  unfold fit. destruct ((n <? two96)%N && (s <=? 28)%N).
  - intros H. inversion H; subst. split; [apply signed_mk | reflexivity].
  - destruct (fit_loop 60 n s (N.min s 28)) as [[v s']|]; discriminate.
Qed.

Lemma dec_neg_signed d : signed (dec_neg d) = - signed d.
Proof.
  unfold dec_neg. rewrite signed_mk. unfold signed. destruct (dneg d); cbn [negb]; lia.
Qed.

(* comparison is the order of the rationals: cross-multiplied to the common scale *)
Definition at_scale (d : dec) (s : N) : Z := signed d * p10 (s - dscale d).

Lemma dec_cmp_spec a b :
  let s := N.max (dscale a) (dscale b) in dec_cmp a b = Z.compare (at_scale a s) (at_scale b s).
Proof.
  cbn zeta. unfold dec_cmp, at_scale, signed, p10.
  set (s := N.max (dscale a) (dscale b)).
  rewrite !N2Z.inj_mul.
  destruct (dneg a), (dneg b); f_equal; lia.
Qed.

(* addition / subtraction: when the model says the result is exact (DOk), it is exactly the sum at the larger scale,
   or, when one operand is zero, the other operand unchanged *)
Lemma dec_add_exact a b r :
  dec_add a b = DOk r ->
  (is_zero a = true /\ r = b) \/ (is_zero a = false /\ is_zero b = true /\ r = a) \/
  (let s := N.max (dscale a) (dscale b) in dscale r = s /\ signed r = at_scale a s + at_scale b s).
Proof.
  unfold dec_add. destruct (is_zero a) eqn:Za.
  { intros H. inversion H. left. split; reflexivity. }
  destruct (is_zero b) eqn:Zb.
  { intros H. inversion H. right. left. repeat split; reflexivity. }
  intros H. right. right. cbn zeta.
  set (s := N.max (dscale a) (dscale b)) in *.
  destruct (Bool.eqb (dneg a) (dneg b)) eqn:E.
  - apply fit_exact in H. destruct H as [H1 H2]. split; [exact H2|]. rewrite H1.
    unfold at_scale, signed, p10.
    apply Bool.eqb_prop in E. rewrite <- E. rewrite N2Z.inj_add, !N2Z.inj_mul. destruct (dneg a); lia.
  - destruct (N.leb_spec (dmant b * pow10 (s - dscale b)) (dmant a * pow10 (s - dscale a))) as [L|L];
      apply fit_exact in H; destruct H as [H1 H2]; (split; [exact H2|]); rewrite H1;
      unfold at_scale, signed, p10;
      rewrite N2Z.inj_sub by lia; rewrite !N2Z.inj_mul;
      destruct (dneg a), (dneg b); cbn in E; try discriminate; lia.
Qed.

Lemma dec_mul_exact a b r :
  dec_mul a b = DOk r ->
  ((is_zero a || is_zero b)%bool = true /\ r = dec_zero) \/
  (dscale r = (dscale a + dscale b)%N /\ signed r = signed a * signed b).
Proof.
  unfold dec_mul. destruct (is_zero a || is_zero b)%bool eqn:Z0.
  { intros H. inversion H. left. split; reflexivity. }
  destruct (fit (xorb (dneg a) (dneg b)) (dmant a * dmant b) (dscale a + dscale b)) as [d|d| | |] eqn:F; intros H; try discriminate.
  - inversion H; subst d. right. apply fit_exact in F. destruct F as [F1 F2]. split; [exact F2|].
    rewrite F1. unfold signed. rewrite N2Z.inj_mul. destruct (dneg a), (dneg b); cbn [xorb]; lia.
  - destruct (is_zero d); discriminate.
Qed.

