(** Literals: the transcription of rust_decimal's parser (Decimal.dec_of_string) returns exactly the digits and the scale
    written, whenever the literal has at most 28 fractional digits and its digits denote a number below 2^96. *)
From EE Require Import Chars Decimal.
Open Scope N_scope.

Definition dval (c : char) : N := c - 48.

(* reference reading of a digit string with at most one point: (all digits as one integer, number of fractional digits) *)
Fixpoint ref_read (point : bool) (data scale : N) (l : str) : N * N :=
  match l with
  | [] => (data, scale)
  | c :: r => if is_digit09 c then ref_read point (data * 10 + dval c) (if point then scale + 1 else scale) r
              else ref_read true data scale r
  end.

(* digits with at most one point (none once [point] is set) *)
Fixpoint shape (point : bool) (l : str) : bool :=
  match l with
  | [] => true
  | c :: r => if is_digit09 c then shape point r else (c =? 46) && negb point && shape true r
  end.

Lemma ref_read_mono point l : forall data scale, data <= fst (ref_read point data scale l) /\ scale <= snd (ref_read point data scale l).
Proof.
  revert point. induction l as [|c r IH]; intros point data scale; cbn [ref_read fst snd]; [lia|].
  destruct (is_digit09 c).
  - destruct (IH point (data * 10 + dval c) (if point then scale + 1 else scale)) as [A B]. destruct point; lia.
  - apply IH.
Qed.

(* once past the point every remaining character is a digit and adds one to the scale *)
Lemma ref_read_scale_point l : forall data scale, shape true l = true -> snd (ref_read true data scale l) = scale + N.of_nat (length l).
Proof.
  induction l as [|c r IH]; intros data scale H; cbn [ref_read shape length snd] in *; [lia|].
  destruct (is_digit09 c); [|cbn in H; rewrite andb_false_r in H; discriminate].
  rewrite IH by exact H. lia.
Qed.

Lemma full128_exact : forall bytes point data scale next,
  shape point (next :: bytes) = true ->
  fst (ref_read point data scale (next :: bytes)) < two96 -> snd (ref_read point data scale (next :: bytes)) <= 28 ->
  full128 point data scale next bytes =
  Some (mk false (fst (ref_read point data scale (next :: bytes))) (snd (ref_read point data scale (next :: bytes)))).
Proof.
  induction bytes as [|b bs IH]; intros point data scale next Hs Hd Hsc; cbn [full128].
  - cbn [ref_read shape] in *. destruct (is_digit09 next) eqn:Dg.
    + cbn [fst snd] in *. destruct (N.leb_spec two96 (data * 10 + (next - 48))) as [L|L]; [unfold dval in Hd; lia|]. reflexivity.
    + apply andb_prop in Hs. destruct Hs as [Hs _]. apply andb_prop in Hs. destruct Hs as [E Np]. rewrite E, Np. reflexivity.
  - remember (b :: bs) as rest eqn:Er. cbn [ref_read shape] in *. destruct (is_digit09 next) eqn:Dg.
    + set (nx := data * 10 + (next - 48)) in *.
      pose proof (ref_read_mono point rest nx (if point then scale + 1 else scale)) as [M1 M2]. fold (dval next) in *. unfold dval in *. fold nx in M1, Hd.
      destruct (N.leb_spec two96 nx) as [L|L]; [lia|].
      subst rest.
      assert (Hgate: point && (28 <=? (if point then scale + 1 else scale)) = false).
      { destruct point; [|reflexivity]. cbn [andb].
        rewrite ref_read_scale_point in Hsc by exact Hs. cbn [length] in Hsc. apply N.leb_gt. lia. }
      rewrite Hgate. apply IH; assumption.
    + apply andb_prop in Hs. destruct Hs as [Hs Hr]. apply andb_prop in Hs. destruct Hs as [E Np]. rewrite E, Np. cbn [andb].
      subst rest. apply IH; assumption.
Qed.

Lemma phase64_exact : forall bytes big point has data scale b,
  shape point (b :: bytes) = true -> (has = true \/ is_digit09 b = true) ->
  (point = false -> scale = 0) ->
  fst (ref_read point data scale (b :: bytes)) < two96 -> snd (ref_read point data scale (b :: bytes)) <= 28 ->
  phase64 big point has data scale b bytes =
  Some (mk false (fst (ref_read point data scale (b :: bytes))) (snd (ref_read point data scale (b :: bytes)))).
Proof.
  induction bytes as [|nx bs IH]; intros big point has data scale b Hs Hh Hz Hd Hsc; cbn [phase64].
  - cbn [ref_read shape] in *. destruct (is_digit09 b) eqn:Dg.
    + cbn [fst snd]. destruct point; [reflexivity|]. rewrite (Hz eq_refl). reflexivity.
    + apply andb_prop in Hs. destruct Hs as [Hs _]. apply andb_prop in Hs. destruct Hs as [E Np]. rewrite E, Np. cbn [andb].
      destruct Hh as [->|Hh]; [reflexivity | discriminate].
  - remember (nx :: bs) as rest eqn:Er. cbn [ref_read shape] in *. destruct (is_digit09 b) eqn:Dg.
    + set (d' := data * 10 + (b - 48)) in *. fold (dval b) in *. unfold dval in *. fold d' in Hd.
      set (s' := if point then scale + 1 else 0).
      assert (Es: (if point then scale + 1 else scale) = s') by (unfold s'; destruct point; [reflexivity | rewrite (Hz eq_refl); reflexivity]).
      rewrite Es in *. subst rest.
      assert (Hgate: point && big && (28 <=? s') = false).
      { destruct point; [|reflexivity]. cbn [andb]. destruct big; [|reflexivity]. cbn [andb].
        rewrite ref_read_scale_point in Hsc by exact Hs. cbn [length] in Hsc. apply N.leb_gt. lia. }
      rewrite Hgate.
      destruct (big && (WILL_OVERFLOW_U64 <=? d')).
      * apply full128_exact; assumption.
      * apply IH; try assumption; [left; reflexivity | intros Hp; unfold s'; rewrite Hp; reflexivity].
    + apply andb_prop in Hs. destruct Hs as [Hs Hr]. apply andb_prop in Hs. destruct Hs as [E Np]. rewrite E, Np. cbn [andb].
      subst rest. apply IH; try assumption.
      * destruct Hh as [Hh|Hh]; [left; exact Hh | discriminate].
      * intros Hp. discriminate.
Qed.

(* the literal theorem: for a digit string with at most one point that starts with a digit *)
Theorem dec_of_string_exact : forall c s,
  is_digit09 c = true -> shape false (c :: s) = true ->
  fst (ref_read false 0 0 (c :: s)) < two96 -> snd (ref_read false 0 0 (c :: s)) <= 28 ->
  dec_of_string (c :: s) = Some (mk false (fst (ref_read false 0 0 (c :: s))) (snd (ref_read false 0 0 (c :: s)))).
Proof.
  intros c s Dg Hs Hd Hsc. unfold dec_of_string. apply phase64_exact; try assumption; [right; exact Dg | reflexivity].
Qed.

(* a character outside digits and the point makes the literal invalid, wherever it is (before any rounding could hide it):
   stated for the first 17 characters, where the parser is still in its first phase, and in general for short strings *)
Lemma phase64_bad_char : forall bytes big point has data scale b,
  is_digit09 b = false -> (b =? 46) = false -> phase64 big point has data scale b bytes = None.
Proof. intros. destruct bytes; cbn [phase64]; rewrite H, H0; reflexivity. Qed.
