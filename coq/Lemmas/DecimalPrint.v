(** Printing a decimal and reading the text back gives the same decimal, digits and scale preserved:
    dec_of_string (dec_to_string d) = Some d for every non-negative d in range (the sign is a prefix operator of the language,
    not part of a literal). Used for number literals in the printer round trip (C12) and for C09's literal clause. *)
From EE Require Import Chars Decimal DecimalString.
Open Scope N_scope.

(* value of a digit string, least significant digit first / most significant digit first *)
Fixpoint val_rev (l : str) : N := match l with [] => 0 | c :: r => dval c + 10 * val_rev r end.
Fixpoint val_msd (acc : N) (l : str) : N := match l with [] => acc | c :: r => val_msd (acc * 10 + dval c) r end.

Lemma digit_ok n : is_digit09 (48 + n mod 10) = true /\ dval (48 + n mod 10) = n mod 10.
Proof.
  pose proof (N.mod_upper_bound n 10 ltac:(lia)) as H. set (x := n mod 10) in *. clearbody x. unfold is_digit09, dval. split; [|lia].
  apply andb_true_intro. split; apply N.leb_le; lia.
Qed.

Lemma digits_rev_spec : forall fuel n, n < 10 ^ N.of_nat fuel ->
  val_rev (digits_rev fuel n) = n /\ forallb is_digit09 (digits_rev fuel n) = true /\ (length (digits_rev fuel n) <= fuel)%nat.
Proof.
  induction fuel as [|f IH]; intros n H.
  - cbn in H. assert (n = 0) by lia. subst n. cbn. repeat split; lia.
  - cbn [digits_rev]. destruct (N.eqb_spec n 0) as [->|Hn]; [cbn; repeat split; lia|].
    assert (Hd : n / 10 < 10 ^ N.of_nat f).
    { apply N.div_lt_upper_bound; [lia|]. rewrite Nat2N.inj_succ, N.pow_succ_r' in H. exact H. }
    destruct (IH (n / 10) Hd) as (V & D & L). destruct (digit_ok n) as [D0 V0].
    cbn [val_rev forallb length]. rewrite V0, V, D0, D. repeat split; [|lia].
    pose proof (N.div_mod' n 10) as DM. set (q := n / 10) in *. set (r := n mod 10) in *. clearbody q r. lia.
Qed.

Lemma pad_to_spec : forall k l, forallb is_digit09 l = true ->
  val_rev (pad_to k l) = val_rev l /\ forallb is_digit09 (pad_to k l) = true /\
  length (pad_to k l) = Nat.max k (length l).
Proof.
  induction k as [|k IH]; intros l H; cbn [pad_to].
  - split; [reflexivity|]. split; [exact H | cbn; lia].
  - destruct l as [|c l].
    + destruct (IH [] eq_refl) as (V & D & L). cbn [val_rev forallb length] in *. rewrite V, D, L. split; [cbn; lia|]. split; [reflexivity | cbn; lia].
    + cbn [forallb] in H. apply andb_prop in H as [Hc Hl]. destruct (IH l Hl) as (V & D & L).
      cbn [val_rev forallb length]. rewrite V, D, L, Hc. split; [reflexivity|]. split; [reflexivity | lia].
Qed.

Lemma val_rev_app a b : val_rev (a ++ b) = val_rev a + 10 ^ N.of_nat (length a) * val_rev b.
Proof.
  induction a as [|c a IH]; cbn [app val_rev length]; [change (N.of_nat 0) with 0; rewrite N.pow_0_r; ring|].
  rewrite IH, Nat2N.inj_succ, N.pow_succ_r'. ring.
Qed.
Lemma val_msd_rev : forall l acc, val_msd acc (rev l) = acc * 10 ^ N.of_nat (length l) + val_rev l.
Proof.
  induction l as [|c l IH]; intros acc; cbn [rev val_rev length]; [change (N.of_nat 0) with 0; rewrite N.pow_0_r; cbn [val_msd]; ring|].
  assert (G : forall x y a, val_msd a (x ++ [y]) = val_msd a x * 10 + dval y).
  { induction x as [|x0 x IHx]; intros y a; cbn [app val_msd]; [reflexivity | apply IHx]. }
  rewrite G, IH, Nat2N.inj_succ, N.pow_succ_r'. ring.
Qed.
Lemma forallb_rev {A} (p : A -> bool) l : forallb p (rev l) = forallb p l.
Proof.
  induction l as [|x l IH]; [reflexivity|]. cbn [rev forallb]. rewrite forallb_app, IH. cbn [forallb]. rewrite andb_true_r. apply andb_comm.
Qed.

(* reading a run of digits *)
Lemma ref_read_digits : forall x point data scale rest, forallb is_digit09 x = true ->
  ref_read point data scale (x ++ rest) =
  ref_read point (val_msd data x) (if point then scale + N.of_nat (length x) else scale) rest.
Proof.
  induction x as [|c x IH]; intros point data scale rest H; cbn [app val_msd length].
  - destruct point; [f_equal; cbn; lia | reflexivity].
  - cbn [forallb] in H. apply andb_prop in H as [Hc Hx]. cbn [ref_read]. rewrite Hc. rewrite IH by exact Hx.
    destruct point; [f_equal; rewrite Nat2N.inj_succ; lia | reflexivity].
Qed.
Lemma shape_digits : forall x point rest, forallb is_digit09 x = true -> shape point (x ++ rest) = shape point rest.
Proof.
  induction x as [|c x IH]; intros point rest H; [reflexivity|]. cbn [forallb] in H. apply andb_prop in H as [Hc Hx].
  cbn [app shape]. rewrite Hc. apply IH. exact Hx.
Qed.

Lemma shape_all_digits : forall x point, forallb is_digit09 x = true -> shape point x = true.
Proof.
  induction x as [|c x IH]; intros point H; [reflexivity|]. cbn [forallb] in H. apply andb_prop in H as [Hc Hx].
  cbn [shape]. rewrite Hc. apply IH. exact Hx.
Qed.

Theorem dec_print_read : forall d, dneg d = false -> dmant d < two96 -> dscale d <= 28 ->
  dec_of_string (dec_to_string d) = Some (mk false (dmant d) (dscale d)).
Proof.
  intros [ng m s] Hn Hm Hs. cbn [dneg dmant dscale] in *. subst ng. unfold dec_to_string. cbn [dneg dmant dscale].
  set (sc := N.to_nat s).
  assert (Es : N.of_nat sc = s) by (unfold sc; apply N2Nat.id).
  assert (Hm40 : m < 10 ^ N.of_nat 40). { assert (two96 < 10 ^ N.of_nat 40) by (vm_compute; reflexivity). lia. }
  destruct (digits_rev_spec 40 m Hm40) as (V0 & D0 & _).
  destruct (pad_to_spec sc (digits_rev 40 m) D0) as (V1 & D1 & L1).
  set (chars := pad_to sc (digits_rev 40 m)) in *.
  assert (Hlen : (sc <= length chars)%nat) by lia.
  set (lo := firstn sc chars). set (hi := skipn sc chars).
  assert (Hsplit : chars = lo ++ hi) by (symmetry; apply firstn_skipn).
  assert (Llo : length lo = sc) by (unfold lo; rewrite firstn_length; lia).
  assert (Dlo : forallb is_digit09 lo = true /\ forallb is_digit09 hi = true).
  { rewrite Hsplit, forallb_app in D1. apply andb_prop in D1. exact D1. }
  destruct Dlo as [Dlo Dhi].
  assert (Vsplit : val_rev lo + 10 ^ s * val_rev hi = m).
  { rewrite <- V0, <- V1, Hsplit, val_rev_app, Llo, Es. reflexivity. }
  (* the whole part as printed, never empty *)
  set (whole' := match rev hi with [] => [48] | _ => rev hi end).
  assert (Hw : forallb is_digit09 whole' = true /\ val_msd 0 whole' = val_rev hi /\ exists c w, whole' = c :: w /\ is_digit09 c = true).
  { unfold whole'. destruct (rev hi) as [|c w] eqn:E.
    - assert (hi = []) by (destruct hi; [reflexivity | apply (f_equal (@length char)) in E; rewrite rev_length in E; discriminate]).
      subst hi. rewrite H. cbn. repeat split. exists 48, []. split; reflexivity.
    - rewrite <- E. rewrite forallb_rev. split; [exact Dhi|]. split; [rewrite val_msd_rev; lia|].
      exists c, w. split; [exact E|]. rewrite <- (forallb_rev is_digit09) in Dhi. rewrite E in Dhi. cbn [forallb] in Dhi.
      apply andb_prop in Dhi. apply Dhi. }
  destruct Hw as (Dw & Vw & c & w & Ew & Dc).
  fold lo hi. fold whole'.
  destruct sc as [|sc'] eqn:Esc.
  - (* no fractional digits *)
    cbn iota. assert (Hs0 : s = 0) by lia. rewrite Hs0 in *.
    assert (Hlo : lo = []) by (destruct lo; [reflexivity | discriminate]). rewrite N.pow_0_r in Vsplit.
    rewrite Ew. rewrite <- Ew.
    assert (R : ref_read false 0 0 whole' = (m, 0)).
    { rewrite <- (app_nil_r whole'). rewrite ref_read_digits by exact Dw. cbn [ref_read]. rewrite Vw. assert (Vlo : val_rev lo = 0) by (rewrite Hlo; reflexivity). f_equal; try reflexivity; lia. }
    rewrite Ew in *. rewrite dec_of_string_exact; [exact (f_equal2 (fun a b => Some (mk false a b)) (f_equal fst R) (f_equal snd R)) | exact Dc | | exact (eq_ind_r (fun z => fst z < two96) (Hm : fst (m, 0) < two96) R) | exact (eq_ind_r (fun z => snd z <= 28) (ltac:(cbn; lia) : snd (m, 0) <= 28) R)].
    apply shape_all_digits. exact Dw.
  - (* whole . frac *)
    cbn iota.
    assert (Dfr : forallb is_digit09 (rev lo) = true) by (rewrite forallb_rev; exact Dlo).
    assert (R : ref_read false 0 0 (whole' ++ c_dot :: rev lo) = (m, s)).
    { rewrite ref_read_digits by exact Dw. cbn [ref_read]. change (is_digit09 c_dot) with false. cbn iota.
      rewrite <- (app_nil_r (rev lo)). rewrite ref_read_digits by exact Dfr. cbn [ref_read].
      rewrite val_msd_rev, rev_length, Llo, Vw, Es. cbn iota. f_equal; try reflexivity; lia. }
    assert (Sh : shape false (whole' ++ c_dot :: rev lo) = true).
    { rewrite shape_digits by exact Dw. cbn [shape]. change (is_digit09 c_dot) with false. cbn iota.
      change (c_dot =? 46) with true. cbn [andb negb]. rewrite <- (app_nil_r (rev lo)). rewrite shape_digits by exact Dfr. reflexivity. }
    rewrite Ew in *. cbn [app] in *.
    rewrite dec_of_string_exact; [exact (f_equal2 (fun a b => Some (mk false a b)) (f_equal fst R) (f_equal snd R)) | exact Dc | exact Sh | exact (eq_ind_r (fun z => fst z < two96) (Hm : fst (m, s) < two96) R) | exact (eq_ind_r (fun z => snd z <= 28) (Hs : snd (m, s) <= 28) R)].
Qed.

(* the printed text of a non-negative decimal: a digit, then digits with at most one point *)
Lemma forallb_firstn {A} (p : A -> bool) : forall n l, forallb p l = true -> forallb p (firstn n l) = true.
Proof.
  induction n as [|n IH]; intros l H; [reflexivity|]. destruct l as [|x l]; [reflexivity|].
  cbn [forallb firstn] in *. apply andb_prop in H as [Hx Hl]. rewrite Hx, (IH l Hl). reflexivity.
Qed.
Lemma forallb_skipn {A} (p : A -> bool) : forall n l, forallb p l = true -> forallb p (skipn n l) = true.
Proof.
  induction n as [|n IH]; intros l H; [exact H|]. destruct l as [|x l]; [reflexivity|].
  cbn [forallb skipn] in *. apply andb_prop in H as [_ Hl]. apply IH. exact Hl.
Qed.
Lemma digits_are_numchars l : forallb is_digit09 l = true -> forallb (fun x => is_digit09 x || (x =? c_dot)) l = true.
Proof.
  induction l as [|x l IH]; [reflexivity|]. cbn [forallb]. intros H. apply andb_prop in H as [Hx Hl]. rewrite Hx, (IH Hl). reflexivity.
Qed.

Lemma dec_to_string_shape : forall d, dneg d = false -> dmant d < two96 ->
  exists c w, dec_to_string d = c :: w /\ is_digit09 c = true /\ forallb (fun x => is_digit09 x || (x =? c_dot)) w = true.
Proof.
  intros [ng m s] Hn Hm. cbn [dneg dmant dscale] in *. subst ng. unfold dec_to_string. cbn [dneg dmant dscale].
  assert (Hm40 : m < 10 ^ N.of_nat 40). { assert (two96 < 10 ^ N.of_nat 40) by (vm_compute; reflexivity). lia. }
  destruct (digits_rev_spec 40 m Hm40) as (_ & D0 & _).
  destruct (pad_to_spec (N.to_nat s) (digits_rev 40 m) D0) as (_ & D1 & _).
  set (chars := pad_to (N.to_nat s) (digits_rev 40 m)) in *.
  pose proof (forallb_firstn is_digit09 (N.to_nat s) chars D1) as Dlo. pose proof (forallb_skipn is_digit09 (N.to_nat s) chars D1) as Dhi.
  set (lo := firstn (N.to_nat s) chars) in *. set (hi := skipn (N.to_nat s) chars) in *.
  set (whole' := match rev hi with [] => [48] | _ => rev hi end).
  assert (Hw : exists c w, whole' = c :: w /\ is_digit09 c = true /\ forallb is_digit09 w = true).
  { unfold whole'. destruct (rev hi) as [|c w] eqn:E.
    - exists 48, []. repeat split.
    - exists c, w. split; [reflexivity|]. rewrite <- (forallb_rev is_digit09) in Dhi. rewrite E in Dhi. cbn [forallb] in Dhi.
      apply andb_prop in Dhi. exact Dhi. }
  destruct Hw as (c & w & Ew & Dc & Dw). fold whole'. rewrite Ew.
  destruct (N.to_nat s).
  - exists c, w. repeat split; [exact Dc | apply digits_are_numchars; exact Dw].
  - exists c, (w ++ c_dot :: rev lo). repeat split; [exact Dc|].
    rewrite forallb_app. apply andb_true_intro. split; [apply digits_are_numchars; exact Dw|].
    cbn [forallb]. apply andb_true_intro. split; [reflexivity|]. apply digits_are_numchars. rewrite forallb_rev. exact Dlo.
Qed.
