(** Lemma (A), part 2: for every well-formed, lexically sane tree the tokenizer model reads the printer model's text
    [expr t] as the token image [etoks t] - by induction over the tree, composing the single-token lemmas of LexPrint along
    the printer's layout (blanks around operators, no blank before , ; : and closing delimiters). *)
From EE Require Import Chars OpTable Decimal Token Lexer Ast Parser Printer Api Etoks Utf8 LexerSpec LexerTiling LexerWs
  DecimalString DecimalPrint LexPrint ParserFuel ParserMono ParserSteps PrattFull PrattParen RoundTrip.
Open Scope N_scope.

Section LE.
Variable tbl : optable.
Hypothesis ops_no_ws : forall w x, is_ws x = true -> is_op tbl (w ++ [x]) = false.
Hypothesis word_ops_param : forall w, is_op tbl w = true -> forallb is_param_char w = true \/
  match w with c :: _ => is_special c = true | [] => True end.
Hypothesis ops_no_sep : forall w x, w <> [] -> ksep x = true -> is_op tbl (w ++ [x]) = false.
(* every registered operator is either symbolic (a special character followed by characters along which every prefix is
   registered too) or a word that contains no word-ending character *)
Definition opsane (o : str) : Prop :=
  match o with
  | [] => False
  | c :: bt => (is_special c = true /\ pops tbl [c] bt) \/ (wordstart c /\ forallb not_ws_delim (c :: bt) = true)
  end.
Hypothesis ops_sane : forall o, is_op tbl o = true -> opsane o.
Hypothesis colon_plain : forall x, is_op tbl [58; x] = false.
Hypothesis true_not_op : is_op tbl s_true = false.
Hypothesis false_not_op : is_op tbl s_false = false.
Hypothesis not_is_op : is_op tbl s_not = true.

Notation TX := (LexPrint.TX tbl).
Notation expr := (Printer.expr tbl).
Notation etoks := (Etoks.etoks tbl).
Notation wf := (Etoks.wf tbl).

(* lexical sanity of the leaves *)
Definition name_ok (n : str) : Prop :=
  match n with
  | c :: bt => wordstart c /\ forallb is_param_char bt = true /\ is_op tbl n = false /\ is_kw n = false
  | [] => False
  end.
Definition lit_ok (l : literal) : Prop :=
  match l with
  | LNum d => dneg d = false /\ dmant d < two96 /\ dscale d <= 28
  | LBool _ => True
  | LStr s => existsb (fun c => c =? c_dquote) s && existsb (fun c => c =? c_squote) s = false
  end.
Fixpoint psane (t : ast) : Prop :=
  match t with
  | ALit l => lit_ok l
  | ARef n => name_ok n
  | AUnary _ e => psane e
  | ABinary _ l r => psane l /\ psane r
  | APostfix e _ => psane e
  | ATernary c a b => psane c /\ psane a /\ psane b
  | AFunc n args => name_ok n /\ (fix go (l : list ast) : Prop := match l with [] => True | x :: r => psane x /\ go r end) args
  | AList es => (fix go (l : list ast) : Prop := match l with [] => True | x :: r => psane x /\ go r end) es
  | AMap kvs => (fix go (l : list (ast * ast)) : Prop := match l with [] => True | (k, v) :: r => psane k /\ psane v /\ go r end) kvs
  | AStmt es => (fix go (l : list ast) : Prop := match l with [] => True | x :: r => psane x /\ go r end) es
  | ANone => True
  end.

(* ---------- operators *)
Lemma TX_op o : is_op tbl o = true -> TX kstop o [TOp o].
Proof.
  intros H. pose proof (ops_sane o H) as S. destruct o as [|c bt]; [contradiction|]. destruct S as [[Hs Hp]|[Hw Hb]].
  - apply (TX_symop tbl ops_no_ws ops_no_sep c bt Hs Hp).
  - apply (TX_wordop tbl c bt Hw Hb H).
Qed.
Lemma op_head o : is_op tbl o = true -> exists c bt, o = c :: bt /\ is_ws c = false /\ (c =? c_lparen) = false.
Proof.
  intros H. pose proof (ops_sane o H) as S. destruct o as [|c bt]; [contradiction|]. exists c, bt. split; [reflexivity|].
  destruct S as [[Hs _]|[(W & _ & D & _) _]].
  - unfold is_special in Hs. repeat (apply orb_prop in Hs; destruct Hs as [Hs|Hs]); apply N.eqb_eq in Hs; subst c; split; reflexivity.
  - split; [exact W|]. unfold is_delim in D. destruct (N.eqb_spec c c_lparen) as [->|]; [discriminate D | reflexivity].
Qed.
Lemma infix_is_op o : Etoks.plainb tbl o = true -> is_op tbl o = true.
Proof.
  unfold Etoks.plainb. intros H. apply andb_prop in H as [_ H]. apply Z.leb_le in H.
  unfold is_op, is_infix. unfold binding_power in H. destruct (infix_cfg_of tbl o); [rewrite orb_true_r; reflexivity | cbn in H; lia].
Qed.
Lemma prefix_is_op o : Etoks.prefixb tbl o = true -> is_op tbl o = true.
Proof. unfold Etoks.prefixb. intros H. apply andb_prop in H as [H _]. unfold is_op. rewrite H. reflexivity. Qed.
Lemma postfix_is_op o : is_postfix tbl o = true -> is_op tbl o = true.
Proof. intros H. unfold is_op. rewrite H. rewrite !orb_true_r. reflexivity. Qed.

(* " op" : a blank, then the operator *)
Lemma TX_sp_op o : is_op tbl o = true -> TX kstop (sp ++ o) [TOp o].
Proof. intros H. apply TX_sp. apply TX_op. exact H. Qed.

(* what follows a complete expression when a blank and an operator come next *)
Lemma kend_sp_op o x : is_op tbl o = true -> kend (sp ++ o ++ x).
Proof. intros H. destruct (op_head o H) as (c & bt & -> & W & P). apply kend_sp; assumption. Qed.

(* ---------- parentheses *)
Lemma TX_paren (b : bool) s ts : TX kend s ts -> TX kend (Printer.paren b s) (ptoks b ts).
Proof.
  intros H. destruct b; cbn [Printer.paren ptoks]; [|exact H].
  apply (TX_mono tbl rany kend); [intros; exact I|].
  change (c_lparen :: s ++ [c_rparen]) with ([delim_char DLParen] ++ s ++ [delim_char DRParen]).
  change (paren ts) with ([TDelim DLParen] ++ ts ++ [TDelim DRParen]).
  apply (TX_app tbl rany rany); [apply TX_delim | | intros; exact I].
  apply (TX_app tbl kend rany); [exact H | apply TX_delim | intros k _; apply kend_sep; reflexivity].
Qed.

(* ---------- the printer's text of containers, with named helper functions *)
Fixpoint sep_str (l : list ast) : str :=
  match l with [] => [] | x :: r => match r with [] => expr x | _ => expr x ++ c_comma :: sep_str r end end.
Fixpoint sepm_str (l : list (ast * ast)) : str :=
  match l with
  | [] => []
  | (k, v) :: r => match r with
                   | [] => expr k ++ s_colon ++ expr v
                   | _ => expr k ++ s_colon ++ expr v ++ c_comma :: sepm_str r
                   end
  end.
Lemma expr_func n args : expr (AFunc n args) = n ++ c_lparen :: sep_str args ++ [c_rparen]. Proof. reflexivity. Qed.
Lemma expr_list es : expr (AList es) = c_lbrack :: sep_str es ++ [c_rbrack]. Proof. reflexivity. Qed.
Lemma expr_map kvs : expr (AMap kvs) = c_lbrace :: sepm_str kvs ++ [c_rbrace]. Proof. reflexivity. Qed.

Lemma expr_mk nt o l r :
  expr (mk nt o l r) = Printer.paren (negb (Etoks.lbare tbl l o)) (expr l) ++ sp ++ (if nt then s_not ++ sp ++ o else o) ++ sp ++
                       Printer.paren (negb (Etoks.rbare tbl r o)) (expr r).
Proof.
  unfold Etoks.lbare, Etoks.rbare, Etoks.lparen, Etoks.rparen. rewrite !negb_involutive.
  destruct nt; cbn [mk Printer.expr]; [change (str_eqb s_not s_not) with true; cbn iota|];
    destruct (binding_power tbl o) as [lb rb]; cbn [fst snd]; reflexivity.
Qed.
Lemma expr_unary n e : is_infix_like (AUnary n e) = false ->
  expr (AUnary n e) = n ++ sp ++ Printer.paren (is_ternary e || is_infix_like e) (expr e).
Proof.
  intros H. destruct e; try reflexivity. unfold is_infix_like, infix_like in H. cbn [Printer.expr].
  destruct (str_eqb n s_not); [discriminate | reflexivity].
Qed.

Lemma existsb_false_forallb (q : char) s : existsb (fun c => c =? q) s = false -> forallb (fun c => negb (c =? q)) s = true.
Proof.
  induction s as [|x s IH]; [reflexivity|]. cbn [existsb forallb]. intros H. apply orb_false_elim in H as [H1 H2].
  rewrite H1, (IH H2). reflexivity.
Qed.

Lemma TX_sym1 c : is_special c = true -> TX kstop [c] [TOp [c]].
Proof.
  intros Hs. apply TX_one. intros g cur k Hg Hk. eexists. split; [cbn [app]; rewrite (lex_sym1 tbl ops_no_ws ops_no_sep cur g c k Hg Hs Hk); f_equal; cbn [blen]; lia | reflexivity].
Qed.
Lemma TX_colon : TX rany s_colon [TOp s_colon].
Proof.
  apply TX_one. intros g cur k Hg _.
  assert (Hk : match k with [] => True | x :: _ => is_op tbl [58; x] = false end) by (destruct k; [exact I | apply colon_plain]).
  pose proof (lex_sym1_gen tbl cur g 58 k Hg eq_refl Hk) as L.
  eexists. split; [change (g ++ s_colon ++ k) with (g ++ 58 :: k); unfold str, char in *; rewrite L; f_equal; cbn; lia | reflexivity].
Qed.

(* ---------- leaves *)
Lemma TX_lit l : lit_ok l -> TX kend (lit_expr l) [lit_tok l].
Proof.
  destruct l as [d|b|s]; cbn [lit_ok lit_expr lit_tok].
  - intros (Hn & Hm & Hs). destruct (dec_to_string_shape d Hn Hm) as (c & w & E & Hc & Hw). rewrite E.
    apply (TX_mono tbl kstop kend (c :: w)); [apply kend_kstop|].
    apply (TX_number tbl c w d Hc Hw). rewrite <- E. rewrite (dec_print_read d Hn Hm Hs).
    destruct d as [ng m sc]. cbn [dneg dmant dscale] in *. subst ng. reflexivity.
  - intros _. apply (TX_mono tbl kstop kend); [apply kend_kstop|]. destruct b.
    + apply (TX_bool tbl word_ops_param true true_not_op).
    + apply (TX_bool tbl word_ops_param false false_not_op).
  - intros H. apply (TX_mono tbl rany kend); [intros; exact I|].
    destruct (existsb (fun c => c =? c_dquote) s) eqn:D.
    + cbn [andb] in H. apply TX_string; [reflexivity | apply existsb_false_forallb; exact H].
    + apply TX_string; [reflexivity | apply existsb_false_forallb; exact D].
Qed.

Lemma TX_name n : name_ok n -> TX kend n [TRef n].
Proof.
  destruct n as [|c bt]; [contradiction|]. intros (Hw & Hb & Ho & Hk).
  apply (TX_ref tbl word_ops_param c bt Hw Hb Ho Hk).
Qed.
Lemma TX_fname n : name_ok n -> TX rany (n ++ [c_lparen]) [TFunc n; TDelim DLParen].
Proof.
  destruct n as [|c bt]; [contradiction|]. intros (Hw & Hb & Ho & Hk).
  apply (TX_funcname tbl word_ops_param c bt Hw Hb Ho Hk).
Qed.

(* ---------- comma-separated elements *)
Lemma TX_seplist : forall l, l <> [] -> (forall x, In x l -> TX kend (expr x) (etoks x)) -> TX kend (sep_str l) (xsep_toks tbl l).
Proof.
  induction l as [|x r IH]; intros Hne H; [contradiction|]. destruct r as [|y r'].
  - cbn [sep_str xsep_toks]. apply H. left; reflexivity.
  - change (sep_str (x :: y :: r')) with (expr x ++ [c_comma] ++ sep_str (y :: r')).
    change (xsep_toks tbl (x :: y :: r')) with (etoks x ++ [TComma] ++ xsep_toks tbl (y :: r')).
    apply (TX_app tbl kend kend); [apply H; left; reflexivity | | intros k _; apply kend_sep; reflexivity].
    apply (TX_app tbl rany kend); [apply TX_comma | | intros; exact I].
    apply IH; [discriminate | intros z Hz; apply H; right; exact Hz].
Qed.
Lemma TX_sepmap : forall l, l <> [] ->
  (forall k v, In (k, v) l -> TX kend (expr k) (etoks k) /\ TX kend (expr v) (etoks v)) -> TX kend (sepm_str l) (xsep_map tbl l).
Proof.
  induction l as [|[k v] r IH]; intros Hne H; [contradiction|].
  destruct (H k v (or_introl eq_refl)) as [Hk Hv].
  assert (Entry : TX kend (expr k ++ s_colon ++ expr v) (etoks k ++ [TOp s_colon] ++ etoks v)).
  { apply (TX_app tbl kend kend); [exact Hk | | intros k0 _; apply kend_sep; reflexivity].
    apply (TX_app tbl rany kend); [apply TX_colon | exact Hv | intros; exact I]. }
  destruct r as [|p r'].
  - cbn [sepm_str xsep_map]. exact Entry.
  - change (sepm_str ((k, v) :: p :: r')) with (expr k ++ s_colon ++ expr v ++ c_comma :: sepm_str (p :: r')).
    change (xsep_map tbl ((k, v) :: p :: r')) with (etoks k ++ TOp s_colon :: etoks v ++ TComma :: xsep_map tbl (p :: r')).
    replace (expr k ++ s_colon ++ expr v ++ c_comma :: sepm_str (p :: r')) with ((expr k ++ s_colon ++ expr v) ++ [c_comma] ++ sepm_str (p :: r'))
      by (rewrite <- !app_assoc; reflexivity).
    replace (etoks k ++ TOp s_colon :: etoks v ++ TComma :: xsep_map tbl (p :: r')) with ((etoks k ++ [TOp s_colon] ++ etoks v) ++ [TComma] ++ xsep_map tbl (p :: r'))
      by (rewrite <- !app_assoc; reflexivity).
    apply (TX_app tbl kend kend); [exact Entry | | intros k0 _; apply kend_sep; reflexivity].
    apply (TX_app tbl rany kend); [apply TX_comma | | intros; exact I].
    apply IH; [discriminate | intros a b Hab; apply H; right; exact Hab].
Qed.

(* ---------- every expression *)
Lemma psane_list_in (l : list ast) :
  (fix go (l : list ast) : Prop := match l with [] => True | x :: r => psane x /\ go r end) l -> forall x, In x l -> psane x.
Proof. induction l as [|y r IH]; intros H x Hx; [contradiction|]. destruct H as [Hy Hr]. destruct Hx as [<-|Hx]; [exact Hy | apply IH; assumption]. Qed.
Lemma psane_map_in (l : list (ast * ast)) :
  (fix go (l : list (ast * ast)) : Prop := match l with [] => True | (k, v) :: r => psane k /\ psane v /\ go r end) l ->
  forall k v, In (k, v) l -> psane k /\ psane v.
Proof.
  induction l as [|[k0 v0] r IH]; intros H k v Hx; [contradiction|]. destruct H as (Hk & Hv & Hr).
  destruct Hx as [E|Hx]; [inversion E; subst; auto | apply IH; assumption].
Qed.
Lemma wfl_in l : wfl tbl l = true -> forall x, In x l -> wf x = true.
Proof. induction l as [|y r IH]; intros H x Hx; [contradiction|]. cbn [wfl] in H. apply andb_prop in H as [Hy Hr]. destruct Hx as [<-|Hx]; [exact Hy | apply IH; assumption]. Qed.
Lemma wfm_in l : wfm tbl l = true -> forall k v, In (k, v) l -> wf k = true /\ wf v = true.
Proof.
  induction l as [|[k0 v0] r IH]; intros H k v Hx; [contradiction|]. cbn [wfm] in H. apply andb_prop in H as [H Hr]. apply andb_prop in H as [Hk Hv].
  destruct Hx as [E|Hx]; [inversion E; subst; auto | apply IH; assumption].
Qed.
Lemma sizel_in l : forall x, In x l -> (size x <= sizel l)%nat.
Proof. induction l as [|y r IH]; intros x Hx; [contradiction|]. cbn [sizel]. destruct Hx as [<-|Hx]; [lia | specialize (IH x Hx); lia]. Qed.
Lemma sizem_in l : forall k v, In (k, v) l -> (size k <= sizem l /\ size v <= sizem l)%nat.
Proof.
  induction l as [|[k0 v0] r IH]; intros k v Hx; [contradiction|]. cbn [sizem]. destruct Hx as [E|Hx]; [inversion E; subst; lia | specialize (IH k v Hx); lia].
Qed.

Theorem TX_expr : forall n t, (size t < n)%nat -> wf t = true -> psane t -> TX kend (expr t) (etoks t).
Proof.
  induction n as [|n IH]; intros t Hs W PS; [lia|].
  destruct (is_infix_like t) eqn:Hil.
  - (* x OP y  /  x not OP y *)
    destruct (infix_like_inv t Hil) as (nt & o & l & r & ->). destruct (wf_mk tbl _ _ _ _ W) as (Hpo & Wl & Wr).
    destruct (size_mk nt o l r) as [Sl Sr].
    assert (PSl : psane l /\ psane r) by (destruct nt; cbn [mk psane] in PS; exact PS). destruct PSl as [PSl PSr].
    pose proof (infix_is_op o Hpo) as Oo.
    rewrite expr_mk, (xetoks_mk tbl).
    apply (TX_app tbl kend kend); [apply TX_paren; apply (IH l); [lia | exact Wl | exact PSl] | |].
    + (* " op " or " not op ", then the right operand *)
      replace (sp ++ (if nt then s_not ++ sp ++ o else o) ++ sp ++ Printer.paren (negb (Etoks.rbare tbl r o)) (expr r))
        with ((sp ++ (if nt then s_not ++ sp ++ o else o)) ++ sp ++ Printer.paren (negb (Etoks.rbare tbl r o)) (expr r))
        by (rewrite <- !app_assoc; reflexivity).
      unfold xrtoks.
      apply (TX_app tbl kstop kend).
      * destruct nt; cbn [optoks].
        -- change [TOp s_not; TOp o] with ([TOp s_not] ++ [TOp o]).
           replace (sp ++ s_not ++ sp ++ o) with ((sp ++ s_not) ++ sp ++ o) by (rewrite <- !app_assoc; reflexivity).
           apply (TX_app tbl kstop kstop); [apply TX_sp_op; exact not_is_op | apply TX_sp_op; exact Oo | intros; apply kstop_sp].
        -- apply TX_sp_op. exact Oo.
      * apply TX_sp. apply TX_paren. apply (IH r); [lia | exact Wr | exact PSr].
      * intros k _. apply kstop_sp.
    + intros k _. destruct nt; rewrite <- ?app_assoc; [apply (kend_sp_op s_not); exact not_is_op | apply (kend_sp_op o); exact Oo].
  - destruct t; try discriminate Hil; try discriminate W.
    + (* literal *) cbn [Printer.expr]. change (etoks (ALit l)) with [lit_tok l]. apply TX_lit. exact PS.
    + (* prefix operator *)
      destruct (wf_unary tbl _ _ Hil W) as [Hp We]. rewrite (expr_unary _ _ Hil), (xetoks_unary tbl _ _ Hil).
      change (TOp op :: ptoks (is_ternary t || is_infix_like t) (etoks t)) with ([TOp op] ++ ptoks (is_ternary t || is_infix_like t) (etoks t)).
      apply (TX_app tbl kstop kend); [apply TX_op; apply prefix_is_op; exact Hp | | intros; apply kstop_sp].
      apply TX_sp. apply TX_paren. apply (IH t); [cbn [size] in Hs; lia | exact We | exact PS].
    + (* postfix operator *)
      cbn [wf] in W. apply andb_prop in W as [Hpo We]. cbn [Printer.expr]. rewrite (xetoks_postfix tbl).
      apply (TX_mono tbl kstop kend); [apply kend_kstop|].
      apply (TX_app tbl kend kstop); [apply TX_paren; apply (IH t); [cbn [size] in Hs; lia | exact We | exact PS] | |].
      * apply TX_sp_op. apply postfix_is_op. exact Hpo.
      * intros k _. apply kend_sp_op. apply postfix_is_op. exact Hpo.
    + (* conditional *)
      cbn [wf] in W. apply andb_prop in W as [W Wb]. apply andb_prop in W as [Wc Wa]. destruct PS as (PSc & PSa & PSb).
      cbn [size] in Hs. cbn [Printer.expr]. rewrite (xetoks_ternary tbl).
      apply (TX_app tbl kend kend); [apply TX_paren; apply (IH t1); [lia | exact Wc | exact PSc] | |].
      * change (TOp s_qmark :: etoks t2 ++ TOp s_colon :: etoks t3) with ([TOp s_qmark] ++ etoks t2 ++ [TOp s_colon] ++ etoks t3).
        replace (sp ++ s_qmark ++ sp ++ expr t2 ++ sp ++ s_colon ++ sp ++ expr t3)
          with ((sp ++ s_qmark) ++ (sp ++ expr t2) ++ (sp ++ s_colon) ++ (sp ++ expr t3)) by (rewrite <- !app_assoc; reflexivity).
        apply (TX_app tbl kstop kend); [apply TX_sp; apply TX_sym1; reflexivity | | intros; apply kstop_sp].
        apply (TX_app tbl kend kend); [apply TX_sp; apply (IH t2); [lia | exact Wa | exact PSa] | |].
        -- apply (TX_app tbl kstop kend); [apply TX_sp; apply TX_sym1; reflexivity | | intros; apply kstop_sp].
           apply TX_sp. apply (IH t3); [lia | exact Wb | exact PSb].
        -- intros k _. rewrite <- app_assoc. apply kend_sp; reflexivity.
      * intros k _. apply kend_sp; reflexivity.
    + (* name *) cbn [Printer.expr]. change (etoks (ARef n0)) with [TRef n0]. apply TX_name. exact PS.
    + (* call *)
      destruct PS as [PN PA]. rewrite (wf_func tbl) in W. rewrite expr_func, (xetoks_func tbl). cbn [size] in Hs. fold (sizel args) in Hs.
      change (TFunc n0 :: TDelim DLParen :: xsep_toks tbl args ++ [TDelim DRParen]) with ([TFunc n0; TDelim DLParen] ++ xsep_toks tbl args ++ [TDelim DRParen]).
      replace (n0 ++ c_lparen :: sep_str args ++ [c_rparen]) with ((n0 ++ [c_lparen]) ++ sep_str args ++ [c_rparen])
        by (rewrite <- app_assoc; reflexivity).
      apply (TX_mono tbl rany kend); [intros; exact I|].
      apply (TX_app tbl rany rany); [apply TX_fname; exact PN | | intros; exact I].
      destruct args as [|a0 ar].
      * cbn [sep_str xsep_toks app]. apply (TX_delim tbl DRParen).
      * apply (TX_app tbl kend rany); [| apply (TX_delim tbl DRParen) | intros k _; apply kend_sep; reflexivity].
        apply TX_seplist; [discriminate|]. intros x Hx.
        apply (IH x); [pose proof (sizel_in (a0 :: ar) x Hx); lia | apply (wfl_in (a0 :: ar) W x Hx) | apply (psane_list_in (a0 :: ar) PA x Hx)].
    + (* list *)
      rewrite (wf_list tbl) in W. rewrite expr_list, (xetoks_list tbl). cbn [size] in Hs. fold (sizel es) in Hs.
      change (TDelim DLBrack :: xsep_toks tbl es ++ [TDelim DRBrack]) with ([TDelim DLBrack] ++ xsep_toks tbl es ++ [TDelim DRBrack]).
      change (c_lbrack :: sep_str es ++ [c_rbrack]) with ([delim_char DLBrack] ++ sep_str es ++ [delim_char DRBrack]).
      apply (TX_mono tbl rany kend); [intros; exact I|].
      apply (TX_app tbl rany rany); [apply TX_delim | | intros; exact I].
      destruct es as [|a0 ar].
      * cbn [sep_str xsep_toks app]. apply TX_delim.
      * apply (TX_app tbl kend rany); [| apply TX_delim | intros k _; apply kend_sep; reflexivity].
        apply TX_seplist; [discriminate|]. intros x Hx.
        apply (IH x); [pose proof (sizel_in (a0 :: ar) x Hx); lia | apply (wfl_in (a0 :: ar) W x Hx) | apply (psane_list_in (a0 :: ar) PS x Hx)].
    + (* map *)
      rewrite (wf_map tbl) in W. rewrite expr_map, (xetoks_map tbl). cbn [size] in Hs. fold (sizem kvs) in Hs.
      change (TDelim DLBrace :: xsep_map tbl kvs ++ [TDelim DRBrace]) with ([TDelim DLBrace] ++ xsep_map tbl kvs ++ [TDelim DRBrace]).
      change (c_lbrace :: sepm_str kvs ++ [c_rbrace]) with ([delim_char DLBrace] ++ sepm_str kvs ++ [delim_char DRBrace]).
      apply (TX_mono tbl rany kend); [intros; exact I|].
      apply (TX_app tbl rany rany); [apply TX_delim | | intros; exact I].
      destruct kvs as [|a0 ar].
      * cbn [sepm_str xsep_map app]. apply TX_delim.
      * apply (TX_app tbl kend rany); [| apply TX_delim | intros k _; apply kend_sep; reflexivity].
        apply TX_sepmap; [discriminate|]. intros k v Hx.
        destruct (wfm_in (a0 :: ar) W k v Hx) as [Wk Wv]. destruct (psane_map_in (a0 :: ar) PS k v Hx) as [Pk Pv]. destruct (sizem_in (a0 :: ar) k v Hx) as [Sk Sv].
        split; [apply (IH k); [lia | exact Wk | exact Pk] | apply (IH v); [lia | exact Wv | exact Pv]].
Qed.
End LE.

(** * From pieces to whole programs, and the table conditions as a computable check *)
Section Top.
Variable tbl : optable.

Definition opsaneb (o : str) : bool :=
  match o with
  | [] => false
  | c :: bt =>
      (is_special c && (fix popsb (done w : str) : bool := match w with [] => true | x :: w' => is_op tbl (done ++ [x]) && popsb (done ++ [x]) w' end) [c] bt) ||
      (negb (is_ws c) && negb (is_special c) && negb (is_delim c) && negb (is_digit09 c) && negb (is_quote c) &&
       negb (c =? c_semi) && negb (c =? c_comma) && forallb not_ws_delim o)
  end.
Definition no_sep_end (o : str) : bool := match rev o with x :: _ :: _ => negb (ksep x) | _ => true end.
Definition not_colon2 (o : str) : bool := match o with [a; _] => negb (a =? 58) | _ => true end.
Definition tbl_print_okb : bool :=
  tbl_lex_okb tbl && forallb (fun o => opsaneb o && no_sep_end o && not_colon2 o) (all_ops tbl) &&
  negb (is_op tbl s_true) && negb (is_op tbl s_false) && is_op tbl s_not.

Lemma popsb_pops : forall w done,
  (fix popsb (done w : str) : bool := match w with [] => true | x :: w' => is_op tbl (done ++ [x]) && popsb (done ++ [x]) w' end) done w = true ->
  pops tbl done w.
Proof.
  induction w as [|x w IH]; intros done H; cbn [pops]; [exact I|]. apply andb_prop in H as [H1 H2]. split; [exact H1 | apply IH; exact H2].
Qed.

Record tbl_print_ok : Prop := {
  po_no_ws : forall w x, is_ws x = true -> is_op tbl (w ++ [x]) = false;
  po_word : forall w, is_op tbl w = true -> forallb is_param_char w = true \/ match w with c :: _ => is_special c = true | [] => True end;
  po_no_sep : forall w x, w <> [] -> ksep x = true -> is_op tbl (w ++ [x]) = false;
  po_sane : forall o, is_op tbl o = true -> opsane tbl o;
  po_colon : forall x, is_op tbl [58; x] = false;
  po_true : is_op tbl s_true = false;
  po_false : is_op tbl s_false = false;
  po_not : is_op tbl s_not = true
}.

Lemma tbl_print_okb_ok : tbl_print_okb = true -> tbl_print_ok.
Proof.
  unfold tbl_print_okb. intros H.
  apply andb_prop in H as [H Hnot]. apply andb_prop in H as [H Hf]. apply andb_prop in H as [H Ht]. apply andb_prop in H as [Hlex Hall].
  apply negb_true_iff in Ht, Hf. destruct (tbl_lex_ok tbl Hlex) as [T1 T2]. rewrite forallb_forall in Hall.
  assert (A : forall o, is_op tbl o = true -> opsaneb o = true /\ no_sep_end o = true /\ not_colon2 o = true).
  { intros o Ho. specialize (Hall o (is_op_in tbl o Ho)). apply andb_prop in Hall as [Hall H3]. apply andb_prop in Hall as [H1 H2]. auto. }
  constructor; try assumption.
  - intros w x Hw Hx. destruct (is_op tbl (w ++ [x])) eqn:O; [|reflexivity]. exfalso.
    destruct (A _ O) as (_ & N & _). unfold no_sep_end in N. rewrite rev_app_distr in N. cbn [rev app] in N.
    destruct (rev w) as [|y ys] eqn:R.
    + apply (f_equal (@length char)) in R. rewrite rev_length in R. destruct w; [contradiction | discriminate].
    + rewrite Hx in N. discriminate.
  - intros o Ho. destruct (A _ Ho) as (S & _ & _). unfold opsaneb in S. destruct o as [|c bt]; [discriminate|]. cbn [opsane].
    apply orb_prop in S as [S|S].
    + apply andb_prop in S as [S1 S2]. left. split; [exact S1 | apply popsb_pops; exact S2].
    + right. repeat (apply andb_prop in S as [S ?]). repeat match goal with X : negb _ = true |- _ => apply negb_true_iff in X end.
      unfold wordstart. repeat split; assumption.
  - intros x. destruct (is_op tbl [58; x]) eqn:O; [|reflexivity]. destruct (A _ O) as (_ & _ & C). discriminate C.
Qed.

Fixpoint stmt_str (l : list ast) : str :=
  match l with [] => [] | x :: r => match r with [] => Printer.expr tbl x | _ => Printer.expr tbl x ++ c_semi :: stmt_str r end end.
Lemma expr_stmt es : Printer.expr tbl (AStmt es) = stmt_str es. Proof. reflexivity. Qed.

Hypothesis POK : tbl_print_ok.

Lemma TX_tree t : Etoks.wf tbl t = true -> psane tbl t -> LexPrint.TX tbl kend (Printer.expr tbl t) (Etoks.etoks tbl t).
Proof.
  intros W P. destruct POK.
  apply (TX_expr tbl po_no_ws0 po_word0 po_no_sep0 po_sane0 po_colon0 po_true0 po_false0 po_not0 (S (size t)) t); [lia | exact W | exact P].
Qed.

Lemma TX_stmts : forall l, l <> [] -> (forall x, In x l -> Etoks.wf tbl x = true /\ psane tbl x) ->
  LexPrint.TX tbl kend (stmt_str l) (stoks tbl l).
Proof.
  induction l as [|x r IH]; intros Hne H; [contradiction|]. destruct (H x (or_introl eq_refl)) as [Wx Px]. destruct r as [|y r'].
  - cbn [stmt_str stoks]. apply TX_tree; assumption.
  - change (stmt_str (x :: y :: r')) with (Printer.expr tbl x ++ [c_semi] ++ stmt_str (y :: r')).
    change (stoks tbl (x :: y :: r')) with (Etoks.etoks tbl x ++ [TSemi] ++ stoks tbl (y :: r')).
    apply (TX_app tbl kend kend); [apply TX_tree; assumption | | intros k _; apply kend_sep; reflexivity].
    apply (TX_app tbl rany kend); [apply TX_semi | | intros; exact I].
    apply IH; [discriminate | intros z Hz; apply H; right; exact Hz].
Qed.

Lemma Lexes_of_TX s ts : LexPrint.TX tbl kend s ts -> Lexes tbl 0 s ts.
Proof.
  intros H. pose proof (H [] 0 [] [] eq_refl kend_nil) as L. rewrite !app_nil_r in L. cbn [app] in L. apply L.
  apply Lx_eof. reflexivity.
Qed.

Lemma tok_eqb_refl t : tok_eqb t t = true.
Proof.
  assert (S : forall x, str_eqb x x = true) by (intros x; apply str_eqb_eq; reflexivity).
  destruct t; cbn [tok_eqb]; try apply S; try reflexivity.
  - destruct d; reflexivity.
  - unfold dec_eqb. rewrite Bool.eqb_reflx, !N.eqb_refl. reflexivity.
  - apply Bool.eqb_reflx.
Qed.
Lemma toks_eqb_refl l : toks_eqb l l = true.
Proof. induction l as [|t l IH]; [reflexivity|]. cbn [toks_eqb]. rewrite tok_eqb_refl, IH. reflexivity. Qed.

(* lexical sanity of a program: of the expression, or of every statement *)
Definition psane_top (t : ast) : Prop := psane tbl t.

Theorem printer_tokens_hold : forall t, premises tbl t = true -> psane_top t -> printer_tokens tbl t = true.
Proof.
  intros t HP PS. unfold premises in HP. apply andb_prop in HP as [_ HP]. unfold printer_tokens.
  assert (HL : Lexes tbl 0 (Printer.expr tbl t) (top_toks tbl t)).
  { assert (Simple : premises1 tbl t = true -> top_toks tbl t = Etoks.etoks tbl t -> Lexes tbl 0 (Printer.expr tbl t) (top_toks tbl t)).
    { intros H1 E. rewrite E. unfold premises1 in H1. apply andb_prop in H1 as [H1 _]. apply andb_prop in H1 as [W _].
      apply Lexes_of_TX. apply TX_tree; [exact W | exact PS]. }
    destruct t; try (apply Simple; [exact HP | reflexivity]).
    (* statements *)
    apply andb_prop in HP as [Hlen Hall]. rewrite expr_stmt. cbn [top_toks]. apply Nat.leb_le in Hlen.
    apply Lexes_of_TX. apply TX_stmts; [destruct es; [cbn in Hlen; lia | discriminate] |].
    intros x Hx. rewrite forallb_forall in Hall. specialize (Hall x Hx). unfold premises1 in Hall.
    apply andb_prop in Hall as [Hall _]. apply andb_prop in Hall as [Wx _]. split; [exact Wx|].
    unfold psane_top in PS. cbn [psane] in PS. clear - PS Hx. induction es as [|y r IH]; [contradiction|].
    destruct PS as [Py Pr]. destruct Hx as [<-|Hx]; [exact Py | apply IH; assumption]. }
  destruct (Lexes_lex_all tbl 0 _ _ HL (lex_fuel (Printer.expr tbl t)) ltac:(unfold lex_fuel; lia)) as (sts & E & M).
  unfold lex. rewrite E, M. apply toks_eqb_refl.
Qed.
End Top.

(** * The round trip through text, for every sane tree: C12 without side conditions to evaluate *)
Section Final.
Variable tbl : optable.

Definition name_okb (n : str) : bool :=
  match n with
  | c :: bt => negb (is_ws c) && negb (is_special c) && negb (is_delim c) && negb (is_digit09 c) && negb (is_quote c) &&
               negb (c =? c_semi) && negb (c =? c_comma) && forallb is_param_char bt &&
               negb (is_op tbl n) && negb (is_kw n)
  | [] => false
  end.
Definition lit_okb (l : literal) : bool :=
  match l with
  | LNum d => negb (dneg d) && (dmant d <? two96) && (dscale d <=? 28)
  | LBool _ => true
  | LStr s => negb (existsb (fun c => c =? c_dquote) s && existsb (fun c => c =? c_squote) s)
  end.
Fixpoint psaneb (t : ast) : bool :=
  match t with
  | ALit l => lit_okb l
  | ARef n => name_okb n
  | AUnary _ e => psaneb e
  | ABinary _ l r => psaneb l && psaneb r
  | APostfix e _ => psaneb e
  | ATernary c a b => psaneb c && psaneb a && psaneb b
  | AFunc n args => name_okb n && (fix go (l : list ast) : bool := match l with [] => true | x :: r => psaneb x && go r end) args
  | AList es => (fix go (l : list ast) : bool := match l with [] => true | x :: r => psaneb x && go r end) es
  | AMap kvs => (fix go (l : list (ast * ast)) : bool := match l with [] => true | (k, v) :: r => psaneb k && psaneb v && go r end) kvs
  | AStmt es => (fix go (l : list ast) : bool := match l with [] => true | x :: r => psaneb x && go r end) es
  | ANone => true
  end.

Lemma name_okb_ok n : name_okb n = true -> name_ok tbl n.
Proof.
  destruct n as [|c bt]; [discriminate|]. cbn [name_okb name_ok]. intros H.
  repeat (apply andb_prop in H as [H ?]). repeat match goal with X : negb _ = true |- _ => apply negb_true_iff in X end.
  unfold wordstart. repeat split; assumption.
Qed.
Lemma lit_okb_ok l : lit_okb l = true -> lit_ok l.
Proof.
  destruct l as [d|b|s]; cbn [lit_okb lit_ok]; intros H; [|exact I|apply negb_true_iff in H; exact H].
  apply andb_prop in H as [H H3]. apply andb_prop in H as [H1 H2]. apply negb_true_iff in H1. apply N.ltb_lt in H2. apply N.leb_le in H3. auto.
Qed.

Lemma psaneb_ok : forall t, psaneb t = true -> psane tbl t.
Proof.
  fix IH 1. intros t. destruct t; cbn [psaneb psane]; intros H.
  - apply lit_okb_ok. exact H.
  - apply IH. exact H.
  - apply andb_prop in H as [H1 H2]. split; apply IH; assumption.
  - apply IH. exact H.
  - apply andb_prop in H as [H H3]. apply andb_prop in H as [H1 H2]. repeat split; apply IH; assumption.
  - apply name_okb_ok. exact H.
  - apply andb_prop in H as [H1 H2]. split; [apply name_okb_ok; exact H1|].
    induction args as [|x r IHr]; [exact I|]. apply andb_prop in H2 as [Hx Hr]. split; [apply IH; exact Hx | apply IHr; exact Hr].
  - induction es as [|x r IHr]; [exact I|]. apply andb_prop in H as [Hx Hr]. split; [apply IH; exact Hx | apply IHr; exact Hr].
  - induction kvs as [|[k v] r IHr]; [exact I|]. apply andb_prop in H as [H Hr]. apply andb_prop in H as [Hk Hv].
    repeat split; [apply IH; exact Hk | apply IH; exact Hv | apply IHr; exact Hr].
  - induction es as [|x r IHr]; [exact I|]. apply andb_prop in H as [Hx Hr]. split; [apply IH; exact Hx | apply IHr; exact Hr].
  - exact I.
Qed.

(* THE ROUND TRIP THROUGH TEXT. For every operator table that passes the computable print check and every tree that meets
   the premises of lemma (B) and whose leaves are lexically sane, parsing the text the printer writes gives back the tree. *)
Theorem text_round_trip_all : forall t, tbl_print_okb tbl = true -> premises tbl t = true -> psaneb t = true ->
  api_parse tbl (Printer.expr tbl t) = Ok t.
Proof.
  intros t HT HP HS. apply (text_round_trip tbl t HP).
  apply (printer_tokens_hold tbl (tbl_print_okb_ok tbl HT) t HP). apply psaneb_ok. exact HS.
Qed.
End Final.
