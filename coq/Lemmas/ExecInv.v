(** A generic invariant principle for the evaluator: any state predicate that is preserved by the primitive state updates
    (appending a log entry, the inexact flag, an assignment to the evaluating context, registrations, init) and by the
    re-entry function is preserved by evaluation - whatever the program and the handlers. Instances: the call log only
    grows (C07), contexts other than the evaluating one are untouched (C16). *)
From EE Require Import Chars OpTable Decimal Ast Value Names Lexer Parser Eval.
Open Scope N_scope.

Section Inv.
Variable b : registries.
Variable reenter : str -> N -> state -> eres * state.
Variable c : N.
Variable P : state -> Prop.
Hypothesis P_log : forall st h args, P st -> P (set_log st ((h, args) :: s_log st)).
Hypothesis P_inexact : forall st i, P st -> P (set_inexact st i).
Hypothesis P_ctx : forall st n v, P st -> P (ctx_set st c n v).
Hypothesis P_init : forall st, P st -> P (ensure_init b st).
Hypothesis P_regf : forall st n h, P st -> P (reg_func st n h).
Hypothesis P_regp : forall st n h, P st -> P (reg_prefix st n h).
Hypothesis P_regs : forall st n h, P st -> P (reg_postfix st n h).
Hypothesis P_regi : forall st n cfg h, P st -> P (reg_infix st n cfg h).
Hypothesis P_reenter : forall s c' st, P st -> P (snd (reenter s c' st)).

Lemma inv_of_ares r st : P st -> P (snd (of_ares r st)).
Proof. intros H. destruct r; cbn; [apply P_inexact|idtac|idtac]; exact H. Qed.

Lemma inv_do_register l st upd : P st -> (forall x, P x -> P (upd x)) -> P (snd (do_register b l st upd)).
Proof.
  intros H U. unfold do_register. destruct (acquire l (ensure_init b st)); cbn [snd]; [apply P_init; exact H | apply U, P_init, H].
Qed.

Lemma inv_do_parse st s : P st -> P (snd (do_parse b st s)).
Proof.
  intros H. unfold do_parse. pose proof (P_init st H) as H'.
  destruct (acquire LPrefix (ensure_init b st)) as [[]|], (acquire LInfix (ensure_init b st)) as [[]|],
           (acquire LPostfix (ensure_init b st)) as [[]|]; try exact H';
    destruct (lex (tbl_of (s_regs (ensure_init b st))) s); exact H'.
Qed.

Lemma inv_run_script : forall s h n args st, P st -> P (snd (run_script b reenter s h n args st)).
Proof.
  fix IH 1. intros s h n args st H. destruct s as [v|i| | |a k|l]; cbn [run_script]; try exact H.
  - assert (G: P (snd (match a with
        | AcParse src => let '(_, st1) := do_parse b st src in (EOk VNone, st1)
        | AcExec src c' => reenter src c' st
        | AcRegF nm hh => do_register b LFunc st (fun st => reg_func st nm (HScript hh))
        | AcRegP nm hh => do_register b LPrefix st (fun st => reg_prefix st nm (HScript hh))
        | AcRegS nm hh => do_register b LPostfix st (fun st => reg_postfix st nm (HScript hh))
        | AcRegI nm p se ri hh => do_register b LInfix st (fun st => reg_infix st nm {| ic_prec := p; ic_setter := se; ic_right := ri |} (HScript hh))
        | AcLock c' => match acquire (LCtx c') st with Some e => (e, st) | None => (EOk VNone, st) end
        end))).
    { destruct a.
      - pose proof (inv_do_parse st s H) as C. destruct (do_parse b st s). exact C.
      - apply P_reenter. exact H.
      - apply inv_do_register; [exact H | intros; apply P_regf; assumption].
      - apply inv_do_register; [exact H | intros; apply P_regp; assumption].
      - apply inv_do_register; [exact H | intros; apply P_regs; assumption].
      - apply inv_do_register; [exact H | intros; apply P_regi; assumption].
      - destruct (acquire (LCtx c0) st); exact H. }
    match goal with |- P (snd (let '(r, st1) := ?X in _)) => destruct X as [r st1] end.
    cbn [snd] in G. destruct r; try exact G; apply IH; exact G.
  - revert n. induction l as [|s1 r IHl]; intros n; [exact H|].
    destruct r as [|s2 r']; [apply IH; exact H|]. destruct n as [|n']; [apply IH; exact H | apply IHl].
Qed.

Lemma inv_call_script h args st : P st -> P (snd (call_script b reenter h args st)).
Proof.
  intros H. unfold call_script. destruct (nassoc h (s_scripts st)).
  - apply inv_run_script. apply P_log. exact H.
  - cbn [snd]. apply P_log. exact H.
Qed.

Lemma inv_call_handler hd bi args st : P st -> P (snd (call_handler b reenter hd bi args st)).
Proof.
  intros H. destruct hd; cbn [call_handler].
  - destruct bi; [apply inv_of_ares; exact H | exact H].
  - apply inv_call_script. exact H.
Qed.

Lemma inv_exec : forall e st, P st -> P (snd (exec b reenter e c st)).
Proof.
  fix IH 1. intros e st H.
  assert (LIST: forall l st, P st ->
     P (snd ((fix go (l : list ast) (st : state) {struct l} : (eres + list value) * state :=
       match l with
       | [] => (inr [], st)
       | x :: r =>
           match exec b reenter x c st with
           | (EOk v, st1) => match go r st1 with
                             | (inr vs, st2) => (inr (v :: vs), st2)
                             | other => other
                             end
           | (err, st1) => (inl err, st1)
           end
       end) l st))).
  { induction l as [|x r IHl]; intros st0 H0; [exact H0|].
    pose proof (IH x st0 H0) as G1. destruct (exec b reenter x c st0) as [rx st1]. cbn [snd] in G1.
    destruct rx; try exact G1.
    specialize (IHl st1 G1).
    match goal with |- context [(fix go (l : list ast) (st : state) {struct l} := _) r st1] =>
      destruct ((fix go (l : list ast) (st : state) {struct l} := _) r st1) as [[e1|vs] st2] end; exact IHl. }
  destruct e as [l|op r|op l r|l op|cnd a x|n|n args|es|kvs|es|]; cbn [exec].
  - exact H.
  - destruct (get_named LPrefix (r_prefix (s_regs st)) st op) as [err|hd]; [exact H|].
    pose proof (IH r st H) as G1. destruct (exec b reenter r c st) as [rr st1]. cbn [snd] in G1.
    destruct rr; try exact G1. apply inv_call_handler. exact G1.
  - destruct (get_infix st op) as [err|[cfg hd0]]; [exact H|].
    destruct (ic_setter cfg).
    + pose proof (IH l st H) as G1. destruct (exec b reenter l c st) as [rl st1]. cbn [snd] in G1.
      destruct rl; try exact G1.
      pose proof (IH r st1 G1) as G3. destruct (exec b reenter r c st1) as [rr st2]. cbn [snd] in G3.
      destruct rr; try exact G3.
      destruct l; try exact G3.
      destruct (get_infix st2 op) as [err|[cfg2 hd2]]; [exact G3|].
      pose proof (inv_call_handler hd2 (builtin_infix op v v0) [v; v0] st2 G3) as G5.
      destruct (call_handler b reenter hd2 (builtin_infix op v v0) [v; v0] st2) as [rh st3]. cbn [snd] in G5.
      destruct rh; try exact G5.
      destruct (acquire (LCtx c) st3); cbn [snd]; [exact G5 | apply P_ctx; exact G5].
    + lazy beta iota.
      pose proof (IH l st H) as G1. destruct (exec b reenter l c st) as [rl st1]. cbn [snd] in G1.
      destruct rl; try exact G1.
      pose proof (IH r st1 G1) as G3. destruct (exec b reenter r c st1) as [rr st2]. cbn [snd] in G3.
      destruct rr; try exact G3. apply inv_call_handler. exact G3.
  - destruct (get_named LPostfix (r_postfix (s_regs st)) st op) as [err|hd]; [exact H|].
    pose proof (IH l st H) as G1. destruct (exec b reenter l c st) as [rr st1]. cbn [snd] in G1.
    destruct rr; try exact G1. apply inv_call_handler. exact G1.
  - pose proof (IH cnd st H) as G1. destruct (exec b reenter cnd c st) as [rc st1]. cbn [snd] in G1.
    destruct rc as [v| | | | |]; try exact G1.
    destruct v as [| |[|]| | |]; try exact G1; apply IH; exact G1.
  - destruct (ctx_get st c n) as [err|[[v|h]|]]; try exact H. apply inv_call_script. exact H.
  - pose proof (LIST args st H) as L.
    match goal with |- context [(fix go (l : list ast) (st : state) {struct l} := _) args st] =>
      destruct ((fix go (l : list ast) (st : state) {struct l} := _) args st) as [[e1|vs] st1] end; cbn [snd] in L; [exact L|].
    destruct (ctx_get st1 c n) as [err|[[v|h]|]]; try exact L.
    + destruct (get_named LFunc (r_func (s_regs st1)) st1 n); [exact L | apply inv_call_handler; exact L].
    + apply inv_call_script. exact L.
    + destruct (get_named LFunc (r_func (s_regs st1)) st1 n); [exact L | apply inv_call_handler; exact L].
  - pose proof (LIST es st H) as L.
    match goal with |- context [(fix go (l : list ast) (st : state) {struct l} := _) es st] =>
      destruct ((fix go (l : list ast) (st : state) {struct l} := _) es st) as [[e1|vs] st1] end; [exact L | destruct (vbounded (VList vs)); exact L].
  - assert (MAP: forall l st, P st ->
       P (snd ((fix go (l : list (ast * ast)) (st : state) {struct l} : (eres + list (value * value)) * state :=
           match l with
           | [] => (inr [], st)
           | (k, v) :: r =>
               match exec b reenter k c st with
               | (EOk kv, st1) =>
                   match exec b reenter v c st1 with
                   | (EOk vv, st2) => match go r st2 with
                                      | (inr rest, st3) => (inr ((kv, vv) :: rest), st3)
                                      | other => other
                                      end
                   | (err, st2) => (inl err, st2)
                   end
               | (err, st1) => (inl err, st1)
               end
           end) l st))).
    { induction l as [|[k v] r IHl]; intros st0 H0; [exact H0|].
      pose proof (IH k st0 H0) as G1. destruct (exec b reenter k c st0) as [rk st1]. cbn [snd] in G1.
      destruct rk; try exact G1.
      pose proof (IH v st1 G1) as G3. destruct (exec b reenter v c st1) as [rv st2]. cbn [snd] in G3.
      destruct rv; try exact G3.
      specialize (IHl st2 G3).
      match goal with |- context [(fix go (l : list (ast * ast)) (st : state) {struct l} := _) r st2] =>
        destruct ((fix go (l : list (ast * ast)) (st : state) {struct l} := _) r st2) as [[e1|vs] st3] end; exact IHl. }
    pose proof (MAP kvs st H) as L.
    match goal with |- context [(fix go (l : list (ast * ast)) (st : state) {struct l} := _) kvs st] =>
      destruct ((fix go (l : list (ast * ast)) (st : state) {struct l} := _) kvs st) as [[e1|vs] st1] end; [exact L | destruct (vbounded (VMap vs)); exact L].
  - assert (ST: forall l last st, P st ->
       P (snd ((fix go (l : list ast) (last : value) (st : state) {struct l} : eres * state :=
         match l with
         | [] => (EOk last, st)
         | x :: r => match exec b reenter x c st with
                     | (EOk v, st1) => go r v st1
                     | other => other
                     end
         end) l last st))).
    { induction l as [|x r IHl]; intros last st0 H0; [exact H0|].
      pose proof (IH x st0 H0) as G1. destruct (exec b reenter x c st0) as [rx st1]. cbn [snd] in G1.
      destruct rx; try exact G1. apply IHl. exact G1. }
    apply ST. exact H.
  - exact H.
Qed.
End Inv.
