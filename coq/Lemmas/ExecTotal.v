(** The engine itself never panics, deadlocks or leaves a lock behind: with handlers that do not panic, evaluation of ANY tree in
    ANY context returns a value, an error or (model only) abstains; a panic can only come out of a handler that panics.
    Same induction as LockInv (evaluator, scripts, fuel) with the stronger result predicate. *)
From EE Require Import Chars OpTable Decimal Token Ast Value Names Lexer Parser Eval LockInv LexerSpec LexerTiling ParserTotal ParserFuel.
Open Scope N_scope.

Fixpoint panic_free (s : script) : bool :=
  match s with
  | SPanic => false
  | SSeq _ k => panic_free k
  | SCount l => (fix all (l : list script) : bool := match l with [] => true | x :: r => panic_free x && all r end) l
  | _ => true
  end.
(* no lock held or poisoned, and no registered script panics *)
Definition cs (st : state) : Prop :=
  clean st /\ forall h s, nassoc h (s_scripts st) = Some s -> panic_free s = true.
Definition notbad (r : eres) : Prop := r <> EDeadlock /\ r <> EPanic.
Definition tot (r : eres * state) : Prop := cs (snd r) /\ notbad (fst r).

Ltac nb := first [ discriminate | split; discriminate ].

Lemma acquire_cs l st : cs st -> acquire l st = None.
Proof. intros [H _]. apply acquire_clean. exact H. Qed.
Lemma cs_set_log st l : cs st -> cs (set_log st l). Proof. intros H; exact H. Qed.
Lemma cs_set_inexact st i : cs st -> cs (set_inexact st i). Proof. intros H; exact H. Qed.
Lemma cs_ctx_set st c n v : cs st -> cs (ctx_set st c n v). Proof. intros H; exact H. Qed.
Lemma cs_ensure_init b st : cs st -> cs (ensure_init b st).
Proof. intros H. unfold ensure_init. destruct (s_inited st); exact H. Qed.
Lemma tot_of_ares r st : cs st -> tot (of_ares r st).
Proof. intros H. destruct r; cbn; split; try exact H; nb. Qed.
Lemma tot_do_register b l st upd :
  cs st -> (forall x, cs x -> cs (upd x)) -> tot (do_register b l st upd).
Proof.
  intros H U. unfold do_register. rewrite (acquire_cs l _ (cs_ensure_init b st H)).
  split; cbn; [apply U, cs_ensure_init, H | nb].
Qed.
Lemma cs_do_parse b st s : cs st -> cs (snd (do_parse b st s)).
Proof.
  intros H. unfold do_parse. pose proof (cs_ensure_init b st H) as H'.
  rewrite !(acquire_cs _ _ H'). destruct (lex (tbl_of (s_regs (ensure_init b st))) s). exact H'.
Qed.
(* parsing never panics (C01) *)
Lemma do_parse_no_panic b st s : cs st -> fst (do_parse b st s) <> Panic /\ fst (do_parse b st s) <> Fuel.
Proof.
  intros H. unfold do_parse. pose proof (cs_ensure_init b st H) as H'.
  rewrite !(acquire_cs _ _ H'). destruct (lex (tbl_of (s_regs (ensure_init b st))) s) as [sts tm] eqn:E. cbn [fst].
  pose proof (lex_tiled _ _ _ _ E) as T. pose proof (tiled_term _ _ _ _ _ T) as [NP NF].
  split; [apply parse_tokens_np; exact NP | apply parse_tokens_terminates; exact NF].
Qed.

Section S.
Variable b : registries.
Variable reenter : str -> N -> state -> eres * state.
Hypothesis reenter_tot : forall s c st, cs st -> tot (reenter s c st).

Lemma tot_run_script : forall s h n args st, panic_free s = true -> cs st -> tot (run_script b reenter s h n args st).
Proof.
  fix IH 1. intros s h n args st PF H. destruct s as [v|i| | |a k|l]; cbn [run_script].
  - split; [exact H|nb].
  - split; [exact H|nb].
  - split; [exact H|nb].
  - discriminate PF.
  - assert (G: tot (match a with
        | AcParse src => let '(_, st1) := do_parse b st src in (EOk VNone, st1)
        | AcExec src c => reenter src c st
        | AcRegF nm hh => do_register b LFunc st (fun st => reg_func st nm (HScript hh))
        | AcRegP nm hh => do_register b LPrefix st (fun st => reg_prefix st nm (HScript hh))
        | AcRegS nm hh => do_register b LPostfix st (fun st => reg_postfix st nm (HScript hh))
        | AcRegI nm p se ri hh => do_register b LInfix st (fun st => reg_infix st nm {| ic_prec := p; ic_setter := se; ic_right := ri |} (HScript hh))
        | AcLock c => match acquire (LCtx c) st with Some e => (e, st) | None => (EOk VNone, st) end
        end)).
    { destruct a.
      - pose proof (cs_do_parse b st s H) as C. destruct (do_parse b st s). split; [exact C|nb].
      - apply reenter_tot. exact H.
      - apply tot_do_register; [exact H| intros x Hx; exact Hx].
      - apply tot_do_register; [exact H| intros x Hx; exact Hx].
      - apply tot_do_register; [exact H| intros x Hx; exact Hx].
      - apply tot_do_register; [exact H| intros x Hx; exact Hx].
      - rewrite (acquire_cs _ _ H). split; [exact H|nb]. }
    match goal with |- tot (let '(r, st1) := ?X in _) => destruct X as [r st1] end.
    destruct G as [G1 G2]. cbn [fst snd] in G1, G2.
    cbn [panic_free] in PF.
    destruct r; try (split; [exact G1 | assumption || nb]); apply IH; assumption.
  - cbn [panic_free] in PF. revert n PF. induction l as [|s1 r IHl]; intros n PF.
    + split; [exact H|nb].
    + apply andb_prop in PF as [PF1 PF2]. destruct r as [|s2 r'].
      * apply IH; assumption.
      * destruct n as [|n']; [apply IH; assumption | apply IHl; exact PF2].
Qed.

Lemma tot_call_script h args st : cs st -> tot (call_script b reenter h args st).
Proof.
  intros H. unfold call_script. destruct (nassoc h (s_scripts st)) eqn:E.
  - apply tot_run_script; [exact (proj2 H h s E) | exact H].
  - split; [exact H|nb].
Qed.

Lemma tot_call_handler hd bi args st : cs st -> tot (call_handler b reenter hd bi args st).
Proof.
  intros H. destruct hd; cbn [call_handler].
  - destruct bi; [apply tot_of_ares; exact H | split; [exact H|nb]].
  - apply tot_call_script. exact H.
Qed.

Lemma get_infix_cs st op : cs st ->
  get_infix st op = match assoc op (r_infix (s_regs st)) with Some x => inr x | None => inl EErr end.
Proof. intros H. unfold get_infix. rewrite (acquire_cs _ _ H). reflexivity. Qed.
Lemma get_named_cs l tab st op : cs st ->
  get_named l tab st op = match assoc op tab with Some x => inr x | None => inl EErr end.
Proof. intros H. unfold get_named. rewrite (acquire_cs _ _ H). reflexivity. Qed.
Lemma ctx_get_cs st c n : cs st -> ctx_get st c n = inr (assoc n (ctx_of st c)).
Proof. intros H. unfold ctx_get. rewrite (acquire_cs _ _ H). reflexivity. Qed.

Ltac fin H := split; [exact H | nb].

(* evaluation: cs in, cs out, never a deadlock *)
Lemma tot_exec : forall e c st, cs st -> tot (exec b reenter e c st).
Proof.
  fix IH 1. intros e c st H.
  assert (LIST: forall l st, cs st ->
     let r := (fix go (l : list ast) (st : state) {struct l} : (eres + list value) * state :=
       match l with
       | [] => (inr [], st)
       | x :: r =>
           match exec b reenter x c st with
           | (EOk v, st1) => match go r st1 with
                             | (inr vs, st2) => (inr (v :: vs), st2)
                             | other => other
                             end
           | (err, st1) => (inl err, st1)
           end
       end) l st in cs (snd r) /\ (forall err, fst r = inl err -> notbad err)).
  { induction l as [|x r IHl]; intros st0 H0; cbn zeta.
    - split; [exact H0 | intros err E; nb].
    - pose proof (IH x c st0 H0) as [G1 G2]. destruct (exec b reenter x c st0) as [rx st1]. cbn [fst snd] in G1, G2.
      destruct rx; try (split; [exact G1 | intros err E; inversion E; subst; assumption || nb]).
      specialize (IHl st1 G1). cbn zeta in IHl.
      match goal with |- context [(fix go (l : list ast) (st : state) {struct l} := _) r st1] =>
        destruct ((fix go (l : list ast) (st : state) {struct l} := _) r st1) as [[e1|vs] st2] end;
        cbn [fst snd] in *; destruct IHl as [I1 I2]; (split; [exact I1|]).
      + intros err E. apply I2. exact E.
      + intros err E. nb. }
  destruct e as [l|op r|op l r|l op|cnd a x|n|n args|es|kvs|es|]; cbn [exec].
  - fin H.
  - (* unary *)
    rewrite (get_named_cs _ _ _ _ H). destruct (assoc op (r_prefix (s_regs st))) as [hd|]; [|fin H].
    pose proof (IH r c st H) as [G1 G2]. destruct (exec b reenter r c st) as [rr st1]. cbn [fst snd] in G1, G2.
    destruct rr; try (split; [exact G1 | assumption || nb]). apply tot_call_handler. exact G1.
  - (* binary *)
    rewrite (get_infix_cs _ _ H). destruct (assoc op (r_infix (s_regs st))) as [[cfg hd0]|]; [|fin H].
    destruct (ic_setter cfg).
    + pose proof (IH l c st H) as [G1 G2]. destruct (exec b reenter l c st) as [rl st1]. cbn [fst snd] in G1, G2.
      destruct rl; try (split; [exact G1 | assumption || nb]).
      pose proof (IH r c st1 G1) as [G3 G4]. destruct (exec b reenter r c st1) as [rr st2]. cbn [fst snd] in G3, G4.
      destruct rr; try (split; [exact G3 | assumption || nb]).
      destruct l; try fin G3.
      rewrite (get_infix_cs _ _ G3). destruct (assoc op (r_infix (s_regs st2))) as [[cfg2 hd2]|]; [|fin G3].
      pose proof (tot_call_handler hd2 (builtin_infix op v v0) [v; v0] st2 G3) as [G5 G6].
      destruct (call_handler b reenter hd2 (builtin_infix op v v0) [v; v0] st2) as [rh st3]. cbn [fst snd] in G5, G6.
      destruct rh; try (split; [exact G5 | assumption || nb]).
      rewrite (acquire_cs _ _ G5). split; [apply cs_ctx_set; exact G5 | nb].
    + lazy beta iota.
      pose proof (IH l c st H) as [G1 G2]. destruct (exec b reenter l c st) as [rl st1]. cbn [fst snd] in G1, G2.
      destruct rl; try (split; [exact G1 | assumption || nb]).
      pose proof (IH r c st1 G1) as [G3 G4]. destruct (exec b reenter r c st1) as [rr st2]. cbn [fst snd] in G3, G4.
      destruct rr; try (split; [exact G3 | assumption || nb]).
      apply tot_call_handler. exact G3.
  - (* postfix *)
    rewrite (get_named_cs _ _ _ _ H). destruct (assoc op (r_postfix (s_regs st))) as [hd|]; [|fin H].
    pose proof (IH l c st H) as [G1 G2]. destruct (exec b reenter l c st) as [rr st1]. cbn [fst snd] in G1, G2.
    destruct rr; try (split; [exact G1 | assumption || nb]). apply tot_call_handler. exact G1.
  - (* ternary *)
    pose proof (IH cnd c st H) as [G1 G2]. destruct (exec b reenter cnd c st) as [rc st1]. cbn [fst snd] in G1, G2.
    destruct rc as [v| | | | |]; try (split; [exact G1 | assumption || nb]).
    destruct v as [| |[|]| | |]; try fin G1; apply IH; exact G1.
  - (* reference *)
    rewrite (ctx_get_cs _ _ _ H). destruct (assoc n (ctx_of st c)) as [[v|h]|]; try fin H.
    apply tot_call_script. exact H.
  - (* call *)
    pose proof (LIST args st H) as L. cbn zeta in L.
    match goal with |- context [(fix go (l : list ast) (st : state) {struct l} := _) args st] =>
      destruct ((fix go (l : list ast) (st : state) {struct l} := _) args st) as [[e1|vs] st1] end; cbn [fst snd] in L; destruct L as [L1 L2].
    + split; [exact L1 | apply L2; reflexivity].
    + rewrite (ctx_get_cs _ _ _ L1). destruct (assoc n (ctx_of st1 c)) as [[v|h]|].
      * rewrite (get_named_cs _ _ _ _ L1). destruct (assoc n (r_func (s_regs st1))); [apply tot_call_handler; exact L1 | fin L1].
      * apply tot_call_script. exact L1.
      * rewrite (get_named_cs _ _ _ _ L1). destruct (assoc n (r_func (s_regs st1))); [apply tot_call_handler; exact L1 | fin L1].
  - (* list *)
    pose proof (LIST es st H) as L. cbn zeta in L.
    match goal with |- context [(fix go (l : list ast) (st : state) {struct l} := _) es st] =>
      destruct ((fix go (l : list ast) (st : state) {struct l} := _) es st) as [[e1|vs] st1] end; cbn [fst snd] in L; destruct L as [L1 L2].
    + split; [exact L1 | apply L2; reflexivity].
    + destruct (vbounded (VList vs)); fin L1.
  - (* map *)
    assert (MAP: forall l st, cs st ->
       let r := (fix go (l : list (ast * ast)) (st : state) {struct l} : (eres + list (value * value)) * state :=
           match l with
           | [] => (inr [], st)
           | (k, v) :: r =>
               match exec b reenter k c st with
               | (EOk kv, st1) =>
                   match exec b reenter v c st1 with
                   | (EOk vv, st2) => match go r st2 with
                                      | (inr rest, st3) => (inr ((kv, vv) :: rest), st3)
                                      | other => other
                                      end
                   | (err, st2) => (inl err, st2)
                   end
               | (err, st1) => (inl err, st1)
               end
           end) l st in cs (snd r) /\ (forall err, fst r = inl err -> notbad err)).
    { induction l as [|[k v] r IHl]; intros st0 H0; cbn zeta.
      - split; [exact H0 | intros err E; nb].
      - pose proof (IH k c st0 H0) as [G1 G2]. destruct (exec b reenter k c st0) as [rk st1]. cbn [fst snd] in G1, G2.
        destruct rk; try (split; [exact G1 | intros err E; inversion E; subst; assumption || nb]).
        pose proof (IH v c st1 G1) as [G3 G4]. destruct (exec b reenter v c st1) as [rv st2]. cbn [fst snd] in G3, G4.
        destruct rv; try (split; [exact G3 | intros err E; inversion E; subst; assumption || nb]).
        specialize (IHl st2 G3). cbn zeta in IHl.
        match goal with |- context [(fix go (l : list (ast * ast)) (st : state) {struct l} := _) r st2] =>
          destruct ((fix go (l : list (ast * ast)) (st : state) {struct l} := _) r st2) as [[e1|vs] st3] end;
          cbn [fst snd] in *; destruct IHl as [I1 I2]; (split; [exact I1|]).
        + intros err E. apply I2. exact E.
        + intros err E. nb. }
    pose proof (MAP kvs st H) as L. cbn zeta in L.
    match goal with |- context [(fix go (l : list (ast * ast)) (st : state) {struct l} := _) kvs st] =>
      destruct ((fix go (l : list (ast * ast)) (st : state) {struct l} := _) kvs st) as [[e1|vs] st1] end; cbn [fst snd] in L; destruct L as [L1 L2].
    + split; [exact L1 | apply L2; reflexivity].
    + destruct (vbounded (VMap vs)); fin L1.
  - (* statements *)
    assert (ST: forall l last st, cs st ->
       tot ((fix go (l : list ast) (last : value) (st : state) {struct l} : eres * state :=
         match l with
         | [] => (EOk last, st)
         | x :: r => match exec b reenter x c st with
                     | (EOk v, st1) => go r v st1
                     | other => other
                     end
         end) l last st)).
    { induction l as [|x r IHl]; intros last st0 H0.
      - fin H0.
      - pose proof (IH x c st0 H0) as [G1 G2]. destruct (exec b reenter x c st0) as [rx st1]. cbn [fst snd] in G1, G2.
        destruct rx; try (split; [exact G1 | assumption || nb]). apply IHl. exact G1. }
    apply ST. exact H.
  - fin H.
Qed.

End S.

(* with the real re-entry function (parse + exec with less fuel), for every amount of fuel *)
Lemma tot_exec_fuel b : forall f e c st, cs st -> tot (exec_fuel b f e c st).
Proof.
  induction f as [|f IH]; intros e c st H; cbn [exec_fuel].
  - split; [exact H|nb].
  - apply tot_exec; [|exact H].
    intros s c' st' H'. unfold parse_exec.
    pose proof (cs_do_parse b st' s H') as C. pose proof (do_parse_no_panic b st' s H') as [NP _].
    destruct (do_parse b st' s) as [[e'| | |] st1]; cbn [fst snd] in C, NP.
    + apply IH. exact C.
    + split; [exact C|nb].
    + exfalso. apply NP. reflexivity.
    + split; [exact C|nb].
Qed.

Lemma tot_run_exec b s c st : cs st -> tot (run_exec b s c st).
Proof.
  intros H. unfold run_exec, parse_exec.
  pose proof (cs_do_parse b st s H) as C. pose proof (do_parse_no_panic b st s H) as [NP _].
  destruct (do_parse b st s) as [[e'| | |] st1]; cbn [fst snd] in C, NP.
  - apply tot_exec_fuel. exact C.
  - split; [exact C|nb].
  - exfalso. apply NP. reflexivity.
  - split; [exact C|nb].
Qed.

(* the initial state, and any state reached by defining panic-free scripts, is calm *)
Lemma cs_init : cs init_state.
Proof. split; [split; reflexivity | intros h s E; discriminate E]. Qed.
