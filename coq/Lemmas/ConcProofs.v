(** Invariant proofs for the interleaving model: initialisation is atomic, no deadlock, an un-interleaved call
    has its sequential meaning. *)
From Coq Require Import List Arith Lia Bool.
Import ListNotations.
From EE Require Import Conc.

Section Proofs.
Variable name entry result : Type.
Variable name_eqb : name -> name -> bool.
Hypothesis name_eqb_spec : forall a b, reflect (a = b) (name_eqb a b).
Variable builtins : list (name * entry).

Notation config := (config name entry result).
Notation tstate := (tstate name entry result).
Notation body := (body name entry result).
Notation step := (step name_eqb builtins).
Notation reachable := (reachable name_eqb builtins).
Notation upd := (upd name_eqb).

Definition quiet (t : tstate) := match t with TGate _ _ | TFinished => True | _ => False end.
Definition Inv (c : config) : Prop :=
  match once_st c with
  | OUninit => Forall quiet (threads c)
  | ORunning t =>
      (exists todo b rest, nth_error (threads c) t = Some (TInit todo b rest) /\
          (forall n e, In (n, e) builtins -> In (n, e) todo \/ reg c n <> None)) /\
      (forall j s, nth_error (threads c) j = Some s -> j <> t -> quiet s)
  | ODone => has_all (reg c) builtins /\
             Forall (fun s => match s with TInit _ _ _ => False | _ => True end) (threads c)
  end.

Lemma nth_set_eq {A} (l : list A) i x y : nth_error l i = Some y -> nth_error (set_nth l i x) i = Some x.
Proof. revert i; induction l as [|h t IH]; intros [|i] H; cbn in *; try discriminate; auto. Qed.
Lemma nth_set_neq {A} (l : list A) i j x : i <> j -> nth_error (set_nth l i x) j = nth_error l j.
Proof. revert i j; induction l as [|h t IH]; intros [|i] [|j] H; cbn; auto; try lia. Qed.
Lemma Forall_set {A} (P : A -> Prop) l i x : Forall P l -> P x -> Forall P (set_nth l i x).
Proof. revert i; induction l as [|h t IH]; intros [|i] HF Hx; cbn; auto; inversion HF; subst; constructor; auto. Qed.
Lemma Forall_nth {A} (P : A -> Prop) l i x : Forall P l -> nth_error l i = Some x -> P x.
Proof. intros HF H. rewrite Forall_forall in HF. apply HF. eapply nth_error_In; eauto. Qed.
Lemma Forall_from_nth {A} (P : A -> Prop) l : (forall j s, nth_error l j = Some s -> P s) -> Forall P l.
Proof. intro H. apply Forall_forall. intros x Hx. apply In_nth_error in Hx as [j Hj]. eauto. Qed.

Lemma upd_keeps (r : regs name entry) n e m : r m <> None -> upd r n e m <> None.
Proof. unfold Conc.upd. destruct (name_eqb n m); congruence. Qed.
Lemma upd_same (r : regs name entry) n e : upd r n e n <> None.
Proof. unfold Conc.upd. destruct (name_eqb_spec n n); congruence. Qed.

Lemma inv_initial (progs : list (list body)) : Inv (initial progs).
Proof.
  unfold Inv, Conc.initial; cbn. apply Forall_forall. intros x Hx. apply in_map_iff in Hx as (p & <- & _).
  destruct p; cbn; auto.
Qed.

Lemma quiet_next (rest : list body) : quiet (next_call rest).
Proof. destruct rest; cbn; auto. Qed.

Lemma inv_step (c : config) i (c' : config) : Inv c -> step c i c' -> Inv c'.
Proof.
  intros HI Hs. unfold Inv in *.
  destruct Hs as [b rest Hn Ho|b rest Hn Ho|n e todo b rest Hn|b rest Hn|n k rest Hn|n e k rest Hn|r rest Hn]; cbn [once_st reg threads].
  - rewrite Ho in HI. split.
    + exists builtins, b, rest. split; [eapply nth_set_eq; eauto | auto].
    + intros j s Hj Hne. rewrite nth_set_neq in Hj by auto. eapply Forall_nth; eauto.
  - rewrite Ho in HI. destruct HI as [Hall HF]. split; auto. apply Forall_set; auto.
  - destruct (once_st c) as [| t |] eqn:Ho.
    + exfalso. apply (Forall_nth _ _ _ _ HI) in Hn. exact Hn.
    + destruct HI as [(todo0 & b0 & rest0 & Ht & Hcov) Hq].
      assert (i = t). { destruct (Nat.eq_dec i t) as [|n0]; auto. exfalso. apply (Hq i _ Hn n0). }
      subst i. rewrite Hn in Ht. inversion Ht; subst todo0 b0 rest0. split.
      * exists todo, b, rest. split; [eapply nth_set_eq; eauto|].
        intros n' e' Hin. destruct (Hcov n' e' Hin) as [[Heq|Hin']|Hpres].
        -- inversion Heq; subst. right. apply upd_same.
        -- left; auto.
        -- right. apply upd_keeps; auto.
      * intros j s Hj Hne. rewrite nth_set_neq in Hj by auto. eauto.
    + exfalso. destruct HI as [_ HF]. apply (Forall_nth _ _ _ _ HF) in Hn. exact Hn.
  - destruct (once_st c) as [| t |] eqn:Ho.
    + exfalso. apply (Forall_nth _ _ _ _ HI) in Hn. exact Hn.
    + destruct HI as [(todo0 & b0 & rest0 & Ht & Hcov) Hq].
      assert (i = t). { destruct (Nat.eq_dec i t) as [|n0]; auto. exfalso. apply (Hq i _ Hn n0). }
      subst i. rewrite Hn in Ht. inversion Ht; subst todo0 b0 rest0. split.
      * intros n' e' Hin. destruct (Hcov n' e' Hin) as [[]|]; auto.
      * apply Forall_from_nth. intros j s Hj. destruct (Nat.eq_dec t j) as [->|Hne].
        -- rewrite (nth_set_eq _ _ _ _ Hn) in Hj. inversion Hj; subst; auto.
        -- rewrite nth_set_neq in Hj by auto. specialize (Hq j s Hj ltac:(auto)). destruct s; cbn in *; auto.
    + exfalso. destruct HI as [_ HF]. apply (Forall_nth _ _ _ _ HF) in Hn. exact Hn.
  - destruct (once_st c) as [| t |] eqn:Ho.
    + exfalso. apply (Forall_nth _ _ _ _ HI) in Hn. exact Hn.
    + exfalso. destruct HI as [(todo0 & b0 & rest0 & Ht & _) Hq].
      destruct (Nat.eq_dec i t) as [->|Hne]; [rewrite Hn in Ht; discriminate | apply (Hq i _ Hn Hne)].
    + destruct HI as [Hall HF]. split; auto. apply Forall_set; auto.
  - destruct (once_st c) as [| t |] eqn:Ho.
    + exfalso. apply (Forall_nth _ _ _ _ HI) in Hn. exact Hn.
    + exfalso. destruct HI as [(todo0 & b0 & rest0 & Ht & _) Hq].
      destruct (Nat.eq_dec i t) as [->|Hne]; [rewrite Hn in Ht; discriminate | apply (Hq i _ Hn Hne)].
    + destruct HI as [Hall HF]. split.
      * intros n' e' Hin. apply upd_keeps. eapply Hall; eauto.
      * apply Forall_set; auto.
  - destruct (once_st c) as [| t |] eqn:Ho.
    + exfalso. apply (Forall_nth _ _ _ _ HI) in Hn. exact Hn.
    + exfalso. destruct HI as [(todo0 & b0 & rest0 & Ht & _) Hq].
      destruct (Nat.eq_dec i t) as [->|Hne]; [rewrite Hn in Ht; discriminate | apply (Hq i _ Hn Hne)].
    + destruct HI as [Hall HF]. split; auto. apply Forall_set; auto.
      pose proof (quiet_next rest) as Q. destruct (next_call rest); cbn in *; auto.
Qed.

Lemma reachable_inv (progs : list (list body)) (c : config) : reachable (initial progs) c -> Inv c.
Proof. induction 1; [apply inv_initial | eapply inv_step; eauto]. Qed.

(* no thread ever runs a call body against a partially initialised table *)
Theorem init_atomic (progs : list (list body)) (c : config) i (b : body) rest :
  reachable (initial progs) c -> nth_error (threads c) i = Some (TBody b rest) ->
  once_st c = ODone /\ has_all (reg c) builtins.
Proof.
  intros Hr Hn.
  pose proof (reachable_inv _ _ Hr) as HI.
  unfold Inv in HI. destruct (once_st c) as [| t |] eqn:Ho.
  - exfalso. apply (Forall_nth _ _ _ _ HI) in Hn. exact Hn.
  - exfalso. destruct HI as [(todo0 & b0 & rest0 & Ht & _) Hq].
    destruct (Nat.eq_dec i t) as [->|Hne]; [rewrite Hn in Ht; discriminate | apply (Hq i _ Hn Hne)].
  - destruct HI; auto.
Qed.

(* deadlock freedom: while some thread is unfinished, some thread can step *)
Theorem progress (progs : list (list body)) (c : config) :
  reachable (initial progs) c -> (exists i s, nth_error (threads c) i = Some s /\ s <> TFinished) ->
  exists j c', step c j c'.
Proof.
  intros Hr (i & s & Hn & Hs).
  pose proof (reachable_inv _ _ Hr) as HI.
  unfold Inv in HI. destruct (once_st c) as [| t |] eqn:Ho.
  - pose proof (Forall_nth _ _ _ _ HI Hn) as Hq. destruct s as [b rest|? ? ?|b rest|]; cbn in Hq; try contradiction; try congruence.
    eexists i, _. eapply S_gate_first; eauto.
  - destruct HI as [(todo & b & rest & Ht & _) _]. destruct todo as [|[n e] todo].
    + eexists t, _. eapply S_init_done; eauto.
    + eexists t, _. eapply S_init_write; eauto.
  - destruct HI as [_ HF]. pose proof (Forall_nth _ _ _ _ HF Hn) as Hq. destruct s as [b rest|? ? ?|b rest|]; try contradiction; try congruence.
    + eexists i, _. eapply S_gate_done; eauto.
    + destruct b; eexists i, _; [eapply S_ret|eapply S_read|eapply S_write]; eauto.
Qed.

(* a call that runs without interleaving (thread i alone steps from the start of its body to its return)
   returns its sequential result and leaves the registries as its sequential run does *)
Theorem solo_call_sequential : forall (b : body) (c : config) rest i,
  nth_error (threads c) i = Some (TBody b rest) ->
  exists c', solo name_eqb builtins i c c' /\
             results c' = (i, fst (run_seq name_eqb (reg c) b)) :: results c /\
             reg c' = snd (run_seq name_eqb (reg c) b) /\
             nth_error (threads c') i = Some (next_call rest) /\
             once_st c' = once_st c.
Proof.
  induction b as [r|n k IH|n e k IH]; intros c rest i Hn.
  - eexists. split; [eapply So_step; [eapply S_ret; eauto | apply So_refl]|].
    cbn. repeat split. eapply nth_set_eq; eauto.
  - set (c1 := {| once_st := once_st c; reg := reg c;
                  threads := set_nth (threads c) i (TBody (k (reg c n)) rest); results := results c |}).
    destruct (IH (reg c n) c1 rest i) as (c' & Hs & H1 & H2 & H3 & H4).
    { cbn. eapply nth_set_eq; eauto. }
    exists c'. split; [eapply So_step; [eapply S_read; eauto | exact Hs]|]. cbn in *. repeat split; assumption.
  - set (c1 := {| once_st := once_st c; reg := upd (reg c) n e;
                  threads := set_nth (threads c) i (TBody k rest); results := results c |}).
    destruct (IH c1 rest i) as (c' & Hs & H1 & H2 & H3 & H4).
    { cbn. eapply nth_set_eq; eauto. }
    exists c'. split; [eapply So_step; [eapply S_write; eauto | exact Hs]|]. cbn in *. repeat split; assumption.
Qed.

(* steps are deterministic per thread: the schedule is the only source of non-determinism *)
Theorem step_deterministic (c : config) i (c1 c2 : config) : step c i c1 -> step c i c2 -> c1 = c2.
Proof.
  intros H1 H2. destruct H1; destruct H2; try congruence;
    repeat match goal with
    | A : nth_error ?l ?i = Some _, B : nth_error ?l ?i = Some _ |- _ => rewrite A in B; inversion B; subst; clear B
    end; try reflexivity; try congruence.
Qed.

End Proofs.
