(** Lemma (A): the tokenizer reads the printer's text as the printer's token image.
    Part 1: an unfuelled run relation for the tokenizer, and completeness lemmas - a piece of text of a given shape, followed by
    whitespace, a separator or the end of input, IS read as the corresponding token. *)
From EE Require Import Chars OpTable Decimal Token Lexer Utf8 LexerSpec LexerTiling LexerWs DecimalString DecimalPrint.
Open Scope N_scope.

Section LP.
Variable tbl : optable.

(* what the tokenizer produces from offset cur on text s, up to the end of input (token kinds and payloads) *)
Inductive Lexes : N -> str -> list token -> Prop :=
| Lx_eof cur s : lex_one tbl cur s = LEof -> Lexes cur s []
| Lx_tok cur s t cur' s' ts : lex_one tbl cur s = LTok t cur' s' -> Lexes cur' s' ts -> Lexes cur s (tk t :: ts).

Lemma Lexes_lex_all : forall cur s ts, Lexes cur s ts ->
  forall f, (length s < f)%nat -> exists sts, lex_all f tbl cur s = (sts, TmEof) /\ map tk sts = ts.
Proof.
  induction 1 as [cur s H|cur s t cur' s' ts H _ IH]; intros f Hf; (destruct f as [|f]; [lia|]); cbn [lex_all]; rewrite H.
  - exists []. auto.
  - pose proof (lex_one_spec tbl cur s) as Sp. rewrite H in Sp. destruct Sp as (ws & body & Sg & _).
    pose proof (seg_rest _ _ _ _ _ _ _ Sg) as R0. pose proof (seg_body _ _ _ _ _ _ _ Sg) as B0.
    destruct (IH f) as (sts & E & M).
    + subst s. rewrite !app_length in Hf. destruct body; [contradiction|]. cbn [length] in Hf. lia.
    + rewrite E. exists (t :: sts). cbn [map]. rewrite M. auto.
Qed.

(* ---------- table conditions for printing *)
(* separators that can follow an expression in printed text: ) ] } , ; : *)
Definition ksep (c : char) : bool := (c =? 41) || (c =? 93) || (c =? 125) || (c =? 44) || (c =? 59) || (c =? 58).
Hypothesis ops_no_ws : forall w x, is_ws x = true -> is_op tbl (w ++ [x]) = false.
Hypothesis word_ops_param : forall w, is_op tbl w = true -> forallb is_param_char w = true \/
  match w with c :: _ => is_special c = true | [] => True end.
Hypothesis ops_no_sep : forall w x, w <> [] -> ksep x = true -> is_op tbl (w ++ [x]) = false.

(* what may follow an expression: end of input, whitespace or a separator; and the next visible character is not `(` *)
Definition kstop (k : str) : Prop := match k with [] => True | c :: _ => is_ws c = true \/ ksep c = true end.
Definition kend (k : str) : Prop := kstop k /\ next_is_lparen 0 k = false.

Lemma ksep_class x : ksep x = true ->
  is_ws x = false /\ is_digit_char x = false /\ is_param_char x = false /\ (x =? c_plus) = false /\ (x =? c_minus) = false.
Proof.
  unfold ksep. intros H. repeat (apply orb_prop in H; destruct H as [H|H]); apply N.eqb_eq in H; subst x; repeat split; reflexivity.
Qed.
Lemma kstop_param k : kstop k -> match k with [] => True | c :: _ => is_param_char c = false end.
Proof. destruct k as [|c k]; [auto|]. intros [H|H]; [apply (ws_class c H) | apply (ksep_class c H)]. Qed.
Lemma kstop_digit k : kstop k ->
  match k with [] => True | c :: _ => is_digit_char c = false /\ (c =? c_plus) = false /\ (c =? c_minus) = false end.
Proof.
  destruct k as [|c k]; [auto|]. intros [H|H].
  - destruct (ws_class c H) as (A & _ & _ & B & C). auto.
  - destruct (ksep_class c H) as (_ & A & _ & B & C). auto.
Qed.

(* slices of the token body *)
Lemma SLg cur g c w post : slice_at cur (g ++ c :: w ++ post) (cur + blen g) (cur + blen g + ulen c + blen w) = Some (c :: w).
Proof.
  replace (g ++ c :: w ++ post) with (g ++ (c :: w) ++ post) by reflexivity.
  apply slice_at_seg; [reflexivity|]. cbn [blen]. lia.
Qed.

(* ---------- single characters: delimiters, comma, semicolon - whatever follows *)
Lemma lex_delim cur g d k : forallb is_ws g = true ->
  lex_one tbl cur (g ++ delim_char d :: k) =
  LTok (mkst (TDelim d) (cur + blen g) (cur + blen g + 1)) (cur + blen g + 1) k.
Proof.
  intros Hg. unfold lex_one.
  assert (Hw : is_ws (delim_char d) = false) by (destruct d; reflexivity).
  rewrite (scan_app is_ws cur g (delim_char d :: k) Hg Hw).
  assert (Hs : is_special (delim_char d) = false) by (destruct d; reflexivity). rewrite Hs.
  assert (Hd : is_delim (delim_char d) = true) by (destruct d; reflexivity). rewrite Hd.
  pose proof (SLg cur g (delim_char d) [] k) as S0. cbn [app blen] in S0.
  assert (Hu : ulen (delim_char d) = 1) by (destruct d; reflexivity). rewrite Hu in *.
  replace (cur + blen g + 1 + 0) with (cur + blen g + 1) in S0 by lia. rewrite S0.
  assert (Hdo : delim_of (delim_char d) = Some d) by (destruct d; reflexivity). rewrite Hdo. reflexivity.
Qed.
Lemma lex_comma cur g k : forallb is_ws g = true ->
  lex_one tbl cur (g ++ c_comma :: k) = LTok (mkst TComma (cur + blen g) (cur + blen g + 1)) (cur + blen g + 1) k.
Proof.
  intros Hg. unfold lex_one. rewrite (scan_app is_ws cur g (c_comma :: k) Hg eq_refl).
  change (is_special c_comma) with false. change (is_delim c_comma) with false. change (is_digit09 c_comma) with false.
  change (is_quote c_comma) with false. change (c_comma =? c_semi) with false. change (c_comma =? c_comma) with true. cbn iota.
  pose proof (SLg cur g c_comma [] k) as S0. cbn [app blen] in S0. change (ulen c_comma) with 1 in *.
  replace (cur + blen g + 1 + 0) with (cur + blen g + 1) in S0 by lia. rewrite S0. reflexivity.
Qed.
Lemma lex_semi cur g k : forallb is_ws g = true ->
  lex_one tbl cur (g ++ c_semi :: k) = LTok (mkst TSemi (cur + blen g) (cur + blen g + 1)) (cur + blen g + 1) k.
Proof.
  intros Hg. unfold lex_one. rewrite (scan_app is_ws cur g (c_semi :: k) Hg eq_refl).
  change (is_special c_semi) with false. change (is_delim c_semi) with false. change (is_digit09 c_semi) with false.
  change (is_quote c_semi) with false. change (c_semi =? c_semi) with true. cbn iota.
  pose proof (SLg cur g c_semi [] k) as S0. cbn [app blen] in S0. change (ulen c_semi) with 1 in *.
  replace (cur + blen g + 1 + 0) with (cur + blen g + 1) in S0 by lia. rewrite S0. reflexivity.
Qed.

(* ---------- string literals *)
Lemma lex_string cur g q w k : forallb is_ws g = true -> is_quote q = true -> forallb (fun c => negb (c =? q)) w = true ->
  lex_one tbl cur (g ++ q :: w ++ q :: k) =
  LTok (mkst (TStr w) (cur + blen g) (cur + blen g + 1 + blen w + 1)) (cur + blen g + 1 + blen w + 1) k.
Proof.
  intros Hg Hq Hw. unfold lex_one.
  assert (Hu : ulen q = 1 /\ is_ws q = false /\ is_special q = false /\ is_delim q = false /\ is_digit09 q = false).
  { unfold is_quote in Hq. apply orb_prop in Hq. destruct Hq as [E|E]; apply N.eqb_eq in E; subst q; repeat split; reflexivity. }
  destruct Hu as (Hu & H1 & H2 & H3 & H4).
  rewrite (scan_app is_ws cur g (q :: w ++ q :: k) Hg H1). rewrite H2, H3, H4, Hq.
  pose proof (scan_str_transfer q w (cur + blen g + ulen q) k Hw) as HS. unfold str, char in *. rewrite HS. rewrite Hu.
  assert (S1 : slice_at cur (g ++ q :: w ++ q :: k) (cur + blen g + 1) (cur + blen g + 1 + blen w + 1 - 1) = Some w).
  { replace (g ++ q :: w ++ q :: k) with ((g ++ [q]) ++ w ++ q :: k) by (rewrite <- app_assoc; reflexivity).
    apply slice_at_seg; rewrite ?blen_app; cbn [blen]; lia. }
  rewrite S1. reflexivity.
Qed.

(* ---------- numbers: digits with at most one point, as the printer writes them *)
Lemma scan_num_digits : forall w prev cur k, forallb (fun c => is_digit09 c || (c =? c_dot)) w = true ->
  match k with [] => True | c :: _ => is_digit_char c = false /\ (c =? c_plus) = false /\ (c =? c_minus) = false end ->
  scan_num prev cur (w ++ k) = (cur + blen w, k).
Proof.
  induction w as [|x w IH]; intros prev cur k Hw Hk; cbn [app blen].
  - rewrite N.add_0_r. destruct k as [|c k']; [reflexivity|]. cbn [scan_num]. destruct Hk as (A & B & C). rewrite A, B, C. reflexivity.
  - cbn [forallb] in Hw. apply andb_prop in Hw as [Hx Hw]. cbn [scan_num].
    assert (Hd : is_digit_char x = true /\ (x =? c_plus) = false /\ (x =? c_minus) = false).
    { apply orb_prop in Hx as [Hx|Hx].
      - unfold is_digit_char. rewrite Hx. unfold is_digit09 in Hx. apply andb_prop in Hx as [A B]. apply N.leb_le in A, B.
        repeat split; try reflexivity; apply N.eqb_neq; unfold c_plus, c_minus; lia.
      - apply N.eqb_eq in Hx. subst x. repeat split; reflexivity. }
    destruct Hd as (A & B & C). rewrite A, B, C. cbn [orb andb]. rewrite IH by assumption. f_equal. lia.
Qed.

Lemma lex_number cur g c w d k : forallb is_ws g = true -> is_digit09 c = true ->
  forallb (fun x => is_digit09 x || (x =? c_dot)) w = true -> dec_of_string (c :: w) = Some d -> kstop k ->
  lex_one tbl cur (g ++ c :: w ++ k) =
  LTok (mkst (TNum d) (cur + blen g) (cur + blen g + ulen c + blen w)) (cur + blen g + ulen c + blen w) k.
Proof.
  intros Hg Hc Hw Hd Hk. unfold lex_one.
  assert (H1 : is_ws c = false /\ is_special c = false /\ is_delim c = false).
  { unfold is_digit09 in Hc. apply andb_prop in Hc as [A B]. apply N.leb_le in A, B.
    repeat split; unfold is_ws, is_special, is_delim;
      repeat match goal with |- context [c =? ?x] => destruct (N.eqb_spec c x); [lia|] end; reflexivity. }
  destruct H1 as (H1 & H2 & H3).
  rewrite (scan_app is_ws cur g (c :: w ++ k) Hg H1). rewrite H2, H3, Hc.
  rewrite (scan_num_digits w c (cur + blen g + ulen c) k Hw (kstop_digit k Hk)).
  rewrite (SLg cur g c w k), Hd. reflexivity.
Qed.

(* ---------- symbolic operators: greedy over registered prefixes *)
Fixpoint pops (done w : str) : Prop :=
  match w with [] => True | x :: w' => is_op tbl (done ++ [x]) = true /\ pops (done ++ [x]) w' end.

Lemma special_loop_run base pre : forall w done k,
  done <> [] -> pops done w ->
  match k with [] => True | c :: _ => is_op tbl (done ++ w ++ [c]) = false end ->
  special_loop tbl base (pre ++ done ++ w ++ k) (base + blen pre) (base + blen pre + blen done) (w ++ k)
    = Some (base + blen pre + blen done + blen w, k).
Proof.
  induction w as [|x w IH]; intros done k Hd Hp Hk; cbn [app blen].
  - rewrite N.add_0_r. destruct k as [|c k']; [reflexivity|]. cbn [special_loop].
    assert (Hs: slice_at base (pre ++ done ++ c :: k') (base + blen pre) (base + blen pre + blen done + ulen c) = Some (done ++ [c])).
    { replace (pre ++ done ++ c :: k') with (pre ++ (done ++ [c]) ++ k') by (rewrite <- !app_assoc; reflexivity).
      apply slice_at_seg; [reflexivity|]. rewrite blen_app. cbn [blen]. lia. }
    rewrite Hs. cbn [app] in Hk. rewrite Hk. reflexivity.
  - cbn [pops] in Hp. destruct Hp as [Hop Hp]. cbn [special_loop].
    assert (Hs: slice_at base (pre ++ done ++ x :: w ++ k) (base + blen pre) (base + blen pre + blen done + ulen x) = Some (done ++ [x])).
    { replace (pre ++ done ++ x :: w ++ k) with (pre ++ (done ++ [x]) ++ w ++ k) by (rewrite <- !app_assoc; reflexivity).
      apply slice_at_seg; [reflexivity|]. rewrite blen_app. cbn [blen]. lia. }
    rewrite Hs, Hop.
    specialize (IH (done ++ [x]) k ltac:(destruct done; discriminate) Hp).
    replace (pre ++ (done ++ [x]) ++ w ++ k) with (pre ++ done ++ x :: w ++ k) in IH by (rewrite <- !app_assoc; reflexivity).
    rewrite !blen_app in IH. cbn [blen] in IH.
    replace (base + blen pre + (blen done + (ulen x + 0))) with (base + blen pre + blen done + ulen x) in IH by lia.
    replace (base + blen pre + blen done + (ulen x + blen w)) with (base + blen pre + blen done + ulen x + blen w) by lia.
    apply IH. destruct k as [|c0 k0]; [exact I|]. rewrite <- app_assoc. exact Hk.
Qed.

Lemma lex_symop cur g c bt k : forallb is_ws g = true -> is_special c = true -> pops [c] bt -> kstop k ->
  lex_one tbl cur (g ++ c :: bt ++ k) =
  LTok (mkst (TOp (c :: bt)) (cur + blen g) (cur + blen g + ulen c + blen bt)) (cur + blen g + ulen c + blen bt) k.
Proof.
  intros Hg Hs Hp Hk. unfold lex_one.
  assert (Hw : is_ws c = false).
  { unfold is_special in Hs. unfold is_ws. repeat (apply orb_prop in Hs; destruct Hs as [Hs|Hs]); apply N.eqb_eq in Hs; subst c; reflexivity. }
  rewrite (scan_app is_ws cur g (c :: bt ++ k) Hg Hw). rewrite Hs.
  pose proof (special_loop_run cur g bt [c] k ltac:(discriminate) Hp) as R. cbn [app blen] in R.
  replace (cur + blen g + (ulen c + 0)) with (cur + blen g + ulen c) in R by lia.
  rewrite R.
  - rewrite (SLg cur g c bt k). reflexivity.
  - destruct k as [|x k']; [exact I|]. destruct Hk as [Hx|Hx].
    + change (c :: bt ++ [x]) with ((c :: bt) ++ [x]). apply ops_no_ws. exact Hx.
    + change (c :: bt ++ [x]) with ((c :: bt) ++ [x]). apply ops_no_sep; [discriminate | exact Hx].
Qed.

(* a single special character is an operator token whatever the table says (`?`, `:` of the conditional) *)
Lemma lex_sym1 cur g c k : forallb is_ws g = true -> is_special c = true -> kstop k ->
  lex_one tbl cur (g ++ c :: k) = LTok (mkst (TOp [c]) (cur + blen g) (cur + blen g + ulen c)) (cur + blen g + ulen c) k.
Proof.
  intros Hg Hs Hk. pose proof (lex_symop cur g c [] k Hg Hs I Hk) as L. cbn [app blen] in L.
  replace (cur + blen g + ulen c + 0) with (cur + blen g + ulen c) in L by lia. exact L.
Qed.

(* ---------- words: operators spelled as words, names, true / false *)
Definition wordstart (c : char) : Prop :=
  is_ws c = false /\ is_special c = false /\ is_delim c = false /\ is_digit09 c = false /\ is_quote c = false /\
  (c =? c_semi) = false /\ (c =? c_comma) = false.

Lemma ksep_word_end x : ksep x = true -> not_ws_delim x = false.
Proof.
  unfold ksep. intros H. repeat (apply orb_prop in H; destruct H as [H|H]); apply N.eqb_eq in H; subst x; reflexivity.
Qed.
Lemma kstop_word k : kstop k -> match k with [] => True | c :: _ => not_ws_delim c = false end.
Proof. destruct k as [|c k]; [auto|]. intros [H|H]; [apply (ws_class c H) | apply ksep_word_end; exact H]. Qed.

Lemma lex_wordop cur g c bt k : forallb is_ws g = true -> wordstart c -> forallb not_ws_delim (c :: bt) = true ->
  is_op tbl (c :: bt) = true -> kstop k ->
  lex_one tbl cur (g ++ c :: bt ++ k) =
  LTok (mkst (TOp (c :: bt)) (cur + blen g) (cur + blen g + ulen c + blen bt)) (cur + blen g + ulen c + blen bt) k.
Proof.
  intros Hg (H1 & H2 & H3 & H4 & H5 & H6 & H7) Hb Hop Hk. unfold lex_one.
  rewrite (scan_app is_ws cur g (c :: bt ++ k) Hg H1). rewrite H2, H3, H4, H5, H6, H7.
  cbn [forallb] in Hb. apply andb_prop in Hb as [_ Hb].
  rewrite (scan_app not_ws_delim (cur + blen g + ulen c) bt k Hb (kstop_word k Hk)).
  rewrite (SLg cur g c bt k), Hop. reflexivity.
Qed.

Definition is_kw (a : str) : bool := str_eqb a s_True || str_eqb a s_true || str_eqb a s_False || str_eqb a s_false.

(* a name: param characters, not a keyword, not an operator word; the word it sits in is not an operator either *)
Lemma word_not_op c bt e : wordstart c -> forallb is_param_char bt = true -> is_op tbl (c :: bt) = false ->
  match e with x :: _ => is_param_char x = false | [] => True end -> forallb not_ws_delim e = true ->
  is_op tbl (c :: bt ++ e) = false.
Proof.
  intros (_ & Hs & _) Hbt Hn He Hee. destruct (is_op tbl (c :: bt ++ e)) eqn:O; [|reflexivity]. exfalso.
  destruct (word_ops_param _ O) as [P|P]; [|cbn in P; rewrite Hs in P; discriminate P].
  cbn [forallb] in P. apply andb_prop in P as [_ P]. rewrite forallb_app in P. apply andb_prop in P as [_ P].
  destruct e as [|x e']; [rewrite app_nil_r in O; rewrite Hn in O; discriminate|].
  cbn [forallb] in P. apply andb_prop in P as [Px _]. rewrite He in Px. discriminate.
Qed.

Lemma lex_name cur g c bt k : forallb is_ws g = true -> wordstart c ->
  forallb is_param_char bt = true -> is_op tbl (c :: bt) = false -> is_kw (c :: bt) = false ->
  match k with [] => True | x :: _ => is_param_char x = false end ->
  lex_one tbl cur (g ++ c :: bt ++ k) =
  LTok (mkst (if next_is_lparen 0 k then TFunc (c :: bt) else TRef (c :: bt)) (cur + blen g) (cur + blen g + ulen c + blen bt))
       (cur + blen g + ulen c + blen bt) k.
Proof.
  intros Hg Hws Hbt Hn Hkw Hkp. pose proof Hws as (H1 & H2 & H3 & H4 & H5 & H6 & H7). unfold lex_one.
  rewrite (scan_app is_ws cur g (c :: bt ++ k) Hg H1). rewrite H2, H3, H4, H5, H6, H7.
  destruct (scan not_ws_delim (cur + blen g + ulen c) (bt ++ k)) as [curw restw] eqn:Hsw.
  pose proof Hsw as Hsw0. apply scan_spec in Hsw0. destruct Hsw0 as (ww & Hww & -> & Hwwp & Hwstop).
  (* the word is bt followed by a run e of k *)
  assert (Hsplit : exists e, ww = bt ++ e /\ k = e ++ restw /\ forallb not_ws_delim e = true).
  { pose proof (scan_app not_ws_delim (cur + blen g + ulen c) bt) as A.
    destruct (scan not_ws_delim (cur + blen g + ulen c + blen bt) k) as [cure reste] eqn:Hse.
    apply scan_spec in Hse. destruct Hse as (e & He & -> & Hep & Hestop).
    assert (B : scan not_ws_delim (cur + blen g + ulen c) (bt ++ k) = (cur + blen g + ulen c + blen (bt ++ e), reste)).
    { rewrite He, app_assoc. apply scan_app; [rewrite forallb_app, (forall_param_nwd bt Hbt), Hep; reflexivity | exact Hestop]. }
    rewrite Hsw in B. injection B as B1 B2. subst restw. exists e. repeat split; [|exact He | exact Hep].
    apply (app_inv_tail reste). rewrite <- app_assoc, <- He. symmetry. exact Hww. }
  destruct Hsplit as (e & -> & Hk2 & Hep).
  rewrite Hww. rewrite (SLg cur g c (bt ++ e) restw). rewrite <- Hww.
  assert (Hop : is_op tbl (c :: bt ++ e) = false).
  { apply word_not_op; try assumption. destruct e as [|x e']; [exact I|]. subst k. exact Hkp. }
  rewrite Hop.
  rewrite (scan_app is_param_char (cur + blen g + ulen c) bt k Hbt Hkp).
  rewrite (SLg cur g c bt k).
  unfold is_kw in Hkw. apply orb_false_elim in Hkw as [Hkw K4]. apply orb_false_elim in Hkw as [Hkw K3]. apply orb_false_elim in Hkw as [K1 K2].
  rewrite K1, K2, K3, K4. cbn [orb].
  rewrite (next_is_lparen_cur (cur + blen g + ulen c + blen bt) 0 k).
  destruct (next_is_lparen 0 k); reflexivity.
Qed.

Lemma lex_bool cur g (b : bool) k : forallb is_ws g = true -> is_op tbl (if b then s_true else s_false) = false -> kstop k ->
  let body := if b then s_true else s_false in
  lex_one tbl cur (g ++ body ++ k) = LTok (mkst (TBool b) (cur + blen g) (cur + blen g + blen body)) (cur + blen g + blen body) k.
Proof.
  intros Hg Hn Hk body. unfold body. clear body.
  assert (W : forall c bt, wordstart c -> is_param_char c = true -> forallb is_param_char bt = true -> is_op tbl (c :: bt) = false ->
     (str_eqb (c :: bt) s_True || str_eqb (c :: bt) s_true = true /\ b = true) \/
     (str_eqb (c :: bt) s_True || str_eqb (c :: bt) s_true = false /\ str_eqb (c :: bt) s_False || str_eqb (c :: bt) s_false = true /\ b = false) ->
     lex_one tbl cur (g ++ c :: bt ++ k) =
     LTok (mkst (TBool b) (cur + blen g) (cur + blen g + ulen c + blen bt)) (cur + blen g + ulen c + blen bt) k).
  { intros c bt Hws Hc Hbt Hno HB. pose proof Hws as (H1 & H2 & H3 & H4 & H5 & H6 & H7). unfold lex_one.
    rewrite (scan_app is_ws cur g (c :: bt ++ k) Hg H1). rewrite H2, H3, H4, H5, H6, H7.
    destruct (scan not_ws_delim (cur + blen g + ulen c) (bt ++ k)) as [curw restw] eqn:Hsw.
    pose proof Hsw as Hsw0. apply scan_spec in Hsw0. destruct Hsw0 as (ww & Hww & -> & Hwwp & Hwstop).
    assert (Hsplit : exists e, ww = bt ++ e /\ k = e ++ restw /\ forallb not_ws_delim e = true).
    { destruct (scan not_ws_delim (cur + blen g + ulen c + blen bt) k) as [cure reste] eqn:Hse.
      apply scan_spec in Hse. destruct Hse as (e & He & -> & Hep & Hestop).
      assert (B : scan not_ws_delim (cur + blen g + ulen c) (bt ++ k) = (cur + blen g + ulen c + blen (bt ++ e), reste)).
      { rewrite He, app_assoc. apply scan_app; [rewrite forallb_app, (forall_param_nwd bt Hbt), Hep; reflexivity | exact Hestop]. }
      rewrite Hsw in B. injection B as B1 B2. subst restw. exists e. repeat split; [|exact He | exact Hep].
      apply (app_inv_tail reste). rewrite <- app_assoc, <- He. symmetry. exact Hww. }
    destruct Hsplit as (e & -> & Hk2 & Hep).
    rewrite Hww. rewrite (SLg cur g c (bt ++ e) restw). rewrite <- Hww.
    assert (Hop : is_op tbl (c :: bt ++ e) = false).
    { apply word_not_op; try assumption. destruct e as [|x e']; [exact I|]. subst k. apply (kstop_param _ Hk). }
    rewrite Hop.
    rewrite (scan_app is_param_char (cur + blen g + ulen c) bt k Hbt (kstop_param k Hk)).
    rewrite (SLg cur g c bt k).
    destruct HB as [[B1 ->]|(B1 & B2 & ->)]; [rewrite B1 | rewrite B1, B2]; reflexivity. }
  destruct b.
  - change (blen s_true) with (ulen 116 + blen [114; 117; 101]). rewrite N.add_assoc.
    exact (W 116 [114; 117; 101] ltac:(repeat split; reflexivity) eq_refl eq_refl Hn ltac:(left; split; reflexivity)).
  - change (blen s_false) with (ulen 102 + blen [97; 108; 115; 101]). rewrite N.add_assoc.
    exact (W 102 [97; 108; 115; 101] ltac:(repeat split; reflexivity) eq_refl eq_refl Hn ltac:(right; repeat split; reflexivity)).
Qed.

(* ---------- pieces of text and their tokens *)
(* piece [s], wherever it starts and whatever whitespace precedes it, is read as [ts], and reading goes on with what follows,
   provided what follows satisfies [r] (nothing for delimiters, separators and strings; [kstop] for operators and numbers;
   [kend] for names, whose classification looks ahead for `(`) *)
Definition rany (k : str) : Prop := True.
Definition TX (r : str -> Prop) (s : str) (ts : list token) : Prop :=
  forall g cur k kts, forallb is_ws g = true -> r k ->
    Lexes (cur + blen g + blen s) k kts -> Lexes cur (g ++ s ++ k) (ts ++ kts).

Lemma TX_mono (r r' : str -> Prop) s ts : (forall k, r' k -> r k) -> TX r s ts -> TX r' s ts.
Proof. intros M H g cur k kts Hg Hk HL. apply H; [exact Hg | apply M; exact Hk | exact HL]. Qed.

Lemma TX_one (r : str -> Prop) s t : (forall g cur k, forallb is_ws g = true -> r k ->
     exists st, lex_one tbl cur (g ++ s ++ k) = LTok st (cur + blen g + blen s) k /\ tk st = t) -> TX r s [t].
Proof.
  intros H g cur k kts Hg Hk HL. destruct (H g cur k Hg Hk) as (st & L & <-). cbn [app]. eapply Lx_tok; [exact L | exact HL].
Qed.

Lemma TX_app (r1 r2 : str -> Prop) s1 s2 ts1 ts2 : TX r1 s1 ts1 -> TX r2 s2 ts2 ->
  (forall k, r2 k -> r1 (s2 ++ k)) -> TX r2 (s1 ++ s2) (ts1 ++ ts2).
Proof.
  intros H1 H2 J g cur k kts Hg Hk HL. rewrite <- !app_assoc. apply (H1 g cur (s2 ++ k) (ts2 ++ kts) Hg).
  - apply J; assumption.
  - apply (H2 [] (cur + blen g + blen s1) k kts eq_refl Hk).
    replace (cur + blen g + blen s1 + blen [] + blen s2) with (cur + blen g + blen (s1 ++ s2)) by (rewrite blen_app; cbn [blen]; lia).
    exact HL.
Qed.

(* a blank in front of a piece belongs to the gap before its first token *)
Lemma TX_sp (r : str -> Prop) s ts : TX r s ts -> TX r (c_space :: s) ts.
Proof.
  intros H g cur k kts Hg Hk HL.
  replace (g ++ (c_space :: s) ++ k) with ((g ++ [c_space]) ++ s ++ k) by (rewrite <- app_assoc; reflexivity).
  apply H; [rewrite forallb_app, Hg; reflexivity | exact Hk |].
  replace (cur + blen (g ++ [c_space]) + blen s) with (cur + blen g + blen (c_space :: s)) by (rewrite blen_app; cbn [blen]; lia).
  exact HL.
Qed.

(* junctions *)
Lemma kend_kstop k : kend k -> kstop k.
Proof. intros [H _]. exact H. Qed.
Lemma kend_nil : kend [].
Proof. split; [exact I | reflexivity]. Qed.
Lemma kend_sep c x : ksep c = true -> kend (c :: x).
Proof.
  intros H. split; [right; exact H|]. unfold next_is_lparen. cbn [scan].
  destruct (ksep_class c H) as (W & _). rewrite W. cbn [snd].
  unfold ksep in H. repeat (apply orb_prop in H; destruct H as [H|H]); apply N.eqb_eq in H; subst c; reflexivity.
Qed.
Lemma kend_sp c x : is_ws c = false -> (c =? c_lparen) = false -> kend (c_space :: c :: x).
Proof.
  intros W P. split; [left; reflexivity|]. unfold next_is_lparen. cbn [scan]. change (is_ws c_space) with true. cbn iota.
  cbn [scan]. rewrite W. cbn [snd]. exact P.
Qed.
Lemma kstop_sp x : kstop (c_space :: x).
Proof. left. reflexivity. Qed.

(* ---------- single tokens as pieces *)
Lemma TX_delim d : TX rany [delim_char d] [TDelim d].
Proof.
  apply TX_one. intros g cur k Hg _. eexists. split; [cbn [app]; rewrite (lex_delim cur g d k Hg); f_equal; assert (ulen (delim_char d) = 1) by (destruct d; reflexivity); cbn [blen]; lia | reflexivity].
Qed.
Lemma TX_comma : TX rany [c_comma] [TComma].
Proof.
  apply TX_one. intros g cur k Hg _. eexists. split; [cbn [app]; rewrite (lex_comma cur g k Hg); f_equal; cbn; lia | reflexivity].
Qed.
Lemma TX_semi : TX rany [c_semi] [TSemi].
Proof.
  apply TX_one. intros g cur k Hg _. eexists. split; [cbn [app]; rewrite (lex_semi cur g k Hg); f_equal; cbn; lia | reflexivity].
Qed.
Lemma TX_string q w : is_quote q = true -> forallb (fun c => negb (c =? q)) w = true -> TX rany (q :: w ++ [q]) [TStr w].
Proof.
  intros Hq Hw. apply TX_one. intros g cur k Hg _.
  assert (Hu : ulen q = 1). { unfold is_quote in Hq. apply orb_prop in Hq. destruct Hq as [E|E]; apply N.eqb_eq in E; subst q; reflexivity. }
  pose proof (lex_string cur g q w k Hg Hq Hw) as L.
  eexists. split; [cbn [app]; rewrite <- app_assoc; cbn [app]; unfold str, char in *; rewrite L; f_equal; cbn [blen]; rewrite blen_app; cbn [blen]; lia | reflexivity].
Qed.
Lemma TX_number c w d : is_digit09 c = true -> forallb (fun x => is_digit09 x || (x =? c_dot)) w = true ->
  dec_of_string (c :: w) = Some d -> TX kstop (c :: w) [TNum d].
Proof.
  intros Hc Hw Hd. apply TX_one. intros g cur k Hg Hk. eexists. split; [cbn [app]; rewrite (lex_number cur g c w d k Hg Hc Hw Hd Hk); f_equal; cbn [blen]; lia | reflexivity].
Qed.
Lemma TX_symop c bt : is_special c = true -> pops [c] bt -> TX kstop (c :: bt) [TOp (c :: bt)].
Proof.
  intros Hs Hp. apply TX_one. intros g cur k Hg Hk. eexists. split; [cbn [app]; rewrite (lex_symop cur g c bt k Hg Hs Hp Hk); f_equal; cbn [blen]; lia | reflexivity].
Qed.
Lemma TX_wordop c bt : wordstart c -> forallb not_ws_delim (c :: bt) = true -> is_op tbl (c :: bt) = true ->
  TX kstop (c :: bt) [TOp (c :: bt)].
Proof.
  intros Hw Hb Ho. apply TX_one. intros g cur k Hg Hk. eexists. split; [cbn [app]; rewrite (lex_wordop cur g c bt k Hg Hw Hb Ho Hk); f_equal; cbn [blen]; lia | reflexivity].
Qed.
Lemma TX_ref c bt : wordstart c -> forallb is_param_char bt = true ->
  is_op tbl (c :: bt) = false -> is_kw (c :: bt) = false -> TX kend (c :: bt) [TRef (c :: bt)].
Proof.
  intros Hw Hb Ho Hk0. apply TX_one. intros g cur k Hg [Ks Kl]. eexists. split.
  - cbn [app]. rewrite (lex_name cur g c bt k Hg Hw Hb Ho Hk0 (kstop_param k Ks)). rewrite Kl. f_equal. cbn [blen]. lia.
  - reflexivity.
Qed.
(* a function name with its opening parenthesis *)
Lemma TX_funcname c bt : wordstart c -> forallb is_param_char bt = true ->
  is_op tbl (c :: bt) = false -> is_kw (c :: bt) = false ->
  TX rany ((c :: bt) ++ [c_lparen]) [TFunc (c :: bt); TDelim DLParen].
Proof.
  intros Hw Hb Ho Hk0 g cur k kts Hg _ HL. rewrite <- app_assoc. cbn [app].
  eapply (Lx_tok cur _ (mkst (TFunc (c :: bt)) (cur + blen g) (cur + blen g + ulen c + blen bt)) (cur + blen g + ulen c + blen bt) (c_lparen :: k)).
  - rewrite (lex_name cur g c bt (c_lparen :: k) Hg Hw Hb Ho Hk0 eq_refl).
    assert (E : next_is_lparen 0 (c_lparen :: k) = true) by reflexivity. rewrite E. reflexivity.
  - eapply (Lx_tok _ _ (mkst (TDelim DLParen) _ _)).
    + exact (lex_delim (cur + blen g + ulen c + blen bt) [] DLParen k eq_refl).
    + cbn [blen app] in *. rewrite blen_app in HL. cbn [blen] in HL.
      replace (cur + blen g + ulen c + blen bt + 0 + 1) with (cur + blen g + (ulen c + (blen bt + (1 + 0)))) by lia. exact HL.
Qed.
Lemma TX_bool (b : bool) : is_op tbl (if b then s_true else s_false) = false -> TX kstop (if b then s_true else s_false) [TBool b].
Proof.
  intros Hn. apply TX_one. intros g cur k Hg Hk. eexists. split; [apply (lex_bool cur g b k Hg Hn Hk) | reflexivity].
Qed.

(* a single special character followed by anything that does not extend it to an operator (the `:` of a map entry) *)
Lemma lex_sym1_gen cur g c k : forallb is_ws g = true -> is_special c = true ->
  match k with [] => True | x :: _ => is_op tbl [c; x] = false end ->
  lex_one tbl cur (g ++ c :: k) = LTok (mkst (TOp [c]) (cur + blen g) (cur + blen g + ulen c)) (cur + blen g + ulen c) k.
Proof.
  intros Hg Hs Hk. unfold lex_one.
  assert (Hw : is_ws c = false).
  { unfold is_special in Hs. unfold is_ws. repeat (apply orb_prop in Hs; destruct Hs as [Hs|Hs]); apply N.eqb_eq in Hs; subst c; reflexivity. }
  rewrite (scan_app is_ws cur g (c :: k) Hg Hw). rewrite Hs.
  pose proof (special_loop_run cur g [] [c] k ltac:(discriminate) I) as R. cbn [app blen] in R.
  replace (cur + blen g + (ulen c + 0)) with (cur + blen g + ulen c) in R by lia.
  replace (cur + blen g + ulen c + 0) with (cur + blen g + ulen c) in R by lia.
  rewrite (R Hk). pose proof (SLg cur g c [] k) as S0. cbn [app blen] in S0.
  replace (cur + blen g + ulen c + 0) with (cur + blen g + ulen c) in S0 by lia. rewrite S0. reflexivity.
Qed.
End LP.
