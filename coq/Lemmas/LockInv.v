(** The lock discipline of the evaluator model: no lock is ever held or poisoned when a handler runs or when
    evaluation returns - whatever the handlers do (re-enter, register, lock the context, fail, panic). *)
From EE Require Import Chars OpTable Decimal Ast Value Names Lexer Parser Eval.
Open Scope N_scope.

Definition clean (st : state) : Prop := s_held st = [] /\ s_poisoned st = [].

Lemma acquire_clean l st : clean st -> acquire l st = None.
Proof. intros [H1 H2]. unfold acquire. rewrite H1, H2. reflexivity. Qed.

Lemma clean_set_log st l : clean st -> clean (set_log st l). Proof. intros H; exact H. Qed.
Lemma clean_set_inexact st i : clean st -> clean (set_inexact st i). Proof. intros H; exact H. Qed.
Lemma clean_set_ctxs st l : clean st -> clean (set_ctxs st l). Proof. intros H; exact H. Qed.
Lemma clean_set_regs st r : clean st -> clean (set_regs st r). Proof. intros H; exact H. Qed.
Lemma clean_ctx_set st c n v : clean st -> clean (ctx_set st c n v). Proof. intros H; exact H. Qed.
Lemma clean_ensure_init b st : clean st -> clean (ensure_init b st).
Proof. intros H. unfold ensure_init. destruct (s_inited st); exact H. Qed.

Definition good (r : eres * state) : Prop := clean (snd r) /\ fst r <> EDeadlock.

Lemma good_of_ares r st : clean st -> good (of_ares r st).
Proof. intros H. destruct r; cbn; split; try exact H; discriminate. Qed.

Lemma good_do_register b l st upd :
  clean st -> (forall x, clean x -> clean (upd x)) -> good (do_register b l st upd).
Proof.
  intros H U. unfold do_register. rewrite (acquire_clean l _ (clean_ensure_init b st H)).
  split; cbn; [apply U, clean_ensure_init, H | discriminate].
Qed.

Lemma clean_do_parse b st s : clean st -> clean (snd (do_parse b st s)).
Proof.
  intros H. unfold do_parse. pose proof (clean_ensure_init b st H) as H'.
  rewrite !(acquire_clean _ _ H'). destruct (lex (tbl_of (s_regs (ensure_init b st))) s). exact H'.
Qed.

Section S.
Variable b : registries.
Variable reenter : str -> N -> state -> eres * state.
Hypothesis reenter_good : forall s c st, clean st -> good (reenter s c st).

Lemma good_run_script : forall s h n args st, clean st -> good (run_script b reenter s h n args st).
Proof.
  fix IH 1. intros s h n args st H. destruct s as [v|i| | |a k|l]; cbn [run_script].
  - split; [exact H|discriminate].
  - split; [exact H|discriminate].
  - split; [exact H|discriminate].
  - split; [exact H|discriminate].
  - assert (G: good (match a with
        | AcParse src => let '(_, st1) := do_parse b st src in (EOk VNone, st1)
        | AcExec src c => reenter src c st
        | AcRegF nm hh => do_register b LFunc st (fun st => reg_func st nm (HScript hh))
        | AcRegP nm hh => do_register b LPrefix st (fun st => reg_prefix st nm (HScript hh))
        | AcRegS nm hh => do_register b LPostfix st (fun st => reg_postfix st nm (HScript hh))
        | AcRegI nm p se ri hh => do_register b LInfix st (fun st => reg_infix st nm {| ic_prec := p; ic_setter := se; ic_right := ri |} (HScript hh))
        | AcLock c => match acquire (LCtx c) st with Some e => (e, st) | None => (EOk VNone, st) end
        end)).
    { destruct a.
      - pose proof (clean_do_parse b st s H) as C. destruct (do_parse b st s). split; [exact C|discriminate].
      - apply reenter_good. exact H.
      - apply good_do_register; [exact H| intros x Hx; exact Hx].
      - apply good_do_register; [exact H| intros x Hx; exact Hx].
      - apply good_do_register; [exact H| intros x Hx; exact Hx].
      - apply good_do_register; [exact H| intros x Hx; exact Hx].
      - rewrite (acquire_clean _ _ H). split; [exact H|discriminate]. }
    match goal with |- good (let '(r, st1) := ?X in _) => destruct X as [r st1] end.
    destruct G as [G1 G2]. cbn [fst snd] in G1, G2.
    destruct r; try (split; [exact G1 | assumption || discriminate]); apply IH; exact G1.
  - revert n. induction l as [|s1 r IHl]; intros n.
    + split; [exact H|discriminate].
    + destruct r as [|s2 r'].
      * apply IH. exact H.
      * destruct n as [|n']; [apply IH; exact H | apply IHl].
Qed.

Lemma good_call_script h args st : clean st -> good (call_script b reenter h args st).
Proof.
  intros H. unfold call_script. destruct (nassoc h (s_scripts st)).
  - apply good_run_script. exact H.
  - split; [exact H|discriminate].
Qed.

Lemma good_call_handler hd bi args st : clean st -> good (call_handler b reenter hd bi args st).
Proof.
  intros H. destruct hd; cbn [call_handler].
  - destruct bi; [apply good_of_ares; exact H | split; [exact H|discriminate]].
  - apply good_call_script. exact H.
Qed.

Lemma get_infix_clean st op : clean st ->
  get_infix st op = match assoc op (r_infix (s_regs st)) with Some x => inr x | None => inl EErr end.
Proof. intros H. unfold get_infix. rewrite (acquire_clean _ _ H). reflexivity. Qed.
Lemma get_named_clean l tab st op : clean st ->
  get_named l tab st op = match assoc op tab with Some x => inr x | None => inl EErr end.
Proof. intros H. unfold get_named. rewrite (acquire_clean _ _ H). reflexivity. Qed.
Lemma ctx_get_clean st c n : clean st -> ctx_get st c n = inr (assoc n (ctx_of st c)).
Proof. intros H. unfold ctx_get. rewrite (acquire_clean _ _ H). reflexivity. Qed.

Ltac fin H := split; [exact H | discriminate].

(* evaluation: clean in, clean out, never a deadlock *)
Lemma good_exec : forall e c st, clean st -> good (exec b reenter e c st).
Proof.
  fix IH 1. intros e c st H.
  assert (LIST: forall l st, clean st ->
     let r := (fix go (l : list ast) (st : state) {struct l} : (eres + list value) * state :=
       match l with
       | [] => (inr [], st)
       | x :: r =>
           match exec b reenter x c st with
           | (EOk v, st1) => match go r st1 with
                             | (inr vs, st2) => (inr (v :: vs), st2)
                             | other => other
                             end
           | (err, st1) => (inl err, st1)
           end
       end) l st in clean (snd r) /\ (forall err, fst r = inl err -> err <> EDeadlock)).
  { induction l as [|x r IHl]; intros st0 H0; cbn zeta.
    - split; [exact H0 | intros err E; discriminate].
    - pose proof (IH x c st0 H0) as [G1 G2]. destruct (exec b reenter x c st0) as [rx st1]. cbn [fst snd] in G1, G2.
      destruct rx; try (split; [exact G1 | intros err E; inversion E; subst; assumption || discriminate]).
      specialize (IHl st1 G1). cbn zeta in IHl.
      match goal with |- context [(fix go (l : list ast) (st : state) {struct l} := _) r st1] =>
        destruct ((fix go (l : list ast) (st : state) {struct l} := _) r st1) as [[e1|vs] st2] end;
        cbn [fst snd] in *; destruct IHl as [I1 I2]; (split; [exact I1|]).
      + intros err E. apply I2. exact E.
      + intros err E. discriminate. }
  destruct e as [l|op r|op l r|l op|cnd a x|n|n args|es|kvs|es|]; cbn [exec].
  - fin H.
  - (* unary *)
    rewrite (get_named_clean _ _ _ _ H). destruct (assoc op (r_prefix (s_regs st))) as [hd|]; [|fin H].
    pose proof (IH r c st H) as [G1 G2]. destruct (exec b reenter r c st) as [rr st1]. cbn [fst snd] in G1, G2.
    destruct rr; try (split; [exact G1 | assumption || discriminate]). apply good_call_handler. exact G1.
  - (* binary *)
    rewrite (get_infix_clean _ _ H). destruct (assoc op (r_infix (s_regs st))) as [[cfg hd0]|]; [|fin H].
    destruct (ic_setter cfg).
    + pose proof (IH l c st H) as [G1 G2]. destruct (exec b reenter l c st) as [rl st1]. cbn [fst snd] in G1, G2.
      destruct rl; try (split; [exact G1 | assumption || discriminate]).
      pose proof (IH r c st1 G1) as [G3 G4]. destruct (exec b reenter r c st1) as [rr st2]. cbn [fst snd] in G3, G4.
      destruct rr; try (split; [exact G3 | assumption || discriminate]).
      destruct l; try fin G3.
      rewrite (get_infix_clean _ _ G3). destruct (assoc op (r_infix (s_regs st2))) as [[cfg2 hd2]|]; [|fin G3].
      pose proof (good_call_handler hd2 (builtin_infix op v v0) [v; v0] st2 G3) as [G5 G6].
      destruct (call_handler b reenter hd2 (builtin_infix op v v0) [v; v0] st2) as [rh st3]. cbn [fst snd] in G5, G6.
      destruct rh; try (split; [exact G5 | assumption || discriminate]).
      rewrite (acquire_clean _ _ G5). split; [apply clean_ctx_set; exact G5 | discriminate].
    + lazy beta iota.
      pose proof (IH l c st H) as [G1 G2]. destruct (exec b reenter l c st) as [rl st1]. cbn [fst snd] in G1, G2.
      destruct rl; try (split; [exact G1 | assumption || discriminate]).
      pose proof (IH r c st1 G1) as [G3 G4]. destruct (exec b reenter r c st1) as [rr st2]. cbn [fst snd] in G3, G4.
      destruct rr; try (split; [exact G3 | assumption || discriminate]).
      apply good_call_handler. exact G3.
  - (* postfix *)
    rewrite (get_named_clean _ _ _ _ H). destruct (assoc op (r_postfix (s_regs st))) as [hd|]; [|fin H].
    pose proof (IH l c st H) as [G1 G2]. destruct (exec b reenter l c st) as [rr st1]. cbn [fst snd] in G1, G2.
    destruct rr; try (split; [exact G1 | assumption || discriminate]). apply good_call_handler. exact G1.
  - (* ternary *)
    pose proof (IH cnd c st H) as [G1 G2]. destruct (exec b reenter cnd c st) as [rc st1]. cbn [fst snd] in G1, G2.
    destruct rc as [v| | | | |]; try (split; [exact G1 | assumption || discriminate]).
    destruct v as [| |[|]| | |]; try fin G1; apply IH; exact G1.
  - (* reference *)
    rewrite (ctx_get_clean _ _ _ H). destruct (assoc n (ctx_of st c)) as [[v|h]|]; try fin H.
    apply good_call_script. exact H.
  - (* call *)
    pose proof (LIST args st H) as L. cbn zeta in L.
    match goal with |- context [(fix go (l : list ast) (st : state) {struct l} := _) args st] =>
      destruct ((fix go (l : list ast) (st : state) {struct l} := _) args st) as [[e1|vs] st1] end; cbn [fst snd] in L; destruct L as [L1 L2].
    + split; [exact L1 | apply L2; reflexivity].
    + rewrite (ctx_get_clean _ _ _ L1). destruct (assoc n (ctx_of st1 c)) as [[v|h]|].
      * rewrite (get_named_clean _ _ _ _ L1). destruct (assoc n (r_func (s_regs st1))); [apply good_call_handler; exact L1 | fin L1].
      * apply good_call_script. exact L1.
      * rewrite (get_named_clean _ _ _ _ L1). destruct (assoc n (r_func (s_regs st1))); [apply good_call_handler; exact L1 | fin L1].
  - (* list *)
    pose proof (LIST es st H) as L. cbn zeta in L.
    match goal with |- context [(fix go (l : list ast) (st : state) {struct l} := _) es st] =>
      destruct ((fix go (l : list ast) (st : state) {struct l} := _) es st) as [[e1|vs] st1] end; cbn [fst snd] in L; destruct L as [L1 L2].
    + split; [exact L1 | apply L2; reflexivity].
    + destruct (vbounded (VList vs)); fin L1.
  - (* map *)
    assert (MAP: forall l st, clean st ->
       let r := (fix go (l : list (ast * ast)) (st : state) {struct l} : (eres + list (value * value)) * state :=
           match l with
           | [] => (inr [], st)
           | (k, v) :: r =>
               match exec b reenter k c st with
               | (EOk kv, st1) =>
                   match exec b reenter v c st1 with
                   | (EOk vv, st2) => match go r st2 with
                                      | (inr rest, st3) => (inr ((kv, vv) :: rest), st3)
                                      | other => other
                                      end
                   | (err, st2) => (inl err, st2)
                   end
               | (err, st1) => (inl err, st1)
               end
           end) l st in clean (snd r) /\ (forall err, fst r = inl err -> err <> EDeadlock)).
    { induction l as [|[k v] r IHl]; intros st0 H0; cbn zeta.
      - split; [exact H0 | intros err E; discriminate].
      - pose proof (IH k c st0 H0) as [G1 G2]. destruct (exec b reenter k c st0) as [rk st1]. cbn [fst snd] in G1, G2.
        destruct rk; try (split; [exact G1 | intros err E; inversion E; subst; assumption || discriminate]).
        pose proof (IH v c st1 G1) as [G3 G4]. destruct (exec b reenter v c st1) as [rv st2]. cbn [fst snd] in G3, G4.
        destruct rv; try (split; [exact G3 | intros err E; inversion E; subst; assumption || discriminate]).
        specialize (IHl st2 G3). cbn zeta in IHl.
        match goal with |- context [(fix go (l : list (ast * ast)) (st : state) {struct l} := _) r st2] =>
          destruct ((fix go (l : list (ast * ast)) (st : state) {struct l} := _) r st2) as [[e1|vs] st3] end;
          cbn [fst snd] in *; destruct IHl as [I1 I2]; (split; [exact I1|]).
        + intros err E. apply I2. exact E.
        + intros err E. discriminate. }
    pose proof (MAP kvs st H) as L. cbn zeta in L.
    match goal with |- context [(fix go (l : list (ast * ast)) (st : state) {struct l} := _) kvs st] =>
      destruct ((fix go (l : list (ast * ast)) (st : state) {struct l} := _) kvs st) as [[e1|vs] st1] end; cbn [fst snd] in L; destruct L as [L1 L2].
    + split; [exact L1 | apply L2; reflexivity].
    + destruct (vbounded (VMap vs)); fin L1.
  - (* statements *)
    assert (ST: forall l last st, clean st ->
       good ((fix go (l : list ast) (last : value) (st : state) {struct l} : eres * state :=
         match l with
         | [] => (EOk last, st)
         | x :: r => match exec b reenter x c st with
                     | (EOk v, st1) => go r v st1
                     | other => other
                     end
         end) l last st)).
    { induction l as [|x r IHl]; intros last st0 H0.
      - fin H0.
      - pose proof (IH x c st0 H0) as [G1 G2]. destruct (exec b reenter x c st0) as [rx st1]. cbn [fst snd] in G1, G2.
        destruct rx; try (split; [exact G1 | assumption || discriminate]). apply IHl. exact G1. }
    apply ST. exact H.
  - fin H.
Qed.

End S.

(* with the real re-entry function (parse + exec with less fuel), for every amount of fuel *)
Lemma good_exec_fuel b : forall f e c st, clean st -> good (exec_fuel b f e c st).
Proof.
  induction f as [|f IH]; intros e c st H; cbn [exec_fuel].
  - split; [exact H|discriminate].
  - apply good_exec; [|exact H].
    intros s c' st' H'. unfold parse_exec.
    pose proof (clean_do_parse b st' s H') as C. destruct (do_parse b st' s) as [[e'| | |] st1]; cbn [snd] in C.
    + apply IH. exact C.
    + split; [exact C|discriminate].
    + split; [exact C|discriminate].
    + split; [exact C|discriminate].
Qed.

Lemma good_run_exec b s c st : clean st -> good (run_exec b s c st).
Proof.
  intros H. unfold run_exec, parse_exec.
  pose proof (clean_do_parse b st s H) as C. destruct (do_parse b st s) as [[e'| | |] st1]; cbn [snd] in C.
  - apply good_exec_fuel. exact C.
  - split; [exact C|discriminate].
  - split; [exact C|discriminate].
  - split; [exact C|discriminate].
Qed.
