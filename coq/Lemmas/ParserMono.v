(** The fuel of the parser model is a proof device only: once a call does not run out of fuel, every larger fuel gives the
    very same outcome (value, error or panic). Together with ParserFuel (the fuel 4*|tokens|+16 never runs out) this makes
    the outcome of [parse_tokens] independent of the fuel it is given. *)
From EE Require Import Chars OpTable Decimal Token Ast Parser ParserFuel.
Open Scope N_scope.

Section M.
Variable tbl : optable.
Variable tm : terminal.

Definition sim {A} (x' x : outcome A) : Prop := x <> Fuel -> x' = x.

Lemma sim_refl {A} (x : outcome A) : sim x x.
Proof. intros _. reflexivity. Qed.
Lemma sim_bind {A B} (x' x : outcome A) (k' k : A -> outcome B) :
  sim x' x -> (forall a, x = Ok a -> sim (k' a) (k a)) -> sim (x' >>= k') (x >>= k).
Proof.
  intros H1 H2 NF. destruct x as [a| | |]; cbn [bind] in *.
  - rewrite H1 by discriminate. cbn [bind]. apply H2; [reflexivity | exact NF].
  - rewrite H1 by discriminate. reflexivity.
  - rewrite H1 by discriminate. reflexivity.
  - contradiction.
Qed.

Lemma sim_postfixes_step g f :
  (forall lhs ts, sim (parse_postfixes tbl tm g lhs ts) (parse_postfixes tbl tm f lhs ts)) ->
  forall lhs ts, sim (parse_postfixes tbl tm (S g) lhs ts) (parse_postfixes tbl tm (S f) lhs ts).
Proof.
  intros IH lhs ts. cbn [parse_postfixes].
  destruct ts as [|t rest]; [apply sim_refl|]. destruct t; try apply sim_refl.
  destruct (is_postfix tbl s); [|apply sim_refl].
  apply sim_bind; [apply sim_refl|]. intros ts2 _. apply sim_bind; [apply sim_refl|]. intros [e ts3] _. apply IH.
Qed.
Lemma sim_postfixes : forall f lhs ts, sim (parse_postfixes tbl tm (S f) lhs ts) (parse_postfixes tbl tm f lhs ts).
Proof.
  induction f as [|f IH]; [intros lhs ts H; contradiction H; reflexivity|]. apply sim_postfixes_step. exact IH.
Qed.

Definition all_sim2 (g f : nat) : Prop :=
  (forall d ts, sim (parse_expression tbl tm g d ts) (parse_expression tbl tm f d ts)) /\
  (forall d ts, sim (parse_primary tbl tm g d ts) (parse_primary tbl tm f d ts)) /\
  (forall d ts, sim (parse_token tbl tm g d ts) (parse_token tbl tm f d ts)) /\
  (forall d ts acc, sim (parse_args tbl tm g d ts acc) (parse_args tbl tm f d ts acc)) /\
  (forall d ts acc, sim (parse_list tbl tm g d ts acc) (parse_list tbl tm f d ts acc)) /\
  (forall d ts acc, sim (parse_map tbl tm g d ts acc) (parse_map tbl tm f d ts acc)) /\
  (forall d p lhs ts, sim (parse_op tbl tm g d p lhs ts) (parse_op tbl tm f d p lhs ts)) /\
  (forall d p lhs ts, sim (parse_op_loop tbl tm g d p lhs ts) (parse_op_loop tbl tm f d p lhs ts)) /\
  (forall lhs ts, sim (parse_postfixes tbl tm g lhs ts) (parse_postfixes tbl tm f lhs ts)).
Definition all_sim (f : nat) : Prop := all_sim2 (S f) f.

Ltac sstep I1 I2 I3 I4 I5 I6 I7 I8 I9 :=
  match goal with
  | |- sim ?x ?x => apply sim_refl
  | |- sim (bind _ _) (bind _ _) => apply sim_bind; [| first [intros [? ?] _ | intros ? _]]
  | |- sim (if ?c then _ else _) (if ?c then _ else _) => destruct c
  | |- sim (match ?x with _ => _ end) (match ?x with _ => _ end) => destruct x
  | |- sim _ _ => first [ apply I1 | apply I2 | apply I3 | apply I4 | apply I5 | apply I6 | apply I7 | apply I8 | apply I9 ]
  end.

Lemma sim_step g f : all_sim2 g f -> all_sim2 (S g) (S f).
Proof.
  intros (I1 & I2 & I3 & I4 & I5 & I6 & I7 & I8 & I9). unfold all_sim2.
  repeat split; intros.
  + cbn [parse_expression]. repeat sstep I1 I2 I3 I4 I5 I6 I7 I8 I9.
  + cbn [parse_primary]. repeat sstep I1 I2 I3 I4 I5 I6 I7 I8 I9.
  + cbn [parse_token]. repeat sstep I1 I2 I3 I4 I5 I6 I7 I8 I9.
  + cbn [parse_args]. repeat sstep I1 I2 I3 I4 I5 I6 I7 I8 I9.
  + cbn [parse_list]. repeat sstep I1 I2 I3 I4 I5 I6 I7 I8 I9.
  + cbn [parse_map]. repeat sstep I1 I2 I3 I4 I5 I6 I7 I8 I9.
  + cbn [parse_op]. repeat sstep I1 I2 I3 I4 I5 I6 I7 I8 I9.
  + cbn [parse_op_loop]. cbn zeta. repeat sstep I1 I2 I3 I4 I5 I6 I7 I8 I9.
  + apply sim_postfixes_step. exact I9.
Qed.

Lemma parser_sim : forall f, all_sim f.
Proof.
  induction f as [|f IH]; unfold all_sim.
  - unfold all_sim2. repeat split; intros; intros H; contradiction H; reflexivity.
  - apply sim_step. exact IH.
Qed.

(* monotonicity in the usual form *)
Lemma mono_gen {A} (F : nat -> outcome A) :
  (forall f, sim (F (S f)) (F f)) -> forall f f', (f <= f')%nat -> F f <> Fuel -> F f' = F f.
Proof.
  intros S f f' Hle NF. induction Hle as [|m Hle IH]; [reflexivity|].
  rewrite <- IH. apply S. rewrite IH. exact NF.
Qed.

Lemma mono_expression f f' d ts r : (f <= f')%nat ->
  parse_expression tbl tm f d ts = Ok r -> parse_expression tbl tm f' d ts = Ok r.
Proof.
  intros Hle H. rewrite <- H. apply (mono_gen (fun f => parse_expression tbl tm f d ts)); [|exact Hle|rewrite H; discriminate].
  intros g. apply (proj1 (parser_sim g)).
Qed.
Lemma mono_primary f f' d ts r : (f <= f')%nat ->
  parse_primary tbl tm f d ts = Ok r -> parse_primary tbl tm f' d ts = Ok r.
Proof.
  intros Hle H. rewrite <- H. apply (mono_gen (fun f => parse_primary tbl tm f d ts)); [|exact Hle|rewrite H; discriminate].
  intros g. apply (proj1 (proj2 (parser_sim g))).
Qed.
Lemma mono_op f f' d p lhs ts r : (f <= f')%nat ->
  parse_op tbl tm f d p lhs ts = Ok r -> parse_op tbl tm f' d p lhs ts = Ok r.
Proof.
  intros Hle H. rewrite <- H. apply (mono_gen (fun f => parse_op tbl tm f d p lhs ts)); [|exact Hle|rewrite H; discriminate].
  intros g. apply (proj1 (proj2 (proj2 (proj2 (proj2 (proj2 (proj2 (parser_sim g)))))))).
Qed.
Lemma mono_loop f f' d p lhs ts r : (f <= f')%nat ->
  parse_op_loop tbl tm f d p lhs ts = Ok r -> parse_op_loop tbl tm f' d p lhs ts = Ok r.
Proof.
  intros Hle H. rewrite <- H. apply (mono_gen (fun f => parse_op_loop tbl tm f d p lhs ts)); [|exact Hle|rewrite H; discriminate].
  intros g. apply (proj1 (proj2 (proj2 (proj2 (proj2 (proj2 (proj2 (proj2 (parser_sim g))))))))).
Qed.

Lemma sim_stmt_loop : forall f ts acc, sim (parse_stmt_loop tbl tm (S f) ts acc) (parse_stmt_loop tbl tm f ts acc).
Proof.
  induction f as [|f IH]; intros ts acc; [intros H; contradiction H; reflexivity|].
  remember (S f) as g. cbn [parse_stmt_loop]. subst g.
  destruct ts as [|t rest]; [apply sim_refl|].
  apply sim_bind; [apply (proj1 (parser_sim f))|]. intros [e r] _.
  destruct r as [|t2 r2]; [apply IH|]. destruct t2; try apply IH.
  apply sim_bind; [apply sim_refl|]. intros r1 _. apply IH.
Qed.

(* the whole parse with any fuel F >= parse_fuel: same outcome as [parse_tokens] *)
Definition parse_tokens_with (F : nat) (ts : list token) : outcome ast :=
  match ts, tm with
  | [], TmErr => Err
  | [], TmPanic => Panic
  | [], TmFuel => Fuel
  | _, _ =>
      parse_stmt_loop tbl tm F ts [] >>= fun es =>
      match es with [e] => Ok e | _ => Ok (AStmt es) end
  end.

Theorem fuel_irrelevant : tm <> TmFuel -> forall ts F, (parse_fuel ts <= F)%nat -> parse_tokens_with F ts = parse_tokens tbl tm ts.
Proof.
  intros NF ts F Hle. unfold parse_tokens_with, parse_tokens.
  assert (E: parse_stmt_loop tbl tm F ts [] = parse_stmt_loop tbl tm (parse_fuel ts) ts []).
  { apply (mono_gen (fun f => parse_stmt_loop tbl tm f ts [])); [intros g; apply sim_stmt_loop | exact Hle |].
    apply nf_stmt_loop; [exact NF | unfold parse_fuel; lia]. }
  rewrite E. reflexivity.
Qed.
End M.
