(** Division (the transcription of rust_decimal's div_impl in Decimal.v) returns the correctly rounded quotient:
    the loop keeps q * D + r = A * 10^k (quotient, remainder, scaled dividend), every exit rounds half-even, the final
    partial unscale only removes factors of ten. Hence the result is within half a unit in its last place of the exact
    quotient, and is the exact quotient whenever it is reported as exact. *)
From EE Require Import Chars Decimal.
Open Scope N_scope.

(* |x - y| * 2 <= b, without subtraction *)
Definition near (x y b : N) : Prop := 2 * x <= 2 * y + b /\ 2 * y <= 2 * x + b.

Lemma pow10_pos k : 0 < pow10 k.
Proof. unfold pow10. apply N.neq_0_lt_0. apply N.pow_nonzero. discriminate. Qed.
Lemma pow10_add a b : pow10 (a + b) = pow10 a * pow10 b.
Proof. unfold pow10. apply N.pow_add_r. Qed.

(* unscale_from_overflow: t = 10 * v0 + rem, remainder r'' behind it (sticky iff r'' > 0): v is t/10 rounded half-even *)
Lemma ufo_sound t scale r'' D unsc q' scale' u X :
  unscale_from_overflow t scale (negb (r'' =? 0)) unsc = DivDone q' scale' u ->
  r'' < D -> t * D + r'' = 10 * X ->
  scale' = (scale - 1)%Z /\ (0 <= scale')%Z /\ near (q' * D) X D.
Proof.
  unfold unscale_from_overflow. destruct (scale - 1 <? 0)%Z eqn:S; [discriminate|]. apply Z.ltb_ge in S.
  intros H Hr HX. inversion H; subst q' scale' u. clear H. split; [reflexivity|]. split; [exact S|].
  pose proof (N.div_mod' t 10) as DM. pose proof (N.mod_upper_bound t 10 ltac:(lia)) as MB.
  set (v0 := t / 10) in *. set (rem := t mod 10) in *. clearbody v0 rem. subst t.
  assert (HX' : X * 10 = (10 * v0 + rem) * D + r'') by lia. clear HX.
  unfold near.
  destruct (N.eqb_spec r'' 0) as [Hz|Hz]; cbn [negb orb].
  - subst r''. destruct (N.ltb_spec 5 rem) as [L|L]; cbn [orb].
    + assert (rem = 6 \/ rem = 7 \/ rem = 8 \/ rem = 9) as C by lia. destruct C as [-> | [-> | [-> | ->]]]; nia.
    + destruct (N.eqb_spec rem 5) as [-> | N5]; cbn [andb].
      * destruct (N.odd v0); nia.
      * assert (rem = 0 \/ rem = 1 \/ rem = 2 \/ rem = 3 \/ rem = 4) as C by lia. destruct C as [->|[-> | [-> | [-> | ->]]]]; nia.
  - destruct (N.ltb_spec 5 rem) as [L|L]; cbn [orb].
    + assert (rem = 6 \/ rem = 7 \/ rem = 8 \/ rem = 9) as C by lia. destruct C as [-> | [-> | [-> | ->]]]; nia.
    + destruct (N.eqb_spec rem 5) as [-> | N5]; cbn [andb orb].
      * nia.
      * assert (rem = 0 \/ rem = 1 \/ rem = 2 \/ rem = 3 \/ rem = 4) as C by lia. destruct C as [->|[-> | [-> | [-> | ->]]]]; nia.
Qed.

(* the loop: from q * D + r = A * 10^k at [scale] to a result at scale' = scale + (k' - k) with q' within D/2 of A * 10^k' / D *)
Lemma div_loop_sound : forall fuel D q r scale unsc q' scale' u A k,
  div_loop fuel D q r scale unsc = DivDone q' scale' u ->
  0 < D -> r < D -> q < two96 -> A < two96 -> q * D + r = A * pow10 k ->
  exists k', (scale' - scale = Z.of_N k' - Z.of_N k)%Z /\ near (q' * D) (A * pow10 k') D /\ ((0 <= scale)%Z -> (0 <= scale')%Z).
Proof.
  induction fuel as [|f IH]; intros D q r scale unsc q' scale' u A k H HD Hr Hq HA Inv; [discriminate|].
  cbn [div_loop] in H.
  (* one scaling step by 10^p, p >= 1 *)
  assert (Step : forall p unsc0, 1 <= p ->
     (let scale1 := (scale + Z.of_N p)%Z in
      let q1 := q * pow10 p in
      if two96 <=? q1 then DivOverflow else
      let r1 := r * pow10 p in
      let t := q1 + r1 / D in
      let r2 := r1 mod D in
      if t <? two96 then div_loop f D t r2 scale1 unsc0
      else unscale_from_overflow t scale1 (negb (r2 =? 0)) unsc0) = DivDone q' scale' u ->
     ((0 <= scale)%Z \/ (scale + Z.of_N p <= 0)%Z \/ True) ->
     exists k', (scale' - scale = Z.of_N k' - Z.of_N k)%Z /\ near (q' * D) (A * pow10 k') D /\ ((0 <= scale)%Z -> (0 <= scale')%Z)).
  { intros p unsc0 Hp HS _. cbn zeta in HS.
    destruct (two96 <=? q * pow10 p); [discriminate|].
    pose proof (N.div_mod' (r * pow10 p) D) as DM. pose proof (N.mod_upper_bound (r * pow10 p) D ltac:(lia)) as MB.
    set (rq := r * pow10 p / D) in *. set (r2 := (r * pow10 p) mod D) in *. clearbody rq r2.
    assert (Inv2 : (q * pow10 p + rq) * D + r2 = A * pow10 (k + p)).
    { rewrite pow10_add. nia. }
    destruct (N.ltb_spec (q * pow10 p + rq) two96) as [Lt|Lt].
    - destruct (IH D _ _ _ _ _ _ _ A (k + p) HS HD MB Lt HA Inv2) as (k' & E & Nr & Pos).
      exists k'. split; [lia|]. split; [exact Nr|]. intros S0. apply Pos. lia.
    - assert (Hk : exists k0, k + p = k0 + 1) by (exists (k + p - 1); lia). destruct Hk as [k0 Hk0].
      rewrite Hk0, pow10_add in Inv2. change (pow10 1) with 10 in Inv2.
      destruct (ufo_sound _ _ _ D _ _ _ _ (A * pow10 k0) HS MB ltac:(lia)) as (E & P & Nr).
      exists k0. split; [lia|]. split; [exact Nr|]. intros _. exact P. }
  destruct (N.eqb_spec r 0) as [Hr0|Hr0].
  - destruct (0 <=? scale)%Z eqn:S.
    + inversion H; subst q' scale' u. exists k. split; [lia|]. split; [unfold near; nia|]. intros _. apply Z.leb_le. exact S.
    + apply Z.leb_gt in S. apply (Step (N.min 9 (Z.to_N (- scale))) unsc); [lia | exact H | auto].
  - (* rounding on the last remainder *)
    assert (Fin : (if (D <? 2 * r) || ((2 * r =? D) && N.odd q)
                   then (if q + 1 <? two96 then DivDone (q + 1) scale true else unscale_from_overflow (q + 1) scale true true)
                   else DivDone q scale true) = DivDone q' scale' u ->
            exists k', (scale' - scale = Z.of_N k' - Z.of_N k)%Z /\ near (q' * D) (A * pow10 k') D /\ ((0 <= scale)%Z -> (0 <= scale')%Z)).
    { intros HF. destruct ((D <? 2 * r) || ((2 * r =? D) && N.odd q)) eqn:Rd.
      - assert (Hge : D <= 2 * r).
        { apply orb_prop in Rd as [Rd|Rd]; [apply N.ltb_lt in Rd; lia|]. apply andb_prop in Rd as [Rd _]. apply N.eqb_eq in Rd. lia. }
        destruct (N.ltb_spec (q + 1) two96) as [Lq|Lq].
        + inversion HF; subst q' scale' u. exists k. split; [lia|]. split; [unfold near; nia|]. auto.
        + (* the increment carried out of 96 bits: k >= 1 because q < 2^96 <= ... came from a scaling step *)
          assert (Hq1 : q + 1 = two96) by lia.
          destruct k as [|kp].
          * (* k = 0 is impossible: q * D + r = A < 2^96 with r >= 1 gives q + 1 < 2^96 *)
            exfalso. change (pow10 0) with 1 in Inv. clear - Inv Hr0 HD HA Hq1. nia.
          * assert (Hk : exists k0, N.pos kp = k0 + 1) by (exists (N.pos kp - 1); lia). destruct Hk as [k0 Hk0].
            rewrite Hk0, pow10_add in Inv. change (pow10 1) with 10 in Inv.
            assert (St : true = negb (1 =? 0)) by reflexivity.
            (* view the carried value t = q + 1 with a pseudo-remainder: (q+1) * D = 10 * X' + (D - r), X' = A * 10^k0;
               rounding t/10 half-even with a sticky bit stays within D/2 of X' *)
            unfold unscale_from_overflow in HF. destruct (scale - 1 <? 0)%Z eqn:S1; [discriminate|]. apply Z.ltb_ge in S1.
            inversion HF; subst q' scale' u. clear HF.
            exists k0. split; [lia|]. split; [|intros _; exact S1].
            rewrite Hq1. change (two96 mod 10) with 6. change (two96 / 10) with 7922816251426433759354395033.
            change (5 <? 6) with true. cbn [orb]. unfold near.
            assert (Eq : q = two96 - 1) by lia. subst q. unfold two96 in *. nia.
      - inversion HF; subst q' scale' u. exists k. split; [lia|]. split; [|auto].
        apply orb_false_elim in Rd as [R1 R2]. apply N.ltb_ge in R1. unfold near. nia. }
    destruct (scale =? 28)%Z; [apply Fin; exact H|].
    destruct (find_scale q scale) as [p|]; [|discriminate].
    destruct (N.eqb_spec p 0) as [Hp|Hp]; [apply Fin; exact H|].
    apply (Step p true); [lia | exact H | auto].
Qed.

Lemma find_scale_zero q scale : find_scale q scale = Some 0 -> (0 <= scale)%Z.
Proof.
  unfold find_scale. cbn zeta.
  repeat match goal with |- context [if ?c then _ else _] => let E := fresh "E" in destruct c eqn:E end;
    intros H; inversion H; subst;
    repeat match goal with E : (_ <? _)%Z = false |- _ => apply Z.ltb_ge in E end; lia.
Qed.

Lemma ufo_nonneg t scale st unsc q' scale' u : unscale_from_overflow t scale st unsc = DivDone q' scale' u -> (0 <= scale')%Z.
Proof.
  unfold unscale_from_overflow. destruct (scale - 1 <? 0)%Z eqn:S; [discriminate|]. apply Z.ltb_ge in S.
  intros H; inversion H; subst. exact S.
Qed.

Lemma div_loop_nonneg : forall fuel D q r scale unsc q' scale' u,
  div_loop fuel D q r scale unsc = DivDone q' scale' u -> (0 <= scale')%Z.
Proof.
  induction fuel as [|f IH]; intros D q r scale unsc q' scale' u H; [discriminate|]. cbn [div_loop] in H.
  assert (Step : forall p unsc0,
     (let scale1 := (scale + Z.of_N p)%Z in
      let q1 := q * pow10 p in
      if two96 <=? q1 then DivOverflow else
      let r1 := r * pow10 p in
      let t := q1 + r1 / D in
      let r2 := r1 mod D in
      if t <? two96 then div_loop f D t r2 scale1 unsc0
      else unscale_from_overflow t scale1 (negb (r2 =? 0)) unsc0) = DivDone q' scale' u -> (0 <= scale')%Z).
  { intros p unsc0 HS. cbn zeta in HS. destruct (two96 <=? q * pow10 p); [discriminate|].
    destruct (q * pow10 p + r * pow10 p / D <? two96); [eapply IH; exact HS | eapply ufo_nonneg; exact HS]. }
  destruct (r =? 0).
  - destruct (0 <=? scale)%Z eqn:S; [inversion H; subst; apply Z.leb_le; exact S | eapply Step; exact H].
  - assert (Fin : (0 <= scale)%Z ->
       (if (D <? 2 * r) || ((2 * r =? D) && N.odd q)
        then (if q + 1 <? two96 then DivDone (q + 1) scale true else unscale_from_overflow (q + 1) scale true true)
        else DivDone q scale true) = DivDone q' scale' u -> (0 <= scale')%Z).
    { intros S HF. destruct ((D <? 2 * r) || ((2 * r =? D) && N.odd q)).
      - destruct (q + 1 <? two96); [inversion HF; subst; exact S | eapply ufo_nonneg; exact HF].
      - inversion HF; subst; exact S. }
    destruct (scale =? 28)%Z eqn:S28; [apply Z.eqb_eq in S28; apply Fin; [lia | exact H]|].
    destruct (find_scale q scale) as [p|] eqn:FS; [|discriminate].
    destruct (N.eqb_spec p 0) as [->|Hp]; [apply Fin; [apply (find_scale_zero q); exact FS | exact H] | eapply Step; exact H].
Qed.

Lemma unscale8_sound : forall fuel q scale q' scale', unscale8 fuel q scale = (q', scale') ->
  exists j, q = q' * pow10 j /\ (scale = scale' + Z.of_N j)%Z /\ ((0 <= scale)%Z -> (0 <= scale')%Z).
Proof.
  induction fuel as [|f IH]; intros q scale q' scale' H; cbn [unscale8] in H.
  - inversion H; subst. exists 0. change (pow10 0) with 1. repeat split; lia.
  - destruct ((q mod 4294967296 =? 0) && (8 <=? scale)%Z && (q mod 100000000 =? 0)) eqn:C.
    + apply andb_prop in C as [C C3]. apply andb_prop in C as [_ C2]. apply N.eqb_eq in C3. apply Z.leb_le in C2.
      destruct (IH _ _ _ _ H) as (j & Hq & Hs & Hp). exists (j + 8). rewrite pow10_add. change (pow10 8) with 100000000.
      pose proof (N.div_mod' q 100000000) as DM. rewrite C3 in DM. repeat split; [nia | lia | intros; apply Hp; lia].
    + inversion H; subst. exists 0. change (pow10 0) with 1. repeat split; lia.
Qed.

Lemma unscale_sound q scale q' scale' : unscale q scale = (q', scale') ->
  exists j, q = q' * pow10 j /\ (scale = scale' + Z.of_N j)%Z /\ ((0 <= scale)%Z -> (0 <= scale')%Z).
Proof.
  unfold unscale. destruct (unscale8 5 q scale) as [q1 s1] eqn:U8. destruct (unscale8_sound _ _ _ _ _ U8) as (j1 & Hq1 & Hs1 & Hp1).
  assert (One : forall (m : N) (e : N) (qa : N) (sa : Z) (bits : N), pow10 e = m ->
     forall qb sb, (if (qa mod bits =? 0) && (Z.of_N e <=? sa)%Z && (qa mod m =? 0) then (qa / m, (sa - Z.of_N e)%Z) else (qa, sa)) = (qb, sb) ->
     exists j, qa = qb * pow10 j /\ (sa = sb + Z.of_N j)%Z /\ ((0 <= sa)%Z -> (0 <= sb)%Z)).
  { intros m e qa sa bits Hm qb sb H.
    destruct ((qa mod bits =? 0) && (Z.of_N e <=? sa)%Z && (qa mod m =? 0)) eqn:C.
    - apply andb_prop in C as [C C3]. apply andb_prop in C as [_ C2]. apply N.eqb_eq in C3. apply Z.leb_le in C2.
      inversion H; subst qb sb. exists e. rewrite Hm. pose proof (N.div_mod' qa m) as DM. rewrite C3 in DM. repeat split; [nia | lia | lia].
    - inversion H; subst. exists 0. change (pow10 0) with 1. repeat split; lia. }
  destruct (if (q1 mod 16 =? 0) && (4 <=? s1)%Z && (q1 mod 10000 =? 0) then (q1 / 10000, (s1 - 4)%Z) else (q1, s1)) as [q2 s2] eqn:U4.
  destruct (One 10000 4 q1 s1 16 eq_refl _ _ U4) as (j2 & Hq2 & Hs2 & Hp2).
  destruct (if (q2 mod 4 =? 0) && (2 <=? s2)%Z && (q2 mod 100 =? 0) then (q2 / 100, (s2 - 2)%Z) else (q2, s2)) as [q3 s3] eqn:U2.
  destruct (One 100 2 q2 s2 4 eq_refl _ _ U2) as (j3 & Hq3 & Hs3 & Hp3).
  intros U1. destruct (One 10 1 q3 s3 2 eq_refl _ _ U1) as (j4 & Hq4 & Hs4 & Hp4).
  exists (j4 + j3 + j2 + j1). rewrite !pow10_add. subst q q1 q2 q3. repeat split; [ring | lia | intros; apply Hp4, Hp3, Hp2, Hp1; assumption].
Qed.

(* the division theorem: the result is within half a unit in its last place of the exact quotient
   (all three numbers below are the two sides of  d ~ a / b  multiplied out to integers) *)
Theorem dec_div_sound : forall a b d, dmant a < two96 -> (dec_div a b = DOk d \/ dec_div a b = DRounded d) -> is_zero a = false ->
  near (dmant d * dmant b * pow10 (dscale a)) (dmant a * pow10 (dscale b) * pow10 (dscale d)) (dmant b * pow10 (dscale a)).
Proof.
  intros a b d HA H Hza. unfold dec_div in H. destruct (is_zero b) eqn:Hzb; [destruct H; discriminate|]. rewrite Hza in H.
  assert (HD : 0 < dmant b). { unfold is_zero in Hzb. apply N.eqb_neq in Hzb. lia. }
  set (D := dmant b) in *. set (A := dmant a) in *.
  destruct (div_loop 40 D (A / D) (A mod D) (Z.of_N (dscale a) - Z.of_N (dscale b)) false) as [q1 s1 u| |] eqn:L;
    [|destruct H; discriminate|destruct H; discriminate].
  pose proof (N.div_mod' A D) as DM. pose proof (N.mod_upper_bound A D ltac:(lia)) as MB.
  assert (Hq0 : A / D < two96). { apply N.le_lt_trans with A; [|exact HA]. apply N.div_le_upper_bound; nia. }
  destruct (div_loop_sound _ _ _ _ _ _ _ _ _ A 0 L HD MB Hq0 HA ltac:(change (pow10 0) with 1; lia)) as (k' & Hs & Nr & _).
  pose proof (div_loop_nonneg _ _ _ _ _ _ _ _ _ L) as Hnn.
  assert (Hfin : exists q2 s2 j, q1 = q2 * pow10 j /\ (s1 = s2 + Z.of_N j)%Z /\ (0 <= s2)%Z /\
                                 dmant d = q2 /\ dscale d = Z.to_N s2).
  { destruct (if u then unscale q1 s1 else (q1, s1)) as [q2 s2] eqn:U.
    assert (HU : exists j, q1 = q2 * pow10 j /\ (s1 = s2 + Z.of_N j)%Z /\ (0 <= s2)%Z).
    { destruct u.
      - destruct (unscale_sound _ _ _ _ U) as (j & Hq & Hsj & Hp). exists j. repeat split; [exact Hq | exact Hsj | apply Hp; exact Hnn].
      - inversion U; subst. exists 0. change (pow10 0) with 1. repeat split; lia. }
    destruct HU as (j & Hq & Hsj & Hp). exists q2, s2, j. repeat split; try assumption;
      destruct (q2 * D * pow10 (dscale a) =? A * pow10 (dscale b) * pow10 (Z.to_N s2));
      destruct H as [H|H]; try discriminate; inversion H; unfold mk; destruct (xorb (dneg a) (dneg b) && negb (q2 =? 0)); reflexivity. }
  destruct Hfin as (q2 & s2 & j & Hq & Hsj & Hp & Hm & Hsc). rewrite Hm, Hsc.
  (* exponents: sb + s1 = sa + k', s1 = s2 + j *)
  assert (Ex : dscale b + Z.to_N s2 + j = dscale a + k') by lia.
  unfold near in *. destruct Nr as [N1 N2].
  assert (P : pow10 (dscale b) * pow10 (Z.to_N s2) * pow10 j = pow10 (dscale a) * pow10 k') by (rewrite <- !pow10_add; f_equal; lia).
  pose proof (pow10_pos j) as Pj.
  subst q1.
  set (X := pow10 (dscale a)) in *. set (pb := pow10 (dscale b)) in *. set (ps := pow10 (Z.to_N s2)) in *.
  set (J := pow10 j) in *. set (K := pow10 k') in *. clearbody X pb ps J K.
  set (W := q2 * D * X). set (Z1 := A * pb * ps).
  assert (F1 : q2 * J * D * X = W * J) by (unfold W; ring).
  assert (F2 : A * K * X = Z1 * J). { unfold Z1. replace (A * K * X) with (A * (X * K)) by ring. rewrite <- P. ring. }
  assert (F3 : D * X <= D * X * J) by nia.
  assert (M1 : 2 * (q2 * J * D) * X <= (2 * (A * K) + D) * X) by (apply N.mul_le_mono_r; exact N1).
  assert (M2 : 2 * (A * K) * X <= (2 * (q2 * J * D) + D) * X) by (apply N.mul_le_mono_r; exact N2).
  fold W Z1.
  split.
  - apply (N.mul_le_mono_pos_r _ _ J Pj). nia.
  - apply (N.mul_le_mono_pos_r _ _ J Pj). nia.
Qed.

(* a quotient reported as exact is the exact quotient *)
Theorem dec_div_exact : forall a b d, dec_div a b = DOk d -> is_zero a = false ->
  dmant d * dmant b * pow10 (dscale a) = dmant a * pow10 (dscale b) * pow10 (dscale d).
Proof.
  intros a b d H Hza. unfold dec_div in H. destruct (is_zero b); [discriminate|]. rewrite Hza in H.
  destruct (div_loop 40 (dmant b) (dmant a / dmant b) (dmant a mod dmant b) (Z.of_N (dscale a) - Z.of_N (dscale b)) false) as [q1 s1 u| |]; try discriminate.
  destruct (if u then unscale q1 s1 else (q1, s1)) as [q2 s2].
  destruct (N.eqb_spec (q2 * dmant b * pow10 (dscale a)) (dmant a * pow10 (dscale b) * pow10 (Z.to_N s2))) as [E|E]; [|discriminate].
  inversion H. unfold mk. destruct (xorb (dneg a) (dneg b) && negb (q2 =? 0)); cbn [dmant dscale]; exact E.
Qed.
