(** Whitespace between tokens carries no information: re-lexing an input whose gaps have been changed - whitespace added
    between two adjacent tokens, the amount of whitespace changed where some was, trailing whitespace added or removed - gives
    the same tokens (kinds and payloads), only the offsets move. Proved for the tokenizer model over every table whose
    operators contain no whitespace and whose word operators are made of name characters, for programs whose names are not
    operator words (the side conditions of C11). *)
From EE Require Import Chars OpTable Decimal Token Lexer Utf8 LexerSpec LexerTiling.
Open Scope N_scope.

Section Ws.
Variable tbl : optable.

(* no registered operator contains a whitespace character; an operator that starts like a name is made of name characters *)
Hypothesis ops_no_ws : forall w x, is_ws x = true -> is_op tbl (w ++ [x]) = false.
Hypothesis word_ops_param : forall w, is_op tbl w = true -> forallb is_param_char w = true \/
  match w with c :: _ => is_special c = true | [] => True end.

Definition hd1 (s : str) : option char := match s with [] => None | c :: _ => Some c end.
(* r' starts with end of input, with whitespace, or with the same character as r *)
Definition stopper (r r' : str) : Prop :=
  match r' with [] => True | x' :: _ => is_ws x' = true \/ hd1 r = Some x' end.

(* ---------- converse scan lemmas *)
Lemma scan_app p cur x y : forallb p x = true -> match y with [] => True | c :: _ => p c = false end ->
  scan p cur (x ++ y) = (cur + blen x, y).
Proof.
  revert cur. induction x as [|c x IH]; intros cur Hx Hy; cbn [app blen].
  - rewrite N.add_0_r. destruct y as [|c y]; cbn [scan]; [reflexivity | rewrite Hy; reflexivity].
  - cbn [forallb] in Hx. apply andb_prop in Hx as [Hc Hx]. cbn [scan]. rewrite Hc. rewrite IH by assumption. f_equal. lia.
Qed.

Lemma ws_class x : is_ws x = true ->
  is_digit_char x = false /\ is_param_char x = false /\ not_ws_delim x = false /\ (x =? c_plus) = false /\ (x =? c_minus) = false.
Proof.
  unfold is_ws. intros H. repeat (apply orb_prop in H; destruct H as [H|H]); apply N.eqb_eq in H; subst x; repeat split; reflexivity.
Qed.

Lemma scan_num_transfer : forall w prev cur cur' r r',
  scan_num prev cur (w ++ r) = (cur + blen w, r) -> stopper r r' ->
  scan_num prev cur' (w ++ r') = (cur' + blen w, r').
Proof.
  induction w as [|x w IH]; intros prev cur cur' r r' H S; cbn [app blen] in *.
  - rewrite N.add_0_r in *. destruct r' as [|x' r'']; [reflexivity|]. cbn [scan_num].
    destruct S as [S|S].
    + destruct (ws_class x' S) as (D & _ & _ & P & M). rewrite P, M, D. reflexivity.
    + destruct r as [|x0 r0]; [discriminate|]. inversion S; subst x0. cbn [scan_num] in H.
      destruct (((x' =? c_plus) || (x' =? c_minus)) && negb ((prev =? c_e) || (prev =? c_E))); [reflexivity|].
      destruct (is_digit_char x'); [|reflexivity].
      apply scan_num_spec in H. destruct H as (w0 & _ & Hc). pose proof (ulen_pos x'). lia.
  - cbn [scan_num] in H |- *.
    destruct (((x =? c_plus) || (x =? c_minus)) && negb ((prev =? c_e) || (prev =? c_E))).
    + inversion H. pose proof (ulen_pos x). lia.
    + destruct (is_digit_char x).
      * replace (cur' + (ulen x + blen w)) with (cur' + ulen x + blen w) by lia. apply (IH x (cur + ulen x) (cur' + ulen x) r r'); [|exact S].
        rewrite H. f_equal. lia.
      * inversion H. pose proof (ulen_pos x). lia.
Qed.

Lemma scan_str_transfer (q : char) : forall (w : str) (cur' : N) (r' : str),
  forallb (fun c => negb (c =? q)) w = true ->
  scan_str q cur' (w ++ q :: r') = Some (cur' + blen w + ulen q, r').
Proof.
  induction w as [|x w IH]; intros cur' r' Hw; cbn [app blen scan_str].
  - rewrite N.eqb_refl. f_equal. f_equal. lia.
  - cbn [forallb] in Hw. apply andb_prop in Hw as [Hx Hw]. apply negb_true_iff in Hx. rewrite Hx.
    rewrite (IH (cur' + ulen x) r' Hw). f_equal. f_equal. lia.
Qed.

(* special_op_token's loop consumed exactly w: it does so again when what follows starts alike *)
Lemma special_loop_transfer base base' pre pre' : forall w done r r',
  done <> [] ->
  special_loop tbl base (pre ++ done ++ w ++ r) (base + blen pre) (base + blen pre + blen done) (w ++ r)
    = Some (base + blen pre + blen done + blen w, r) ->
  stopper r r' ->
  special_loop tbl base' (pre' ++ done ++ w ++ r') (base' + blen pre') (base' + blen pre' + blen done) (w ++ r')
    = Some (base' + blen pre' + blen done + blen w, r').
Proof.
  induction w as [|x w IH]; intros done r r' Hd H S; cbn [app blen] in *.
  - rewrite N.add_0_r in *. destruct r' as [|x' r'']; [reflexivity|]. cbn [special_loop].
    assert (Hs: slice_at base' (pre' ++ done ++ x' :: r'') (base' + blen pre') (base' + blen pre' + blen done + ulen x')
                = Some (done ++ [x'])).
    { replace (pre' ++ done ++ x' :: r'') with (pre' ++ (done ++ [x']) ++ r'') by (rewrite <- !app_assoc; reflexivity).
      apply slice_at_seg; [reflexivity|]. rewrite blen_app. cbn [blen]. lia. }
    rewrite Hs. destruct S as [S|S].
    + rewrite (ops_no_ws done x' S). reflexivity.
    + destruct r as [|x0 r0]; [discriminate|]. inversion S; subst x0. cbn [special_loop] in H.
      assert (Hs1: slice_at base (pre ++ done ++ x' :: r0) (base + blen pre) (base + blen pre + blen done + ulen x')
                  = Some (done ++ [x'])).
      { replace (pre ++ done ++ x' :: r0) with (pre ++ (done ++ [x']) ++ r0) by (rewrite <- !app_assoc; reflexivity).
        apply slice_at_seg; [reflexivity|]. rewrite blen_app. cbn [blen]. lia. }
      rewrite Hs1 in H. destruct (is_op tbl (done ++ [x'])); [|reflexivity].
      exfalso.
      destruct (special_loop_spec tbl base pre r0 (done ++ [x'])) as (w1 & rest1 & H1 & H2 & _); [destruct done; discriminate|].
      replace (pre ++ (done ++ [x']) ++ r0) with (pre ++ done ++ x' :: r0) in H1 by (rewrite <- !app_assoc; reflexivity).
      replace (base + blen pre + blen (done ++ [x'])) with (base + blen pre + blen done + ulen x') in H1
        by (rewrite blen_app; cbn [blen]; lia).
      rewrite H1 in H. inversion H. rewrite !blen_app in *. cbn [blen] in *. pose proof (ulen_pos x'). lia.
  - cbn [special_loop] in H |- *.
    assert (Hs: slice_at base' (pre' ++ done ++ x :: w ++ r') (base' + blen pre') (base' + blen pre' + blen done + ulen x)
                = Some (done ++ [x])).
    { replace (pre' ++ done ++ x :: w ++ r') with (pre' ++ (done ++ [x]) ++ w ++ r') by (rewrite <- !app_assoc; reflexivity).
      apply slice_at_seg; [reflexivity|]. rewrite blen_app. cbn [blen]. lia. }
    assert (Hs1: slice_at base (pre ++ done ++ x :: w ++ r) (base + blen pre) (base + blen pre + blen done + ulen x)
                = Some (done ++ [x])).
    { replace (pre ++ done ++ x :: w ++ r) with (pre ++ (done ++ [x]) ++ w ++ r) by (rewrite <- !app_assoc; reflexivity).
      apply slice_at_seg; [reflexivity|]. rewrite blen_app. cbn [blen]. lia. }
    rewrite Hs. rewrite Hs1 in H. destruct (is_op tbl (done ++ [x])).
    + specialize (IH (done ++ [x]) r r' ltac:(destruct done; discriminate)).
      replace (pre ++ (done ++ [x]) ++ w ++ r) with (pre ++ done ++ x :: w ++ r) in IH by (rewrite <- !app_assoc; reflexivity).
      replace (pre' ++ (done ++ [x]) ++ w ++ r') with (pre' ++ done ++ x :: w ++ r') in IH by (rewrite <- !app_assoc; reflexivity).
      rewrite !blen_app in IH. cbn [blen] in IH.
      replace (base + blen pre + (blen done + (ulen x + 0))) with (base + blen pre + blen done + ulen x) in IH by lia.
      replace (base' + blen pre' + (blen done + (ulen x + 0))) with (base' + blen pre' + blen done + ulen x) in IH by lia.
      replace (base' + blen pre' + blen done + (ulen x + blen w)) with (base' + blen pre' + blen done + ulen x + blen w) by lia.
      apply IH; [|exact S]. rewrite H. f_equal. f_equal. lia.
    + inversion H. pose proof (ulen_pos x). lia.
Qed.

Lemma param_nwd c : is_param_char c = true -> not_ws_delim c = true.
Proof.
  unfold is_param_char, not_ws_delim, word_end, is_ws, is_delim, is_digit09, c_comma, c_semi. intros H.
  repeat match goal with |- context [c =? ?k] => destruct (N.eqb_spec c k); [subst c; vm_compute in H; discriminate H|] end.
  reflexivity.
Qed.
Lemma forall_param_nwd w : forallb is_param_char w = true -> forallb not_ws_delim w = true.
Proof.
  induction w as [|c w IH]; [reflexivity|]. cbn [forallb]. intros H. apply andb_prop in H as [H1 H2].
  rewrite (param_nwd c H1), (IH H2). reflexivity.
Qed.

Ltac fin_tok := eexists; split; [ match goal with |- LTok ?t ?a ?r = LTok _ ?b _ => replace b with a by (cbn [blen]; rewrite ?blen_app; cbn [blen]; lia); reflexivity end |].

Definition is_atom_tok (t : token) : bool :=
  match t with TRef _ | TFunc _ | TBool _ => true | _ => false end.

(* ---------- one token, re-lexed with a different gap before it and a continuation that starts alike *)
Lemma lex_one_stable cur cur' g g' body r r' t cur1 :
  forallb is_ws g = true -> forallb is_ws g' = true ->
  match body with c :: _ => is_ws c = false | [] => False end ->
  lex_one tbl cur (g ++ body ++ r) = LTok t cur1 r ->
  t_start t = cur + blen g -> t_end t = t_start t + blen body ->
  stopper r r' -> next_is_lparen 0 r' = next_is_lparen 0 r ->
  (is_atom_tok (tk t) = true -> is_op tbl body = false) ->
  exists t', lex_one tbl cur' (g' ++ body ++ r') = LTok t' (cur' + blen g' + blen body) r' /\ tk t' = tk t /\
             t_start t' = cur' + blen g' /\ t_end t' = t_start t' + blen body.
Proof.
  intros Hg Hg' Hb H Hs He S NL HA. destruct body as [|c bt]; [contradiction|].
  unfold lex_one in H |- *. cbn [app] in *.
  rewrite (scan_app is_ws cur g (c :: bt ++ r) Hg Hb) in H.
  rewrite (scan_app is_ws cur' g' (c :: bt ++ r') Hg' Hb).
  pose proof (ulen_pos c) as Hc.
  assert (SL: forall w post, slice_at cur (g ++ c :: w ++ post) (cur + blen g) (cur + blen g + ulen c + blen w) = Some (c :: w)).
  { intros w post. replace (g ++ c :: w ++ post) with (g ++ (c :: w) ++ post) by reflexivity.
    apply slice_at_seg; [reflexivity|]. cbn [blen]. lia. }
  assert (SL': forall w post, slice_at cur' (g' ++ c :: w ++ post) (cur' + blen g') (cur' + blen g' + ulen c + blen w) = Some (c :: w)).
  { intros w post. replace (g' ++ c :: w ++ post) with (g' ++ (c :: w) ++ post) by reflexivity.
    apply slice_at_seg; [reflexivity|]. cbn [blen]. lia. }
  cbn [blen] in He.
  destruct (is_special c) eqn:Hsp.
  { (* symbolic operator *)
    destruct (special_loop tbl cur (g ++ c :: bt ++ r) (cur + blen g) (cur + blen g + ulen c) (bt ++ r)) as [[cur2 rest2]|] eqn:L; [|discriminate].
    destruct (slice_at cur (g ++ c :: bt ++ r) (cur + blen g) cur2) as [w|] eqn:Sw; [|discriminate].
    unfold tok in H. inversion H; subst t cur1 rest2. cbn [t_start t_end tk] in *.
    assert (L' : special_loop tbl cur' (g' ++ c :: bt ++ r') (cur' + blen g') (cur' + blen g' + ulen c) (bt ++ r')
                 = Some (cur' + blen g' + ulen c + blen bt, r')).
    { pose proof (special_loop_transfer cur cur' g g' bt [c] r r' ltac:(discriminate)) as T. cbn [app blen] in T.
      replace (cur + blen g + (ulen c + 0)) with (cur + blen g + ulen c) in T by lia.
      replace (cur' + blen g' + (ulen c + 0)) with (cur' + blen g' + ulen c) in T by lia.
      apply T; [|exact S]. rewrite L. f_equal. f_equal. lia. }
    rewrite L'. rewrite (SL' bt r'). unfold tok. fin_tok.
    cbn [tk t_start t_end]. subst cur2. replace (cur + blen g + (ulen c + blen bt)) with (cur + blen g + ulen c + blen bt) in Sw by lia.
    rewrite (SL bt r) in Sw. inversion Sw. repeat split; try reflexivity; try (cbn [blen]; rewrite ?blen_app; cbn [blen]; lia). }
  destruct (is_delim c) eqn:Hdl.
  { assert (Hu: ulen c = 1).
    { unfold is_delim in Hdl. unfold ulen. destruct (N.ltb_spec c 128) as [|Hge]; [reflexivity|].
      repeat (apply orb_prop in Hdl; destruct Hdl as [Hdl|Hdl]); apply N.eqb_eq in Hdl; lia. }
    pose proof (SL [] (bt ++ r)) as S0. cbn [app blen] in S0. replace (cur + blen g + ulen c + 0) with (cur + blen g + 1) in S0 by lia.
    pose proof (SL' [] (bt ++ r')) as S0'. cbn [app blen] in S0'. replace (cur' + blen g' + ulen c + 0) with (cur' + blen g' + 1) in S0' by lia.
    rewrite S0 in H. rewrite S0'. destruct (delim_of c) as [d|]; [|discriminate].
    unfold tok in H |- *. inversion H; subst t cur1. cbn [t_start t_end tk] in *.
    assert (bt = []) as ->.
    { apply (f_equal (@length char)) in H3. rewrite app_length in H3. destruct bt; [reflexivity|]. cbn [length] in H3. lia. }
    cbn [app blen]. fin_tok. cbn [tk t_start t_end]. repeat split; try reflexivity; try (cbn [blen]; rewrite ?blen_app; cbn [blen]; lia). }
  destruct (is_digit09 c) eqn:Hdg.
  { destruct (scan_num c (cur + blen g + ulen c) (bt ++ r)) as [cur2 rest2] eqn:Hn.
    destruct (slice_at cur (g ++ c :: bt ++ r) (cur + blen g) cur2) as [w|] eqn:Sw; [|discriminate].
    destruct (dec_of_string w) as [d|] eqn:Hd; [|discriminate].
    unfold tok in H. inversion H; subst t cur1 rest2. cbn [t_start t_end tk] in *. subst cur2.
    replace (cur + blen g + (ulen c + blen bt)) with (cur + blen g + ulen c + blen bt) in * by lia.
    rewrite (scan_num_transfer bt c (cur + blen g + ulen c) (cur' + blen g' + ulen c) r r' Hn S).
    rewrite (SL bt r) in Sw. inversion Sw; subst w. rewrite (SL' bt r'), Hd. unfold tok.
    fin_tok. cbn [tk t_start t_end]. repeat split; try reflexivity; try (cbn [blen]; rewrite ?blen_app; cbn [blen]; lia). }
  destruct (is_quote c) eqn:Hq.
  { assert (Hu: ulen c = 1).
    { unfold is_quote in Hq. unfold ulen. destruct (N.ltb_spec c 128) as [|Hge]; [reflexivity|].
      apply orb_prop in Hq. destruct Hq as [Hq|Hq]; apply N.eqb_eq in Hq; lia. }
    destruct (scan_str c (cur + blen g + ulen c) (bt ++ r)) as [[cur2 rest2]|] eqn:Hstr; [|discriminate].
    destruct (slice_at cur (g ++ c :: bt ++ r) (cur + blen g + 1) (cur2 - 1)) as [w|] eqn:Sw; [|discriminate].
    unfold tok in H. inversion H; subst t cur1 rest2. cbn [t_start t_end tk] in *.
    apply scan_str_spec in Hstr. destruct Hstr as (w0 & Hw0 & Hc2 & Hnq).
    assert (bt = w0 ++ [c]) as Hbt.
    { apply (app_inv_tail r). rewrite <- app_assoc. exact Hw0. }
    subst bt. rewrite <- app_assoc. cbn [app].
    rewrite (scan_str_transfer c w0 (cur' + blen g' + ulen c) r' Hnq).
    assert (S1: forall base gg post, slice_at base (gg ++ c :: w0 ++ c :: post) (base + blen gg + 1) (base + blen gg + ulen c + blen w0 + ulen c - 1) = Some w0).
    { intros base gg post. replace (gg ++ c :: w0 ++ c :: post) with ((gg ++ [c]) ++ w0 ++ c :: post) by (rewrite <- app_assoc; reflexivity).
      apply slice_at_seg; rewrite ?blen_app; cbn [blen]; lia. }
    rewrite (S1 cur' g' r'). unfold tok. fin_tok.
    cbn [tk t_start t_end]. rewrite <- app_assoc in Sw. cbn [app] in Sw. subst cur2. rewrite (S1 cur g r) in Sw. inversion Sw.
    repeat split; try reflexivity; try (cbn [blen]; rewrite ?blen_app; cbn [blen]; lia). }
  destruct (N.eqb_spec c c_semi) as [->|Hsemi].
  { pose proof (SL [] (bt ++ r)) as S0. cbn [app blen] in S0. replace (cur + blen g + ulen c_semi + 0) with (cur + blen g + 1) in S0 by (cbn; lia).
    pose proof (SL' [] (bt ++ r')) as S0'. cbn [app blen] in S0'. replace (cur' + blen g' + ulen c_semi + 0) with (cur' + blen g' + 1) in S0' by (cbn; lia).
    rewrite S0 in H. rewrite S0'. unfold tok in H |- *. inversion H; subst t cur1. cbn [t_start t_end tk] in *.
    assert (bt = []) as ->.
    { apply (f_equal (@length char)) in H3. rewrite app_length in H3. destruct bt; [reflexivity|]. cbn [length] in H3. lia. }
    cbn [app blen]. fin_tok. cbn [tk t_start t_end]. repeat split; try reflexivity; try (cbn; lia). }
  destruct (N.eqb_spec c c_comma) as [->|Hcomma].
  { pose proof (SL [] (bt ++ r)) as S0. cbn [app blen] in S0. replace (cur + blen g + ulen c_comma + 0) with (cur + blen g + 1) in S0 by (cbn; lia).
    pose proof (SL' [] (bt ++ r')) as S0'. cbn [app blen] in S0'. replace (cur' + blen g' + ulen c_comma + 0) with (cur' + blen g' + 1) in S0' by (cbn; lia).
    rewrite S0 in H. rewrite S0'. unfold tok in H |- *. inversion H; subst t cur1. cbn [t_start t_end tk] in *.
    assert (bt = []) as ->.
    { apply (f_equal (@length char)) in H3. rewrite app_length in H3. destruct bt; [reflexivity|]. cbn [length] in H3. lia. }
    cbn [app blen]. fin_tok. cbn [tk t_start t_end]. repeat split; try reflexivity; try (cbn; lia). }
  (* other_token *)
  assert (Hcnwd: not_ws_delim c = true).
  { unfold not_ws_delim, word_end. rewrite Hdl. destruct (is_ws c); [discriminate Hb|].
    destruct (N.eqb_spec c c_comma); [contradiction|]. destruct (N.eqb_spec c c_semi); [contradiction|].
    destruct (N.eqb_spec c 58) as [->|]; [discriminate Hsp | reflexivity]. }
  destruct (scan not_ws_delim (cur + blen g + ulen c) (bt ++ r)) as [curw restw] eqn:Hsw.
  pose proof Hsw as Hsw0. apply scan_spec in Hsw0. destruct Hsw0 as (ww & Hww & -> & Hwwp & Hwstop).
  rewrite Hww in H. rewrite (SL ww restw) in H. rewrite <- Hww in H.
  (* the word of the second run *)
  destruct (scan not_ws_delim (cur' + blen g' + ulen c) (bt ++ r')) as [curw' restw'] eqn:Hsw'.
  pose proof Hsw' as Hsw0'. apply scan_spec in Hsw0'. destruct Hsw0' as (ww' & Hww' & -> & Hwwp' & Hwstop').
  rewrite Hww'. rewrite (SL' ww' restw'). rewrite <- Hww'.
  destruct (is_op tbl (c :: ww)) eqn:Hop.
  { (* word operator: the whole word *)
    unfold tok in H. inversion H; subst t cur1 restw. cbn [t_start t_end tk] in *.
    assert (ww = bt) as -> by (apply (app_inv_tail r); symmetry; exact Hww).
    assert (Hbtp : forallb not_ws_delim bt = true) by exact Hwwp.
    assert (Hstop' : match r' with [] => True | x :: _ => not_ws_delim x = false end).
    { destruct r' as [|x' r'']; [exact I|]. destruct S as [S|S]; [apply (ws_class x' S)|].
      destruct r as [|x0 r0]; [discriminate|]. inversion S; subst x0. exact Hwstop. }
    rewrite (scan_app not_ws_delim _ bt r' Hbtp Hstop') in Hsw'. injection Hsw' as E1 E2. subst restw'.
    assert (ww' = bt) as -> by (apply (app_inv_tail r'); symmetry; exact Hww').
    rewrite Hop. unfold tok. fin_tok. cbn [tk t_start t_end]. repeat split; try reflexivity; try (cbn [blen]; rewrite ?blen_app; cbn [blen]; lia). }
  destruct (scan is_param_char (cur + blen g + ulen c) (bt ++ r)) as [cur2 rest2] eqn:Hsv.
  pose proof Hsv as Hsv0. apply scan_spec in Hsv0. destruct Hsv0 as (wv & Hwv & -> & Hwvp & Hvstop).
  rewrite Hwv in H. rewrite (SL wv rest2) in H. try rewrite <- Hwv in H.
  (* whatever keyword / name case: the token covers c :: wv and ends at rest2 = r *)
  assert (Hend : rest2 = r /\ wv = bt /\ is_atom_tok (tk t) = true /\
                 tk t = (if str_eqb (c :: wv) s_True || str_eqb (c :: wv) s_true then TBool true
                         else if str_eqb (c :: wv) s_False || str_eqb (c :: wv) s_false then TBool false
                         else if next_is_lparen (cur + blen g + ulen c + blen wv) rest2 then TFunc (c :: wv) else TRef (c :: wv))).
  { unfold tok in H.
    destruct (str_eqb (c :: wv) s_True || str_eqb (c :: wv) s_true);
      [|destruct (str_eqb (c :: wv) s_False || str_eqb (c :: wv) s_false);
        [|destruct (next_is_lparen (cur + blen g + ulen c + blen wv) rest2)]];
      inversion H; subst t cur1 rest2; cbn [t_start t_end tk is_atom_tok] in *;
      (assert (wv = bt) by (apply (app_inv_tail r); symmetry; exact Hwv)); auto. }
  destruct Hend as (-> & -> & Hat & Htk).
  specialize (HA Hat).
  (* the second run: its word is not an operator either *)
  assert (Hstopv' : match r' with [] => True | x :: _ => is_param_char x = false end).
  { destruct r' as [|x' r'']; [exact I|]. destruct S as [S|S]; [apply (ws_class x' S)|].
    destruct r as [|x0 r0]; [discriminate|]. inversion S; subst x0. exact Hvstop. }
  assert (Hop' : is_op tbl (c :: ww') = false).
  { destruct (is_op tbl (c :: ww')) eqn:O; [|reflexivity]. exfalso.
    destruct (word_ops_param (c :: ww') O) as [P|P]; [|cbn in P; rewrite Hsp in P; discriminate P].
    (* all of the word is name characters: then it is exactly the name, which is not an operator *)
    cbn [forallb] in P. apply andb_prop in P as [_ P].
    assert (ww' = bt).
    { pose proof (scan_app is_param_char (cur' + blen g' + ulen c) bt r' Hwvp Hstopv') as A.
      assert (B : scan is_param_char (cur' + blen g' + ulen c) (bt ++ r') = (cur' + blen g' + ulen c + blen ww', restw')).
      { rewrite Hww'. apply scan_app; [exact P|]. destruct restw' as [|y ry]; [exact I|].
        destruct (is_param_char y) eqn:Py; [|reflexivity]. rewrite (param_nwd y Py) in Hwstop'. discriminate Hwstop'. }
      rewrite A in B. injection B as B1 B2. subst restw'. apply (app_inv_tail r'). symmetry. exact Hww'. }
    subst ww'. rewrite HA in O. discriminate O. }
  rewrite Hop'.
  rewrite (scan_app is_param_char (cur' + blen g' + ulen c) bt r' Hwvp Hstopv').
  rewrite (SL' bt r').
  rewrite (next_is_lparen_cur (cur' + blen g' + ulen c + blen bt) 0 r'), NL.
  rewrite (next_is_lparen_cur (cur + blen g + ulen c + blen bt) 0 r) in Htk.
  unfold tok.
  destruct (str_eqb (c :: bt) s_True || str_eqb (c :: bt) s_true);
    [|destruct (str_eqb (c :: bt) s_False || str_eqb (c :: bt) s_false); [|destruct (next_is_lparen 0 r)]];
    (fin_tok; cbn [tk t_start t_end]; rewrite Htk; repeat split; try reflexivity; try (cbn [blen]; lia)).
Qed.

(* ---------- the whole token stream *)
Lemma ws_split_unique : forall g g0 x x0,
  forallb is_ws g = true -> forallb is_ws g0 = true ->
  match x with c :: _ => is_ws c = false | [] => False end -> match x0 with c :: _ => is_ws c = false | [] => False end ->
  g ++ x = g0 ++ x0 -> g = g0 /\ x = x0.
Proof.
  induction g as [|a g IH]; intros g0 x x0 Hg Hg0 Hx Hx0 E.
  - destruct g0 as [|b g0]; [auto|]. cbn [app] in E. subst x. cbn [forallb] in Hg0. apply andb_prop in Hg0 as [Hb _].
    rewrite Hb in Hx. discriminate.
  - destruct g0 as [|b g0]; cbn [app] in E.
    + subst x0. cbn [forallb] in Hg. apply andb_prop in Hg as [Ha _]. rewrite Ha in Hx0. discriminate.
    + inversion E; subst b. cbn [forallb] in Hg, Hg0. apply andb_prop in Hg as [_ Hg]. apply andb_prop in Hg0 as [_ Hg0].
      destruct (IH g0 x x0 Hg Hg0 Hx Hx0 H1) as [-> ->]. auto.
Qed.
Lemma blen_split_unique : forall x x' y y', x ++ y = x' ++ y' -> blen x = blen x' -> x = x' /\ y = y'.
Proof.
  induction x as [|a x IH]; intros x' y y' E B.
  - cbn [blen] in B. symmetry in B. apply blen_nil_iff in B. subst x'. auto.
  - destruct x' as [|b x'].
    + cbn [blen] in B. pose proof (ulen_pos a). lia.
    + cbn [app] in E. inversion E; subst b. cbn [blen] in B. destruct (IH x' y y' H1 ltac:(lia)) as [-> ->]. auto.
Qed.
Lemma lex_one_ws cur g : forallb is_ws g = true -> lex_one tbl cur g = LEof.
Proof.
  intros H. unfold lex_one. rewrite <- (app_nil_r g). rewrite (scan_app is_ws cur g [] H I). reflexivity.
Qed.
Lemma next_is_lparen_ws : forall g cur, forallb is_ws g = true -> next_is_lparen cur g = false.
Proof.
  induction g as [|c g IH]; intros cur H; [reflexivity|]. cbn [forallb] in H. apply andb_prop in H as [Hc Hg].
  unfold next_is_lparen. cbn [scan]. rewrite Hc. apply (IH _ Hg).
Qed.
Lemma next_is_lparen_skip : forall g cur rest, forallb is_ws g = true -> next_is_lparen cur (g ++ rest) = next_is_lparen 0 rest.
Proof.
  induction g as [|c g IH]; intros cur rest H; cbn [app]; [apply next_is_lparen_cur|].
  cbn [forallb] in H. apply andb_prop in H as [Hc Hg]. unfold next_is_lparen. cbn [scan]. rewrite Hc. apply (IH _ _ Hg).
Qed.
Lemma next_is_lparen_hd c x y : is_ws c = false -> next_is_lparen 0 (c :: x) = next_is_lparen 0 (c :: y).
Proof. intros H. unfold next_is_lparen. cbn [scan]. rewrite H. reflexivity. Qed.

(* [Adj rest toks rest']: rest' is rest with the gaps between (and after) its tokens changed - any whitespace where there was
   some, any whitespace (or none) where there was none; the token bodies are untouched; names are not operator words *)
Inductive Adj : str -> list stoken -> str -> Prop :=
| Adj_nil g g' : forallb is_ws g = true -> forallb is_ws g' = true -> Adj g [] g'
| Adj_cons g g' body r r' t toks :
    forallb is_ws g = true -> forallb is_ws g' = true -> (g = [] \/ g' <> []) ->
    match body with c :: _ => is_ws c = false | [] => False end ->
    t_end t = t_start t + blen body ->
    (is_atom_tok (tk t) = true -> is_op tbl body = false) ->
    Adj r toks r' -> Adj (g ++ body ++ r) (t :: toks) (g' ++ body ++ r').

Lemma Adj_agree r toks r' : Adj r toks r' -> stopper r r' /\ next_is_lparen 0 r' = next_is_lparen 0 r.
Proof.
  intros A. destruct A as [g g' Hg Hg'|g g' body r r' t toks Hg Hg' Hgap Hb _ _ _].
  - split.
    + unfold stopper. destruct g' as [|x g'']; [exact I|]. cbn [forallb] in Hg'. apply andb_prop in Hg' as [Hx _]. left; exact Hx.
    + rewrite (next_is_lparen_ws g 0 Hg), (next_is_lparen_ws g' 0 Hg'). reflexivity.
  - destruct body as [|c bt]; [contradiction|]. split.
    + unfold stopper. destruct g' as [|x g'']; cbn [app].
      * destruct Hgap as [->|N]; [right; reflexivity | contradiction N; reflexivity].
      * cbn [forallb] in Hg'. apply andb_prop in Hg' as [Hx _]. left; exact Hx.
    + rewrite (next_is_lparen_skip g 0 _ Hg), (next_is_lparen_skip g' 0 _ Hg'). cbn [app]. apply next_is_lparen_hd. exact Hb.
Qed.

Theorem lex_all_respace : forall rest toks rest', Adj rest toks rest' ->
  forall f cur f' cur', (length rest < f)%nat -> (length rest' < f')%nat ->
  lex_all f tbl cur rest = (toks, TmEof) ->
  exists toks', lex_all f' tbl cur' rest' = (toks', TmEof) /\ map tk toks' = map tk toks.
Proof.
  induction 1 as [g g' Hg Hg'|g g' body r r' t toks Hg Hg' Hgap Hb He HA A IH]; intros f cur f' cur' Hf Hf' H.
  - destruct f' as [|f']; [lia|]. exists []. cbn [lex_all]. rewrite (lex_one_ws cur' g' Hg'). auto.
  - destruct f as [|f]; [lia|]. destruct f' as [|f']; [lia|]. cbn [lex_all] in H |- *.
    pose proof (lex_one_spec tbl cur (g ++ body ++ r)) as Sp.
    destruct (lex_one tbl cur (g ++ body ++ r)) as [t0 cur1 rest1| | |] eqn:L; try (inversion H; fail).
    destruct (lex_all f tbl cur1 rest1) as [ts tm] eqn:E. inversion H; subst t0 ts tm. clear H.
    destruct Sp as (ws & body0 & Sg & _).
    pose proof (seg_rest _ _ _ _ _ _ _ Sg) as R0. pose proof (seg_ws _ _ _ _ _ _ _ Sg) as W0.
    pose proof (seg_first _ _ _ _ _ _ _ Sg) as F0. pose proof (seg_body _ _ _ _ _ _ _ Sg) as B0.
    pose proof (seg_start _ _ _ _ _ _ _ Sg) as S0. pose proof (seg_end _ _ _ _ _ _ _ Sg) as E0.
    pose proof (seg_cur _ _ _ _ _ _ _ Sg) as C0.
    assert (Hx0 : match body0 ++ rest1 with c :: _ => is_ws c = false | [] => False end).
    { destruct body0; [contradiction|]. exact F0. }
    assert (Hx : match body ++ r with c :: _ => is_ws c = false | [] => False end).
    { destruct body; [contradiction|]. exact Hb. }
    destruct (ws_split_unique g ws (body ++ r) (body0 ++ rest1) Hg W0 Hx Hx0 R0) as [-> Eb].
    destruct (blen_split_unique body body0 r rest1 Eb ltac:(lia)) as [-> ->].
    destruct (Adj_agree _ _ _ A) as [St NL].
    destruct (lex_one_stable cur cur' ws g' body0 rest1 r' t cur1 W0 Hg' Hb L S0 He St NL HA) as (t' & L' & Tk & _ & _).
    rewrite L'.
    destruct (IH f cur1 f' (cur' + blen g' + blen body0)) as (toks' & E' & M).
    + rewrite !app_length in Hf. destruct body0; [contradiction|]. cbn [length] in Hf. lia.
    + rewrite !app_length in Hf'. destruct body0; [contradiction|]. cbn [length] in Hf'. lia.
    + exact E.
    + rewrite E'. exists (t' :: toks'). split; [reflexivity|]. cbn [map]. rewrite Tk, M. reflexivity.
Qed.

Theorem lex_respace s toks s' : lex tbl s = (toks, TmEof) -> Adj s toks s' ->
  exists toks', lex tbl s' = (toks', TmEof) /\ map tk toks' = map tk toks.
Proof.
  intros H A. unfold lex in *. apply (lex_all_respace s toks s' A (lex_fuel s) 0 (lex_fuel s') 0); [unfold lex_fuel; lia | unfold lex_fuel; lia | exact H].
Qed.
End Ws.

(** the two table conditions as a computable check *)
Definition all_ops (tbl : optable) : list str := t_prefix tbl ++ map fst (t_infix tbl) ++ t_postfix tbl ++ [s_qmark; s_colon].
Definition op_lex_ok (o : str) : bool :=
  negb (existsb is_ws o) && (forallb is_param_char o || match o with c :: _ => is_special c | [] => true end).
Definition tbl_lex_okb (tbl : optable) : bool := forallb op_lex_ok (all_ops tbl).

Lemma mem_in k l : mem k l = true -> In k l.
Proof.
  induction l as [|x l IH]; cbn [mem]; [discriminate|]. intros H. apply orb_prop in H as [H|H].
  - apply str_eqb_eq in H. left; auto.
  - right; auto.
Qed.
Lemma is_op_in tbl w : is_op tbl w = true -> In w (all_ops tbl).
Proof.
  unfold is_op, all_ops, is_prefix, is_infix, is_postfix, is_ternary_op, infix_cfg_of. intros H.
  apply orb_prop in H as [H|H]; [apply orb_prop in H as [H|H]; [apply orb_prop in H as [H|H]|]|].
  - apply in_or_app. left. apply mem_in. exact H.
  - apply in_or_app. right. apply in_or_app. left.
    induction (t_infix tbl) as [|[k v] l IH]; cbn [assoc map] in *; [discriminate|].
    destruct (str_eqb w k) eqn:E; [apply str_eqb_eq in E; left; auto | right; auto].
  - apply in_or_app. right. apply in_or_app. right. apply in_or_app. left. apply mem_in. exact H.
  - apply in_or_app. right. apply in_or_app. right. apply in_or_app. right.
    apply orb_prop in H as [H|H]; apply str_eqb_eq in H; subst w; cbn; auto.
Qed.
Lemma tbl_lex_ok tbl : tbl_lex_okb tbl = true ->
  (forall w x, is_ws x = true -> is_op tbl (w ++ [x]) = false) /\
  (forall w, is_op tbl w = true -> forallb is_param_char w = true \/ match w with c :: _ => is_special c = true | [] => True end).
Proof.
  unfold tbl_lex_okb. intros H. rewrite forallb_forall in H. split.
  - intros w x Hx. destruct (is_op tbl (w ++ [x])) eqn:O; [|reflexivity]. exfalso.
    specialize (H _ (is_op_in _ _ O)). unfold op_lex_ok in H. apply andb_prop in H as [H _]. apply negb_true_iff in H.
    rewrite existsb_app in H. cbn [existsb] in H. rewrite Hx in H. rewrite orb_true_r in H. discriminate.
  - intros w O. specialize (H _ (is_op_in _ _ O)). unfold op_lex_ok in H. apply andb_prop in H as [_ H].
    apply orb_prop in H as [H|H]; [left; exact H | right; destruct w; [exact I | exact H]].
Qed.

(* the parse depends on the token kinds and payloads only: equal [map tk] - equal parse *)
From EE Require Import Ast Parser Api.
Theorem parse_respace tbl s toks s' : tbl_lex_okb tbl = true ->
  lex tbl s = (toks, TmEof) -> Adj tbl s toks s' -> api_parse tbl s' = api_parse tbl s.
Proof.
  intros T H A. destruct (tbl_lex_ok tbl T) as [T1 T2].
  destruct (lex_respace tbl T1 T2 s toks s' H A) as (toks' & H' & M).
  unfold api_parse. rewrite H, H', M. reflexivity.
Qed.
