(** The whole token stream tiles the input. *)
From Coq Require Import Sorting.Sorted.
From EE Require Import Chars OpTable Decimal Token Lexer Utf8 LexerSpec.
Open Scope N_scope.

Fixpoint tiled (tbl : optable) (cur : N) (rest : str) (toks : list stoken) (tm : terminal) : Prop :=
  match toks with
  | [] => match tm with
          | TmEof => forallb is_ws rest = true      (* the tail after the last token is whitespace *)
          | TmErr => True
          | TmPanic | TmFuel => False
          end
  | t :: toks' =>
      exists ws body rest',
        seg cur rest t (t_end t) rest' ws body /\ tok_ok tbl (tk t) body rest' /\
        tiled tbl (t_end t) rest' toks' tm
  end.

Lemma lex_all_tiled tbl : forall fuel cur rest toks tm,
  (length rest < fuel)%nat -> lex_all fuel tbl cur rest = (toks, tm) -> tiled tbl cur rest toks tm.
Proof.
  induction fuel as [|f IH]; intros cur rest toks tm Hf H; [inversion Hf|].
  cbn [lex_all] in H.
  pose proof (lex_one_spec tbl cur rest) as S.
  destruct (lex_one tbl cur rest) as [t cur' rest'| | |].
  - destruct S as (ws & body & Sg & Ok).
    destruct (lex_all f tbl cur' rest') as [ts tm'] eqn:E.
    inversion H; subst. cbn [tiled].
    pose proof (seg_cur _ _ _ _ _ _ _ Sg) as Hc. subst cur'.
    exists ws, body, rest'. split; [exact Sg|]. split; [exact Ok|].
    apply IH with (cur := t_end t); [|exact E].
    pose proof (seg_rest _ _ _ _ _ _ _ Sg) as Hr. pose proof (seg_body _ _ _ _ _ _ _ Sg) as Hb.
    subst rest. rewrite !app_length in Hf. destruct body; [contradiction|]. cbn [length] in Hf. lia.
  - inversion H; subst. exact S.
  - inversion H; subst. exact I.
  - contradiction.
Qed.

Theorem lex_tiled tbl s toks tm : lex tbl s = (toks, tm) -> tiled tbl 0 s toks tm.
Proof. unfold lex, lex_fuel. apply lex_all_tiled. lia. Qed.

(* every token, located in the whole input *)
Lemma tiled_in tbl : forall toks pre rest tm,
  tiled tbl (blen pre) rest toks tm ->
  forall t, In t toks ->
  exists p body r,
    pre ++ rest = p ++ body ++ r /\ t_start t = blen p /\ t_end t = blen p + blen body /\
    body <> [] /\ tok_ok tbl (tk t) body r /\ blen pre <= t_start t.
Proof.
  induction toks as [|t0 toks IH]; intros pre rest tm H t Hin; [contradiction|].
  cbn [tiled] in H. destruct H as (ws & body & rest' & Sg & Ok & Ht).
  destruct Sg as [Hr Hws Hb Hf Hs He _].
  destruct Hin as [->|Hin].
  - exists (pre ++ ws), body, rest'. rewrite blen_app. subst rest.
    rewrite <- app_assoc. repeat split; try assumption; lia.
  - assert (E: t_end t0 = blen (pre ++ ws ++ body)) by (rewrite !blen_app; lia).
    rewrite E in Ht.
    destruct (IH (pre ++ ws ++ body) rest' tm Ht t Hin) as (p & b & r & H1 & H2 & H3 & H4 & H5 & H6).
    exists p, b, r. subst rest. rewrite <- H1, <- !app_assoc. repeat split; try assumption.
    rewrite !blen_app in H6. lia.
Qed.

(* spans are strictly increasing and non-overlapping *)
Lemma tiled_sorted tbl : forall toks cur rest tm,
  tiled tbl cur rest toks tm ->
  StronglySorted (fun a b => t_end a <= t_start b) toks /\
  Forall (fun t => cur <= t_start t /\ t_start t < t_end t) toks.
Proof.
  induction toks as [|t0 toks IH]; intros cur rest tm H.
  - split; constructor.
  - cbn [tiled] in H. destruct H as (ws & body & rest' & Sg & _ & Ht).
    destruct Sg as [Hr Hws Hb Hf Hs He _].
    destruct (IH _ _ _ Ht) as [S F].
    assert (Hlen: 0 < blen body).
    { destruct body as [|c b]; [contradiction|]. cbn [blen]. pose proof (ulen_pos c). lia. }
    split.
    + constructor; [exact S|]. eapply Forall_impl; [|exact F]. cbn. intros a [Ha _]. exact Ha.
    + constructor; [lia|]. eapply Forall_impl; [|exact F]. cbn. intros a [Ha Hb']. lia.
Qed.

(* between two consecutive tokens, before the first and (at EOF) after the last there is only whitespace;
   stated as: the input is the concatenation of whitespace/body segments in token order *)
Fixpoint gaps_ws (tbl : optable) (rest : str) (toks : list stoken) (tm : terminal) : Prop :=
  match toks with
  | [] => tm = TmEof -> forallb is_ws rest = true
  | t :: toks' => exists ws body rest', rest = ws ++ body ++ rest' /\ forallb is_ws ws = true /\
                                        blen body = t_end t - t_start t /\ gaps_ws tbl rest' toks' tm
  end.

Lemma tiled_gaps tbl : forall toks cur rest tm, tiled tbl cur rest toks tm -> gaps_ws tbl rest toks tm.
Proof.
  induction toks as [|t0 toks IH]; intros cur rest tm H; cbn [tiled gaps_ws] in *.
  - intros ->. exact H.
  - destruct H as (ws & body & rest' & Sg & _ & Ht). destruct Sg as [Hr Hws Hb Hf Hs He _].
    exists ws, body, rest'. repeat split; try assumption; [lia|]. eapply IH. exact Ht.
Qed.

Lemma tiled_term tbl : forall toks cur rest tm, tiled tbl cur rest toks tm -> tm <> TmPanic /\ tm <> TmFuel.
Proof.
  induction toks as [|t0 toks IH]; intros cur rest tm H; cbn [tiled] in H.
  - destruct tm; try contradiction; split; discriminate.
  - destruct H as (ws & body & rest' & _ & _ & Ht). eapply IH. exact Ht.
Qed.
