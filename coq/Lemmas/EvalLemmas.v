(** One-step characterisations of the evaluator (exec) and of the built-in handlers. *)
From EE Require Import Chars OpTable Decimal Ast Value Names Lexer Parser Eval Utf8.
Open Scope N_scope.

Section E.
Variable b : registries.
Variable reenter : str -> N -> state -> eres * state.
Notation exec := (exec b reenter).

Definition is_ok (r : eres) : Prop := exists v, r = EOk v.
Definition not_ok (r : eres) : Prop := forall v, r <> EOk v.

(* ---------- conditionals are lazy *)
Lemma exec_ternary_true cnd a x c st st1 :
  exec cnd c st = (EOk (VBool true), st1) -> exec (ATernary cnd a x) c st = exec a c st1.
Proof. intros H. cbn [Eval.exec]. rewrite H. reflexivity. Qed.
Lemma exec_ternary_false cnd a x c st st1 :
  exec cnd c st = (EOk (VBool false), st1) -> exec (ATernary cnd a x) c st = exec x c st1.
Proof. intros H. cbn [Eval.exec]. rewrite H. reflexivity. Qed.
Lemma exec_ternary_nonbool cnd a x c st st1 v :
  exec cnd c st = (EOk v, st1) -> (forall t, v <> VBool t) -> exec (ATernary cnd a x) c st = (EErr, st1).
Proof. intros H Hv. cbn [Eval.exec]. rewrite H. destruct v; try reflexivity. exfalso. eapply Hv. reflexivity. Qed.
Lemma exec_ternary_err cnd a x c st st1 err :
  exec cnd c st = (err, st1) -> not_ok err -> exec (ATernary cnd a x) c st = (err, st1).
Proof. intros H Hn. cbn [Eval.exec]. rewrite H. destruct err; try reflexivity. exfalso. eapply Hn. reflexivity. Qed.

(* ---------- lists: left to right, stop at the first error *)
Lemma exec_list_nil c st : exec (AList []) c st = (EOk (VList []), st).
Proof. reflexivity. Qed.
Lemma exec_list_err x rest c st st1 err :
  exec x c st = (err, st1) -> not_ok err -> exec (AList (x :: rest)) c st = (err, st1).
Proof. intros H Hn. cbn [Eval.exec]. rewrite H. destruct err; try reflexivity. exfalso. eapply Hn. reflexivity. Qed.
(* ---------- statements: in order, value of the last, None when empty, stop at the first error *)
Lemma exec_stmt_nil c st : exec (AStmt []) c st = (EOk VNone, st).
Proof. reflexivity. Qed.
Lemma exec_stmt_err x rest c st st1 err :
  exec x c st = (err, st1) -> not_ok err -> exec (AStmt (x :: rest)) c st = (err, st1).
Proof. intros H Hn. cbn [Eval.exec]. rewrite H. destruct err; try reflexivity. exfalso. eapply Hn. reflexivity. Qed.
Lemma exec_stmt_single x c st : exec (AStmt [x]) c st = exec x c st.
Proof. cbn [Eval.exec]. destruct (exec x c st) as [[v| | | | |] st1]; reflexivity. Qed.

(* ---------- names *)
Lemma exec_ref_unbound n c st :
  acquire (LCtx c) st = None -> assoc n (ctx_of st c) = None -> exec (ARef n) c st = (EOk VNone, st).
Proof. intros H1 H2. cbn [Eval.exec]. unfold ctx_get. rewrite H1, H2. reflexivity. Qed.
Lemma exec_ref_var n c st v :
  acquire (LCtx c) st = None -> assoc n (ctx_of st c) = Some (CVar v) -> exec (ARef n) c st = (EOk v, st).
Proof. intros H1 H2. cbn [Eval.exec]. unfold ctx_get. rewrite H1, H2. reflexivity. Qed.
Lemma exec_ref_func n c st h :
  acquire (LCtx c) st = None -> assoc n (ctx_of st c) = Some (CFunc h) ->
  exec (ARef n) c st = call_script b reenter h [] st.
Proof. intros H1 H2. cbn [Eval.exec]. unfold ctx_get. rewrite H1, H2. reflexivity. Qed.

(* ---------- assignments *)
Lemma exec_setter op x e c st cfg hd a bv st1 st2 cfg2 hd2 v st3 :
  get_infix st op = inr (cfg, hd) -> ic_setter cfg = true ->
  exec (ARef x) c st = (EOk a, st1) -> exec e c st1 = (EOk bv, st2) ->
  get_infix st2 op = inr (cfg2, hd2) ->
  call_handler b reenter hd2 (builtin_infix op a bv) [a; bv] st2 = (EOk v, st3) ->
  acquire (LCtx c) st3 = None ->
  exec (ABinary op (ARef x) e) c st = (EOk VNone, ctx_set st3 c x (CVar v)).
Proof.
  intros G S E1 E2 G2 C A. remember (ARef x) as l eqn:El. cbn [Eval.exec]. rewrite G, S. rewrite E1, E2.
  subst l. rewrite G2, C, A. reflexivity.
Qed.
Lemma exec_setter_handler_fails op x e c st cfg hd a bv st1 st2 cfg2 hd2 err st3 :
  get_infix st op = inr (cfg, hd) -> ic_setter cfg = true ->
  exec (ARef x) c st = (EOk a, st1) -> exec e c st1 = (EOk bv, st2) ->
  get_infix st2 op = inr (cfg2, hd2) ->
  call_handler b reenter hd2 (builtin_infix op a bv) [a; bv] st2 = (err, st3) -> not_ok err ->
  exec (ABinary op (ARef x) e) c st = (err, st3).
Proof.
  intros G S E1 E2 G2 C N. remember (ARef x) as l eqn:El. cbn [Eval.exec]. rewrite G, S. rewrite E1, E2.
  subst l. rewrite G2, C.
  destruct err; try reflexivity. exfalso. eapply N. reflexivity.
Qed.
Lemma exec_setter_non_name op l e c st cfg hd a bv st1 st2 :
  get_infix st op = inr (cfg, hd) -> ic_setter cfg = true ->
  (forall x, l <> ARef x) ->
  exec l c st = (EOk a, st1) -> exec e c st1 = (EOk bv, st2) ->
  exec (ABinary op l e) c st = (EErr, st2).
Proof.
  intros G S Hl E1 E2. cbn [Eval.exec]. rewrite G, S. rewrite E1, E2.
  destruct l; try reflexivity. exfalso. eapply Hl. reflexivity.
Qed.

(* ---------- CALC operators: handler looked up, then left operand, then right operand, then the call *)
Lemma exec_calc op l r c st cfg hd a st1 bv st2 :
  get_infix st op = inr (cfg, hd) -> ic_setter cfg = false ->
  exec l c st = (EOk a, st1) -> exec r c st1 = (EOk bv, st2) ->
  exec (ABinary op l r) c st = call_handler b reenter hd (builtin_infix op a bv) [a; bv] st2.
Proof. intros G S E1 E2. cbn [Eval.exec]. rewrite G, S. rewrite E1, E2. reflexivity. Qed.
Lemma exec_calc_left_err op l r c st cfg hd err st1 :
  get_infix st op = inr (cfg, hd) -> ic_setter cfg = false ->
  exec l c st = (err, st1) -> not_ok err -> exec (ABinary op l r) c st = (err, st1).
Proof.
  intros G S E1 N. cbn [Eval.exec]. rewrite G, S. rewrite E1.
  destruct err; try reflexivity. exfalso. eapply N. reflexivity.
Qed.
Lemma exec_calc_right_err op l r c st cfg hd a st1 err st2 :
  get_infix st op = inr (cfg, hd) -> ic_setter cfg = false ->
  exec l c st = (EOk a, st1) -> exec r c st1 = (err, st2) -> not_ok err ->
  exec (ABinary op l r) c st = (err, st2).
Proof.
  intros G S E1 E2 N. cbn [Eval.exec]. rewrite G, S. rewrite E1, E2.
  destruct err; try reflexivity. exfalso. eapply N. reflexivity.
Qed.
Lemma exec_binary_unregistered op l r c st :
  acquire LInfix st = None -> assoc op (r_infix (s_regs st)) = None -> exec (ABinary op l r) c st = (EErr, st).
Proof. intros A H. cbn [Eval.exec]. unfold get_infix. rewrite A, H. reflexivity. Qed.

(* ---------- calls: arguments first (left to right), then the context function if bound, else the global one *)
Lemma exec_call_ctx n c st h :
  acquire (LCtx c) st = None -> assoc n (ctx_of st c) = Some (CFunc h) ->
  exec (AFunc n []) c st = call_script b reenter h [] st.
Proof. intros A H. cbn [Eval.exec]. unfold ctx_get. rewrite A, H. reflexivity. Qed.
Lemma exec_call_global n c st hd :
  acquire (LCtx c) st = None -> (forall h, assoc n (ctx_of st c) <> Some (CFunc h)) ->
  acquire LFunc st = None -> assoc n (r_func (s_regs st)) = Some hd ->
  exec (AFunc n []) c st = call_handler b reenter hd (builtin_function n []) [] st.
Proof.
  intros A H A2 H2. cbn [Eval.exec]. unfold ctx_get, get_named. rewrite A, A2, H2.
  destruct (assoc n (ctx_of st c)) as [[v|h]|]; try reflexivity. exfalso. eapply H. reflexivity.
Qed.
Lemma exec_call_unknown n c st :
  acquire (LCtx c) st = None -> (forall h, assoc n (ctx_of st c) <> Some (CFunc h)) ->
  acquire LFunc st = None -> assoc n (r_func (s_regs st)) = None ->
  exec (AFunc n []) c st = (EErr, st).
Proof.
  intros A H A2 H2. cbn [Eval.exec]. unfold ctx_get, get_named. rewrite A, A2, H2.
  destruct (assoc n (ctx_of st c)) as [[v|h]|]; try reflexivity. exfalso. eapply H. reflexivity.
Qed.
Lemma exec_call_arg_err n x rest c st err st1 :
  exec x c st = (err, st1) -> not_ok err -> exec (AFunc n (x :: rest)) c st = (err, st1).
Proof. intros H N. cbn [Eval.exec]. rewrite H. destruct err; try reflexivity. exfalso. eapply N. reflexivity. Qed.

(* the element / entry loops of a list and a map hand back, as an error, only what is not a value *)
Lemma list_go_err_not_ok c : forall l s e s', (fix go (l : list ast) (st : state) {struct l} : (eres + list value) * state :=
       match l with
       | [] => (inr [], st)
       | x :: r => match exec x c st with
                   | (EOk v, st1) => match go r st1 with (inr vs, st2) => (inr (v :: vs), st2) | other => other end
                   | (err, st1) => (inl err, st1)
                   end
       end) l s = (inl e, s') -> not_ok e.
Proof.
  induction l as [|y r IH]; intros s e s' E; [discriminate E|].
  destruct (exec y c s) as [[w| | | | |] s1] eqn:Ey; try (inversion E; subst; intros w0 Hw; discriminate Hw).
  match type of E with context [(fix go (l : list ast) (st : state) {struct l} := _) r s1] =>
    destruct ((fix go (l : list ast) (st : state) {struct l} := _) r s1) as [[e1|vs] s2] eqn:Eg end; [|discriminate E].
  inversion E; subst. exact (IH _ _ _ Eg).
Qed.
Lemma map_go_err_not_ok c : forall l s e s', (fix go (l : list (ast * ast)) (st : state) {struct l} : (eres + list (value * value)) * state :=
       match l with
       | [] => (inr [], st)
       | (k, v) :: r =>
           match exec k c st with
           | (EOk kv, st1) =>
               match exec v c st1 with
               | (EOk vv, st2) => match go r st2 with (inr rest, st3) => (inr ((kv, vv) :: rest), st3) | other => other end
               | (err, st2) => (inl err, st2)
               end
           | (err, st1) => (inl err, st1)
           end
       end) l s = (inl e, s') -> not_ok e.
Proof.
  induction l as [|[k y] r IH]; intros s e s' E; [discriminate E|].
  destruct (exec k c s) as [[w| | | | |] s1] eqn:Ek; try (inversion E; subst; intros w0 Hw; discriminate Hw).
  destruct (exec y c s1) as [[w2| | | | |] s2] eqn:Ey; try (inversion E; subst; intros w0 Hw; discriminate Hw).
  match type of E with context [(fix go (l : list (ast * ast)) (st : state) {struct l} := _) r s2] =>
    destruct ((fix go (l : list (ast * ast)) (st : state) {struct l} := _) r s2) as [[e1|m] s3] eqn:Eg end; [|discriminate E].
  inversion E; subst. exact (IH _ _ _ Eg).
Qed.

End E.

(** registries: the last registration of a name wins; other names are unaffected *)
Lemma assoc_cons_same {A} n (v : A) l : assoc n ((n, v) :: l) = Some v.
Proof. cbn [assoc]. assert (H: str_eqb n n = true) by (apply str_eqb_eq; reflexivity). rewrite H. reflexivity. Qed.
Lemma assoc_cons_other {A} n m (v : A) l : n <> m -> assoc m ((n, v) :: l) = assoc m l.
Proof.
  intros H. cbn [assoc]. destruct (str_eqb m n) eqn:E; [|reflexivity].
  apply str_eqb_eq in E. congruence.
Qed.
Lemma assoc_app_first {A} n (l1 l2 : list (str * A)) v : assoc n l1 = Some v -> assoc n (l1 ++ l2) = Some v.
Proof.
  induction l1 as [|[k x] l1 IH]; cbn [assoc app]; [discriminate|]. destruct (str_eqb n k); auto.
Qed.

(** a list / map with one more element in front is nested at least as deep *)
Lemma vbounded_cons_list v ws : vbounded (VList ws) = false -> vbounded (VList (v :: ws)) = false.
Proof.
  unfold vbounded. cbn [vdepth]. intros H. apply N.leb_gt in H. apply N.leb_gt. lia.
Qed.
Lemma vbounded_cons_map k v m : vbounded (VMap m) = false -> vbounded (VMap ((k, v) :: m)) = false.
Proof.
  unfold vbounded. cbn [vdepth]. intros H. apply N.leb_gt in H. apply N.leb_gt. lia.
Qed.
