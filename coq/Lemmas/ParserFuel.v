(** Termination of the parser model: every successful sub-parse consumes tokens (progress), hence the explicit fuel
    4*|tokens| + 16 always suffices - the model's [Fuel] outcome is unreachable. This is the termination argument for the
    loops and recursions of parser.rs (C01: never hangs). *)
From EE Require Import Chars OpTable Decimal Token Ast Parser.
Open Scope N_scope.

Section P.
Variable tbl : optable.
Variable tm : terminal.

(* ---------- progress ---------- *)
Definition lt_out {A} (n : nat) (x : outcome (A * list token)) : Prop :=
  match x with Ok (_, r) => (length r < n)%nat | _ => True end.
Definition le_out {A} (n : nat) (x : outcome (A * list token)) : Prop :=
  match x with Ok (_, r) => (length r <= n)%nat | _ => True end.

Lemma lt_bind {A B} n (x : outcome A) (f : A -> outcome (B * list token)) :
  (forall a, x = Ok a -> lt_out n (f a)) -> lt_out n (x >>= f).
Proof. destruct x; cbn; intros H; try exact I. apply H. reflexivity. Qed.
Lemma le_bind {A B} n (x : outcome A) (f : A -> outcome (B * list token)) :
  (forall a, x = Ok a -> le_out n (f a)) -> le_out n (x >>= f).
Proof. destruct x; cbn; intros H; try exact I. apply H. reflexivity. Qed.

Lemma advance_len ts r : advance tm ts = Ok r -> (length r <= length ts)%nat /\ (ts <> [] -> length r < length ts)%nat.
Proof.
  unfold advance. destruct ts as [|t [|t2 rest]]; intros E.
  - inversion E; subst. split; [cbn; lia | intros H; contradiction].
  - destruct tm; inversion E; subst; cbn; split; intros; lia.
  - inversion E; subst. cbn. split; intros; lia.
Qed.
Lemma expect_len ts s r : expect tm ts s = Ok r -> (length r < length ts)%nat.
Proof.
  unfold expect. intros E. destruct (advance tm ts) as [r'| | |] eqn:A; cbn [bind] in E; try discriminate.
  destruct ts as [|t rest]; [discriminate|]. apply advance_len in A. destruct A as [_ A]. specialize (A ltac:(discriminate)).
  destruct t; try discriminate;
    match type of E with (if ?c then _ else _) = _ => destruct c; [inversion E; subst; exact A | discriminate] end.
Qed.

Lemma postfixes_len : forall f lhs ts a r, parse_postfixes tbl tm f lhs ts = Ok (a, r) -> (length r <= length ts)%nat.
Proof.
  induction f as [|f IH]; intros lhs ts a r H; cbn [parse_postfixes] in H; [discriminate|].
  destruct ts as [|t rest]; [inversion H; subst; lia|].
  destruct t; try (inversion H; subst; lia).
  destruct (is_postfix tbl s); [|inversion H; subst; lia].
  destruct (advance tm (TOp s :: rest)) as [ts2| | |] eqn:A; cbn [bind] in H; try discriminate.
  apply advance_len in A. destruct A as [A _].
  unfold built in H. destruct (MAX_DEPTH <? ast_height (APostfix lhs s)); cbn [bind] in H; [discriminate|].
  apply IH in H. lia.
Qed.

Definition all_len (f : nat) : Prop :=
  (forall d ts a r, parse_expression tbl tm f d ts = Ok (a, r) -> (length r < length ts)%nat) /\
  (forall d ts a r, parse_primary tbl tm f d ts = Ok (a, r) -> (length r < length ts)%nat) /\
  (forall d ts a r, parse_token tbl tm f d ts = Ok (a, r) -> (length r < length ts)%nat) /\
  (forall d ts acc a r, parse_args tbl tm f d ts acc = Ok (a, r) -> (length r < length ts)%nat) /\
  (forall d ts acc a r, parse_list tbl tm f d ts acc = Ok (a, r) -> (length r < length ts)%nat) /\
  (forall d ts acc a r, parse_map tbl tm f d ts acc = Ok (a, r) -> (length r < length ts)%nat) /\
  (forall d p lhs ts a r, parse_op tbl tm f d p lhs ts = Ok (a, r) -> (length r <= length ts)%nat) /\
  (forall d p lhs ts a r, parse_op_loop tbl tm f d p lhs ts = Ok (a, r) -> (length r <= length ts)%nat).

Lemma of_lt {A} n (x : outcome (A * list token)) a r : lt_out n x -> x = Ok (a, r) -> (length r < n)%nat.
Proof. intros G E. subst x. exact G. Qed.
Lemma of_le {A} n (x : outcome (A * list token)) a r : le_out n x -> x = Ok (a, r) -> (length r <= n)%nat.
Proof. intros G E. subst x. exact G. Qed.

Ltac fin_len := cbn [length] in *; lia.

Ltac hyp_step I1 I2 I3 I4 I5 I6 I7 I8 :=
  match goal with
  | H : Err = Ok _ |- _ => discriminate H
  | H : built _ _ = Ok _ |- _ => unfold built in H
  | H : Ok _ = Ok _ |- _ => inversion H; subst; clear H
  | H : (if ?c then _ else _) = Ok _ |- _ => destruct c
  | H : advance _ ?ts = Ok ?r |- _ => apply advance_len in H; destruct H as [? ?]
  | H : expect _ ?ts _ = Ok ?r |- _ => apply expect_len in H
  | H : parse_postfixes _ _ _ _ _ = Ok (_, _) |- _ => apply postfixes_len in H
  | H : _ = Ok (_, _) |- _ =>
      first [ apply I1 in H | apply I2 in H | apply I3 in H | apply I4 in H | apply I5 in H | apply I6 in H | apply I7 in H | apply I8 in H ]
  end.

Ltac lstep I1 I2 I3 I4 I5 I6 I7 I8 :=
  first [ hyp_step I1 I2 I3 I4 I5 I6 I7 I8 |
  match goal with
  | |- lt_out _ (built _ _) => unfold built
  | |- le_out _ (built _ _) => unfold built
  | |- lt_out _ (Ok (_, _)) => cbn [lt_out]; repeat (match goal with H : ?l <> [] -> _ |- _ => specialize (H ltac:(discriminate)) end); fin_len
  | |- le_out _ (Ok (_, _)) => cbn [le_out]; repeat (match goal with H : ?l <> [] -> _ |- _ => specialize (H ltac:(discriminate)) end); fin_len
  | |- lt_out _ Err => exact I
  | |- lt_out _ Fuel => exact I
  | |- le_out _ Err => exact I
  | |- le_out _ Fuel => exact I
  | |- lt_out _ (bind _ _) => apply lt_bind; intros [? ?] ?
  | |- lt_out _ (bind _ _) => apply lt_bind; intros ? ?
  | |- le_out _ (bind _ _) => apply le_bind; intros [? ?] ?
  | |- le_out _ (bind _ _) => apply le_bind; intros ? ?
  | |- lt_out _ (match ?x with _ => _ end) => destruct x eqn:?
  | |- le_out _ (match ?x with _ => _ end) => destruct x eqn:?
  | |- lt_out _ (if ?c then _ else _) => destruct c
  | |- le_out _ (if ?c then _ else _) => destruct c
  | |- lt_out _ ?x => lazymatch x with Ok _ => fail | _ => destruct x as [[? ?]| | |] eqn:?; [| exact I | exact I | exact I] end
  | |- le_out _ ?x => lazymatch x with Ok _ => fail | _ => destruct x as [[? ?]| | |] eqn:?; [| exact I | exact I | exact I] end
  end ].

Lemma parser_len : forall f, all_len f.
Proof.
  induction f as [|f IH]; unfold all_len.
  - repeat split; intros; cbn in *; discriminate.
  - destruct IH as (I1 & I2 & I3 & I4 & I5 & I6 & I7 & I8).
    repeat split; intros until r.
    + apply of_lt. cbn [parse_expression]. repeat lstep I1 I2 I3 I4 I5 I6 I7 I8.
    + apply of_lt. cbn [parse_primary]. repeat lstep I1 I2 I3 I4 I5 I6 I7 I8.
    + apply of_lt. cbn [parse_token]. repeat lstep I1 I2 I3 I4 I5 I6 I7 I8.
    + apply of_lt. cbn [parse_args]. repeat lstep I1 I2 I3 I4 I5 I6 I7 I8.
    + apply of_lt. cbn [parse_list]. repeat lstep I1 I2 I3 I4 I5 I6 I7 I8.
    + apply of_lt. cbn [parse_map]. repeat lstep I1 I2 I3 I4 I5 I6 I7 I8.
    + apply of_le. cbn [parse_op]. repeat lstep I1 I2 I3 I4 I5 I6 I7 I8.
    + apply of_le. cbn [parse_op_loop]. repeat lstep I1 I2 I3 I4 I5 I6 I7 I8.
Qed.

(* ---------- the fuel suffices ---------- *)
Hypothesis tm_nf : tm <> TmFuel.

Definition nf {A} (x : outcome A) : Prop := x <> Fuel.
Lemma nf_bind {A B} (x : outcome A) (k : A -> outcome B) : nf x -> (forall a, x = Ok a -> nf (k a)) -> nf (x >>= k).
Proof. unfold nf. destruct x; cbn; intros H1 H2; try discriminate; [apply H2; reflexivity | contradiction]. Qed.
Lemma nf_advance ts : nf (advance tm ts).
Proof. unfold nf, advance. destruct ts as [|t [|t2 r]]; try discriminate. destruct tm; try discriminate. contradiction. Qed.
Lemma nf_peek ts : nf (peek_tok tm ts).
Proof. unfold nf, peek_tok. destruct ts as [|t [|t2 r]]; try discriminate. destruct tm; try discriminate. contradiction. Qed.
Lemma nf_expect ts s : nf (expect tm ts s).
Proof.
  unfold expect. apply nf_bind; [apply nf_advance|]. intros r _.
  destruct ts as [|t ts']; [discriminate|]. destruct t; try discriminate;
    match goal with |- nf (if ?c then _ else _) => destruct c; discriminate end.
Qed.
Lemma nf_next_prec ts : nf (next_prec tbl tm ts).
Proof. unfold next_prec. apply nf_bind; [apply nf_peek | intros; discriminate]. Qed.

Lemma nf_postfixes : forall f lhs ts, (length ts + 1 <= f)%nat -> nf (parse_postfixes tbl tm f lhs ts).
Proof.
  induction f as [|f IH]; intros lhs ts Hf; [lia|]. cbn [parse_postfixes].
  destruct ts as [|t rest]; [discriminate|]. destruct t; try discriminate.
  destruct (is_postfix tbl s); [|discriminate].
  apply nf_bind; [apply nf_advance|]. intros ts2 A. apply advance_len in A. destruct A as [_ A]. specialize (A ltac:(discriminate)).
  apply nf_bind; [unfold built; destruct (MAX_DEPTH <? _); discriminate|].
  intros [e ts3] B. unfold built in B. destruct (MAX_DEPTH <? _); [discriminate|]. inversion B; subst.
  apply IH. cbn [length] in *. lia.
Qed.

Definition all_nf (f : nat) : Prop :=
  (forall d ts, (4 * length ts + 4 <= f)%nat -> nf (parse_expression tbl tm f d ts)) /\
  (forall d ts, (4 * length ts + 3 <= f)%nat -> nf (parse_primary tbl tm f d ts)) /\
  (forall d ts, (4 * length ts + 2 <= f)%nat -> nf (parse_token tbl tm f d ts)) /\
  (forall d ts acc, (4 * length ts + 5 <= f)%nat -> nf (parse_args tbl tm f d ts acc)) /\
  (forall d ts acc, (4 * length ts + 5 <= f)%nat -> nf (parse_list tbl tm f d ts acc)) /\
  (forall d ts acc, (4 * length ts + 5 <= f)%nat -> nf (parse_map tbl tm f d ts acc)) /\
  (forall d p lhs ts, (4 * length ts + 6 <= f)%nat -> nf (parse_op tbl tm f d p lhs ts)) /\
  (forall d p lhs ts, (4 * length ts + 5 <= f)%nat -> nf (parse_op_loop tbl tm f d p lhs ts)).

Ltac nstep L1 L2 L3 L4 L5 L6 L7 L8 I1 I2 I3 I4 I5 I6 I7 I8 :=
  first [ hyp_step L1 L2 L3 L4 L5 L6 L7 L8 |
  match goal with
  | |- nf (built _ _) => unfold built
  | |- nf (parse_postfixes _ _ _ _ _) => apply nf_postfixes; repeat (match goal with H : ?l <> [] -> _ |- _ => specialize (H ltac:(discriminate)) end); fin_len
  | |- nf (Ok _) => discriminate
  | |- nf Err => discriminate
  | |- nf (advance _ _) => apply nf_advance
  | |- nf (expect _ _ _) => apply nf_expect
  | |- nf (next_prec _ _ _) => apply nf_next_prec
  | |- nf (bind _ _) => apply nf_bind; [| first [intros [? ?] ? | intros ? ?]]
  | |- nf (match ?x with _ => _ end) => destruct x eqn:?
  | |- nf (if ?c then _ else _) => destruct c
  | |- nf _ =>
      first [ apply I1 | apply I2 | apply I3 | apply I4 | apply I5 | apply I6 | apply I7 | apply I8 ];
      repeat (match goal with H : ?l <> [] -> _ |- _ => specialize (H ltac:(discriminate)) end); fin_len
  end ].

Lemma parser_nf : forall f, all_nf f.
Proof.
  induction f as [|f IH]; unfold all_nf.
  - repeat split; intros; lia.
  - destruct IH as (I1 & I2 & I3 & I4 & I5 & I6 & I7 & I8).
    destruct (parser_len f) as (L1 & L2 & L3 & L4 & L5 & L6 & L7 & L8).
    repeat split; intros.
    + cbn [parse_expression]. repeat nstep L1 L2 L3 L4 L5 L6 L7 L8 I1 I2 I3 I4 I5 I6 I7 I8.
    + cbn [parse_primary]. repeat nstep L1 L2 L3 L4 L5 L6 L7 L8 I1 I2 I3 I4 I5 I6 I7 I8.
    + cbn [parse_token]. repeat nstep L1 L2 L3 L4 L5 L6 L7 L8 I1 I2 I3 I4 I5 I6 I7 I8.
    + cbn [parse_args]. repeat nstep L1 L2 L3 L4 L5 L6 L7 L8 I1 I2 I3 I4 I5 I6 I7 I8.
    + cbn [parse_list]. repeat nstep L1 L2 L3 L4 L5 L6 L7 L8 I1 I2 I3 I4 I5 I6 I7 I8.
    + cbn [parse_map]. repeat nstep L1 L2 L3 L4 L5 L6 L7 L8 I1 I2 I3 I4 I5 I6 I7 I8.
    + cbn [parse_op]. repeat nstep L1 L2 L3 L4 L5 L6 L7 L8 I1 I2 I3 I4 I5 I6 I7 I8.
    + cbn [parse_op_loop]. repeat nstep L1 L2 L3 L4 L5 L6 L7 L8 I1 I2 I3 I4 I5 I6 I7 I8.
Qed.

Lemma nf_stmt_loop : forall f ts acc, (4 * length ts + 6 <= f)%nat -> nf (parse_stmt_loop tbl tm f ts acc).
Proof.
  induction f as [|f IH]; intros ts acc Hf; [lia|]. cbn [parse_stmt_loop].
  destruct ts as [|t ts']; [discriminate|].
  apply nf_bind; [apply (proj1 (parser_nf f)); cbn [length] in *; lia|].
  intros [e r] E. apply (proj1 (parser_len f)) in E. cbn [length] in *.
  destruct r as [|t2 r2]; [apply IH; cbn [length]; lia|].
  destruct t2; try (apply IH; cbn [length] in *; lia).
  apply nf_bind; [apply nf_advance|]. intros r1 A. apply advance_len in A. destruct A as [A _].
  apply IH. cbn [length] in *. lia.
Qed.

Theorem parse_tokens_terminates : forall ts, parse_tokens tbl tm ts <> Fuel.
Proof.
  intros ts. unfold parse_tokens. destruct ts as [|t ts'].
  - destruct tm; try discriminate. contradiction.
  - apply nf_bind; [apply nf_stmt_loop; unfold parse_fuel; lia|]. intros es _. destruct es as [|e [|e2 r]]; discriminate.
Qed.
End P.
