(** THE ROUND TRIP FOR WHAT THE PARSER ACCEPTS. Lemma (A) (LexPrintExpr), lemma (B) (RoundTrip), "the printer needs the least
    nesting" (LeastNesting) and "what the parser accepts has an accepted spelling within the limit" (PrattComplete) together:
    if parse_expression accepts a text and the leaves of its tree are lexically sane, then the text that expr() writes for that
    tree is accepted and parses back to the same tree. No premise about depth, height or well-formedness is left: they are
    theorems about the parser's output. The table conditions are computable and hold for the dumped built-in table. *)
From EE Require Import Chars OpTable Decimal Token Lexer Ast Parser Printer Api Ptree Etoks Utf8 ParserFuel ParserMono ParserSteps
  ParserLexErr ParserHeight PrattFull PrattParen RoundTrip LeastNesting Grammar PrattComplete LexPrintExpr.
Open Scope N_scope.

Definition no_cfg (tbl : optable) (o : str) : bool := match infix_cfg_of tbl o with None => true | Some _ => false end.
Definition tbl_complete_okb (tbl : optable) : bool :=
  tbl_okb tbl && tbl_posb tbl && no_cfg tbl s_not && forallb (no_cfg tbl) (t_postfix tbl) && forallb (fun o => negb (closer o)) (t_prefix tbl).

Lemma mem_In k l : mem k l = true -> In k l.
Proof.
  induction l as [|x r IH]; cbn [mem]; [discriminate|]. intros H. apply orb_prop in H as [H|H].
  - apply str_eqb_eq in H. subst. left; reflexivity.
  - right. exact (IH H).
Qed.

Lemma tbl_complete_okb_ok tbl : tbl_complete_okb tbl = true ->
  tbl_ok tbl /\ tbl_pos tbl /\ infix_cfg_of tbl s_not = None /\
  (forall o, is_postfix tbl o = true -> infix_cfg_of tbl o = None) /\ (forall o, is_prefix tbl o = true -> closer o = false).
Proof.
  unfold tbl_complete_okb. intros H.
  apply andb_prop in H as [H H5]. apply andb_prop in H as [H H4]. apply andb_prop in H as [H H3]. apply andb_prop in H as [H1 H2].
  split; [apply tbl_okb_ok; exact H1|]. split; [apply tbl_posb_ok; exact H2|]. split; [|split].
  - unfold no_cfg in H3. destruct (infix_cfg_of tbl s_not); [discriminate | reflexivity].
  - intros o Ho. unfold is_postfix in Ho. apply mem_In in Ho. rewrite forallb_forall in H4. specialize (H4 o Ho).
    unfold no_cfg in H4. destruct (infix_cfg_of tbl o); [discriminate | reflexivity].
  - intros o Ho. unfold is_prefix in Ho. apply mem_In in Ho. rewrite forallb_forall in H5. specialize (H5 o Ho).
    apply negb_true_iff in H5. exact H5.
Qed.

Theorem accepted_premises : forall tbl s t, tbl_complete_okb tbl = true ->
  api_parse tbl s = Ok t -> premises tbl t = true \/ t = AStmt [].
Proof.
  intros tbl s t HC H. destruct (tbl_complete_okb_ok tbl HC) as (T1 & T2 & T3 & T4 & T5).
  assert (HT : tbl_okb tbl = true).
  { unfold tbl_complete_okb in HC. apply andb_prop in HC as [HC _]. apply andb_prop in HC as [HC _]. apply andb_prop in HC as [HC _].
    apply andb_prop in HC as [HC _]. exact HC. }
  unfold api_parse in H. destruct (lex tbl s) as [sts tm].
  destruct tm; try (exfalso; eapply (lex_error_rejected tbl); [|exact H]; discriminate).
  exact (accepted_meets_premises tbl T1 T2 T3 T4 T5 _ _ HT H).
Qed.

Theorem accepted_text_round_trip : forall tbl s t, tbl_complete_okb tbl = true -> tbl_print_okb tbl = true ->
  api_parse tbl s = Ok t -> psaneb tbl t = true -> api_parse tbl (expr tbl t) = Ok t.
Proof.
  intros tbl s t HC HP H HS. destruct (accepted_premises tbl s t HC H) as [P | ->].
  - exact (text_round_trip_all tbl t HP P HS).
  - reflexivity.
Qed.
