(** Lemma (B) for the printer with exact parentheses: the printer's parenthesisation [minp t] asks for no more than the
    grammar needs ([wfp]) and forgets to the tree ([strip]), so Lemmas/PrattParen.v applies: parsing the printer's token
    image gives the tree back - for every table and every tree, as long as [need t] is within the depth limit. *)
From EE Require Import Chars OpTable Decimal Token Lexer Ast Parser Printer Api Ptree Etoks Utf8 ParserFuel ParserMono ParserSteps PrattFull PrattParen.
Open Scope N_scope.

Section RT2.
Variable tbl : optable.
Hypothesis TOK : tbl_ok tbl.
Notation lbp o := (fst (binding_power tbl o)).
Notation rbp o := (snd (binding_power tbl o)).
Notation wf := (Etoks.wf tbl).
Notation minp := (Etoks.minp tbl).
Notation wfp := (PrattParen.wfp tbl).
Notation lparen := (Etoks.lparen tbl).
Notation rparen := (Etoks.rparen tbl).

Lemma str_eqb_refl s : str_eqb s s = true. Proof. apply str_eqb_eq. reflexivity. Qed.

Lemma strip_wrap b p : strip (wrap b p) = strip p. Proof. destruct b; reflexivity. Qed.
Lemma wfp_wrap b p : wfp (wrap b p) = wfp p. Proof. destruct b; reflexivity. Qed.
Lemma toks_wrap b p : toks (wrap b p) = ptoks b (toks p). Proof. destruct b; reflexivity. Qed.
Lemma pneed_wrap b p : pneed (wrap b p) = if b then pneed p + 1 else pneed p. Proof. destruct b; reflexivity. Qed.

Lemma minp_node nt o l r :
  minp (mk nt o l r) = PBin nt o (wrap (lparen l o) (minp l)) (wrap (rparen r o) (minp r)).
Proof. destruct nt; cbn [mk Etoks.minp]; [rewrite str_eqb_refl|]; reflexivity. Qed.

Lemma minp_pbin t : is_pbin (minp t) = is_infix_like t.
Proof.
  destruct t as [lit|op rhs|op l r|lhs op|c a b|nm|nm args|es|kvs|es|]; try reflexivity.
  cbn [Etoks.minp]. destruct rhs; try reflexivity.
  unfold is_infix_like, infix_like. destruct (str_eqb op s_not); reflexivity.
Qed.

Lemma minp_ptern t : is_ptern (minp t) = is_ternary t.
Proof.
  destruct t as [lit|op rhs|op l r|lhs op|c a b|nm|nm args|es|kvs|es|]; try reflexivity.
  cbn [Etoks.minp]. destruct rhs; try reflexivity. destruct (str_eqb op s_not); reflexivity.
Qed.

Lemma minp_pun t : is_pun (minp t) = true -> exists n e, t = AUnary n e.
Proof. destruct t; cbn; try discriminate. intros _. eauto. Qed.

Lemma not_pbin_spines p : is_pbin p = false -> prspine p = [] /\ plspine p = [].
Proof. destruct p; try discriminate; split; reflexivity. Qed.

(* Printer.mins describes the exposed spines of the printer's parenthesisation *)
Lemma mins_spec : forall t,
  match mins tbl t with
  | None => is_infix_like t = false
  | Some (lm, rm) => is_infix_like t = true /\
      (forall y, In y (plspine (minp t)) -> (lm <= lbp y)%Z) /\ (forall x, In x (prspine (minp t)) -> (rm <= rbp x)%Z)
  end.
Proof.
  assert (NODE: forall nt o l r,
    (match mins tbl l with
     | None => is_infix_like l = false
     | Some (lm, rm) => is_infix_like l = true /\
         (forall y, In y (plspine (minp l)) -> (lm <= lbp y)%Z) /\ (forall x, In x (prspine (minp l)) -> (rm <= rbp x)%Z)
     end) ->
    (match mins tbl r with
     | None => is_infix_like r = false
     | Some (lm, rm) => is_infix_like r = true /\
         (forall y, In y (plspine (minp r)) -> (lm <= lbp y)%Z) /\ (forall x, In x (prspine (minp r)) -> (rm <= rbp x)%Z)
     end) ->
    forall lm rm, mins tbl (mk nt o l r) = Some (lm, rm) ->
      (forall y, In y (plspine (minp (mk nt o l r))) -> (lm <= lbp y)%Z) /\
      (forall x, In x (prspine (minp (mk nt o l r))) -> (rm <= rbp x)%Z)).
  { intros nt o l r IHl IHr lm rm Hm. rewrite minp_node. cbn [plspine prspine].
    assert (Hm' : Some (match mins tbl l with
                        | Some (m, _) => if left_paren (lbp o) l (mins tbl l) then lbp o else Z.min (lbp o) m
                        | None => lbp o end,
                        match mins tbl r with
                        | Some (_, m) => if right_paren (rbp o) r (mins tbl r) then rbp o else Z.min (rbp o) m
                        | None => rbp o end) = Some (lm, rm)).
    { rewrite <- Hm. destruct nt; cbn [mk mins]; [rewrite str_eqb_refl|]; destruct (binding_power tbl o); reflexivity. }
    inversion Hm' as [[Hl Hr]]. clear Hm'. split.
    - intros y [<-|Hy].
      + destruct (mins tbl l) as [[m ?]|]; [destruct (left_paren _ _ _)|]; lia.
      + unfold Etoks.lparen in Hy. destruct (mins tbl l) as [[m m']|] eqn:El.
        * destruct (left_paren (lbp o) l (Some (m, m'))); [destruct Hy|]. cbn [wrap] in Hy.
          destruct IHl as (_ & A & _). specialize (A y Hy). lia.
        * assert (Hp : left_paren (lbp o) l None = is_ternary l) by (unfold left_paren; apply orb_false_r).
          rewrite Hp in Hy. destruct (is_ternary l); [destruct Hy|]. cbn [wrap] in Hy.
          rewrite (proj2 (not_pbin_spines (minp l) ltac:(rewrite minp_pbin; exact IHl))) in Hy. destruct Hy.
    - intros x [<-|Hx].
      + destruct (mins tbl r) as [[? m]|]; [destruct (right_paren _ _ _)|]; lia.
      + unfold Etoks.rparen in Hx. destruct (mins tbl r) as [[m' m]|] eqn:Er.
        * destruct (right_paren (rbp o) r (Some (m', m))); [destruct Hx|]. cbn [wrap] in Hx.
          destruct IHr as (_ & _ & A). specialize (A x Hx). lia.
        * assert (Hp : right_paren (rbp o) r None = is_ternary r) by (unfold right_paren; apply orb_false_r).
          rewrite Hp in Hx. destruct (is_ternary r); [destruct Hx|]. cbn [wrap] in Hx.
          rewrite (proj1 (not_pbin_spines (minp r) ltac:(rewrite minp_pbin; exact IHr))) in Hx. destruct Hx. }
  assert (NONE: forall t, is_infix_like t = false -> mins tbl t = None).
  { intros t H. destruct t; try reflexivity; try discriminate H.
    destruct t; try reflexivity. unfold is_infix_like, infix_like in H. cbn [mins].
    destruct (str_eqb op s_not); [discriminate H | reflexivity]. }
  assert (SOME: forall nt o l r, exists lm rm, mins tbl (mk nt o l r) = Some (lm, rm)).
  { intros nt o l r. destruct nt; cbn [mk mins]; [rewrite str_eqb_refl|]; destruct (binding_power tbl o); eauto. }
  intros t. remember (S (size t)) as n eqn:Hn. assert (Hs : (size t < n)%nat) by lia. clear Hn. revert t Hs.
  induction n as [|n IH]; intros t Hs; [lia|].
  destruct (is_infix_like t) eqn:Hil.
  - destruct (infix_like_inv t Hil) as (nt & o & l & r & ->).
    destruct (size_mk nt o l r) as [S1 S2].
    destruct (SOME nt o l r) as (lm & rm & Em). rewrite Em. split; [reflexivity|].
    apply (NODE nt o l r (IH l ltac:(lia)) (IH r ltac:(lia)) lm rm Em).
  - rewrite (NONE t Hil). reflexivity.
Qed.

(* the printer's parenthesisation asks for nothing the grammar does not need *)
Lemma wrap_left_ok o l :
  negb (is_ptern (wrap (lparen l o) (minp l))) = true /\ forallb (fun x => (lbp o <? rbp x)%Z) (prspine (wrap (lparen l o) (minp l))) = true.
Proof.
  pose proof (mins_spec l) as M. unfold Etoks.lparen, left_paren.
  destruct (is_ternary l) eqn:Ht; cbn [orb wrap]; [split; reflexivity|].
  destruct (mins tbl l) as [[lm rm]|].
  - destruct (rm <=? lbp o)%Z eqn:Hc; cbn [wrap]; [split; reflexivity|].
    rewrite minp_ptern, Ht. split; [reflexivity|]. apply forallb_forall. intros x Hx.
    destruct M as (_ & _ & A). specialize (A x Hx). apply Z.ltb_lt. apply Z.leb_gt in Hc. lia.
  - cbn [wrap]. rewrite minp_ptern, Ht. split; [reflexivity|].
    rewrite (proj1 (not_pbin_spines (minp l) ltac:(rewrite minp_pbin; exact M))). reflexivity.
Qed.
Lemma wrap_right_ok o r :
  negb (is_ptern (wrap (rparen r o) (minp r))) = true /\ forallb (fun y => (rbp o <? lbp y)%Z) (plspine (wrap (rparen r o) (minp r))) = true.
Proof.
  pose proof (mins_spec r) as M. unfold Etoks.rparen, right_paren.
  destruct (is_ternary r) eqn:Ht; cbn [orb wrap]; [split; reflexivity|].
  destruct (mins tbl r) as [[lm rm]|].
  - destruct (lm <=? rbp o)%Z eqn:Hc; cbn [wrap]; [split; reflexivity|].
    rewrite minp_ptern, Ht. split; [reflexivity|]. apply forallb_forall. intros y Hy.
    destruct M as (_ & A & _). specialize (A y Hy). apply Z.ltb_lt. apply Z.leb_gt in Hc. lia.
  - cbn [wrap]. rewrite minp_ptern, Ht. split; [reflexivity|].
    rewrite (proj2 (not_pbin_spines (minp r) ltac:(rewrite minp_pbin; exact M))). reflexivity.
Qed.

Fixpoint minpl (l : list ast) : list ptree := match l with [] => [] | x :: r => minp x :: minpl r end.
Fixpoint minpm (l : list (ast * ast)) : list (ptree * ptree) := match l with [] => [] | (k, v) :: r => (minp k, minp v) :: minpm r end.
Lemma minp_func n args : minp (AFunc n args) = PFunc n (minpl args). Proof. reflexivity. Qed.
Lemma minp_list es : minp (AList es) = PList (minpl es). Proof. reflexivity. Qed.
Lemma minp_map kvs : minp (AMap kvs) = PMap (minpm kvs). Proof. reflexivity. Qed.

Lemma ppform_wrap e : ppform (wrap (is_ternary e || is_infix_like e) (minp e)) = true.
Proof.
  destruct (is_ternary e || is_infix_like e) eqn:H; cbn [wrap]; [reflexivity|].
  apply orb_false_iff in H as [H1 H2]. unfold ppform. rewrite minp_pbin, minp_ptern, H1, H2. reflexivity.
Qed.

Lemma minp_sound : forall n t, (size t < n)%nat -> wf t = true -> wfp (minp t) = true /\ strip (minp t) = t.
Proof.
  induction n as [|n IH]; intros t Hs W; [lia|].
  destruct (is_infix_like t) eqn:Hil.
  - destruct (infix_like_inv t Hil) as (nt & o & l & r & ->).
    destruct (size_mk nt o l r) as [S1 S2]. destruct (wf_mk tbl nt o l r W) as (Po & Wl & Wr).
    destruct (IH l ltac:(lia) Wl) as [A1 A2]. destruct (IH r ltac:(lia) Wr) as [B1 B2].
    rewrite minp_node. cbn [PrattParen.wfp strip]. rewrite !strip_wrap, !wfp_wrap, A1, A2, B1, B2, Po.
    destruct (wrap_left_ok o l) as [L1 L2]. destruct (wrap_right_ok o r) as [R1 R2].
    rewrite L1, L2, R1, R2. split; reflexivity.
  - destruct t as [lit|op rhs|op l r|lhs op|c a b|nm|nm args|es|kvs|es|]; try discriminate W; try discriminate Hil.
    + split; reflexivity.
    + (* prefix operator *)
      assert (PW : prefixb tbl op = true /\ wf rhs = true).
      { cbn [Etoks.wf] in W. destruct rhs; try (apply andb_prop in W; exact W).
        unfold is_infix_like, infix_like in Hil. destruct (str_eqb op s_not); [discriminate Hil | apply andb_prop in W; exact W]. }
      destruct PW as [Pp Wr]. destruct (IH rhs ltac:(cbn [size] in Hs; lia) Wr) as [A1 A2].
      assert (M : minp (AUnary op rhs) = PUn op (wrap (is_ternary rhs || is_infix_like rhs) (minp rhs))).
      { cbn [Etoks.minp]. destruct rhs; try reflexivity.
        unfold is_infix_like, infix_like in Hil. destruct (str_eqb op s_not); [discriminate Hil | reflexivity]. }
      rewrite M. cbn [PrattParen.wfp strip]. rewrite strip_wrap, wfp_wrap, A1, A2, Pp, ppform_wrap. split; reflexivity.
    + (* postfix operator *)
      cbn [Etoks.wf] in W. apply andb_prop in W as [Po We].
      destruct (IH lhs ltac:(cbn [size] in Hs; lia) We) as [A1 A2].
      cbn [Etoks.minp PrattParen.wfp strip]. rewrite strip_wrap, wfp_wrap, A1, A2, Po.
      assert (F : ppform (wrap (postfix_needs_paren lhs) (minp lhs)) = true /\ is_pun (wrap (postfix_needs_paren lhs) (minp lhs)) = false).
      { destruct (postfix_needs_paren lhs) eqn:Hp; cbn [wrap]; [split; reflexivity|].
        unfold ppform. rewrite minp_pbin, minp_ptern.
        destruct lhs; try discriminate Hp; cbn in *; try (split; reflexivity); rewrite Hp; split; reflexivity. }
      destruct F as [F1 F2]. rewrite F1, F2. split; reflexivity.
    + (* conditional *)
      cbn [Etoks.wf] in W. apply andb_prop in W as [W Wb]. apply andb_prop in W as [Wc Wa]. cbn [size] in Hs.
      destruct (IH c ltac:(lia) Wc) as [C1 C2]. destruct (IH a ltac:(lia) Wa) as [A1 A2]. destruct (IH b ltac:(lia) Wb) as [B1 B2].
      cbn [Etoks.minp PrattParen.wfp strip]. rewrite strip_wrap, wfp_wrap, C1, C2, A1, A2, B1, B2.
      assert (F : is_ptern (wrap (is_ternary c) (minp c)) = false).
      { destruct (is_ternary c) eqn:Hc; cbn [wrap]; [reflexivity | rewrite minp_ptern; exact Hc]. }
      rewrite F. split; reflexivity.
    + split; reflexivity.
    + (* call *)
      rewrite minp_func, wfp_func, strip_func. rewrite wf_func in W. rewrite size_func in Hs.
      assert (G : wfpl tbl (minpl args) = true /\ stripl (minpl args) = args).
      { revert Hs W. clear -IH. induction args as [|x r IHr]; cbn [sizel wfl minpl wfpl stripl]; intros Hs W; [split; reflexivity|].
        apply andb_prop in W as [Wx Wr]. destruct (IH x ltac:(lia) Wx) as [X1 X2]. destruct (IHr ltac:(lia) Wr) as [R1 R2].
        rewrite X1, X2, R1, R2. split; reflexivity. }
      destruct G as [G1 G2]. rewrite G1, G2. split; reflexivity.
    + (* list *)
      rewrite minp_list, wfp_list, strip_list. rewrite wf_list in W. rewrite size_list in Hs.
      assert (G : wfpl tbl (minpl es) = true /\ stripl (minpl es) = es).
      { revert Hs W. clear -IH. induction es as [|x r IHr]; cbn [sizel wfl minpl wfpl stripl]; intros Hs W; [split; reflexivity|].
        apply andb_prop in W as [Wx Wr]. destruct (IH x ltac:(lia) Wx) as [X1 X2]. destruct (IHr ltac:(lia) Wr) as [R1 R2].
        rewrite X1, X2, R1, R2. split; reflexivity. }
      destruct G as [G1 G2]. rewrite G1, G2. split; reflexivity.
    + (* map *)
      rewrite minp_map, wfp_map, strip_map. rewrite wf_map in W. rewrite size_map in Hs.
      assert (G : wfpm tbl (minpm kvs) = true /\ stripm (minpm kvs) = kvs).
      { revert Hs W. clear -IH. induction kvs as [|[k v] r IHr]; cbn [sizem wfm minpm wfpm stripm]; intros Hs W; [split; reflexivity|].
        apply andb_prop in W as [W Wr]. apply andb_prop in W as [Wk Wv].
        destruct (IH k ltac:(lia) Wk) as [K1 K2]. destruct (IH v ltac:(lia) Wv) as [V1 V2]. destruct (IHr ltac:(lia) Wr) as [R1 R2].
        rewrite K1, K2, V1, V2, R1, R2. split; reflexivity. }
      destruct G as [G1 G2]. rewrite G1, G2. split; reflexivity.
Qed.

Lemma minp_wfp t : wf t = true -> wfp (minp t) = true.
Proof. intros W. exact (proj1 (minp_sound (S (size t)) t ltac:(lia) W)). Qed.
Lemma minp_strip t : wf t = true -> strip (minp t) = t.
Proof. intros W. exact (proj2 (minp_sound (S (size t)) t ltac:(lia) W)). Qed.

Lemma etoks_toks t : wf t = true -> Etoks.etoks tbl t = toks (minp t).
Proof. reflexivity. Qed.

(* the printer's token image, node by node (the shapes Lemmas/LexPrintExpr.v follows) *)
Notation etoks := (Etoks.etoks tbl).
Definition xrtoks (r : ast) (o : str) : list token := ptoks (negb (Etoks.rbare tbl r o)) (etoks r).
Fixpoint xsep_toks (l : list ast) : list token :=
  match l with [] => [] | x :: r => match r with [] => etoks x | _ => etoks x ++ TComma :: xsep_toks r end end.
Fixpoint xsep_map (l : list (ast * ast)) : list token :=
  match l with
  | [] => []
  | (k, v) :: r => match r with
                   | [] => etoks k ++ TOp s_colon :: etoks v
                   | _ => etoks k ++ TOp s_colon :: etoks v ++ TComma :: xsep_map r
                   end
  end.
Lemma psep_minpl l : psep (minpl l) = xsep_toks l.
Proof. induction l as [|x r IH]; [reflexivity|]. cbn [minpl psep xsep_toks]. destruct r; [reflexivity|]. rewrite <- IH. reflexivity. Qed.
Lemma psepm_minpm l : psepm (minpm l) = xsep_map l.
Proof.
  induction l as [|[k v] r IH]; [reflexivity|]. cbn [minpm psepm xsep_map]. destruct r as [|[k2 v2] r']; [reflexivity|].
  rewrite <- IH. reflexivity.
Qed.
Lemma xetoks_mk nt o l r :
  etoks (mk nt o l r) = ptoks (negb (Etoks.lbare tbl l o)) (etoks l) ++ optoks nt o ++ xrtoks r o.
Proof.
  unfold Etoks.etoks, xrtoks, Etoks.lbare, Etoks.rbare. rewrite minp_node. cbn [toks]. rewrite !toks_wrap, !negb_involutive. reflexivity.
Qed.
Lemma xetoks_unary n e : is_infix_like (AUnary n e) = false ->
  etoks (AUnary n e) = TOp n :: ptoks (is_ternary e || is_infix_like e) (etoks e).
Proof.
  intros H. unfold Etoks.etoks.
  assert (M : minp (AUnary n e) = PUn n (wrap (is_ternary e || is_infix_like e) (minp e))).
  { cbn [Etoks.minp]. destruct e; try reflexivity.
    unfold is_infix_like, infix_like in H. destruct (str_eqb n s_not); [discriminate H | reflexivity]. }
  rewrite M. cbn [toks]. rewrite toks_wrap. reflexivity.
Qed.
Lemma xetoks_postfix e o : etoks (APostfix e o) = ptoks (postfix_needs_paren e) (etoks e) ++ [TOp o].
Proof. unfold Etoks.etoks. cbn [Etoks.minp toks]. rewrite toks_wrap. reflexivity. Qed.
Lemma xetoks_ternary c a b :
  etoks (ATernary c a b) = ptoks (is_ternary c) (etoks c) ++ TOp s_qmark :: etoks a ++ TOp s_colon :: etoks b.
Proof. unfold Etoks.etoks. cbn [Etoks.minp toks]. rewrite toks_wrap. reflexivity. Qed.
Lemma xetoks_func n args : etoks (AFunc n args) = TFunc n :: TDelim DLParen :: xsep_toks args ++ [TDelim DRParen].
Proof. unfold Etoks.etoks. rewrite minp_func, toks_func, psep_minpl. reflexivity. Qed.
Lemma xetoks_list es : etoks (AList es) = TDelim DLBrack :: xsep_toks es ++ [TDelim DRBrack].
Proof. unfold Etoks.etoks. rewrite minp_list, toks_list, psep_minpl. reflexivity. Qed.
Lemma xetoks_map kvs : etoks (AMap kvs) = TDelim DLBrace :: xsep_map kvs ++ [TDelim DRBrace].
Proof. unfold Etoks.etoks. rewrite minp_map, toks_map, psepm_minpm. reflexivity. Qed.

Lemma good_minp t d : wf t = true -> hgt t -> room tbl d t -> wfp (minp t) = true /\ phgt (minp t) /\ proom d (minp t).
Proof.
  intros W Hh Hr. split; [apply minp_wfp; exact W|]. split.
  - unfold phgt. rewrite (minp_strip t W). exact Hh.
  - exact Hr.
Qed.

(* parsing what the printer writes gives the tree back *)
Theorem parse_etoks : forall t, wf t = true -> hgt t -> room tbl 0 t ->
  parse_tokens tbl TmEof (Etoks.etoks tbl t) = Ok t.
Proof.
  intros t W Hh Hr. destruct (good_minp t 0 W Hh Hr) as (Wp & Hp & Rp).
  unfold Etoks.etoks. rewrite (parse_toks tbl TOK (minp t) Wp Hp Rp). rewrite (minp_strip t W). reflexivity.
Qed.

(* programs: e1 ; e2 ; ... ; en *)
Lemma stmts_ok : forall es, es <> [] ->
  (forall x, In x es -> wf x = true /\ hgt x /\ room tbl 0 x) ->
  forall acc, exists f, parse_stmt_loop tbl TmEof f (stoks tbl es) acc = Ok (rev acc ++ es).
Proof.
  induction es as [|x r IH]; intros Hne HG acc; [contradiction|].
  destruct (HG x (or_introl eq_refl)) as (Wx & Hx & Rx).
  destruct (good_minp x 0 Wx Hx Rx) as (Wp & Hp & Rp).
  destruct (toks_head tbl (S (psize (minp x))) (minp x) ltac:(lia) Wp) as (t0 & ts & Eu & _).
  destruct (pmain tbl TOK (S (psize (minp x))) (minp x) ltac:(lia) Wp) as [Ex _].
  pose proof (etoks_toks x Wx) as ET. pose proof (minp_strip x Wx) as ST.
  destruct r as [|y r'].
  - destruct (Ex 0 [] I I Hp Rp) as [f Hf]. rewrite app_nil_r, ST in Hf. exists (S (S f)).
    cbn [stoks]. rewrite ET. rewrite Eu at 1. cbn [parse_stmt_loop]. rewrite <- Eu.
    rewrite (mono_expression tbl TmEof f (S f) _ _ _ ltac:(lia) Hf). cbn [bind parse_stmt_loop].
    rewrite rev'_cons, rev'_rev. reflexivity.
  - destruct (Ex 0 (TSemi :: stoks tbl (y :: r')) I I Hp Rp) as [f1 Hf1]. rewrite ST in Hf1.
    destruct (IH ltac:(discriminate) (fun z Hz => HG z (or_intror Hz)) (x :: acc)) as [f2 Hf2].
    remember (f1 + f2)%nat as F eqn:HF. exists (S F).
    change (stoks tbl (x :: y :: r')) with (Etoks.etoks tbl x ++ TSemi :: stoks tbl (y :: r')). rewrite ET.
    rewrite Eu at 1. cbn [app parse_stmt_loop].
    change (t0 :: ts ++ TSemi :: stoks tbl (y :: r')) with ((t0 :: ts) ++ TSemi :: stoks tbl (y :: r')). rewrite <- Eu.
    rewrite (mono_expression tbl TmEof f1 F _ _ _ ltac:(lia) Hf1). cbn [bind].
    assert (A : advance TmEof (TSemi :: stoks tbl (y :: r')) = Ok (stoks tbl (y :: r'))) by apply advance_eof.
    rewrite A. cbn [bind].
    assert (M : parse_stmt_loop tbl TmEof F (stoks tbl (y :: r')) (x :: acc) = Ok (rev (x :: acc) ++ y :: r')).
    { rewrite <- Hf2. apply (mono_gen (fun f => parse_stmt_loop tbl TmEof f (stoks tbl (y :: r')) (x :: acc)));
        [intros g; apply sim_stmt_loop | lia | rewrite Hf2; discriminate]. }
    rewrite M. cbn [rev]. rewrite <- app_assoc. reflexivity.
Qed.

Theorem parse_stoks : forall es, (2 <= length es)%nat ->
  (forall x, In x es -> wf x = true /\ hgt x /\ room tbl 0 x) ->
  parse_tokens tbl TmEof (stoks tbl es) = Ok (AStmt es).
Proof.
  intros es Hlen HG.
  destruct (stmts_ok es ltac:(destruct es; [cbn in Hlen; lia | discriminate]) HG []) as [f Hf]. cbn [rev app] in Hf.
  assert (Hne : stoks tbl es <> []).
  { destruct es as [|x r]; [cbn in Hlen; lia|]. destruct (HG x (or_introl eq_refl)) as (Wx & _).
    destruct (toks_head tbl (S (psize (minp x))) (minp x) ltac:(lia) (minp_wfp x Wx)) as (t0 & ts & Eu & _).
    cbn [stoks]. rewrite (etoks_toks x Wx). destruct r; rewrite Eu; discriminate. }
  unfold parse_tokens. destruct (stoks tbl es) as [|t0 ts] eqn:Es; [contradiction|]. rewrite <- Es in *.
  assert (M : parse_stmt_loop tbl TmEof (parse_fuel (stoks tbl es)) (stoks tbl es) [] = Ok es).
  { pose proof (nf_stmt_loop tbl TmEof ltac:(discriminate) (parse_fuel (stoks tbl es)) (stoks tbl es) [] ltac:(unfold parse_fuel; lia)) as NF.
    unfold nf in NF. destruct (Nat.le_ge_cases f (parse_fuel (stoks tbl es))) as [Hle|Hle].
    - rewrite <- Hf. apply (mono_gen (fun g => parse_stmt_loop tbl TmEof g (stoks tbl es) []));
        [intros g; apply sim_stmt_loop | exact Hle | rewrite Hf; discriminate].
    - rewrite <- Hf. symmetry. apply (mono_gen (fun g => parse_stmt_loop tbl TmEof g (stoks tbl es) []));
        [intros g; apply sim_stmt_loop | exact Hle | exact NF]. }
  rewrite M. cbn [bind]. destruct es as [|a [|b r]]; cbn in Hlen; try lia. reflexivity.
Qed.
End RT2.

(** From tokens to text: two computable checks make the theorem speak about strings.
    [premises] are the hypotheses of [parse_etoks]; [printer_tokens] says that the tokenizer model turns the printer model's
    text for [t] into exactly [etoks t] (proved for every lexically sane tree in Lemmas/LexPrintExpr.v). The correspondence run
    evaluates both on every tree it meets. *)
Lemma premises1_ok tbl t : premises1 tbl t = true -> Etoks.wf tbl t = true /\ hgt t /\ room tbl 0 t.
Proof.
  unfold premises1. intros H. apply andb_prop in H as [H H3]. apply andb_prop in H as [H1 H2].
  split; [exact H1|]. split; [unfold hgt; apply N.leb_le; exact H2 | unfold room; apply N.leb_le in H3; lia].
Qed.

Theorem top_round_trip : forall tbl t, premises tbl t = true -> parse_tokens tbl TmEof (top_toks tbl t) = Ok t.
Proof.
  intros tbl t H. unfold premises in H. apply andb_prop in H as [HT H]. apply tbl_okb_ok in HT.
  destruct t; try (apply premises1_ok in H; destruct H as (W & Hh & Hr); exact (parse_etoks tbl HT _ W Hh Hr)).
  apply andb_prop in H as [Hl Hf]. apply Nat.leb_le in Hl. cbn [top_toks].
  apply parse_stoks; [exact HT | exact Hl|]. intros x Hx. apply premises1_ok. exact (proj1 (forallb_forall _ _) Hf x Hx).
Qed.

Theorem text_round_trip : forall tbl t, premises tbl t = true -> printer_tokens tbl t = true ->
  api_parse tbl (expr tbl t) = Ok t.
Proof.
  intros tbl t HP HK. unfold printer_tokens in HK. unfold api_parse.
  destruct (lex tbl (expr tbl t)) as [sts tm]. destruct tm; try discriminate HK.
  apply toks_eqb_eq in HK. rewrite HK. apply top_round_trip. exact HP.
Qed.
