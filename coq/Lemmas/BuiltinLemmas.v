(** The built-in handlers: typing, faults, two's-complement wrap. *)
From EE Require Import Chars OpTable Decimal Ast Value Names.
Open Scope N_scope.

Definition is_num (v : value) : bool := match v with VNum _ => true | _ => false end.
Definition is_boolv (v : value) : bool := match v with VBool _ => true | _ => false end.
Definition is_strv (v : value) : bool := match v with VStr _ => true | _ => false end.
Definition is_listv (v : value) : bool := match v with VList _ => true | _ => false end.

(* name dispatch: each built-in operator name selects exactly its handler (computed, for arbitrary operands) *)
Lemma dispatch_arith a b :
  builtin_infix n_add a b = Some (num2 OpAdd a b) /\ builtin_infix n_sub a b = Some (num2 OpSub a b) /\
  builtin_infix n_mul a b = Some (num2 OpMul a b) /\ builtin_infix n_div a b = Some (num2 OpDiv a b) /\
  builtin_infix n_rem a b = Some (num2 OpRem a b) /\
  builtin_infix n_adda a b = Some (num2 OpAdd a b) /\ builtin_infix n_suba a b = Some (num2 OpSub a b) /\
  builtin_infix n_mula a b = Some (num2 OpMul a b) /\ builtin_infix n_diva a b = Some (num2 OpDiv a b) /\
  builtin_infix n_rema a b = Some (num2 OpRem a b).
Proof. repeat split; reflexivity. Qed.
Lemma dispatch_bits a b :
  builtin_infix n_bor a b = Some (int2 OpOr a b) /\ builtin_infix n_bxor a b = Some (int2 OpXor a b) /\
  builtin_infix n_band a b = Some (int2 OpAnd a b) /\ builtin_infix n_shl a b = Some (int2 OpShl a b) /\
  builtin_infix n_shr a b = Some (int2 OpShr a b) /\
  builtin_infix n_ora a b = Some (int2 OpOr a b) /\ builtin_infix n_xora a b = Some (int2 OpXor a b) /\
  builtin_infix n_anda a b = Some (int2 OpAnd a b) /\ builtin_infix n_shla a b = Some (int2 OpShl a b) /\
  builtin_infix n_shra a b = Some (int2 OpShr a b).
Proof. repeat split; reflexivity. Qed.
Lemma dispatch_rest a b :
  builtin_infix n_lor a b = Some (bool2 orb a b) /\ builtin_infix n_land a b = Some (bool2 andb a b) /\
  builtin_infix n_lt a b = Some (cmp2 dec_ltb a b) /\ builtin_infix n_le a b = Some (cmp2 dec_leb a b) /\
  builtin_infix n_gt a b = Some (cmp2 (fun x y => dec_ltb y x) a b) /\ builtin_infix n_ge a b = Some (cmp2 (fun x y => dec_leb y x) a b) /\
  builtin_infix n_eq a b = Some (AVal (VBool (value_eqb a b)) false) /\
  builtin_infix n_ne a b = Some (AVal (VBool (negb (value_eqb a b))) false) /\
  builtin_infix n_assign a b = Some (AVal b false).
Proof. repeat split; reflexivity. Qed.

(* typing: a wrongly typed operand is an error, never a coerced value *)
Lemma num2_typed o a b : is_num a && is_num b = false -> num2 o a b = AErr.
Proof. destruct a, b; cbn; intros H; try discriminate; reflexivity. Qed.
Lemma num2_ok_typed o a b v i : num2 o a b = AVal v i -> is_num a && is_num b = true.
Proof. destruct a, b; cbn; intros H; try discriminate; reflexivity. Qed.
Lemma int2_typed o a b : is_num a && is_num b = false -> int2 o a b = AErr.
Proof.
  destruct a, b; cbn [is_num andb]; intros H; try discriminate; unfold int2, v_integer, lift;
    try reflexivity; destruct (dec_to_i64 d); reflexivity.
Qed.
Lemma cmp2_typed f a b : is_num a && is_num b = false -> cmp2 f a b = AErr.
Proof. destruct a, b; cbn; intros H; try discriminate; reflexivity. Qed.
Lemma bool2_typed f a b : is_boolv a && is_boolv b = false -> bool2 f a b = AErr.
Proof. destruct a, b; cbn; intros H; try discriminate; reflexivity. Qed.
Lemma bool2_ok f x y : bool2 f (VBool x) (VBool y) = AVal (VBool (f x y)) false.
Proof. reflexivity. Qed.
Lemma string_ops_typed a b :
  is_strv a && is_strv b = false -> builtin_infix n_begin a b = Some AErr /\ builtin_infix n_end a b = Some AErr.
Proof. destruct a, b; cbn; intros H; try discriminate; split; reflexivity. Qed.
Lemma in_typed a b : is_listv b = false -> builtin_infix n_in a b = Some AErr.
Proof. destruct b; cbn; intros H; try discriminate; reflexivity. Qed.
Lemma in_spec a l : builtin_infix n_in a (VList l) = Some (AVal (VBool (existsb (fun item => value_eqb item a) l)) false).
Proof. reflexivity. Qed.

(* faults *)
Lemma div_by_zero a b : is_zero b = true ->
  checked_decimal_op OpDiv a b = AErr /\ checked_decimal_op OpRem a b = AErr.
Proof. intros H. unfold checked_decimal_op, dec_div, dec_rem. rewrite H. split; reflexivity. Qed.
Lemma overflow_is_err o a b :
  (match o with OpAdd => dec_add a b | OpSub => dec_sub a b | OpMul => dec_mul a b | OpDiv => dec_div a b | OpRem => dec_rem a b end) = DOverflow ->
  checked_decimal_op o a b = AErr.
Proof. destruct o; cbn; intros ->; reflexivity. Qed.
Lemma shift_count_checked a b : (b < 0 \/ 63 < b)%Z ->
  checked_integer_op OpShl a b = Err /\ checked_integer_op OpShr a b = Err.
Proof.
  intros H. unfold checked_integer_op.
  destruct (Z.ltb_spec b 0), (Z.ltb_spec 63 b); cbn; split; try reflexivity; lia.
Qed.
Lemma non_integral_operand_err o d b : dec_to_i64 d = None -> int2 o (VNum d) b = AErr /\ int2 o b (VNum d) = AErr.
Proof.
  intros H. split; unfold int2, v_integer; cbn.
  - rewrite H. reflexivity.
  - destruct b; cbn; try reflexivity. destruct (dec_to_i64 d0); cbn; [rewrite H|]; reflexivity.
Qed.
Lemma empty_aggregates :
  builtin_function n_min [] = Some AErr /\ builtin_function n_max [] = Some AErr /\
  builtin_function n_sum [] = Some (AVal (VNum dec_zero) false) /\ builtin_function n_mulf [] = Some (AVal (VNum dec_one) false) /\
  builtin_prefix n_AND (VList []) = Some (AVal (VBool true) false) /\ builtin_prefix n_OR (VList []) = Some (AVal (VBool false) false).
Proof. repeat split; reflexivity. Qed.

(* two's complement: the result of a bit operation is the 64-bit wrap of the mathematical result, and is an i64 *)
Lemma wrap64_range z : (i64_min <= wrap64 z <= i64_max)%Z.
Proof.
  unfold wrap64, i64_min, i64_max.
  pose proof (Z.mod_pos_bound z 18446744073709551616 ltac:(lia)) as H.
  destruct (Z.ltb_spec (z mod 18446744073709551616) 9223372036854775808); lia.
Qed.
Lemma wrap64_congr z : (wrap64 z mod 18446744073709551616 = z mod 18446744073709551616)%Z.
Proof.
  unfold wrap64.
  destruct (Z.ltb_spec (z mod 18446744073709551616) 9223372036854775808).
  - apply Z.mod_mod. lia.
  - rewrite Zminus_mod, Z_mod_same_full, Z.sub_0_r, Z.mod_mod, Z.mod_mod; lia.
Qed.
Lemma wrap64_id z : (i64_min <= z <= i64_max)%Z -> wrap64 z = z.
Proof.
  unfold wrap64, i64_min, i64_max. intros H.
  destruct (Z.leb_spec 0 z).
  - rewrite Z.mod_small by lia. destruct (Z.ltb_spec z 9223372036854775808); lia.
  - replace (z mod 18446744073709551616)%Z with (z + 18446744073709551616)%Z.
    + destruct (Z.ltb_spec (z + 18446744073709551616) 9223372036854775808); lia.
    + symmetry. rewrite <- (Z.mod_small (z + 18446744073709551616) 18446744073709551616) by lia.
      rewrite <- (Z_mod_plus_full z 1 18446744073709551616). f_equal; try lia.
Qed.
