(** Redundant parentheses never change the parse - for every tree and every table.
    A [ptree] is a syntax tree with explicit parenthesis nodes; [toks p] writes it down, [strip p] forgets the parentheses.
    [wfp p] asks only for the parentheses the grammar needs (an operand that is a conditional is parenthesised; an infix operand
    whose spine - up to the next parenthesis - has an operator that would not bind first is parenthesised; the operand of a prefix
    or postfix operator is a primary); any further PParen node, around any subexpression, any number of times, is allowed.
    Theorem: parsing [toks p] gives [strip p]. Hence wrapping complete subexpressions of an accepted rendering in extra
    parentheses leaves the AST unchanged (C11), and parentheses override the default grouping (C02). *)
From EE Require Import Chars OpTable Decimal Token Lexer Ast Parser Printer Api Ptree Etoks Utf8 ParserFuel ParserMono ParserSteps PrattFull.
Open Scope N_scope.

Fixpoint psize (p : ptree) : nat :=
  match p with
  | PParen q => S (psize q)
  | PUn _ e => S (psize e)
  | PBin _ _ l r => S (psize l + psize r)
  | PPost e _ => S (psize e)
  | PTern c a b => S (psize c + psize a + psize b)
  | PFunc _ args => S ((fix go (l : list ptree) : nat := match l with [] => O | x :: r => (psize x + go r)%nat end) args)
  | PList es => S ((fix go (l : list ptree) : nat := match l with [] => O | x :: r => (psize x + go r)%nat end) es)
  | PMap kvs => S ((fix go (l : list (ptree * ptree)) : nat := match l with [] => O | (k, v) :: r => (psize k + psize v + go r)%nat end) kvs)
  | _ => 1%nat
  end.

Definition is_pbin (p : ptree) : bool := match p with PBin _ _ _ _ => true | _ => false end.
Definition is_ptern (p : ptree) : bool := match p with PTern _ _ _ => true | _ => false end.
Definition is_pun (p : ptree) : bool := match p with PUn _ _ => true | _ => false end.
Definition ppform (p : ptree) : bool := negb (is_pbin p) && negb (is_ptern p).

(* the spines as the parser sees them: they end at a parenthesis *)
Fixpoint prspine (p : ptree) : list str := match p with PBin _ o _ r => o :: prspine r | _ => [] end.
Fixpoint plspine (p : ptree) : list str := match p with PBin _ o l _ => o :: plspine l | _ => [] end.

Section PP.
Variable tbl : optable.
Hypothesis TOK : tbl_ok tbl.
Notation tm := TmEof.
Notation lbp o := (fst (binding_power tbl o)).
Notation rbp o := (snd (binding_power tbl o)).
Notation pexpr := (parse_expression tbl tm).
Notation pprim := (parse_primary tbl tm).
Notation ptoken := (parse_token tbl tm).
Notation pop := (parse_op tbl tm).
Notation ploop := (parse_op_loop tbl tm).
Notation ppost := (parse_postfixes tbl tm).
Notation plainb := (Etoks.plainb tbl).
Notation prefixb := (Etoks.prefixb tbl).
Notation kok := (PrattFull.kok tbl).
Notation stops := (PrattFull.stops tbl).
Notation klbp := (PrattFull.klbp tbl).

(* only the parentheses the grammar needs *)
Fixpoint wfp (p : ptree) : bool :=
  match p with
  | PLit _ | PRef _ => true
  | PParen q => wfp q
  | PUn n e => prefixb n && ppform e && wfp e
  | PBin _ o l r =>
      plainb o && negb (is_ptern l) && negb (is_ptern r) &&
      forallb (fun x => (lbp o <? rbp x)%Z) (prspine l) && forallb (fun y => (rbp o <? lbp y)%Z) (plspine r) &&
      wfp l && wfp r
  | PPost e o => is_postfix tbl o && ppform e && negb (is_pun e) && wfp e
  | PTern c a b => negb (is_ptern c) && wfp c && wfp a && wfp b
  | PFunc _ args => (fix go (l : list ptree) : bool := match l with [] => true | x :: r => wfp x && go r end) args
  | PList es => (fix go (l : list ptree) : bool := match l with [] => true | x :: r => wfp x && go r end) es
  | PMap kvs => (fix go (l : list (ptree * ptree)) : bool := match l with [] => true | (k, v) :: r => wfp k && wfp v && go r end) kvs
  end.

Definition phgt (p : ptree) : Prop := ast_height (strip p) <= MAX_DEPTH.
Definition proom (d : N) (p : ptree) : Prop := d + pneed p <= MAX_DEPTH.

Lemma pneed_pos p : 1 <= pneed p.
Proof. induction p; cbn [pneed]; lia. Qed.

Definition padm (z : Z) (p : ptree) : Prop := forall y, In y (plspine p) -> (z <= lbp y)%Z.
Definition pabsorb (p : ptree) (k : list token) : Prop := forall x, In x (prspine p) -> (klbp k < rbp x)%Z.

(* ---------- the invariants *)
Definition E (p : ptree) : Prop := forall d k, kok k -> stops 0 k -> phgt p -> proom d p ->
  exists f, pexpr f d (toks p ++ k) = Ok (strip p, k).
Definition P (p : ptree) : Prop := forall d k, kok k -> phgt p -> proom d p ->
  exists f, pprim f d (toks p ++ k) = Ok (strip p, k).
Definition Q (p : ptree) : Prop := forall d k, phgt p -> proom d p -> (is_pun p = true -> kok k) ->
  forall g res, ppost g (strip p) k = Ok res ->
  exists f, (ptoken f (d + 1) (toks p ++ k) >>= fun '(c, r) => ppost f c r) = Ok res.
Definition Loop (p : ptree) : Prop := forall z d k, padm z p -> pabsorb p k -> kok k -> phgt p -> proom d p ->
  exists h tl,
    (exists f, pprim f d (toks p ++ k) = Ok (h, tl ++ k)) /\
    (if is_pbin p then exists nt y tl', tl = optoks nt y ++ tl' /\ In y (plspine p) /\ plainb y = true else tl = []) /\
    forall g res, ploop g (d + 1 + pldepth p) z (strip p) k = Ok res -> exists f, ploop f (d + 1) z h (tl ++ k) = Ok res.
Definition All (p : ptree) : Prop := E p /\ (is_ptern p = false -> Loop p) /\ (ppform p = true -> Q p).

Lemma P_of_Q p : Q p -> P p.
Proof.
  intros HQ d k Hk Hh Hr. pose proof (pneed_pos p) as Hn. unfold proom in Hr.
  destruct (HQ d k Hh Hr (fun _ => Hk) 1%nat (strip p, k) (postfixes_none tbl 0 (strip p) k (kok_nopost tbl k Hk))) as [f Hf].
  exists (S f). rewrite parse_primary_eq. rewrite ltb_false_of_le by lia. exact Hf.
Qed.

Lemma Loop_of_P p : is_pbin p = false -> P p -> Loop p.
Proof.
  intros NI HP z d k _ _ Hk Hh Hr. exists (strip p), []. split; [apply HP; assumption|]. split; [rewrite NI; reflexivity|].
  intros g res Hg. exists g. change (pldepth p) with 0 in Hg.
  rewrite N.add_0_r in Hg. exact Hg.
Qed.

Lemma wfp_bin nt o l r : wfp (PBin nt o l r) = true ->
  plainb o = true /\ is_ptern l = false /\ is_ptern r = false /\
  (forall x, In x (prspine l) -> (lbp o < rbp x)%Z) /\ (forall y, In y (plspine r) -> (rbp o < lbp y)%Z) /\
  wfp l = true /\ wfp r = true.
Proof.
  cbn [wfp]. intros H.
  apply andb_prop in H as [H H7]. apply andb_prop in H as [H H6]. apply andb_prop in H as [H H5].
  apply andb_prop in H as [H H4]. apply andb_prop in H as [H H3]. apply andb_prop in H as [H1 H2].
  apply negb_true_iff in H2, H3. rewrite forallb_forall in H4, H5.
  repeat split; try assumption; intros x Hx; apply Z.ltb_lt; auto.
Qed.
Lemma phgt_bin nt o l r : phgt (PBin nt o l r) -> phgt l /\ phgt r.
Proof. unfold phgt. cbn [strip]. intros H. exact (hgt_mk nt o (strip l) (strip r) H). Qed.

Lemma o_step nt o l r :
  (forall q, (psize q < psize (PBin nt o l r))%nat -> wfp q = true -> All q) ->
  wfp (PBin nt o l r) = true ->
  forall z D k, padm z (PBin nt o l r) -> pabsorb (PBin nt o l r) k -> kok k -> phgt (PBin nt o l r) ->
  D + pneed r <= MAX_DEPTH ->
  forall g res, ploop g D z (strip (PBin nt o l r)) k = Ok res ->
  exists f, ploop f D z (strip l) (optoks nt o ++ toks r ++ k) = Ok res.
Proof.
  intros IH Hwf z D k Hadm Hsafe Hk Hh Hroom g res Hg.
  destruct (wfp_bin _ _ _ _ Hwf) as (Hpo & Htl & Htr & Hsl & Hsr & Hwl & Hwr).
  destruct (plainb_plain tbl o Hpo) as [Hplain Hpos]. pose proof (rbp_ge tbl o Hpos) as Hrpos.
  assert (Hp : (lbp o <? z)%Z = false). { apply zltb_false. apply Hadm. cbn [plspine]. left; reflexivity. }
  pose proof (pneed_pos r) as Hnr.
  assert (HD : (MAX_DEPTH <? D + 1) = false) by (apply ltb_false_of_le; lia).
  assert (HH : (MAX_DEPTH <? ast_height (mk nt o (strip l) (strip r))) = false) by (apply ltb_false_of_le; exact Hh).
  assert (Hgk : (klbp k < rbp o)%Z). { apply Hsafe. cbn [prspine]. left; reflexivity. }
  destruct (phgt_bin _ _ _ _ Hh) as [Hhl Hhr].
  destruct (IH r ltac:(cbn [psize]; lia) Hwr) as (Er & Lr & Qr).
  cbn [strip] in Hg.
  destruct (is_pbin r) eqn:Hil.
  - (* bare compound right operand *)
    assert (Hadm_r : padm (rbp o) r). { intros y Hy. apply Z.lt_le_incl. apply (Hsr y Hy). }
    assert (Hsafe_r : pabsorb r k). { intros x Hx. apply Hsafe. cbn [prspine]. right; exact Hx. }
    destruct (Lr Htr (rbp o) D k Hadm_r Hsafe_r Hk Hhr Hroom) as (h & tl & [f1 Hf1] & Hshape & Hloop).
    rewrite Hil in Hshape. destruct Hshape as (nt' & y & tl' & Htl' & Hy & Hpy).
    assert (Hstop : stops (rbp o) k).
    { destruct k as [|[] k']; cbn [PrattFull.stops]; auto. destruct (is_not s) eqn:N; [exact Hgk|].
      destruct (str_eqb s s_qmark); [lia|]. cbn [PrattFull.klbp] in Hgk. rewrite N in Hgk. exact Hgk. }
    destruct (Hloop 1%nat (strip r, k) (stops_ret tbl 0 _ _ _ _ Hk Hstop)) as [f2 Hf2].
    assert (Hgate : (rbp o < klbp (tl ++ k))%Z).
    { rewrite Htl', <- app_assoc, (klbp_optoks tbl) by exact Hpy. apply (Hsr y Hy). }
    remember (g + f1 + f2 + 1)%nat as F eqn:HF. exists (S F).
    rewrite (loop_fold_mk tbl nt F D z (strip l) o (toks r ++ k) h (tl ++ k) (strip r) k Hpo Hp); [| | | exact HD | exact HH].
    + eapply mono_loop; [|exact Hg]. lia.
    + eapply mono_primary; [|exact Hf1]. lia.
    + rewrite (gate_open tbl) by exact Hgate. destruct F as [|F']; [lia|]. rewrite parse_op_enter by exact HD.
      eapply mono_loop; [|exact Hf2]. lia.
  - (* a primary: taken whole by parse_primary *)
    assert (Hpf : ppform r = true) by (unfold ppform; rewrite Hil, Htr; reflexivity).
    destruct (P_of_Q r (Qr Hpf) D k Hk Hhr Hroom) as [f1 Hf1].
    remember (g + f1 + 1)%nat as F eqn:HF. exists (S F).
    rewrite (loop_fold_mk tbl nt F D z (strip l) o (toks r ++ k) (strip r) k (strip r) k Hpo Hp); [| | | exact HD | exact HH].
    + eapply mono_loop; [|exact Hg]. lia.
    + eapply mono_primary; [|exact Hf1]. lia.
    + apply (gate_closed tbl). exact Hgk.
Qed.

Lemma plspine_wf p : wfp p = true -> forall x, In x (plspine p) -> plainb x = true.
Proof.
  induction p; cbn [plspine]; intros W x Hx; try contradiction.
  destruct (wfp_bin _ _ _ _ W) as (Hpo & _ & _ & _ & _ & Wl & _). destruct Hx as [<-|Hx]; [exact Hpo | apply IHp1; assumption].
Qed.
Lemma prspine_wf p : wfp p = true -> forall x, In x (prspine p) -> plainb x = true.
Proof.
  induction p; cbn [prspine]; intros W x Hx; try contradiction.
  destruct (wfp_bin _ _ _ _ W) as (Hpo & _ & _ & _ & _ & _ & Wr). destruct Hx as [<-|Hx]; [exact Hpo | apply IHp2; assumption].
Qed.

Lemma E_of_Loop p : wfp p = true -> Loop p -> E p.
Proof.
  intros Hwf L d k Hk Hstop Hh Hroom.
  assert (Hadm : padm 0 p).
  { intros y Hy. destruct (plainb_plain tbl y (plspine_wf p Hwf y Hy)). lia. }
  assert (Hsafe : pabsorb p k).
  { intros x Hx. destruct (plainb_plain tbl x (prspine_wf p Hwf x Hx)) as [_ Hl]. pose proof (rbp_ge tbl x Hl).
    assert (Hkl : (klbp k < 1)%Z); [|lia].
    destruct k as [|[] k']; cbn [PrattFull.klbp]; try lia. cbn [PrattFull.stops] in Hstop.
    destruct (is_not s) eqn:N; [cbn [PrattFull.klbp] in Hstop; rewrite N in Hstop; lia|].
    destruct (str_eqb s s_qmark); lia. }
  destruct (L 0%Z d k Hadm Hsafe Hk Hh Hroom) as (h & tl & [f1 Hf1] & _ & Hloop).
  destruct (Hloop 1%nat (strip p, k) (stops_ret tbl 0 _ _ _ _ Hk Hstop)) as [f2 Hf2].
  remember (f1 + f2 + 1)%nat as F. exists (S (S F)). rewrite parse_expression_step.
  rewrite (mono_primary tbl tm f1 (S F) _ _ _ ltac:(lia) Hf1). cbn [bind].
  pose proof (pneed_pos p). unfold proom in Hroom.
  rewrite parse_op_enter by (apply ltb_false_of_le; lia).
  eapply mono_loop; [|exact Hf2]. lia.
Qed.

Lemma Loop_bin nt o l r :
  (forall q, (psize q < psize (PBin nt o l r))%nat -> wfp q = true -> All q) ->
  wfp (PBin nt o l r) = true -> Loop (PBin nt o l r).
Proof.
  intros IH Hwf. destruct (wfp_bin _ _ _ _ Hwf) as (Hpo & Htl & Htr & Hsl & Hsr & Hwl & Hwr).
  intros z d k Hadm Hsafe Hk Hh Hroom. destruct (phgt_bin _ _ _ _ Hh) as [Hhl Hhr].
  pose proof (pneed_pos r) as Hnr. pose proof (pneed_pos l) as Hnl.
  unfold proom in Hroom. cbn [pneed] in Hroom. cbn [is_pbin].
  set (k2 := optoks nt o ++ toks r ++ k).
  assert (Hk2 : kok k2) by (apply (kok_optoks tbl TOK); exact Hpo).
  destruct (IH l ltac:(cbn [psize]; lia) Hwl) as (_ & Ll & _).
  assert (Hadm_l : padm z l). { intros y Hy. apply Hadm. cbn [plspine]. right; exact Hy. }
  assert (Hsafe_l : pabsorb l k2).
  { intros x Hx. unfold k2. rewrite (klbp_optoks tbl) by exact Hpo. apply (Hsl x Hx). }
  assert (Hroom_l : proom d l) by (unfold proom; lia).
  destruct (Ll Htl z d k2 Hadm_l Hsafe_l Hk2 Hhl Hroom_l) as (h & tl & [f1 Hf1] & Hshape & Hloop).
  exists h, (tl ++ optoks nt o ++ toks r). split; [|split].
  - exists f1. cbn [toks]. rewrite <- !app_assoc. exact Hf1.
  - destruct (is_pbin l).
    + destruct Hshape as (nt' & y & tl' & -> & Hy & Hpy). exists nt', y, (tl' ++ optoks nt o ++ toks r).
      rewrite <- app_assoc. repeat split; [cbn [plspine]; right; exact Hy | exact Hpy].
    + subst tl. exists nt, o, (toks r). repeat split; [cbn [plspine]; left; reflexivity | exact Hpo].
  - intros g res Hg.
    destruct (o_step nt o l r IH Hwf z (d + 1 + pldepth l) k Hadm Hsafe Hk Hh ltac:(lia) g res Hg) as [f Hf].
    destruct (Hloop f res Hf) as [f' Hf']. exists f'. unfold k2 in Hf'. rewrite <- !app_assoc. exact Hf'.
Qed.

(* ---------- primaries *)
Lemma Q_lit l : Q (PLit l).
Proof.
  intros d k _ _ _ g res Hg. exists (S g). cbn [toks strip app] in *.
  destruct l; cbn [lit_tok parse_token]; rewrite advance_eof; cbn [bind]; (eapply (mono_postfixes tbl); [|exact Hg]; lia).
Qed.
Lemma Q_ref n : Q (PRef n).
Proof.
  intros d k _ _ _ g res Hg. exists (S g). cbn [toks strip app parse_token] in *. rewrite advance_eof. cbn [bind].
  eapply (mono_postfixes tbl); [|exact Hg]. lia.
Qed.

(* a parenthesised expression is a primary whose tree is the tree inside: this is where redundant parentheses disappear *)
Lemma Q_paren q : E q -> Q (PParen q).
Proof.
  intros Eq d k Hh Hr _ g res Hg. cbn [toks strip] in *. unfold proom in Hr. cbn [pneed] in Hr.
  destruct (Eq (d + 1) (TDelim DRParen :: k) I I Hh ltac:(unfold proom; lia)) as [f1 Hf1].
  remember (g + f1 + 1)%nat as F eqn:HF. exists (S F). unfold paren. cbn [app]. rewrite <- app_assoc. cbn [app].
  rewrite parse_token_paren_eq, advance_eof. cbn [bind]. unfold R in *.
  rewrite (mono_expression tbl tm f1 F _ _ _ ltac:(lia) Hf1). cbn [bind].
  assert (C: cur_is (TDelim DRParen :: k) s_rparen = true) by reflexivity. rewrite C.
  rewrite advance_eof. cbn [bind]. eapply (mono_postfixes tbl); [|exact Hg]. lia.
Qed.

Lemma Q_un n e : wfp (PUn n e) = true -> All e -> Q (PUn n e).
Proof.
  intros W (_ & _ & Qe) d k Hh Hr Hk g res Hg. specialize (Hk eq_refl).
  cbn [wfp] in W. apply andb_prop in W as [W We]. apply andb_prop in W as [Hpre Hpf].
  unfold Etoks.prefixb in Hpre. apply andb_prop in Hpre as [Hpre _].
  unfold proom in Hr. cbn [pneed] in Hr. cbn [toks strip] in *.
  assert (Hhe : phgt e) by (unfold phgt in *; cbn [strip ast_height] in Hh; lia).
  assert (HH : (MAX_DEPTH <? ast_height (AUnary n (strip e))) = false) by (apply ltb_false_of_le; exact Hh).
  destruct (P_of_Q e (Qe Hpf) (d + 1) k Hk Hhe ltac:(unfold proom; lia)) as [f1 Hf1].
  remember (g + f1 + 1)%nat as F eqn:HF. exists (S F). cbn [app].
  rewrite parse_token_prefix_eq by exact Hpre. rewrite advance_eof. cbn [bind].
  unfold R in *. rewrite (mono_primary tbl tm f1 F _ _ _ ltac:(lia) Hf1). cbn [bind]. unfold built. rewrite HH. cbn [bind].
  eapply (mono_postfixes tbl); [|exact Hg]. lia.
Qed.

Lemma Q_post e o : wfp (PPost e o) = true -> All e -> Q (PPost e o).
Proof.
  intros W (_ & _ & Qe) d k Hh Hr _ g res Hg.
  cbn [wfp] in W. apply andb_prop in W as [W We]. apply andb_prop in W as [W Hnu]. apply andb_prop in W as [Hpo Hpf].
  apply negb_true_iff in Hnu.
  unfold proom in Hr. cbn [pneed] in Hr. cbn [toks strip] in *. rewrite <- app_assoc. cbn [app].
  assert (Hhe : phgt e) by (unfold phgt in *; cbn [strip ast_height] in Hh; lia).
  assert (HH : (MAX_DEPTH <? ast_height (APostfix (strip e) o)) = false) by (apply ltb_false_of_le; exact Hh).
  assert (Hstep : ppost (S g) (strip e) (TOp o :: k) = Ok res).
  { rewrite postfixes_step by exact Hpo. unfold built. rewrite HH. cbn [bind]. exact Hg. }
  apply (Qe Hpf d (TOp o :: k) Hhe Hr ltac:(rewrite Hnu; discriminate) (S g) res Hstep).
Qed.

(* ---------- the conditional *)
Lemma E_tern c a b : All c -> All a -> All b -> wfp (PTern c a b) = true -> E (PTern c a b).
Proof.
  intros (_ & Lc & _) (Ea & _) (Eb & _) Hwf d k Hk Hstop Hh Hroom.
  cbn [wfp] in Hwf. apply andb_prop in Hwf as [Hwf Hwb]. apply andb_prop in Hwf as [Hwf Hwa]. apply andb_prop in Hwf as [Htc Hwc].
  apply negb_true_iff in Htc.
  destruct TOK as (PQ & PC & PN & IQ & IC).
  set (ka := TOp s_colon :: toks b ++ k). set (kc := TOp s_qmark :: toks a ++ ka).
  assert (Hhc : phgt c) by (unfold phgt in *; cbn [strip ast_height] in Hh; lia).
  assert (Hha : phgt a) by (unfold phgt in *; cbn [strip ast_height] in Hh; lia).
  assert (Hhb : phgt b) by (unfold phgt in *; cbn [strip ast_height] in Hh; lia).
  assert (HH : (MAX_DEPTH <? ast_height (ATernary (strip c) (strip a) (strip b))) = false) by (apply ltb_false_of_le; exact Hh).
  unfold proom in Hroom. cbn [pneed] in Hroom.
  pose proof (pneed_pos c) as Hnc. pose proof (pneed_pos a) as Hna. pose proof (pneed_pos b) as Hnb.
  assert (Hka : kok ka) by apply (kok_colon tbl TOK).
  assert (Hsa : stops 0 ka) by apply (stops_colon tbl TOK).
  assert (Hkc : kok kc). { cbn [kc PrattFull.kok]. split; [exact PQ|]. intros N. vm_compute in N. discriminate N. }
  assert (Hcont : forall D', D' + 1 + N.max (pneed a) (pneed b) <= MAX_DEPTH ->
            exists g, ploop g D' 0 (strip c) kc = Ok (ATernary (strip c) (strip a) (strip b), k)).
  { intros D' HD'.
    destruct (Ea (D' + 1) ka Hka Hsa Hha ltac:(unfold proom; lia)) as [fa Hfa].
    destruct (Eb (D' + 1) k Hk Hstop Hhb ltac:(unfold proom; lia)) as [fb Hfb].
    remember (fa + fb)%nat as F eqn:HF. exists (S F). unfold kc.
    rewrite loop_question_outer by (apply ltb_false_of_le; lia). unfold R in *.
    rewrite (mono_expression tbl tm fa F _ _ _ ltac:(lia) Hfa). cbn [bind]. unfold ka. rewrite expect_colon. cbn [bind].
    rewrite (mono_expression tbl tm fb F _ _ _ ltac:(lia) Hfb). cbn [bind]. unfold built. rewrite HH. reflexivity. }
  cbn [toks strip]. rewrite <- app_assoc. cbn [app]. rewrite <- app_assoc. cbn [app]. fold ka. fold kc.
  assert (Hadm : padm 0 c). { intros y Hy. destruct (plainb_plain tbl y (plspine_wf c Hwc y Hy)). lia. }
  assert (Hsafe : pabsorb c kc).
  { intros x Hx. destruct (plainb_plain tbl x (prspine_wf c Hwc x Hx)) as [_ Hl]. pose proof (rbp_ge tbl x Hl).
    cbn [kc PrattFull.klbp]. change (is_not s_qmark) with false. cbn iota. unfold binding_power at 1. rewrite IQ. cbn [fst]. lia. }
  destruct (Lc Htc 0%Z d kc Hadm Hsafe Hkc Hhc ltac:(unfold proom; lia)) as (h & tl & [f1 Hf1] & _ & Hloop).
  destruct (Hcont (d + 1 + pldepth c) ltac:(lia)) as [f2 Hf2].
  destruct (Hloop f2 _ Hf2) as [f3 Hf3].
  remember (f1 + f3 + 1)%nat as F eqn:HF. exists (S (S F)). rewrite parse_expression_step.
  rewrite (mono_primary tbl tm f1 (S F) _ _ _ ltac:(lia) Hf1). cbn [bind].
  rewrite parse_op_enter by (apply ltb_false_of_le; lia). eapply mono_loop; [|exact Hf3]. lia.
Qed.

(* ---------- calls, lists, maps *)
Fixpoint psep (l : list ptree) : list token :=
  match l with [] => [] | x :: r => match r with [] => toks x | _ => toks x ++ TComma :: psep r end end.
Fixpoint psepm (l : list (ptree * ptree)) : list token :=
  match l with
  | [] => []
  | (k, v) :: r => match r with
                   | [] => toks k ++ TOp s_colon :: toks v
                   | _ => toks k ++ TOp s_colon :: toks v ++ TComma :: psepm r
                   end
  end.
Fixpoint stripl (l : list ptree) : list ast := match l with [] => [] | x :: r => strip x :: stripl r end.
Fixpoint stripm (l : list (ptree * ptree)) : list (ast * ast) := match l with [] => [] | (k, v) :: r => (strip k, strip v) :: stripm r end.
Fixpoint wfpl (l : list ptree) : bool := match l with [] => true | x :: r => wfp x && wfpl r end.
Fixpoint wfpm (l : list (ptree * ptree)) : bool := match l with [] => true | (k, v) :: r => wfp k && wfp v && wfpm r end.
Fixpoint pneedl (l : list ptree) : N := match l with [] => 0 | x :: r => N.max (pneed x) (pneedl r) end.
Fixpoint pneedm (l : list (ptree * ptree)) : N := match l with [] => 0 | (k, v) :: r => N.max (N.max (pneed k) (pneed v)) (pneedm r) end.
Fixpoint psizel (l : list ptree) : nat := match l with [] => O | x :: r => (psize x + psizel r)%nat end.
Fixpoint psizem (l : list (ptree * ptree)) : nat := match l with [] => O | (k, v) :: r => (psize k + psize v + psizem r)%nat end.

Lemma toks_func n args : toks (PFunc n args) = TFunc n :: TDelim DLParen :: psep args ++ [TDelim DRParen]. Proof. reflexivity. Qed.
Lemma toks_list es : toks (PList es) = TDelim DLBrack :: psep es ++ [TDelim DRBrack]. Proof. reflexivity. Qed.
Lemma toks_map kvs : toks (PMap kvs) = TDelim DLBrace :: psepm kvs ++ [TDelim DRBrace]. Proof. reflexivity. Qed.
Lemma strip_func n args : strip (PFunc n args) = AFunc n (stripl args). Proof. reflexivity. Qed.
Lemma strip_list es : strip (PList es) = AList (stripl es). Proof. reflexivity. Qed.
Lemma strip_map kvs : strip (PMap kvs) = AMap (stripm kvs). Proof. reflexivity. Qed.
Lemma wfp_func n args : wfp (PFunc n args) = wfpl args. Proof. reflexivity. Qed.
Lemma wfp_list es : wfp (PList es) = wfpl es. Proof. reflexivity. Qed.
Lemma wfp_map kvs : wfp (PMap kvs) = wfpm kvs. Proof. reflexivity. Qed.
Lemma pneed_func n args : pneed (PFunc n args) = 1 + pneedl args. Proof. reflexivity. Qed.
Lemma pneed_list es : pneed (PList es) = 1 + pneedl es. Proof. reflexivity. Qed.
Lemma pneed_map kvs : pneed (PMap kvs) = 1 + pneedm kvs. Proof. reflexivity. Qed.
Lemma psize_func n args : psize (PFunc n args) = S (psizel args). Proof. reflexivity. Qed.
Lemma psize_list es : psize (PList es) = S (psizel es). Proof. reflexivity. Qed.
Lemma psize_map kvs : psize (PMap kvs) = S (psizem kvs). Proof. reflexivity. Qed.

Definition pgood (D : N) (x : ptree) : Prop := E x /\ wfp x = true /\ phgt x /\ proom D x.

Lemma in_plist_good D (l : list ptree) :
  (forall q, (psize q <= psizel l)%nat -> wfp q = true -> All q) -> wfpl l = true ->
  PrattFull.mxl (stripl l) <= MAX_DEPTH -> D + pneedl l <= MAX_DEPTH ->
  forall x, In x l -> pgood D x.
Proof.
  induction l as [|y r IH]; intros HA W Hm Hn x Hx; [contradiction|].
  cbn [wfpl stripl PrattFull.mxl pneedl psizel] in *. apply andb_prop in W as [Wy Wr]. destruct Hx as [<-|Hx].
  - split; [apply HA; [lia | exact Wy] | repeat split; [exact Wy | unfold phgt; lia | unfold proom; lia]].
  - apply IH; try assumption; try lia. intros q Hq Wq. apply HA; [lia | exact Wq].
Qed.
Lemma in_pmap_good D (l : list (ptree * ptree)) :
  (forall q, (psize q <= psizem l)%nat -> wfp q = true -> All q) -> wfpm l = true ->
  PrattFull.mxm (stripm l) <= MAX_DEPTH -> D + pneedm l <= MAX_DEPTH ->
  forall k v, In (k, v) l -> pgood D k /\ pgood D v.
Proof.
  induction l as [|[k0 v0] r IH]; intros HA W Hm Hn k v Hx; [contradiction|].
  cbn [wfpm stripm PrattFull.mxm pneedm psizem] in *. apply andb_prop in W as [W Wr]. apply andb_prop in W as [Wk Wv]. destruct Hx as [Hx|Hx].
  - inversion Hx; subst. split; (split; [apply HA; [lia | assumption] | repeat split; [assumption | unfold phgt; lia | unfold proom; lia]]).
  - apply IH; try assumption; try lia. intros q Hq Wq. apply HA; [lia | exact Wq].
Qed.

(* the first token of an expression is never a closing delimiter *)
Lemma toks_head : forall n p, (psize p < n)%nat -> wfp p = true -> exists t0 rest, toks p = t0 :: rest /\ opener t0.
Proof.
  induction n as [|n IH]; intros p Hs W; [lia|].
  destruct p; cbn [toks psize] in *.
  - eexists; eexists; split; [reflexivity|]. destruct l; repeat split; reflexivity.
  - eexists; eexists; split; [reflexivity | repeat split; reflexivity].
  - eexists; eexists; split; [reflexivity | repeat split; reflexivity].
  - cbn [wfp] in W. apply andb_prop in W as [W _]. apply andb_prop in W as [Hp _].
    eexists; eexists; split; [reflexivity|]. unfold Etoks.prefixb in Hp. apply andb_prop in Hp as [_ Hc].
    apply negb_true_iff in Hc. unfold closer in Hc. apply orb_false_elim in Hc as [Hc H3]. apply orb_false_elim in Hc as [H1 H2].
    repeat split; assumption.
  - destruct (wfp_bin _ _ _ _ W) as (_ & _ & _ & _ & _ & Wl & _).
    destruct (IH p1 ltac:(lia) Wl) as (t0 & rest & -> & Ho). eexists; eexists; split; [reflexivity | exact Ho].
  - cbn [wfp] in W. apply andb_prop in W as [_ We].
    destruct (IH p ltac:(lia) We) as (t0 & rest & -> & Ho). eexists; eexists; split; [reflexivity | exact Ho].
  - cbn [wfp] in W. apply andb_prop in W as [W _]. apply andb_prop in W as [W _]. apply andb_prop in W as [_ Wc].
    destruct (IH p1 ltac:(lia) Wc) as (t0 & rest & -> & Ho). eexists; eexists; split; [reflexivity | exact Ho].
  - eexists; eexists; split; [reflexivity | repeat split; reflexivity].
  - eexists; eexists; split; [reflexivity | repeat split; reflexivity].
  - eexists; eexists; split; [reflexivity | repeat split; reflexivity].
Qed.
Lemma psep_head x r X : wfp x = true -> exists t0 rest, psep (x :: r) ++ X = t0 :: rest /\ opener t0.
Proof.
  intros W. destruct (toks_head (S (psize x)) x ltac:(lia) W) as (t0 & rest & Ht & Ho).
  cbn [psep]. destruct r; rewrite Ht; eexists; eexists; (split; [reflexivity | exact Ho]).
Qed.
Lemma psepm_head k v r X : wfp k = true -> exists t0 rest, psepm ((k, v) :: r) ++ X = t0 :: rest /\ opener t0.
Proof.
  intros W. destruct (toks_head (S (psize k)) k ltac:(lia) W) as (t0 & rest & Ht & Ho).
  cbn [psepm]. destruct r; rewrite Ht; eexists; eexists; (split; [reflexivity | exact Ho]).
Qed.

Lemma pargs_ok D : forall args, args <> [] -> (forall x, In x args -> pgood D x) ->
  forall acc k, exists f, parse_args tbl tm f D (psep args ++ TDelim DRParen :: k) acc = Ok (rev acc ++ stripl args, k).
Proof.
  induction args as [|x r IH]; intros Hne HG acc k; [contradiction|].
  destruct (HG x (or_introl eq_refl)) as (Ex & Wx & Hx & Rx).
  destruct r as [|y r'].
  - destruct (Ex D (TDelim DRParen :: k) I I Hx Rx) as [f Hf]. exists (S f). cbn [psep stripl]. rewrite (parse_args_eq tbl).
    unfold R in *. rewrite Hf. cbn [bind]. assert (C: cur_is (TDelim DRParen :: k) s_rparen = true) by reflexivity. rewrite C.
    rewrite advance_eof. cbn [bind]. rewrite rev'_cons, rev'_rev. reflexivity.
  - destruct (Ex D (TComma :: psep (y :: r') ++ TDelim DRParen :: k) I I Hx Rx) as [f1 Hf1].
    destruct (IH ltac:(discriminate) (fun z Hz => HG z (or_intror Hz)) (strip x :: acc) k) as [f2 Hf2].
    remember (f1 + f2)%nat as F eqn:HF. exists (S F).
    change (psep (x :: y :: r')) with (toks x ++ TComma :: psep (y :: r')). rewrite <- app_assoc. cbn [app]. rewrite (parse_args_eq tbl).
    unfold R in *. rewrite (mono_expression tbl tm f1 F _ _ _ ltac:(lia) Hf1). cbn [bind].
    assert (C: cur_is (TComma :: psep (y :: r') ++ TDelim DRParen :: k) s_rparen = false) by reflexivity. rewrite C.
    rewrite expect_comma. cbn [bind].
    assert (M : parse_args tbl tm F D (psep (y :: r') ++ TDelim DRParen :: k) (strip x :: acc) = Ok (rev (strip x :: acc) ++ stripl (y :: r'), k)).
    { rewrite <- Hf2. apply (mono_gen (fun f => parse_args tbl tm f D (psep (y :: r') ++ TDelim DRParen :: k) (strip x :: acc)));
        [intros g; apply (proj1 (proj2 (proj2 (proj2 (parser_sim tbl tm g))))) | lia | rewrite Hf2; discriminate]. }
    rewrite M. cbn [rev stripl]. rewrite <- app_assoc. reflexivity.
Qed.

Lemma plist_ok D : forall es, (forall x, In x es -> pgood D x) ->
  forall acc k, exists f, parse_list tbl tm f D (psep es ++ TDelim DRBrack :: k) acc = Ok (rev acc ++ stripl es, k).
Proof.
  induction es as [|x r IH]; intros HG acc k.
  - exists 1%nat. cbn [psep app stripl]. rewrite (parse_list_cons tbl).
    assert (C: cur_is (TDelim DRBrack :: k) s_rbrack = true) by reflexivity. rewrite C.
    unfold expect. rewrite advance_eof. cbn [bind]. change (tok_is (TDelim DRBrack) s_rbrack) with true. cbn iota.
    rewrite rev'_rev, app_nil_r. reflexivity.
  - destruct (HG x (or_introl eq_refl)) as (Ex & Wx & Hx & Rx).
    destruct (psep_head x r (TDelim DRBrack :: k) Wx) as (t0 & rest & Hts & (_ & Hc & _)).
    destruct (IH (fun z Hz => HG z (or_intror Hz)) (strip x :: acc) k) as [f2 Hf2].
    assert (M : forall F, (f2 <= F)%nat -> parse_list tbl tm F D (psep r ++ TDelim DRBrack :: k) (strip x :: acc) = Ok (rev (strip x :: acc) ++ stripl r, k)).
    { intros F HF. rewrite <- Hf2. apply (mono_gen (fun f => parse_list tbl tm f D (psep r ++ TDelim DRBrack :: k) (strip x :: acc)));
        [intros g; apply (proj1 (proj2 (proj2 (proj2 (proj2 (parser_sim tbl tm g)))))) | exact HF | rewrite Hf2; discriminate]. }
    destruct r as [|y r'].
    + destruct (Ex D (TDelim DRBrack :: k) I I Hx Rx) as [f1 Hf1].
      remember (f1 + f2)%nat as F eqn:HF. exists (S F). rewrite Hts, (parse_list_cons tbl). cbn [cur_is]. rewrite Hc. rewrite <- Hts.
      cbn [psep] in *. unfold R in *. rewrite (mono_expression tbl tm f1 F _ _ _ ltac:(lia) Hf1). cbn [bind].
      assert (C: cur_is (TDelim DRBrack :: k) s_rbrack = true) by reflexivity. rewrite C.
      pose proof (M F ltac:(lia)) as MF. cbn [psep app] in MF. rewrite MF. cbn [rev stripl]. rewrite <- app_assoc. reflexivity.
    + destruct (Ex D (TComma :: psep (y :: r') ++ TDelim DRBrack :: k) I I Hx Rx) as [f1 Hf1].
      remember (f1 + f2)%nat as F eqn:HF. exists (S F). rewrite Hts, (parse_list_cons tbl). cbn [cur_is]. rewrite Hc. rewrite <- Hts.
      change (psep (x :: y :: r')) with (toks x ++ TComma :: psep (y :: r')). rewrite <- app_assoc. cbn [app].
      unfold R in *. rewrite (mono_expression tbl tm f1 F _ _ _ ltac:(lia) Hf1). cbn [bind].
      assert (C: cur_is (TComma :: psep (y :: r') ++ TDelim DRBrack :: k) s_rbrack = false) by reflexivity. rewrite C.
      rewrite expect_comma. cbn [bind]. rewrite (M F ltac:(lia)). cbn [rev stripl]. rewrite <- app_assoc. reflexivity.
Qed.

Lemma psepm_one k v X : psepm [(k, v)] ++ X = toks k ++ TOp s_colon :: toks v ++ X.
Proof. cbn [psepm]. rewrite <- app_assoc. reflexivity. Qed.
Lemma psepm_more k v q r X :
  psepm ((k, v) :: q :: r) ++ X = toks k ++ TOp s_colon :: toks v ++ TComma :: psepm (q :: r) ++ X.
Proof.
  change (psepm ((k, v) :: q :: r)) with (toks k ++ TOp s_colon :: toks v ++ TComma :: psepm (q :: r)).
  rewrite <- app_assoc. cbn [app]. rewrite <- app_assoc. reflexivity.
Qed.

Lemma pmap_ok D : forall kvs, (forall k v, In (k, v) kvs -> pgood D k /\ pgood D v) ->
  forall acc K, exists f, parse_map tbl tm f D (psepm kvs ++ TDelim DRBrace :: K) acc = Ok (rev acc ++ stripm kvs, K).
Proof.
  induction kvs as [|[k v] r IH]; intros HG acc K.
  - exists 1%nat. cbn [psepm app stripm]. rewrite (parse_map_cons tbl).
    assert (C: cur_is (TDelim DRBrace :: K) s_rbrace = true) by reflexivity. rewrite C.
    unfold expect. rewrite advance_eof. cbn [bind]. change (tok_is (TDelim DRBrace) s_rbrace) with true. cbn iota.
    rewrite rev'_rev, app_nil_r. reflexivity.
  - destruct (HG k v (or_introl eq_refl)) as [(Ek & Wk & Hk & Rk) (Ev & Wv & Hv & Rv)].
    destruct (psepm_head k v r (TDelim DRBrace :: K) Wk) as (t0 & rest & Hts & (_ & _ & Hc)).
    destruct (IH (fun a b Hz => HG a b (or_intror Hz)) ((strip k, strip v) :: acc) K) as [f3 Hf3].
    assert (M : forall F, (f3 <= F)%nat -> parse_map tbl tm F D (psepm r ++ TDelim DRBrace :: K) ((strip k, strip v) :: acc) = Ok (rev ((strip k, strip v) :: acc) ++ stripm r, K)).
    { intros F HF. rewrite <- Hf3. apply (mono_gen (fun f => parse_map tbl tm f D (psepm r ++ TDelim DRBrace :: K) ((strip k, strip v) :: acc)));
        [intros g; apply (proj1 (proj2 (proj2 (proj2 (proj2 (proj2 (parser_sim tbl tm g))))))) | exact HF | rewrite Hf3; discriminate]. }
    destruct r as [|q r'].
    + destruct (Ek D (TOp s_colon :: toks v ++ TDelim DRBrace :: K) (kok_colon tbl TOK _) (stops_colon tbl TOK _) Hk Rk) as [f1 Hf1].
      destruct (Ev D (TDelim DRBrace :: K) I I Hv Rv) as [f2 Hf2].
      remember (f1 + f2 + f3)%nat as F eqn:HF. exists (S F). rewrite Hts, (parse_map_cons tbl). cbn [cur_is]. rewrite Hc. rewrite <- Hts.
      rewrite psepm_one. unfold R in *. rewrite (mono_expression tbl tm f1 F _ _ _ ltac:(lia) Hf1). cbn [bind].
      rewrite expect_colon. cbn [bind]. rewrite (mono_expression tbl tm f2 F _ _ _ ltac:(lia) Hf2). cbn [bind].
      assert (C: cur_is (TDelim DRBrace :: K) s_rbrace = true) by reflexivity. rewrite C.
      pose proof (M F ltac:(lia)) as MF. cbn [psepm app] in MF. rewrite MF. cbn [rev stripm]. rewrite <- app_assoc. reflexivity.
    + destruct (Ek D (TOp s_colon :: toks v ++ TComma :: psepm (q :: r') ++ TDelim DRBrace :: K) (kok_colon tbl TOK _) (stops_colon tbl TOK _) Hk Rk) as [f1 Hf1].
      destruct (Ev D (TComma :: psepm (q :: r') ++ TDelim DRBrace :: K) I I Hv Rv) as [f2 Hf2].
      remember (f1 + f2 + f3)%nat as F eqn:HF. exists (S F). rewrite Hts, (parse_map_cons tbl). cbn [cur_is]. rewrite Hc. rewrite <- Hts.
      rewrite psepm_more. unfold R in *. rewrite (mono_expression tbl tm f1 F _ _ _ ltac:(lia) Hf1). cbn [bind].
      rewrite expect_colon. cbn [bind]. rewrite (mono_expression tbl tm f2 F _ _ _ ltac:(lia) Hf2). cbn [bind].
      assert (C: cur_is (TComma :: psepm (q :: r') ++ TDelim DRBrace :: K) s_rbrace = false) by reflexivity. rewrite C.
      rewrite expect_comma. cbn [bind]. rewrite (M F ltac:(lia)). cbn [rev stripm]. rewrite <- app_assoc. reflexivity.
Qed.

Lemma Q_func n args :
  (forall q, (psize q <= psizel args)%nat -> wfp q = true -> All q) -> wfp (PFunc n args) = true -> Q (PFunc n args).
Proof.
  intros HA W d k Hh Hr _ g res Hg.
  rewrite wfp_func in W. unfold proom in Hr. rewrite pneed_func in Hr. rewrite strip_func in Hg.
  unfold phgt in Hh. rewrite strip_func in Hh.
  assert (HH : (MAX_DEPTH <? ast_height (AFunc n (stripl args))) = false) by (apply ltb_false_of_le; exact Hh).
  rewrite height_func in Hh.
  rewrite toks_func. cbn [app]. rewrite <- app_assoc. cbn [app].
  destruct args as [|x r].
  - exists (S g). cbn [psep app stripl] in *. rewrite (parse_token_func_eq tbl), advance_eof. cbn [bind]. rewrite expect_lparen. cbn [bind].
    assert (C: cur_is (TDelim DRParen :: k) s_rparen = true) by reflexivity. rewrite C. rewrite advance_eof. cbn [bind].
    unfold built. rewrite HH. cbn [bind]. eapply (mono_postfixes tbl); [|exact Hg]. lia.
  - pose proof (in_plist_good (d + 1) (x :: r) HA W ltac:(lia) ltac:(lia)) as HG.
    destruct (pargs_ok (d + 1) (x :: r) ltac:(discriminate) HG [] k) as [f1 Hf1]. cbn [rev app] in Hf1.
    cbn [wfpl] in W. apply andb_prop in W as [Wx _].
    destruct (psep_head x r (TDelim DRParen :: k) Wx) as (t0 & rest & Hts & (Hc & _ & _)).
    remember (g + f1)%nat as F eqn:HF. exists (S F). rewrite (parse_token_func_eq tbl), advance_eof. cbn [bind]. rewrite expect_lparen. cbn [bind].
    rewrite Hts. cbn [cur_is]. rewrite Hc. rewrite <- Hts.
    assert (M : parse_args tbl tm F (d + 1) (psep (x :: r) ++ TDelim DRParen :: k) [] = Ok (stripl (x :: r), k)).
    { rewrite <- Hf1. apply (mono_gen (fun f => parse_args tbl tm f (d + 1) (psep (x :: r) ++ TDelim DRParen :: k) []));
        [intros g0; apply (proj1 (proj2 (proj2 (proj2 (parser_sim tbl tm g0))))) | lia | rewrite Hf1; discriminate]. }
    rewrite M. cbn [bind]. unfold built. rewrite HH. cbn [bind]. eapply (mono_postfixes tbl); [|exact Hg]. lia.
Qed.

Lemma Q_list es :
  (forall q, (psize q <= psizel es)%nat -> wfp q = true -> All q) -> wfp (PList es) = true -> Q (PList es).
Proof.
  intros HA W d k Hh Hr _ g res Hg.
  rewrite wfp_list in W. unfold proom in Hr. rewrite pneed_list in Hr. rewrite strip_list in Hg.
  unfold phgt in Hh. rewrite strip_list in Hh.
  assert (HH : (MAX_DEPTH <? ast_height (AList (stripl es))) = false) by (apply ltb_false_of_le; exact Hh).
  rewrite height_list in Hh.
  rewrite toks_list. cbn [app]. rewrite <- app_assoc. cbn [app].
  pose proof (in_plist_good (d + 1) es HA W ltac:(lia) ltac:(lia)) as HG.
  destruct (plist_ok (d + 1) es HG [] k) as [f1 Hf1]. cbn [rev app] in Hf1.
  remember (g + f1)%nat as F eqn:HF. exists (S F). rewrite (parse_token_list_eq tbl), advance_eof. cbn [bind].
  assert (M : parse_list tbl tm F (d + 1) (psep es ++ TDelim DRBrack :: k) [] = Ok (stripl es, k)).
  { rewrite <- Hf1. apply (mono_gen (fun f => parse_list tbl tm f (d + 1) (psep es ++ TDelim DRBrack :: k) []));
      [intros g0; apply (proj1 (proj2 (proj2 (proj2 (proj2 (parser_sim tbl tm g0)))))) | lia | rewrite Hf1; discriminate]. }
  rewrite M. cbn [bind]. unfold built. rewrite HH. cbn [bind]. eapply (mono_postfixes tbl); [|exact Hg]. lia.
Qed.

Lemma Q_map kvs :
  (forall q, (psize q <= psizem kvs)%nat -> wfp q = true -> All q) -> wfp (PMap kvs) = true -> Q (PMap kvs).
Proof.
  intros HA W d k Hh Hr _ g res Hg.
  rewrite wfp_map in W. unfold proom in Hr. rewrite pneed_map in Hr. rewrite strip_map in Hg.
  unfold phgt in Hh. rewrite strip_map in Hh.
  assert (HH : (MAX_DEPTH <? ast_height (AMap (stripm kvs))) = false) by (apply ltb_false_of_le; exact Hh).
  rewrite height_map in Hh.
  rewrite toks_map. cbn [app]. rewrite <- app_assoc. cbn [app].
  pose proof (in_pmap_good (d + 1) kvs HA W ltac:(lia) ltac:(lia)) as HG.
  destruct (pmap_ok (d + 1) kvs HG [] k) as [f1 Hf1]. cbn [rev app] in Hf1.
  remember (g + f1)%nat as F eqn:HF. exists (S F). rewrite (parse_token_map_eq tbl), advance_eof. cbn [bind].
  assert (M : parse_map tbl tm F (d + 1) (psepm kvs ++ TDelim DRBrace :: k) [] = Ok (stripm kvs, k)).
  { rewrite <- Hf1. apply (mono_gen (fun f => parse_map tbl tm f (d + 1) (psepm kvs ++ TDelim DRBrace :: k) []));
      [intros g0; apply (proj1 (proj2 (proj2 (proj2 (proj2 (proj2 (parser_sim tbl tm g0))))))) | lia | rewrite Hf1; discriminate]. }
  rewrite M. cbn [bind]. unfold built. rewrite HH. cbn [bind]. eapply (mono_postfixes tbl); [|exact Hg]. lia.
Qed.

(* ---------- everything together *)
Lemma pmain : forall n p, (psize p < n)%nat -> wfp p = true -> All p.
Proof.
  induction n as [|n IHn]; intros p Hs W; [lia|].
  assert (IH : forall q, (psize q < psize p)%nat -> wfp q = true -> All q) by (intros q Hq Wq; apply IHn; [lia | exact Wq]).
  assert (HQ : ppform p = true -> Q p).
  { intros Hpf. destruct p; try discriminate Hpf.
    - apply Q_lit.
    - apply Q_ref.
    - apply Q_paren. cbn [wfp] in W. apply IH; [cbn [psize]; lia | exact W].
    - apply Q_un; [exact W|]. cbn [wfp] in W. apply andb_prop in W as [_ We]. apply IH; [cbn [psize]; lia | exact We].
    - apply Q_post; [exact W|]. cbn [wfp] in W. apply andb_prop in W as [_ We]. apply IH; [cbn [psize]; lia | exact We].
    - apply Q_func; [|exact W]. intros q Hq Wq. apply IH; [rewrite psize_func; lia | exact Wq].
    - apply Q_list; [|exact W]. intros q Hq Wq. apply IH; [rewrite psize_list; lia | exact Wq].
    - apply Q_map; [|exact W]. intros q Hq Wq. apply IH; [rewrite psize_map; lia | exact Wq]. }
  assert (HL : is_ptern p = false -> Loop p).
  { intros Hnt. destruct (is_pbin p) eqn:Hil.
    - destruct p; try discriminate Hil. apply Loop_bin; [exact IH | exact W].
    - apply Loop_of_P; [exact Hil|]. apply P_of_Q. apply HQ. unfold ppform. rewrite Hnt, Hil. reflexivity. }
  split; [|split; assumption].
  destruct (is_ptern p) eqn:Hnt.
  - destruct p; try discriminate Hnt. pose proof W as W0. cbn [wfp] in W.
    apply andb_prop in W as [W Wb]. apply andb_prop in W as [W Wa]. apply andb_prop in W as [_ Wc].
    apply E_tern; [apply IH | apply IH | apply IH | exact W0]; try assumption; cbn [psize]; lia.
  - apply E_of_Loop; [exact W | apply HL; reflexivity].
Qed.

Theorem parse_toks_expr : forall p d, wfp p = true -> phgt p -> proom d p ->
  exists f, pexpr f d (toks p) = Ok (strip p, []).
Proof.
  intros p d W Hh Hr. destruct (pmain (S (psize p)) p ltac:(lia) W) as [Ep _].
  destruct (Ep d [] I I Hh Hr) as [f Hf]. exists f. rewrite app_nil_r in Hf. exact Hf.
Qed.

Theorem parse_toks : forall p, wfp p = true -> phgt p -> proom 0 p ->
  parse_tokens tbl TmEof (toks p) = Ok (strip p).
Proof.
  intros p W Hh Hr. destruct (parse_toks_expr p 0 W Hh Hr) as [f Hf'].
  destruct (toks_head (S (psize p)) p ltac:(lia) W) as (t0 & ts & Eu & _).
  unfold parse_tokens. rewrite Eu. rewrite <- Eu.
  set (F := parse_fuel (toks p)).
  assert (HF : exists F', F = S F' /\ (4 * length (toks p) + 4 <= F')%nat).
  { unfold F, parse_fuel. exists (4 * length (toks p) + 15)%nat. lia. }
  destruct HF as (F' & -> & HF').
  assert (Hx : parse_expression tbl TmEof F' 0 (toks p) = Ok (strip p, [])).
  { pose proof (proj1 (parser_nf tbl TmEof ltac:(discriminate) F') 0 (toks p) HF') as NF. unfold nf in NF.
    destruct (Nat.le_ge_cases f F') as [Hle|Hle].
    - eapply mono_expression; [exact Hle | exact Hf'].
    - rewrite <- Hf'. symmetry.
      apply (mono_gen (fun g => parse_expression tbl TmEof g 0 (toks p))); [|exact Hle|exact NF].
      intros g. apply (proj1 (parser_sim tbl TmEof g)). }
  rewrite Eu at 1. cbn [parse_stmt_loop]. rewrite <- Eu. rewrite Hx. cbn [bind].
  destruct F' as [|F'']; [lia|]. reflexivity.
Qed.

(* adding one more pair of parentheses around ANY subexpression keeps well-formedness and the stripped tree:
   hence the parse is unchanged, as long as the depth limit still admits the deeper nesting *)
Corollary extra_parens_same_parse : forall p, wfp p = true -> phgt p -> proom 0 (PParen p) ->
  parse_tokens tbl TmEof (toks (PParen p)) = parse_tokens tbl TmEof (toks p).
Proof.
  intros p W Hh Hr. rewrite (parse_toks (PParen p) W Hh Hr).
  rewrite (parse_toks p W Hh); [reflexivity|]. unfold proom in *. cbn [pneed] in Hr. lia.
Qed.
End PP.
