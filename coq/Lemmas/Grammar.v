(** Lemma (C), no junk: whatever the parser accepts is a sentence of the documented grammar, token for token.
    [G ts t] is the (ambiguous, precedence-free) grammar of expressions as a relation between a token sequence and a tree whose
    leaves and operators are exactly those tokens, in order; [Gprog] adds the lenient statement level. Soundness:
    [parse_tokens tbl TmEof ts = Ok t -> Gprog ts t]. Hence an input outside the grammar - unbalanced or mismatched delimiter,
    missing or wrong separator, operator without operand, stray comma or semicolon - is never accepted, no token is dropped and
    none is read as another: every token of the input is a leaf, an operator or a delimiter of the derivation, in its place. *)
From EE Require Import Chars OpTable Decimal Token Ast Parser Utf8 ParserSteps.
Open Scope N_scope.

Section Gr.
Variable tbl : optable.
Notation tm := TmEof.
Notation lbp o := (fst (binding_power tbl o)).

(* token t is spelled s: what Tokenizer::expect / check_op compare *)
Definition spelled (t : token) (s : str) : Prop :=
  match t with
  | TDelim d => [delim_char d] = s
  | TOp o => o = s
  | TComma => [c_comma] = s
  | _ => False
  end.

(* comma-separated sequences; [SeqA]: call arguments (at least one, no trailing comma);
   [SeqL]: list elements (possibly none, trailing comma allowed) *)
Inductive SeqA (X : list token -> ast -> Prop) : list token -> list ast -> Prop :=
| SeqA_last c x : X c x -> SeqA X c [x]
| SeqA_cons c x sep c' xs : X c x -> spelled sep s_comma -> SeqA X c' xs -> SeqA X (c ++ sep :: c') (x :: xs).
Inductive SeqL (X : list token -> ast -> Prop) : list token -> list ast -> Prop :=
| SeqL_nil : SeqL X [] []
| SeqL_last c x : X c x -> SeqL X c [x]
| SeqL_cons c x sep c' xs : X c x -> spelled sep s_comma -> SeqL X c' xs -> SeqL X (c ++ sep :: c') (x :: xs).
Inductive SeqM (X : list token -> ast -> Prop) : list token -> list (ast * ast) -> Prop :=
| SeqM_nil : SeqM X [] []
| SeqM_last ck k col cv v : X ck k -> spelled col s_colon -> X cv v -> SeqM X (ck ++ col :: cv) [(k, v)]
| SeqM_cons ck k col cv v sep c' xs : X ck k -> spelled col s_colon -> X cv v -> spelled sep s_comma -> SeqM X c' xs ->
    SeqM X (ck ++ col :: cv ++ sep :: c') ((k, v) :: xs).

Inductive G : list token -> ast -> Prop :=
| G_num d : G [TNum d] (ALit (LNum d))
| G_bool b : G [TBool b] (ALit (LBool b))
| G_str s : G [TStr s] (ALit (LStr s))
| G_ref n : G [TRef n] (ARef n)
| G_paren c t cl : spelled cl s_rparen -> G c t -> G (TDelim DLParen :: c ++ [cl]) t
| G_prefix o c t : is_prefix tbl o = true -> G c t -> G (TOp o :: c) (AUnary o t)
| G_postfix o c t : is_postfix tbl o = true -> G c t -> G (c ++ [TOp o]) (APostfix t o)
| G_infix o cl l cr r : (0 <= lbp o)%Z -> G cl l -> G cr r -> G (cl ++ TOp o :: cr) (ABinary o l r)
| G_not_infix o cl l cr r : (0 <= lbp o)%Z -> G cl l -> G cr r ->
    G (cl ++ TOp s_not :: TOp o :: cr) (AUnary s_not (ABinary o l r))
| G_cond cc c col ca a cb b : G cc c -> G ca a -> spelled col s_colon -> G cb b ->
    G (cc ++ TOp s_qmark :: ca ++ col :: cb) (ATernary c a b)
| G_call0 n op cl : spelled op s_lparen -> spelled cl s_rparen -> G [TFunc n; op; cl] (AFunc n [])
| G_call n op cl c args : spelled op s_lparen -> spelled cl s_rparen -> SeqA G c args ->
    G (TFunc n :: op :: c ++ [cl]) (AFunc n args)
| G_list cl c es : spelled cl s_rbrack -> SeqL G c es -> G (TDelim DLBrack :: c ++ [cl]) (AList es)
| G_map cl c kvs : spelled cl s_rbrace -> SeqM G c kvs -> G (TDelim DLBrace :: c ++ [cl]) (AMap kvs).

(* statements: each an expression, the `;` between them optional *)
Inductive Gstmts : list token -> list ast -> Prop :=
| Gs_nil : Gstmts [] []
| Gs_cons c x c' xs : G c x -> Gstmts c' xs -> Gstmts (c ++ c') (x :: xs)
| Gs_semi c x c' xs : G c x -> Gstmts c' xs -> Gstmts (c ++ TSemi :: c') (x :: xs).
Definition Gprog (ts : list token) (t : ast) : Prop :=
  exists es, Gstmts ts es /\ t = match es with [e] => e | _ => AStmt es end.

(* every registered infix operator has precedence >= 1 (C08: "for any positive precedence values"); then a binding power
   >= 0 means "registered", and every level the loop runs at is >= 0 *)
Definition tbl_pos : Prop := forall o c, infix_cfg_of tbl o = Some c -> (1 <= ic_prec c)%Z.
Hypothesis POS : tbl_pos.

Lemma rbp_pos o : (0 <= lbp o)%Z -> (0 <= snd (binding_power tbl o))%Z.
Proof.
  unfold binding_power. destruct (infix_cfg_of tbl o) as [c|] eqn:E; cbn [fst snd]; [|lia].
  pose proof (POS o c E). destruct (ic_right c); lia.
Qed.

(* ---------- inversion of the small steps *)
Lemma advance_tl ts : advance tm ts = Ok (tl ts).
Proof. destruct ts as [|t [|t2 r]]; reflexivity. Qed.
Lemma expect_inv ts s r : expect tm ts s = Ok r -> exists t, ts = t :: r /\ spelled t s.
Proof.
  unfold expect. rewrite advance_tl. cbn [bind]. destruct ts as [|t rest]; [discriminate|]. cbn [tl].
  destruct t; try discriminate; cbn [tok_is spelled].
  - destruct (str_eqb s0 s) eqn:E; [|discriminate]. intros H; inversion H; subst. apply str_eqb_eq in E. eexists; split; [reflexivity | exact E].
  - destruct (str_eqb [delim_char d] s) eqn:E; [|discriminate]. intros H; inversion H; subst. apply str_eqb_eq in E. eexists; split; [reflexivity | exact E].
  - destruct (str_eqb [c_comma] s) eqn:E; [|discriminate]. intros H; inversion H; subst. apply str_eqb_eq in E. eexists; split; [reflexivity | exact E].
Qed.
Lemma cur_is_inv ts s : cur_is ts s = true -> exists t r, ts = t :: r /\ spelled t s.
Proof.
  destruct ts as [|t r]; [discriminate|]. cbn [cur_is]. destruct t; cbn [tok_is spelled]; try discriminate;
    intros E; apply str_eqb_eq in E; eexists; eexists; (split; [reflexivity | exact E]).
Qed.
Lemma built_inv e ts a r : built e ts = Ok (a, r) -> a = e /\ r = ts.
Proof. unfold built. destruct (MAX_DEPTH <? ast_height e); [discriminate|]. intros H; inversion H; auto. Qed.

(* ---------- the invariants, by induction on the fuel *)
Definition S1 (x : R) (ts : list token) : Prop :=
  forall a r, x = Ok (a, r) -> exists c, ts = c ++ r /\ G c a.
Definition S2 (x : R) (lhs : ast) (ts : list token) : Prop :=
  forall a r, x = Ok (a, r) -> forall cl, G cl lhs -> exists c, ts = c ++ r /\ G (cl ++ c) a.

Lemma post_sound : forall f lhs ts, S2 (parse_postfixes tbl tm f lhs ts) lhs ts.
Proof.
  induction f as [|f IH]; intros lhs ts a r H cl HG; [discriminate|]. cbn [parse_postfixes] in H.
  assert (Stop : Ok (lhs, ts) = Ok (a, r) -> exists c, ts = c ++ r /\ G (cl ++ c) a).
  { intros E; inversion E; subst. exists []. rewrite app_nil_r. auto. }
  destruct ts as [|t rest]; [auto|]. destruct t; auto.
  destruct (is_postfix tbl s) eqn:P; [|auto].
  rewrite advance_tl in H. cbn [bind tl] in H.
  destruct (built (APostfix lhs s) rest) as [[e ts3]| | |] eqn:B; cbn [bind] in H; try discriminate.
  apply built_inv in B as [-> ->].
  destruct (IH _ _ _ _ H (cl ++ [TOp s]) (G_postfix s cl lhs P HG)) as (c & -> & Hc).
  exists (TOp s :: c). split; [reflexivity|]. rewrite <- app_assoc in Hc. exact Hc.
Qed.

Definition all_sound (f : nat) : Prop :=
  (forall d ts, S1 (parse_expression tbl tm f d ts) ts) /\
  (forall d ts, S1 (parse_primary tbl tm f d ts) ts) /\
  (forall d ts, S1 (parse_token tbl tm f d ts) ts) /\
  (forall d ts acc res r, parse_args tbl tm f d ts acc = Ok (res, r) ->
     exists c cl xs, ts = c ++ cl :: r /\ spelled cl s_rparen /\ res = rev acc ++ xs /\ SeqA G c xs) /\
  (forall d ts acc res r, parse_list tbl tm f d ts acc = Ok (res, r) ->
     exists c cl xs, ts = c ++ cl :: r /\ spelled cl s_rbrack /\ res = rev acc ++ xs /\ SeqL G c xs /\
                     (cur_is ts s_rbrack = true -> c = [] /\ xs = [])) /\
  (forall d ts acc res r, parse_map tbl tm f d ts acc = Ok (res, r) ->
     exists c cl xs, ts = c ++ cl :: r /\ spelled cl s_rbrace /\ res = rev acc ++ xs /\ SeqM G c xs /\
                     (cur_is ts s_rbrace = true -> c = [] /\ xs = [])) /\
  (forall d p lhs ts, (0 <= p)%Z -> S2 (parse_op tbl tm f d p lhs ts) lhs ts) /\
  (forall d p lhs ts, (0 <= p)%Z -> S2 (parse_op_loop tbl tm f d p lhs ts) lhs ts).

Lemma rev'_rev {A} (l : list A) : rev' l = rev l.
Proof. unfold rev'. rewrite <- rev_alt. reflexivity. Qed.

(* destruct the head of a bind chain in hypothesis H *)
Ltac bind_inv H :=
  match type of H with
  | bind ?x _ = Ok _ =>
      let E := fresh "E" in destruct x as [?v| | |] eqn:E; cbn [bind] in H; [|discriminate H|discriminate H|discriminate H]
  end.

Lemma parse_list_eq f d ts acc :
  parse_list tbl tm (S f) d ts acc =
    match ts with
    | [] => expect tm ts s_rbrack >>= fun r => Ok (rev' acc, r)
    | _ =>
      if cur_is ts s_rbrack then expect tm ts s_rbrack >>= fun r => Ok (rev' acc, r)
      else
        parse_expression tbl tm f d ts >>= fun '(e, r) =>
        if cur_is r s_rbrack then parse_list tbl tm f d r (e :: acc)
        else expect tm r s_comma >>= fun r1 => parse_list tbl tm f d r1 (e :: acc)
    end.
Proof. reflexivity. Qed.
Lemma parse_map_eq f d ts acc :
  parse_map tbl tm (S f) d ts acc =
    match ts with
    | [] => expect tm ts s_rbrace >>= fun r => Ok (rev' acc, r)
    | _ =>
      if cur_is ts s_rbrace then expect tm ts s_rbrace >>= fun r => Ok (rev' acc, r)
      else
        parse_expression tbl tm f d ts >>= fun '(k, r) =>
        expect tm r s_colon >>= fun r1 =>
        parse_expression tbl tm f d r1 >>= fun '(v, r2) =>
        if cur_is r2 s_rbrace then parse_map tbl tm f d r2 ((k, v) :: acc)
        else expect tm r2 s_comma >>= fun r3 => parse_map tbl tm f d r3 ((k, v) :: acc)
    end.
Proof. reflexivity. Qed.
Lemma parse_args_eq f d ts acc :
  parse_args tbl tm (S f) d ts acc =
    parse_expression tbl tm f d ts >>= fun '(e, r) =>
    if cur_is r s_rparen then advance tm r >>= fun r1 => Ok (rev' (e :: acc), r1)
    else expect tm r s_comma >>= fun r1 => parse_args tbl tm f d r1 (e :: acc).
Proof. reflexivity. Qed.
Lemma parse_token_eq f d ts :
  parse_token tbl tm (S f) d ts =
    match ts with
    | [] => Err
    | TNum v :: _ => advance tm ts >>= fun r => Ok (ALit (LNum v), r)
    | TBool b :: _ => advance tm ts >>= fun r => Ok (ALit (LBool b), r)
    | TStr s :: _ => advance tm ts >>= fun r => Ok (ALit (LStr s), r)
    | TRef n :: _ => advance tm ts >>= fun r => Ok (ARef n, r)
    | TFunc n :: _ =>
        advance tm ts >>= fun r => expect tm r s_lparen >>= fun r1 =>
        if cur_is r1 s_rparen then advance tm r1 >>= fun r2 => built (AFunc n []) r2
        else parse_args tbl tm f d r1 [] >>= fun '(args, r2) => built (AFunc n args) r2
    | TOp op :: _ =>
        if is_prefix tbl op then
          advance tm ts >>= fun r => parse_primary tbl tm f d r >>= fun '(e, r1) => built (AUnary op e) r1
        else Err
    | TDelim DLParen :: _ =>
        advance tm ts >>= fun r => parse_expression tbl tm f d r >>= fun '(e, r1) =>
        if cur_is r1 s_rparen then advance tm r1 >>= fun r2 => Ok (e, r2) else Err
    | TDelim DLBrack :: _ =>
        advance tm ts >>= fun r => parse_list tbl tm f d r [] >>= fun '(es, r1) => built (AList es) r1
    | TDelim DLBrace :: _ =>
        advance tm ts >>= fun r => parse_map tbl tm f d r [] >>= fun '(kvs, r1) => built (AMap kvs) r1
    | TDelim _ :: _ => Err
    | TComma :: _ | TSemi :: _ => Err
    end.
Proof. reflexivity. Qed.

Lemma sound_step f : all_sound f -> all_sound (S f).
Proof.
  intros (I1 & I2 & I3 & I4 & I5 & I6 & I7 & I8). unfold all_sound. repeat split.
  - (* parse_expression *)
    intros d ts a r H. rewrite parse_expression_step in H. bind_inv H. destruct v as [lhs ts1].
    destruct (I2 _ _ _ _ E) as (c1 & -> & G1).
    destruct (I7 d 0%Z lhs ts1 ltac:(lia) _ _ H c1 G1) as (c2 & -> & G2).
    exists (c1 ++ c2). rewrite <- app_assoc. auto.
  - (* parse_primary *)
    intros d ts a r H. rewrite parse_primary_eq in H. destruct (MAX_DEPTH <? d + 1); [discriminate|].
    bind_inv H. destruct v as [lhs ts1]. destruct (I3 _ _ _ _ E) as (c1 & -> & G1).
    destruct (post_sound _ _ _ _ _ H c1 G1) as (c2 & -> & G2). exists (c1 ++ c2). rewrite <- app_assoc. auto.
  - (* parse_token *)
    intros d ts a r H. rewrite parse_token_eq in H. destruct ts as [|t rest]; [discriminate|].
    destruct t; try discriminate.
    + (* operator token: prefix operator *)
      destruct (is_prefix tbl s) eqn:P; [|discriminate]. rewrite advance_tl in H. cbn [bind tl] in H.
      bind_inv H. destruct v as [e r1]. apply built_inv in H as [-> ->].
      destruct (I2 _ _ _ _ E) as (c1 & -> & G1). exists (TOp s :: c1). split; [reflexivity|]. apply G_prefix; assumption.
    + (* delimiter *)
      destruct d0; try discriminate; rewrite advance_tl in H; cbn [bind tl] in H.
      * bind_inv H. destruct v as [e r1]. destruct (I1 _ _ _ _ E) as (c1 & -> & G1).
        destruct (cur_is r1 s_rparen) eqn:C; [|discriminate]. destruct (cur_is_inv _ _ C) as (cl & r2 & -> & Hcl).
        rewrite advance_tl in H. cbn [bind tl] in H. inversion H; subst.
        exists (TDelim DLParen :: c1 ++ [cl]). split; [cbn [app]; rewrite <- app_assoc; reflexivity | apply G_paren; assumption].
      * bind_inv H. destruct v as [es r1]. apply built_inv in H as [-> ->].
        destruct (I5 _ _ _ _ _ E) as (c & cl & xs & -> & Hcl & -> & HS & _). cbn [rev app] in *.
        exists (TDelim DLBrack :: c ++ [cl]). split; [cbn [app]; rewrite <- app_assoc; reflexivity | apply G_list; assumption].
      * bind_inv H. destruct v as [kvs r1]. apply built_inv in H as [-> ->].
        destruct (I6 _ _ _ _ _ E) as (c & cl & xs & -> & Hcl & -> & HS & _). cbn [rev app] in *.
        exists (TDelim DLBrace :: c ++ [cl]). split; [cbn [app]; rewrite <- app_assoc; reflexivity | apply G_map; assumption].
    + rewrite advance_tl in H. cbn [bind tl] in H. inversion H; subst. exists [TNum d0]. split; [reflexivity | constructor].
    + rewrite advance_tl in H. cbn [bind tl] in H. inversion H; subst. exists [TBool b]. split; [reflexivity | constructor].
    + rewrite advance_tl in H. cbn [bind tl] in H. inversion H; subst. exists [TStr s]. split; [reflexivity | constructor].
    + rewrite advance_tl in H. cbn [bind tl] in H. inversion H; subst. exists [TRef s]. split; [reflexivity | constructor].
    + (* call *)
      rewrite advance_tl in H. cbn [bind tl] in H. bind_inv H. destruct (expect_inv _ _ _ E) as (op & -> & Hop).
      destruct (cur_is v s_rparen) eqn:C.
      * destruct (cur_is_inv _ _ C) as (cl & r2 & -> & Hcl). rewrite advance_tl in H. cbn [bind tl] in H.
        apply built_inv in H as [-> ->]. exists [TFunc s; op; cl]. split; [reflexivity | apply G_call0; assumption].
      * bind_inv H. destruct v0 as [args r2]. apply built_inv in H as [-> ->].
        destruct (I4 _ _ _ _ _ E0) as (c & cl & xs & -> & Hcl & -> & HS). cbn [rev app] in *.
        exists (TFunc s :: op :: c ++ [cl]). split; [cbn [app]; rewrite <- app_assoc; reflexivity | apply G_call; assumption].
  - (* parse_args *)
    intros d ts acc res r H. rewrite parse_args_eq in H. bind_inv H. destruct v as [e r1].
    destruct (I1 _ _ _ _ E) as (c1 & -> & G1).
    destruct (cur_is r1 s_rparen) eqn:C.
    + destruct (cur_is_inv _ _ C) as (cl & r2 & -> & Hcl). rewrite advance_tl in H. cbn [bind tl] in H. inversion H; subst.
      exists c1, cl, [e]. repeat split; [exact Hcl | rewrite rev'_rev; reflexivity | constructor; exact G1].
    + bind_inv H. destruct (expect_inv _ _ _ E0) as (sep & -> & Hsep).
      destruct (I4 _ _ _ _ _ H) as (c & cl & xs & -> & Hcl & -> & HS).
      exists (c1 ++ sep :: c), cl, (e :: xs). repeat split.
      * rewrite <- app_assoc. reflexivity.
      * exact Hcl.
      * cbn [rev]. rewrite <- app_assoc. reflexivity.
      * apply SeqA_cons; assumption.
  - (* parse_list *)
    intros d ts acc res r H. rewrite parse_list_eq in H.
    assert (Close : forall ts0, (expect tm ts0 s_rbrack >>= fun r0 => Ok (rev' acc, r0)) = Ok (res, r) ->
              exists c cl xs, ts0 = c ++ cl :: r /\ spelled cl s_rbrack /\ res = rev acc ++ xs /\ SeqL G c xs /\
                              (cur_is ts0 s_rbrack = true -> c = [] /\ xs = [])).
    { intros ts0 H0. bind_inv H0. destruct (expect_inv _ _ _ E) as (cl & -> & Hcl). inversion H0; subst.
      exists [], cl, []. repeat split; [exact Hcl | rewrite rev'_rev, app_nil_r; reflexivity | constructor]. }
    destruct ts as [|t0 rest]; [apply Close; exact H|].
    specialize (Close (t0 :: rest)). destruct (cur_is (t0 :: rest) s_rbrack) eqn:C0; [apply Close; exact H|].
    bind_inv H. destruct v as [e r1]. destruct (I1 _ _ _ _ E) as (c1 & Hts & G1). rewrite Hts.
    destruct (cur_is r1 s_rbrack) eqn:C.
    + destruct (I5 _ _ _ _ _ H) as (c & cl & xs & -> & Hcl & -> & HS & Hnil).
      destruct (Hnil C) as [-> ->].
      exists c1, cl, [e]. split; [reflexivity|]. split; [exact Hcl|]. split; [cbn [rev]; rewrite app_nil_r; reflexivity|].
      split; [constructor; exact G1 | intros X; discriminate X].
    + bind_inv H. destruct (expect_inv _ _ _ E0) as (sep & -> & Hsep).
      destruct (I5 _ _ _ _ _ H) as (c & cl & xs & -> & Hcl & -> & HS & _).
      exists (c1 ++ sep :: c), cl, (e :: xs). split; [rewrite <- app_assoc; reflexivity|]. split; [exact Hcl|].
      split; [cbn [rev]; rewrite <- app_assoc; reflexivity|]. split; [apply SeqL_cons; assumption | intros X; discriminate X].
  - (* parse_map *)
    intros d ts acc res r H. rewrite parse_map_eq in H.
    assert (Close : forall ts0, (expect tm ts0 s_rbrace >>= fun r0 => Ok (rev' acc, r0)) = Ok (res, r) ->
              exists c cl xs, ts0 = c ++ cl :: r /\ spelled cl s_rbrace /\ res = rev acc ++ xs /\ SeqM G c xs /\
                              (cur_is ts0 s_rbrace = true -> c = [] /\ xs = [])).
    { intros ts0 H0. bind_inv H0. destruct (expect_inv _ _ _ E) as (cl & -> & Hcl). inversion H0; subst.
      exists [], cl, []. repeat split; [exact Hcl | rewrite rev'_rev, app_nil_r; reflexivity | constructor]. }
    destruct ts as [|t0 rest]; [apply Close; exact H|].
    specialize (Close (t0 :: rest)). destruct (cur_is (t0 :: rest) s_rbrace) eqn:C0; [apply Close; exact H|].
    bind_inv H. destruct v as [k r1]. destruct (I1 _ _ _ _ E) as (ck & Hts & Gk). rewrite Hts.
    bind_inv H. destruct (expect_inv _ _ _ E0) as (col & -> & Hcol).
    bind_inv H. destruct v0 as [vv r2]. destruct (I1 _ _ _ _ E1) as (cv & -> & Gv).
    destruct (cur_is r2 s_rbrace) eqn:C.
    + destruct (I6 _ _ _ _ _ H) as (c & cl & xs & -> & Hcl & -> & HS & Hnil).
      destruct (Hnil C) as [-> ->].
      exists (ck ++ col :: cv), cl, [(k, vv)]. split; [rewrite <- app_assoc; reflexivity|]. split; [exact Hcl|].
      split; [cbn [rev]; rewrite app_nil_r; reflexivity|]. split; [constructor; assumption | intros X; discriminate X].
    + bind_inv H. destruct (expect_inv _ _ _ E2) as (sep & -> & Hsep).
      destruct (I6 _ _ _ _ _ H) as (c & cl & xs & -> & Hcl & -> & HS & _).
      exists (ck ++ col :: cv ++ sep :: c), cl, ((k, vv) :: xs).
      split; [rewrite <- !app_assoc; cbn [app]; rewrite <- app_assoc; reflexivity|]. split; [exact Hcl|].
      split; [cbn [rev]; rewrite <- app_assoc; reflexivity|]. split; [apply SeqM_cons; assumption | intros X; discriminate X].
  - (* parse_op *)
    intros d p lhs ts Hp a r H cl HG. cbn [parse_op] in H. destruct (MAX_DEPTH <? d + 1); [discriminate|].
    exact (I8 _ _ _ _ Hp _ _ H cl HG).
  - (* parse_op_loop *)
    intros d p lhs ts Hp a r H cl HG. rewrite parse_op_loop_eq in H. cbn zeta in H.
    assert (Stop : Ok (lhs, ts) = Ok (a, r) -> exists c, ts = c ++ r /\ G (cl ++ c) a).
    { intros E; inversion E; subst. exists []. rewrite app_nil_r. auto. }
    destruct ts as [|t rest]; [auto|]. destruct t; auto.
    (* the common tail: operator tokens [optoks], operand parsed from rest2 *)
    assert (Tail : forall (optoks : list token) (node : ast -> ast) rb rest2,
              (0 <= rb)%Z ->
              (forall c12 rhs', G c12 rhs' -> G (cl ++ optoks ++ c12) (node rhs')) ->
              (parse_primary tbl tm f d rest2 >>= fun '(rhs, ts3) =>
               (if cur_is_not ts3 then next_prec tbl tm ts3 else Ok (cur_prec tbl ts3)) >>= fun '(cur_l_bp, _) =>
               (if (rb <? cur_l_bp)%Z then parse_op tbl tm f d rb rhs ts3 else Ok (rhs, ts3)) >>= fun '(rhs', ts4) =>
               built (node rhs') ts4 >>= fun '(node'', ts5) => parse_op_loop tbl tm f d p node'' ts5) = Ok (a, r) ->
              exists c, optoks ++ rest2 = c ++ r /\ G (cl ++ c) a).
    { intros optoks node rb rest2 Hrb Hnode HT.
      bind_inv HT. destruct v as [rhs ts3]. destruct (I2 _ _ _ _ E) as (c1 & -> & G1).
      bind_inv HT. destruct v as [cl0 cr0].
      bind_inv HT. destruct v as [rhs' ts4].
      assert (Hr : exists c2, ts3 = c2 ++ ts4 /\ G (c1 ++ c2) rhs').
      { destruct (rb <? cl0)%Z.
        - exact (I7 _ _ _ _ Hrb _ _ E1 c1 G1).
        - inversion E1; subst. exists []. rewrite app_nil_r. auto. }
      destruct Hr as (c2 & -> & G2).
      bind_inv HT. destruct v as [node'' ts5]. apply built_inv in E2 as [-> ->].
      destruct (I8 _ _ _ _ Hp _ _ HT (cl ++ optoks ++ c1 ++ c2) (Hnode _ _ G2)) as (c3 & -> & G3).
      exists (optoks ++ c1 ++ c2 ++ c3). split; [rewrite <- !app_assoc; reflexivity|].
      rewrite <- ?app_assoc in G3. rewrite <- ?app_assoc. exact G3. }
    destruct (is_not s) eqn:N.
    + (* x not OP y *)
      apply str_eqb_eq in N. subst s.
      unfold next_prec, peek_tok in H. destruct rest as [|t2 rest2]; cbn [bind tok_prec] in H.
      * cbn [andb Z.ltb Z.compare] in H. discriminate.
      * destruct t2; cbn [tok_prec] in H; try (cbn [andb Z.ltb Z.compare] in H; discriminate).
        destruct (binding_power tbl s) as [l rb] eqn:B.
        destruct (l <? 0)%Z eqn:L0; cbn [andb negb] in H; [discriminate|].
        destruct (l <? p)%Z eqn:Lp; [auto|].
        rewrite advance_tl in H. cbn [bind tl] in H. rewrite advance_tl in H. cbn [bind tl] in H.
        apply Z.ltb_ge in L0.
        assert (Hl : (0 <= lbp s)%Z) by (rewrite B; exact L0).
        assert (Hrb : (0 <= rb)%Z) by (pose proof (rbp_pos s Hl) as X; rewrite B in X; exact X).
        destruct (Tail [TOp s_not; TOp s] (fun rhs' => AUnary s_not (ABinary s lhs rhs')) rb rest2 Hrb) as (c & Hc & Gc).
        -- intros c12 rhs' G12. cbn [app]. apply G_not_infix; assumption.
        -- exact H.
        -- exists c. split; [exact Hc | exact Gc].
    + cbn [bind cur_prec hd_error tok_prec] in H. destruct (binding_power tbl s) as [l rb] eqn:B.
      cbn [andb negb] in H. destruct (str_eqb s s_qmark) eqn:Q.
      * (* the conditional *)
        apply str_eqb_eq in Q. subst s. destruct (0 <? p)%Z; [auto|].
        rewrite advance_tl in H. cbn [bind tl] in H. destruct (MAX_DEPTH <? d + 1); [discriminate|].
        bind_inv H. destruct v as [a1 r1]. destruct (I1 _ _ _ _ E) as (ca & -> & Ga).
        bind_inv H. destruct (expect_inv _ _ _ E0) as (col & -> & Hcol).
        bind_inv H. destruct v0 as [b1 r3]. destruct (I1 _ _ _ _ E1) as (cb & -> & Gb).
        apply built_inv in H as [-> ->].
        exists (TOp s_qmark :: ca ++ col :: cb). split; [cbn [app]; rewrite <- app_assoc; reflexivity|].
        apply G_cond; assumption.
      * destruct (l <? p)%Z eqn:Lp; [auto|]. cbn [bind] in H. rewrite advance_tl in H. cbn [bind tl] in H.
        apply Z.ltb_ge in Lp.
        assert (Hl : (0 <= lbp s)%Z) by (rewrite B; cbn [fst]; lia).
        assert (Hrb : (0 <= rb)%Z) by (pose proof (rbp_pos s Hl) as X; rewrite B in X; exact X).
        destruct (Tail [TOp s] (fun rhs' => ABinary s lhs rhs') rb rest Hrb) as (c & Hc & Gc).
        -- intros c12 rhs' G12. cbn [app]. apply G_infix; assumption.
        -- exact H.
        -- exists c. split; [exact Hc | exact Gc].
Qed.

Lemma parser_sound : forall f, all_sound f.
Proof.
  induction f as [|f IH]; [|apply sound_step; exact IH].
  unfold all_sound. repeat split; intros; try discriminate; intros ? ? ?; discriminate.
Qed.

Lemma stmts_sound : forall f ts acc es, parse_stmt_loop tbl tm f ts acc = Ok es ->
  exists xs, es = rev acc ++ xs /\ Gstmts ts xs.
Proof.
  induction f as [|f IH]; intros ts acc es H; [discriminate|]. cbn [parse_stmt_loop] in H.
  destruct ts as [|t0 rest].
  - inversion H; subst. exists []. rewrite rev'_rev, app_nil_r. split; [reflexivity | constructor].
  - bind_inv H. destruct v as [e r]. destruct (proj1 (parser_sound f) _ _ _ _ E) as (c & Hts & Ge). rewrite Hts.
    assert (NoSemi : parse_stmt_loop tbl tm f r (e :: acc) = Ok es -> exists xs, es = rev acc ++ xs /\ Gstmts (c ++ r) xs).
    { intros H0. destruct (IH _ _ _ H0) as (xs & -> & Gx). exists (e :: xs). split; [cbn [rev]; rewrite <- app_assoc; reflexivity|].
      apply Gs_cons; assumption. }
    destruct r as [|t1 r1]; [auto|]. destruct t1; auto.
    rewrite advance_tl in H. cbn [bind tl] in H. destruct (IH _ _ _ H) as (xs & -> & Gx).
    exists (e :: xs). split; [cbn [rev]; rewrite <- app_assoc; reflexivity|]. apply Gs_semi; assumption.
Qed.

Theorem parse_sound : forall ts t, parse_tokens tbl tm ts = Ok t -> Gprog ts t.
Proof.
  intros ts t H. unfold parse_tokens in H.
  assert (H' : (parse_stmt_loop tbl tm (parse_fuel ts) ts [] >>= fun es => match es with [e] => Ok e | _ => Ok (AStmt es) end) = Ok t).
  { destruct ts; exact H. }
  clear H. bind_inv H'. destruct (stmts_sound _ _ _ _ E) as (xs & -> & Gx). cbn [rev app] in *.
  exists xs. split; [exact Gx|]. destruct xs as [|e [|e2 r]]; inversion H'; reflexivity.
Qed.

(* ---------- consequences read off the grammar: how a sentence can start and end *)
Definition starter (t : token) : Prop :=
  match t with
  | TNum _ | TBool _ | TStr _ | TRef _ | TFunc _ => True
  | TDelim DLParen | TDelim DLBrack | TDelim DLBrace => True
  | TOp o => is_prefix tbl o = true
  | _ => False
  end.
Definition ender (t : token) : Prop :=
  match t with
  | TNum _ | TBool _ | TStr _ | TRef _ => True
  | TOp o => is_postfix tbl o = true \/ spelled t s_rparen \/ spelled t s_rbrack \/ spelled t s_rbrace
  | _ => spelled t s_rparen \/ spelled t s_rbrack \/ spelled t s_rbrace
  end.

Lemma G_head ts t : G ts t -> exists t0 rest, ts = t0 :: rest /\ starter t0.
Proof.
  induction 1; try (eexists; eexists; split; [reflexivity | exact I]).
  - eexists; eexists; split; [reflexivity | assumption].
  - destruct IHG as (t0 & rest & -> & S). eexists; eexists; split; [reflexivity | exact S].
  - destruct IHG1 as (t0 & rest & -> & S). eexists; eexists; split; [reflexivity | exact S].
  - destruct IHG1 as (t0 & rest & -> & S). eexists; eexists; split; [reflexivity | exact S].
  - destruct IHG1 as (t0 & rest & -> & S). eexists; eexists; split; [reflexivity | exact S].
Qed.

Lemma ender_closer cl : spelled cl s_rparen \/ spelled cl s_rbrack \/ spelled cl s_rbrace -> ender cl.
Proof. destruct cl; cbn [ender spelled]; intros H; try tauto; destruct H as [H|[H|H]]; try contradiction. Qed.

Lemma G_last ts t : G ts t -> exists pre tl, ts = pre ++ [tl] /\ ender tl.
Proof.
  induction 1.
  - exists [], (TNum d). split; [reflexivity | exact I].
  - exists [], (TBool b). split; [reflexivity | exact I].
  - exists [], (TStr s). split; [reflexivity | exact I].
  - exists [], (TRef n). split; [reflexivity | exact I].
  - exists (TDelim DLParen :: c), cl. split; [reflexivity | apply ender_closer; auto].
  - destruct IHG as (pre & tl & -> & E). exists (TOp o :: pre), tl. split; [reflexivity | exact E].
  - exists c, (TOp o). split; [reflexivity | left; assumption].
  - destruct IHG2 as (pre & tl & -> & E). exists (cl ++ TOp o :: pre), tl. split; [rewrite <- app_assoc; reflexivity | exact E].
  - destruct IHG2 as (pre & tl & -> & E). exists (cl ++ TOp s_not :: TOp o :: pre), tl. split; [rewrite <- app_assoc; reflexivity | exact E].
  - destruct IHG3 as (pre & tl & -> & E). exists (cc ++ TOp s_qmark :: ca ++ col :: pre), tl.
    split; [rewrite <- !app_assoc; cbn [app]; rewrite <- app_assoc; reflexivity | exact E].
  - exists [TFunc n; op], cl. split; [reflexivity | apply ender_closer; auto].
  - exists (TFunc n :: op :: c), cl. split; [reflexivity | apply ender_closer; auto].
  - exists (TDelim DLBrack :: c), cl. split; [reflexivity | apply ender_closer; auto].
  - exists (TDelim DLBrace :: c), cl. split; [reflexivity | apply ender_closer; auto].
Qed.

Lemma Gstmts_head ts es : Gstmts ts es -> ts = [] \/ exists t0 rest, ts = t0 :: rest /\ starter t0.
Proof.
  induction 1; [left; reflexivity | right | right];
    destruct (G_head _ _ H) as (t0 & rest & -> & S); eexists; eexists; (split; [reflexivity | exact S]).
Qed.
Lemma Gstmts_last ts es : Gstmts ts es -> ts = [] \/ exists pre tl, ts = pre ++ [tl] /\ (ender tl \/ tl = TSemi).
Proof.
  induction 1; [left; reflexivity | right | right].
  - destruct IHGstmts as [->|(pre & tl & -> & E)].
    + destruct (G_last _ _ H) as (pre & tl & -> & E). exists pre, tl. rewrite app_nil_r. auto.
    + exists (c ++ pre), tl. rewrite <- app_assoc. auto.
  - destruct IHGstmts as [->|(pre & tl & -> & E)].
    + exists c, TSemi. auto.
    + exists (c ++ TSemi :: pre), tl. rewrite <- app_assoc. auto.
Qed.

(* a program that starts with a token no expression can start with is not accepted: a stray comma or semicolon, a closing
   delimiter, an operator that is not a prefix operator *)
Theorem bad_start_rejected t0 rest t : ~ starter t0 -> parse_tokens tbl tm (t0 :: rest) <> Ok t.
Proof.
  intros NS H. destruct (parse_sound _ _ H) as (es & Gs & _).
  destruct (Gstmts_head _ _ Gs) as [E|(t1 & r1 & E & S)]; [discriminate|]. inversion E; subst. contradiction.
Qed.
(* a program that ends with a token no expression can end with is not accepted: an infix or prefix operator without its
   right operand, an opening delimiter, a comma *)
Theorem bad_end_rejected pre tl t : ~ ender tl -> tl <> TSemi -> parse_tokens tbl tm (pre ++ [tl]) <> Ok t.
Proof.
  intros NE NS H. destruct (parse_sound _ _ H) as (es & Gs & _).
  destruct (Gstmts_last _ _ Gs) as [E|(p1 & t1 & E & [S|S])].
  - destruct pre; discriminate.
  - apply app_inj_tail in E as [_ ->]. contradiction.
  - apply app_inj_tail in E as [_ ->]. contradiction.
Qed.
End Gr.

Definition tbl_posb (tbl : optable) : bool := forallb (fun e => (1 <=? ic_prec (snd e))%Z) (t_infix tbl).
Lemma tbl_posb_ok tbl : tbl_posb tbl = true -> tbl_pos tbl.
Proof.
  unfold tbl_posb, tbl_pos, infix_cfg_of. intros H o c. induction (t_infix tbl) as [|[k v] l IH]; cbn [assoc forallb] in *; [discriminate|].
  apply andb_prop in H as [H1 H2]. destruct (str_eqb o k).
  - intros E; inversion E; subst. apply Z.leb_le. exact H1.
  - apply IH. exact H2.
Qed.
