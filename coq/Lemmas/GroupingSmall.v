(** The clauses of C02 on their minimal configurations, for ARBITRARY operator tables, operators and names:
    symbolic execution of the parser model through the one-step lemmas of ParserSteps. *)
From EE Require Import Chars OpTable Decimal Token Ast Parser Utf8 ParserSteps.
Open Scope N_scope.

Section G.
Variable tbl : optable.
Notation tm := TmEof.

(* a well-formed infix operator: registered, positive precedence, not the word `not`, not `?`, not also postfix *)
Definition wf_infix (op : str) (c : infix_cfg) : Prop :=
  infix_cfg_of tbl op = Some c /\ (1 <= ic_prec c)%Z /\ plain tbl op.

Lemma bp_of op c : wf_infix op c ->
  binding_power tbl op = ((ic_prec c * 2)%Z, if ic_right c then (ic_prec c * 2 - 1)%Z else (ic_prec c * 2 + 1)%Z).
Proof. intros (H & _ & _). unfold binding_power. rewrite H. reflexivity. Qed.

Lemma tokens_single ts e f :
  parse_fuel ts = S (S f) -> ts <> [] -> parse_expression tbl tm (S f) 0 ts = Ok (e, []) -> parse_tokens tbl tm ts = Ok e.
Proof.
  intros F N H. unfold parse_tokens. destruct ts as [|t r]; [contradiction|]. rewrite F.
  cbn [parse_stmt_loop]. rewrite H. cbn [bind]. reflexivity.
Qed.

Lemma not_postfix_head_op op c rest : wf_infix op c -> no_postfix_head tbl (TOp op :: rest).
Proof. intros (_ & _ & (_ & _ & P)). exact P. Qed.

Lemma cur_is_not_op op c rest : wf_infix op c -> cur_is_not (TOp op :: rest) = false.
Proof. intros (_ & _ & (N & _)). exact N. Qed.

Ltac dside := first [reflexivity | exact I | assumption].
Ltac simp_depth :=
  repeat match goal with
  | |- context [MAX_DEPTH <? ?x] =>
      let v := eval vm_compute in (MAX_DEPTH <? x) in
      lazymatch v with false => change (MAX_DEPTH <? x) with false end
  end.

(* a o1 b o2 c *)
Section TwoOps.
Variables (o1 o2 : str) (c1 c2 : infix_cfg) (a b c : str).
Hypothesis W1 : wf_infix o1 c1.
Hypothesis W2 : wf_infix o2 c2.

Let ts := [TRef a; TOp o1; TRef b; TOp o2; TRef c].

(* the first operator is folded before the second one is looked at: o1 binds at least as tightly *)
Lemma two_ops_left :
  (snd (binding_power tbl o1) <? fst (binding_power tbl o2))%Z = false ->
  parse_tokens tbl tm ts = Ok (ABinary o2 (ABinary o1 (ARef a) (ARef b)) (ARef c)).
Proof.
  intros G. unfold ts. pose proof W1 as (_ & R1 & P1). pose proof W2 as (_ & R2 & P2).
  pose proof (bp_of _ _ W1) as B1. pose proof (bp_of _ _ W2) as B2.
  eapply tokens_single with (f := 34%nat); [reflexivity | discriminate |].
  rewrite parse_expression_step.
  rewrite primary_ref; [| dside | eapply not_postfix_head_op; exact W1]. cbn [bind].
  rewrite parse_op_enter by reflexivity.
  erewrite loop_fold with (rhs := ARef b) (ts3 := [TOp o2; TRef c]) (rhs' := ARef b) (ts4 := [TOp o2; TRef c]);
    [ | exact P1 | rewrite B1; cbn [fst]; apply Z.ltb_ge; lia
      | apply primary_ref; [reflexivity | eapply not_postfix_head_op; exact W2]
      | eapply cur_is_not_op; exact W2
      | cbn [cur_prec hd_error tok_prec]; rewrite G; reflexivity
      | reflexivity | reflexivity ].
  erewrite loop_fold with (rhs := ARef c) (ts3 := []) (rhs' := ARef c) (ts4 := []);
    [ | exact P2 | rewrite B2; cbn [fst]; apply Z.ltb_ge; lia
      | apply primary_ref; [reflexivity | exact I]
      | reflexivity
      | cbn [cur_prec hd_error tok_prec fst]; rewrite B2; cbn [snd]; destruct (ic_right c2);
        (match goal with |- (if ?x then _ else _) = _ => replace x with false; [reflexivity | symmetry; apply Z.ltb_ge; lia] end)
      | reflexivity | reflexivity ].
  reflexivity.
Qed.

(* the second operator binds tighter: it takes b first *)
Lemma two_ops_right :
  (snd (binding_power tbl o1) <? fst (binding_power tbl o2))%Z = true ->
  parse_tokens tbl tm ts = Ok (ABinary o1 (ARef a) (ABinary o2 (ARef b) (ARef c))).
Proof.
  intros G. unfold ts. pose proof W1 as (_ & R1 & P1). pose proof W2 as (_ & R2 & P2).
  pose proof (bp_of _ _ W1) as B1. pose proof (bp_of _ _ W2) as B2.
  eapply tokens_single with (f := 34%nat); [reflexivity | discriminate |].
  rewrite parse_expression_step.
  rewrite primary_ref; [| dside | eapply not_postfix_head_op; exact W1]. cbn [bind].
  rewrite parse_op_enter by reflexivity.
  assert (Inner: forall g, parse_op tbl tm (S (S (S (S (S g))))) 1 (snd (binding_power tbl o1)) (ARef b) [TOp o2; TRef c] = Ok (ABinary o2 (ARef b) (ARef c), [])).
  { intros g. rewrite parse_op_enter by reflexivity.
    erewrite loop_fold with (rhs := ARef c) (ts3 := []) (rhs' := ARef c) (ts4 := []);
      [ | exact P2 | apply Z.ltb_ge; apply Z.ltb_lt in G; lia
        | apply primary_ref; [reflexivity | exact I]
        | reflexivity
        | cbn [cur_prec hd_error tok_prec fst]; rewrite B2; cbn [snd]; destruct (ic_right c2);
          (match goal with |- (if ?x then _ else _) = _ => replace x with false; [reflexivity | symmetry; apply Z.ltb_ge; lia] end)
        | reflexivity | reflexivity ].
    reflexivity. }
  erewrite loop_fold with (rhs := ARef b) (ts3 := [TOp o2; TRef c]) (rhs' := ABinary o2 (ARef b) (ARef c)) (ts4 := []);
    [ | exact P1 | rewrite B1; cbn [fst]; apply Z.ltb_ge; lia
      | apply primary_ref; [reflexivity | eapply not_postfix_head_op; exact W2]
      | eapply cur_is_not_op; exact W2
      | cbn [cur_prec hd_error tok_prec]; rewrite G; exact (Inner 27%nat)
      | reflexivity | reflexivity ].
  reflexivity.
Qed.

Definition left_grouped := ABinary o2 (ABinary o1 (ARef a) (ARef b)) (ARef c).
Definition right_grouped := ABinary o1 (ARef a) (ABinary o2 (ARef b) (ARef c)).

(* the documented rules: higher precedence first; equal precedence by the associativity of the first operator *)
Theorem two_ops_by_precedence :
  ((ic_prec c2 < ic_prec c1)%Z -> parse_tokens tbl tm ts = Ok left_grouped) /\
  ((ic_prec c1 < ic_prec c2)%Z -> parse_tokens tbl tm ts = Ok right_grouped) /\
  (ic_prec c1 = ic_prec c2 -> ic_right c1 = false -> parse_tokens tbl tm ts = Ok left_grouped) /\
  (ic_prec c1 = ic_prec c2 -> ic_right c1 = true -> parse_tokens tbl tm ts = Ok right_grouped).
Proof.
  pose proof (bp_of _ _ W1) as B1. pose proof (bp_of _ _ W2) as B2.
  repeat split; intros.
  - apply two_ops_left. rewrite B1, B2. cbn [fst snd]. apply Z.ltb_ge. destruct (ic_right c1); lia.
  - apply two_ops_right. rewrite B1, B2. cbn [fst snd]. apply Z.ltb_lt. destruct (ic_right c1); lia.
  - apply two_ops_left. rewrite B1, B2. cbn [fst snd]. rewrite H0. apply Z.ltb_ge. lia.
  - apply two_ops_right. rewrite B1, B2. cbn [fst snd]. rewrite H0. apply Z.ltb_lt. lia.
Qed.
End TwoOps.

(* prefix and postfix operators *)
Lemma primary_prefix_ref f d pre n rest :
  is_prefix tbl pre = true -> (MAX_DEPTH <? d + 1) = false -> (MAX_DEPTH <? d + 1 + 1) = false -> no_postfix_head tbl rest ->
  parse_primary tbl tm (S (S (S (S (S (S f)))))) d (TOp pre :: TRef n :: rest) = Ok (AUnary pre (ARef n), rest).
Proof.
  intros P D1 D2 NP. rewrite parse_primary_eq. rewrite D1. rewrite (parse_token_prefix_eq tbl _ _ _ _ P). rewrite advance_eof. cbn [bind].
  rewrite primary_ref; [| exact D2 | exact NP]. cbn [bind]. unfold built. cbn [ast_height]. simp_depth. cbn [bind].
  apply postfixes_none. exact NP.
Qed.

Lemma primary_prefix_ref_postfix f d pre n post rest :
  is_prefix tbl pre = true -> is_postfix tbl post = true -> (MAX_DEPTH <? d + 1) = false -> (MAX_DEPTH <? d + 1 + 1) = false ->
  no_postfix_head tbl rest ->
  parse_primary tbl tm (S (S (S (S (S (S f)))))) d (TOp pre :: TRef n :: TOp post :: rest) = Ok (AUnary pre (APostfix (ARef n) post), rest).
Proof.
  intros P Q D1 D2 NP. rewrite parse_primary_eq. rewrite D1. rewrite (parse_token_prefix_eq tbl _ _ _ _ P). rewrite advance_eof. cbn [bind].
  rewrite parse_primary_eq. rewrite D2. cbn [parse_token]. rewrite advance_eof. cbn [bind].
  rewrite (postfixes_step tbl _ _ _ _ Q). unfold built. cbn [ast_height]. simp_depth. cbn [bind].
  rewrite postfixes_none by exact NP. cbn [bind]. cbn [ast_height]. simp_depth. cbn [bind].
  apply postfixes_none. exact NP.
Qed.

(* `pre a o1 b`: the prefix operator takes only `a` - it binds tighter than every infix operator *)
Theorem prefix_tighter_than_infix : forall pre o1 c1 a b,
  is_prefix tbl pre = true -> wf_infix o1 c1 ->
  parse_tokens tbl tm [TOp pre; TRef a; TOp o1; TRef b] = Ok (ABinary o1 (AUnary pre (ARef a)) (ARef b)).
Proof.
  intros pre o1 c1 a b P W1. pose proof W1 as (_ & R1 & P1). pose proof (bp_of _ _ W1) as B1.
  eapply tokens_single with (f := 30%nat); [reflexivity | discriminate |].
  rewrite parse_expression_step.
  rewrite primary_prefix_ref; [| exact P | reflexivity | reflexivity | eapply not_postfix_head_op; exact W1]. cbn [bind].
  rewrite parse_op_enter by reflexivity.
  erewrite loop_fold with (rhs := ARef b) (ts3 := []) (rhs' := ARef b) (ts4 := []);
    [ | exact P1 | rewrite B1; cbn [fst]; apply Z.ltb_ge; lia
      | apply primary_ref; [reflexivity | exact I]
      | reflexivity
      | cbn [cur_prec hd_error tok_prec fst]; rewrite B1; cbn [snd]; destruct (ic_right c1);
        (match goal with |- (if ?x then _ else _) = _ => replace x with false; [reflexivity | symmetry; apply Z.ltb_ge; lia] end)
      | reflexivity | reflexivity ].
  reflexivity.
Qed.

(* `pre a post`: the postfix operator takes `a` first - it binds tighter than the prefix operator *)
Theorem postfix_tighter_than_prefix : forall pre post a,
  is_prefix tbl pre = true -> is_postfix tbl post = true ->
  parse_tokens tbl tm [TOp pre; TRef a; TOp post] = Ok (AUnary pre (APostfix (ARef a) post)).
Proof.
  intros pre post a P Q.
  eapply tokens_single with (f := 26%nat); [reflexivity | discriminate |].
  rewrite parse_expression_step.
  rewrite primary_prefix_ref_postfix; [| exact P | exact Q | reflexivity | reflexivity | exact I]. cbn [bind].
  rewrite parse_op_enter by reflexivity. reflexivity.
Qed.

(* table conditions for the punctuation operators: `?`, `:` and `not` are not infix operators *)
Definition punct_ok : Prop :=
  infix_cfg_of tbl s_qmark = None /\ infix_cfg_of tbl s_colon = None /\ infix_cfg_of tbl s_not = None /\
  is_postfix tbl s_qmark = false /\ is_postfix tbl s_colon = false /\ is_postfix tbl s_not = false.

(* fold of the last operator of an expression: `... lhs o x` followed by a token list that ends the operand *)
Lemma fold_last f d prec lhs o cfg n ts3 :
  wf_infix o cfg -> (fst (binding_power tbl o) <? prec)%Z = false ->
  (MAX_DEPTH <? d + 1) = false -> (MAX_DEPTH <? ast_height (ABinary o lhs (ARef n))) = false ->
  no_postfix_head tbl ts3 -> cur_is_not ts3 = false -> (fst (cur_prec tbl ts3) <= 0)%Z ->
  parse_op_loop tbl tm (S (S (S (S f)))) d prec lhs (TOp o :: TRef n :: ts3) =
  parse_op_loop tbl tm (S (S (S f))) d prec (ABinary o lhs (ARef n)) ts3.
Proof.
  intros W L D H NP NN CP. pose proof W as (_ & R1 & P1). pose proof (bp_of _ _ W) as B.
  eapply loop_fold with (rhs := ARef n) (ts3 := ts3); try eassumption.
  - apply primary_ref; assumption.
  - rewrite B. cbn [snd]. destruct (ic_right cfg);
      (match goal with |- (if ?x then _ else _) = _ => replace x with false; [reflexivity | symmetry; apply Z.ltb_ge; lia] end).
Qed.

(* `a not o1 b` is not(a o1 b) *)
Theorem not_infix : forall o1 c1 a b, punct_ok -> wf_infix o1 c1 ->
  parse_tokens tbl tm [TRef a; TOp s_not; TOp o1; TRef b] = Ok (AUnary s_not (ABinary o1 (ARef a) (ARef b))).
Proof.
  intros o1 c1 a b (_ & _ & _ & _ & _ & PN) W1. pose proof W1 as (_ & R1 & P1). pose proof (bp_of _ _ W1) as B1.
  eapply tokens_single with (f := 30%nat); [reflexivity | discriminate |].
  rewrite parse_expression_step.
  rewrite primary_ref; [| reflexivity | exact PN]. cbn [bind].
  rewrite parse_op_enter by reflexivity.
  erewrite loop_fold_not with (rhs := ARef b) (ts3 := []) (rhs' := ARef b) (ts4 := []);
    [ | exact P1 | rewrite B1; cbn [fst]; apply Z.ltb_ge; lia | rewrite B1; cbn [fst]; apply Z.leb_le; lia
      | apply primary_ref; [reflexivity | exact I] | reflexivity
      | cbn [cur_prec hd_error tok_prec fst]; rewrite B1; cbn [snd]; destruct (ic_right c1);
        (match goal with |- (if ?x then _ else _) = _ => replace x with false; [reflexivity | symmetry; apply Z.ltb_ge; lia] end)
      | reflexivity | reflexivity ].
  reflexivity.
Qed.


End G.
