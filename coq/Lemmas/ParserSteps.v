(** One-step characterisations of the Pratt loop (parser.rs parse_op_inner) and of operand parsing, fuel-generic. *)
From EE Require Import Chars OpTable Decimal Token Ast Parser Utf8.
Open Scope N_scope.

Section S.
Variable tbl : optable.
Notation tm := TmEof.

(* an infix operator of the table that is neither the word `not`, nor `?`, nor also a postfix operator *)
Definition plain (op : str) : Prop :=
  is_not op = false /\ str_eqb op s_qmark = false /\ is_postfix tbl op = false.

Definition no_postfix_head (ts : list token) : Prop :=
  match ts with TOp op :: _ => is_postfix tbl op = false | _ => True end.

(* unfolding equations with the sub-calls kept folded *)
Lemma parse_op_loop_eq f d prec lhs ts :
  parse_op_loop tbl tm (S f) d prec lhs ts =
    match ts with
    | TOp cur :: _ =>
        let isnot := is_not cur in
        (if isnot then next_prec tbl tm ts else Ok (cur_prec tbl ts)) >>= fun '(l_bp, r_bp) =>
        if isnot && (l_bp <? 0)%Z then Err
        else if negb isnot && str_eqb cur s_qmark then
          if (0 <? prec)%Z then Ok (lhs, ts)
          else
            advance tm ts >>= fun r =>
            if MAX_DEPTH <? d + 1 then Err else
            parse_expression tbl tm f (d + 1) r >>= fun '(a, r1) =>
            expect tm r1 s_colon >>= fun r2 =>
            parse_expression tbl tm f (d + 1) r2 >>= fun '(b, r3) =>
            built (ATernary lhs a b) r3
        else if (l_bp <? prec)%Z then Ok (lhs, ts)
        else
          (if isnot then advance tm ts else Ok ts) >>= fun ts1 =>
          let op := match ts1 with TOp o :: _ => o | _ => [] end in
          advance tm ts1 >>= fun ts2 =>
          parse_primary tbl tm f d ts2 >>= fun '(rhs, ts3) =>
          (if cur_is_not ts3 then next_prec tbl tm ts3 else Ok (cur_prec tbl ts3)) >>= fun '(cur_l_bp, _) =>
          (if (r_bp <? cur_l_bp)%Z then parse_op tbl tm f d r_bp rhs ts3 else Ok (rhs, ts3)) >>= fun '(rhs', ts4) =>
          let node := ABinary op lhs rhs' in
          let node' := if isnot then AUnary s_not node else node in
          built node' ts4 >>= fun '(node'', ts5) =>
          parse_op_loop tbl tm f d prec node'' ts5
    | _ => Ok (lhs, ts)
    end.
Proof. reflexivity. Qed.

Lemma parse_primary_eq f d ts :
  parse_primary tbl tm (S f) d ts =
    if MAX_DEPTH <? d + 1 then Err else
    parse_token tbl tm f (d + 1) ts >>= fun '(lhs, ts1) => parse_postfixes tbl tm f lhs ts1.
Proof. reflexivity. Qed.

Lemma parse_token_prefix_eq f d op rest : is_prefix tbl op = true ->
  parse_token tbl tm (S f) d (TOp op :: rest) =
  advance tm (TOp op :: rest) >>= fun r => parse_primary tbl tm f d r >>= fun '(e, r1) => built (AUnary op e) r1.
Proof. intros H. cbn [parse_token]. rewrite H. reflexivity. Qed.

Lemma parse_token_paren_eq f d rest :
  parse_token tbl tm (S f) d (TDelim DLParen :: rest) =
  advance tm (TDelim DLParen :: rest) >>= fun r => parse_expression tbl tm f d r >>= fun '(e, r1) =>
  if cur_is r1 s_rparen then advance tm r1 >>= fun r2 => Ok (e, r2) else Err.
Proof. reflexivity. Qed.

Lemma advance_eof t rest : advance tm (t :: rest) = Ok rest.
Proof. destruct rest; reflexivity. Qed.

Lemma postfixes_none f lhs ts : no_postfix_head ts -> parse_postfixes tbl tm (S f) lhs ts = Ok (lhs, ts).
Proof. intros H. cbn [parse_postfixes]. destruct ts as [|t r]; [reflexivity|]. destruct t; try reflexivity. cbn in H. rewrite H. reflexivity. Qed.

Lemma postfixes_step f lhs op rest : is_postfix tbl op = true ->
  parse_postfixes tbl tm (S f) lhs (TOp op :: rest) =
  built (APostfix lhs op) rest >>= fun '(e, ts3) => parse_postfixes tbl tm f e ts3.
Proof. intros H. cbn [parse_postfixes]. rewrite H. rewrite advance_eof. reflexivity. Qed.

(* a name as operand *)
Lemma primary_ref f d n rest :
  (MAX_DEPTH <? d + 1) = false -> no_postfix_head rest ->
  parse_primary tbl tm (S (S (S f))) d (TRef n :: rest) = Ok (ARef n, rest).
Proof.
  intros D P. rewrite parse_primary_eq. rewrite D. cbn [parse_token]. rewrite advance_eof. cbn [bind].
  apply postfixes_none. exact P.
Qed.

(* the loop stops: end of input, a non-operator token, or an operator that binds looser than the current level *)
Lemma loop_stop_nil f d prec lhs : parse_op_loop tbl tm (S f) d prec lhs [] = Ok (lhs, []).
Proof. reflexivity. Qed.
Lemma loop_stop_delim f d prec lhs dl rest : parse_op_loop tbl tm (S f) d prec lhs (TDelim dl :: rest) = Ok (lhs, TDelim dl :: rest).
Proof. reflexivity. Qed.
Lemma loop_stop_looser f d prec lhs cur rest :
  plain cur -> (fst (binding_power tbl cur) <? prec)%Z = true ->
  parse_op_loop tbl tm (S f) d prec lhs (TOp cur :: rest) = Ok (lhs, TOp cur :: rest).
Proof.
  intros (N & Q & _) L. rewrite parse_op_loop_eq. cbn zeta. rewrite N. cbn [bind cur_prec hd_error tok_prec].
  destruct (binding_power tbl cur) as [l r]. cbn [fst] in L. cbn [andb negb]. rewrite Q, L. reflexivity.
Qed.

(* the loop folds one operator: lhs cur rhs', where rhs' is the operand extended by every tighter operator to its right *)
Lemma loop_fold f d prec lhs cur rest rhs ts3 rhs' ts4 :
  plain cur -> (fst (binding_power tbl cur) <? prec)%Z = false ->
  parse_primary tbl tm f d rest = Ok (rhs, ts3) -> cur_is_not ts3 = false ->
  (if (snd (binding_power tbl cur) <? fst (cur_prec tbl ts3))%Z
   then parse_op tbl tm f d (snd (binding_power tbl cur)) rhs ts3 else Ok (rhs, ts3)) = Ok (rhs', ts4) ->
  (MAX_DEPTH <? d + 1) = false -> (MAX_DEPTH <? ast_height (ABinary cur lhs rhs')) = false ->
  parse_op_loop tbl tm (S f) d prec lhs (TOp cur :: rest) = parse_op_loop tbl tm f d prec (ABinary cur lhs rhs') ts4.
Proof.
  intros (N & Q & _) L P NN G D H. unfold R in *. rewrite parse_op_loop_eq. cbn zeta. rewrite N. cbn [bind cur_prec hd_error tok_prec].
  destruct (binding_power tbl cur) as [l r]. cbn [fst snd] in *. cbn [andb negb]. rewrite Q, L. cbn [bind].
  rewrite advance_eof. cbn [bind]. rewrite P. cbn [bind]. rewrite NN. cbn [bind].
  destruct (cur_prec tbl ts3) as [cl cr]. cbn [fst] in G. rewrite G. cbn [bind].
  unfold built. rewrite H. cbn [bind]. reflexivity.
Qed.

(* `x not OP y`: the operator behind `not` decides; the node is wrapped in Unary(not, .) *)
Lemma loop_fold_not f d prec lhs cur rest rhs ts3 rhs' ts4 :
  plain cur -> (fst (binding_power tbl cur) <? prec)%Z = false -> (0 <=? fst (binding_power tbl cur))%Z = true ->
  parse_primary tbl tm f d rest = Ok (rhs, ts3) -> cur_is_not ts3 = false ->
  (if (snd (binding_power tbl cur) <? fst (cur_prec tbl ts3))%Z
   then parse_op tbl tm f d (snd (binding_power tbl cur)) rhs ts3 else Ok (rhs, ts3)) = Ok (rhs', ts4) ->
  (MAX_DEPTH <? d + 1) = false -> (MAX_DEPTH <? ast_height (AUnary s_not (ABinary cur lhs rhs'))) = false ->
  parse_op_loop tbl tm (S f) d prec lhs (TOp s_not :: TOp cur :: rest) =
  parse_op_loop tbl tm f d prec (AUnary s_not (ABinary cur lhs rhs')) ts4.
Proof.
  intros (N & Q & _) L Z P NN G D H. unfold R in *. rewrite parse_op_loop_eq. cbn zeta.
  assert (E: is_not s_not = true) by reflexivity. rewrite E.
  unfold next_prec, peek_tok. cbn [bind tok_prec].
  destruct (binding_power tbl cur) as [l r]. cbn [fst snd] in *.
  assert (Zn: (l <? 0)%Z = false) by (apply Z.ltb_ge; apply Z.leb_le; exact Z). rewrite Zn. cbn [andb negb]. rewrite L. cbn [bind].
  rewrite advance_eof. cbn [bind]. rewrite advance_eof. cbn [bind]. rewrite P. cbn [bind]. rewrite NN. cbn [bind].
  destruct (cur_prec tbl ts3) as [cl cr]. cbn [fst] in G. rewrite G. cbn [bind].
  unfold built. rewrite H. cbn [bind]. reflexivity.
Qed.

(* general form: what follows the right operand may start with `not` (then the operator behind it is looked at) *)
Lemma loop_fold_gen f d prec lhs cur rest rhs ts3 rhs' ts4 :
  plain cur -> (fst (binding_power tbl cur) <? prec)%Z = false ->
  parse_primary tbl tm f d rest = Ok (rhs, ts3) ->
  ((if cur_is_not ts3 then next_prec tbl tm ts3 else Ok (cur_prec tbl ts3)) >>= fun '(cl, _) =>
     if (snd (binding_power tbl cur) <? cl)%Z then parse_op tbl tm f d (snd (binding_power tbl cur)) rhs ts3 else Ok (rhs, ts3))
    = Ok (rhs', ts4) ->
  (MAX_DEPTH <? d + 1) = false -> (MAX_DEPTH <? ast_height (ABinary cur lhs rhs')) = false ->
  parse_op_loop tbl tm (S f) d prec lhs (TOp cur :: rest) = parse_op_loop tbl tm f d prec (ABinary cur lhs rhs') ts4.
Proof.
  intros (N & Q & _) L P G D H. unfold R in *. rewrite parse_op_loop_eq. cbn zeta. rewrite N. cbn [bind cur_prec hd_error tok_prec].
  destruct (binding_power tbl cur) as [l r]. cbn [fst snd] in *. cbn [andb negb]. rewrite Q, L. cbn [bind].
  rewrite advance_eof. cbn [bind]. rewrite P. cbn [bind].
  destruct (if cur_is_not ts3 then next_prec tbl tm ts3 else Ok (cur_prec tbl ts3)) as [[cl cr]| | |]; cbn [bind] in G |- *; try discriminate.
  rewrite G. cbn [bind]. unfold built. rewrite H. cbn [bind]. reflexivity.
Qed.

(* the conditional at the outermost level: condition = everything folded so far; both branches are full expressions *)
Lemma loop_question_outer f d lhs rest :
  (MAX_DEPTH <? d + 1) = false ->
  parse_op_loop tbl tm (S f) d 0%Z lhs (TOp s_qmark :: rest) =
    parse_expression tbl tm f (d + 1) rest >>= fun '(a, r1) =>
    expect tm r1 s_colon >>= fun r2 =>
    parse_expression tbl tm f (d + 1) r2 >>= fun '(b, r3) => built (ATernary lhs a b) r3.
Proof.
  intros D. rewrite parse_op_loop_eq. cbn zeta. assert (E: is_not s_qmark = false) by reflexivity. rewrite E. cbn [bind andb negb].
  destruct (cur_prec tbl (TOp s_qmark :: rest)) as [l r].
  assert (E2: str_eqb s_qmark s_qmark = true) by reflexivity. rewrite E2. cbn [Z.ltb Z.compare]. rewrite advance_eof. cbn [bind]. rewrite D. reflexivity.
Qed.

(* an operator token that is not an infix operator (`:`, `?` inside an operand, a prefix-only operator) ends the loop *)
Lemma loop_stop_noninfix f d prec lhs cur rest :
  is_not cur = false -> str_eqb cur s_qmark = false -> infix_cfg_of tbl cur = None -> (0 <=? prec)%Z = true ->
  parse_op_loop tbl tm (S f) d prec lhs (TOp cur :: rest) = Ok (lhs, TOp cur :: rest).
Proof.
  intros N Q I P. rewrite parse_op_loop_eq. cbn zeta. rewrite N. cbn [bind cur_prec hd_error tok_prec].
  unfold binding_power. rewrite I. cbn [andb negb]. rewrite Q.
  assert (L: (-1 <? prec)%Z = true) by (apply Z.ltb_lt; apply Z.leb_le in P; lia). rewrite L. reflexivity.
Qed.

(* the conditional is taken only by the outermost level (prec = 0) *)
Lemma loop_question_inner f d prec lhs rest : (0 <? prec)%Z = true ->
  parse_op_loop tbl tm (S f) d prec lhs (TOp s_qmark :: rest) = Ok (lhs, TOp s_qmark :: rest).
Proof.
  intros H. rewrite parse_op_loop_eq. cbn zeta. assert (E: is_not s_qmark = false) by reflexivity. rewrite E. cbn [bind andb negb].
  destruct (cur_prec tbl (TOp s_qmark :: rest)) as [l r].
  assert (E2: str_eqb s_qmark s_qmark = true) by reflexivity. rewrite E2, H. reflexivity.
Qed.

Lemma parse_op_enter f d prec lhs ts : (MAX_DEPTH <? d + 1) = false ->
  parse_op tbl tm (S f) d prec lhs ts = parse_op_loop tbl tm f (d + 1) prec lhs ts.
Proof. intros D. cbn [parse_op]. rewrite D. reflexivity. Qed.

Lemma parse_expression_step f d ts :
  parse_expression tbl tm (S f) d ts = parse_primary tbl tm f d ts >>= fun '(lhs, ts1) => parse_op tbl tm f d 0%Z lhs ts1.
Proof. reflexivity. Qed.
End S.
