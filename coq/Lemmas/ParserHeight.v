(** Every tree the parser returns is at most MAX_DEPTH high: the bound that protects the recursive consumers of the tree
    (Clone, Drop, exec, expr, describe) from stack exhaustion. *)
From EE Require Import Chars OpTable Decimal Token Ast Parser.
Open Scope N_scope.

Section P.
Variable tbl : optable.
Variable tm : terminal.

Definition hb (x : outcome (ast * list token)) : Prop := match x with Ok (t, _) => ast_height t <= MAX_DEPTH | _ => True end.

Lemma hb_bind {A} (x : outcome A) (f : A -> outcome (ast * list token)) : (forall a, x = Ok a -> hb (f a)) -> hb (x >>= f).
Proof. destruct x; cbn; intros H; try exact I. apply H. reflexivity. Qed.
Lemma built_ok e ts a r : built e ts = Ok (a, r) -> a = e /\ r = ts /\ ast_height e <= MAX_DEPTH.
Proof.
  unfold built. destruct (N.ltb_spec MAX_DEPTH (ast_height e)) as [L|L]; intros E; [discriminate|]. inversion E; subst. repeat split. exact L.
Qed.
Lemma hb_built e ts : hb (built e ts).
Proof. unfold built. destruct (N.ltb_spec MAX_DEPTH (ast_height e)) as [L|L]; [exact I | exact L]. Qed.
Lemma of_hb x a r : hb x -> x = Ok (a, r) -> ast_height a <= MAX_DEPTH.
Proof. intros G E. subst x. exact G. Qed.

Lemma postfixes_hb : forall f lhs ts a r, ast_height lhs <= MAX_DEPTH -> parse_postfixes tbl tm f lhs ts = Ok (a, r) -> ast_height a <= MAX_DEPTH.
Proof.
  induction f as [|f IH]; intros lhs ts a r Hl H; cbn [parse_postfixes] in H; [discriminate|].
  destruct ts as [|t rest]; [inversion H; subst; exact Hl|].
  destruct t; try (inversion H; subst; exact Hl).
  destruct (is_postfix tbl s); [|inversion H; subst; exact Hl].
  destruct (advance tm (TOp s :: rest)) as [ts2| | |]; cbn [bind] in H; try discriminate.
  destruct (built (APostfix lhs s) ts2) as [[e ts3]| | |] eqn:B; cbn [bind] in H; try discriminate.
  apply built_ok in B. destruct B as (-> & -> & B). eapply IH; eassumption.
Qed.

Definition all_hb (f : nat) : Prop :=
  (forall d ts a r, parse_expression tbl tm f d ts = Ok (a, r) -> ast_height a <= MAX_DEPTH) /\
  (forall d ts a r, parse_primary tbl tm f d ts = Ok (a, r) -> ast_height a <= MAX_DEPTH) /\
  (forall d ts a r, parse_token tbl tm f d ts = Ok (a, r) -> ast_height a <= MAX_DEPTH) /\
  (forall d p lhs ts a r, ast_height lhs <= MAX_DEPTH -> parse_op tbl tm f d p lhs ts = Ok (a, r) -> ast_height a <= MAX_DEPTH) /\
  (forall d p lhs ts a r, ast_height lhs <= MAX_DEPTH -> parse_op_loop tbl tm f d p lhs ts = Ok (a, r) -> ast_height a <= MAX_DEPTH).

Ltac hstep I1 I2 I3 I7 I8 :=
  match goal with
  | H : Err = Ok _ |- _ => discriminate H
  | H : Ok _ = Ok _ |- _ => inversion H; subst; clear H
  | H : built _ _ = Ok (_, _) |- _ => apply built_ok in H; destruct H as (? & ? & ?); subst
  | H : (if ?c then _ else _) = Ok _ |- _ => destruct c
  | H : parse_postfixes _ _ _ _ _ = Ok (_, _) |- _ => apply postfixes_hb in H; [|assumption]
  | H : _ = Ok (_, _) |- _ =>
      first [ apply I1 in H | apply I2 in H | apply I3 in H | apply I7 in H; [|assumption] | apply I8 in H; [|assumption] ]
  | |- hb (built _ _) => apply hb_built
  | |- hb (Ok (_, _)) => cbn [hb ast_height]; first [assumption | unfold MAX_DEPTH; lia]
  | |- hb Err => exact I
  | |- hb Fuel => exact I
  | |- hb (bind _ _) => apply hb_bind; intros [? ?] ?
  | |- hb (bind _ _) => apply hb_bind; intros ? ?
  | |- hb (match ?x with _ => _ end) => destruct x eqn:?
  | |- hb (if ?c then _ else _) => destruct c
  | |- hb ?x => lazymatch x with Ok _ => fail | _ => destruct x as [[? ?]| | |] eqn:?; [| exact I | exact I | exact I] end
  end.

Lemma parser_hb : forall f, all_hb f.
Proof.
  induction f as [|f IH]; unfold all_hb.
  - repeat split; intros; cbn in *; discriminate.
  - destruct IH as (I1 & I2 & I3 & I7 & I8).
    repeat split; intros until r.
    + apply of_hb. cbn [parse_expression]. repeat hstep I1 I2 I3 I7 I8.
    + apply of_hb. cbn [parse_primary]. repeat hstep I1 I2 I3 I7 I8.
    + apply of_hb. cbn [parse_token]. repeat hstep I1 I2 I3 I7 I8.
    + intros Hl. apply of_hb. cbn [parse_op]. repeat hstep I1 I2 I3 I7 I8.
    + intros Hl. apply of_hb. cbn [parse_op_loop]. repeat hstep I1 I2 I3 I7 I8.
Qed.

(* statements: a program of several statements adds the Stmt node on top *)
Fixpoint all_le (l : list ast) : Prop := match l with [] => True | x :: r => ast_height x <= MAX_DEPTH /\ all_le r end.
Lemma all_le_rev' : forall l acc, all_le l -> all_le acc -> all_le (rev_append l acc).
Proof. induction l as [|x l IH]; intros acc H1 H2; cbn [rev_append]; [exact H2|]. destruct H1 as [Hx Hl]. apply IH; [exact Hl | split; assumption]. Qed.

Lemma stmt_loop_hb : forall f ts acc es, all_le acc -> parse_stmt_loop tbl tm f ts acc = Ok es -> all_le es.
Proof.
  induction f as [|f IH]; intros ts acc es Ha H; cbn [parse_stmt_loop] in H; [discriminate|].
  destruct ts as [|t ts'].
  - inversion H; subst. unfold rev'. apply all_le_rev'; [exact Ha | exact I].
  - destruct (parse_expression tbl tm f 0 (t :: ts')) as [[e r]| | |] eqn:E; cbn [bind] in H; try discriminate.
    apply (proj1 (parser_hb f)) in E.
    assert (Ha': all_le (e :: acc)) by (split; assumption).
    destruct r as [|t2 r2]; [eapply IH; eassumption|].
    destruct t2; try (eapply IH; eassumption).
    destruct (advance tm (TSemi :: r2)) as [r1| | |]; cbn [bind] in H; try discriminate. eapply IH; eassumption.
Qed.

Lemma mx_all_le : forall l, all_le l ->
  (fix mx (l : list ast) : N := match l with [] => 0 | x :: r => N.max (ast_height x) (mx r) end) l <= MAX_DEPTH.
Proof. induction l as [|x r IH]; intros H; [unfold MAX_DEPTH; lia|]. destruct H as [Hx Hr]. specialize (IH Hr). lia. Qed.

Lemma stmt_height l : all_le l -> ast_height (AStmt l) <= MAX_DEPTH + 1.
Proof. intros H. cbn [ast_height]. pose proof (mx_all_le l H). lia. Qed.

Theorem parse_tokens_height : forall ts t, parse_tokens tbl tm ts = Ok t -> ast_height t <= MAX_DEPTH + 1.
Proof.
  intros ts t H. unfold parse_tokens in H.
  destruct ts as [|t0 ts'].
  - destruct tm; try discriminate. cbn in H. inversion H; subst. cbn. unfold MAX_DEPTH. lia.
  - destruct (parse_stmt_loop tbl tm (parse_fuel (t0 :: ts')) (t0 :: ts') []) as [es| | |] eqn:E; cbn [bind] in H; try discriminate.
    apply stmt_loop_hb in E; [|exact I].
    destruct es as [|e [|e2 r]]; inversion H; subst.
    + cbn. unfold MAX_DEPTH. lia.
    + destruct E as [He _]. lia.
    + apply stmt_height. exact E.
Qed.
End P.
