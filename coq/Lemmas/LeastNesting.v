(** The printer's parenthesisation needs the least nesting: whatever way [p] a tree is written that the grammar accepts - with
    any redundant parentheses, with `not (x OP y)` for `x not OP y` - the text the printer writes for that tree consumes no more
    of the parser's nesting limit than [p] does. Hence if a program is accepted, so is the rendering of its tree (D23: this was
    false before the fixes "exact parentheses" and "the nesting limit counts recursion, not loop iterations" - the first
    attempt to prove it showed the second defect). *)
From EE Require Import Chars OpTable Decimal Token Lexer Ast Parser Printer Api Ptree Etoks Utf8 ParserFuel ParserMono ParserSteps PrattFull PrattParen RoundTrip.
Open Scope N_scope.

Section LN.
Variable tbl : optable.
Notation lbp o := (fst (binding_power tbl o)).
Notation rbp o := (snd (binding_power tbl o)).
Notation wf := (Etoks.wf tbl).
Notation minp := (Etoks.minp tbl).
Notation wfp := (PrattParen.wfp tbl).
Notation lparen := (Etoks.lparen tbl).
Notation rparen := (Etoks.rparen tbl).

(* the two binding powers of an operator are neighbours: 2p and 2p+1 / 2p-1 *)
Lemma bp_close o : (lbp o - 1 <= rbp o)%Z /\ (rbp o - 1 <= lbp o)%Z.
Proof. unfold binding_power. destruct (infix_cfg_of tbl o) as [c|]; cbn [fst snd]; [destruct (ic_right c)|]; lia. Qed.

Definition is_pparen (p : ptree) : bool := match p with PParen _ => true | _ => false end.

(* binding powers do not decrease down a spine that the grammar accepts without further parentheses *)
Lemma rspine_mono : forall p, wfp p = true ->
  match p with PBin _ o _ _ => forall x, In x (prspine p) -> (rbp o <= rbp x)%Z | _ => True end.
Proof.
  induction p as [| | | |nt o l IHl r IHr| | | | |]; try (intros; exact I).
  intros W. destruct (wfp_bin tbl _ _ _ _ W) as (_ & _ & _ & _ & HR & _ & Wr).
  intros x [<-|Hx]; [lia|]. cbn [prspine] in Hx.
  destruct r as [| | | |nt2 z l2 r2| | | | |]; try (destruct Hx; fail).
  specialize (IHr Wr x Hx). cbn beta iota in IHr.
  assert (Hz : (rbp o < lbp z)%Z) by (apply HR; left; reflexivity).
  destruct (bp_close z). lia.
Qed.
Lemma lspine_mono : forall p, wfp p = true ->
  match p with PBin _ o _ _ => forall y, In y (plspine p) -> (lbp o <= lbp y)%Z | _ => True end.
Proof.
  induction p as [| | | |nt o l IHl r IHr| | | | |]; try (intros; exact I).
  intros W. destruct (wfp_bin tbl _ _ _ _ W) as (_ & _ & _ & HL & _ & Wl & _).
  intros y [<-|Hy]; [lia|]. cbn [plspine] in Hy.
  destruct l as [| | | |nt2 z l2 r2| | | | |]; try (destruct Hy; fail).
  specialize (IHl Wl y Hy). cbn beta iota in IHl.
  assert (Hz : (lbp o < rbp z)%Z) by (apply HL; left; reflexivity).
  destruct (bp_close z). lia.
Qed.

Lemma mins_mk nt o l r :
  mins tbl (mk nt o l r) =
  Some (match mins tbl l with
        | Some (m, _) => if left_paren (lbp o) l (mins tbl l) then lbp o else Z.min (lbp o) m
        | None => lbp o end,
        match mins tbl r with
        | Some (_, m) => if right_paren (rbp o) r (mins tbl r) then rbp o else Z.min (rbp o) m
        | None => rbp o end).
Proof. destruct nt; cbn [mk mins]; [rewrite str_eqb_refl|]; destruct (binding_power tbl o); reflexivity. Qed.

(* the minima reported by Printer.mins are attained on the exposed spines *)
Lemma mins_attained : forall n t, (size t < n)%nat -> forall lm rm, mins tbl t = Some (lm, rm) ->
  (exists y, In y (plspine (minp t)) /\ lm = lbp y) /\ (exists x, In x (prspine (minp t)) /\ rm = rbp x).
Proof.
  induction n as [|n IH]; intros t Hs lm rm Hm; [lia|].
  pose proof (mins_spec tbl t) as MS. rewrite Hm in MS. destruct MS as (Hil & _).
  destruct (infix_like_inv t Hil) as (nt & o & l & r & ->). destruct (size_mk nt o l r) as [S1 S2].
  rewrite mins_mk in Hm. inversion Hm as [[Hl Hr]]. clear Hm. rewrite minp_node. cbn [plspine prspine]. split.
  - destruct (mins tbl l) as [[m m']|] eqn:El; [|exists o; split; [left; reflexivity | reflexivity]].
    unfold Etoks.lparen. rewrite El. destruct (left_paren (lbp o) l (Some (m, m'))); [exists o; split; [left; reflexivity | reflexivity]|].
    cbn [wrap]. destruct (Z.min_spec (lbp o) m) as [[_ ->]|[_ ->]]; [exists o; split; [left; reflexivity | reflexivity]|].
    destruct (IH l ltac:(lia) m m' El) as [(y & Hy & ->) _]. exists y. split; [right; exact Hy | reflexivity].
  - destruct (mins tbl r) as [[m' m]|] eqn:Er; [|exists o; split; [left; reflexivity | reflexivity]].
    unfold Etoks.rparen. rewrite Er. destruct (right_paren (rbp o) r (Some (m', m))); [exists o; split; [left; reflexivity | reflexivity]|].
    cbn [wrap]. destruct (Z.min_spec (rbp o) m) as [[_ ->]|[_ ->]]; [exists o; split; [left; reflexivity | reflexivity]|].
    destruct (IH r ltac:(lia) m' m Er) as [_ (x & Hx & ->)]. exists x. split; [right; exact Hx | reflexivity].
Qed.

(* what the grammar accepts is a well-formed tree *)
Lemma wf_mk_intro nt o l r : plainb tbl o = true -> wf l = true -> wf r = true -> wf (mk nt o l r) = true.
Proof. intros H1 H2 H3. destruct nt; cbn [mk Etoks.wf]; [rewrite str_eqb_refl|]; rewrite H1, H2, H3; reflexivity. Qed.

Lemma strip_wf : forall n p, (psize p < n)%nat -> wfp p = true -> wf (strip p) = true.
Proof.
  induction n as [|n IH]; intros p Hs W; [lia|].
  destruct p as [lit|nm|q|op e|nt o l r|e op|c a b|nm args|es|kvs]; cbn [psize] in Hs.
  - reflexivity.
  - reflexivity.
  - cbn [strip]. apply (IH q); [lia | exact W].
  - cbn [PrattParen.wfp] in W. apply andb_prop in W as [W We]. apply andb_prop in W as [Wn _].
    pose proof (IH e ltac:(lia) We) as He. cbn [strip Etoks.wf].
    destruct (strip e) eqn:Ee; try (rewrite Wn, He; reflexivity).
    destruct (str_eqb op s_not); [exact He | rewrite Wn, He; reflexivity].
  - destruct (wfp_bin tbl _ _ _ _ W) as (Po & _ & _ & _ & _ & Wl & Wr). cbn [strip].
    apply wf_mk_intro; [exact Po | apply (IH l); [lia | exact Wl] | apply (IH r); [lia | exact Wr]].
  - cbn [PrattParen.wfp] in W. apply andb_prop in W as [W We]. apply andb_prop in W as [W _]. apply andb_prop in W as [Wo _].
    cbn [strip Etoks.wf]. rewrite Wo, (IH e ltac:(lia) We). reflexivity.
  - cbn [PrattParen.wfp] in W. apply andb_prop in W as [W Wb]. apply andb_prop in W as [W Wa]. apply andb_prop in W as [_ Wc].
    cbn [strip Etoks.wf]. rewrite (IH c ltac:(lia) Wc), (IH a ltac:(lia) Wa), (IH b ltac:(lia) Wb). reflexivity.
  - rewrite strip_func, wf_func. rewrite wfp_func in W. fold (psizel args) in Hs.
    revert Hs W. clear -IH. induction args as [|x r IHr]; cbn [psizel wfpl stripl wfl]; intros Hs W; [reflexivity|].
    apply andb_prop in W as [Wx Wr]. rewrite (IH x ltac:(lia) Wx), (IHr ltac:(lia) Wr). reflexivity.
  - rewrite strip_list, wf_list. rewrite wfp_list in W. fold (psizel es) in Hs.
    revert Hs W. clear -IH. induction es as [|x r IHr]; cbn [psizel wfpl stripl wfl]; intros Hs W; [reflexivity|].
    apply andb_prop in W as [Wx Wr]. rewrite (IH x ltac:(lia) Wx), (IHr ltac:(lia) Wr). reflexivity.
  - rewrite strip_map, wf_map. rewrite wfp_map in W. fold (psizem kvs) in Hs.
    revert Hs W. clear -IH. induction kvs as [|[k v] r IHr]; cbn [psizem wfpm stripm wfm]; intros Hs W; [reflexivity|].
    apply andb_prop in W as [W Wr]. apply andb_prop in W as [Wk Wv].
    rewrite (IH k ltac:(lia) Wk), (IH v ltac:(lia) Wv), (IHr ltac:(lia) Wr). reflexivity.
Qed.

Definition least (p : ptree) : Prop := pneed (minp (strip p)) <= pneed p.

Lemma pneed_bin_nt nt nt' o l r : pneed (PBin nt o l r) = pneed (PBin nt' o l r). Proof. reflexivity. Qed.

(* an operand of an infix operator: the printer writes it with no more nesting than the accepted spelling has *)
Lemma operand_left o l :
  (forall q, (psize q <= psize l)%nat -> wfp q = true -> least q) ->
  wfp l = true -> is_ptern l = false -> (forall x, In x (prspine l) -> (lbp o < rbp x)%Z) ->
  pneed (wrap (lparen (strip l) o) (minp (strip l))) <= pneed l.
Proof.
  intros IH W Ht HS. rewrite pneed_wrap.
  assert (Hl : least l) by (apply IH; [lia | exact W]). unfold least in Hl.
  destruct l as [lit|nm|q|op e|nt z l2 r2|e op|c a b|nm args|es|kvs]; try discriminate Ht;
    try (unfold Etoks.lparen, left_paren; cbn [strip is_ternary mins orb]; exact Hl).
  - (* already parenthesised *)
    cbn [strip pneed]. pose proof (IH q ltac:(cbn [psize]; lia) W) as Hq. unfold least in Hq.
    destruct (lparen (strip q) o); lia.
  - (* prefix operator: `not (x OP y)` is written `x not OP y` *)
    cbn [PrattParen.wfp] in W. apply andb_prop in W as [W We]. apply andb_prop in W as [_ Pf].
    destruct (is_infix_like (strip (PUn op e))) eqn:Hil.
    + destruct e as [lit|nm|q|op2 e2|nt2 z2 a2 b2|e2 op2|c2 a2 b2|nm2 args2|es2|kvs2]; cbn [strip] in Hil;
        try (unfold is_infix_like, infix_like in Hil; destruct (str_eqb op s_not); discriminate Hil); try discriminate Pf.
      (* PUn op (PParen q) with strip q = ABinary .. and op = not *)
      { cbn [strip] in *. unfold is_infix_like, infix_like in Hil.
        destruct (strip q) as [| |z a b| | | | | | | |] eqn:Eq; try (destruct (str_eqb op s_not); discriminate Hil).
        destruct (str_eqb op s_not) eqn:En; [|discriminate Hil]. apply str_eqb_eq in En. subst op.
        pose proof (IH q ltac:(cbn [psize]; lia) We) as Hq. unfold least in Hq. rewrite Eq in Hq.
        change (AUnary s_not (ABinary z a b)) with (mk true z a b). change (ABinary z a b) with (mk false z a b) in Hq.
        rewrite minp_node in Hq |- *. rewrite (pneed_bin_nt true false). cbn [pneed] in *.
        match goal with H : N.max ?x ?y <= _ |- _ => set (M := N.max x y) in *; clearbody M end. destruct (lparen (mk true z a b) o); lia. }
    + assert (M : mins tbl (strip (PUn op e)) = None).
      { pose proof (mins_spec tbl (strip (PUn op e))) as MS. destruct (mins tbl (strip (PUn op e))) as [[? ?]|]; [|reflexivity].
        destruct MS as [MS _]. rewrite MS in Hil. discriminate Hil. }
      unfold Etoks.lparen, left_paren. rewrite M. cbn [strip is_ternary orb]. exact Hl.
  - (* infix expression: its spine, which starts with z, binds tighter than o all the way down *)
    assert (Wm : wf (strip (PBin nt z l2 r2)) = true) by (apply (strip_wf (S (psize (PBin nt z l2 r2)))); [lia | exact W]).
    cbn [strip] in *. pose proof (minp_wfp tbl _ Wm) as Wp. rewrite minp_node in Wp.
    pose proof (rspine_mono _ Wp) as Mono. cbn beta iota in Mono.
    unfold Etoks.lparen, left_paren.
    assert (T : is_ternary (mk nt z (strip l2) (strip r2)) = false) by (destruct nt; reflexivity). rewrite T. cbn [orb].
    destruct (mins tbl (mk nt z (strip l2) (strip r2))) as [[lm rm]|] eqn:Em; [|exact Hl].
    destruct (mins_attained (S (size (mk nt z (strip l2) (strip r2)))) (mk nt z (strip l2) (strip r2)) ltac:(lia) lm rm Em) as [_ (x & Hx & ->)].
    rewrite minp_node in Hx. specialize (Mono x Hx).
    assert (Hz : (lbp o < rbp z)%Z) by (apply HS; left; reflexivity).
    assert (F : (rbp x <=? lbp o)%Z = false) by (apply Z.leb_gt; lia). rewrite F. exact Hl.
Qed.

Lemma operand_right o r :
  (forall q, (psize q <= psize r)%nat -> wfp q = true -> least q) ->
  wfp r = true -> is_ptern r = false -> (forall y, In y (plspine r) -> (rbp o < lbp y)%Z) ->
  pneed (wrap (rparen (strip r) o) (minp (strip r))) <= pneed r.
Proof.
  intros IH W Ht HS. rewrite pneed_wrap.
  assert (Hl : least r) by (apply IH; [lia | exact W]). unfold least in Hl.
  destruct r as [lit|nm|q|op e|nt z l2 r2|e op|c a b|nm args|es|kvs]; try discriminate Ht;
    try (unfold Etoks.rparen, right_paren; cbn [strip is_ternary mins orb]; exact Hl).
  - cbn [strip pneed]. pose proof (IH q ltac:(cbn [psize]; lia) W) as Hq. unfold least in Hq.
    destruct (rparen (strip q) o); lia.
  - cbn [PrattParen.wfp] in W. apply andb_prop in W as [W We]. apply andb_prop in W as [_ Pf].
    destruct (is_infix_like (strip (PUn op e))) eqn:Hil.
    + destruct e as [lit|nm|q|op2 e2|nt2 z2 a2 b2|e2 op2|c2 a2 b2|nm2 args2|es2|kvs2]; cbn [strip] in Hil;
        try (unfold is_infix_like, infix_like in Hil; destruct (str_eqb op s_not); discriminate Hil); try discriminate Pf.
      { cbn [strip] in *. unfold is_infix_like, infix_like in Hil.
        destruct (strip q) as [| |z a b| | | | | | | |] eqn:Eq; try (destruct (str_eqb op s_not); discriminate Hil).
        destruct (str_eqb op s_not) eqn:En; [|discriminate Hil]. apply str_eqb_eq in En. subst op.
        pose proof (IH q ltac:(cbn [psize]; lia) We) as Hq. unfold least in Hq. rewrite Eq in Hq.
        change (AUnary s_not (ABinary z a b)) with (mk true z a b). change (ABinary z a b) with (mk false z a b) in Hq.
        rewrite minp_node in Hq |- *. rewrite (pneed_bin_nt true false). cbn [pneed] in *.
        match goal with H : N.max ?x ?y <= _ |- _ => set (M := N.max x y) in *; clearbody M end. destruct (rparen (mk true z a b) o); lia. }
    + assert (M : mins tbl (strip (PUn op e)) = None).
      { pose proof (mins_spec tbl (strip (PUn op e))) as MS. destruct (mins tbl (strip (PUn op e))) as [[? ?]|]; [|reflexivity].
        destruct MS as [MS _]. rewrite MS in Hil. discriminate Hil. }
      unfold Etoks.rparen, right_paren. rewrite M. cbn [strip is_ternary orb]. exact Hl.
  - assert (Wm : wf (strip (PBin nt z l2 r2)) = true) by (apply (strip_wf (S (psize (PBin nt z l2 r2)))); [lia | exact W]).
    cbn [strip] in *. pose proof (minp_wfp tbl _ Wm) as Wp. rewrite minp_node in Wp.
    pose proof (lspine_mono _ Wp) as Mono. cbn beta iota in Mono.
    unfold Etoks.rparen, right_paren.
    assert (T : is_ternary (mk nt z (strip l2) (strip r2)) = false) by (destruct nt; reflexivity). rewrite T. cbn [orb].
    destruct (mins tbl (mk nt z (strip l2) (strip r2))) as [[lm rm]|] eqn:Em; [|exact Hl].
    destruct (mins_attained (S (size (mk nt z (strip l2) (strip r2)))) (mk nt z (strip l2) (strip r2)) ltac:(lia) lm rm Em) as [(y & Hy & ->) _].
    rewrite minp_node in Hy. specialize (Mono y Hy).
    assert (Hz : (rbp o < lbp z)%Z) by (apply HS; left; reflexivity).
    assert (F : (lbp y <=? rbp o)%Z = false) by (apply Z.leb_gt; lia). rewrite F. exact Hl.
Qed.

Lemma strip_not_ternary p : is_pparen p = false -> is_ptern p = false -> is_ternary (strip p) = false.
Proof. destruct p; try discriminate; try reflexivity. intros _ _. cbn [strip]. destruct nt; reflexivity. Qed.

(* `not (x OP y)` has one level to spare: the printer writes it `x not OP y` *)
Lemma not_form_slack e :
  (forall q, (psize q < psize e)%nat -> wfp q = true -> least q) ->
  wfp e = true -> is_pparen e = false -> is_pbin e = false -> is_infix_like (strip e) = true ->
  pneed (minp (strip e)) + 1 <= pneed e.
Proof.
  intros IH W Hp Hb Hil.
  destruct e as [lit|nm|q0|op e|nt o l r|e op|c a b|nm args|es|kvs]; try discriminate Hp; try discriminate Hb; try discriminate Hil.
  cbn [PrattParen.wfp] in W. apply andb_prop in W as [W We]. apply andb_prop in W as [_ Pf].
  destruct e as [lit|nm|q|op2 e2|nt2 z2 a2 b2|e2 op2|c2 a2 b2|nm2 args2|es2|kvs2]; cbn [strip] in Hil;
    try (unfold is_infix_like, infix_like in Hil; destruct (str_eqb op s_not); discriminate Hil); try discriminate Pf.
  cbn [strip] in *. unfold is_infix_like, infix_like in Hil.
  destruct (strip q) as [| |z a b| | | | | | | |] eqn:Eq; try (destruct (str_eqb op s_not); discriminate Hil).
  destruct (str_eqb op s_not) eqn:En; [|discriminate Hil]. apply str_eqb_eq in En. subst op.
  pose proof (IH q ltac:(cbn [psize]; lia) We) as Hq. unfold least in Hq. rewrite Eq in Hq.
  change (AUnary s_not (ABinary z a b)) with (mk true z a b). change (ABinary z a b) with (mk false z a b) in Hq.
  rewrite minp_node in Hq |- *. rewrite (pneed_bin_nt true false). cbn [pneed] in *.
  match goal with H : N.max ?x ?y <= _ |- _ => set (M := N.max x y) in *; clearbody M end. lia.
Qed.

Theorem least_all : forall n p, (psize p < n)%nat -> wfp p = true -> least p.
Proof.
  induction n as [|n IH]; intros p Hs W; [lia|]. unfold least.
  destruct p as [lit|nm|q|op e|nt o l r|e op|c a b|nm args|es|kvs]; cbn [psize] in Hs.
  - cbn. lia.
  - cbn. lia.
  - (* parentheses *)
    cbn [strip pneed]. pose proof (IH q ltac:(lia) W) as Hq. unfold least in Hq. lia.
  - (* prefix operator *)
    pose proof W as W0. cbn [PrattParen.wfp] in W. apply andb_prop in W as [W We]. apply andb_prop in W as [_ Pf].
    destruct (is_infix_like (strip (PUn op e))) eqn:Hil.
    + (* `not (x OP y)`, which the printer writes `x not OP y` *)
      destruct e as [lit|nm|q|op2 e2|nt2 z2 a2 b2|e2 op2|c2 a2 b2|nm2 args2|es2|kvs2]; cbn [strip] in Hil;
        try (unfold is_infix_like, infix_like in Hil; destruct (str_eqb op s_not); discriminate Hil); try discriminate Pf.
      cbn [strip] in *. unfold is_infix_like, infix_like in Hil.
      destruct (strip q) as [| |z a b| | | | | | | |] eqn:Eq; try (destruct (str_eqb op s_not); discriminate Hil).
      destruct (str_eqb op s_not) eqn:En; [|discriminate Hil]. apply str_eqb_eq in En. subst op.
      pose proof (IH q ltac:(cbn [psize] in Hs; lia) We) as Hq. unfold least in Hq. rewrite Eq in Hq.
      change (AUnary s_not (ABinary z a b)) with (mk true z a b). change (ABinary z a b) with (mk false z a b) in Hq.
      rewrite minp_node in Hq |- *. rewrite (pneed_bin_nt true false). cbn [pneed] in *.
      match goal with H : N.max ?x ?y <= _ |- _ => set (M := N.max x y) in *; clearbody M end. lia.
    + assert (M : minp (strip (PUn op e)) = PUn op (wrap (is_ternary (strip e) || is_infix_like (strip e)) (minp (strip e)))).
      { cbn [strip] in Hil |- *. cbn [Etoks.minp]. destruct (strip e); try reflexivity.
        unfold is_infix_like, infix_like in Hil. destruct (str_eqb op s_not); [discriminate Hil | reflexivity]. }
      rewrite M. cbn [pneed]. rewrite pneed_wrap.
      destruct (is_pparen e) eqn:Hp.
      * destruct e; try discriminate Hp. cbn [strip pneed]. cbn [PrattParen.wfp] in We.
        pose proof (IH e ltac:(cbn [psize] in Hs; lia) We) as He. unfold least in He.
        destruct (is_ternary (strip e) || is_infix_like (strip e)); lia.
      * pose proof (IH e ltac:(lia) We) as He. unfold least in He.
        unfold ppform in Pf. apply andb_prop in Pf as [Pb Pt]. apply negb_true_iff in Pb, Pt.
        rewrite (strip_not_ternary e Hp Pt). cbn [orb].
        destruct (is_infix_like (strip e)) eqn:F; [|lia].
        pose proof (not_form_slack e (fun q Hq Wq => IH q ltac:(lia) Wq) We Hp Pb F). lia.
  - (* infix operator *)
    destruct (wfp_bin tbl _ _ _ _ W) as (Po & Htl & Htr & Hsl & Hsr & Wl & Wr).
    cbn [strip]. rewrite minp_node. cbn [pneed].
    assert (HL : pneed (wrap (lparen (strip l) o) (minp (strip l))) <= pneed l).
    { apply operand_left; try assumption. intros q Hq Wq. apply (IH q); [lia | exact Wq]. }
    assert (HR : pneed (wrap (rparen (strip r) o) (minp (strip r))) <= pneed r).
    { apply operand_right; try assumption. intros q Hq Wq. apply (IH q); [lia | exact Wq]. }
    change (pldepth (wrap (lparen (strip l) o) (minp (strip l)))) with 0. change (pldepth l) with 0. lia.
  - (* postfix operator *)
    cbn [PrattParen.wfp] in W. apply andb_prop in W as [W We]. apply andb_prop in W as [W Pu]. apply andb_prop in W as [_ Pf].
    cbn [strip Etoks.minp pneed]. rewrite pneed_wrap.
    destruct (is_pparen e) eqn:Hp.
    + destruct e; try discriminate Hp. cbn [strip pneed]. cbn [PrattParen.wfp] in We.
      pose proof (IH e ltac:(cbn [psize] in Hs; lia) We) as He. unfold least in He.
      destruct (postfix_needs_paren (strip e)); lia.
    + pose proof (IH e ltac:(lia) We) as He. unfold least in He.
      unfold ppform in Pf. apply andb_prop in Pf as [Pb Pt]. apply negb_true_iff in Pb, Pt, Pu.
      assert (F : postfix_needs_paren (strip e) = false).
      { destruct e; try reflexivity; try discriminate Hp; try discriminate Pb; try discriminate Pt; discriminate Pu. }
      rewrite F. exact He.
  - (* conditional *)
    cbn [PrattParen.wfp] in W. apply andb_prop in W as [W Wb]. apply andb_prop in W as [W Wa]. apply andb_prop in W as [Pt Wc].
    apply negb_true_iff in Pt.
    pose proof (IH c ltac:(lia) Wc) as Hc. pose proof (IH a ltac:(lia) Wa) as Ha. pose proof (IH b ltac:(lia) Wb) as Hb.
    unfold least in Hc, Ha, Hb. cbn [strip Etoks.minp pneed]. rewrite pneed_wrap.
    change (pldepth (wrap (is_ternary (strip c)) (minp (strip c)))) with 0. change (pldepth c) with 0.
    assert (HC : (if is_ternary (strip c) then pneed (minp (strip c)) + 1 else pneed (minp (strip c))) <= pneed c).
    { destruct (is_pparen c) eqn:Hp.
      - destruct c; try discriminate Hp. cbn [strip pneed] in *. cbn [PrattParen.wfp] in Wc.
        pose proof (IH c ltac:(cbn [psize] in Hs; lia) Wc) as Hc'. unfold least in Hc'. destruct (is_ternary (strip c)); lia.
      - rewrite (strip_not_ternary c Hp Pt). exact Hc. }
    lia.
  - (* call *)
    rewrite strip_func, minp_func, !pneed_func. rewrite wfp_func in W. fold (psizel args) in Hs.
    assert (G : pneedl (minpl tbl (stripl args)) <= pneedl args).
    { revert Hs W. clear -IH. induction args as [|x r IHr]; cbn [psizel wfpl stripl minpl pneedl]; intros Hs W; [lia|].
      apply andb_prop in W as [Wx Wr]. pose proof (IH x ltac:(lia) Wx) as Hx. unfold least in Hx. specialize (IHr ltac:(lia) Wr). lia. }
    lia.
  - rewrite strip_list, minp_list, !pneed_list. rewrite wfp_list in W. fold (psizel es) in Hs.
    assert (G : pneedl (minpl tbl (stripl es)) <= pneedl es).
    { revert Hs W. clear -IH. induction es as [|x r IHr]; cbn [psizel wfpl stripl minpl pneedl]; intros Hs W; [lia|].
      apply andb_prop in W as [Wx Wr]. pose proof (IH x ltac:(lia) Wx) as Hx. unfold least in Hx. specialize (IHr ltac:(lia) Wr). lia. }
    lia.
  - rewrite strip_map, minp_map, !pneed_map. rewrite wfp_map in W. fold (psizem kvs) in Hs.
    assert (G : pneedm (minpm tbl (stripm kvs)) <= pneedm kvs).
    { revert Hs W. clear -IH. induction kvs as [|[k v] r IHr]; cbn [psizem wfpm stripm minpm pneedm]; intros Hs W; [lia|].
      apply andb_prop in W as [W Wr]. apply andb_prop in W as [Wk Wv].
      pose proof (IH k ltac:(lia) Wk) as Hk. pose proof (IH v ltac:(lia) Wv) as Hv. unfold least in Hk, Hv. specialize (IHr ltac:(lia) Wr). lia. }
    lia.
Qed.

(* THE STATEMENT: if the tree is written in any way the grammar accepts and that spelling is within the nesting limit, then
   parsing what the printer writes for the tree gives the tree back. *)
Hypothesis TOK : tbl_ok tbl.
Theorem accepted_spelling_rendering_reparses : forall p, wfp p = true -> phgt p -> proom 0 p ->
  parse_tokens tbl TmEof (toks p) = Ok (strip p) /\
  parse_tokens tbl TmEof (Etoks.etoks tbl (strip p)) = Ok (strip p).
Proof.
  intros p W Hh Hr. split; [exact (parse_toks tbl TOK p W Hh Hr)|].
  pose proof (strip_wf (S (psize p)) p ltac:(lia) W) as Wt.
  apply (parse_etoks tbl TOK); [exact Wt | exact Hh|].
  unfold room, Etoks.need. pose proof (least_all (S (psize p)) p ltac:(lia) W) as L. unfold least in L.
  unfold proom in Hr. lia.
Qed.
End LN.
