(** Characters, strings and UTF-8 byte offsets.
    char = Unicode scalar value as N; str = list char.
    Transcribes the character classes of tokenizer.rs:270-288 and :44-50. *)
From Coq Require Export List NArith ZArith Bool Lia.
Export ListNotations.
Open Scope N_scope.

Definition char := N.
Definition str := list char.

(* UTF-8 encoded length, as char::len_utf8 *)
Definition ulen (c : char) : N :=
  if c <? 128 then 1 else if c <? 2048 then 2 else if c <? 65536 then 3 else 4.

Definition scalar_okb (c : char) : bool :=
  ((c <? 55296) || (57344 <=? c)) && (c <? 1114112).

Fixpoint blen (s : str) : N :=
  match s with [] => 0 | c :: s' => ulen c + blen s' end.

Definition is_ws (c : char) : bool :=
  (c =? 32) || (c =? 9) || (c =? 13) || (c =? 10).

(* ( ) [ ] { } *)
Definition is_delim (c : char) : bool :=
  (c =? 40) || (c =? 41) || (c =? 91) || (c =? 93) || (c =? 123) || (c =? 125).

(* + - * / ^ % & ! = ? : > < |   (tokenizer.rs:44) *)
Definition is_special (c : char) : bool :=
  (c =? 43) || (c =? 45) || (c =? 42) || (c =? 47) || (c =? 94) || (c =? 37) || (c =? 38)
  || (c =? 33) || (c =? 61) || (c =? 63) || (c =? 58) || (c =? 62) || (c =? 60) || (c =? 124).

Definition is_digit09 (c : char) : bool := (48 <=? c) && (c <=? 57).

(* is_digit_char: 0-9 . - e E + *)
Definition is_digit_char (c : char) : bool :=
  is_digit09 c || (c =? 46) || (c =? 45) || (c =? 101) || (c =? 69) || (c =? 43).

(* is_param_char: 0-9 a-z A-Z . _ *)
Definition is_param_char (c : char) : bool :=
  is_digit09 c || ((97 <=? c) && (c <=? 122)) || ((65 <=? c) && (c <=? 90)) || (c =? 46) || (c =? 95).

Definition is_quote (c : char) : bool := (c =? 34) || (c =? 39).

Fixpoint str_eqb (a b : str) : bool :=
  match a, b with
  | [], [] => true
  | x :: a', y :: b' => (x =? y) && str_eqb a' b'
  | _, _ => false
  end.

(** Byte-offset slicing of a string, as Rust's [&input[a..b]]:
    [None] where Rust would panic (offset not on a char boundary, out of range, a > b). *)
Fixpoint split_at_byte (s : str) (a : N) : option (str * str) :=
  if a =? 0 then Some ([], s) else
  match s with
  | [] => None
  | c :: s' =>
      if ulen c <=? a then
        match split_at_byte s' (a - ulen c) with
        | Some (p, q) => Some (c :: p, q)
        | None => None
        end
      else None
  end.

Definition slice (s : str) (a b : N) : option str :=
  if b <? a then None else
  match split_at_byte s a with
  | Some (_, post) =>
      match split_at_byte post (b - a) with
      | Some (mid, _) => Some mid
      | None => None
      end
  | None => None
  end.

(* the same slice expressed on a suffix [sfx] of the input that starts at byte offset [base] *)
Definition slice_at (base : N) (sfx : str) (a b : N) : option str :=
  if (a <? base) || (b <? a) then None else slice sfx (a - base) (b - base).

(* common literals *)
Definition c_lparen : char := 40.
Definition c_rparen : char := 41.
Definition c_lbrack : char := 91.
Definition c_rbrack : char := 93.
Definition c_lbrace : char := 123.
Definition c_rbrace : char := 125.
Definition c_comma : char := 44.
Definition c_semi : char := 59.
Definition c_dot : char := 46.
Definition c_plus : char := 43.
Definition c_minus : char := 45.
Definition c_e : char := 101.
Definition c_E : char := 69.
Definition c_dquote : char := 34.
Definition c_squote : char := 39.
Definition c_space : char := 32.
Definition s_not : str := [110; 111; 116].
Definition s_qmark : str := [63].
Definition s_colon : str := [58].
Definition s_true : str := [116; 114; 117; 101].
Definition s_True : str := [84; 114; 117; 101].
Definition s_false : str := [102; 97; 108; 115; 101].
Definition s_False : str := [70; 97; 108; 115; 101].
