(** The Pratt parser (parser.rs:416-638) over the batch view of the tokenizer:
    a list of tokens plus the terminal that the lazy tokenizer would hit after them.
    One Gallina function per Rust function; [d] is Parser.depth (restored by the callers exactly as in Rust),
    [f] is the model's fuel (every Rust call and every loop iteration costs one unit). *)
From EE Require Export OpTable Token Ast.
Open Scope N_scope.

Definition MAX_DEPTH : N := 256.

Section Parser.
Variable tbl : optable.
Variable tm : terminal.

(* Tokenizer::next seen from the parser: drop the current token; fails if the lazy tokenizer would fail *)
Definition advance (ts : list token) : outcome (list token) :=
  match ts with
  | [] => Ok []
  | [_] => match tm with TmEof => Ok [] | TmErr => Err | TmPanic => Panic | TmFuel => Fuel end
  | _ :: r => Ok r
  end.

(* Tokenizer::peek = clone().next() *)
Definition peek_tok (ts : list token) : outcome (option token) :=
  match ts with
  | _ :: t :: _ => Ok (Some t)
  | [_] => match tm with TmEof => Ok None | TmErr => Err | TmPanic => Panic | TmFuel => Fuel end
  | [] => Ok None
  end.

(* check_op / expect: does token t spell the expected string *)
Definition tok_is (t : token) (s : str) : bool :=
  match t with
  | TDelim d => str_eqb [delim_char d] s
  | TOp o => str_eqb o s
  | _ => false
  end.
Definition cur_is (ts : list token) (s : str) : bool :=
  match ts with t :: _ => tok_is t s | [] => false end.

(* Tokenizer::expect (tokenizer.rs:143): advance first, then compare the token that was current *)
Definition expect (ts : list token) (s : str) : outcome (list token) :=
  advance ts >>= fun r =>
  match ts with
  | t :: _ =>
      match t with
      | TDelim _ | TOp _ => if tok_is t s then Ok r else Err
      | TComma => if str_eqb [c_comma] s then Ok r else Err
      | _ => Err
      end
  | [] => Err
  end.

Definition tok_prec (t : option token) : Z * Z :=
  match t with Some (TOp op) => binding_power tbl op | _ => (-1, -1)%Z end.
Definition cur_prec (ts : list token) : Z * Z := tok_prec (hd_error ts).
Definition next_prec (ts : list token) : outcome (Z * Z) := peek_tok ts >>= fun t => Ok (tok_prec t).
Definition cur_is_not (ts : list token) : bool :=
  match ts with TOp op :: _ => is_not op | _ => false end.

Definition s_lparen : str := [c_lparen].
Definition s_rparen : str := [c_rparen].
Definition s_rbrack : str := [c_rbrack].
Definition s_rbrace : str := [c_rbrace].
Definition s_comma : str := [c_comma].

Definition R := outcome (ast * list token).

(* Parser::built: a node is constructed only if the tree it tops is at most MAX_DEPTH high. The Rust code tracks the height
   incrementally (1 + max over the children, as nodes are built); the model recomputes it from the node. *)
Definition built (e : ast) (ts : list token) : R :=
  if MAX_DEPTH <? ast_height e then Err else Ok (e, ts).

(* the loop of parse_primary_inner: postfix operators are taken one after the other by the primary they follow *)
Fixpoint parse_postfixes (f : nat) (lhs : ast) (ts : list token) {struct f} : R :=
  match f with O => Fuel | S f' =>
    match ts with
    | TOp op :: _ =>
        if is_postfix tbl op then
          advance ts >>= fun ts2 => built (APostfix lhs op) ts2 >>= fun '(e, ts3) => parse_postfixes f' e ts3
        else Ok (lhs, ts)
    | _ => Ok (lhs, ts)
    end
  end.

Fixpoint parse_expression (f : nat) (d : N) (ts : list token) {struct f} : R :=
  match f with O => Fuel | S f' =>
    parse_primary f' d ts >>= fun '(lhs, ts1) => parse_op f' d 0%Z lhs ts1
  end

(* parse_primary = enter(); parse_primary_inner(); depth -= 1 *)
with parse_primary (f : nat) (d : N) (ts : list token) {struct f} : R :=
  match f with O => Fuel | S f' =>
    if MAX_DEPTH <? d + 1 then Err else
    parse_token f' (d + 1) ts >>= fun '(lhs, ts1) => parse_postfixes f' lhs ts1
  end

(* parse_token with parse_unary, parse_delim, parse_open_paren inlined *)
with parse_token (f : nat) (d : N) (ts : list token) {struct f} : R :=
  match f with O => Fuel | S f' =>
    match ts with
    | [] => Err
    | TNum v :: _ => advance ts >>= fun r => Ok (ALit (LNum v), r)
    | TBool b :: _ => advance ts >>= fun r => Ok (ALit (LBool b), r)
    | TStr s :: _ => advance ts >>= fun r => Ok (ALit (LStr s), r)
    | TRef n :: _ => advance ts >>= fun r => Ok (ARef n, r)
    | TFunc n :: _ =>
        advance ts >>= fun r => expect r s_lparen >>= fun r1 =>
        if cur_is r1 s_rparen then advance r1 >>= fun r2 => built (AFunc n []) r2
        else parse_args f' d r1 [] >>= fun '(args, r2) => built (AFunc n args) r2
    | TOp op :: _ =>
        if is_prefix tbl op then
          advance ts >>= fun r => parse_primary f' d r >>= fun '(e, r1) => built (AUnary op e) r1
        else Err
    | TDelim DLParen :: _ =>
        advance ts >>= fun r => parse_expression f' d r >>= fun '(e, r1) =>
        if cur_is r1 s_rparen then advance r1 >>= fun r2 => Ok (e, r2) else Err
    | TDelim DLBrack :: _ =>
        advance ts >>= fun r => parse_list f' d r [] >>= fun '(es, r1) => built (AList es) r1
    | TDelim DLBrace :: _ =>
        advance ts >>= fun r => parse_map f' d r [] >>= fun '(kvs, r1) => built (AMap kvs) r1
    | TDelim _ :: _ => Err
    | TComma :: _ | TSemi :: _ => Err
    end
  end

(* the loop of parse_function (parser.rs:624); acc in reverse *)
with parse_args (f : nat) (d : N) (ts : list token) (acc : list ast) {struct f}
  : outcome (list ast * list token) :=
  match f with O => Fuel | S f' =>
    parse_expression f' d ts >>= fun '(e, r) =>
    if cur_is r s_rparen then advance r >>= fun r1 => Ok (rev' (e :: acc), r1)
    else expect r s_comma >>= fun r1 => parse_args f' d r1 (e :: acc)
  end

(* the loop of parse_open_bracket (parser.rs:578) followed by expect("]") *)
with parse_list (f : nat) (d : N) (ts : list token) (acc : list ast) {struct f}
  : outcome (list ast * list token) :=
  match f with O => Fuel | S f' =>
    match ts with
    | [] => expect ts s_rbrack >>= fun r => Ok (rev' acc, r)
    | _ =>
      if cur_is ts s_rbrack then expect ts s_rbrack >>= fun r => Ok (rev' acc, r)
      else
        parse_expression f' d ts >>= fun '(e, r) =>
        if cur_is r s_rbrack then parse_list f' d r (e :: acc)
        else expect r s_comma >>= fun r1 => parse_list f' d r1 (e :: acc)
    end
  end

(* the loop of parse_open_brace (parser.rs:594) followed by expect("}") *)
with parse_map (f : nat) (d : N) (ts : list token) (acc : list (ast * ast)) {struct f}
  : outcome (list (ast * ast) * list token) :=
  match f with O => Fuel | S f' =>
    match ts with
    | [] => expect ts s_rbrace >>= fun r => Ok (rev' acc, r)
    | _ =>
      if cur_is ts s_rbrace then expect ts s_rbrace >>= fun r => Ok (rev' acc, r)
      else
        parse_expression f' d ts >>= fun '(k, r) =>
        expect r s_colon >>= fun r1 =>
        parse_expression f' d r1 >>= fun '(v, r2) =>
        if cur_is r2 s_rbrace then parse_map f' d r2 ((k, v) :: acc)
        else expect r2 s_comma >>= fun r3 => parse_map f' d r3 ((k, v) :: acc)
    end
  end

(* parse_op = save depth; enter(); parse_op_inner; restore depth *)
with parse_op (f : nat) (d : N) (prec : Z) (lhs : ast) (ts : list token) {struct f} : R :=
  match f with O => Fuel | S f' =>
    if MAX_DEPTH <? d + 1 then Err else parse_op_loop f' (d + 1) prec lhs ts
  end

(* one iteration of the loop of parse_op_inner; d is Parser.depth (the loop itself does not recurse: `built` bounds the
   height of the tree it grows) *)
with parse_op_loop (f : nat) (d : N) (prec : Z) (lhs : ast) (ts : list token) {struct f} : R :=
  match f with O => Fuel | S f' =>
    match ts with
    | TOp cur :: _ =>
        let isnot := is_not cur in
        (if isnot then next_prec ts else Ok (cur_prec ts)) >>= fun '(l_bp, r_bp) =>
        if isnot && (l_bp <? 0)%Z then Err
        else if negb isnot && str_eqb cur s_qmark then
          if (0 <? prec)%Z then Ok (lhs, ts)
          else
            advance ts >>= fun r =>
            if MAX_DEPTH <? d + 1 then Err else
            parse_expression f' (d + 1) r >>= fun '(a, r1) =>
            expect r1 s_colon >>= fun r2 =>
            parse_expression f' (d + 1) r2 >>= fun '(b, r3) =>
            built (ATernary lhs a b) r3
        else if (l_bp <? prec)%Z then Ok (lhs, ts)
        else
          (if isnot then advance ts else Ok ts) >>= fun ts1 =>
          let op := match ts1 with TOp o :: _ => o | _ => [] end in
          advance ts1 >>= fun ts2 =>
          parse_primary f' d ts2 >>= fun '(rhs, ts3) =>
          (if cur_is_not ts3 then next_prec ts3 else Ok (cur_prec ts3)) >>= fun '(cur_l_bp, _) =>
          (if (r_bp <? cur_l_bp)%Z then parse_op f' d r_bp rhs ts3 else Ok (rhs, ts3)) >>= fun '(rhs', ts4) =>
          let node := ABinary op lhs rhs' in
          let node' := if isnot then AUnary s_not node else node in
          built node' ts4 >>= fun '(node'', ts5) =>
          parse_op_loop f' d prec node'' ts5
    | _ => Ok (lhs, ts)
    end
  end.

(* parse_stmt (parser.rs:472); acc in reverse *)
Fixpoint parse_stmt_loop (f : nat) (ts : list token) (acc : list ast) {struct f} : outcome (list ast) :=
  match f with O => Fuel | S f' =>
    match ts with
    | [] => Ok (rev' acc)
    | _ =>
        parse_expression f' 0 ts >>= fun '(e, r) =>
        match r with
        | TSemi :: _ => advance r >>= fun r1 => parse_stmt_loop f' r1 (e :: acc)
        | _ => parse_stmt_loop f' r (e :: acc)
        end
    end
  end.

Definition parse_fuel (ts : list token) : nat := 4 * length ts + 16.

(* Parser::new (first next()) + parse_stmt *)
Definition parse_tokens (ts : list token) : outcome ast :=
  match ts, tm with
  | [], TmErr => Err
  | [], TmPanic => Panic
  | [], TmFuel => Fuel
  | _, _ =>
      parse_stmt_loop (parse_fuel ts) ts [] >>= fun es =>
      match es with [e] => Ok e | _ => Ok (AStmt es) end
  end.

End Parser.
