(** Values (value.rs) and the built-in handlers (operator.rs:55-238,310-430, function.rs:21-71). *)
From EE Require Export Chars Decimal Ast Names.
Open Scope N_scope.

Inductive value :=
| VStr (s : str)
| VNum (d : dec)
| VBool (b : bool)
| VList (l : list value)
| VMap (l : list (value * value))
| VNone.

(* derived PartialEq: same variant and equal payloads; Decimal's == is numeric (trailing zeros ignored) *)
Fixpoint value_eqb (a b : value) : bool :=
  match a, b with
  | VStr x, VStr y => str_eqb x y
  | VNum x, VNum y => dec_eqb x y
  | VBool x, VBool y => Bool.eqb x y
  | VList x, VList y =>
      (fix go (l1 l2 : list value) : bool :=
         match l1, l2 with
         | [], [] => true
         | u :: l1', v :: l2' => value_eqb u v && go l1' l2'
         | _, _ => false
         end) x y
  | VMap x, VMap y =>
      (fix go (l1 l2 : list (value * value)) : bool :=
         match l1, l2 with
         | [], [] => true
         | (k1, v1) :: l1', (k2, v2) :: l2' => value_eqb k1 k2 && value_eqb v1 v2 && go l1' l2'
         | _, _ => false
         end) x y
  | VNone, VNone => true
  | _, _ => false
  end.

(* how deep lists and maps are nested (a scalar is 0, [1] is 1); exec_list / exec_map refuse to build a value nested deeper
   than MAX_VDEPTH (value.rs nested_beyond, parser.rs bounded; the constant is the parser's MAX_DEPTH) *)
Fixpoint vdepth (v : value) : N :=
  match v with
  | VList l => 1 + (fix go (l : list value) : N := match l with [] => 0 | x :: r => N.max (vdepth x) (go r) end) l
  | VMap l => 1 + (fix go (l : list (value * value)) : N :=
                     match l with [] => 0 | (k, x) :: r => N.max (N.max (vdepth k) (vdepth x)) (go r) end) l
  | _ => 0
  end.
Definition MAX_VDEPTH : N := 256.
Definition vbounded (v : value) : bool := vdepth v <=? MAX_VDEPTH.

(* accessors: Err on every other variant *)
Definition v_decimal (v : value) : outcome dec := match v with VNum d => Ok d | _ => Err end.
Definition v_string (v : value) : outcome str := match v with VStr s => Ok s | _ => Err end.
Definition v_bool (v : value) : outcome bool := match v with VBool b => Ok b | _ => Err end.
Definition v_list (v : value) : outcome (list value) := match v with VList l => Ok l | _ => Err end.
Definition v_integer (v : value) : outcome Z :=
  match v with
  | VNum d => match dec_to_i64 d with Some z => Ok z | None => Err end
  | _ => Err
  end.

(* Decimal results: checked_* returns None on overflow -> Error::Overflow; DAbstain is reported separately *)
Inductive ares := AVal (v : value) (inexact : bool) | AErr | AAbstain.

Definition of_dres (r : dres) : ares :=
  match r with
  | DOk d => AVal (VNum d) false
  | DRounded d => AVal (VNum d) true
  | DOverflow => AErr
  | DDivZero => AErr
  | DAbstain => AAbstain
  end.

Definition lift {A} (o : outcome A) (k : A -> ares) : ares :=
  match o with Ok a => k a | _ => AErr end.

Inductive arith := OpAdd | OpSub | OpMul | OpDiv | OpRem.
(* operator.rs checked_decimal_op *)
Definition checked_decimal_op (o : arith) (a b : dec) : ares :=
  match o with
  | OpAdd => of_dres (dec_add a b)
  | OpSub => of_dres (dec_sub a b)
  | OpMul => of_dres (dec_mul a b)
  | OpDiv => match dec_div a b with
             | DOk d | DRounded d => AVal (VNum d) false   (* mantissa and scale of a quotient are modelled exactly (Decimal.dec_div) *)
             | r => of_dres r
             end
  | OpRem => of_dres (dec_rem a b)
  end.

Inductive bitop := OpOr | OpXor | OpAnd | OpShl | OpShr.
Definition wrap64 (z : Z) : Z :=
  let m := (z mod 18446744073709551616)%Z in
  if (m <? 9223372036854775808)%Z then m else (m - 18446744073709551616)%Z.
(* operator.rs checked_integer_op *)
Definition checked_integer_op (o : bitop) (a b : Z) : outcome Z :=
  match o with
  | OpOr => Ok (Z.lor a b)
  | OpXor => Ok (Z.lxor a b)
  | OpAnd => Ok (Z.land a b)
  | OpShl => if ((b <? 0) || (63 <? b))%Z then Err else Ok (wrap64 (Z.shiftl a b))
  | OpShr => if ((b <? 0) || (63 <? b))%Z then Err else Ok (Z.shiftr a b)
  end.

Definition num2 (o : arith) (a b : value) : ares :=
  lift (v_decimal a) (fun x => lift (v_decimal b) (fun y => checked_decimal_op o x y)).
Definition int2 (o : bitop) (a b : value) : ares :=
  lift (v_integer a) (fun x => lift (v_integer b) (fun y =>
    lift (checked_integer_op o x y) (fun z => AVal (VNum (of_Z z)) false))).
Definition cmp2 (f : dec -> dec -> bool) (a b : value) : ares :=
  lift (v_decimal a) (fun x => lift (v_decimal b) (fun y => AVal (VBool (f x y)) false)).
Definition bool2 (f : bool -> bool -> bool) (a b : value) : ares :=
  lift (v_bool a) (fun x => lift (v_bool b) (fun y => AVal (VBool (f x y)) false)).

Fixpoint is_prefix_of (p s : str) : bool :=
  match p, s with
  | [], _ => true
  | x :: p', y :: s' => (x =? y) && is_prefix_of p' s'
  | _ :: _, [] => false
  end.
Definition is_suffix_of (p s : str) : bool := is_prefix_of (rev' p) (rev' s).

(* the built-in infix handlers, by registered name *)
Definition builtin_infix (op : str) (a b : value) : option ares :=
  if str_eqb op n_assign then Some (AVal b false)
  else if str_eqb op n_adda || str_eqb op n_add then Some (num2 OpAdd a b)
  else if str_eqb op n_suba || str_eqb op n_sub then Some (num2 OpSub a b)
  else if str_eqb op n_mula || str_eqb op n_mul then Some (num2 OpMul a b)
  else if str_eqb op n_diva || str_eqb op n_div then Some (num2 OpDiv a b)
  else if str_eqb op n_rema || str_eqb op n_rem then Some (num2 OpRem a b)
  else if str_eqb op n_shla || str_eqb op n_shl then Some (int2 OpShl a b)
  else if str_eqb op n_shra || str_eqb op n_shr then Some (int2 OpShr a b)
  else if str_eqb op n_anda || str_eqb op n_band then Some (int2 OpAnd a b)
  else if str_eqb op n_xora || str_eqb op n_bxor then Some (int2 OpXor a b)
  else if str_eqb op n_ora || str_eqb op n_bor then Some (int2 OpOr a b)
  else if str_eqb op n_lor then Some (bool2 orb a b)
  else if str_eqb op n_land then Some (bool2 andb a b)
  else if str_eqb op n_lt then Some (cmp2 dec_ltb a b)
  else if str_eqb op n_le then Some (cmp2 dec_leb a b)
  else if str_eqb op n_gt then Some (cmp2 (fun x y => dec_ltb y x) a b)
  else if str_eqb op n_ge then Some (cmp2 (fun x y => dec_leb y x) a b)
  else if str_eqb op n_eq then Some (AVal (VBool (value_eqb a b)) false)
  else if str_eqb op n_ne then Some (AVal (VBool (negb (value_eqb a b))) false)
  else if str_eqb op n_begin then
    Some (lift (v_string a) (fun x => lift (v_string b) (fun y => AVal (VBool (is_prefix_of y x)) false)))
  else if str_eqb op n_end then
    Some (lift (v_string a) (fun x => lift (v_string b) (fun y => AVal (VBool (is_suffix_of y x)) false)))
  else if str_eqb op n_in then
    Some (lift (v_list b) (fun l => AVal (VBool (existsb (fun item => value_eqb item a) l)) false))
  else None.

(* AND / OR over a list: stops at the first deciding element; a non-bool before that point is an error *)
Fixpoint all_true (l : list value) : ares :=
  match l with
  | [] => AVal (VBool true) false
  | VBool true :: r => all_true r
  | VBool false :: _ => AVal (VBool false) false
  | _ :: _ => AErr
  end.
Fixpoint any_true (l : list value) : ares :=
  match l with
  | [] => AVal (VBool false) false
  | VBool false :: r => any_true r
  | VBool true :: _ => AVal (VBool true) false
  | _ :: _ => AErr
  end.

Definition builtin_prefix (op : str) (a : value) : option ares :=
  if str_eqb op n_sub then Some (match a with VNum d => AVal (VNum (dec_neg d)) false | _ => AErr end)
  else if str_eqb op n_add then Some (match a with VNum d => AVal (VNum d) false | _ => AErr end)
  else if str_eqb op n_bang || str_eqb op s_not then
    Some (match a with VBool b => AVal (VBool (negb b)) false | _ => AErr end)
  else if str_eqb op n_AND then Some (lift (v_list a) all_true)
  else if str_eqb op n_OR then Some (lift (v_list a) any_true)
  else None.

Definition builtin_postfix (op : str) (a : value) : option ares :=
  if str_eqb op n_inc then Some (match a with VNum d => checked_decimal_op OpAdd d dec_one | _ => AErr end)
  else if str_eqb op n_dec then Some (match a with VNum d => checked_decimal_op OpSub d dec_one | _ => AErr end)
  else None.

(* min / max keep the first extremal argument (strict comparison), with its own scale *)
Fixpoint fold_ext (better : dec -> dec -> bool) (cur : option dec) (l : list value) : ares :=
  match l with
  | [] => match cur with Some d => AVal (VNum d) false | None => AErr end
  | VNum d :: r => fold_ext better (match cur with None => Some d | Some c => if better d c then Some d else Some c end) r
  | _ :: _ => AErr
  end.

Fixpoint fold_arith (o : arith) (acc : dec) (inx : bool) (l : list value) : ares :=
  match l with
  | [] => AVal (VNum acc) inx
  | VNum d :: r =>
      match checked_decimal_op o acc d with
      | AVal (VNum acc') i => fold_arith o acc' (inx || i) r
      | AVal _ _ => AErr
      | e => e
      end
  | _ :: _ => AErr
  end.

Definition builtin_function (name : str) (args : list value) : option ares :=
  if str_eqb name n_min then Some (fold_ext dec_ltb None args)
  else if str_eqb name n_max then Some (fold_ext (fun d c => dec_ltb c d) None args)
  else if str_eqb name n_sum then Some (fold_arith OpAdd dec_zero false args)
  else if str_eqb name n_mulf then Some (fold_arith OpMul dec_one false args)
  else None.

(** * Conversions (value.rs From impls): Decimal::from_iN(n).unwrap_or_default() *)
Definition from_int (z : Z) : value :=
  if (Z.abs z <? 79228162514264337593543950336)%Z then VNum (of_Z z) else VNum dec_zero.
