(** AST (parser.rs:13-45) and outcomes. *)
From EE Require Export Chars Decimal Token.

Inductive literal := LNum (d : dec) | LBool (b : bool) | LStr (s : str).

Inductive ast :=
| ALit (l : literal)
| AUnary (op : str) (e : ast)
| ABinary (op : str) (l r : ast)
| APostfix (e : ast) (op : str)
| ATernary (c a b : ast)
| ARef (n : str)
| AFunc (n : str) (args : list ast)
| AList (es : list ast)
| AMap (kvs : list (ast * ast))
| AStmt (es : list ast)
| ANone.

(* Ok / Err as in Rust's Result; Panic = the Rust code unwinds; Fuel = the model's explicit fuel ran out *)
Inductive outcome (A : Type) := Ok (a : A) | Err | Panic | Fuel.
Arguments Ok {A} a. Arguments Err {A}. Arguments Panic {A}. Arguments Fuel {A}.

Definition bind {A B} (x : outcome A) (f : A -> outcome B) : outcome B :=
  match x with Ok a => f a | Err => Err | Panic => Panic | Fuel => Fuel end.
Notation "x >>= f" := (bind x f) (at level 50, left associativity).
