(** AST (parser.rs:13-45) and outcomes. *)
From EE Require Export Chars Decimal Token.
Open Scope N_scope.

Inductive literal := LNum (d : dec) | LBool (b : bool) | LStr (s : str).

Inductive ast :=
| ALit (l : literal)
| AUnary (op : str) (e : ast)
| ABinary (op : str) (l r : ast)
| APostfix (e : ast) (op : str)
| ATernary (c a b : ast)
| ARef (n : str)
| AFunc (n : str) (args : list ast)
| AList (es : list ast)
| AMap (kvs : list (ast * ast))
| AStmt (es : list ast)
| ANone.

(* height of a tree: what Parser.height tracks while building (parser.rs `built`) *)
Fixpoint ast_height (e : ast) : N :=
  match e with
  | ALit _ | ARef _ | ANone => 1
  | AUnary _ x => 1 + ast_height x
  | ABinary _ l r => 1 + N.max (ast_height l) (ast_height r)
  | APostfix x _ => 1 + ast_height x
  | ATernary c a b => 1 + N.max (N.max (ast_height c) (ast_height a)) (ast_height b)
  | AFunc _ args => 1 + (fix mx (l : list ast) : N := match l with [] => 0 | x :: r => N.max (ast_height x) (mx r) end) args
  | AList es => 1 + (fix mx (l : list ast) : N := match l with [] => 0 | x :: r => N.max (ast_height x) (mx r) end) es
  | AStmt es => 1 + (fix mx (l : list ast) : N := match l with [] => 0 | x :: r => N.max (ast_height x) (mx r) end) es
  | AMap kvs => 1 + (fix mx (l : list (ast * ast)) : N :=
                       match l with [] => 0 | (k, v) :: r => N.max (N.max (ast_height k) (ast_height v)) (mx r) end) kvs
  end.

(* Ok / Err as in Rust's Result; Panic = the Rust code unwinds; Fuel = the model's explicit fuel ran out *)
Inductive outcome (A : Type) := Ok (a : A) | Err | Panic | Fuel.
Arguments Ok {A} a. Arguments Err {A}. Arguments Panic {A}. Arguments Fuel {A}.

Definition bind {A B} (x : outcome A) (f : A -> outcome B) : outcome B :=
  match x with Ok a => f a | Err => Err | Panic => Panic | Fuel => Fuel end.
Notation "x >>= f" := (bind x f) (at level 50, left associativity).
