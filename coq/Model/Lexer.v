(** The tokenizer (tokenizer.rs), one Gallina function per Rust function.
    State = (cur, rest): the byte offset of the cursor and the characters not yet consumed (CharIndices).
    Every [&input[a..b]] of the Rust code is a [slice_at base sfx a b], the byte slice [a..b] of the input
    expressed on the suffix [sfx] of the input that starts at byte offset [base] (here: the position at which
    the call to next() started, so a <= b are offsets inside that suffix); [None] there is a Rust panic.
    Lemmas/LexerSlice.v proves slice_at base sfx a b = slice a b whenever inp = pre ++ sfx, blen pre = base. *)
From EE Require Export Chars OpTable Decimal Token.
Open Scope N_scope.

Inductive lexres :=
| LTok (t : stoken) (cur : N) (rest : str)
| LEof | LErr | LPanic.

(* advance while p holds: eat_whitespace, parse_var, operator_token/try_parse_op loops *)
Fixpoint scan (p : char -> bool) (cur : N) (rest : str) : N * str :=
  match rest with
  | c :: rest' => if p c then scan p (cur + ulen c) rest' else (cur, rest)
  | [] => (cur, rest)
  end.

(* special_op_token (tokenizer.rs:57): extend while input[start .. current()+len_utf8(ch)] is an operator *)
Fixpoint special_loop (tbl : optable) (base : N) (sfx : str) (start cur : N) (rest : str) : option (N * str) :=
  match rest with
  | [] => Some (cur, rest)
  | c :: rest' =>
      match slice_at base sfx start (cur + ulen c) with
      | None => None
      | Some w => if is_op tbl w then special_loop tbl base sfx start (cur + ulen c) rest' else Some (cur, rest)
      end
  end.

(* number_token loop (tokenizer.rs:190); prev = self.cur_char *)
Fixpoint scan_num (prev : char) (cur : N) (rest : str) : N * str :=
  match rest with
  | c :: rest' =>
      if ((c =? c_plus) || (c =? c_minus)) && negb ((prev =? c_e) || (prev =? c_E)) then (cur, rest)
      else if is_digit_char c then scan_num c (cur + ulen c) rest' else (cur, rest)
  | [] => (cur, rest)
  end.

(* string_token loop (tokenizer.rs:222): consume up to and including the closing quote *)
Fixpoint scan_str (q : char) (cur : N) (rest : str) : option (N * str) :=
  match rest with
  | c :: rest' => if c =? q then Some (cur + ulen c, rest') else scan_str q (cur + ulen c) rest'
  | [] => None
  end.

(* is_word_end_char: an operator spelled as a word ends at whitespace, a delimiter, or one of the separators , ; : *)
Definition word_end (c : char) : bool := is_ws c || is_delim c || (c =? c_comma) || (c =? c_semi) || (c =? 58).
Definition not_ws_delim (c : char) : bool := negb (word_end c).

(* is the next non-whitespace character '(' ?  (function_or_reference_token) *)
Definition next_is_lparen (cur : N) (rest : str) : bool :=
  match snd (scan is_ws cur rest) with c :: _ => c =? c_lparen | [] => false end.

Definition tok (t : token) (a b : N) (cur : N) (rest : str) : lexres := LTok (mkst t a b) cur rest.

(* Tokenizer::next *)
Definition lex_one (tbl : optable) (cur0 : N) (rest0 : str) : lexres :=
  let slice := slice_at cur0 rest0 in
  let '(cur, rest) := scan is_ws cur0 rest0 in
  match rest with
  | [] => LEof
  | c :: rest1 =>
      let start := cur in
      let cur1 := cur + ulen c in
      if is_special c then
        match special_loop tbl cur0 rest0 start cur1 rest1 with
        | None => LPanic
        | Some (cur2, rest2) =>
            match slice start cur2 with
            | None => LPanic
            | Some w => tok (TOp w) start cur2 cur2 rest2
            end
        end
      else if is_delim c then
        match slice start (start + 1) with
        | None => LPanic
        | Some [c'] => match delim_of c' with
                       | Some d => tok (TDelim d) start (start + 1) cur1 rest1
                       | None => LErr (* unreachable: DelimTokenType::Unknown *)
                       end
        | Some _ => LErr
        end
      else if is_digit09 c then
        let '(cur2, rest2) := scan_num c cur1 rest1 in
        match slice start cur2 with
        | None => LPanic
        | Some w => match dec_of_string w with
                    | Some d => tok (TNum d) start cur2 cur2 rest2
                    | None => LErr
                    end
        end
      else if is_quote c then
        match scan_str c cur1 rest1 with
        | None => LErr
        | Some (cur2, rest2) =>
            match slice (start + 1) (cur2 - 1) with
            | None => LPanic
            | Some w => tok (TStr w) start cur2 cur2 rest2
            end
        end
      else if c =? c_semi then
        match slice start (start + 1) with
        | None => LPanic
        | Some _ => tok TSemi start (start + 1) cur1 rest1
        end
      else if c =? c_comma then
        match slice start (start + 1) with
        | None => LPanic
        | Some _ => tok TComma start (start + 1) cur1 rest1
        end
      else
        (* other_token *)
        let '(curw, restw) := scan not_ws_delim cur1 rest1 in
        match slice start curw with
        | None => LPanic
        | Some word =>
            if is_op tbl word then tok (TOp word) start curw curw restw
            else
              let '(cur2, rest2) := scan is_param_char cur1 rest1 in
              match slice start cur2 with
              | None => LPanic
              | Some atom =>
                  if str_eqb atom s_True || str_eqb atom s_true then tok (TBool true) start cur2 cur2 rest2
                  else if str_eqb atom s_False || str_eqb atom s_false then tok (TBool false) start cur2 cur2 rest2
                  else if next_is_lparen cur2 rest2 then tok (TFunc atom) start cur2 cur2 rest2
                  else tok (TRef atom) start cur2 cur2 rest2
              end
        end
  end.

(* all tokens up to the terminal: the lazy tokenizer seen as a batch (DESIGN 1.1) *)
Fixpoint lex_all (fuel : nat) (tbl : optable) (cur : N) (rest : str) : list stoken * terminal :=
  match fuel with
  | O => ([], TmFuel)
  | S f =>
      match lex_one tbl cur rest with
      | LEof => ([], TmEof)
      | LErr => ([], TmErr)
      | LPanic => ([], TmPanic)
      | LTok t cur' rest' => let '(ts, tm) := lex_all f tbl cur' rest' in (t :: ts, tm)
      end
  end.

Definition lex_fuel (s : str) : nat := S (length s).
Definition lex (tbl : optable) (s : str) : list stoken * terminal := lex_all (lex_fuel s) tbl 0 s.
