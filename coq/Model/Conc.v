(** Interleaving model of the engine's synchronisation (C13): N threads, each a list of public calls.
    A public call first passes the once-cell gate (init.rs: OnceCell::get_or_init), then runs as a resumption over
    atomic registry accesses (every Read / Write is one critical section of one registry mutex, as in
    operator.rs:248,279,289,298 and function.rs:74,78). The initialising thread performs the built-in Writes
    one by one; threads arriving at the gate meanwhile are blocked (no step), as get_or_init does. *)
From Coq Require Import List Arith Lia Bool.
Import ListNotations.

Section Conc.
Variable name entry result : Type.
Variable name_eqb : name -> name -> bool.
Hypothesis name_eqb_spec : forall a b, reflect (a = b) (name_eqb a b).
Variable builtins : list (name * entry).

Inductive once := OUninit | ORunning (t : nat) | ODone.

Inductive body :=
| Ret (r : result)
| Read (n : name) (k : option entry -> body)
| Write (n : name) (e : entry) (k : body).

Inductive tstate :=
| TGate (b : body) (rest : list body)                          (* about to enter get_or_init, then run b *)
| TInit (todo : list (name * entry)) (b : body) (rest : list body)  (* this thread runs the initialiser *)
| TBody (b : body) (rest : list body)                          (* inside a call, past the gate *)
| TFinished.

Definition regs := name -> option entry.
Definition upd (r : regs) (n : name) (e : entry) : regs := fun m => if name_eqb n m then Some e else r m.

Record config := { once_st : once; reg : regs; threads : list tstate; results : list (nat * result) }.

Definition next_call (rest : list body) : tstate :=
  match rest with [] => TFinished | b :: rest' => TGate b rest' end.

Fixpoint set_nth {A} (l : list A) (i : nat) (x : A) : list A :=
  match l, i with
  | [], _ => []
  | _ :: t, 0 => x :: t
  | h :: t, S i => h :: set_nth t i x
  end.

Inductive step (c : config) (i : nat) : config -> Prop :=
| S_gate_first b rest : nth_error (threads c) i = Some (TGate b rest) -> once_st c = OUninit ->
    step c i {| once_st := ORunning i; reg := reg c; threads := set_nth (threads c) i (TInit builtins b rest); results := results c |}
| S_gate_done b rest : nth_error (threads c) i = Some (TGate b rest) -> once_st c = ODone ->
    step c i {| once_st := ODone; reg := reg c; threads := set_nth (threads c) i (TBody b rest); results := results c |}
| S_init_write n e todo b rest : nth_error (threads c) i = Some (TInit ((n, e) :: todo) b rest) ->
    step c i {| once_st := once_st c; reg := upd (reg c) n e; threads := set_nth (threads c) i (TInit todo b rest); results := results c |}
| S_init_done b rest : nth_error (threads c) i = Some (TInit [] b rest) ->
    step c i {| once_st := ODone; reg := reg c; threads := set_nth (threads c) i (TBody b rest); results := results c |}
| S_read n k rest : nth_error (threads c) i = Some (TBody (Read n k) rest) ->
    step c i {| once_st := once_st c; reg := reg c; threads := set_nth (threads c) i (TBody (k (reg c n)) rest); results := results c |}
| S_write n e k rest : nth_error (threads c) i = Some (TBody (Write n e k) rest) ->
    step c i {| once_st := once_st c; reg := upd (reg c) n e; threads := set_nth (threads c) i (TBody k rest); results := results c |}
| S_ret r rest : nth_error (threads c) i = Some (TBody (Ret r) rest) ->
    step c i {| once_st := once_st c; reg := reg c; threads := set_nth (threads c) i (next_call rest); results := (i, r) :: results c |}.

Inductive reachable (c0 : config) : config -> Prop :=
| R_refl : reachable c0 c0
| R_step c i c' : reachable c0 c -> step c i c' -> reachable c0 c'.

Definition initial (progs : list (list body)) : config :=
  {| once_st := OUninit; reg := fun _ => None; threads := map next_call progs; results := [] |}.

Definition has_all (r : regs) (bs : list (name * entry)) := forall n e, In (n, e) bs -> r n <> None.

(* the sequential meaning of a call body: what it returns and what it leaves in the registries when nothing interleaves *)
Fixpoint run_seq (r : regs) (b : body) : result * regs :=
  match b with
  | Ret x => (x, r)
  | Read n k => run_seq r (k (r n))
  | Write n e k => run_seq (upd r n e) k
  end.

(* thread i alone takes steps: a call that is not interleaved with anything *)
Inductive solo (i : nat) : config -> config -> Prop :=
| So_refl c : solo i c c
| So_step c c' c'' : step c i c' -> solo i c' c'' -> solo i c c''.

End Conc.

Arguments Ret {name entry result}. Arguments Read {name entry result}. Arguments Write {name entry result}.
Arguments TGate {name entry result}. Arguments TInit {name entry result}. Arguments TBody {name entry result}.
Arguments TFinished {name entry result}.
Arguments once_st {name entry result}. Arguments reg {name entry result}. Arguments threads {name entry result}.
Arguments results {name entry result}. Arguments Build_config {name entry result}.
Arguments upd {name entry}. Arguments next_call {name entry result}. Arguments has_all {name entry}.
Arguments run_seq {name entry result}. Arguments step {name entry result}. Arguments reachable {name entry result}.
Arguments initial {name entry result}. Arguments solo {name entry result}.
Arguments S_gate_first {name entry result}. Arguments S_gate_done {name entry result}. Arguments S_init_write {name entry result}.
Arguments S_init_done {name entry result}. Arguments S_read {name entry result}. Arguments S_write {name entry result}.
Arguments S_ret {name entry result}. Arguments So_refl {name entry result}. Arguments So_step {name entry result}.
