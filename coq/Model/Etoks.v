(** Token-level image of the printer model, with the computable premises of the round-trip theorem (Lemmas/RoundTrip.v).
    Definitions only: this file is part of the extracted executable model.
    The printer writes an infix operand in parentheses exactly when it has to (Printer.mins): [minp t] is that parenthesisation
    as a [ptree], [etoks t] its tokens, [need t] the nesting depth the parser consumes on them. The names ending in 0 are the
    conservative parenthesisation of the printer before that fix (every operator of the facing spine is looked at, also those
    already inside parentheses); Lemmas/PrattFull.v proves the round trip for it and provides the machinery reused since. *)
From EE Require Import Chars OpTable Decimal Token Lexer Ast Parser Printer.
From EE Require Export Ptree.
Open Scope N_scope.

Section Etoks.
Variable tbl : optable.
Notation lbp o := (fst (binding_power tbl o)).
Notation rbp o := (snd (binding_power tbl o)).

(* an infix operator that the loop treats as an ordinary one: registered with precedence >= 1, not the word `not`,
   not `?`, not also a postfix operator *)
Definition plainb (o : str) : bool :=
  negb (is_not o) && negb (str_eqb o s_qmark) && negb (is_postfix tbl o) && (1 <=? lbp o)%Z.
(* a prefix operator must not be spelled like a closing delimiter (the tokenizer never produces such an operator token) *)
Definition closer (o : str) : bool := str_eqb o s_rparen || str_eqb o s_rbrack || str_eqb o s_rbrace.
Definition prefixb (o : str) : bool := is_prefix tbl o && negb (closer o).

Fixpoint wf (t : ast) : bool :=
  match t with
  | ALit _ | ARef _ => true
  | ABinary o l r => plainb o && wf l && wf r
  | AUnary n e =>
      match e with
      | ABinary o l r => if str_eqb n s_not then plainb o && wf l && wf r else prefixb n && wf e
      | _ => prefixb n && wf e
      end
  | APostfix e o => is_postfix tbl o && wf e
  | ATernary c a b => wf c && wf a && wf b
  | AFunc _ args => (fix go (l : list ast) : bool := match l with [] => true | x :: r => wf x && go r end) args
  | AList es => (fix go (l : list ast) : bool := match l with [] => true | x :: r => wf x && go r end) es
  | AMap kvs => (fix go (l : list (ast * ast)) : bool := match l with [] => true | (k, v) :: r => wf k && wf v && go r end) kvs
  | AStmt _ | ANone => false
  end.

Definition lbare0 (l : ast) (o : str) : bool := negb (is_ternary l || rspine_blocks tbl (lbp o) l).
Definition rbare0 (r : ast) (o : str) : bool := negb (is_ternary r || lspine_blocks tbl (rbp o) r).


(* the conservative printer with tokens for characters *)
Fixpoint etoks0 (e : ast) : list token :=
  let binary (shown : list token) (op : str) (lhs rhs : ast) : list token :=
    ptoks (negb (lbare0 lhs op)) (etoks0 lhs) ++ shown ++ ptoks (negb (rbare0 rhs op)) (etoks0 rhs) in
  match e with
  | ALit l => [lit_tok l]
  | ARef n => [TRef n]
  | AFunc n args =>
      TFunc n :: TDelim DLParen ::
      (fix go (l : list ast) : list token :=
         match l with
         | [] => []
         | x :: r => match r with [] => etoks0 x | _ => etoks0 x ++ TComma :: go r end
         end) args ++ [TDelim DRParen]
  | AUnary op rhs =>
      match rhs with
      | ABinary iop l r =>
          if str_eqb op s_not then binary [TOp s_not; TOp iop] iop l r
          else TOp op :: ptoks true (etoks0 rhs)
      | _ => TOp op :: ptoks (is_ternary rhs || is_infix_like rhs) (etoks0 rhs)
      end
  | ABinary op l r => binary [TOp op] op l r
  | APostfix lhs op => ptoks (postfix_needs_paren lhs) (etoks0 lhs) ++ [TOp op]
  | ATernary c a b => ptoks (is_ternary c) (etoks0 c) ++ TOp s_qmark :: etoks0 a ++ TOp s_colon :: etoks0 b
  | AList es =>
      TDelim DLBrack ::
      (fix go (l : list ast) : list token :=
         match l with
         | [] => []
         | x :: r => match r with [] => etoks0 x | _ => etoks0 x ++ TComma :: go r end
         end) es ++ [TDelim DRBrack]
  | AMap kvs =>
      TDelim DLBrace ::
      (fix go (l : list (ast * ast)) : list token :=
         match l with
         | [] => []
         | (k, v) :: r =>
             match r with
             | [] => etoks0 k ++ TOp s_colon :: etoks0 v
             | _ => etoks0 k ++ TOp s_colon :: etoks0 v ++ TComma :: go r
             end
         end) kvs ++ [TDelim DRBrace]
  | AStmt _ | ANone => []
  end.

(* the iterations of the parser's operator loop do not add to Parser.depth (they did before the fix "nesting limit counts
   recursion, not loop iterations"; the term is kept, as zero, in the statements of Lemmas/PrattFull.v) *)
Definition ldepth0 (t : ast) : N := 0.

(* Parser.depth consumed on [etoks0 t] (parser.rs counts operands, parentheses, brackets, calls and loop iterations);
   beyond MAX_DEPTH the parser answers Err(TooDeep), so the bound is a hypothesis of the theorem *)
Fixpoint need0 (t : ast) : N :=
  let bneed0 (o : str) (l r : ast) : N :=
    N.max (if lbare0 l o then need0 l else need0 l + 1)
          ((if lbare0 l o then ldepth0 l else 0) + 1 + (if rbare0 r o then need0 r else need0 r + 1)) in
  match t with
  | ABinary o l r => bneed0 o l r
  | AUnary n e =>
      match e with
      | ABinary o l r => if str_eqb n s_not then bneed0 o l r else 1 + (need0 e + 1)
      | _ => 1 + (if is_ternary e || is_infix_like e then need0 e + 1 else need0 e)
      end
  | APostfix e _ => if postfix_needs_paren e then need0 e + 1 else need0 e
  | ATernary c a b =>
      N.max (if is_ternary c then need0 c + 1 else need0 c)
            ((if is_ternary c then 0 else ldepth0 c) + 2 + N.max (need0 a) (need0 b))
  | AFunc _ args => 1 + (fix go (l : list ast) : N := match l with [] => 0 | x :: r => N.max (need0 x) (go r) end) args
  | AList es => 1 + (fix go (l : list ast) : N := match l with [] => 0 | x :: r => N.max (need0 x) (go r) end) es
  | AMap kvs => 1 + (fix go (l : list (ast * ast)) : N :=
                       match l with [] => 0 | (k, v) :: r => N.max (N.max (need0 k) (need0 v)) (go r) end) kvs
  | _ => 1
  end.


(* ---- the printer (exact parentheses) *)
Definition lparen (l : ast) (o : str) : bool := left_paren (lbp o) l (mins tbl l).
Definition rparen (r : ast) (o : str) : bool := right_paren (rbp o) r (mins tbl r).
Definition lbare (l : ast) (o : str) : bool := negb (lparen l o).
Definition rbare (r : ast) (o : str) : bool := negb (rparen r o).
Definition wrap (b : bool) (p : ptree) : ptree := if b then PParen p else p.

(* the printer's parenthesisation of t *)
Fixpoint minp (t : ast) : ptree :=
  let node (nt : bool) (o : str) (l r : ast) : ptree :=
    PBin nt o (wrap (lparen l o) (minp l)) (wrap (rparen r o) (minp r)) in
  match t with
  | ALit l => PLit l
  | ARef n => PRef n
  | ABinary o l r => node false o l r
  | AUnary n e =>
      match e with
      | ABinary o l r => if str_eqb n s_not then node true o l r else PUn n (PParen (minp e))
      | _ => PUn n (wrap (is_ternary e || is_infix_like e) (minp e))
      end
  | APostfix e o => PPost (wrap (postfix_needs_paren e) (minp e)) o
  | ATernary c a b => PTern (wrap (is_ternary c) (minp c)) (minp a) (minp b)
  | AFunc n args => PFunc n ((fix go (l : list ast) : list ptree := match l with [] => [] | x :: r => minp x :: go r end) args)
  | AList es => PList ((fix go (l : list ast) : list ptree := match l with [] => [] | x :: r => minp x :: go r end) es)
  | AMap kvs => PMap ((fix go (l : list (ast * ast)) : list (ptree * ptree) :=
                         match l with [] => [] | (k, v) :: r => (minp k, minp v) :: go r end) kvs)
  | AStmt _ | ANone => PList []
  end.

(* Printer.expr with tokens for characters; the nesting depth the parser consumes on them *)
Definition etoks (t : ast) : list token := toks (minp t).
Definition need (t : ast) : N := pneed (minp t).

Definition hgt (t : ast) : Prop := ast_height t <= MAX_DEPTH.
Definition room0 (d : N) (t : ast) : Prop := d + need0 t <= MAX_DEPTH.
Definition room (d : N) (t : ast) : Prop := d + need t <= MAX_DEPTH.

End Etoks.

Definition tbl_okb (tbl : optable) : bool :=
  negb (is_postfix tbl s_qmark) && negb (is_postfix tbl s_colon) && negb (is_postfix tbl s_not) &&
  (match infix_cfg_of tbl s_qmark with None => true | Some _ => false end) &&
  (match infix_cfg_of tbl s_colon with None => true | Some _ => false end).
Definition dec_eqb (a b : dec) : bool := Bool.eqb (dneg a) (dneg b) && (dmant a =? dmant b) && (dscale a =? dscale b).
Definition delim_eqb (a b : delim) : bool :=
  match a, b with
  | DLParen, DLParen | DRParen, DRParen | DLBrack, DLBrack | DRBrack, DRBrack | DLBrace, DLBrace | DRBrace, DRBrace => true
  | _, _ => false
  end.
Definition tok_eqb (a b : token) : bool :=
  match a, b with
  | TOp x, TOp y | TStr x, TStr y | TRef x, TRef y | TFunc x, TFunc y => str_eqb x y
  | TDelim x, TDelim y => delim_eqb x y
  | TNum x, TNum y => dec_eqb x y
  | TBool x, TBool y => Bool.eqb x y
  | TComma, TComma | TSemi, TSemi => true
  | _, _ => false
  end.
Fixpoint toks_eqb (a b : list token) : bool :=
  match a, b with
  | [], [] => true
  | x :: a', y :: b' => tok_eqb x y && toks_eqb a' b'
  | _, _ => false
  end.
(* a program: statements separated by `;` (Printer.expr on AStmt) *)
Fixpoint stoks (tbl : optable) (es : list ast) : list token :=
  match es with
  | [] => []
  | x :: r => match r with [] => etoks tbl x | _ => etoks tbl x ++ TSemi :: stoks tbl r end
  end.
Definition top_toks (tbl : optable) (t : ast) : list token :=
  match t with AStmt es => stoks tbl es | _ => etoks tbl t end.
Definition premises1 (tbl : optable) (t : ast) : bool :=
  wf tbl t && (ast_height t <=? MAX_DEPTH) && (need tbl t <=? MAX_DEPTH).
Definition premises (tbl : optable) (t : ast) : bool :=
  tbl_okb tbl &&
  match t with
  | AStmt es => (2 <=? length es)%nat && forallb (premises1 tbl) es
  | _ => premises1 tbl t
  end.
Definition printer_tokens (tbl : optable) (t : ast) : bool :=
  let '(sts, tm) := lex tbl (expr tbl t) in
  match tm with TmEof => toks_eqb (map tk sts) (top_toks tbl t) | _ => false end.
