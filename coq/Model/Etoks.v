(** Token-level image of the printer model, with the computable premises of the round-trip theorem (Lemmas/PrattFull.v).
    Definitions only: this file is part of the extracted executable model. *)
From EE Require Import Chars OpTable Decimal Token Lexer Ast Parser Printer.
Open Scope N_scope.

Section Etoks.
Variable tbl : optable.
Notation lbp o := (fst (binding_power tbl o)).
Notation rbp o := (snd (binding_power tbl o)).

(* an infix operator that the loop treats as an ordinary one: registered with precedence >= 1, not the word `not`,
   not `?`, not also a postfix operator *)
Definition plainb (o : str) : bool :=
  negb (is_not o) && negb (str_eqb o s_qmark) && negb (is_postfix tbl o) && (1 <=? lbp o)%Z.
(* a prefix operator must not be spelled like a closing delimiter (the tokenizer never produces such an operator token) *)
Definition closer (o : str) : bool := str_eqb o s_rparen || str_eqb o s_rbrack || str_eqb o s_rbrace.
Definition prefixb (o : str) : bool := is_prefix tbl o && negb (closer o).

Fixpoint wf (t : ast) : bool :=
  match t with
  | ALit _ | ARef _ => true
  | ABinary o l r => plainb o && wf l && wf r
  | AUnary n e =>
      match e with
      | ABinary o l r => if str_eqb n s_not then plainb o && wf l && wf r else prefixb n && wf e
      | _ => prefixb n && wf e
      end
  | APostfix e o => is_postfix tbl o && wf e
  | ATernary c a b => wf c && wf a && wf b
  | AFunc _ args => (fix go (l : list ast) : bool := match l with [] => true | x :: r => wf x && go r end) args
  | AList es => (fix go (l : list ast) : bool := match l with [] => true | x :: r => wf x && go r end) es
  | AMap kvs => (fix go (l : list (ast * ast)) : bool := match l with [] => true | (k, v) :: r => wf k && wf v && go r end) kvs
  | AStmt _ | ANone => false
  end.

Definition lbare (l : ast) (o : str) : bool := negb (is_ternary l || rspine_blocks tbl (lbp o) l).
Definition rbare (r : ast) (o : str) : bool := negb (is_ternary r || lspine_blocks tbl (rbp o) r).

Definition paren (ts : list token) : list token := TDelim DLParen :: ts ++ [TDelim DRParen].
Definition ptoks (need : bool) (ts : list token) : list token := if need then paren ts else ts.
Definition lit_tok (l : literal) : token := match l with LNum d => TNum d | LBool b => TBool b | LStr s => TStr s end.

(* Printer.expr with tokens for characters *)
Fixpoint etoks (e : ast) : list token :=
  let binary (shown : list token) (op : str) (lhs rhs : ast) : list token :=
    ptoks (negb (lbare lhs op)) (etoks lhs) ++ shown ++ ptoks (negb (rbare rhs op)) (etoks rhs) in
  match e with
  | ALit l => [lit_tok l]
  | ARef n => [TRef n]
  | AFunc n args =>
      TFunc n :: TDelim DLParen ::
      (fix go (l : list ast) : list token :=
         match l with
         | [] => []
         | x :: r => match r with [] => etoks x | _ => etoks x ++ TComma :: go r end
         end) args ++ [TDelim DRParen]
  | AUnary op rhs =>
      match rhs with
      | ABinary iop l r =>
          if str_eqb op s_not then binary [TOp s_not; TOp iop] iop l r
          else TOp op :: ptoks true (etoks rhs)
      | _ => TOp op :: ptoks (is_ternary rhs || is_infix_like rhs) (etoks rhs)
      end
  | ABinary op l r => binary [TOp op] op l r
  | APostfix lhs op => ptoks (postfix_needs_paren lhs) (etoks lhs) ++ [TOp op]
  | ATernary c a b => ptoks (is_ternary c) (etoks c) ++ TOp s_qmark :: etoks a ++ TOp s_colon :: etoks b
  | AList es =>
      TDelim DLBrack ::
      (fix go (l : list ast) : list token :=
         match l with
         | [] => []
         | x :: r => match r with [] => etoks x | _ => etoks x ++ TComma :: go r end
         end) es ++ [TDelim DRBrack]
  | AMap kvs =>
      TDelim DLBrace ::
      (fix go (l : list (ast * ast)) : list token :=
         match l with
         | [] => []
         | (k, v) :: r =>
             match r with
             | [] => etoks k ++ TOp s_colon :: etoks v
             | _ => etoks k ++ TOp s_colon :: etoks v ++ TComma :: go r
             end
         end) kvs ++ [TDelim DRBrace]
  | AStmt _ | ANone => []
  end.

(* number of loop iterations that build t from its first primary *)
Fixpoint ldepth (t : ast) : N :=
  match t with
  | ABinary o l _ => (if lbare l o then ldepth l else 0) + 1
  | AUnary n (ABinary o l _) => if str_eqb n s_not then (if lbare l o then ldepth l else 0) + 1 else 0
  | _ => 0
  end.

(* Parser.depth consumed on [etoks t] (parser.rs counts operands, parentheses, brackets, calls and loop iterations);
   beyond MAX_DEPTH the parser answers Err(TooDeep), so the bound is a hypothesis of the theorem *)
Fixpoint need (t : ast) : N :=
  let bneed (o : str) (l r : ast) : N :=
    N.max (if lbare l o then need l else need l + 1)
          ((if lbare l o then ldepth l else 0) + 1 + (if rbare r o then need r else need r + 1)) in
  match t with
  | ABinary o l r => bneed o l r
  | AUnary n e =>
      match e with
      | ABinary o l r => if str_eqb n s_not then bneed o l r else 1 + (need e + 1)
      | _ => 1 + (if is_ternary e || is_infix_like e then need e + 1 else need e)
      end
  | APostfix e _ => if postfix_needs_paren e then need e + 1 else need e
  | ATernary c a b =>
      N.max (if is_ternary c then need c + 1 else need c)
            ((if is_ternary c then 0 else ldepth c) + 2 + N.max (need a) (need b))
  | AFunc _ args => 1 + (fix go (l : list ast) : N := match l with [] => 0 | x :: r => N.max (need x) (go r) end) args
  | AList es => 1 + (fix go (l : list ast) : N := match l with [] => 0 | x :: r => N.max (need x) (go r) end) es
  | AMap kvs => 1 + (fix go (l : list (ast * ast)) : N :=
                       match l with [] => 0 | (k, v) :: r => N.max (N.max (need k) (need v)) (go r) end) kvs
  | _ => 1
  end.

Definition hgt (t : ast) : Prop := ast_height t <= MAX_DEPTH.
Definition room (d : N) (t : ast) : Prop := d + need t <= MAX_DEPTH.

End Etoks.

Definition tbl_okb (tbl : optable) : bool :=
  negb (is_postfix tbl s_qmark) && negb (is_postfix tbl s_colon) && negb (is_postfix tbl s_not) &&
  (match infix_cfg_of tbl s_qmark with None => true | Some _ => false end) &&
  (match infix_cfg_of tbl s_colon with None => true | Some _ => false end).
Definition dec_eqb (a b : dec) : bool := Bool.eqb (dneg a) (dneg b) && (dmant a =? dmant b) && (dscale a =? dscale b).
Definition delim_eqb (a b : delim) : bool :=
  match a, b with
  | DLParen, DLParen | DRParen, DRParen | DLBrack, DLBrack | DRBrack, DRBrack | DLBrace, DLBrace | DRBrace, DRBrace => true
  | _, _ => false
  end.
Definition tok_eqb (a b : token) : bool :=
  match a, b with
  | TOp x, TOp y | TStr x, TStr y | TRef x, TRef y | TFunc x, TFunc y => str_eqb x y
  | TDelim x, TDelim y => delim_eqb x y
  | TNum x, TNum y => dec_eqb x y
  | TBool x, TBool y => Bool.eqb x y
  | TComma, TComma | TSemi, TSemi => true
  | _, _ => false
  end.
Fixpoint toks_eqb (a b : list token) : bool :=
  match a, b with
  | [], [] => true
  | x :: a', y :: b' => tok_eqb x y && toks_eqb a' b'
  | _, _ => false
  end.
(* a program: statements separated by `;` (Printer.expr on AStmt) *)
Fixpoint stoks (tbl : optable) (es : list ast) : list token :=
  match es with
  | [] => []
  | x :: r => match r with [] => etoks tbl x | _ => etoks tbl x ++ TSemi :: stoks tbl r end
  end.
Definition top_toks (tbl : optable) (t : ast) : list token :=
  match t with AStmt es => stoks tbl es | _ => etoks tbl t end.
Definition premises1 (tbl : optable) (t : ast) : bool :=
  wf tbl t && (ast_height t <=? MAX_DEPTH) && (need tbl t <=? MAX_DEPTH).
Definition premises (tbl : optable) (t : ast) : bool :=
  tbl_okb tbl &&
  match t with
  | AStmt es => (2 <=? length es)%nat && forallb (premises1 tbl) es
  | _ => premises1 tbl t
  end.
Definition printer_tokens (tbl : optable) (t : ast) : bool :=
  let '(sts, tm) := lex tbl (expr tbl t) in
  match tm with TmEof => toks_eqb (map tk sts) (top_toks tbl t) | _ => false end.
