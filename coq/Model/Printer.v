(** expr() (parser.rs:245-363) and describe() (parser.rs:365-414, descriptor.rs). *)
From EE Require Export OpTable Ast.
Open Scope N_scope.

Section Printer.
Variable tbl : optable.

Definition lit_expr (l : literal) : str :=
  match l with
  | LNum d => dec_to_string d
  | LBool true => s_true
  | LBool false => s_false
  | LStr s => let q := if existsb (fun c => c =? c_dquote) s then c_squote else c_dquote in
              q :: s ++ [q]
  end.

(* infix_like: x OP y  and  x not OP y *)
Definition infix_like (e : ast) : option (str * ast * ast * bool) :=
  match e with
  | ABinary op l r => Some (op, l, r, false)
  | AUnary o (ABinary op l r) => if str_eqb o s_not then Some (op, l, r, true) else None
  | _ => None
  end.
Definition is_infix_like (e : ast) : bool := match infix_like e with Some _ => true | None => false end.
Definition is_ternary (e : ast) : bool := match e with ATernary _ _ _ => true | _ => false end.

(* some operator x on the right spine of e has l_bp >= r_bp(x) - the conservative criterion of the printer before the fix
   "exact parentheses" (kept for Lemmas/PrattFull.v, which proves the round trip for that parenthesisation) *)
Fixpoint rspine_blocks (l_bp : Z) (e : ast) : bool :=
  match e with
  | ABinary x _ r => (snd (binding_power tbl x) <=? l_bp)%Z || rspine_blocks l_bp r
  | AUnary o (ABinary x _ r) =>
      if str_eqb o s_not then (snd (binding_power tbl x) <=? l_bp)%Z || rspine_blocks l_bp r else false
  | _ => false
  end.
(* some operator y on the left spine of e has r_bp >= l_bp(y) *)
Fixpoint lspine_blocks (r_bp : Z) (e : ast) : bool :=
  match e with
  | ABinary y l _ => (fst (binding_power tbl y) <=? r_bp)%Z || lspine_blocks r_bp l
  | AUnary o (ABinary y l _) =>
      if str_eqb o s_not then (fst (binding_power tbl y) <=? r_bp)%Z || lspine_blocks r_bp l else false
  | _ => false
  end.

(* infix_render (parser.rs): for an infix-like node, the weakest binding powers still EXPOSED on its two flanks - the smallest
   l_bp on its left spine and the smallest r_bp on its right spine, a spine being followed only through operands that are
   written without parentheses; None for every other node. An operand is parenthesised exactly when it is a conditional or
   some exposed operator on its flank facing the operator would not bind first. *)
Definition left_paren (l_bp : Z) (lhs : ast) (m : option (Z * Z)) : bool :=
  is_ternary lhs || match m with Some (_, r_min) => (r_min <=? l_bp)%Z | None => false end.
Definition right_paren (r_bp : Z) (rhs : ast) (m : option (Z * Z)) : bool :=
  is_ternary rhs || match m with Some (l_min, _) => (l_min <=? r_bp)%Z | None => false end.

Fixpoint mins (e : ast) : option (Z * Z) :=
  let node (x : str) (l r : ast) : option (Z * Z) :=
    let '(l_bp, r_bp) := binding_power tbl x in
    let ml := mins l in
    let mr := mins r in
    Some (match ml with Some (m, _) => if left_paren l_bp l ml then l_bp else Z.min l_bp m | None => l_bp end,
          match mr with Some (_, m) => if right_paren r_bp r mr then r_bp else Z.min r_bp m | None => r_bp end) in
  match e with
  | ABinary x l r => node x l r
  | AUnary o (ABinary x l r) => if str_eqb o s_not then node x l r else None
  | _ => None
  end.

Definition paren (need : bool) (s : str) : str := if need then c_lparen :: s ++ [c_rparen] else s.
Definition sp : str := [c_space].

Definition postfix_needs_paren (lhs : ast) : bool :=
  match lhs with
  | ATernary _ _ _ | AUnary _ _ => true
  | _ => is_infix_like lhs
  end.

Fixpoint expr (e : ast) : str :=
  let binary (shown op : str) (lhs rhs : ast) : str :=
    let '(l_bp, r_bp) := binding_power tbl op in
    paren (left_paren l_bp lhs (mins lhs)) (expr lhs) ++ sp ++ shown ++ sp ++
    paren (right_paren r_bp rhs (mins rhs)) (expr rhs) in
  match e with
  | ALit l => lit_expr l
  | ARef n => n
  | AFunc n args =>
      n ++ c_lparen ::
      (fix go (l : list ast) : str :=
         match l with
         | [] => []
         | x :: r => match r with [] => expr x | _ => expr x ++ c_comma :: go r end
         end) args ++ [c_rparen]
  | AUnary op rhs =>
      match rhs with
      | ABinary iop l r =>
          if str_eqb op s_not then binary (s_not ++ sp ++ iop) iop l r
          else op ++ sp ++ paren true (expr rhs)
      | _ => op ++ sp ++ paren (is_ternary rhs || is_infix_like rhs) (expr rhs)
      end
  | ABinary op l r => binary op op l r
  | APostfix lhs op => paren (postfix_needs_paren lhs) (expr lhs) ++ sp ++ op
  | ATernary c a b => paren (is_ternary c) (expr c) ++ sp ++ s_qmark ++ sp ++ expr a ++ sp ++ s_colon ++ sp ++ expr b
  | AList es =>
      c_lbrack ::
      (fix go (l : list ast) : str :=
         match l with
         | [] => []
         | x :: r => match r with [] => expr x | _ => expr x ++ c_comma :: go r end
         end) es ++ [c_rbrack]
  | AMap kvs =>
      c_lbrace ::
      (fix go (l : list (ast * ast)) : str :=
         match l with
         | [] => []
         | (k, v) :: r =>
             match r with
             | [] => expr k ++ s_colon ++ expr v
             | _ => expr k ++ s_colon ++ expr v ++ c_comma :: go r
             end
         end) kvs ++ [c_rbrace]
  | AStmt es =>
      (fix go (l : list ast) : str :=
         match l with
         | [] => []
         | x :: r => match r with [] => expr x | _ => expr x ++ c_semi :: go r end
         end) es
  | ANone => []
  end.

End Printer.

(** describe(): descriptors are arbitrary functions; [None] = not registered -> documented default *)
Record dtable := {
  d_unary : str -> option (str -> str -> str);
  d_binary : str -> option (str -> str -> str -> str);
  d_postfix : str -> option (str -> str -> str);
  d_ternary : option (str -> str -> str -> str);
  d_function : str -> option (str -> list str -> str);
  d_reference : str -> option (str -> str);
  d_list : option (list str -> str);
  d_map : option (list (str * str) -> str);
  d_chain : option (list str -> str)
}.

Fixpoint join (sep : str) (l : list str) : str :=
  match l with
  | [] => []
  | x :: r => match r with [] => x | _ => x ++ sep ++ join sep r end
  end.

Definition default_unary (op rhs : str) : str := op ++ rhs.
Definition default_binary (op lhs rhs : str) : str := lhs ++ op ++ rhs.
Definition default_postfix (lhs op : str) : str := lhs ++ op.
Definition default_ternary (c a b : str) : str := c ++ s_qmark ++ a ++ s_colon ++ b.
Definition default_function (n : str) (ps : list str) : str := n ++ c_lparen :: join [c_comma] ps ++ [c_rparen].
Definition default_reference (n : str) : str := n.
Definition default_list (ps : list str) : str := c_lbrack :: join [c_comma] ps ++ [c_rbrack].
Definition default_map (m : list (str * str)) : str :=
  c_lbrace :: join [c_comma] (map (fun kv => fst kv ++ s_colon ++ snd kv) m) ++ [c_rbrace].
Definition default_chain (ps : list str) : str := join [c_semi] ps.

Definition or_default {A} (o : option A) (d : A) : A := match o with Some x => x | None => d end.

Section Describe.
Variable tbl : optable.
Variable dt : dtable.

Fixpoint describe (e : ast) : str :=
  match e with
  | ALit _ => expr tbl e
  | AUnary op rhs => or_default (d_unary dt op) default_unary op (describe rhs)
  | ABinary op l r => or_default (d_binary dt op) default_binary op (describe l) (describe r)
  | APostfix lhs op => or_default (d_postfix dt op) default_postfix (describe lhs) op
  | AList es => or_default (d_list dt) default_list (map describe es)
  | AMap kvs => or_default (d_map dt) default_map
                  ((fix go (l : list (ast * ast)) : list (str * str) :=
                      match l with [] => [] | (k, v) :: r => (describe k, describe v) :: go r end) kvs)
  | AFunc n args => or_default (d_function dt n) default_function n (map describe args)
  | ARef n => or_default (d_reference dt n) default_reference n
  | AStmt es => or_default (d_chain dt) default_chain (map describe es)
  | ATernary c a b => or_default (d_ternary dt) default_ternary (describe c) (describe a) (describe b)
  | ANone => []
  end.
End Describe.
