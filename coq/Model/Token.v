(** Tokens (token.rs). *)
From EE Require Export Chars Decimal.
Open Scope N_scope.

Inductive delim := DLParen | DRParen | DLBrack | DRBrack | DLBrace | DRBrace.

Inductive token :=
| TOp (s : str)
| TDelim (d : delim)
| TNum (d : dec)
| TComma
| TBool (b : bool)
| TStr (s : str)
| TRef (s : str)
| TFunc (s : str)
| TSemi.

Record stoken := mkst { tk : token; t_start : N; t_end : N }.

Inductive terminal := TmEof | TmErr | TmPanic | TmFuel.

(* DelimTokenType::from(&str) on a one-character slice *)
Definition delim_of (c : char) : option delim :=
  if c =? 40 then Some DLParen else if c =? 41 then Some DRParen
  else if c =? 91 then Some DLBrack else if c =? 93 then Some DRBrack
  else if c =? 123 then Some DLBrace else if c =? 125 then Some DRBrace else None.

Definition delim_char (d : delim) : char :=
  match d with DLParen => 40 | DRParen => 41 | DLBrack => 91 | DRBrack => 93 | DLBrace => 123 | DRBrace => 125 end.

Definition delim_eqb (a b : delim) : bool := delim_char a =? delim_char b.
