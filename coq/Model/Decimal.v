(** Decimal layer: rust_decimal 1.31.0 as a *modelled dependency*.
    [dec_of_string] transcribes str.rs (parse_str_radix_10) for inputs that start with a digit
    (the only way tokenizer.rs:206 calls it); [dec_to_string] transcribes Display (to_str_internal);
    the arithmetic follows the contract of DESIGN.md 3.1 (measured against the crate). *)
From EE Require Export Chars.
Open Scope N_scope.

Record dec := mkdec { dneg : bool; dmant : N; dscale : N }.

Definition two96 : N := 79228162514264337593543950336.
Definition WILL_OVERFLOW_U64 : N := 1844674407370954906.
Definition MAXP : N := 28.

Definition dec_zero : dec := mkdec false 0 0.
Definition dec_one : dec := mkdec false 1 0.
Definition dec_wf (d : dec) : bool := (dmant d <? two96) && (dscale d <=? 28).
Definition is_zero (d : dec) : bool := dmant d =? 0.
(* canonical sign: a zero is never negative in the model (the sign of zero is unobservable: see DESIGN 3.1) *)
Definition mk (neg : bool) (m s : N) : dec := mkdec (neg && negb (m =? 0)) m s.

(** * from_str *)
Definition maybe_round (data : N) (next : char) (scale : N) : option dec :=
  let digit := if is_digit09 next then Some (next - 48)
               else if next =? 46 then Some 0 else None in
  match digit with
  | None => None
  | Some d =>
      if 5 <=? d then
        let data1 := data + 1 in
        if two96 <=? data1 then
          if scale =? 0 then None else Some (mk false ((data1 + 4) / 10) (scale - 1))
        else Some (mk false data1 scale)
      else Some (mk false data scale)
  end.

Fixpoint full128 (point : bool) (data scale : N) (next : char) (bytes : str) : option dec :=
  if is_digit09 next then
    let nx := data * 10 + (next - 48) in
    if two96 <=? nx then (if point then maybe_round data next scale else None)
    else
      let scale' := if point then scale + 1 else scale in
      match bytes with
      | [] => Some (mk false nx scale')
      | b :: bs => if point && (28 <=? scale') then maybe_round nx b scale'
                   else full128 point nx scale' b bs
      end
  else if (next =? 46) && negb point then
    match bytes with
    | [] => Some (mk false data scale)
    | b :: bs => full128 true data scale b bs
    end
  else None.

Fixpoint phase64 (big point has : bool) (data scale : N) (b : char) (bytes : str) : option dec :=
  if is_digit09 b then
    let data' := data * 10 + (b - 48) in
    let scale' := if point then scale + 1 else 0 in
    match bytes with
    | [] => Some (mk false data' scale')
    | nx :: bs =>
        if point && big && (28 <=? scale') then maybe_round data' nx scale'
        else if big && (WILL_OVERFLOW_U64 <=? data') then full128 point data' scale' nx bs
        else phase64 big point true data' scale' nx bs
    end
  else if (b =? 46) && negb point then
    match bytes with
    | [] => if has then Some (mk false data scale) else None
    | nx :: bs => phase64 big true has data scale nx bs
    end
  else None.

Definition dec_of_string (s : str) : option dec :=
  match s with
  | [] => None
  | b :: bs => phase64 (18 <=? N.of_nat (length s)) false false 0 0 b bs
  end.

(** * Display *)
Fixpoint digits_rev (fuel : nat) (n : N) : str :=
  match fuel with
  | O => []
  | S f => if n =? 0 then [] else (48 + n mod 10) :: digits_rev f (n / 10)
  end.

Fixpoint pad_to (k : nat) (l : str) : str :=   (* append '0' until length >= k *)
  match k with
  | O => l
  | S k' => match l with [] => 48 :: pad_to k' [] | c :: l' => c :: pad_to k' l' end
  end.

Definition dec_to_string (d : dec) : str :=
  let sc := N.to_nat (dscale d) in
  let chars := pad_to sc (digits_rev 40 (dmant d)) in   (* least significant first *)
  let frac := rev (firstn sc chars) in
  let whole := rev (skipn sc chars) in
  let whole' := match whole with [] => [48] | _ => whole end in
  let body := match sc with O => whole' | _ => whole' ++ c_dot :: frac end in
  if dneg d then c_minus :: body else body.

(** * Arithmetic contract *)
Inductive dres := DOk (d : dec) | DRounded (d : dec) | DOverflow | DDivZero | DAbstain.

Definition pow10 (k : N) : N := 10 ^ k.

(* round half even of n / d *)
Definition rhe (n d : N) : N :=
  let q := n / d in let r := n mod d in
  if 2 * r <? d then q else if d <? 2 * r then q + 1 else if N.even q then q else q + 1.

(* largest scale s' <= min s 28 such that rhe (n / 10^(s-s')) < 2^96 *)
Fixpoint fit_loop (fuel : nat) (n s s' : N) : option (N * N) :=
  let v := rhe n (pow10 (s - s')) in
  if v <? two96 then Some (v, s')
  else match fuel with
       | O => None
       | S f => if s' =? 0 then None else fit_loop f n s (s' - 1)
       end.

Definition fit (neg : bool) (n s : N) : dres :=
  if (n <? two96) && (s <=? 28) then DOk (mk neg n s)
  else match fit_loop 60 n s (N.min s 28) with
       | Some (v, s') => DRounded (mk neg v s')
       | None => DOverflow
       end.

Definition dec_neg (d : dec) : dec := mk (negb (dneg d)) (dmant d) (dscale d).

Definition dec_add (a b : dec) : dres :=
  if is_zero a then DOk b else if is_zero b then DOk a else
  let s := N.max (dscale a) (dscale b) in
  let ma := dmant a * pow10 (s - dscale a) in
  let mb := dmant b * pow10 (s - dscale b) in
  if Bool.eqb (dneg a) (dneg b) then fit (dneg a) (ma + mb) s
  else if mb <=? ma then fit (dneg a) (ma - mb) s
  else fit (dneg b) (mb - ma) s.

Definition dec_sub (a b : dec) : dres := dec_add a (dec_neg b).

Definition dec_mul (a b : dec) : dres :=
  if is_zero a || is_zero b then DOk dec_zero else
  let neg := xorb (dneg a) (dneg b) in
  match fit neg (dmant a * dmant b) (dscale a + dscale b) with
  | DRounded d => if is_zero d then DRounded dec_zero else DRounded d
  | r => r
  end.

(* comparison as rationals *)
Definition dec_cmp (a b : dec) : comparison :=
  let s := N.max (dscale a) (dscale b) in
  let za := (if dneg a then - Z.of_N (dmant a * pow10 (s - dscale a)) else Z.of_N (dmant a * pow10 (s - dscale a)))%Z in
  let zb := (if dneg b then - Z.of_N (dmant b * pow10 (s - dscale b)) else Z.of_N (dmant b * pow10 (s - dscale b)))%Z in
  Z.compare za zb.
Definition dec_eqb (a b : dec) : bool := match dec_cmp a b with Eq => true | _ => false end.
Definition dec_ltb (a b : dec) : bool := match dec_cmp a b with Lt => true | _ => false end.
Definition dec_leb (a b : dec) : bool := match dec_cmp a b with Gt => false | _ => true end.

(* strip trailing zeros down to scale [lo] *)
Fixpoint strip_zeros (fuel : nat) (m s lo : N) : N * N :=
  match fuel with
  | O => (m, s)
  | S f => if (lo <? s) && (m mod 10 =? 0) then strip_zeros f (m / 10) (s - 1) lo else (m, s)
  end.

(* div: rust_decimal 1.31 ops/div.rs transcribed at the level of integers. The three limb-size branches of div_impl (32, 64,
   96-bit divisor) run the same abstract loop - quotient q, remainder r < D, scale - and differ only in how the limbs are
   divided; the control flow (find_scale's overflow tables, rounding half-even on the last remainder, unscale_from_overflow,
   the partial unscale with its cheap bit pre-tests, which is why quotients keep some trailing zeros) is kept exactly. *)
Definition two64 : N := 18446744073709551616.
Definition pov (i : N) : N := (two96 - 1) / pow10 (i + 1).      (* POWER_OVERFLOW_VALUES[i] *)
Definition hi_of (q : N) : N := q / two64.
Definition lo_of (q : N) : N := q mod two64.

(* Buf12::find_scale (ops/common.rs:73): by how many powers of ten (at most 9) the quotient can still be scaled *)
Definition find_scale (q : N) (scale : Z) : option N :=
  let hi := hi_of q in let lo := lo_of q in
  let fin (x : N) : option N := if (Z.of_N x + scale <? 0)%Z then None else Some x in
  let bin (_ : unit) : option N :=
    let x := if hi_of (pov 4) <? hi then
               (if hi_of (pov 2) <? hi then (if hi_of (pov 1) <? hi then 1 else 2) else if hi_of (pov 3) <? hi then 3 else 4)
             else if hi_of (pov 6) <? hi then (if hi_of (pov 5) <? hi then 5 else 6)
             else if hi_of (pov 7) <? hi then 7 else 8 in
    let x := if (hi =? hi_of (pov (x - 1))) && (lo_of (pov (x - 1)) <? lo) then x - 1 else x in
    fin x in
  if hi_of (pov 0) <? hi then (if (scale <? 0)%Z then None else Some 0)
  else if (19 <? scale)%Z then
    let x := Z.to_N (28 - scale) in
    if hi <? hi_of (pov (x - 1)) then fin x else bin tt
  else if (hi <? 4) || ((hi =? 4) && (lo <=? 5441186219426131129)) then Some 9
  else bin tt.

Inductive divst := DivDone (q : N) (scale : Z) (unsc : bool) | DivOverflow | DivFuel.

(* unscale_from_overflow (div.rs:588): T >= 2^96 came out of an addition; divide by ten, round half-even with a sticky bit *)
Definition unscale_from_overflow (t : N) (scale : Z) (sticky : bool) (unsc : bool) : divst :=
  let scale := (scale - 1)%Z in
  if (scale <? 0)%Z then DivOverflow else
  let v := t / 10 in let r := t mod 10 in
  let v := if (5 <? r) || ((r =? 5) && (sticky || N.odd v)) then v + 1 else v in
  DivDone v scale unsc.

Fixpoint div_loop (fuel : nat) (D q r : N) (scale : Z) (unsc : bool) : divst :=
  match fuel with
  | O => DivFuel
  | S f =>
      let step (p : N) (unsc : bool) : divst :=
        let scale' := (scale + Z.of_N p)%Z in
        let q' := q * pow10 p in
        if two96 <=? q' then DivOverflow else
        let r' := r * pow10 p in
        let t := q' + r' / D in
        let r'' := r' mod D in
        if t <? two96 then div_loop f D t r'' scale' unsc
        else unscale_from_overflow t scale' (negb (r'' =? 0)) unsc in
      if r =? 0 then
        (if (0 <=? scale)%Z then DivDone q scale unsc else step (N.min 9 (Z.to_N (- scale))) unsc)
      else
        let finish (_ : unit) : divst :=
          (* no more scaling possible: round half-even on the remainder *)
          let round := (D <? 2 * r) || ((2 * r =? D) && N.odd q) in
          if round then
            (if q + 1 <? two96 then DivDone (q + 1) scale true else unscale_from_overflow (q + 1) scale true true)
          else DivDone q scale true in
        if (scale =? 28)%Z then finish tt
        else match find_scale q scale with
             | None => DivOverflow
             | Some p => if p =? 0 then finish tt else step p true
             end
  end.

(* unscale (div.rs:636): trailing zeros are removed in chunks of 10^8 (only while the low 32 bits are all zero), then at most
   once each 10^4, 10^2, 10^1, each behind a cheap test on the low bits *)
Fixpoint unscale8 (fuel : nat) (q : N) (scale : Z) : N * Z :=
  match fuel with
  | O => (q, scale)
  | S f => if (q mod 4294967296 =? 0) && (8 <=? scale)%Z && (q mod 100000000 =? 0)
           then unscale8 f (q / 100000000) (scale - 8)%Z else (q, scale)
  end.
Definition unscale (q : N) (scale : Z) : N * Z :=
  let '(q, scale) := unscale8 5 q scale in
  let '(q, scale) := if (q mod 16 =? 0) && (4 <=? scale)%Z && (q mod 10000 =? 0) then (q / 10000, (scale - 4)%Z) else (q, scale) in
  let '(q, scale) := if (q mod 4 =? 0) && (2 <=? scale)%Z && (q mod 100 =? 0) then (q / 100, (scale - 2)%Z) else (q, scale) in
  if (q mod 2 =? 0) && (1 <=? scale)%Z && (q mod 10 =? 0) then (q / 10, (scale - 1)%Z) else (q, scale).

Definition dec_div (a b : dec) : dres :=
  if is_zero b then DDivZero else
  if is_zero a then DOk dec_zero else
  let neg := xorb (dneg a) (dneg b) in
  let D := dmant b in
  match div_loop 40 D (dmant a / D) (dmant a mod D) (Z.of_N (dscale a) - Z.of_N (dscale b))%Z false with
  | DivDone q scale unsc =>
      let '(q, scale) := if unsc then unscale q scale else (q, scale) in
      let s' := Z.to_N scale in
      (* exact iff q / 10^s' = (ma / 10^sa) / (mb / 10^sb) *)
      if q * dmant b * pow10 (dscale a) =? dmant a * pow10 (dscale b) * pow10 s' then DOk (mk neg q s') else DRounded (mk neg q s')
  | DivOverflow => DOverflow
  | DivFuel => DAbstain
  end.

(* rem: truncated remainder, sign of the dividend *)
Definition dec_rem (a b : dec) : dres :=
  if is_zero b then DDivZero else
  if is_zero a then DOk dec_zero else
  let s := N.max (dscale a) (dscale b) in
  let ma := dmant a * pow10 (s - dscale a) in
  let mb := dmant b * pow10 (s - dscale b) in
  if ma =? mb then DOk dec_zero
  else if ma <? mb then DOk a
  else if (dscale a <? dscale b) && (two96 <=? ma) then DAbstain   (* Known_C09_rem_rescale (D21) *)
  else DOk (mk (dneg a) (ma mod mb) s).

(** * Integer conversions *)
Definition of_Z (z : Z) : dec := mk (z <? 0)%Z (Z.abs_N z) 0.

(* value.rs integer(): fract().is_zero() then to_i64() *)
Definition i64_min : Z := (-9223372036854775808)%Z.
Definition i64_max : Z := 9223372036854775807%Z.
Definition dec_to_i64 (d : dec) : option Z :=
  let p := pow10 (dscale d) in
  if dmant d mod p =? 0 then
    let n := Z.of_N (dmant d / p) in
    let z := (if dneg d then - n else n)%Z in
    if ((i64_min <=? z) && (z <=? i64_max))%Z then Some z else None
  else None.
