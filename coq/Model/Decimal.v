(** Decimal layer: rust_decimal 1.31.0 as a *modelled dependency*.
    [dec_of_string] transcribes str.rs (parse_str_radix_10) for inputs that start with a digit
    (the only way tokenizer.rs:206 calls it); [dec_to_string] transcribes Display (to_str_internal);
    the arithmetic follows the contract of DESIGN.md 3.1 (measured against the crate). *)
From EE Require Export Chars.
Open Scope N_scope.

Record dec := mkdec { dneg : bool; dmant : N; dscale : N }.

Definition two96 : N := 79228162514264337593543950336.
Definition WILL_OVERFLOW_U64 : N := 1844674407370954906.
Definition MAXP : N := 28.

Definition dec_zero : dec := mkdec false 0 0.
Definition dec_one : dec := mkdec false 1 0.
Definition dec_wf (d : dec) : bool := (dmant d <? two96) && (dscale d <=? 28).
Definition is_zero (d : dec) : bool := dmant d =? 0.
(* canonical sign: a zero is never negative in the model (the sign of zero is unobservable: see DESIGN 3.1) *)
Definition mk (neg : bool) (m s : N) : dec := mkdec (neg && negb (m =? 0)) m s.

(** * from_str *)
Definition maybe_round (data : N) (next : char) (scale : N) : option dec :=
  let digit := if is_digit09 next then Some (next - 48)
               else if next =? 46 then Some 0 else None in
  match digit with
  | None => None
  | Some d =>
      if 5 <=? d then
        let data1 := data + 1 in
        if two96 <=? data1 then
          if scale =? 0 then None else Some (mk false ((data1 + 4) / 10) (scale - 1))
        else Some (mk false data1 scale)
      else Some (mk false data scale)
  end.

Fixpoint full128 (point : bool) (data scale : N) (next : char) (bytes : str) : option dec :=
  if is_digit09 next then
    let nx := data * 10 + (next - 48) in
    if two96 <=? nx then (if point then maybe_round data next scale else None)
    else
      let scale' := if point then scale + 1 else scale in
      match bytes with
      | [] => Some (mk false nx scale')
      | b :: bs => if point && (28 <=? scale') then maybe_round nx b scale'
                   else full128 point nx scale' b bs
      end
  else if (next =? 46) && negb point then
    match bytes with
    | [] => Some (mk false data scale)
    | b :: bs => full128 true data scale b bs
    end
  else None.

Fixpoint phase64 (big point has : bool) (data scale : N) (b : char) (bytes : str) : option dec :=
  if is_digit09 b then
    let data' := data * 10 + (b - 48) in
    let scale' := if point then scale + 1 else 0 in
    match bytes with
    | [] => Some (mk false data' scale')
    | nx :: bs =>
        if point && big && (28 <=? scale') then maybe_round data' nx scale'
        else if big && (WILL_OVERFLOW_U64 <=? data') then full128 point data' scale' nx bs
        else phase64 big point true data' scale' nx bs
    end
  else if (b =? 46) && negb point then
    match bytes with
    | [] => if has then Some (mk false data scale) else None
    | nx :: bs => phase64 big true has data scale nx bs
    end
  else None.

Definition dec_of_string (s : str) : option dec :=
  match s with
  | [] => None
  | b :: bs => phase64 (18 <=? N.of_nat (length s)) false false 0 0 b bs
  end.

(** * Display *)
Fixpoint digits_rev (fuel : nat) (n : N) : str :=
  match fuel with
  | O => []
  | S f => if n =? 0 then [] else (48 + n mod 10) :: digits_rev f (n / 10)
  end.

Fixpoint pad_to (k : nat) (l : str) : str :=   (* append '0' until length >= k *)
  match k with
  | O => l
  | S k' => match l with [] => 48 :: pad_to k' [] | c :: l' => c :: pad_to k' l' end
  end.

Definition dec_to_string (d : dec) : str :=
  let sc := N.to_nat (dscale d) in
  let chars := pad_to sc (digits_rev 40 (dmant d)) in   (* least significant first *)
  let frac := rev (firstn sc chars) in
  let whole := rev (skipn sc chars) in
  let whole' := match whole with [] => [48] | _ => whole end in
  let body := match sc with O => whole' | _ => whole' ++ c_dot :: frac end in
  if dneg d then c_minus :: body else body.

(** * Arithmetic contract *)
Inductive dres := DOk (d : dec) | DRounded (d : dec) | DOverflow | DDivZero | DAbstain.

Definition pow10 (k : N) : N := 10 ^ k.

(* round half even of n / d *)
Definition rhe (n d : N) : N :=
  let q := n / d in let r := n mod d in
  if 2 * r <? d then q else if d <? 2 * r then q + 1 else if N.even q then q else q + 1.

(* largest scale s' <= min s 28 such that rhe (n / 10^(s-s')) < 2^96 *)
Fixpoint fit_loop (fuel : nat) (n s s' : N) : option (N * N) :=
  let v := rhe n (pow10 (s - s')) in
  if v <? two96 then Some (v, s')
  else match fuel with
       | O => None
       | S f => if s' =? 0 then None else fit_loop f n s (s' - 1)
       end.

Definition fit (neg : bool) (n s : N) : dres :=
  if (n <? two96) && (s <=? 28) then DOk (mk neg n s)
  else match fit_loop 60 n s (N.min s 28) with
       | Some (v, s') => DRounded (mk neg v s')
       | None => DOverflow
       end.

Definition dec_neg (d : dec) : dec := mk (negb (dneg d)) (dmant d) (dscale d).

Definition dec_add (a b : dec) : dres :=
  if is_zero a then DOk b else if is_zero b then DOk a else
  let s := N.max (dscale a) (dscale b) in
  let ma := dmant a * pow10 (s - dscale a) in
  let mb := dmant b * pow10 (s - dscale b) in
  if Bool.eqb (dneg a) (dneg b) then fit (dneg a) (ma + mb) s
  else if mb <=? ma then fit (dneg a) (ma - mb) s
  else fit (dneg b) (mb - ma) s.

Definition dec_sub (a b : dec) : dres := dec_add a (dec_neg b).

Definition dec_mul (a b : dec) : dres :=
  if is_zero a || is_zero b then DOk dec_zero else
  let neg := xorb (dneg a) (dneg b) in
  match fit neg (dmant a * dmant b) (dscale a + dscale b) with
  | DRounded d => if is_zero d then DRounded dec_zero else DRounded d
  | r => r
  end.

(* comparison as rationals *)
Definition dec_cmp (a b : dec) : comparison :=
  let s := N.max (dscale a) (dscale b) in
  let za := (if dneg a then - Z.of_N (dmant a * pow10 (s - dscale a)) else Z.of_N (dmant a * pow10 (s - dscale a)))%Z in
  let zb := (if dneg b then - Z.of_N (dmant b * pow10 (s - dscale b)) else Z.of_N (dmant b * pow10 (s - dscale b)))%Z in
  Z.compare za zb.
Definition dec_eqb (a b : dec) : bool := match dec_cmp a b with Eq => true | _ => false end.
Definition dec_ltb (a b : dec) : bool := match dec_cmp a b with Lt => true | _ => false end.
Definition dec_leb (a b : dec) : bool := match dec_cmp a b with Gt => false | _ => true end.

(* strip trailing zeros down to scale [lo] *)
Fixpoint strip_zeros (fuel : nat) (m s lo : N) : N * N :=
  match fuel with
  | O => (m, s)
  | S f => if (lo <? s) && (m mod 10 =? 0) then strip_zeros f (m / 10) (s - 1) lo else (m, s)
  end.

(* div: value only (the scale chosen by the crate is not modelled: results are compared as rationals).
   Exact quotient when representable with scale <= 28, else half-even rounding at the largest fitting scale. *)
Definition dec_div (a b : dec) : dres :=
  if is_zero b then DDivZero else
  if is_zero a then DOk dec_zero else
  let neg := xorb (dneg a) (dneg b) in
  (* a/b = (ma * 10^(sb + 28)) / (mb * 10^sa) at scale 28, then one half-even rounding; representable iff no remainder *)
  let num := dmant a * pow10 (dscale b + 56) in
  let den := dmant b * pow10 (dscale a) in
  (* value at scale 56, exact or not *)
  let q := num / den in let r := num mod den in
  if (r =? 0) then
    let '(m, s) := strip_zeros 60 q 56 0 in
    if (m <? two96) && (s <=? 28) then
      let lo := if dscale b <=? dscale a then dscale a - dscale b else 0 in
      let '(m', s') := strip_zeros 60 q 56 (N.max lo s) in
      DOk (mk neg m' s')
    else match fit_loop 60 q 56 28 with
         | Some (v, s') => DRounded (mk neg v s')
         | None => DOverflow
         end
  else
    (* inexact at scale 56: round from the exact rational at the largest fitting scale *)
    let fix go (fuel : nat) (s' : N) : dres :=
      let n := dmant a * pow10 (dscale b + s') in
      let v := rhe n den in
      if v <? two96 then DRounded (mk neg v s')
      else match fuel with
           | O => DOverflow
           | S f => if s' =? 0 then DOverflow else go f (s' - 1)
           end in
    go 30%nat 28.

(* rem: truncated remainder, sign of the dividend *)
Definition dec_rem (a b : dec) : dres :=
  if is_zero b then DDivZero else
  if is_zero a then DOk dec_zero else
  let s := N.max (dscale a) (dscale b) in
  let ma := dmant a * pow10 (s - dscale a) in
  let mb := dmant b * pow10 (s - dscale b) in
  if ma =? mb then DOk dec_zero
  else if ma <? mb then DOk a
  else if (dscale a <? dscale b) && (two96 <=? ma) then DAbstain   (* Known_C09_rem_rescale (D21) *)
  else DOk (mk (dneg a) (ma mod mb) s).

(** * Integer conversions *)
Definition of_Z (z : Z) : dec := mk (z <? 0)%Z (Z.abs_N z) 0.

(* value.rs integer(): fract().is_zero() then to_i64() *)
Definition i64_min : Z := (-9223372036854775808)%Z.
Definition i64_max : Z := 9223372036854775807%Z.
Definition dec_to_i64 (d : dec) : option Z :=
  let p := pow10 (dscale d) in
  if dmant d mod p =? 0 then
    let n := Z.of_N (dmant d / p) in
    let z := (if dneg d then - n else n)%Z in
    if ((i64_min <=? z) && (z <=? i64_max))%Z then Some z else None
  else None.
