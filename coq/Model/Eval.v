(** The evaluator (parser.rs:108-243), contexts (context.rs), the registries (operator.rs, function.rs) as state,
    scripted user handlers, and the lock discipline (which mutex is taken where). *)
From EE Require Export OpTable Ast Value Lexer Parser Printer.
Open Scope N_scope.

Definition hid := N.

(* what a registry entry dispatches to: the built-in handler of that name, or a user handler (a script) *)
Inductive handler := HBuiltin | HScript (h : hid).

Record registries := {
  r_infix : list (str * (infix_cfg * handler));
  r_prefix : list (str * handler);
  r_postfix : list (str * handler);
  r_func : list (str * handler)
}.

Definition tbl_of (r : registries) : optable := {|
  t_infix := map (fun e => (fst e, fst (snd e))) (r_infix r);
  t_prefix := map fst (r_prefix r);
  t_postfix := map fst (r_postfix r)
|}.

Inductive cval := CVar (v : value) | CFunc (h : hid).
Definition context := list (str * cval).     (* newest binding first *)

Inductive action :=
| AcParse (s : str)                                   (* parse_expression(s) *)
| AcExec (s : str) (c : N)                            (* execute(s, context c) *)
| AcRegF (n : str) (h : hid)                          (* register_function *)
| AcRegP (n : str) (h : hid)                          (* register_prefix_op *)
| AcRegS (n : str) (h : hid)                          (* register_postfix_op *)
| AcRegI (n : str) (prec : Z) (setter right : bool) (h : hid)   (* register_infix_op *)
| AcLock (c : N).                                     (* lock context c's public handle, then release it *)

Inductive script :=
| SRet (v : value)            (* Ok(v) *)
| SArg (i : nat)              (* Ok(args[i]) (None when absent) *)
| SFail                       (* Err(..) *)
| SPanic                      (* panic!() *)
| SSeq (a : action) (k : script)
| SCount (l : list script).   (* the n-th invocation of this handler runs the n-th script (the last one repeats) *)

Inductive lockid := LCtx (c : N) | LInfix | LPrefix | LPostfix | LFunc | LDesc.
Definition lock_eqb (a b : lockid) : bool :=
  match a, b with
  | LCtx x, LCtx y => x =? y
  | LInfix, LInfix | LPrefix, LPrefix | LPostfix, LPostfix | LFunc, LFunc | LDesc, LDesc => true
  | _, _ => false
  end.

Record state := {
  s_inited : bool;
  s_regs : registries;
  s_ctxs : list (N * context);
  s_scripts : list (hid * script);
  s_log : list (hid * list value);     (* newest first *)
  s_held : list lockid;
  s_poisoned : list lockid;
  s_inexact : bool                     (* ghost: some decimal result so far was rounded / had an unmodelled scale *)
}.

Inductive eres := EOk (v : value) | EErr | EPanic | EDeadlock | EFuel | EAbstain.

Definition set_regs (st : state) (r : registries) : state :=
  {| s_inited := s_inited st; s_regs := r; s_ctxs := s_ctxs st; s_scripts := s_scripts st; s_log := s_log st;
     s_held := s_held st; s_poisoned := s_poisoned st; s_inexact := s_inexact st |}.
Definition set_ctxs (st : state) (c : list (N * context)) : state :=
  {| s_inited := s_inited st; s_regs := s_regs st; s_ctxs := c; s_scripts := s_scripts st; s_log := s_log st;
     s_held := s_held st; s_poisoned := s_poisoned st; s_inexact := s_inexact st |}.
Definition set_log (st : state) (l : list (hid * list value)) : state :=
  {| s_inited := s_inited st; s_regs := s_regs st; s_ctxs := s_ctxs st; s_scripts := s_scripts st; s_log := l;
     s_held := s_held st; s_poisoned := s_poisoned st; s_inexact := s_inexact st |}.
Definition set_held (st : state) (h : list lockid) : state :=
  {| s_inited := s_inited st; s_regs := s_regs st; s_ctxs := s_ctxs st; s_scripts := s_scripts st; s_log := s_log st;
     s_held := h; s_poisoned := s_poisoned st; s_inexact := s_inexact st |}.
Definition set_inexact (st : state) (b : bool) : state :=
  {| s_inited := s_inited st; s_regs := s_regs st; s_ctxs := s_ctxs st; s_scripts := s_scripts st; s_log := s_log st;
     s_held := s_held st; s_poisoned := s_poisoned st; s_inexact := s_inexact st || b |}.
Definition set_scripts (st : state) (s : list (hid * script)) : state :=
  {| s_inited := s_inited st; s_regs := s_regs st; s_ctxs := s_ctxs st; s_scripts := s; s_log := s_log st;
     s_held := s_held st; s_poisoned := s_poisoned st; s_inexact := s_inexact st |}.

(* Mutex::lock().unwrap(): re-locking a mutex this thread holds never returns; a poisoned mutex panics *)
Definition acquire (l : lockid) (st : state) : option eres :=
  if existsb (lock_eqb l) (s_held st) then Some EDeadlock
  else if existsb (lock_eqb l) (s_poisoned st) then Some EPanic
  else None.

(* a critical section that runs no user code: take the lock, compute, release *)
Definition locked {A} (l : lockid) (st : state) (k : unit -> A * state) (fail : eres -> A) : A * state :=
  match acquire l st with
  | Some e => (fail e, st)
  | None => k tt
  end.

Fixpoint nassoc {A} (k : N) (l : list (N * A)) : option A :=
  match l with [] => None | (k', v) :: r => if k =? k' then Some v else nassoc k r end.

Definition ctx_of (st : state) (c : N) : context :=
  match nassoc c (s_ctxs st) with Some x => x | None => [] end.
Definition ctx_set (st : state) (c : N) (name : str) (v : cval) : state :=
  set_ctxs st ((c, (name, v) :: ctx_of st c) :: s_ctxs st).

(* the built-in tables installed by init() (init.rs), in the model as data generated from the impl: a parameter here *)
Section WithBuiltins.
Variable builtins : registries.

(* init(): OnceCell - the first public call installs the built-ins *)
Definition ensure_init (st : state) : state :=
  if s_inited st then st else
  {| s_inited := true;
     s_regs := {| r_infix := r_infix (s_regs st) ++ r_infix builtins; r_prefix := r_prefix (s_regs st) ++ r_prefix builtins;
                  r_postfix := r_postfix (s_regs st) ++ r_postfix builtins; r_func := r_func (s_regs st) ++ r_func builtins |};
     s_ctxs := s_ctxs st; s_scripts := s_scripts st; s_log := s_log st; s_held := s_held st;
     s_poisoned := s_poisoned st; s_inexact := s_inexact st |}.

Definition reg_infix (st : state) (n : str) (cfg : infix_cfg) (h : handler) : state :=
  let r := s_regs st in
  set_regs st {| r_infix := (n, (cfg, h)) :: r_infix r; r_prefix := r_prefix r; r_postfix := r_postfix r; r_func := r_func r |}.
Definition reg_prefix (st : state) (n : str) (h : handler) : state :=
  let r := s_regs st in
  set_regs st {| r_infix := r_infix r; r_prefix := (n, h) :: r_prefix r; r_postfix := r_postfix r; r_func := r_func r |}.
Definition reg_postfix (st : state) (n : str) (h : handler) : state :=
  let r := s_regs st in
  set_regs st {| r_infix := r_infix r; r_prefix := r_prefix r; r_postfix := (n, h) :: r_postfix r; r_func := r_func r |}.
Definition reg_func (st : state) (n : str) (h : handler) : state :=
  let r := s_regs st in
  set_regs st {| r_infix := r_infix r; r_prefix := r_prefix r; r_postfix := r_postfix r; r_func := (n, h) :: r_func r |}.

(* register_*: init() first, then one critical section on that registry *)
Definition do_register (l : lockid) (st : state) (upd : state -> state) : eres * state :=
  let st := ensure_init st in
  match acquire l st with
  | Some e => (e, st)
  | None => (EOk VNone, upd st)
  end.

Definition count_calls (h : hid) (log : list (hid * list value)) : nat :=
  length (filter (fun e => fst e =? h) log).

Definition of_ares (r : ares) (st : state) : eres * state :=
  match r with
  | AVal v i => (EOk v, set_inexact st i)
  | AErr => (EErr, st)
  | AAbstain => (EAbstain, st)
  end.

(* lex + parse under the current tables: parse_expression = init(); Parser::new(expr)?.parse_stmt().
   The parser reads the three operator registries (one lock/unlock per lookup). *)
Definition do_parse (st : state) (s : str) : outcome ast * state :=
  let st := ensure_init st in
  match acquire LPrefix st, acquire LInfix st, acquire LPostfix st with
  | None, None, None =>
      let tbl := tbl_of (s_regs st) in
      let '(sts, tm) := lex tbl s in
      (parse_tokens tbl tm (map tk sts), st)
  | Some EDeadlock, _, _ | _, Some EDeadlock, _ | _, _, Some EDeadlock => (Fuel, st)  (* never: see C14 *)
  | _, _, _ => (Panic, st)
  end.

Section Exec.
(* execute(s, ctx c) from inside a handler: parse + exec with the remaining fuel *)
Variable reenter : str -> N -> state -> eres * state.

Fixpoint run_script (s : script) (h : hid) (n : nat) (args : list value) (st : state) {struct s} : eres * state :=
  match s with
  | SRet v => (EOk v, st)
  | SArg i => (EOk (nth i args VNone), st)
  | SFail => (EErr, st)
  | SPanic => (EPanic, st)
  | SCount l =>
      (fix pick (l : list script) (n : nat) {struct l} : eres * state :=
         match l with
         | [] => (EOk VNone, st)
         | s1 :: r =>
             match r with
             | [] => run_script s1 h n args st
             | _ => match n with O => run_script s1 h n args st | S n' => pick r n' end
             end
         end) l n
  | SSeq a k =>
      let '(r, st1) :=
        match a with
        | AcParse src => let '(_, st1) := do_parse st src in (EOk VNone, st1)
        | AcExec src c => reenter src c st
        | AcRegF nm hh => do_register LFunc st (fun st => reg_func st nm (HScript hh))
        | AcRegP nm hh => do_register LPrefix st (fun st => reg_prefix st nm (HScript hh))
        | AcRegS nm hh => do_register LPostfix st (fun st => reg_postfix st nm (HScript hh))
        | AcRegI nm p se ri hh =>
            do_register LInfix st (fun st => reg_infix st nm {| ic_prec := p; ic_setter := se; ic_right := ri |} (HScript hh))
        | AcLock c => match acquire (LCtx c) st with Some e => (e, st) | None => (EOk VNone, st) end
        end in
      match r with
      | EOk _ | EErr => run_script k h n args st1      (* the handler ignores the result of its inner call *)
      | e => (e, st1)
      end
  end.

(* invoke user handler h: log the call, then interpret its script *)
Definition call_script (h : hid) (args : list value) (st : state) : eres * state :=
  let n := count_calls h (s_log st) in
  let st1 := set_log st ((h, args) :: s_log st) in
  match nassoc h (s_scripts st) with
  | Some s => run_script s h n args st1
  | None => (EOk VNone, st1)
  end.

Definition call_handler (hd : handler) (builtin : option ares) (args : list value) (st : state) : eres * state :=
  match hd with
  | HScript h => call_script h args st
  | HBuiltin => match builtin with Some r => of_ares r st | None => (EErr, st) end
  end.

Definition lit_value (l : literal) : value :=
  match l with LNum d => VNum d | LBool b => VBool b | LStr s => VStr s end.

(* registry reads: one critical section each *)
Definition get_infix (st : state) (op : str) : eres + (infix_cfg * handler) :=
  match acquire LInfix st with
  | Some e => inl e
  | None => match assoc op (r_infix (s_regs st)) with Some x => inr x | None => inl EErr end
  end.
Definition get_named (l : lockid) (tab : list (str * handler)) (st : state) (op : str) : eres + handler :=
  match acquire l st with
  | Some e => inl e
  | None => match assoc op tab with Some x => inr x | None => inl EErr end
  end.
(* Context::get *)
Definition ctx_get (st : state) (c : N) (name : str) : eres + option cval :=
  match acquire (LCtx c) st with
  | Some e => inl e
  | None => inr (assoc name (ctx_of st c))
  end.

Fixpoint exec (e : ast) (c : N) (st : state) {struct e} : eres * state :=
  let exec_list :=
    (fix go (l : list ast) (st : state) {struct l} : (eres + list value) * state :=
       match l with
       | [] => (inr [], st)
       | x :: r =>
           match exec x c st with
           | (EOk v, st1) => match go r st1 with
                             | (inr vs, st2) => (inr (v :: vs), st2)
                             | other => other
                             end
           | (err, st1) => (inl err, st1)
           end
       end) in
  match e with
  | ALit l => (EOk (lit_value l), st)
  | ANone => (EOk VNone, st)
  | ARef n =>
      (* Context::value: read under the lock, call a context function after releasing it *)
      match ctx_get st c n with
      | inl err => (err, st)
      | inr None => (EOk VNone, st)
      | inr (Some (CVar v)) => (EOk v, st)
      | inr (Some (CFunc h)) => call_script h [] st
      end
  | AFunc n args =>
      match exec_list args st with
      | (inl err, st1) => (err, st1)
      | (inr vs, st1) =>
          match ctx_get st1 c n with
          | inl err => (err, st1)
          | inr (Some (CFunc h)) => call_script h vs st1
          | inr _ =>
              match get_named LFunc (r_func (s_regs st1)) st1 n with
              | inl err => (err, st1)
              | inr hd => call_handler hd (builtin_function n vs) vs st1
              end
          end
      end
  | AUnary op rhs =>
      match get_named LPrefix (r_prefix (s_regs st)) st op with
      | inl err => (err, st)
      | inr hd =>
          match exec rhs c st with
          | (EOk v, st1) => call_handler hd (builtin_prefix op v) [v] st1
          | other => other
          end
      end
  | APostfix lhs op =>
      match get_named LPostfix (r_postfix (s_regs st)) st op with
      | inl err => (err, st)
      | inr hd =>
          match exec lhs c st with
          | (EOk v, st1) => call_handler hd (builtin_postfix op v) [v] st1
          | other => other
          end
      end
  | ABinary op lhs rhs =>
      match get_infix st op with
      | inl err => (err, st)
      | inr (cfg, hd0) =>
          if ic_setter cfg then
            match exec lhs c st with
            | (EOk a, st1) =>
                match exec rhs c st1 with
                | (EOk b, st2) =>
                    match lhs with
                    | ARef name =>
                        match get_infix st2 op with
                        | inl err => (err, st2)
                        | inr (_, hd) =>
                            match call_handler hd (builtin_infix op a b) [a; b] st2 with
                            | (EOk v, st3) =>
                                match acquire (LCtx c) st3 with
                                | Some err => (err, st3)
                                | None => (EOk VNone, ctx_set st3 c name (CVar v))
                                end
                            | other => other
                            end
                        end
                    | _ => (EErr, st2)
                    end
                | other => other
                end
            | other => other
            end
          else
            (* CALC: the handler is fetched before the operands are evaluated *)
            match get_infix st op with
            | inl err => (err, st)
            | inr (_, hd) =>
                match exec lhs c st with
                | (EOk a, st1) =>
                    match exec rhs c st1 with
                    | (EOk b, st2) => call_handler hd (builtin_infix op a b) [a; b] st2
                    | other => other
                    end
                | other => other
                end
            end
      end
  | ATernary cond a b =>
      match exec cond c st with
      | (EOk (VBool true), st1) => exec a c st1
      | (EOk (VBool false), st1) => exec b c st1
      | (EOk _, st1) => (EErr, st1)
      | other => other
      end
  | AList es =>
      match exec_list es st with
      | (inl err, st1) => (err, st1)
      | (inr vs, st1) => if vbounded (VList vs) then (EOk (VList vs), st1) else (EErr, st1)
      end
  | AMap kvs =>
      let '(r, st1) :=
        (fix go (l : list (ast * ast)) (st : state) {struct l} : (eres + list (value * value)) * state :=
           match l with
           | [] => (inr [], st)
           | (k, v) :: r =>
               match exec k c st with
               | (EOk kv, st1) =>
                   match exec v c st1 with
                   | (EOk vv, st2) => match go r st2 with
                                      | (inr rest, st3) => (inr ((kv, vv) :: rest), st3)
                                      | other => other
                                      end
                   | (err, st2) => (inl err, st2)
                   end
               | (err, st1) => (inl err, st1)
               end
           end) kvs st in
      match r with inl err => (err, st1) | inr m => if vbounded (VMap m) then (EOk (VMap m), st1) else (EErr, st1) end
  | AStmt es =>
      (fix go (l : list ast) (last : value) (st : state) {struct l} : eres * state :=
         match l with
         | [] => (EOk last, st)
         | x :: r => match exec x c st with
                     | (EOk v, st1) => go r v st1
                     | other => other
                     end
         end) es VNone st
  end.

End Exec.

(* parse + exec: `parse_expression(s)?.exec(&mut ctx)` *)
Definition parse_exec (ex : ast -> N -> state -> eres * state) (s : str) (c : N) (st : state) : eres * state :=
  match do_parse st s with
  | (Ok e, st1) => ex e c st1
  | (Err, st1) => (EErr, st1)
  | (Panic, st1) => (EPanic, st1)
  | (Fuel, st1) => (EFuel, st1)
  end.

(* fuel bounds only the nesting of handler re-entry (a handler calling execute); exec itself is structural *)
Fixpoint exec_fuel (f : nat) (e : ast) (c : N) (st : state) : eres * state :=
  match f with
  | O => (EFuel, st)
  | S f' => exec (fun s c' st' => parse_exec (exec_fuel f') s c' st') e c st
  end.

Definition REENTRY_FUEL : nat := 12.
Definition run_exec (s : str) (c : N) (st : state) : eres * state := parse_exec (exec_fuel REENTRY_FUEL) s c st.

End WithBuiltins.

Definition init_state : state := {|
  s_inited := false;
  s_regs := {| r_infix := []; r_prefix := []; r_postfix := []; r_func := [] |};
  s_ctxs := []; s_scripts := []; s_log := []; s_held := []; s_poisoned := []; s_inexact := false |}.
