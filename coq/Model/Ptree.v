(** Syntax trees with explicit parenthesis nodes: [toks p] writes one down as tokens, [strip p] forgets the parentheses,
    [pneed p] is the nesting depth the parser consumes on [toks p]. Definitions only (part of the extracted model: the
    printer's token image is [toks] of its parenthesisation, Model/Etoks.v); the theorems are in Lemmas/PrattParen.v. *)
From EE Require Import Chars OpTable Decimal Token Lexer Ast Parser Printer.
Open Scope N_scope.

Definition paren (ts : list token) : list token := TDelim DLParen :: ts ++ [TDelim DRParen].
Definition ptoks (need : bool) (ts : list token) : list token := if need then paren ts else ts.
Definition lit_tok (l : literal) : token := match l with LNum d => TNum d | LBool b => TBool b | LStr s => TStr s end.
(* `x OP y` and `x not OP y` *)
Definition mk (nt : bool) (o : str) (l r : ast) : ast := if nt then AUnary s_not (ABinary o l r) else ABinary o l r.
Definition optoks (nt : bool) (o : str) : list token := if nt then [TOp s_not; TOp o] else [TOp o].

Inductive ptree :=
| PLit (l : literal)
| PRef (n : str)
| PParen (p : ptree)
| PUn (n : str) (e : ptree)
| PBin (nt : bool) (o : str) (l r : ptree)
| PPost (e : ptree) (o : str)
| PTern (c a b : ptree)
| PFunc (n : str) (args : list ptree)
| PList (es : list ptree)
| PMap (kvs : list (ptree * ptree)).

Fixpoint strip (p : ptree) : ast :=
  match p with
  | PLit l => ALit l
  | PRef n => ARef n
  | PParen q => strip q
  | PUn n e => AUnary n (strip e)
  | PBin nt o l r => mk nt o (strip l) (strip r)
  | PPost e o => APostfix (strip e) o
  | PTern c a b => ATernary (strip c) (strip a) (strip b)
  | PFunc n args => AFunc n ((fix go (l : list ptree) : list ast := match l with [] => [] | x :: r => strip x :: go r end) args)
  | PList es => AList ((fix go (l : list ptree) : list ast := match l with [] => [] | x :: r => strip x :: go r end) es)
  | PMap kvs => AMap ((fix go (l : list (ptree * ptree)) : list (ast * ast) :=
                         match l with [] => [] | (k, v) :: r => (strip k, strip v) :: go r end) kvs)
  end.

Fixpoint toks (p : ptree) : list token :=
  match p with
  | PLit l => [lit_tok l]
  | PRef n => [TRef n]
  | PParen q => paren (toks q)
  | PUn n e => TOp n :: toks e
  | PBin nt o l r => toks l ++ optoks nt o ++ toks r
  | PPost e o => toks e ++ [TOp o]
  | PTern c a b => toks c ++ TOp s_qmark :: toks a ++ TOp s_colon :: toks b
  | PFunc n args =>
      TFunc n :: TDelim DLParen ::
      (fix go (l : list ptree) : list token :=
         match l with [] => [] | x :: r => match r with [] => toks x | _ => toks x ++ TComma :: go r end end) args ++ [TDelim DRParen]
  | PList es =>
      TDelim DLBrack ::
      (fix go (l : list ptree) : list token :=
         match l with [] => [] | x :: r => match r with [] => toks x | _ => toks x ++ TComma :: go r end end) es ++ [TDelim DRBrack]
  | PMap kvs =>
      TDelim DLBrace ::
      (fix go (l : list (ptree * ptree)) : list token :=
         match l with
         | [] => []
         | (k, v) :: r => match r with
                          | [] => toks k ++ TOp s_colon :: toks v
                          | _ => toks k ++ TOp s_colon :: toks v ++ TComma :: go r
                          end
         end) kvs ++ [TDelim DRBrace]
  end.

(* the iterations of the parser's operator loop do not add to Parser.depth (they did before the fix "nesting limit counts
   recursion, not loop iterations"; the term is kept, as zero, in the statements of Lemmas/PrattParen.v) *)
Definition pldepth (p : ptree) : N := 0.

(* Parser.depth consumed on [toks p] *)
Fixpoint pneed (p : ptree) : N :=
  match p with
  | PParen q => pneed q + 1
  | PUn _ e => 1 + pneed e
  | PBin _ _ l r => N.max (pneed l) (pldepth l + 1 + pneed r)
  | PPost e _ => pneed e
  | PTern c a b => N.max (pneed c) (pldepth c + 2 + N.max (pneed a) (pneed b))
  | PFunc _ args => 1 + (fix go (l : list ptree) : N := match l with [] => 0 | x :: r => N.max (pneed x) (go r) end) args
  | PList es => 1 + (fix go (l : list ptree) : N := match l with [] => 0 | x :: r => N.max (pneed x) (go r) end) es
  | PMap kvs => 1 + (fix go (l : list (ptree * ptree)) : N :=
                       match l with [] => 0 | (k, v) :: r => N.max (N.max (pneed k) (pneed v)) (go r) end) kvs
  | _ => 1
  end.
