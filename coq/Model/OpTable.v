(** Operator tables (the three registries of operator.rs seen as data). *)
From EE Require Export Chars.
Open Scope N_scope.

Record infix_cfg := { ic_prec : Z; ic_setter : bool; ic_right : bool }.

(* association lists, newest registration first: HashMap::insert = cons, get = first match *)
Record optable := {
  t_infix : list (str * infix_cfg);
  t_prefix : list str;
  t_postfix : list str
}.

Fixpoint assoc {A} (k : str) (l : list (str * A)) : option A :=
  match l with
  | [] => None
  | (k', v) :: l' => if str_eqb k k' then Some v else assoc k l'
  end.

Fixpoint mem (k : str) (l : list str) : bool :=
  match l with [] => false | k' :: l' => str_eqb k k' || mem k l' end.

Definition infix_cfg_of (t : optable) (op : str) : option infix_cfg := assoc op (t_infix t).
Definition is_infix (t : optable) (op : str) : bool :=
  match infix_cfg_of t op with Some _ => true | None => false end.
Definition is_prefix (t : optable) (op : str) : bool := mem op (t_prefix t).
Definition is_postfix (t : optable) (op : str) : bool := mem op (t_postfix t).
Definition is_ternary_op (op : str) : bool := str_eqb op s_qmark || str_eqb op s_colon.
(* keyword::is_op *)
Definition is_op (t : optable) (op : str) : bool :=
  is_prefix t op || is_infix t op || is_postfix t op || is_ternary_op op.
Definition is_not (op : str) : bool := str_eqb op s_not.

(* InfixOpManager::get_precidence: (l_bp, r_bp); (-1,-1) when not registered.
   i32 arithmetic: 2*p and 2*p±1; the model works in Z and [bp_in_i32] states the no-overflow side condition. *)
Definition binding_power (t : optable) (op : str) : Z * Z :=
  match infix_cfg_of t op with
  | None => (-1, -1)%Z
  | Some c => let l := (ic_prec c * 2)%Z in
              (l, if ic_right c then (l - 1)%Z else (l + 1)%Z)
  end.

Definition i32_ok (z : Z) : bool := ((-2147483648 <=? z) && (z <=? 2147483647))%Z.
