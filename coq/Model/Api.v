(** Entry points of the executable model (what model_run calls). *)
From EE Require Export Lexer Parser Printer.
Open Scope N_scope.

Definition api_lex (tbl : optable) (s : str) : list stoken * terminal := lex tbl s.

Definition api_parse (tbl : optable) (s : str) : outcome ast :=
  let '(sts, tm) := lex tbl s in
  parse_tokens tbl tm (map tk sts).

(* marker descriptors: a registered descriptor for key k renders "<k|arg|arg...>" on both sides of the tie *)
Definition mark (tag : str) (args : list str) : str :=
  60 :: tag ++ concat (map (fun a => 124 :: a) args) ++ [62].

Record dkeys := {
  k_unary : list str; k_binary : list str; k_postfix : list str; k_function : list str; k_reference : list str;
  k_ternary : bool; k_list : bool; k_map : bool; k_chain : bool
}.

Definition marker_table (k : dkeys) : dtable := {|
  d_unary := fun op => if mem op (k_unary k) then Some (fun o r => mark (85 :: o) [o; r]) else None;
  d_binary := fun op => if mem op (k_binary k) then Some (fun o l r => mark (66 :: o) [o; l; r]) else None;
  d_postfix := fun op => if mem op (k_postfix k) then Some (fun l o => mark (80 :: o) [l; o]) else None;
  d_ternary := if k_ternary k then Some (fun c a b => mark [84] [c; a; b]) else None;
  d_function := fun n => if mem n (k_function k) then Some (fun n ps => mark (70 :: n) (n :: ps)) else None;
  d_reference := fun n => if mem n (k_reference k) then Some (fun n => mark (82 :: n) [n]) else None;
  d_list := if k_list k then Some (fun ps => mark [76] ps) else None;
  d_map := if k_map k then Some (fun m => mark [77] (concat (map (fun kv => [fst kv; snd kv]) m))) else None;
  d_chain := if k_chain k then Some (fun ps => mark [67] ps) else None
|}.

Definition api_describe (tbl : optable) (k : dkeys) (e : ast) : str := describe tbl (marker_table k) e.
Definition api_expr (tbl : optable) (e : ast) : str := expr tbl e.
