(** Entry points of the executable model (what model_run calls). *)
From EE Require Export Lexer Parser Printer.
Open Scope N_scope.

Definition api_lex (tbl : optable) (s : str) : list stoken * terminal := lex tbl s.

Definition api_parse (tbl : optable) (s : str) : outcome ast :=
  let '(sts, tm) := lex tbl s in
  parse_tokens tbl tm (map tk sts).

(* marker descriptors: a registered descriptor for key k renders "<k|arg|arg...>" on both sides of the tie *)
Definition mark (tag : str) (args : list str) : str :=
  60 :: tag ++ concat (map (fun a => 124 :: a) args) ++ [62].

Record dkeys := {
  k_unary : list str; k_binary : list str; k_postfix : list str; k_function : list str; k_reference : list str;
  k_ternary : bool; k_list : bool; k_map : bool; k_chain : bool
}.

Definition marker_table (k : dkeys) : dtable := {|
  d_unary := fun op => if mem op (k_unary k) then Some (fun o r => mark (85 :: o) [o; r]) else None;
  d_binary := fun op => if mem op (k_binary k) then Some (fun o l r => mark (66 :: o) [o; l; r]) else None;
  d_postfix := fun op => if mem op (k_postfix k) then Some (fun l o => mark (80 :: o) [l; o]) else None;
  d_ternary := if k_ternary k then Some (fun c a b => mark [84] [c; a; b]) else None;
  d_function := fun n => if mem n (k_function k) then Some (fun n ps => mark (70 :: n) (n :: ps)) else None;
  d_reference := fun n => if mem n (k_reference k) then Some (fun n => mark (82 :: n) [n]) else None;
  d_list := if k_list k then Some (fun ps => mark [76] ps) else None;
  d_map := if k_map k then Some (fun m => mark [77] (concat (map (fun kv => [fst kv; snd kv]) m))) else None;
  d_chain := if k_chain k then Some (fun ps => mark [67] ps) else None
|}.

Definition api_describe (tbl : optable) (k : dkeys) (e : ast) : str := describe tbl (marker_table k) e.
Definition api_expr (tbl : optable) (e : ast) : str := expr tbl e.

(** * History-level API: every public entry point of lib.rs as a state transformer *)
From EE Require Import Eval.

Definition api_tbl (b : registries) (st : state) : optable := tbl_of (s_regs (ensure_init b st)).

Definition api_h_lex (b : registries) (st : state) (s : str) : (list stoken * terminal) * state :=
  let st := ensure_init b st in (lex (tbl_of (s_regs st)) s, st).

Definition api_h_parse (b : registries) (st : state) (s : str) : outcome ast * state := do_parse b st s.

Definition api_h_exec (b : registries) (st : state) (s : str) (c : N) : eres * state := run_exec b s c st.

Definition api_def_script (st : state) (h : hid) (s : script) : state := set_scripts st ((h, s) :: s_scripts st).

Definition api_reg_function (b : registries) (st : state) (n : str) (h : hid) : eres * state :=
  do_register b LFunc st (fun st => reg_func st n (HScript h)).
Definition api_reg_prefix (b : registries) (st : state) (n : str) (h : hid) : eres * state :=
  do_register b LPrefix st (fun st => reg_prefix st n (HScript h)).
Definition api_reg_postfix (b : registries) (st : state) (n : str) (h : hid) : eres * state :=
  do_register b LPostfix st (fun st => reg_postfix st n (HScript h)).
Definition api_reg_infix (b : registries) (st : state) (n : str) (p : Z) (setter right : bool) (h : hid) : eres * state :=
  do_register b LInfix st (fun st => reg_infix st n {| ic_prec := p; ic_setter := setter; ic_right := right |} (HScript h)).

Definition api_ctx_set (st : state) (c : N) (n : str) (v : cval) : state := ctx_set st c n v.

(* bindings of context c, newest binding of each name only, in insertion order of first appearance *)
Fixpoint dedup (seen : list str) (l : context) : context :=
  match l with
  | [] => []
  | (n, v) :: r => if mem n seen then dedup seen r else (n, v) :: dedup (n :: seen) r
  end.
Definition api_ctx_dump (st : state) (c : N) : context := dedup [] (ctx_of st c).

Definition api_log (st : state) : list (hid * list value) := rev' (s_log st).
Definition api_clear_log (st : state) : state := set_log st [].
