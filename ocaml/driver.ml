(* model_run: line-protocol driver around the extracted Coq model (Model).
   Trusted glue only: hex/UTF-8 decoding, number conversion, printing. No semantics lives here. *)
open Model

(* ---------- numbers ---------- *)
let rec pos_of_int (i : int) : positive =
  if i = 1 then XH else if i land 1 = 0 then XO (pos_of_int (i lsr 1)) else XI (pos_of_int (i lsr 1))
let n_of_int (i : int) : n = if i = 0 then N0 else Npos (pos_of_int i)
let rec int_of_pos = function XH -> 1 | XO p -> 2 * int_of_pos p | XI p -> 2 * int_of_pos p + 1
let int_of_n = function N0 -> 0 | Npos p -> int_of_pos p
let z_of_int (i : int) : z = if i = 0 then Z0 else if i > 0 then Zpos (pos_of_int i) else Zneg (pos_of_int (-i))

(* big N <-> hex *)
let rec bits_of_pos = function XH -> [1] | XO p -> 0 :: bits_of_pos p | XI p -> 1 :: bits_of_pos p  (* lsb first *)
let hex_of_n (x : n) : string =
  match x with
  | N0 -> "0"
  | Npos p ->
    let bits = Array.of_list (bits_of_pos p) in
    let nb = Array.length bits in
    let nd = (nb + 3) / 4 in
    let b = Buffer.create nd in
    for d = nd - 1 downto 0 do
      let v = ref 0 in
      for k = 3 downto 0 do
        let i = d * 4 + k in
        v := !v * 2 + (if i < nb then bits.(i) else 0)
      done;
      Buffer.add_char b "0123456789abcdef".[!v]
    done;
    Buffer.contents b
let hexval c = match c with
  | '0'..'9' -> Char.code c - 48 | 'a'..'f' -> Char.code c - 87 | 'A'..'F' -> Char.code c - 55
  | _ -> failwith "bad hex"
let n_of_hex (s : string) : n =
  (* msb first *)
  let acc = ref None in
  String.iter (fun c ->
    let v = hexval c in
    for k = 3 downto 0 do
      let bit = (v lsr k) land 1 in
      acc := (match !acc with
        | None -> if bit = 1 then Some XH else None
        | Some p -> Some (if bit = 1 then XI p else XO p))
    done) s;
  match !acc with None -> N0 | Some p -> Npos p
let hex_of_z = function Z0 -> "0" | Zpos p -> hex_of_n (Npos p) | Zneg p -> "-" ^ hex_of_n (Npos p)
let z_of_hex s =
  if String.length s > 0 && s.[0] = '-' then
    (match n_of_hex (String.sub s 1 (String.length s - 1)) with N0 -> Z0 | Npos p -> Zneg p)
  else (match n_of_hex s with N0 -> Z0 | Npos p -> Zpos p)

(* ---------- strings: hex(UTF-8) <-> list of scalar values ---------- *)
let bytes_of_hex (h : string) : int list =
  let n = String.length h / 2 in
  List.init n (fun i -> hexval h.[2*i] * 16 + hexval h.[2*i+1])
let rec utf8_decode (bs : int list) : int list =
  match bs with
  | [] -> []
  | b :: r when b < 0x80 -> b :: utf8_decode r
  | b :: b1 :: r when b land 0xE0 = 0xC0 -> (((b land 0x1F) lsl 6) lor (b1 land 0x3F)) :: utf8_decode r
  | b :: b1 :: b2 :: r when b land 0xF0 = 0xE0 ->
    (((b land 0x0F) lsl 12) lor ((b1 land 0x3F) lsl 6) lor (b2 land 0x3F)) :: utf8_decode r
  | b :: b1 :: b2 :: b3 :: r when b land 0xF8 = 0xF0 ->
    (((b land 0x07) lsl 18) lor ((b1 land 0x3F) lsl 12) lor ((b2 land 0x3F) lsl 6) lor (b3 land 0x3F)) :: utf8_decode r
  | _ -> failwith "bad utf8"
let str_of_hex (h : string) : str = List.map n_of_int (utf8_decode (bytes_of_hex h))
let hex_of_str (s : str) : string =
  let b = Buffer.create 16 in
  let byte x = Buffer.add_string b (Printf.sprintf "%02x" x) in
  List.iter (fun c ->
    let c = int_of_n c in
    if c < 0x80 then byte c
    else if c < 0x800 then (byte (0xC0 lor (c lsr 6)); byte (0x80 lor (c land 0x3F)))
    else if c < 0x10000 then (byte (0xE0 lor (c lsr 12)); byte (0x80 lor ((c lsr 6) land 0x3F)); byte (0x80 lor (c land 0x3F)))
    else (byte (0xF0 lor (c lsr 18)); byte (0x80 lor ((c lsr 12) land 0x3F)); byte (0x80 lor ((c lsr 6) land 0x3F)); byte (0x80 lor (c land 0x3F)))) s;
  Buffer.contents b

(* ---------- printing ---------- *)
let pr_dec (d : dec) : string =
  Printf.sprintf "n(%d,%s,%d)" (if d.dneg then 1 else 0) (hex_of_n d.dmant) (int_of_n d.dscale)

let pr_token (t : stoken) : string =
  let k, txt = match t.tk with
    | TOp s -> "op", hex_of_str s
    | TDelim d -> "delim", hex_of_str [delim_char d]
    | TNum d -> "num", pr_dec d
    | TComma -> "comma", "2c"
    | TBool b -> "bool", (if b then "1" else "0")
    | TStr s -> "str", hex_of_str s
    | TRef s -> "ref", hex_of_str s
    | TFunc s -> "func", hex_of_str s
    | TSemi -> "semi", "3b" in
  Printf.sprintf "%s.%s.%d.%d" k txt (int_of_n t.t_start) (int_of_n t.t_end)

let pr_term = function TmEof -> "EOF" | TmErr -> "ERR" | TmPanic -> "PANIC" | TmFuel -> "FUEL"

let rec pr_ast (e : ast) : string =
  match e with
  | ALit (LNum d) -> pr_dec d
  | ALit (LBool b) -> if b then "b(1)" else "b(0)"
  | ALit (LStr s) -> "s(" ^ hex_of_str s ^ ")"
  | AUnary (op, e) -> "U(" ^ hex_of_str op ^ "," ^ pr_ast e ^ ")"
  | ABinary (op, l, r) -> "B(" ^ hex_of_str op ^ "," ^ pr_ast l ^ "," ^ pr_ast r ^ ")"
  | APostfix (e, op) -> "P(" ^ pr_ast e ^ "," ^ hex_of_str op ^ ")"
  | ATernary (c, a, b) -> "T(" ^ pr_ast c ^ "," ^ pr_ast a ^ "," ^ pr_ast b ^ ")"
  | ARef n -> "R(" ^ hex_of_str n ^ ")"
  | AFunc (n, args) -> "F(" ^ String.concat ";" (hex_of_str n :: List.map pr_ast args) ^ ")"
  | AList es -> "L(" ^ String.concat ";" (List.map pr_ast es) ^ ")"
  | AMap kvs -> "M(" ^ String.concat ";" (List.map (fun (k, v) -> pr_ast k ^ "=" ^ pr_ast v) kvs) ^ ")"
  | AStmt es -> "S(" ^ String.concat ";" (List.map pr_ast es) ^ ")"
  | ANone -> "N"

let pr_outcome pr = function Ok a -> pr a | Err -> "ERR" | Panic -> "PANIC" | Fuel -> "FUEL"

(* ---------- values and scripts: prefix-free text syntax, recursive descent ---------- *)
let rec pr_value (v : value) : string =
  match v with
  | VStr s -> "s(" ^ hex_of_str s ^ ")"
  | VNum d -> pr_dec d
  | VBool b -> if b then "b(1)" else "b(0)"
  | VList l -> "l(" ^ String.concat ";" (List.map pr_value l) ^ ")"
  | VMap l -> "m(" ^ String.concat ";" (List.map (fun (k, v) -> pr_value k ^ "=" ^ pr_value v) l) ^ ")"
  | VNone -> "N"

type cursor = { src : string; mutable pos : int }
let peek c = if c.pos < String.length c.src then c.src.[c.pos] else '\000'
let eat c ch = if peek c = ch then c.pos <- c.pos + 1 else failwith (Printf.sprintf "expected %c at %d in %s" ch c.pos c.src)
let take_until c (stop : Stdlib.Char.t -> bool) : string =
  let st = c.pos in
  while c.pos < String.length c.src && not (stop c.src.[c.pos]) do c.pos <- c.pos + 1 done;
  String.sub c.src st (c.pos - st)
let is_hex ch = match ch with '0'..'9' | 'a'..'f' | 'A'..'F' -> true | _ -> false

let rec p_value (c : cursor) : value =
  match peek c with
  | 'N' -> c.pos <- c.pos + 1; VNone
  | 'n' ->
    eat c 'n'; eat c '(';
    let sg = take_until c (fun ch -> ch = ',') in eat c ',';
    let m = take_until c (fun ch -> ch = ',') in eat c ',';
    let sc = take_until c (fun ch -> ch = ')') in eat c ')';
    let mant = n_of_hex m in
    VNum { dneg = (sg = "1") && mant <> N0; dmant = mant; dscale = n_of_int (int_of_string sc) }
  | 's' -> eat c 's'; eat c '('; let h = take_until c (fun ch -> ch = ')') in eat c ')'; VStr (str_of_hex h)
  | 'b' -> eat c 'b'; eat c '('; let h = take_until c (fun ch -> ch = ')') in eat c ')'; VBool (h = "1")
  | 'l' ->
    eat c 'l'; eat c '(';
    let items = ref [] in
    if peek c = ')' then eat c ')' else begin
      let continue = ref true in
      while !continue do
        items := p_value c :: !items;
        if peek c = ';' then eat c ';' else (eat c ')'; continue := false)
      done end;
    VList (List.rev !items)
  | 'm' ->
    eat c 'm'; eat c '(';
    let items = ref [] in
    if peek c = ')' then eat c ')' else begin
      let continue = ref true in
      while !continue do
        let k = p_value c in eat c '='; let v = p_value c in
        items := (k, v) :: !items;
        if peek c = ';' then eat c ';' else (eat c ')'; continue := false)
      done end;
    VMap (List.rev !items)
  | ch -> failwith (Printf.sprintf "bad value at %d (%c) in %s" c.pos ch c.src)

let p_field c = let f = take_until c (fun ch -> ch = '.') in eat c '.'; f

let rec p_action (c : cursor) : action =
  let k = peek c in c.pos <- c.pos + 1;
  match k with
  | 'P' -> AcParse (str_of_hex (p_field c))
  | 'X' -> let ctx = p_field c in let src = p_field c in AcExec (str_of_hex src, n_of_int (int_of_string ctx))
  | 'F' -> let nm = p_field c in let h = p_field c in AcRegF (str_of_hex nm, n_of_int (int_of_string h))
  | 'U' -> let nm = p_field c in let h = p_field c in AcRegP (str_of_hex nm, n_of_int (int_of_string h))
  | 'S' -> let nm = p_field c in let h = p_field c in AcRegS (str_of_hex nm, n_of_int (int_of_string h))
  | 'I' ->
    let nm = p_field c in let pr = p_field c in let se = p_field c in let ri = p_field c in let h = p_field c in
    AcRegI (str_of_hex nm, z_of_hex pr, se = "1", ri = "1", n_of_int (int_of_string h))
  | 'K' -> AcLock (n_of_int (int_of_string (p_field c)))
  | 'Z' -> let _ = p_field c in AcParse []   (* a handler that takes time: timing only; in the sequential model a parse of the empty program *)
  | 'Y' -> let _ = p_field c in p_action c   (* an action performed while the handler holds the guard of a context's handle: in the
                                               sequential model (the scenarios use it with an action on ANOTHER context) the action itself *)
  | _ -> failwith "bad action"

let rec nat_of_int i = if i <= 0 then O else S (nat_of_int (i - 1))

let rec p_script (c : cursor) : script =
  let k = peek c in c.pos <- c.pos + 1;
  match k with
  | 'r' -> SRet (p_value c)
  | 'a' -> SArg (nat_of_int (int_of_string (p_field c)))
  | 'e' -> SFail
  | 'E' -> c.pos <- c.pos + 1; SFail   (* an Err of another kind (the error of a nested evaluation handed on): the model has one Err *)
  | 'p' -> SPanic
  | 'q' -> let a = p_action c in let k = p_script c in SSeq (a, k)
  | 'k' ->
    eat c '[';
    let items = ref [] in
    let continue = ref true in
    while !continue do
      items := p_script c :: !items;
      if peek c = ',' then eat c ',' else (eat c ']'; continue := false)
    done;
    SCount (List.rev !items)
  | _ -> failwith "bad script"

let value_of_string s = let c = { src = s; pos = 0 } in p_value c
let script_of_string s = let c = { src = s; pos = 0 } in p_script c

(* ---------- state of one history ---------- *)
let builtins : registries ref = ref { r_infix = []; r_prefix = []; r_postfix = []; r_func = [] }

let load_table (path : string) =
  let ic = open_in path in
  let infix = ref [] and prefix = ref [] and postfix = ref [] and funcs = ref [] in
  (try while true do
    let l = input_line ic in
    match String.split_on_char ' ' l with
    | ["I"; name; prec; setter; right] ->
      infix := (str_of_hex name, ({ ic_prec = z_of_int (int_of_string prec); ic_setter = (setter = "1"); ic_right = (right = "1") }, HBuiltin)) :: !infix
    | ["P"; name] -> prefix := (str_of_hex name, HBuiltin) :: !prefix
    | ["S"; name] -> postfix := (str_of_hex name, HBuiltin) :: !postfix
    | ["F"; name] -> funcs := (str_of_hex name, HBuiltin) :: !funcs
    | _ -> ()
  done with End_of_file -> close_in ic);
  builtins := { r_infix = List.rev !infix; r_prefix = List.rev !prefix; r_postfix = List.rev !postfix; r_func = List.rev !funcs }

let empty_keys = { k_unary = []; k_binary = []; k_postfix = []; k_function = []; k_reference = [];
                   k_ternary = false; k_list = false; k_map = false; k_chain = false }

type hstate = { mutable st : state; mutable keys : dkeys }

let tbl_now (h : hstate) : optable = api_tbl !builtins h.st

let pr_eres = function
  | EOk v -> "OK:" ^ pr_value v | EErr -> "ERR" | EPanic -> "PANIC" | EDeadlock -> "DEADLOCK" | EFuel -> "FUEL" | EAbstain -> "ABSTAIN"

let pr_log (st : state) : string =
  "L[" ^ String.concat ";" (List.map (fun (h, args) -> string_of_int (int_of_n h) ^ "(" ^ String.concat "," (List.map pr_value args) ^ ")") (api_log st)) ^ "]"

let pr_ctx (st : state) (c : n) : string =
  let items = List.map (fun (nm, v) -> (hex_of_str nm, match v with CVar x -> pr_value x | CFunc h -> "F" ^ string_of_int (int_of_n h))) (api_ctx_dump st c) in
  let items = List.sort compare items in
  "C{" ^ String.concat ";" (List.map (fun (k, v) -> k ^ "=" ^ v) items) ^ "}"

let split_n (s : string) (n : int) : string list =
  (* split on ':' into at most n fields (the last keeps any further ':') *)
  let rec go s k = if k <= 1 then [s] else
    match String.index_opt s ':' with
    | None -> [s]
    | Some i -> String.sub s 0 i :: go (String.sub s (i + 1) (String.length s - i - 1)) (k - 1) in
  go s n

(* --thm: append the computable premises of the round-trip theorem (Props/C12.v) to every parsed tree *)
let thm_flag = ref false
let thm_suffix (tbl : optable) (e : ast) : string =
  if !thm_flag then "|P" ^ (if premises tbl e then "1" else "0") ^ "K" ^ (if printer_tokens tbl e then "1" else "0")
                    ^ "S" ^ (if tbl_print_okb tbl && psaneb tbl e then "1" else "0") else ""

let rec run_op (h : hstate) (op : string) : string =
  (* `@t/OP`: the model is sequential - the thread name is ignored *)
  if String.length op > 0 && (op.[0] = '@' || op.[0] = '~') then
    (match String.index_opt op '/' with
     | Some i -> run_op h (String.sub op (i + 1) (String.length op - i - 1))
     | None -> "?UNSUPPORTED")
  else
  let b = !builtins in
  match String.split_on_char ':' op with
  | ["LEX"; x] ->
    let ((ts, tm), st) = api_h_lex b h.st (str_of_hex x) in
    h.st <- st;
    "T[" ^ String.concat ";" (List.map pr_token ts) ^ "]:" ^ pr_term tm
  | ["PARSE"; x] ->
    let (r, st) = api_h_parse b h.st (str_of_hex x) in
    h.st <- st;
    (match r with
     | Ok e -> let tbl = tbl_now h in
       "OK:" ^ pr_ast e ^ ":" ^ hex_of_str (api_expr tbl e) ^ ":" ^ hex_of_str (api_describe tbl h.keys e) ^ thm_suffix tbl e
     | Err -> "ERR" | Panic -> "PANIC" | Fuel -> "FUEL")
  | ["RT"; x] ->
    let (r, st) = api_h_parse b h.st (str_of_hex x) in
    h.st <- st;
    (match r with
     | Ok e ->
       let tbl = tbl_now h in
       let x = api_expr tbl e in
       let second = match api_parse tbl x with
         | Ok e2 -> "OK;" ^ pr_ast e2 ^ ";" ^ hex_of_str (api_expr tbl e2)
         | Err -> "ERR" | Panic -> "PANIC" | Fuel -> "FUEL" in
       "OK:" ^ pr_ast e ^ ":" ^ hex_of_str x ^ ":" ^ second ^ thm_suffix tbl e
     | Err -> "ERR" | Panic -> "PANIC" | Fuel -> "FUEL")
  | "H" :: hid :: rest ->
    h.st <- api_def_script h.st (n_of_int (int_of_string hid)) (script_of_string (String.concat ":" rest)); "-"
  | ["REGI"; name; prec; setter; right; hid] ->
    let (_, st) = api_reg_infix b h.st (str_of_hex name) (z_of_hex prec) (setter = "1") (right = "1") (n_of_int (int_of_string hid)) in
    h.st <- st; "-"
  | ["REGP"; name; hid] -> let (_, st) = api_reg_prefix b h.st (str_of_hex name) (n_of_int (int_of_string hid)) in h.st <- st; "-"
  | ["REGS"; name; hid] -> let (_, st) = api_reg_postfix b h.st (str_of_hex name) (n_of_int (int_of_string hid)) in h.st <- st; "-"
  | ["REGF"; name; hid] -> let (_, st) = api_reg_function b h.st (str_of_hex name) (n_of_int (int_of_string hid)) in h.st <- st; "-"
  | "CV" :: ctx :: name :: rest ->
    h.st <- api_ctx_set h.st (n_of_int (int_of_string ctx)) (str_of_hex name) (CVar (value_of_string (String.concat ":" rest))); "-"
  | ["CF"; ctx; name; hid] ->
    h.st <- api_ctx_set h.st (n_of_int (int_of_string ctx)) (str_of_hex name) (CFunc (n_of_int (int_of_string hid))); "-"
  | ["EXEC"; ctx; x] ->
    let c = n_of_int (int_of_string ctx) in
    let st0 = api_clear_log h.st in
    (* the ghost flag is sticky within a history: a quotient stored in a context keeps its unmodelled scale *)
    let (r, st) = api_h_exec b st0 (str_of_hex x) c in
    h.st <- st;
    pr_eres r ^ ":" ^ pr_log st ^ ":" ^ pr_ctx st c ^ ":" ^ (if st.s_inexact then "I" else "E")
  | ["CONV"; _ty; num] -> "OK:" ^ pr_value (from_int (z_of_hex num))
  | "ACC" :: which :: rest ->
    let v = value_of_string (String.concat ":" rest) in
    (match which with
     | "integer" -> (match v_integer v with Ok z -> "OK:" ^ hex_of_z z | _ -> "ERR")
     | "decimal" -> (match v_decimal v with Ok d -> "OK:" ^ pr_dec d | _ -> "ERR")
     | "string" -> (match v_string v with Ok s -> "OK:" ^ hex_of_str s | _ -> "ERR")
     | "bool" -> (match v_bool v with Ok b -> "OK:" ^ (if b then "1" else "0") | _ -> "ERR")
     | "list" -> (match v_list v with Ok l -> "OK:" ^ pr_value (VList l) | _ -> "ERR")
     | _ -> "?")
  | "RTV" :: rest -> "OK:" ^ pr_value (value_of_string (String.concat ":" rest))
  | ["||"] -> "||"
  | [";;"] -> ";;"
  | ["PROBE"; _; _] -> "-"
  | ["CD"; ctx] -> pr_ctx h.st (n_of_int (int_of_string ctx))
  | ["SD"; kind; name] ->
    let n = str_of_hex name in
    let k = h.keys in
    h.keys <- (match kind with
      | "U" -> { k with k_unary = n :: k.k_unary }
      | "B" -> { k with k_binary = n :: k.k_binary }
      | "P" -> { k with k_postfix = n :: k.k_postfix }
      | "F" -> { k with k_function = n :: k.k_function }
      | "R" -> { k with k_reference = n :: k.k_reference }
      | "T" -> { k with k_ternary = true }
      | "L" -> { k with k_list = true }
      | "M" -> { k with k_map = true }
      | "C" -> { k with k_chain = true }
      | _ -> failwith "bad SD kind"); "-"
  | _ -> "?UNSUPPORTED"

let () =
  let table = ref "" in
  Arg.parse [("--table", Arg.Set_string table, "registry dump"); ("--thm", Arg.Set thm_flag, "append theorem premises")] (fun _ -> ()) "model_run --table FILE";
  if !table <> "" then load_table !table;
  (try while true do
    let line = input_line stdin in
    match String.split_on_char ' ' line with
    | [] | [""] -> ()
    | id :: ops ->
      let h = { st = init_state; keys = empty_keys } in
      let res = List.map (fun op -> try run_op h op with Failure m -> "?FAIL(" ^ m ^ ")" | Stack_overflow -> "?STACK") ops in
      print_string (id ^ " " ^ String.concat " " res ^ "\n")
  done with End_of_file -> ())
