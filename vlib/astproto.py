"""Parser for the protocol's AST strings and token lists (used by spec oracles)."""
import re

class Cur:
    def __init__(self, s): self.s, self.p = s, 0
    def peek(self): return self.s[self.p] if self.p < len(self.s) else ""
    def eat(self, c):
        assert self.peek() == c, (self.s[:80], self.p, c)
        self.p += 1
    def until(self, stops):
        st = self.p
        while self.p < len(self.s) and self.s[self.p] not in stops: self.p += 1
        return self.s[st:self.p]

def p_ast(c):
    k = c.peek()
    if k == "N": c.p += 1; return ("none",)
    c.p += 1; c.eat("(")
    if k == "n":
        sg = c.until(","); c.eat(","); m = c.until(","); c.eat(","); sc = c.until(")"); c.eat(")")
        return ("num", int(m, 16), int(sc))
    if k == "b":
        h = c.until(")"); c.eat(")"); return ("bool", h)
    if k == "s":
        h = c.until(")"); c.eat(")"); return ("str", h)
    if k == "R":
        h = c.until(")"); c.eat(")"); return ("ref", h)
    if k == "U":
        op = c.until(","); c.eat(","); e = p_ast(c); c.eat(")"); return ("un", op, e)
    if k == "B":
        op = c.until(","); c.eat(","); l = p_ast(c); c.eat(","); r = p_ast(c); c.eat(")"); return ("bin", op, l, r)
    if k == "P":
        e = p_ast(c); c.eat(","); op = c.until(")"); c.eat(")"); return ("post", e, op)
    if k == "T":
        a = p_ast(c); c.eat(","); b = p_ast(c); c.eat(","); d = p_ast(c); c.eat(")"); return ("tern", a, b, d)
    if k == "F":
        name = c.until(";)"); args = []
        while c.peek() == ";":
            c.eat(";"); args.append(p_ast(c))
        c.eat(")"); return ("call", name, args)
    if k in "LS":
        items = []
        if c.peek() != ")":
            while True:
                items.append(p_ast(c))
                if c.peek() == ";": c.eat(";")
                else: break
        c.eat(")"); return ("list" if k == "L" else "stmt", items)
    if k == "M":
        items = []
        if c.peek() != ")":
            while True:
                kk = p_ast(c); c.eat("="); vv = p_ast(c); items.append((kk, vv))
                if c.peek() == ";": c.eat(";")
                else: break
        c.eat(")"); return ("map", items)
    raise ValueError("bad ast %r at %d" % (c.s[:80], c.p))

def parse_ast(s):
    return p_ast(Cur(s))

def parse_tokens(out):
    """'T[k.txt.a.b;...]:TERM' -> ([(kind, txt, a, b)], term)"""
    m = re.match(r"^T\[(.*)\]:(\w+)$", out)
    if not m: return None
    toks = []
    if m.group(1):
        for t in m.group(1).split(";"):
            parts = t.split(".")
            toks.append((parts[0], ".".join(parts[1:-2]), int(parts[-2]), int(parts[-1])))
    return toks, m.group(2)

def walk(t, f):
    f(t)
    k = t[0]
    if k == "un": walk(t[2], f)
    elif k == "bin": walk(t[2], f); walk(t[3], f)
    elif k == "post": walk(t[1], f)
    elif k == "tern": walk(t[1], f); walk(t[2], f); walk(t[3], f)
    elif k == "call": [walk(a, f) for a in t[2]]
    elif k in ("list", "stmt"): [walk(a, f) for a in t[1]]
    elif k == "map": [(walk(a, f), walk(b, f)) for a, b in t[1]]
