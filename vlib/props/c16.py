"""C16 - evaluations are deterministic and isolated from one another."""
from fractions import Fraction
from .. import build, core, flow, gens, values
from ..core import hx, unhx
from . import progs, evalspec, speceval
from .c06 import rnd_stmt, NAMES, VALS

class P:
    prop = "C16"
    rule = ("(a) histories of <= 10 parse / exec calls over <= 3 contexts in one process, with programs that assign, fail midway and "
            "reuse the same names; (a') 100 rounds per process of a registration racing six first uses of that spelling on other threads, each followed by a "
            "sequential use; (b) the same calls issued concurrently, one thread per context, released together; (c) a parsed program "
            "evaluated repeatedly on equal contexts; (d) processes whose first engine call re-binds a built-in name (function, infix, prefix, postfix), then parse and evaluate: the registration stays in force. Oracle: every call's result and final context equal those of the reference semantics "
            "applied to that context's own calls alone (other contexts' calls and all parses are invisible); repeated evaluation gives "
            "identical results. Non-trivial = distinct history with >= 2 contexts.")
    assumptions = ["distinct Context objects per thread (as the property states)"]
    trusted_extra = []

    def __init__(self):
        self.skipped = 0

    def generate(self, tier, rng):
        PT = progs.prec_table()
        items = []
        nh = 400 if tier == "quick" else 40000
        for _ in range(nh):
            ctxs = {c: {nm: ("var", rng.choice(VALS[:6])) for nm in NAMES if rng.random() < 0.7} for c in (1, 2, 3)}
            ops = []
            for c, b in ctxs.items():
                for k, v in b.items(): ops.append("CV:%d:%s:%s" % (c, hx(k), speceval.to_proto_value(v[1])))
            nset = len(ops)
            calls = []
            for _k in range(rng.randint(2, 10)):
                if rng.random() < 0.25:
                    src = "; ".join(progs.render_min(rnd_stmt(rng), PT) for _ in range(rng.randint(1, 3)))
                    calls.append(("parse", None, None, src))
                else:
                    c = rng.choice((1, 2, 3))
                    stmts = [rnd_stmt(rng) for _ in range(rng.randint(1, 4))]
                    calls.append(("exec", c, stmts, "; ".join(progs.render_min(s, PT) for s in stmts)))
            seq = ops + [("PARSE:" + hx(s)) if k == "parse" else "EXEC:%d:%s" % (c, hx(s)) for (k, c, st, s) in calls]
            items.append((" ".join(seq), ("seq", ctxs, calls, nset)))
            # concurrent: one exec per context, released together
            par = [(c, [rnd_stmt(rng) for _ in range(rng.randint(1, 4))]) for c in (1, 2, 3)]
            pcalls = [("exec", c, st, "; ".join(progs.render_min(s, PT) for s in st)) for c, st in par]
            items.append((" ".join(ops + ["||"] + ["EXEC:%d:%s" % (c, hx(s)) for (_k, c, _st, s) in pcalls]), ("par", ctxs, pcalls, nset + 1)))
            # repeated evaluation on equal contexts
            stmts = [rnd_stmt(rng) for _ in range(rng.randint(1, 3))]
            src = "; ".join(progs.render_min(s, PT) for s in stmts)
            rep_ops = []
            for c in (1, 2, 3):
                for k, v in ctxs[1].items(): rep_ops.append("CV:%d:%s:%s" % (c, hx(k), speceval.to_proto_value(v[1])))
            items.append((" ".join(rep_ops + ["EXEC:%d:%s" % (c, hx(src)) for c in (1, 2, 3)]), ("rep", None, None, len(rep_ops))))
        # registrations made so far decide the parse - nothing parsed earlier does: an operator is registered, programs are
        # parsed, the SAME operator is registered again with another precedence / associativity, programs are parsed again
        # (same thread); every parse must group by the registrations made before it, exactly as in a process that never
        # parsed anything earlier (oracle: the documented grouping under the table in force)
        base = {n: (p, r_) for n, p, s_, r_ in gens.builtin_ops(build.table_path())[0]}
        for _ in range(80 if tier == "quick" else 4000):
            PT2 = dict(base)
            words = rng.sample(["hi", "lo", "zed"], rng.randint(1, 2))
            ops_, wants = [], []
            def tree(d):
                if d <= 0 or rng.random() < 0.3: return ("ref", rng.choice(["a", "b", "c"]))
                return ("bin", rng.choice(words * 3 + ["+", "*", "==", "&&"]), tree(d - 1), tree(d - 1))
            for _phase in range(rng.choice([2, 3])):
                for w in words:
                    pr = rng.choice([21, 39, 41, 59, 61, 99, 109, 111, 119, 121, 199, 201])
                    right = rng.random() < 0.4
                    PT2[w] = (pr, right)
                    ops_.append("REGI:%s:%x:0:%d:0" % (hx(w), pr, 1 if right else 0)); wants.append(None)
                for _k in range(3):
                    t = tree(rng.choice([2, 3]))
                    ops_.append("PARSE:" + hx(progs.render_min(t, PT2))); wants.append(progs.to_proto(t))
            items.append((" ".join(ops_), ("regseq", None, wants, 0)))
        # the FIRST thing a process does with the engine is a registration that re-binds a BUILT-IN name; what is parsed (the
        # built-ins are installed on first use) or evaluated afterwards must not undo it: registrations made so far decide
        b_in = base
        for name, kind, prog in (("sum", "F", "sum(1, 2)"), ("max", "F", "max(1, 2)"), ("min", "F", "[min(3)]"), ("mul", "F", "1 + mul(2, 3)"),
                                 ("+", "I", "1 + 2"), ("*", "I", "2 * 3"), ("==", "I", "1 == 1"), ("in", "I", "1 in [1]"), ("&&", "I", "true && true"),
                                 ("beginWith", "I", "'ab' beginWith 'a'"), ("-", "P", "-5"), ("!", "P", "!true"), ("not", "P", "not true"),
                                 ("++", "S", "5 ++"), ("--", "S", "5 --")):
            if kind == "I" and name not in b_in: continue
            if kind == "F": reg = "REGF:%s:61" % hx(name)
            elif kind == "P": reg = "REGP:%s:61" % hx(name)
            elif kind == "S": reg = "REGS:%s:61" % hx(name)
            else: reg = "REGI:%s:%x:0:%d:61" % (hx(name), b_in[name][0], 1 if b_in[name][1] else 0)
            hv = "s(%s)" % hx("h61")
            wrapped = "s(%s)" % hx("h61")
            for between in ([], ["PARSE:" + hx("1 + 1")], ["EXEC:2:" + hx("7 * 6")], ["@t/PARSE:" + hx("a")], ["PARSE:" + hx(prog)]):
                ops = ["H:61:rs(%s)" % hx("h61"), reg] + between + ["EXEC:1:" + hx(prog), "PARSE:" + hx("0"), "EXEC:3:" + hx(prog)]
                want = [None, None] + [None] * len(between) + ["HANDLER", None, "HANDLER"]
                items.append((" ".join(ops), ("first-reg", None, want, 0)))
        # soak: hundreds of failing evaluations of different depths on ONE persistent thread, then ordinary programs
        fails = ["1/0", "[1, [2, [3/0]]]", "nosuchfn()", "x = [a, [a, [a / 0]]]; x", "1 + true", "{1: [2, {3: 1 % 0}]}", "f(", "min()"]
        for rep in range(1 if tier == "quick" else 6):
            ops = []
            calls = []
            for i in range(700):
                src = fails[(i + rep) % len(fails)]
                ops.append("@soak/EXEC:1:" + hx(src))
                calls.append(("exec-any", 1, None, src))
            for src, stmts in [("1 + 1", [("bin", "+", ("lit", "1"), ("lit", "1"))]), ("[1, [2, [3]]]", [("list", [("lit", "1"), ("list", [("lit", "2"), ("list", [("lit", "3")])])])])]:
                ops.append("@soak/EXEC:2:" + hx(src)); calls.append(("exec", 2, stmts, src))
                ops.append("EXEC:3:" + hx(src)); calls.append(("exec", 3, stmts, src))
            items.append((" ".join(ops), ("seq", {1: {}, 2: {}, 3: {}}, calls, 0)))
        # an evaluation that FAILS inside a user handler (Err or panic; operator of every kind, function) must be as invisible to
        # what is parsed and evaluated afterwards - on this thread, on others, on other contexts - as one that succeeds
        for fault in ("p", "e"):
            for kind, reg, prog in (("I", "REGI:%s:6f:0:0:61" % hx("boom"), "7 boom 0"), ("P", "REGP:%s:61" % hx("boom"), "boom 7"),
                                    ("S", "REGS:%s:61" % hx("boom"), "7 boom"), ("F", "REGF:%s:61" % hx("boom"), "boom(7)"),
                                    ("Iset", "REGI:%s:14:1:1:61" % hx("boom"), "z boom 7")):
                ops = ["H:61:%s" % fault, reg]
                probes = [("EXEC:2:" + hx("1 + 2 * 3"), "n(0,7,0)"), ("PARSE:" + hx("a + b * c"), None), ("EXEC:3:" + hx("x = 2; x * 4"), "n(0,8,0)"),
                          ("@t/EXEC:2:" + hx("[1, 2] == [1, 2] && 'a' beginWith 'a'"), "b(1)"), ("EXEC:1:" + hx("max(1, 2) + 1"), "n(0,3,0)")]
                seq, want = list(ops), [None] * len(ops)
                for runner in ("EXEC:1:", "@t/EXEC:1:", "@u/EXEC:1:"):
                    seq.append(runner + hx(prog)); want.append("FAULT")
                    for p_, w_ in probes:
                        seq.append(p_); want.append(w_ if w_ else "PARSE")
                items.append((" ".join(seq), ("after-fault", None, want, 0)))
        # ... and the same for a CONTEXT function (by bare name and by call) that fails: once the host has re-bound the name to a
        # function that works, the very next use of that name - same context, same thread - runs it; so do another context
        # with a function of that name and another thread
        for fault in ("p", "e"):
            for use, val in (("boom + 1", "n(0,8,0)"), ("boom() + 1", "n(0,8,0)"), ("[boom, boom]", None), ("x = boom; x", "n(0,7,0)")):
                seq = ["H:61:%s" % fault, "H:62:rn(0,7,0)", "CF:1:%s:61" % hx("boom"), "CF:2:%s:62" % hx("boom")]
                want = [None] * len(seq)
                # (a plain EXEC runs on a thread of its own; `@w/` is one long-lived thread: what a failed call leaves behind
                # per thread is met by the calls that follow on it)
                seq.append("@w/EXEC:1:" + hx(use)); want.append("FAULT")
                seq.append("EXEC:1:" + hx(use)); want.append("FAULT")
                seq.append("CF:1:%s:62" % hx("boom")); want.append(None)
                for p_ in ("@w/EXEC:1:", "@w/EXEC:2:", "@t/EXEC:1:", "EXEC:1:", "@w/EXEC:2:", "@w/EXEC:1:"):
                    seq.append(p_ + hx(use)); want.append(val or "OKANY")
                seq.append("EXEC:3:" + hx("1 + 2 * 3")); want.append("n(0,7,0)")
                items.append((" ".join(seq), ("after-fault", None, want, 0)))
        # a program that calls a name nobody registered leaves nothing behind: `ns.foo(..)` (a dotted name is a name of its own) fails
        # before and after `foo` is registered and replaced, on this thread and on others, and `foo(..)` is the latest `foo`
        for nm in ("ns.foo", "foo.bar", "Foo", "foo_", "_foo", "foo1"):
            seq = ["H:31:rs(%s)" % hx("h31"), "H:32:rs(%s)" % hx("h32"), "REGF:%s:31" % hx("foo")]
            want = [None, None, None]
            for step in (["EXEC:1:" + hx("%s(1)" % nm), "@t/EXEC:2:" + hx("[%s(1)]" % nm), "EXEC:1:" + hx("foo(1)")], ["REGF:%s:32" % hx("foo")],
                         ["EXEC:1:" + hx("%s(1)" % nm), "@t/EXEC:2:" + hx("1 + %s(2)" % nm), "EXEC:3:" + hx("foo(1)"), "@t/EXEC:1:" + hx("foo(1)")]):
                for o in step:
                    seq.append(o)
                    if o.startswith("REGF"): want.append(None)
                    elif hx(nm + "(") in o: want.append("FAULT")
                    else: want.append("s(%s)" % hx("h32" if "REGF:%s:32" % hx("foo") in seq else "h31"))
            items.append((" ".join(seq), ("after-fault", None, want, 0)))
        # what other threads parse CONCURRENTLY must not change what a later call does: rounds of a registration racing the first
        # uses of that spelling on other threads, each followed by a sequential use whose result is fixed by the registrations
        # made so far (whatever a racing parse left in a cache on the way must not be observable afterwards)
        for kind in "PSIF":
            for rep in range(2 if tier == "quick" else 30):
                ops = ["H:61:rs(%s)" % hx("h61"), "PARSE:" + hx("1")]
                for k in range(100):
                    w = "v%s%d%d" % (kind.lower(), rep, k)
                    if kind == "P": reg, use, post = "REGP:%s:61" % hx(w), "PARSE:" + hx("%s 1" % w), "EXEC:1:" + hx("%s 5" % w)
                    elif kind == "S": reg, use, post = "REGS:%s:61" % hx(w), "PARSE:" + hx("1 %s" % w), "EXEC:1:" + hx("5 %s" % w)
                    elif kind == "I": reg, use, post = "REGI:%s:6f:0:0:61" % hx(w), "PARSE:" + hx("1 %s 2" % w), "EXEC:1:" + hx("5 %s 6" % w)
                    else: reg, use, post = "REGF:%s:61" % hx(w), "EXEC:2:" + hx("%s(1)" % w), "EXEC:1:" + hx("%s(5)" % w)
                    # twelve uses start 0, 0.5, .. 5.5 microseconds into the round; the registration is swept over the first 10 in steps of 0.25
                    uses = ["~n%d/%s" % (j * 500, use) for j in range(12)]
                    reg = "~n%d/%s" % ((k % 40) * 250, reg)
                    # (the last thread to reach the barrier releases the others and runs on at once: a bystander)
                    ops += ["||"] + (uses + [reg] if k % 3 else uses[:6] + [reg] + uses[6:]) + ["PARSE:" + hx("0"), ";;", post]
                items.append((" ".join(ops), ("race", None, "s(%s)" % hx("h61"), 2)))
        return flow.mk_cases("hist", items)

    def run_impl(self, lines):
        # the race family needs calls to overlap within a microsecond: one process at a time (see C13)
        race = [l for l in lines if " ;; " in l]
        rest = [l for l in lines if " ;; " not in l]
        # histories that need no fresh process share ONE process, in generation order: their contexts are dropped and re-created
        # line after line in the same address space (whatever the engine keys by a context's identity meets re-used identities),
        # and which histories follow one another does not depend on what other families generate
        def fresh(l):
            return any(o.startswith(("REG", "SD:", "H:", "CF:", "PROBE", "@")) or o == "||" for o in l.split(" ")[1:])
        shared = [l for l in rest if not fresh(l)]
        rest = [l for l in rest if fresh(l)]
        res = core.run_impl(rest)
        res.update(core.run_lines([build.impl_bin("debug")], shared, nshards=1))
        res.update(core.run_lines([build.impl_bin("debug")], race, nshards=1))
        return res

    def show(self, case):
        return [unhx(o.split(":")[-1]) if o.split(":")[0] in ("EXEC", "PARSE") else o for o in case.line.split(" ")[1:]]

    def classify(self, case, impl):
        return case.meta[0]

    def nontrivial(self, case, impl):
        return True

    def compare(self, case, impl, model):
        io, mo = impl.split(" "), model.split(" ")
        if len(io) != len(mo): return "length"
        if case.meta[0] == "race":
            # inside a parallel round a use may see the registration or not; the sequential ops are compared
            seq = True
            for a, b in zip(io, mo):
                if a == "||": seq = False; continue
                if a == ";;": seq = True; continue
                if seq and ":L[" in a:
                    # (the logs of calls made after a parallel round are cumulative in the harness: compare class, value, context)
                    da, db = values.split_exec(a), values.split_exec(b)
                    if (da["cls"], da["value"], da["ctx"]) != (db["cls"], db["value"], db["ctx"]): return "sequential call after a race"
            return None
        par = case.meta[0] == "par"
        for a, b in zip(io, mo):
            if ":L[" in a:
                eq, abst = values.exec_equal(a, b)
                if abst: return None      # the model abstained (known dependency class): the rest of this history is not comparable
                if not eq: return "exec result"
            elif a != b: return "parse result"
        return None

    def extra_coverage(self):
        return {"oracle_skipped_rounding_region": self.skipped}

    def known(self, case, impl, detail):
        return None

    def oracle(self, case, impl):
        kind, ctxs, calls, nset = case.meta
        outs = impl.split(" ")[nset:]
        if kind == "after-fault":
            for want, o in zip(calls, outs):
                if want is None: continue
                if want == "FAULT":
                    if o.split(":")[0] not in ("PANIC", "ERR"): return "violates", "the failing handler's evaluation returned " + o[:40]
                    continue
                if o.split(":")[0] in ("PANIC", "DEADLOCK", "ABORT", "MISSING", "SKIP", "HANG"):
                    return "violates", "after an evaluation failed inside a user handler, an unrelated call did not return: " + o[:30]
                if want == "PARSE":
                    if o.split(":")[0] != "OK": return "violates", "after an evaluation failed inside a user handler, an unrelated parse gave " + o[:40]
                    continue
                if want == "OKANY":
                    if o.split(":")[0] != "OK": return "violates", "after an evaluation failed inside a user handler, a later evaluation gave " + o[:40]
                    continue
                d = values.split_exec(o)
                if d["cls"] != "OK" or d["value"] != want:
                    return "violates", "after an evaluation failed inside a user handler, an unrelated evaluation gave %s, alone it gives %s" % (o[:40], want)
            return "ok", ""
        if any(o.split(":")[0] in ("PANIC", "DEADLOCK", "ABORT", "MISSING", "SKIP") for o in outs):
            return "violates", "a call did not return: " + " ".join(o[:10] for o in outs)
        if kind == "race":
            full = impl.split(" ")
            for i, o in enumerate(full):
                if o == ";;" and i + 1 < len(full):
                    d = values.split_exec(full[i + 1])
                    if d["cls"] != "OK" or d["value"] != calls:
                        return "violates", "after the registration has returned and the racing parses are over, the operator is not in force: %s" % full[i + 1][:60]
            return "ok", ""
        if kind == "first-reg":
            for want, o in zip(calls, outs):
                if want != "HANDLER": continue
                if ":L[61(" not in o:      # the registered handler must have been called
                    return "violates", "a built-in name re-bound by the first call the process makes is not in force after a later parse: " + o[:60]
            return "ok", ""
        if kind == "regseq":
            for want, o in zip(calls, outs):
                if want is None: continue
                pp = o.split(":")
                if pp[0] != "OK" or pp[1] != want:
                    return "violates", "parse after the registrations made so far: got %s, the table in force gives %s" % (o[:160], want[:160])
            return "ok", ""
        if kind == "rep":
            base = outs[0].rsplit(":L[", 1)[0]
            d0 = values.split_exec(outs[0])
            for o in outs[1:]:
                d = values.split_exec(o)
                if (d["cls"], d["value"], d["ctx"]) != (d0["cls"], d0["value"], d0["ctx"]):
                    return "violates", "the same program on equal contexts gave %s and %s" % (outs[0][:80], o[:80])
            return "ok", ""
        state = {c: dict(b) for c, b in ctxs.items()}
        for (k, c, stmts, src), o in zip(calls, outs):
            if k in ("parse", "exec-any"): continue
            cls, val, fctx, _log = speceval.run_program(stmts, state[c], {})
            if cls == "SKIP":
                self.skipped += 1; return "ok", ""
            state[c] = fctx
            d = values.split_exec(o)
            if d["cls"] != cls:
                return "violates", "%r on context %d: %s, alone it gives %s" % (src, c, d["cls"], cls)
            if cls == "OK" and not evalspec.seq(evalspec.from_proto(values.parse_value(d["value"])), val):
                return "violates", "%r on context %d: value %s, alone %s" % (src, c, d["value"], val)
            have = dict(values.ctx_items(d["ctx"] or "C{}"))
            if set(have) != set(hx(n) for n in fctx):
                return "violates", "context %d holds names %s, its own calls bind %s" % (c, sorted(unhx(x) for x in have), sorted(fctx))
            for nm, v in fctx.items():
                if not evalspec.seq(evalspec.from_proto(values.parse_value(have[hx(nm)])), v[1]):
                    return "violates", "context %d: %s is %s, its own calls give %s" % (c, nm, have[hx(nm)], v[1])
        return "ok", ""
