"""C09 - number literals and decimal arithmetic are exact."""
from fractions import Fraction
from .. import build, core, flow, gens, values
from ..core import hx, unhx
from ..values import mk_num, dec_str

MAXM = 2 ** 96 - 1

def representable(q):
    """exact rational q fits a 96-bit mantissa with scale <= 28"""
    for s in range(0, 29):
        m = q * 10 ** s
        if m.denominator == 1:
            return abs(m.numerator) <= MAXM
    return False

def trunc_rem(a, b):
    q = abs(a) // abs(b)   # floor of |a|/|b|
    r = abs(a) - q * abs(b)
    return -r if a < 0 else r

BOUND = [0, 1, 2, 5, 9, 10, 99, 2**32 - 1, 2**32, 2**32 + 1, 2**64 - 1, 2**64, 2**64 + 1, 2**95, MAXM - 1, MAXM,
         10**28 - 1, 10**28, 123456789, 999999999999999999, 18446744073709551615]

def rand_operand(rng):
    r = rng.random()
    if r < 0.3:
        m = rng.choice(BOUND)
    elif r < 0.6:
        m = rng.getrandbits(rng.choice([8, 16, 31, 32, 33, 63, 64, 65, 90, 95, 96])) % (MAXM + 1)
    else:
        m = rng.randrange(0, 10 ** rng.randint(1, 28))
    s = rng.choice([0, 0, 0, 1, 2, 2, 3, 5, 9, 10, 14, 19, 20, 27, 28]) if rng.random() < 0.7 else rng.randint(0, 28)
    neg = rng.random() < 0.3
    return (neg, m, s)

OPS = ["+", "-", "*", "%", "<", "<=", ">", ">=", "==", "!="]
COMPOUND = {"+": "+=", "-": "-=", "*": "*=", "%": "%="}

class P:
    prop = "C09"
    rule = ("EXEC of `x op y` (x, y bound in the context to (sign, 96-bit mantissa, scale) pairs biased to carries at 2^32, "
            "2^64, 2^96 and to scale differences 0..28) for op in + - * % < <= > >= == != and the compound forms "
            "`x op= y; x`, negative zero (as a context value and as `- x` of a zero of any scale) on either side of every operator, plus literal programs (leading zeros, `1.`, up to 28 digits, trailing zeros, malformed digit "
            "runs). Mantissa and scale of the result are compared with the model; the exact rational result is the "
            "oracle. Non-trivial = distinct program+operands with a non-zero operand.")
    assumptions = ["rust_decimal 1.31.0 is a modelled dependency (contract of DESIGN.md 3.1)",
                   "results outside the representable range (rounding region) are compared with the model but not judged by the oracle"]
    trusted_extra = []

    def __init__(self):
        self.abstained = 0
        self.inexact = 0

    def generate(self, tier, rng):
        cases = []
        lits = ["0", "1", "007", "1.", "1.0", "1.10", "0.1", "0.2", "0.3", "123.456", "0.0000000000000000000000000001",
                "79228162514264337593543950335", "7922816251426433759354395033.5", "1234567890123456789012345678",
                "0.1234567890123456789012345678", "1e3", "1E5", "1e+3", "1.5e", "1..2", "1.2.3", "12a", "1_000", "0x10",
                "1+", "9" * 28, "0." + "9" * 28, "00000000000000000000000000000000000001",
                "79228162514264337593543950336", "0.12345678901234567890123456789", "1.0000000000000000000000000000",
                "100000000000000000000000000000", "1.5.", "3.", ".5", "5.e1", "1-2", "1e-2", "2E+2", "1e", "1ee1"]
        for _ in range(300 if tier == "quick" else 20000):
            nd = rng.randint(1, 28); fd = rng.randint(0, nd)
            digs = "".join(rng.choice("0123456789") for _ in range(nd))
            lits.append(digs if fd == 0 else (digs[:nd - fd] or "0") + "." + digs[nd - fd:])
        # boundary magnitudes of every integer width a fast path could use, the decimal point at every kind of position,
        # with and without leading zeros: 2^k and 10^k, one below and one above
        bounds = []
        for k in (7, 8, 15, 16, 24, 31, 32, 53, 63, 64, 95, 96):
            bounds += [2 ** k - 1, 2 ** k, 2 ** k + 1]
        for k in (9, 10, 18, 19, 20, 27, 28, 29):
            bounds += [10 ** k - 1, 10 ** k, 10 ** k + 1]
        bounds += [9300000000000000000, 9876543210987654321, 18446744073709551616 * 3, 4294967296 * 4294967295]
        for bnd in bounds:
            digs = str(bnd); nd = len(digs)
            for fd in sorted({0, 1, nd // 2, nd - 1, nd}):
                if fd > 28: continue
                lit = digs if fd == 0 else (digs[:nd - fd] or "0") + "." + digs[nd - fd:]
                lits.append(lit)
                if fd in (0, nd // 2): lits.append("00" + lit)
        # more fractional digits than a decimal can hold (the crate rounds them), with small and large mantissas
        for k in (26, 27, 28, 29, 30, 35, 40, 60):
            lits += ["0." + "0" * k + "1", "0." + "0" * k + "12", "1." + "0" * k, "3." + "0" * k + "5", "0." + "9" * k, "12." + "5" * k]
        cases += flow.mk_cases("lit", [("EXEC:1:" + hx(l), ("lit", l)) for l in lits])
        cases += flow.mk_cases("litsub", [("EXEC:1:" + hx("%d - %d" % (b, b - 1)), ("litsub", b)) for b in bounds if b < 2 ** 96])
        cases += flow.mk_cases("litcmp", [("EXEC:1:" + hx("%s == %s" % (a, b)), ("litcmp", a, b)) for a, b in
                                         [("1.10", "1.1"), ("1.0", "1"), ("0.0", "0"), ("0.1+0.2", "0.3"), ("1.10", "1.11"),
                                          ("100", "1.00*100"), ("0.30", "0.1*3")]])
        # small-integer boundaries with both signs, at scale 0, every pair x every operator: what a fixed-width fast path
        # (i32 / i64 / u64 arithmetic on "small" operands) would mishandle - i64::MIN % -1, i64::MIN * -1, i64::MAX + 1 ...
        small = [0, 1, 2, 3, 10, 2**31 - 1, 2**31, 2**32, 2**63 - 1, 2**63, 2**63 + 1, 2**64 - 1, 2**64]
        signed = [(False, m, 0) for m in small] + [(True, m, 0) for m in small if m]
        bitems = []
        for a in signed:
            for b in signed:
                for op in OPS[:4]:
                    comp = (len(bitems) % 5 == 0)
                    src = ("x %s y; x" % COMPOUND[op]) if comp else ("x %s y" % op)
                    line = "CV:1:%s:%s CV:1:%s:%s EXEC:1:%s" % (hx("x"), mk_num(*a), hx("y"), mk_num(*b), hx(src))
                    bitems.append((line, ("bin", op, a, b, comp)))
        cases += flow.mk_cases("smallint", bitems)
        n = 4000 if tier == "quick" else 400000
        items = []
        pairs = [(a, b) for a in BOUND[:12] for b in BOUND[:12]]
        for k in range(n):
            if k < len(pairs) and tier != "quick":
                a, b = (False, pairs[k][0], 0), (False, pairs[k][1], 0)
            else:
                a, b = rand_operand(rng), rand_operand(rng)
                if rng.random() < 0.15: b = a if rng.random() < 0.5 else (a[0], a[1] * 10 if a[1] * 10 <= MAXM and a[2] < 28 else a[1], a[2] + (1 if a[1] * 10 <= MAXM and a[2] < 28 else 0))
            op = rng.choice(OPS)
            comp = op in COMPOUND and rng.random() < 0.25
            src = ("x %s y; x" % COMPOUND[op]) if comp else ("x %s y" % op)
            line = "CV:1:%s:%s CV:1:%s:%s EXEC:1:%s" % (hx("x"), mk_num(*a), hx("y"), mk_num(*b), hx(src))
            items.append((line, ("bin", op, a, b, comp)))
        cases += flow.mk_cases("arith", items)
        # NEGATIVE ZERO (a Decimal keeps a sign on zero; in the language only prefix `-` on a zero produces it): as a context value
        # and as `- x` with x a zero of any scale, on either side of every operator, against zeros, small numbers and itself
        zeros = [(False, 0, 0), (False, 0, 2), (False, 0, 28)]
        others = [(False, 0, 0), (False, 0, 3), (True, 0, 0), (True, 0, 2), (False, 1, 0), (True, 1, 0), (False, 1, 28), (True, 5, 1)]
        nz = []
        for op in OPS:
            for zr in zeros:
                neg = (True, zr[1], zr[2])
                for o in others:
                    for form in ("cv-left", "cv-right", "minus-left", "minus-right", "minus-expr"):
                        left = form.endswith("left") or form == "minus-expr"
                        a, b = (neg, o) if left else (o, neg)
                        zs, os_ = ("x", "y") if left else ("y", "x")
                        if form.startswith("cv"):
                            src = "x %s y" % op
                            vals = {zs: neg, os_: o}
                        elif form == "minus-expr":
                            src = "- (x - x) %s y" % op
                            vals = {"x": (False, 25, zr[2] if zr[2] < 28 else 27), "y": o}
                        else:
                            src = ("- x %s y" if left else "x %s - y") % op
                            vals = {zs: zr, os_: o}
                        line = " ".join("CV:1:%s:%s" % (hx(k), mk_num(*v)) for k, v in sorted(vals.items())) + " EXEC:1:" + hx(src)
                        nz.append((line, ("bin", op, a, b, False)))
        cases += flow.mk_cases("negzero", nz)
        return cases

    def show(self, case):
        m = case.meta
        if m and m[0] == "bin":
            return "%s %s %s%s" % (dec_str(*m[2]), m[1], dec_str(*m[3]), " (compound)" if m[4] else "")
        return [unhx(o.split(":")[-1]) if o.startswith("EXEC") else o for o in case.line.split(" ")[1:]]

    def classify(self, case, impl):
        return impl.split(" ")[-1].split(":")[0]

    def nontrivial(self, case, impl):
        m = case.meta
        return bool(m) and (m[0] != "bin" or m[2][1] != 0 or m[3][1] != 0)

    def compare(self, case, impl, model):
        i, m = impl.split(" ")[-1], model.split(" ")[-1]
        eq, abst = values.exec_equal(i, m)
        if abst: self.abstained += 1
        if m.endswith(":I"): self.inexact += 1
        return None if eq else "value(mantissa,scale)"

    def extra_coverage(self):
        return {"inexact_region_abstained": self.abstained, "model_flagged_inexact": self.inexact}

    def known(self, case, impl, detail):
        m = case.meta
        if m and m[0] == "bin" and m[1] == "%":
            a, b = m[2], m[3]
            if b[2] > a[2] and a[1] * 10 ** (b[2] - a[2]) >= 2 ** 96:
                return ("Known_C09_rem_rescale: rust_decimal 1.31.0 `%` is wrong for some dividends that must be rescaled past "
                        "96 bits (scale(b) > scale(a) and |a|*10^(scale(b)-scale(a)) >= 2^96) (D21, dependency)")
        return None

    def oracle(self, case, impl):
        out = impl.split(" ")[-1]
        d = values.split_exec(out)
        if d["cls"] in ("PANIC", "ABORT", "HANG", "MISSING", "DEADLOCK"):
            return "violates", "evaluation did not return: " + d["cls"]
        m = case.meta
        if not m:
            return "unknown", ""
        if m[0] == "lit":
            l = m[1]
            import re
            if re.fullmatch(r"[0-9]+(\.[0-9]*)?", l):
                digits = l.replace(".", "")
                frac = len(l.split(".")[1]) if "." in l else 0
                if len(digits.lstrip("0")) <= 28 and frac <= 28 and int(digits) <= MAXM:
                    if d["cls"] != "OK":
                        return "violates", "valid literal %s rejected" % l
                    v = values.parse_value(d["value"])
                    if v[0] != "n" or v[2] != int(digits) or v[3] != frac:
                        return "violates", "literal %s evaluated to %s" % (l, d["value"])
                return "ok", ""
            if re.fullmatch(r"[0-9][0-9.eE+\-]*", l) and not re.search(r"[0-9][+\-]", re.sub(r"[eE][+\-]", "", l)):
                # a digit run that is not digits[.digits]: must be rejected, never truncated
                if d["cls"] == "OK":
                    return "violates", "malformed number %s accepted as %s" % (l, d["value"])
            return "ok", ""
        if m[0] == "bin":
            op, a, b = m[1], m[2], m[3]
            qa = Fraction(a[1], 10 ** a[2]) * (-1 if a[0] else 1)
            qb = Fraction(b[1], 10 ** b[2]) * (-1 if b[0] else 1)
            if op in ("<", "<=", ">", ">=", "==", "!="):
                want = {"<": qa < qb, "<=": qa <= qb, ">": qa > qb, ">=": qa >= qb, "==": qa == qb, "!=": qa != qb}[op]
                if d["cls"] != "OK" or d["value"] != "b(%d)" % (1 if want else 0):
                    return "violates", "comparison gave %s, exact answer %s" % (out[:40], want)
                return "ok", ""
            if op == "%":
                if qb == 0:
                    return ("ok", "") if d["cls"] == "ERR" else ("violates", "remainder by zero gave " + out[:40])
                exact = trunc_rem(qa, qb)
            else:
                exact = {"+": qa + qb, "-": qa - qb, "*": qa * qb}[op]
            if representable(exact):
                if d["cls"] != "OK":
                    return "violates", "exact result %s is representable but evaluation gave %s" % (exact, d["cls"])
                v = values.parse_value(d["value"])
                if v[0] != "n" or values.num_q(v) != exact:
                    return "violates", "result %s != exact %s" % (d["value"], exact)
            return "ok", ""
        if m[0] == "litsub":
            if d["cls"] != "OK" or d["value"] != "n(0,1,0)":
                return "violates", "%d - %d evaluated to %s" % (m[1], m[1] - 1, out[:60])
        return "ok", ""
