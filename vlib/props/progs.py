"""Grammar-directed random programs (DESIGN.md 4.3): random ASTs rendered with minimal or redundant parentheses."""
import random
from .. import build, gens

INFIX = None
def table():
    global INFIX
    if INFIX is None:
        INFIX = gens.builtin_ops(build.table_path())
    return INFIX

NAMES = ["a", "b", "c", "x1", "foo.bar", "_t", "é", "Z9"]
FUNCS = ["f", "g", "min", "max", "sum"]
NUMS = ["0", "1", "2", "10", "3.5", "0.10", "007", "1.", "79228162514264337593543950335", "0.0000000000000000000000000001"]
STRS = ["'a'", '"b c"', "''", '"it\'s"', "'say \"hi\"'", "'é€'"]

def gen_ast(rng, depth):
    """tuple AST: ('lit',text) ('ref',n) ('un',op,e) ('bin',op,l,r) ('nbin',op,l,r) ('post',e,op) ('tern',c,a,b)
       ('call',n,args) ('list',es) ('map',kvs)"""
    infix, prefix, postfix, _ = table()
    if depth <= 0 or rng.random() < 0.25:
        r = rng.random()
        if r < 0.35: return ("lit", rng.choice(NUMS))
        if r < 0.5: return ("lit", rng.choice(["true", "false", "True", "False"]))
        if r < 0.65: return ("lit", rng.choice(STRS))
        return ("ref", rng.choice(NAMES))
    r = rng.random()
    if r < 0.45:
        op = rng.choice(infix)[0]
        kind = "nbin" if rng.random() < 0.12 else "bin"
        return (kind, op, gen_ast(rng, depth - 1), gen_ast(rng, depth - 1))
    if r < 0.55: return ("un", rng.choice(prefix), gen_ast(rng, depth - 1))
    if r < 0.62: return ("post", gen_ast(rng, depth - 1), rng.choice(postfix))
    if r < 0.72: return ("tern", gen_ast(rng, depth - 1), gen_ast(rng, depth - 1), gen_ast(rng, depth - 1))
    if r < 0.82: return ("call", rng.choice(FUNCS), [gen_ast(rng, depth - 1) for _ in range(rng.randint(0, 3))])
    if r < 0.92: return ("list", [gen_ast(rng, depth - 1) for _ in range(rng.randint(0, 3))])
    return ("map", [(gen_ast(rng, depth - 1), gen_ast(rng, depth - 1)) for _ in range(rng.randint(0, 2))])

def render_full(t, rng=None):
    """fully parenthesised rendering: the intended tree is unambiguous whatever the precedence rules"""
    k = t[0]
    def p(x):
        s = render_full(x, rng)
        return s if x[0] in ("lit", "ref", "call", "list", "map") else "(" + s + ")"
    if k == "lit" or k == "ref": return t[1]
    if k == "un": return t[1] + " " + p(t[2])
    if k == "bin": return p(t[2]) + " " + t[1] + " " + p(t[3])
    if k == "nbin": return p(t[2]) + " not " + t[1] + " " + p(t[3])
    if k == "post": return p(t[1]) + " " + t[2]
    if k == "tern": return p(t[1]) + " ? " + p(t[2]) + " : " + p(t[3])
    if k == "call": return t[1] + "(" + ", ".join(render_full(a, rng) for a in t[2]) + ")"
    if k == "list": return "[" + ", ".join(render_full(a, rng) for a in t[1]) + "]"
    if k == "map": return "{" + ", ".join(render_full(a, rng) + " : " + render_full(b, rng) for a, b in t[1]) + "}"
    raise ValueError(k)

def sample_programs(rng, n, depth=4):
    out = []
    for _ in range(n):
        stmts = [render_full(gen_ast(rng, rng.randint(1, depth))) for _ in range(rng.choice([1, 1, 1, 2, 3]))]
        out.append("; ".join(stmts))
    return out

def corrupt(rng, s):
    if not s:
        return s
    i = rng.randrange(len(s))
    r = rng.random()
    pool = gens.SYMBOLS
    if r < 0.3: return s[:i] + s[i + 1:]
    if r < 0.6: return s[:i] + rng.choice(pool) + s[i:]
    if r < 0.85: return s[:i] + rng.choice(pool) + s[i + 1:]
    j = rng.randrange(len(s))
    l = list(s); l[i], l[j] = l[j], l[i]
    return "".join(l)
