"""Grammar-directed random programs (DESIGN.md 4.3): random ASTs rendered with minimal or redundant parentheses."""
import random
from .. import build, gens

INFIX = None
def table():
    global INFIX
    if INFIX is None:
        INFIX = gens.builtin_ops(build.table_path())
    return INFIX

NAMES = ["a", "b", "c", "x1", "foo.bar", "_t", "é", "Z9"]
FUNCS = ["f", "g", "min", "max", "sum"]
NUMS = ["0", "1", "2", "10", "3.5", "0.10", "007", "1.", "79228162514264337593543950335", "0.0000000000000000000000000001"]
STRS = ["'a'", '"b c"', "''", '"it\'s"', "'say \"hi\"'", "'é€'"]

def gen_ast(rng, depth):
    """tuple AST: ('lit',text) ('ref',n) ('un',op,e) ('bin',op,l,r) ('nbin',op,l,r) ('post',e,op) ('tern',c,a,b)
       ('call',n,args) ('list',es) ('map',kvs)"""
    infix, prefix, postfix, _ = table()
    if depth <= 0 or rng.random() < 0.25:
        r = rng.random()
        if r < 0.35: return ("lit", rng.choice(NUMS))
        if r < 0.5: return ("lit", rng.choice(["true", "false", "True", "False"]))
        if r < 0.65: return ("lit", rng.choice(STRS))
        return ("ref", rng.choice(NAMES))
    r = rng.random()
    if r < 0.45:
        op = rng.choice(infix)[0]
        kind = "nbin" if rng.random() < 0.12 else "bin"
        return (kind, op, gen_ast(rng, depth - 1), gen_ast(rng, depth - 1))
    if r < 0.55: return ("un", rng.choice(prefix), gen_ast(rng, depth - 1))
    if r < 0.62: return ("post", gen_ast(rng, depth - 1), rng.choice(postfix))
    if r < 0.72: return ("tern", gen_ast(rng, depth - 1), gen_ast(rng, depth - 1), gen_ast(rng, depth - 1))
    if r < 0.82: return ("call", rng.choice(FUNCS), [gen_ast(rng, depth - 1) for _ in range(rng.randint(0, 3))])
    if r < 0.92: return ("list", [gen_ast(rng, depth - 1) for _ in range(rng.randint(0, 3))])
    return ("map", [(gen_ast(rng, depth - 1), gen_ast(rng, depth - 1)) for _ in range(rng.randint(0, 2))])

def render_full(t, rng=None, elems=False):
    """fully parenthesised rendering: the intended tree is unambiguous whatever the precedence rules
    (elems: call arguments, list elements, map keys and values that are not atoms are parenthesised as well)"""
    if elems:
        k = t[0]
        e = lambda x: render_full(x, rng, True) if x[0] in ("lit", "ref", "call", "list", "map") else "(" + render_full(x, rng, True) + ")"
        if k == "call": return t[1] + "(" + ", ".join(e(a) for a in t[2]) + ")"
        if k == "list": return "[" + ", ".join(e(a) for a in t[1]) + "]"
        if k == "map": return "{" + ", ".join(e(a) + " : " + e(b) for a, b in t[1]) + "}"
        if k == "un": return t[1] + " " + e(t[2])
        if k == "bin": return e(t[2]) + " " + t[1] + " " + e(t[3])
        if k == "nbin": return e(t[2]) + " not " + t[1] + " " + e(t[3])
        if k == "post": return e(t[1]) + " " + t[2]
        if k == "tern": return e(t[1]) + " ? " + e(t[2]) + " : " + e(t[3])
        return t[1]
    k = t[0]
    def p(x):
        s = render_full(x, rng)
        return s if x[0] in ("lit", "ref", "call", "list", "map") else "(" + s + ")"
    if k == "lit" or k == "ref": return t[1]
    if k == "un": return t[1] + " " + p(t[2])
    if k == "bin": return p(t[2]) + " " + t[1] + " " + p(t[3])
    if k == "nbin": return p(t[2]) + " not " + t[1] + " " + p(t[3])
    if k == "post": return p(t[1]) + " " + t[2]
    if k == "tern": return p(t[1]) + " ? " + p(t[2]) + " : " + p(t[3])
    if k == "call": return t[1] + "(" + ", ".join(render_full(a, rng) for a in t[2]) + ")"
    if k == "list": return "[" + ", ".join(render_full(a, rng) for a in t[1]) + "]"
    if k == "map": return "{" + ", ".join(render_full(a, rng) + " : " + render_full(b, rng) for a, b in t[1]) + "}"
    raise ValueError(k)

def sample_programs(rng, n, depth=4):
    out = []
    for _ in range(n):
        stmts = [render_full(gen_ast(rng, rng.randint(1, depth))) for _ in range(rng.choice([1, 1, 1, 2, 3]))]
        out.append("; ".join(stmts))
    return out

def corrupt(rng, s):
    if not s:
        return s
    i = rng.randrange(len(s))
    r = rng.random()
    pool = gens.SYMBOLS
    if r < 0.3: return s[:i] + s[i + 1:]
    if r < 0.6: return s[:i] + rng.choice(pool) + s[i:]
    if r < 0.85: return s[:i] + rng.choice(pool) + s[i + 1:]
    j = rng.randrange(len(s))
    l = list(s); l[i], l[j] = l[j], l[i]
    return "".join(l)

# ---------------------------------------------------------------------------------------------
# The documented grammar as an executable spec (written from the property texts / README, not from parser.rs):
# protocol form of the intended tree, and the minimal-parenthesis rendering by precedence and associativity.
from ..core import hx

def lit_proto(text):
    if text in ("true", "True"): return "b(1)"
    if text in ("false", "False"): return "b(0)"
    if text[0] in "'\"": return "s(%s)" % hx(text[1:-1])
    if "." in text:
        a, b = text.split(".")
        return "n(0,%x,%d)" % (int(a + b), len(b))
    return "n(0,%x,0)" % int(text)

def to_proto(t):
    k = t[0]
    if k == "lit": return lit_proto(t[1])
    if k == "ref": return "R(%s)" % hx(t[1])
    if k == "un": return "U(%s,%s)" % (hx(t[1]), to_proto(t[2]))
    if k == "bin": return "B(%s,%s,%s)" % (hx(t[1]), to_proto(t[2]), to_proto(t[3]))
    if k == "nbin": return "U(%s,B(%s,%s,%s))" % (hx("not"), hx(t[1]), to_proto(t[2]), to_proto(t[3]))
    if k == "post": return "P(%s,%s)" % (to_proto(t[1]), hx(t[2]))
    if k == "tern": return "T(%s,%s,%s)" % (to_proto(t[1]), to_proto(t[2]), to_proto(t[3]))
    if k == "call": return "F(%s)" % ";".join([hx(t[1])] + [to_proto(a) for a in t[2]])
    if k == "list": return "L(%s)" % ";".join(to_proto(a) for a in t[1])
    if k == "map": return "M(%s)" % ";".join(to_proto(a) + "=" + to_proto(b) for a, b in t[1])
    raise ValueError(k)

def stmts_proto(ts):
    return to_proto(ts[0]) if len(ts) == 1 else "S(%s)" % ";".join(to_proto(t) for t in ts)

def prec_table():
    infix = table()[0]
    return {n: (p, right) for n, p, setter, right in infix}

def infix_like(t):
    """(op, left, right) for `x OP y`, `x not OP y` and `not (x OP y)` (the same tree as `x not OP y`)"""
    if t[0] in ("bin", "nbin"): return (t[1], t[2], t[3])
    if t[0] == "un" and t[1] == "not" and t[2][0] == "bin": return (t[2][1], t[2][2], t[2][3])
    return None

def must_paren(c, n, pos, PT):
    """does child c of node n (at position pos) need parentheses, by the documented rules"""
    nk = n[0]
    n_inf = nk in ("bin", "nbin")
    if c[0] == "tern" and (n_inf or nk in ("un", "post") or (nk == "tern" and pos == "cond")):
        return True
    c_inf = infix_like(c) is not None and c[0] != "un"      # rendered infix
    c_not_prefixed = c[0] == "un"                              # rendered with a prefix operator in front
    if nk in ("un", "post") and infix_like(c) is not None and c[0] != "un":
        return True
    if n_inf:
        po, right_o = PT[n[1]]
        if pos == "left":
            node = c
            while node[0] in ("bin", "nbin"):
                px, right_x = PT[node[1]]
                if not (px > po or (px == po and not right_x)):
                    return True
                node = node[3]
        elif pos == "right":
            node = c
            while node[0] in ("bin", "nbin"):
                py, _ = PT[node[1]]
                if not (py > po or (py == po and right_o)):
                    return True
                node = node[2]
    if nk == "post" and c[0] == "un":
        return True          # a postfix operator applies to a primary, never to a prefix expression (postfix chains need none)
    return False

def render_min(t, PT=None, rng=None, extra=0.0, spans=None, base=0):
    """minimal parentheses (plus redundant ones with probability `extra`); returns text"""
    PT = PT or prec_table()
    def sub(c, n, pos):
        s = render_min(c, PT, rng, extra)
        need = must_paren(c, n, pos, PT)
        k = (1 if need else 0) + (rng.choice([1, 1, 2]) if (rng is not None and rng.random() < extra) else 0)
        return "(" * k + s + ")" * k
    k = t[0]
    if k in ("lit", "ref"): return t[1]
    if k == "un": return t[1] + " " + sub(t[2], t, "operand")
    if k == "bin": return sub(t[2], t, "left") + " " + t[1] + " " + sub(t[3], t, "right")
    if k == "nbin": return sub(t[2], t, "left") + " not " + t[1] + " " + sub(t[3], t, "right")
    if k == "post": return sub(t[1], t, "operand") + " " + t[2]
    if k == "tern": return sub(t[1], t, "cond") + " ? " + sub(t[2], t, "then") + " : " + sub(t[3], t, "else")
    if k == "call": return t[1] + "(" + ", ".join(sub(a, t, "arg") for a in t[2]) + ")"
    if k == "list": return "[" + ", ".join(sub(a, t, "elem") for a in t[1]) + "]"
    if k == "map": return "{" + ", ".join(sub(a, t, "key") + " : " + sub(b, t, "val") for a, b in t[1]) + "}"
    raise ValueError(k)

def valid_tree(t):
    """trees the documented grammar can express: `un not` over a bare `bin` is the same tree as nbin - fine;
       names must not be operator words (guaranteed by NAMES)"""
    return True

def gen_stmts(rng, depth=4, nmax=3):
    return [gen_ast(rng, rng.randint(1, depth)) for _ in range(rng.choice([1, 1, 1, 2, nmax]))]
