"""C14 - handlers may re-enter the engine without deadlock."""
import itertools
from fractions import Fraction
from .. import build, core, flow, gens, values
from ..core import hx, unhx
from . import speceval, evalspec

def tagv(h): return "s(%s)" % hx("h%d" % h)

# how each handler kind is installed and invoked: (setup ops for handler id h, program text)
KINDS = {
    "global-fn":   (lambda h: ["REGF:%s:%d" % (hx("gfun"), h)], "gfun(1)"),
    "prefix-op":   (lambda h: ["REGP:%s:%d" % (hx("pre"), h)], "pre 1"),
    "infix-op":    (lambda h: ["REGI:%s:%x:0:0:%d" % (hx("inf"), 105, h)], "1 inf 2"),
    "infix-setter":(lambda h: ["REGI:%s:%x:1:1:%d" % (hx("setto"), 20, h)], "z setto 2; z"),
    "postfix-op":  (lambda h: ["REGS:%s:%d" % (hx("post"), h)], "1 post"),
    "ctx-fn-call": (lambda h: ["CF:1:%s:%d" % (hx("cfun"), h)], "cfun(1)"),
    "ctx-fn-bare": (lambda h: ["CF:1:%s:%d" % (hx("cfun"), h)], "cfun"),
}

def actions(inner_prog):
    """re-entrant actions (script action text)"""
    return {
        "parse": "P%s." % hx("1 + 2 * (3 - x)"),
        "execute-same-ctx": "X1.%s." % hx("y = 5; y + 1"),
        "execute-other-ctx": "X2.%s." % hx("y = 5; y + 1"),
        "register-function": "F%s.41." % hx("newf"),
        "register-prefix": "U%s.41." % hx("newp"),
        "register-infix": "I%s.%x.0.0.41." % (hx("newi"), 77),
        "register-postfix": "S%s.41." % hx("news"),
        "lock-ctx": "K1.",
        "reregister-self": None,   # filled per kind
        "nested": "X1.%s." % hx(inner_prog),
        # the handler re-enters on the evaluating context and writes the very variable the surrounding assignment is about to bind
        "bump-target": "X1.%s." % hx("z = z + 1"),
    }

# where the invoking expression E stands in the program: (program text, expected value given the handler's tag)
SITES = {
    "plain":      (lambda e: e,                          lambda t: t),
    "names-list": (lambda e: "[x, %s, x]" % e,           lambda t: "l(n(0,1,0);%s;n(0,1,0))" % t),
    "pair":       (lambda e: "[%s, x]" % e,              lambda t: "l(%s;n(0,1,0))" % t),
    "member":     (lambda e: "1 in [x, %s]" % e,         lambda t: "b(1)"),
    "map":        (lambda e: "{x : %s}" % e,             lambda t: "m(n(0,1,0)=%s)" % t),
    "map-key":    (lambda e: "{%s : x}" % e,             lambda t: "m(%s=n(0,1,0))" % t),
    "cond":       (lambda e: "x == 1 ? %s : 0" % e,      lambda t: t),
    "arg":        (lambda e: "ident(x, %s)" % e,         lambda t: t),
    "assign":     (lambda e: "w = %s; w" % e,            lambda t: t),
    "twice":      (lambda e: "%s == %s" % (e, e),        lambda t: "b(1)"),
    "assign-target": (lambda e: "z = %s; z" % e,          lambda t: t),
    "in-target-rhs": (lambda e: "z = [z, %s, z]; 1" % e,  lambda t: "n(0,1,0)"),
}

class P:
    prop = "C14"
    rule = ("one fresh process per scenario, result awaited under an 8 s watchdog: every handler kind (global function, prefix, infix "
            "calc, infix setter, postfix operator, context function by call and by bare name) x every re-entrant action (parse, execute "
            "on the same / another context, register_function/prefix/infix/postfix, locking the evaluating context's public handle, "
            "re-registering itself, writing the variable the surrounding assignment is about to bind) x nesting depth 1..3 (a handler whose action executes a program that invokes the next handler); at "
            "depth 1 also x ten sites of the invoking expression (alone, in a list of plain names, list, membership list, map value / key, "
            "conditional branch, call argument, assignment, twice in one expression), and with every handler's name also bound the other way round (context variables named like the registered function and operators, a global function named like the context function) - "
            "exhaustive; and two threads over one context while its context function holds the context's handle and re-enters on another context (2 x 4 x 7 scenarios, oracle only). Oracle: the outer evaluation completes (no DEADLOCK, no PANIC) with the handler's normal result and the "
            "re-entrant effect is visible afterwards. Non-trivial = distinct scenario.")
    assumptions = ["deadlock = no result within the watchdog; the slowest completed scenario takes a few milliseconds"]
    trusted_extra = ["watchdog in harness/src/hist.rs (8 s) and persistent worker threads"]

    def generate(self, tier, rng):
        items = []
        kinds = list(KINDS)
        for kind in kinds:
            setup_k, prog = KINDS[kind]
            for depth in (1, 2, 3):
                for aname, site in [(a_, s_) for a_ in ["parse", "execute-same-ctx", "execute-other-ctx", "register-function", "register-prefix",
                                                        "register-infix", "register-postfix", "lock-ctx", "reregister-self", "bump-target"]
                                    for s_ in SITES if s_ == "plain" or (depth == 1 and kind != "infix-setter")]:
                    # handler chain: h1 (kind under test) -> ... -> h_depth performs the action
                    ops = []
                    hs = list(range(50, 50 + depth))
                    for i, h in enumerate(hs):
                        last = (i == depth - 1)
                        if last:
                            if aname == "reregister-self":
                                act = {"global-fn": "F%s.%d." % (hx("gfun"), h), "prefix-op": "U%s.%d." % (hx("pre"), h),
                                       "infix-op": "I%s.%x.0.0.%d." % (hx("inf"), 105, h), "infix-setter": "I%s.%x.1.1.%d." % (hx("setto"), 20, h),
                                       "postfix-op": "S%s.%d." % (hx("post"), h)}.get(kind, "F%s.%d." % (hx("cfun"), h))
                            else:
                                act = actions("")[aname]
                            ops.append("H:%d:q%sr%s" % (h, act, tagv(h)))
                        else:
                            nk = kinds[(kinds.index(kind) + i + 1) % len(kinds)]
                            inner_setup, inner_prog = KINDS[nk]
                            # install the next handler (kind nk) under its own names, then call it from this one
                            ops.append("H:%d:qX1.%s.r%s" % (h, hx(inner_prog.replace("gfun", "gfun%d" % (i + 1)).replace("pre ", "pre%d " % (i + 1))
                                                              .replace(" inf ", " inf%d " % (i + 1)).replace(" setto ", " setto%d " % (i + 1))
                                                              .replace(" post", " post%d" % (i + 1)).replace("cfun", "cfun%d" % (i + 1))), tagv(h)))
                    # installation: first handler under the plain names, the others under suffixed names
                    for i, h in enumerate(hs):
                        k_i = kind if i == 0 else kinds[(kinds.index(kind) + i) % len(kinds)]
                        su, _ = KINDS[k_i]
                        for o in su(h):
                            if i > 0:
                                parts = o.split(":")
                                nmidx = 2 if parts[0] == "CF" else 1
                                parts[nmidx] = hx(unhx(parts[nmidx]) + str(i))
                                o = ":".join(parts)
                            ops.append(o)
                    ops.append("CV:1:%s:n(0,1,0)" % hx("x"))
                    ops.append("CV:1:%s:n(0,0,0)" % hx("z"))
                    ops.append("H:49:a1.")
                    ops.append("REGF:%s:49" % hx("ident"))
                    tail = ["EXEC:1:" + hx(SITES[site][0](prog)), "EXEC:1:" + hx("1 + 1"), "CD:1"]
                    items.append((" ".join(ops + tail), (kind, aname, depth, hs[0], len(ops), site)))
                    if depth == 1 and site in ("plain", "assign"):
                        # the same scenario with every handler's NAME also bound the other way round: the evaluating context holds
                        # VARIABLES called like the registered function and the operators, and a function called like the
                        # context function is registered globally (which handler is invoked, and how, is unchanged)
                        sh = ["CV:1:%s:n(0,7,0)" % hx(nm) for nm in ("gfun", "pre", "inf", "post", "setto", "newf", "ident")] + ["REGF:%s:49" % hx("cfun")]
                        items.append((" ".join(ops + sh + tail), (kind, aname, depth, hs[0], len(ops) + len(sh), site)))
        # TWO threads over ONE context: a context function holds the guard of its own context's handle while it re-enters the
        # engine on another context (a program that takes 100 ms and then calls a registered function / uses every registry);
        # 40 ms in, a second thread evaluates over the shared context. Whatever lock the engine takes before it looks into the
        # context, the two must both finish.
        shared = []
        inner_progs = ["slow() + g(1)", "slow() + (- 1) ++ + sum(1, 2)", "slow(); 'ab' beginWith 'a' && g(2) > 0", "g(slow())"]
        b_progs = ["g(1)", "x + g(x)", "f2(1)", "[x, g(1), max(x, 2)]", "x = g(1); x", "- x ++ + 1", "f2"]
        for how in ("f", "f()"):
            for ip in inner_progs:
                for bp in b_progs:
                    ops = ["H:70:qY1.X2.%s.rn(0,1,0)" % hx(ip), "H:71:qZ100.rn(0,2,0)", "H:72:rn(0,3,0)", "H:73:rn(0,4,0)",
                           "CF:1:%s:70" % hx("f"), "CF:1:%s:73" % hx("f2"), "CF:2:%s:71" % hx("slow"), "REGF:%s:72" % hx("g"),
                           "CV:1:%s:n(0,1,0)" % hx("x"), "PARSE:" + hx("1")]
                    line = " ".join(ops + ["||", "EXEC:1:" + hx(how), "~40/EXEC:1:" + hx(bp), ";;", "EXEC:1:" + hx("1 + 1")])
                    shared.append((line, ("shared-ctx", how, ip, bp, len(ops), "plain")))
        return flow.mk_cases("reenter", items) + flow.mk_cases("shared", shared)

    def show(self, case):
        k, a, d, h, n, site = case.meta
        return {"handler": k, "action": a, "depth": d, "site": site, "ops": case.line.split(" ")[1:]}

    def classify(self, case, impl):
        if case.meta[0] == "shared-ctx": return "shared:" + impl.split(" ")[case.meta[4] + 1].split(":")[0] if len(impl.split(" ")) > case.meta[4] + 1 else impl[:10]
        n = case.meta[4]
        return impl.split(" ")[n].split(":")[0] if len(impl.split(" ")) > n else impl[:10]

    def nontrivial(self, case, impl):
        return True

    def compare(self, case, impl, model):
        if case.meta[0] == "shared-ctx": return None      # two concurrent calls: judged by the oracle (each must return its own result)
        io, mo = impl.split(" "), model.split(" ")
        if len(io) != len(mo): return "length"
        for a, b in zip(io, mo):
            if ":L[" in a or a.startswith(("ERR:", "PANIC", "DEADLOCK")):
                eq, abst = values.exec_equal(a, b)
                if abst: return None      # the model abstained (known dependency class): the rest of this history is not comparable
                if not eq: return "result under re-entrancy"
            elif a != b: return "context/log"
        return None

    def known(self, case, impl, detail):
        return None

    def oracle(self, case, impl):
        kind, aname, depth, h, n, site = case.meta
        outs = impl.split(" ")
        if kind == "shared-ctx":
            if len(outs) < n + 5 or any(o.split(":")[0] in ("DEADLOCK", "PANIC", "HANG", "MISSING", "ABORT") for o in outs) or impl in ("HANG", "ABORT", "MISSING"):
                return "violates", "two threads over one context, the context function holding its context's handle while it re-enters: " + " ".join(o[:12] for o in outs[n:])
            a = values.split_exec(outs[n + 1]); last = values.split_exec(outs[-1])
            if a["cls"] != "OK" or a["value"] != "n(0,1,0)" or last["cls"] != "OK" or last["value"] != "n(0,2,0)":
                return "violates", "normal results expected, got %s / %s" % (outs[n + 1][:40], outs[-1][:40])
            return "ok", ""
        if len(outs) <= n: return "violates", "no result: " + impl[:60]
        o = outs[n]
        if o.startswith("DEADLOCK") or "SKIP" in outs or o in ("HANG", "ABORT", "MISSING"):
            return "violates", "the outer evaluation did not complete (%s): handler %s, action %s, depth %d" % (o[:12], kind, aname, depth)
        d = values.split_exec(o)
        if d["cls"] == "PANIC":
            return "violates", "the outer evaluation panicked: handler %s, action %s" % (kind, aname)
        want = SITES[site][1](tagv(h))
        if d["cls"] != "OK" or d["value"] != want:
            return "violates", "normal result %s expected, got %s" % (want, o[:60])
        d2 = values.split_exec(outs[n + 1])
        if d2["cls"] != "OK" or d2["value"] != "n(0,2,0)":
            return "violates", "follow-up evaluation after the re-entrant one gave " + outs[n + 1][:40]
        return "ok", ""
