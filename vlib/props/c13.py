"""C13 - concurrent use is safe, including first use and concurrent registration."""
import itertools
from .. import build, core, flow, gens, values
from ..core import hx, unhx

PROBES = ["PARSE:" + hx("- 1 + 2 * 3 ++"), "EXEC:1:" + hx("not (1 + 2 * 3 == 7) || min(3, 1) < 2"), "EXEC:2:" + hx("x = 5; x ++ ; AND [true, x > 1]"),
          "EXEC:3:" + hx("sum(1, 2.5) - max(1, 2) in [1.5]"), "PARSE:" + hx("a beginWith 'x' ? [1] : {2: !b}"), "EXEC:4:" + hx("'ab' endWith 'b' && 7 % 4 == 3"),
          "EXEC:5:" + hx("mul(2, 3) << 1 | 1"), "PARSE:" + hx("f(x) -- not in [y]")]

def strip_log(o):
    d = values.split_exec(o)
    if d["log"] is None: return o
    return "%s:%s:%s" % (d["cls"], d["value"], d["ctx"])

class P:
    prop = "C13"
    rule = ("one fresh process per run; the ops after `||` are the process's FIRST engine calls, one thread each, released together by "
            "a barrier. (a) forced initialisation interleavings: the init probe hook parks the initialising thread for 150 ms before stage "
            "0 or after each of the four built-in registration stages while the other threads parse / execute / register; (b) plain races "
            "of 2-8 first calls; (c) registrations racing evaluations that use the registered name, re-registrations inside the window in which "
            "the replaced handler is dropped, registrations arriving while an evaluation is inside a handler, and 200 rounds per process of a "
            "registration racing twelve first uses of that spelling, each followed by a sequential use; (d) 100 rounds per process of four registrations of distinct names released together (one registry or all four), each round followed by a sequential use of every name; (d') 60 rounds of a registration landing inside twelve parses made of `x not OP y` look-aheads; (e) a call that panics inside the engine (a precedence of 2^30 or more overflows the binding power when the operator is looked up) before, beside and ahead of calls that do not use that operator (oracle only). Oracle: no panic, no deadlock, and "
            "every call's result (value and final context; logs are interleaved and ignored) is one that the sequential model produces "
            "under some order of the same calls (all permutations are run through the extracted model). "
            "Non-trivial = distinct run with >= 2 concurrent calls.")
    assumptions = ["the Rust memory model, std::sync::Mutex and once_cell::sync::OnceCell are trusted (partial claim)",
                   "interleavings inside a single parse cannot be forced; a registration of an operator that a concurrently parsed program uses is the known finding D20"]
    trusted_extra = ["hook verif_hooks::set_init_probe (add-only lines in init.rs)"]

    def __init__(self):
        self.allowed = {}
        self.nperm = 0

    def generate(self, tier, rng):
        items = []
        reps = 1 if tier == "quick" else 20
        for _ in range(reps):
            for stage in range(5):
                for combo in [rng.sample(PROBES, 3) for _ in range(4 if tier == "quick" else 12)]:
                    items.append(("PROBE:%d:150 || %s" % (stage, " ".join(combo)), ("probe", stage, 0)))
                # a registration as one of the racing first calls
                for reg, use in [("REGF:%s:61" % hx("newfn"), "EXEC:1:" + hx("newfn(1)")), ("REGP:%s:61" % hx("neg"), "EXEC:1:" + hx("min(1, 2)")),
                                 ("REGI:%s:%x:0:0:61" % (hx("hi"), 111), "EXEC:2:" + hx("1 + 2")), ("REGS:%s:61" % hx("bang"), "PARSE:" + hx("1 ++"))]:
                    items.append(("H:61:rs(%s) PROBE:%d:150 || %s %s %s" % (hx("h61"), stage, reg, use, rng.choice(PROBES)), ("probe-reg", stage, 1)))
        # ... a registration that OVERRIDES a built-in name as one of the racing first calls, the initialising thread parked at
        # every stage: once the round is over the override is in force (whoever initialises must not install the built-in over it)
        for _ in range(reps):
            for stage in range(5):
                for reg, use, want in (("REGF:%s:61" % hx("sum"), "sum(1, 2)", "s(%s)" % hx("h61")), ("REGP:%s:61" % hx("-"), "- 5", "s(%s)" % hx("h61")),
                                       ("REGI:%s:78:0:0:61" % hx("%"), "7 % 2", "s(%s)" % hx("h61")), ("REGS:%s:61" % hx("++"), "5 ++", "s(%s)" % hx("h61"))):
                    line = "H:61:rs(%s) PROBE:%d:150 || %s %s %s %s ;; EXEC:1:%s EXEC:2:%s" % (hx("h61"), stage, reg, rng.choice(PROBES), rng.choice(PROBES), "PARSE:" + hx("1"), hx(use), hx(use))
                    items.append((line, ("probe-override", want, 1)))
        nrace = 60 if tier == "quick" else 5000
        for _ in range(nrace):
            k = rng.randint(2, 8)
            items.append(("|| " + " ".join(rng.choice(PROBES) for _ in range(k)), ("race", k, 0)))
        nreg = 40 if tier == "quick" else 3000
        for _ in range(nreg):
            # registration racing evaluations of the registered name (function / prefix / postfix: looked up once per use)
            kind = rng.choice(["F", "P", "S", "I"])
            if kind == "F": reg, use = "REGF:%s:61" % hx("foo"), "EXEC:%d:" + hx("foo(1)")
            elif kind == "P": reg, use = "REGP:%s:61" % hx("neg"), "EXEC:%d:" + hx("neg 1")
            elif kind == "S": reg, use = "REGS:%s:61" % hx("bang"), "EXEC:%d:" + hx("1 bang")
            else: reg, use = "REGI:%s:%x:0:0:61" % (hx("hi"), 111), "EXEC:%d:" + hx("1 hi 2 hi 3")
            uses = [use % (i + 1) for i in range(rng.randint(1, 2))]
            items.append(("H:61:rs(%s) PARSE:%s || %s %s" % (hx("h61"), hx("1"), reg, " ".join(uses)), ("reg-race", kind, 2)))
        # re-registration of an existing name while other threads call it: the replaced handler takes 150 ms to drop
        # (id >= 900), the calls are issued 40 ms after the registration starts - inside that window
        for kind, reg9, regn, use in [("F", "REGF:%s:900" % hx("foo"), "REGF:%s:61" % hx("foo"), hx("foo(1)")),
                                      ("P", "REGP:%s:900" % hx("neg"), "REGP:%s:61" % hx("neg"), hx("neg 1")),
                                      ("S", "REGS:%s:900" % hx("bang"), "REGS:%s:61" % hx("bang"), hx("1 bang")),
                                      ("I", "REGI:%s:%x:0:0:900" % (hx("hi"), 111), "REGI:%s:%x:0:0:61" % (hx("hi"), 111), hx("1 hi 2"))]:
            for rep in range(2 if tier == "quick" else 20):
                items.append(("H:61:rs(%s) H:900:rs(%s) %s || %s ~40/EXEC:1:%s ~60/EXEC:2:%s" % (hx("h61"), hx("h900"), reg9, regn, use, use),
                              ("rereg-window", kind, 3)))
        # a registration arriving WHILE an evaluation is inside a handler, below other operators: the handler takes 120 ms
        # (scripted delay), the registration is issued 40 ms after the evaluation starts; whatever lock the evaluator holds
        # around operand evaluation or handler calls shows up as a deadlock or a stale result
        slowprogs = ["slow() + (1 + 2) * 3", "(1 + 2) * slow() - 4 / 2", "- slow() + (- 1)", "slow() ++ + 1 ++", "min(slow(), max(1, 2)) + sum(1, 2)",
                     "x = slow() + (2 * 3); x", "[slow() + 1, 2 * 3]", "slow() > 0 ? 1 + 2 : 3 * 4"]
        regs4 = ["REGI:%s:6f:0:0:61" % hx("zzi"), "REGP:%s:61" % hx("zzp"), "REGS:%s:61" % hx("zzs"), "REGF:%s:61" % hx("zzf")]
        for prog in (slowprogs if tier != "quick" else rng.sample(slowprogs, 4)):
            for reg in regs4:
                items.append(("H:61:rs(%s) H:70:qZ120.rn(0,1,0) CF:1:%s:70 PARSE:%s || EXEC:1:%s ~40/%s" % (hx("h61"), hx("slow"), hx("1"), hx(prog), reg),
                              ("reg-inside-handler", reg.split(":")[0], 4)))
        # a registration racing the FIRST uses of that very spelling, many rounds in one process (threads of a round are released
        # together), each round followed by a sequential use: once register_* has returned and the racing calls are over, the
        # operator is in force - whatever the racing first uses did to caches on the way
        for kind in "PSIF":
            for rep in range(3 if tier == "quick" else 40):
                ops = ["H:61:rs(%s)" % hx("h61"), "PARSE:" + hx("1")]
                for k in range(200):
                    w = "w%s%d_%d" % (kind.lower(), rep, k)
                    if kind == "P": reg, use, post = "REGP:%s:61" % hx(w), "PARSE:" + hx("%s 1" % w), "EXEC:1:" + hx("%s 5" % w)
                    elif kind == "S": reg, use, post = "REGS:%s:61" % hx(w), "PARSE:" + hx("1 %s" % w), "EXEC:1:" + hx("5 %s" % w)
                    elif kind == "I": reg, use, post = "REGI:%s:6f:0:0:61" % hx(w), "PARSE:" + hx("1 %s 2" % w), "EXEC:1:" + hx("5 %s 6" % w)
                    else: reg, use, post = "REGF:%s:61" % hx(w), "EXEC:2:" + hx("%s(1)" % w), "EXEC:1:" + hx("%s(5)" % w)
                    # the registering thread is spawned last (it then reaches the barrier last and is the one that releases the
                    # six readers, which are already waiting), or among the readers
                    # the twelve uses start 0, 0.5, .. 5.5 microseconds into the round, and the instant of the registration is swept
                    # over the first 10 microseconds in steps of 0.25 (how tightly the threads of a round start together depends
                    # on what the machine did a moment ago; the window to hit is a fraction of a microsecond wide)
                    uses = ["~n%d/%s" % (j * 500, use) for j in range(12)]
                    reg = "~n%d/%s" % ((k % 40) * 250, reg)
                    par = uses + [reg] if k % 3 else uses[:6] + [reg] + uses[6:]
                    # (the last thread to reach the barrier releases the others and runs on at once: let that be a bystander, so
                    # that the registration and the uses are all woken together)
                    ops += ["||"] + par + ["PARSE:" + hx("0"), ";;", post]
                items.append((" ".join(ops), ("first-use-race", kind, 5)))
        # re-registration (another precedence) racing parses on PERSISTENT threads, then the same threads parse again: whatever a
        # thread cached while the registration was in flight must not outlive the registration's return (per-thread caches die
        # with the one-shot threads of the other families)
        X = hx("1 + 2 wq 3" + " + 2 wq 3" * 50)
        NR = 12
        for rep in range(4 if tier == "quick" else 40):
            ops = ["H:61:rs(%s)" % hx("h61"), "REGI:%s:82:0:0:61" % hx("wq"), "PARSE:" + hx("1")] + ["@r%d/PARSE:%s" % (i, X) for i in range(NR)]
            for k in range(100):
                p_ = "64" if k % 2 == 0 else "82"
                readers = ["@r%d/PARSE:%s" % (i, X) for i in range(NR)]
                # the registration is issued 1 ms into the round: the readers (about 1.2 ms per parse) are in the middle of theirs
                ops += ["||"] + readers + ["~1/REGI:%s:%s:0:0:61" % (hx("wq"), p_), ";;"] + readers
            items.append((" ".join(ops), ("rereg-persistent", "I", 6)))
        # SEVERAL registrations at once (distinct names, one registry or all four), many rounds in one process, each round followed
        # by sequential uses of every name registered in it: no registration is lost, whatever the others did to the table meanwhile
        for kinds in ("IIII", "FFFF", "PPPP", "SSSS", "IPSF", "IIFF"):
            for rep in range(2 if tier == "quick" else 20):
                ops = ["H:61:rs(%s)" % hx("h61"), "PARSE:" + hx("1")]
                for k in range(100):
                    regs, posts = [], []
                    for j, kind in enumerate(kinds):
                        w = "m%s%d_%d_%d" % (kind.lower(), rep, k, j)
                        if kind == "P": reg, post = "REGP:%s:61" % hx(w), "EXEC:1:" + hx("%s 5" % w)
                        elif kind == "S": reg, post = "REGS:%s:61" % hx(w), "EXEC:1:" + hx("5 %s" % w)
                        elif kind == "I": reg, post = "REGI:%s:6f:0:0:61" % hx(w), "EXEC:1:" + hx("5 %s 6" % w)
                        else: reg, post = "REGF:%s:61" % hx(w), "EXEC:1:" + hx("%s(5)" % w)
                        regs.append("~n%d/%s" % (((k + j) % 8) * 250, reg)); posts.append(post)
                    ops += ["||"] + regs + ["PARSE:" + hx("0"), ";;"] + posts
                items.append((" ".join(ops), ("reg-reg-race", kinds, 7)))
        # registrations landing INSIDE parses that are full of `x not OP y` (the parser looks one token past `not` before it knows
        # the operator - a second consultation of the tables inside the first): 60 such look-aheads per parse, twelve parsing
        # threads, the registration swept over the first millisecond of the round; the round must end (no deadlock)
        NX = hx("a not in b" + " && a not in b" * 30 + " || c not == d" * 30)
        for rep in range(2 if tier == "quick" else 20):
            ops = ["H:61:rs(%s)" % hx("h61"), "PARSE:" + hx("1")]
            for k in range(60):
                w = "nl%d_%d" % (rep, k)
                readers = ["PARSE:" + NX for _ in range(12)]
                ops += ["||"] + readers + ["~n%d/REGI:%s:6f:0:0:61" % ((k % 40) * 25000, hx(w)), "~n%d/REGP:%s:61" % (((k + 7) % 40) * 25000, hx(w + "p"))] + [";;", "EXEC:1:" + hx("5 %s 6" % w)]
            items.append((" ".join(ops), ("reg-in-not-lookahead", "I", 8)))
        # a call that panics INSIDE the engine (the one way there is: a precedence of 2^30 or more overflows the i32 binding power,
        # in a build with overflow checks, when the operator is looked up) is that call's own business: the calls of other
        # threads, before, concurrently and afterwards, return their sequential results. (Oracle only: the model's binding
        # powers are unbounded integers, its domain is precedences below 2^30 - DESIGN.md 11.23.)
        for prec in ("7fffffff", "40000000", "7ffffffe"):
            for runner in ("", "@t/"):
                for right in (0, 1):
                    use = hx("1 huge 2")
                    ops = ["REGI:%s:%s:0:%d:0" % (hx("huge"), prec, right), runner + "PARSE:" + use, "PARSE:" + hx("1 + 2 * 3"), "@u/EXEC:1:" + hx("x = 2; x * 4"),
                           "||", "EXEC:2:" + hx("1 + 1"), "PARSE:" + hx("a huge b"), "EXEC:3:" + hx("max(1, 2)"), "@t/EXEC:2:" + hx("[1] == [1]"), ";;",
                           "REGI:%s:6f:0:0:0" % hx("other"), "PARSE:" + hx("1 other 2"), "EXEC:1:" + hx("x + 1")]
                    wants = [None, "ANY", "OK", "n(0,8,0)", None, "n(0,2,0)", "ANY", "n(0,2,0)", "b(1)", None, None, "OK", "n(0,3,0)"]
                    items.append((" ".join(ops), ("engine-panic", wants, 7)))
        return flow.mk_cases("conc", items)

    @staticmethod
    def _rounds(ops):
        """flat indices of the ops of every parallel round (`||` opens a round, `;;` or the end of the line closes it)"""
        rounds, cur = [], None
        for idx, o in enumerate(ops):
            if o == "||":
                cur = []; rounds.append(cur)
            elif o == ";;":
                cur = None
            elif cur is not None:
                cur.append(idx)
        return rounds

    def run_impl(self, lines):
        # the families that need two calls to overlap within a microsecond run one process at a time: several processes of a
        # dozen threads each on the same cores lower the overlap rate (measured: the seeded races were then missed)
        race = [l for l in lines if " ;; " in l]
        rest = [l for l in lines if " ;; " not in l]
        res = core.run_impl(rest)
        res.update(core.run_lines([build.impl_bin("debug")], race, nshards=1))
        return res

    def run_model(self, lines):
        # the sequential model on every order of the concurrent calls: the set of results each call may return.
        # One round: all permutations (two when there are more than four calls); several rounds: every round in the listed
        # order and every round reversed (the families with several rounds race one registration against uses of that name).
        extra = []
        for l in lines:
            cid, rest = l.split(" ", 1)
            ops = rest.split(" ")
            if "||" not in ops: continue
            rounds = self._rounds(ops)
            if len(rounds) == 1:
                n = len(rounds[0])
                perms = list(itertools.permutations(range(n))) if n <= 4 else [tuple(range(n)), tuple(reversed(range(n)))]
                variants = [[p_] for p_ in perms]
            else:
                variants = [[tuple(range(len(r))) for r in rounds], [tuple(reversed(range(len(r)))) for r in rounds]]
            info = self.allowed.setdefault(cid, {"maps": {}, "first": ops.index("||"), "nops": len(ops)})
            for vi, var in enumerate(variants):
                new_ops = list(ops); back = {}
                for r, p_ in zip(rounds, var):
                    for pos, j in enumerate(p_):
                        new_ops[r[pos]] = ops[r[j]]; back[r[pos]] = r[j]
                extra.append("%s~%d %s" % (cid, vi, " ".join(new_ops)))
                info["maps"][vi] = back
        res = core.run_model(lines + extra)
        self.nperm = len(extra)
        for cid, info in self.allowed.items():
            sets = {}
            for vi, back in info["maps"].items():
                out = res.get("%s~%d" % (cid, vi), "").split(" ")
                for pos in range(info["first"] + 1, min(len(out), info["nops"])):
                    o = out[pos]
                    if o in ("||", ";;"): continue
                    o = o.rsplit(":", 1)[0] if o.endswith((":E", ":I")) else o
                    sets.setdefault(back.get(pos, pos), set()).add(strip_log(o))
            info["sets"] = sets
        return res

    def show(self, case):
        return [unhx(o.split(":")[-1]) if o.split(":")[0] in ("EXEC", "PARSE") else o for o in case.line.split(" ")[1:]]

    def classify(self, case, impl):
        return case.meta[0]

    def nontrivial(self, case, impl):
        return True

    def _check(self, case, impl):
        if case.meta[0] == "engine-panic": return None
        info = self.allowed.get(case.cid)
        if not info or "sets" not in info: return None
        outs = impl.split(" ")
        if len(outs) != info["nops"]: return "missing results: " + impl[:80]
        in_round = set()
        for r in self._rounds(case.line.split(" ")[1:]): in_round.update(r)
        first = None
        for pos in range(info["first"] + 1, info["nops"]):
            o = outs[pos]
            if o in ("||", ";;"): continue
            if strip_log(o) not in info["sets"].get(pos, set()):
                msg = "call %d returned %s, not a result of any sequential order %s" % (pos - info["first"] - 1, strip_log(o)[:120], sorted(info["sets"].get(pos, set()))[:3])
                if pos not in in_round:
                    # a sequential call made after the parallel round is over: reported first (a concurrent call that observed a
                    # registration half-way is the known finding D20 and must not hide this one)
                    self.last_pos = pos
                    return msg
                if first is None: first = (pos, msg)
        if first:
            self.last_pos = first[0]
            return first[1]
        return None

    def compare(self, case, impl, model):
        return None if self._check(case, impl) is None else "result set of sequential orders"

    def extra_coverage(self):
        return {"sequential_orders_evaluated_by_model": self.nperm}

    def known(self, case, impl, detail):
        in_round = False
        if case.meta[0] == "rereg-persistent" and "not a result of any sequential order" in detail:
            ops = case.line.split(" ")[1:]
            in_round = any(getattr(self, "last_pos", -1) in r for r in self._rounds(ops))
        if ((case.meta[0] == "reg-race" and case.meta[1] == "I") or in_round) and "not a result of any sequential order" in detail:
            return ("Known_C13_overlap: a registration of an operator that a concurrently parsed program uses can be observed half-way "
                    "(the registries are consulted once per token, with no snapshot) (D20)")
        return None

    def oracle(self, case, impl):
        outs = impl.split(" ")
        if case.meta[0] == "probe-override" and len(outs) >= 2:
            for o in outs[-2:]:
                d = values.split_exec(o)
                if d["cls"] != "OK" or d["value"] != case.meta[1]:
                    return "violates", "the override of a built-in name registered during first use is not in force once the round is over: " + o[:60]
        if case.meta[0] == "engine-panic":
            if len(outs) != len(case.meta[1]): return "violates", "missing results: " + impl[:80]
            for i, (w, o) in enumerate(zip(case.meta[1], outs)):
                if w is None or w == "ANY": continue
                if w == "OK":
                    if o.split(":")[0] != "OK": return "violates", "a call that does not use the operator whose lookup panics returned %s (call %d)" % (o[:50], i)
                    continue
                d = values.split_exec(o)
                if d["cls"] != "OK" or d["value"] != w:
                    return "violates", "a call that does not use the operator whose lookup panics returned %s, alone it returns %s (call %d)" % (o[:50], w, i)
            return "ok", ""
        if impl in ("ABORT", "HANG", "MISSING") or any(o.split(":")[0] in ("PANIC", "DEADLOCK", "SKIP") for o in outs):
            return "violates", "a concurrent call panicked / deadlocked / aborted: " + " ".join(o[:12] for o in outs)
        r = self._check(case, impl)
        if r: return "violates", r
        return "ok", ""
