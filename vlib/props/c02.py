"""C02 - operators group exactly by the documented precedence and associativity."""
import itertools
from .. import build, core, flow, gens
from ..core import hx, unhx
from . import progs

class P:
    prop = "C02"
    rule = ("PARSE of programs whose intended tree is known: random trees over all built-in infix/prefix/postfix operators, "
            "`not OP`, conditionals, calls, lists, maps, rendered (a) with only the parentheses the documented precedence / "
            "associativity rules require (an executable spec written from the property text) and (b) with random redundant "
            "ones; all ordered pairs of infix operators x {plain, not} x 3 operand shapes (exhaustive); all triples of level representatives x `not` masks x the five groupings of three operators; the impl's AST is compared "
            "with the intended tree (oracle) and with the model. Non-trivial = distinct program with at least one operator.")
    assumptions = ["the README table plus `in` (200, documented in the property text) is the documented table; Gen/DocTable.v is regenerated from README.md on every run"]
    trusted_extra = ["vlib/props/progs.py must_paren/render_min: the documented grouping rules as an executable oracle"]

    def generate(self, tier, rng):
        cases = []
        infix, prefix, postfix, _ = gens.builtin_ops(build.table_path())
        PT = progs.prec_table()
        items = []
        # exhaustive operator pairs and triples of shapes
        names = [n for n, *_ in infix]
        A, B, C = ("ref", "a"), ("ref", "b"), ("ref", "c")
        for o1 in names:
            for o2 in names:
                for k1 in ("bin", "nbin"):
                    for k2 in ("bin", "nbin"):
                        if tier == "quick" and k1 == "nbin" and k2 == "nbin": continue
                        for shape in (0, 1, 2):
                            if shape == 0: t = (k1, o1, (k2, o2, A, B), C)
                            elif shape == 1: t = (k1, o1, A, (k2, o2, B, C))
                            else: t = ("tern", (k1, o1, A, B), (k2, o2, B, C), (k1, o1, C, A))
                            items.append(t)
        for p in prefix:
            for o in names[:: (1 if tier != "quick" else 3)]:
                items.append(("bin", o, ("un", p, A), B)); items.append(("bin", o, A, ("un", p, B)))
                items.append(("un", p, ("bin", o, A, B))); items.append(("un", p, ("post", A, postfix[0])))
                items.append(("post", ("un", p, A), postfix[0]))
            for q in postfix:
                items.append(("un", p, ("post", ("post", A, postfix[0]), q)))
                items.append(("post", ("un", p, ("post", A, postfix[0])), q))
                items.append(("post", ("post", ("un", p, A), postfix[0]), q))
        # `x not OP y` nested inside the right operand of another `x not OP y` (in a list, a call, parentheses), the two
        # operators on different levels and an operator of a third level behind: every `not` looks at ITS operator
        reps = ["=", "||", "&&", "==", "|", "^", "&", "<<", "+", "*", "in"]
        for o1 in reps:
            for o2 in reps:
                for mid in ("+", "==", "&&", "*", "|"):
                    inner = ("nbin", o2, C, ("bin", mid, A, B))
                    inner2 = ("bin", mid, ("nbin", o2, C, A), B)
                    for wrap in (lambda e: ("list", [e]), lambda e: ("call", "f", [A, e]), lambda e: e):
                        items.append(("bin", "&&", A, ("nbin", o1, B, wrap(inner))))
                        if tier != "quick" or o1 < o2: items.append(("bin", "||", ("nbin", o1, B, wrap(inner2)), A))
        # three operators in one flat run, one representative per level, `not` before any of them, all five groupings: the
        # negated operator may be met first by an inner level that hands it back (`1 + 2 * 3 not == 7`)
        D = ("ref", "d")
        masks = [(0, 0, 1), (0, 1, 0), (1, 0, 0), (1, 1, 1)] if tier == "quick" else [(i, j, k) for i in (0, 1) for j in (0, 1) for k in (0, 1)]
        for o1 in reps:
            for o2 in reps:
                for o3 in reps:
                    for m in masks:
                        k1, k2, k3 = [("nbin" if x else "bin") for x in m]
                        items.append((k3, o3, (k2, o2, (k1, o1, A, B), C), D))
                        items.append((k3, o3, (k1, o1, A, (k2, o2, B, C)), D))
                        items.append((k1, o1, A, (k3, o3, (k2, o2, B, C), D)))
                        items.append((k1, o1, A, (k2, o2, B, (k3, o3, C, D))))
                        items.append((k2, o2, (k1, o1, A, B), (k3, o3, C, D)))
        fixed = [(("PARSE:" + hx(progs.render_min(t, PT))), ("tree", progs.to_proto(t))) for t in items]
        # the same trees with one redundant pair of parentheses around every operand
        fixed += [(("PARSE:" + hx(progs.render_min(t, PT, rng, 1.0))), ("tree", progs.to_proto(t))) for t in items[:: (5 if tier == "quick" else 1)]]
        cases += flow.mk_cases("pairs", fixed)
        n = 3000 if tier == "quick" else 300000
        rnd = []
        for _ in range(n):
            ts = progs.gen_stmts(rng, depth=rng.choice([2, 3, 4, 5]))
            extra = rng.choice([0.0, 0.0, 0.3])
            src = "; ".join(progs.render_min(t, PT, rng, extra) for t in ts)
            rnd.append(("PARSE:" + hx(src), ("tree", progs.stmts_proto(ts))))
        cases += flow.mk_cases("rand", rnd)
        return cases

    def show(self, case):
        return unhx(case.line.split(" ")[1].split(":")[1])

    def classify(self, case, impl):
        return impl.split(":", 1)[0]

    def nontrivial(self, case, impl):
        return any(ch in case.meta[1] for ch in "BUPT") if case.meta else False

    def run_model(self, lines):
        self.thm = core.ThmRunner()
        return self.thm.run(lines)

    def compare(self, case, impl, model):
        if impl != model:
            return "ast"
        if self.thm.broken(case.cid):
            # the hypotheses of the round-trip theorem hold for this tree but the tokenizer model does not read the printer
            # model's text as etoks(t): theorem C12_round_trip / C02_round_trip no longer speaks about what expr() writes
            return "thm:printer_tokens (Props C12_round_trip: printer text is not the token image etoks)"
        return None

    def extra_coverage(self):
        return {"round_trip_theorem_side_conditions": dict(self.thm.stats)}

    def known(self, case, impl, detail):
        return None

    def oracle(self, case, impl):
        if not case.meta: return "unknown", ""
        want = case.meta[1]
        parts = impl.split(":")
        if parts[0] != "OK":
            if parts[0] == "ERR" and want.count("(") > 200: return "ok", ""   # nesting limit
            return "violates", "well-formed program rejected/failed: " + parts[0]
        if parts[1] != want:
            return "violates", "grouping differs from the documented one: got %s want %s" % (parts[1][:300], want[:300])
        return "ok", ""
