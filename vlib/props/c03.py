"""C03 - built-in operators and functions compute the documented values."""
from fractions import Fraction
from .. import build, core, flow, gens, values
from ..core import hx, unhx
from ..values import mk_num
from . import evalspec

def pool():
    N = []
    for neg, m, s in [(0,0,0),(0,1,0),(1,1,0),(0,2,0),(0,5,1),(0,110,2),(0,11,1),(1,37,1),(0,63,0),(0,64,0),(0,30,1),
                      (0,2**63-1,0),(1,2**63,0),(0,2**63,0),(0,2**96-1,0),(1,2**96-1,0),(0,1,28),(0,10**28-1,0),(0,7,0),(0,3,0),
                      (0,100,2),(0,15,1),(1,10,0),(0,10,0),
                      # width boundaries a cast could truncate at: 2^31, 2^32, 2^32+3, 2^33+1, 65
                      (0,2**31,0),(0,2**32,0),(0,2**32+3,0),(0,2**33+1,0),(0,65,0)]:
        N.append(mk_num(neg, m, s))
    S = ["s()", "s(%s)" % hx("a"), "s(%s)" % hx("ab"), "s(%s)" % hx("é€"), "s(%s)" % hx("abé"), "s(%s)" % hx("b"),
         # strings that look like values of another type: an operand of the wrong type is an error, never a coerced value
         "s(%s)" % hx("2"), "s(%s)" % hx("-3.50"), "s(%s)" % hx("true"), "s(%s)" % hx("[1]")]
    B = ["b(1)", "b(0)"]
    one = mk_num(0, 1, 0); one0 = mk_num(0, 10, 1)
    L = ["l()", "l(%s)" % one, "l(%s;s(%s))" % (one, hx("a")), "l(b(1);b(0))", "l(b(0);%s)" % one, "l(l(%s))" % one, "l(%s)" % one0,
         "l(b(1);b(1))", "l(N)", "l(s(%s);s(%s))" % (hx("ab"), hx("é€"))]
    M = ["m()", "m(%s=%s)" % (one, mk_num(0, 2, 0)), "m(%s=%s)" % (one0, mk_num(0, 20, 1))]
    return N + S + B + L + M + ["N"]

class P:
    prop = "C03"
    rule = ("EXEC with operands bound in the context: every built-in infix operator x every ordered pair from a 50-value pool "
            "covering all six value types (numbers: 0, +-1, fractions, equal pairs with different scales, i64 and 96-bit extremes; "
            "booleans; strings incl. empty and multi-byte; lists incl. empty, nested, mixed; maps; None), every prefix/postfix "
            "operator x every pool value, the four functions on 0..3 pool values, plus random nested programs; every compound assignment with its BASE operator redirected to a user handler and every base operator with its compound form redirected (fresh process each). The documented "
            "value (vlib/props/evalspec.py, exact rationals) is the oracle; value, mantissa and scale are compared with the model. "
            "Non-trivial = distinct (program, operands).")
    assumptions = ["division scale and the rounding region are compared by value only", "rust_decimal's `%` known finding D21"]
    trusted_extra = ["vlib/props/evalspec.py: the documented denotation"]

    def __init__(self):
        self.abstained = 0

    def generate(self, tier, rng):
        infix, prefix, postfix, funcs = gens.builtin_ops(build.table_path())
        vals = pool()
        items = []
        step = 1 if tier != "quick" else 1
        for (op, _p, setter, _r) in infix:
            for i, a in enumerate(vals):
                for j, b in enumerate(vals):
                    if tier == "quick" and (i * 7 + j * 3 + len(op)) % 4 != 0: continue
                    src = ("x %s y; x" % op) if setter else ("x %s y" % op)
                    items.append(("CV:1:%s:%s CV:1:%s:%s EXEC:1:%s" % (hx("x"), a, hx("y"), b, hx(src)), ("infix", op, a, b, setter)))
        for op in prefix:
            for a in vals:
                items.append(("CV:1:%s:%s EXEC:1:%s" % (hx("x"), a, hx("%s x" % op)), ("prefix", op, a)))
        for op in postfix:
            for a in vals:
                items.append(("CV:1:%s:%s EXEC:1:%s" % (hx("x"), a, hx("x %s" % op)), ("postfix", op, a)))
        for f in funcs:
            items.append(("EXEC:1:%s" % hx("%s()" % f), ("func", f, [])))
            for a in vals:
                items.append(("CV:1:%s:%s EXEC:1:%s" % (hx("x"), a, hx("%s(x)" % f)), ("func", f, [a])))
                for b in vals[:: (3 if tier == "quick" else 1)]:
                    items.append(("CV:1:%s:%s CV:1:%s:%s EXEC:1:%s" % (hx("x"), a, hx("y"), b, hx("%s(x, y, x)" % f)), ("func", f, [a, b, a])))
        # a built-in operator is what it is whatever ELSE has been registered: every compound assignment with its base operator
        # redirected to a user handler (`-` re-bound, `-=` not), and every base operator with its compound form redirected
        prec = {op: (p_, r_) for (op, p_, s_, r_) in infix}
        redirected = []
        for (op, _p, setter, _r) in infix:
            other = op[:-1] if (setter and len(op) > 1) else (op + "=" if (op + "=") in prec and not setter else None)
            if not other or other not in prec: continue
            for i, a in enumerate(vals):
                for j, b in enumerate(vals):
                    if (i * 5 + j * 3 + len(op)) % (9 if tier == "quick" else 2) != 0: continue
                    src = ("x %s y; x" % op) if setter else ("x %s y" % op)
                    reg = "H:61:rs(%s) REGI:%s:%x:%d:%d:61" % (hx("h61"), hx(other), prec[other][0], 0 if setter else 1, 1 if prec[other][1] else 0)
                    redirected.append(("%s CV:1:%s:%s CV:1:%s:%s EXEC:1:%s" % (reg, hx("x"), a, hx("y"), b, hx(src)), ("infix", op, a, b, setter)))
        cases = flow.mk_cases("ops", items) + flow.mk_cases("redirected", redirected)
        # conditional selection, list/map construction
        misc = []
        for c in vals:
            misc.append(("CV:1:%s:%s EXEC:1:%s" % (hx("c"), c, hx("c ? [1, 'a'] : {1: c}")), ("tern", c)))
        cases += flow.mk_cases("misc", misc)
        return cases

    def show(self, case):
        m = case.meta
        return str(m) if m else case.line[:200]

    def classify(self, case, impl):
        return impl.split(" ")[-1].split(":")[0]

    def nontrivial(self, case, impl):
        return True

    def compare(self, case, impl, model):
        eq, abst = values.exec_equal(impl.split(" ")[-1], model.split(" ")[-1])
        if abst: self.abstained += 1
        return None if eq else "value"

    def extra_coverage(self):
        return {"inexact_region_abstained": self.abstained}

    def known(self, case, impl, detail):
        m = case.meta
        if m and m[0] == "infix" and m[1] in ("%", "%="):
            a, b = values.parse_value(m[2]), values.parse_value(m[3])
            if a[0] == "n" and b[0] == "n" and b[3] > a[3] and a[2] * 10 ** (b[3] - a[3]) >= 2 ** 96:
                return "Known_C09_rem_rescale: rust_decimal 1.31.0 `%` (D21, dependency)"
        return None

    def oracle(self, case, impl):
        out = impl.split(" ")[-1]
        d = values.split_exec(out)
        if d["cls"] not in ("OK", "ERR"):
            return "violates", "evaluation did not return a result: " + d["cls"]
        m = case.meta
        if not m: return "unknown", ""
        pv = lambda t: evalspec.from_proto(values.parse_value(t))
        if m[0] == "infix":
            want = evalspec.infix(m[1], pv(m[2]), pv(m[3]))
            return evalspec.judge(want, d["cls"], d["value"])
        if m[0] == "prefix": return evalspec.judge(evalspec.prefix(m[1], pv(m[2])), d["cls"], d["value"])
        if m[0] == "postfix": return evalspec.judge(evalspec.postfix(m[1], pv(m[2])), d["cls"], d["value"])
        if m[0] == "func": return evalspec.judge(evalspec.function(m[1], [pv(a) for a in m[2]]), d["cls"], d["value"])
        if m[0] == "tern":
            c = pv(m[1])
            if c[0] != "b": want = evalspec.ERR
            elif c[1]: want = ("l", [("n", Fraction(1)), ("s", "a")])
            else: want = ("m", [(("n", Fraction(1)), c)])
            return evalspec.judge(want, d["cls"], d["value"])
        return "ok", ""
