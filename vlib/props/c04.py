"""C04 - runtime faults surface as Err: no panic, no silently wrapped number; debug and release agree."""
from fractions import Fraction
from .. import build, core, flow, gens, values
from ..core import hx, unhx
from ..values import mk_num
from . import evalspec

MAXM = 2 ** 96 - 1
def edge_pool():
    out = []
    for neg, m, s in [(0,0,0),(0,1,0),(1,1,0),(0,MAXM,0),(1,MAXM,0),(0,MAXM-1,0),(0,MAXM,28),(0,1,28),(0,10**27,27),(0,11,1),
                      (0,2**63-1,0),(1,2**63,0),(0,2**63,0),(1,2**63+1,0),(0,63,0),(0,64,0),(0,65,0),(0,2**32,0),(1,64,0),
                      # non-integral with a long run of trailing zeros (2.5000000000, 0.1000000000, 1.5 at scale 19, 1.25 at scale 28)
                      (0,25*10**9,10),(0,10**9,10),(1,25*10**9,10),(0,15*10**18,19),(0,125*10**26,28),
                      (0,15,1),(0,630,1),(0,5,28),(0,2,0),(0,10,0),(0,MAXM//2+1,0),(0,3,0)]:
        out.append(mk_num(neg, m, s))
    out += ["N", "b(1)", "s(%s)" % hx("1"), "l()", "l(%s)" % mk_num(0, 1, 0), "m()"]
    return out

class P:
    prop = "C04"
    needs_release = True
    rule = ("EXEC in BOTH a debug and a release build of the impl: every numeric/bit operator, compound assignment, postfix "
            "operator and aggregate function over an edge pool (0, +-1, +-Decimal::MAX, MAX-1, 28-digit scales, i64::MIN/MAX, "
            "+-2^63, shift counts -1/-64/0/63/64/65/2^32, fractional, None and every wrong type) - exhaustive over the pool - "
            "plus empty aggregates; twelve kinds of fault as a later element / argument / entry / operand of 22 enclosing forms (after an element that already decides an AND / OR). Oracle: result class is Ok or Err, every listed fault is Err, an Ok number equals the exact "
            "result (or its rounding), and the two builds agree. Non-trivial = distinct (operator, operands).")
    assumptions = ["`<<` discards bits shifted out of 64 bits (two's-complement semantics of the property C03); only the shift COUNT is a fault"]
    trusted_extra = ["cargo --release build of the harness (overflow-checks off) alongside the debug build (overflow-checks on)"]

    def __init__(self):
        self.rel = {}
        self.abstained = 0
        self.profile_mismatch = 0

    def generate(self, tier, rng):
        infix, prefix, postfix, funcs = gens.builtin_ops(build.table_path())
        vals = edge_pool()
        numeric = [o for o in infix if o[0] in ("+", "-", "*", "/", "%", "|", "^", "&", "<<", ">>", "<", "<=", ">", ">=",
                                                "+=", "-=", "*=", "/=", "%=", "<<=", ">>=", "&=", "^=", "|=")]
        items = []
        for (op, _p, setter, _r) in numeric:
            for i, a in enumerate(vals):
                for j, b in enumerate(vals):
                    if tier == "quick" and setter and (i + j) % 3 != 0: continue
                    src = ("x %s y; x" % op) if setter else ("x %s y" % op)
                    items.append(("CV:1:%s:%s CV:1:%s:%s EXEC:1:%s" % (hx("x"), a, hx("y"), b, hx(src)), ("infix", op, a, b, setter)))
        for op in postfix:
            for a in vals:
                items.append(("CV:1:%s:%s EXEC:1:%s" % (hx("x"), a, hx("x %s" % op)), ("postfix", op, a)))
                items.append(("CV:1:%s:%s EXEC:1:%s" % (hx("x"), a, hx("(x %s) %s" % (op, op))), None))
        for op in ("-", "+"):
            for a in vals:
                items.append(("CV:1:%s:%s EXEC:1:%s" % (hx("x"), a, hx("%s x" % op)), ("prefix", op, a)))
        for f in funcs:
            items.append(("EXEC:1:%s" % hx("%s()" % f), ("func", f, [])))
            items.append(("EXEC:1:%s" % hx("%s([])" % f), None))
            for a in vals:
                for b in vals[::2]:
                    items.append(("CV:1:%s:%s CV:1:%s:%s EXEC:1:%s" % (hx("x"), a, hx("y"), b, hx("%s(x, y)" % f)), ("func", f, [a, b])))
        lits = ["1/0", "5%0", "1/0.0", "79228162514264337593543950335+1", "79228162514264337593543950335*1.1",
                "79228162514264337593543950335 ++", "0-79228162514264337593543950335-1", "1<<64", "1<<63", "1<<-1", "1>>-1", "1>>64",
                "1<<1.5", "1.5<<1", "9223372036854775808|0", "AND[]", "OR[]", "min()", "max()", "sum()", "mul()", "min([])",
                "x=79228162514264337593543950335; x+=1; x", "x=1; x/=0; x", "x=1; x<<=64; x", "x=1; x%=0; x", "1/3*3", "2/3",
                "0.0000000000000000000000000001/10", "0.0000000000000000000000000001*0.1"]
        # a fault is reported from WHEREVER it sits: every kind of fault as a later element / argument / entry / operand, after an
        # element that would already decide the surrounding AND / OR / comparison
        faults = ["1 / zero", "1 % zero", "one << big", "2.5 | 1", "min()", "'a' + 1", "nothing + 1", "79228162514264337593543950335 + one",
                  "one <<= big", "- 'a'", "true ++", "1 in 2"]
        nested = []
        for f_ in faults:
            for tmpl in ("AND[1 > 2, %s > 0]", "OR[1 < 2, %s > 0]", "AND[false, %s]", "OR[true, %s]", "AND[true, false, %s]", "OR[false, true, 1, %s]",
                         "[1, %s]", "[%s, 1]", "{1: %s}", "{%s : 1}", "max(1, %s)", "sum(%s, 1)", "false && (%s) > 0", "true || (%s) > 0",
                         "1 in [1, %s]", "x = [1, %s]; 1", "true ? [%s] : 0", "(%s) == (%s)", "not (AND[false, %s])", "AND[false, [%s]]", "1; %s", "%s; 1"):
                nested.append(("CV:1:%s:n(0,0,0) CV:1:%s:n(0,1,0) CV:1:%s:n(0,40,0) EXEC:1:%s" % (hx("zero"), hx("one"), hx("big"), hx(tmpl.replace("%s", f_))), ("must-err",)))
        cases = flow.mk_cases("edges", items) + flow.mk_cases("nested", nested)
        cases += flow.mk_cases("lits", [("EXEC:1:" + hx(s), None) for s in lits])
        return cases

    def run_impl(self, lines):
        dbg = core.run_impl(lines, profile="debug")
        self.rel = core.run_impl(lines, profile="release")
        return dbg

    def show(self, case):
        m = case.meta
        return str(m) if m else unhx(case.line.split(":")[-1])

    def classify(self, case, impl):
        return impl.split(" ")[-1].split(":")[0]

    def nontrivial(self, case, impl):
        return True

    def compare(self, case, impl, model):
        eq, abst = values.exec_equal(impl.split(" ")[-1], model.split(" ")[-1])
        if abst: self.abstained += 1
        return None if eq else "value(debug build)"

    def extra_coverage(self):
        return {"inexact_region_abstained": self.abstained, "release_build_cases": len(self.rel), "debug_release_mismatches": self.profile_mismatch}

    def known(self, case, impl, detail):
        m = case.meta
        if m and m[0] == "infix" and m[1] in ("%", "%="):
            a, b = values.parse_value(m[2]), values.parse_value(m[3])
            if a[0] == "n" and b[0] == "n" and b[3] > a[3] and a[2] * 10 ** (b[3] - a[3]) >= 2 ** 96:
                return "Known_C09_rem_rescale: rust_decimal 1.31.0 `%` (D21, dependency)"
        return None

    def oracle(self, case, impl):
        out = impl.split(" ")[-1]
        rel = self.rel.get(case.cid, "MISSING").split(" ")[-1]
        d = values.split_exec(out)
        r = values.split_exec(rel)
        for which, x in (("debug", d), ("release", r)):
            if x["cls"] not in ("OK", "ERR"):
                return "violates", "%s build: evaluation did not return Ok/Err: %s" % (which, x["cls"])
        if out != rel:
            self.profile_mismatch += 1
            return "violates", "debug and release builds disagree: %s vs %s" % (out[:80], rel[:80])
        m = case.meta
        if not m: return "ok", ""
        if m[0] == "must-err":
            return ("ok", "") if d["cls"] == "ERR" else ("violates", "a fault inside an evaluated part is not reported: " + out[:60])
        pv = lambda t: evalspec.from_proto(values.parse_value(t))
        if m[0] == "infix": want = evalspec.infix(m[1], pv(m[2]), pv(m[3]))
        elif m[0] == "postfix": want = evalspec.postfix(m[1], pv(m[2]))
        elif m[0] == "prefix": want = evalspec.prefix(m[1], pv(m[2]))
        else: want = evalspec.function(m[1], [pv(a) for a in m[2]])
        return evalspec.judge(want, d["cls"], d["value"])
