"""C15 - a failing or panicking handler is contained."""
from fractions import Fraction
from .. import build, core, flow, gens, values
from ..core import hx, unhx
from . import progs, evalspec, speceval
from .c07 import rnd_tree, HIDS, GLOBALS, RET, n

# operator handlers: prefix `!!`, infix `<>`, postfix `+++` (symbolic, prefix-closed with the built-ins) as scripted handlers 22, 23, 24
OPH = {"!!": ("P", 22), "<>": ("I", 23), "+++": ("S", 24), "<~": ("I-setter", 25)}

def tree_with_ops(rng, depth):
    t = rnd_tree(rng, depth)
    r = rng.random()
    if r < 0.25: return ("un", "!!", t)
    if r < 0.5: return ("bin", "<>", t, rnd_tree(rng, 1))
    if r < 0.65: return ("post", ("ref", "v"), "+++")
    if r < 0.8: return ("bin", "<~", ("ref", rng.choice(["v", "w"])), t)
    return t

class Machine2(speceval.Machine):
    """reference semantics extended with scripted operator handlers"""
    def ev(self, t):
        if t[0] == "un" and t[1] == "!!": return self.call(22, [self.ev(t[2])])
        if t[0] == "bin" and t[1] == "<>":
            a = self.ev(t[2]); b = self.ev(t[3]); return self.call(23, [a, b])
        if t[0] == "post" and t[2] == "+++": return self.call(24, [self.ev(t[1])])
        if t[0] == "bin" and t[1] == "<~":
            a = self.ev(t[2]); b = self.ev(t[3])
            if t[2][0] != "ref": raise speceval.Stop("ERR")
            v = self.call(25, [a, b])
            self.ctx[t[2][1]] = ("var", v)
            return ("N",)
        return super().ev(t)

def run2(stmts, ctx, handlers):
    m = Machine2(ctx, handlers, GLOBALS)
    last = ("N",)
    try:
        for s in stmts: last = m.ev(s)
        return "OK", last, m.ctx, m.log
    except speceval.Stop as e:
        return e.kind, None, m.ctx, m.log

class P:
    prop = "C15"
    rule = ("fault enumeration, one fresh process per case: random programs over logging handlers of every kind (context function by "
            "call and by bare name, global function, prefix / infix / postfix operator); for each program with m handler invocations and "
            "each k < m, the k-th invocation returns Err or panics; the faulted evaluation is followed by a battery on the same context "
            "(dump, a new evaluation reading and assigning), on another context, on another thread, every registry, and the most deeply nested "
            "programs the parser accepts on the faulted thread; plus 300 contained faults on one long-lived thread (each must reach its handler and return as the first did) followed by a plain evaluation. Oracle: Err -> ERR, panic -> an "
            "unwind caught by the caller, exactly k+1 log entries, no lock poisoned, the context equals the reference semantics cut at "
            "that point, follow-ups return their normal results. Non-trivial = distinct (program, k, fault kind).")
    assumptions = ["a panic is observed with catch_unwind on the calling thread"]
    trusted_extra = []

    def __init__(self):
        self.skipped = 0

    def generate(self, tier, rng):
        PT = dict(progs.prec_table()); PT["<>"] = (105, False); PT["<~"] = (20, True)
        ntrees = 120 if tier == "quick" else 8000
        items = []
        # exhaustive small programs: every handler kind alone, by call / bare name
        small = [("ref", "f0"), ("call", "f0", [("lit", "1")]), ("call", "g0", [("lit", "1")]), ("un", "!!", ("lit", "1")),
                 ("bin", "<>", ("lit", "1"), ("lit", "2")), ("post", ("lit", "1"), "+++"),
                 ("bin", "=", ("ref", "v"), ("ref", "f0")), ("list", [("ref", "f0"), ("ref", "f1")]),
                 ("bin", "<~", ("ref", "v"), ("lit", "3")),
                 # assignment TARGETS that are context functions: the read of the target is a handler invocation like any other
                 ("bin", "=", ("ref", "f0"), ("lit", "1")), ("bin", "+=", ("ref", "f0"), ("lit", "1")), ("bin", "<~", ("ref", "f1"), ("lit", "3")),
                 ("bin", "=", ("ref", "f0"), ("ref", "f1")), ("bin", "=", ("ref", "f0"), ("call", "g0", [("ref", "f0")])),
                 # setters whose handler fails (a built-in one on a non-number, a scripted one by injection) on targets of every type
                 ("bin", "+=", ("ref", "s"), ("lit", "1")), ("bin", "-=", ("ref", "l"), ("lit", "1")), ("bin", "*=", ("ref", "m"), ("lit", "2")),
                 ("bin", "<<=", ("ref", "s"), ("lit", "1")), ("bin", "<~", ("ref", "s"), ("lit", "3")), ("bin", "<~", ("ref", "l"), ("ref", "f0")),
                 ("bin", "<~", ("ref", "m"), ("lit", "3")), ("bin", "+=", ("ref", "l"), ("ref", "f0"))]
        progs_list = [[t] for t in small] + [[("bin", "=", ("ref", "w"), ("lit", "9")), t, ("bin", "=", ("ref", "v"), ("lit", "8"))] for t in small]
        for _ in range(ntrees):
            progs_list.append([tree_with_ops(rng, rng.choice([2, 3])) for _ in range(rng.choice([1, 2, 3]))])
        for stmts in progs_list:
            handlers = {}
            for hid in list(HIDS.values()) + list(GLOBALS.values()) + [22, 23, 24, 25]:
                handlers[hid] = ("count", [("ret", rng.choice(RET)) for _ in range(rng.randint(1, 3))])
            # (variables of every type: a failing assignment must leave a string, a list or a map exactly as it was)
            ctx = {"v": ("var", n(4)), "s": ("var", ("s", "abc")), "l": ("var", ("l", [n(1), n(2)])), "m": ("var", ("m", [(n(1), n(2))]))}
            for name, hid in HIDS.items(): ctx[name] = ("func", hid)
            cls, val, fctx, log = run2(stmts, ctx, handlers)
            if cls == "ERR" and not log:
                # the program fails by itself (a built-in handler rejects its operands) before any scripted handler runs
                items.append(self.mk(stmts, ctx, handlers, PT, ("fail", -1)))
            ks = list(range(len(log)))
            if tier == "quick" and len(ks) > 3: ks = rng.sample(ks, 3)
            for k in ks:
                for fault in ("fail", "panic"):
                    hid = log[k][0]
                    idx = sum(1 for (h, _a) in log[:k] if h == hid)
                    sc = handlers[hid][1]
                    lst = [sc[min(i, len(sc) - 1)] for i in range(idx)] + [(fault,) if (fault != "fail" or k % 5 == 0) else ("fail", k % 5)]
                    h2 = dict(handlers); h2[hid] = ("count", lst)
                    items.append(self.mk(stmts, ctx, h2, PT, (fault, k)))
        cases = flow.mk_cases("fault", items)
        # many contained faults on ONE long-lived thread (whatever a fault leaks per thread accumulates), then a plain evaluation
        many = []
        for fault, prog in (("fail", "g0(1)"), ("panic", "g0(1)"), ("panic", "[[f0]]"), ("panic", "1 <> 2"), ("fail", "!! 1"), ("panic", "{1 : [v +++]}")):
            sc = {"fail": "e", "panic": "p"}[fault]
            ops = ["H:%d:%s" % (h, sc) for h in (10, 20, 22, 23, 24)]
            ops += ["REGF:%s:20" % hx("g0"), "REGP:%s:22" % hx("!!"), "REGI:%s:%x:0:0:23" % (hx("<>"), 105), "REGS:%s:24" % hx("+++"),
                    "CF:1:%s:10" % hx("f0"), "CV:1:%s:n(0,4,0)" % hx("v")]
            nset = len(ops)
            ops += ["@w/EXEC:1:" + hx(prog)] * 300 + ["@w/EXEC:1:" + hx("1 + 1")]
            many.append((" ".join(ops), ([], {}, {}, (fault, 300), prog, nset)))
        cases += flow.mk_cases("many", many)
        return cases

    def mk(self, stmts, ctx, handlers, PT, tag):
        src = "; ".join(progs.render_min(s, PT) for s in stmts)
        ops = ["H:%d:%s" % (hid, speceval.to_proto_script(s)) for hid, s in sorted(handlers.items())]
        ops += ["REGF:%s:%d" % (hx(nm), hid) for nm, hid in GLOBALS.items()]
        ops += ["REGP:%s:22" % hx("!!"), "REGI:%s:%x:0:0:23" % (hx("<>"), 105), "REGS:%s:24" % hx("+++"), "REGI:%s:%x:1:1:25" % (hx("<~"), 20)]
        for k, v in ctx.items():
            ops.append("CV:1:%s:%s" % (hx(k), speceval.to_proto_value(v[1])) if v[0] == "var" else "CF:1:%s:%d" % (hx(k), v[1]))
        nset = len(ops)
        # follow-ups: the same context, another context, another thread - and every registry (infix, prefix, postfix,
        # function: look-ups of built-ins and a fresh registration after the fault), none of whose locks may be left poisoned
        ops += ["EXEC:1:" + hx(src), "CD:1", "EXEC:1:" + hx("q = 2; q + 1"), "EXEC:2:" + hx("7 * 6"), "@other/EXEC:1:" + hx("q"),
                "EXEC:2:" + hx("sum(1, 2) - - 1 ++"), "H:77:rn(0,b,0)", "REGF:%s:77" % hx("zzf"), "REGP:%s:77" % hx("zzp"), "REGS:%s:77" % hx("zzs"),
                "REGI:%s:6e:0:0:77" % hx("zzi"), "@other/EXEC:2:" + hx("zzf() + (zzp 1) + (1 zzs) + (1 zzi 2) + max(1, 2)"),
                # the faulted program once more on a persistent thread, then, on that thread, the most deeply nested programs the
                # parser accepts: they still evaluate (plain EXEC ops run on a fresh thread each)
                "@same/EXEC:1:" + hx(src), "@same/EXEC:2:" + hx("- " * 255 + "1"), "@same/EXEC:2:" + hx("[" * 255 + "2" + "]" * 255)]
        return (" ".join(ops), (stmts, ctx, handlers, tag, src, nset))

    def show(self, case):
        stmts, ctx, handlers, tag, src, nset = case.meta
        return {"program": src, "fault": tag, "handlers": {h: speceval.to_proto_script(s) for h, s in handlers.items()}}

    def classify(self, case, impl):
        nset = case.meta[5]
        o = impl.split(" ")
        return o[nset].split(":")[0] if len(o) > nset else impl[:10]

    def nontrivial(self, case, impl):
        return True

    def compare(self, case, impl, model):
        io, mo = impl.split(" "), model.split(" ")
        if len(io) != len(mo): return "length"
        for a, b in zip(io, mo):
            if ":L[" in a:
                eq, abst = values.exec_equal(a, b)
                if abst: return None      # the model abstained (known dependency class): the rest of this history is not comparable
                if not eq: return "faulted evaluation / follow-up"
            elif a != b: return "context after the fault"
        return None

    def extra_coverage(self):
        return {"oracle_skipped": self.skipped}

    def known(self, case, impl, detail):
        return None

    def oracle(self, case, impl):
        stmts, ctx, handlers, tag, src, nset = case.meta
        outs = impl.split(" ")
        if case.gen == "many":
            # a long-lived thread: after 300 contained faults it still evaluates
            # ... and each of the 300 is itself a later evaluation of the ones before it: it reaches the handler and the fault
            # reaches the caller, as the first one did
            wantcls = {"fail": "ERR", "panic": "PANIC"}[tag[0]]
            first = outs[nset]
            for i, o in enumerate(outs[nset:-1]):
                if o.split(":")[0] != wantcls or o != first:
                    return "violates", "contained %s number %d on one thread returned %s, the first one returned %s" % (tag[0], i + 1, o[:50], first[:50])
            last = values.split_exec(outs[-1])
            if last["cls"] != "OK" or last["value"] != "n(0,2,0)":
                return "violates", "after %d contained %ss on one thread, `1 + 1` on that thread returned %s" % (tag[1], tag[0], outs[-1][:50])
            return "ok", ""
        if len(outs) < nset + 15: return "violates", "battery incomplete: " + " ".join(o[:10] for o in outs[nset:])
        main, dump, f1, f2, f3 = outs[nset:nset + 5]
        f4, f5 = outs[nset + 5], outs[nset + 11]
        if any(o.startswith(("PANIC", "DEADLOCK", "ABORT")) for o in outs[nset + 5:nset + 12] + outs[nset + 13:nset + 15]):
            return "violates", "after the %s a registry is unusable: %s" % (tag[0], " ".join(o[:12] for o in outs[nset + 5:nset + 15]))
        d13, d14 = values.split_exec(outs[nset + 13]), values.split_exec(outs[nset + 14])
        if d13["cls"] != "OK" or d13["value"] != "n(1,1,0)" or d14["cls"] != "OK" or not d14["value"].startswith("l(l(l("):
            return "violates", "after the %s, the deepest accepted programs no longer evaluate on that thread: %s %s" % (tag[0], outs[nset + 13][:40], outs[nset + 14][:40])
        cls, val, fctx, log = run2(stmts, ctx, handlers)
        if cls == "SKIP":
            self.skipped += 1; return "ok", ""
        d = values.split_exec(main)
        if d["cls"] != cls:
            return "violates", "%s injected at invocation %d: evaluation returned %s, expected %s" % (tag[0], tag[1], d["cls"], cls)
        want_log = "L[%s]" % ";".join("%d(%s)" % (h, ",".join(speceval.to_proto_value(a) for a in args)) for h, args in log)
        if d["log"] != want_log and not speceval.log_matches(d["log"], log):
            return "violates", "handlers invoked: %s, expected exactly %s" % (d["log"], want_log)
        if dump.startswith("C!") or dump == "PANIC":
            return "violates", "the context's lock is poisoned after the %s" % tag[0]
        have = dict(values.ctx_items(dump))
        for k, v in fctx.items():
            if v[0] == "var":
                if hx(k) not in have or have[hx(k)].startswith("F") or not evalspec.seq(evalspec.from_proto(values.parse_value(have[hx(k)])), v[1]):
                    return "violates", "after the fault, %s is %s; as-if-stopped semantics give %s" % (k, have.get(hx(k)), v[1])
        for name, o, wantv in (("same context", f1, "n(0,3,0)"), ("another context", f2, "n(0,2a,0)"), ("another thread", f3, "n(0,2,0)"),
                               ("the built-in registries", f4, "n(0,5,0)"), ("fresh registrations in every registry", f5, "n(0,2e,0)")):
            dd = values.split_exec(o)
            if dd["cls"] != "OK" or dd["value"] != wantv:
                return "violates", "follow-up on %s after the %s returned %s" % (name, tag[0], o[:50])
        return "ok", ""
